/-
  Luqum.Lemmas.TransResolveChain — `UnknownOperationResolver` with an explicit target and the chain
  condition: the result has it if, in the query, every operand but the last of every implicit
  operation keeps its lexing when the operator word is printed right behind it (`wordAfterOK`;
  finding KF7 is the failure of this: `a(b)` becomes `aAND (b)`).
-/
import Luqum.Lemmas.TransResolve

namespace Luqum
open Luqum.Compl (wordTerm boundText)
open Luqum.Props.C10 (relabel relabelList relabelList_eq_map)

/-! ### followers, seen from a token that is not the one right before them -/

/-- `r'` is at least as good a follower as `r` for every token that is separated from it by some
text `a` that is not empty -/
def Rel₁ (r' r : Str) : Prop :=
  ∀ (a : Str), a ≠ [] → ∀ (k : TokK) (x : Str), followOK k x (a ++ r) = true → followOK k x (a ++ r') = true

theorem Rel.toRel₁ {r' r : Str} (h : Rel r' r) : Rel₁ r' r := fun a _ k x hf => h a k x hf

theorem Rel₁.pre {r' r : Str} (h : Rel₁ r' r) (b : Str) : Rel₁ (b ++ r') (b ++ r) := by
  intro a ha k x hf
  rw [← List.append_assoc] at hf ⊢
  exact h (a ++ b) (by simp [ha]) k x hf

theorem Rel₁.cons {r' r : Str} (h : Rel₁ r' r) (c : Char) : Rel₁ (c :: r') (c :: r) := h.pre [c]

/-- behind a text that is not empty, `Rel₁` is enough -/
theorem Rel₁.rel {r' r : Str} (h : Rel₁ r' r) {b : Str} (hb : b ≠ []) : Rel (b ++ r') (b ++ r) := by
  intro a k x hf
  rw [← List.append_assoc] at hf ⊢
  exact h (a ++ b) (by simp [hb]) k x hf

theorem Rel₁.relCons {r' r : Str} (h : Rel₁ r' r) (c : Char) : Rel (c :: r') (c :: r) :=
  h.rel (b := [c]) (by simp)

/-- a text that is empty or starts with a character that is not a digit -/
def NoDigitStart (r : Str) : Prop := r = [] ∨ ∃ c r', r = c :: r' ∧ isDigitU c = false

theorem startsDD_noDigit {a r' r : Str} (hs : NoDigitStart r') (h : startsDD (a ++ r') = true) :
    startsDD (a ++ r) = true := by
  match a with
  | [] =>
    rcases hs with rfl | ⟨c, r'', rfl, hc⟩
    · simp [startsDD] at h
    · cases r'' <;> simp [startsDD, hc] at h
  | [d] =>
    rcases hs with rfl | ⟨c, r'', rfl, hc⟩
    · simp [startsDD] at h
    · simp [startsDD, hc] at h
  | d1 :: d2 :: a' => simpa [startsDD] using h

/-- **a text that does not start with a digit is, for every token but the one right before it, a
better follower than any text** -/
theorem rel₁_of_noDigit {r' : Str} (hs : NoDigitStart r') (r : Str) : Rel₁ r' r := by
  intro a ha k x hf
  cases a with
  | nil => exact absurd rfl ha
  | cons c0 a' =>
    have hterm : termStops x.reverse (c0 :: a' ++ r) = true → termStops x.reverse (c0 :: a' ++ r') = true := by
      simp only [List.cons_append, termStops, Bool.and_eq_true, Bool.not_eq_true', bne_iff_ne, ne_eq,
        Bool.and_eq_false_iff]
      rintro ⟨h1, h2⟩
      refine ⟨h1, ?_⟩
      rcases h2 with h2 | h2
      · exact Or.inl h2
      · right
        cases hd : startsDD (a' ++ r') with
        | false => rfl
        | true => rw [startsDD_noDigit hs hd] at h2; cases h2
    cases k <;> first | exact hterm hf | rfl | exact hf

/-- a word that starts with a character which is neither a digit nor a colon, followed by more text,
is as good a follower as the word alone -/
theorem rel_extend (c : Char) (w B : Str) (hc : isDigitU c = false) (hc' : c ≠ ':') :
    Rel (c :: w ++ B) (c :: w) := by
  intro a k x hf
  cases a with
  | nil =>
    have hterm : termStops x.reverse (c :: w) = true → termStops x.reverse (c :: (w ++ B)) = true := by
      simp [termStops, hc']
    cases k <;> first | exact hterm hf | rfl | exact hf
  | cons c0 a' =>
    have hs : NoDigitStart (c :: w ++ B) := Or.inr ⟨c, w ++ B, rfl, hc⟩
    exact rel₁_of_noDigit hs (c :: w) (c0 :: a') (by simp) k x hf

theorem opWord_cases {k : OpK} (hk : k = .and ∨ k = .or) :
    ∃ c w, k.word = c :: w ∧ isDigitU c = false ∧ c ≠ ':' := by
  rcases hk with rfl | rfl
  · exact ⟨'A', ['N', 'D'], rfl, by decide +kernel, by decide⟩
  · exact ⟨'O', ['R'], rfl, by decide +kernel, by decide⟩

theorem noDigitStart_word {k : OpK} (hk : k = .and ∨ k = .or) (B : Str) : NoDigitStart (k.word ++ B) := by
  obtain ⟨c, w, hw, hc, _⟩ := opWord_cases hk
  rw [hw]; exact Or.inr ⟨c, w ++ B, rfl, hc⟩

theorem rel_word_extend {k : OpK} (hk : k = .and ∨ k = .or) (B : Str) : Rel (k.word ++ B) k.word := by
  obtain ⟨c, w, hw, hc, hc'⟩ := opWord_cases hk
  rw [hw]; exact rel_extend c w B hc hc'

/-! ### words, phrases and range bounds are printed as before -/

theorem relabel_full_of_isWP (s : NumStyle) (k : OpK) (h : Str) {e : Tree} (he : isWP e = true) :
    (relabel k h e).full s = e.full s ∧ ∀ R, (relabel k h e).chainAt s R = e.chainAt s R := by
  cases e with
  | term k' v l => cases k' <;> simp_all [isWP, relabel, Tree.full, Tree.chainAt]
  | _ => simp [isWP] at he

theorem relabel_full_of_isBound (s : NumStyle) (k : OpK) (h : Str) {e : Tree} (he : isBound e = true) :
    (relabel k h e).full s = e.full s ∧ ∀ R, (relabel k h e).chainAt s R = e.chainAt s R := by
  cases e with
  | term k' v l => cases k' <;> simp_all [isBound, relabel, Tree.full, Tree.chainAt]
  | unary k' e' l =>
    cases k' <;> simp [isBound] at he
    have := relabel_full_of_isWP s k h he
    simp [relabel, Tree.full, Tree.chainAt, this.1, this.2]
  | _ => simp [isBound] at he

/-! ### what the result prints -/

theorem fulls_addHeads_cons (h : Str) (x : Tree) (r : List Tree) :
    addHeads h (x :: r) = x :: r.map (fun c => c.setHead (h ++ c.head)) := rfl

mutual
/-- what the result prints, followed by `R'`, is — for every token but the one right before it — a
better follower than what the tree prints followed by `R` -/
theorem relabel_rel₁ (s : NumStyle) (k : OpK) (hk : k = .and ∨ k = .or) (h : Str) :
    ∀ (t : Tree) (R' R : Str), Rel₁ R' R → Rel₁ ((relabel k h t).full s ++ R') (t.full s ++ R)
  | .term .., R', R, hR => by
    simp only [relabel, Tree.full, noName_head'', noName_tail'', List.append_assoc]
    exact ((hR.pre _).pre _).pre _
  | .none _, R', R, hR => by simpa [relabel, Tree.full] using hR
  | .field n e l, R', R, hR => by
    simp only [relabel, Tree.full, noName_head'', noName_tail'', List.append_assoc, List.cons_append,
      List.nil_append]
    exact (((relabel_rel₁ s k hk h e _ _ (hR.pre _)).cons ':').pre _).pre _
  | .group k' e l, R', R, hR => by
    simp only [relabel, Tree.full, noName_head'', noName_tail'', List.append_assoc, List.cons_append,
      List.nil_append]
    exact ((relabel_rel₁ s k hk h e _ _ ((hR.pre _).cons ')')).cons '(').pre _
  | .approx k' e n l, R', R, hR => by
    simp only [relabel, Tree.full, noName_head'', noName_tail'', List.append_assoc, List.cons_append,
      List.nil_append]
    exact (relabel_rel₁ s k hk h e _ _ (((hR.pre _).pre _).cons '~')).pre _
  | .boost e n l, R', R, hR => by
    simp only [relabel, Tree.full, noName_head'', noName_tail'', List.append_assoc, List.cons_append,
      List.nil_append]
    exact (relabel_rel₁ s k hk h e _ _ (((hR.pre _).pre _).cons '^')).pre _
  | .unary k' e l, R', R, hR => by
    simp only [relabel, Tree.full, noName_head'', noName_tail'', List.append_assoc]
    exact ((relabel_rel₁ s k hk h e _ _ (hR.pre _)).pre _).pre _
  | .orange k' e i l, R', R, hR => by
    simp only [relabel, Tree.full, noName_head'', noName_tail'', List.append_assoc]
    exact (((relabel_rel₁ s k hk h e _ _ (hR.pre _)).pre _).pre _).pre _
  | .range a b il ih l, R', R, hR => by
    simp only [relabel, Tree.full, noName_head'', noName_tail'', List.append_assoc, List.cons_append,
      List.nil_append]
    exact ((relabel_rel₁ s k hk h a _ _
      ((relabel_rel₁ s k hk h b _ _ ((hR.pre _).cons _)).pre _)).cons _).pre _
  | .op .unk xs l, R', R, hR => by
    simp only [relabel, Tree.full, noName_head'', noName_tail'', List.append_assoc]
    refine Rel₁.pre ?_ _
    cases xs with
    | nil => simpa [relabelList, addHeads, Tree.fulls, joinWith] using hR.pre _
    | cons x r =>
      simp only [relabelList, fulls_addHeads_cons, Tree.fulls, joinWith_cons, List.append_assoc]
      refine relabel_rel₁ s k hk h x _ _ ?_
      cases r with
      | nil => simpa [relabelList, Tree.fulls, tailJoin] using hR.pre _
      | cons y r' =>
        refine rel₁_of_noDigit ?_ _
        simp only [relabelList, List.map_cons, Tree.fulls, tailJoin, List.append_assoc]
        exact noDigitStart_word hk _
  | .op .and xs l, R', R, hR => by
    simp only [relabel, Tree.full, noName_head'', noName_tail'', List.append_assoc]
    refine Rel₁.pre ?_ _
    cases xs with
    | nil => simpa [relabelList, Tree.fulls, joinWith] using hR.pre _
    | cons x r =>
      simp only [relabelList, Tree.fulls, joinWith_cons, List.append_assoc]
      exact relabel_rel₁ s k hk h x _ _ (relabels_rel₁ s k hk h .and r _ _ (hR.pre _))
  | .op .or xs l, R', R, hR => by
    simp only [relabel, Tree.full, noName_head'', noName_tail'', List.append_assoc]
    refine Rel₁.pre ?_ _
    cases xs with
    | nil => simpa [relabelList, Tree.fulls, joinWith] using hR.pre _
    | cons x r =>
      simp only [relabelList, Tree.fulls, joinWith_cons, List.append_assoc]
      exact relabel_rel₁ s k hk h x _ _ (relabels_rel₁ s k hk h .or r _ _ (hR.pre _))
  | .op .bool xs l, R', R, hR => by
    simp only [relabel, Tree.full, noName_head'', noName_tail'', List.append_assoc]
    refine Rel₁.pre ?_ _
    cases xs with
    | nil => simpa [relabelList, Tree.fulls, joinWith] using hR.pre _
    | cons x r =>
      simp only [relabelList, Tree.fulls, joinWith_cons, List.append_assoc]
      exact relabel_rel₁ s k hk h x _ _ (relabels_rel₁ s k hk h .bool r _ _ (hR.pre _))
/-- the same for the operands after the first one of an operation that keeps its class -/
theorem relabels_rel₁ (s : NumStyle) (k : OpK) (hk : k = .and ∨ k = .or) (h : Str) (k' : OpK) :
    ∀ (xs : List Tree) (R' R : Str), Rel₁ R' R →
      Rel₁ (restStr s k' (relabelList k h xs) R') (restStr s k' xs R)
  | [], R', R, hR => hR
  | x :: r, R', R, hR => by
    rw [relabelList, restStr_cons, restStr_cons]
    exact (relabel_rel₁ s k hk h x _ _ (relabels_rel₁ s k hk h k' r _ _ hR)).pre _
end

theorem unWord_ne_nil (k : UnK) : k.word ≠ [] := by cases k <;> simp [UnK.word]
theorem orWord_ne_nil (k : ORK) : k.word ≠ [] := by cases k <;> simp [ORK.word]
theorem opWord_ne_nil {k : OpK} (hk : k = .and ∨ k = .or) : k.word ≠ [] := by
  rcases hk with rfl | rfl <;> simp [OpK.word]

/-- the operands after the first one of an AND / OR operation that keeps its class, full form -/
theorem relabels_rel (s : NumStyle) (k : OpK) (hk : k = .and ∨ k = .or) (h : Str) (k' : OpK)
    (hk' : k' = .and ∨ k' = .or) (xs : List Tree) (R' R : Str) (hR : Rel R' R) :
    Rel (restStr s k' (relabelList k h xs) R') (restStr s k' xs R) := by
  cases xs with
  | nil => exact hR
  | cons x r =>
    rw [relabelList, restStr_cons, restStr_cons]
    exact (relabel_rel₁ s k hk h x _ _ (relabels_rel₁ s k hk h k' r _ _ hR.toRel₁)).rel (opWord_ne_nil hk')

theorem not_unk_of_operandOK {k' : OpK} (hk' : k' = .and ∨ k' = .or) {x : Tree}
    (h : operandOK k' x = true) : isOpK .unk x = false := by
  rcases hk' with rfl | rfl <;> cases x <;> simp_all [operandOK, isOpK, isOp']

theorem not_unk_of_nonop {x : Tree} (h : isOp' x = false) : isOpK .unk x = false := by
  cases x <;> simp_all [isOpK, isOp']

/-- **what the result prints is a better follower, also for the token right before it**, when the
tree is canonical and not itself an implicit operation -/
theorem relabel_rel (s : NumStyle) (k : OpK) (hk : k = .and ∨ k = .or) (h : Str) :
    ∀ (t : Tree) (uf : Bool) (R' R : Str), CanonAt uf t = true → isOpK .unk t = false → Rel R' R →
      Rel ((relabel k h t).full s ++ R') (t.full s ++ R)
  | .term .., _, R', R, _, _, hR => by
    simp only [relabel, Tree.full, noName_head'', noName_tail'', List.append_assoc]
    exact ((hR.pre _).pre _).pre _
  | .none _, _, _, _, hc, _, _ => by simp [CanonAt] at hc
  | .field n e l, _, R', R, _, _, hR => by
    simp only [relabel, Tree.full, noName_head'', noName_tail'', List.append_assoc, List.cons_append,
      List.nil_append]
    exact (((relabel_rel₁ s k hk h e _ _ (hR.toRel₁.pre _)).relCons ':').pre _).pre _
  | .group k' e l, _, R', R, _, _, hR => by
    simp only [relabel, Tree.full, noName_head'', noName_tail'', List.append_assoc, List.cons_append,
      List.nil_append]
    exact ((relabel_rel₁ s k hk h e _ _ ((hR.toRel₁.pre _).cons ')')).relCons '(').pre _
  | .approx .fuzzy e n l, _, R', R, hc, _, hR => by
    simp only [CanonAt] at hc
    simp only [relabel, Tree.full, noName_head'', noName_tail'', List.append_assoc, List.cons_append,
      List.nil_append, (relabel_full_of_isWP s k h (isWP_of_isWord hc)).1]
    exact ((((hR.pre _).pre _).cons '~').pre _).pre _
  | .approx .proximity e n l, _, R', R, hc, _, hR => by
    simp only [CanonAt] at hc
    simp only [relabel, Tree.full, noName_head'', noName_tail'', List.append_assoc, List.cons_append,
      List.nil_append, (relabel_full_of_isWP s k h (isWP_of_isPhrase hc)).1]
    exact ((((hR.pre _).pre _).cons '~').pre _).pre _
  | .boost e n l, _, R', R, hc, _, hR => by
    simp only [CanonAt, Bool.and_eq_true, Bool.not_eq_true'] at hc
    simp only [relabel, Tree.full, noName_head'', noName_tail'', List.append_assoc, List.cons_append,
      List.nil_append]
    exact (relabel_rel s k hk h e false _ _ hc.1.1.1 (not_unk_of_nonop hc.1.1.2)
      (((hR.pre _).pre _).cons '^')).pre _
  | .unary k' e l, _, R', R, _, _, hR => by
    simp only [relabel, Tree.full, noName_head'', noName_tail'', List.append_assoc]
    exact ((relabel_rel₁ s k hk h e _ _ (hR.toRel₁.pre _)).rel (unWord_ne_nil k')).pre _
  | .orange k' e i l, _, R', R, _, _, hR => by
    simp only [relabel, Tree.full, noName_head'', noName_tail'', List.append_assoc]
    exact (((relabel_rel₁ s k hk h e _ _ (hR.toRel₁.pre _)).pre _).rel (orWord_ne_nil k')).pre _
  | .range a b il ih l, _, R', R, _, _, hR => by
    simp only [relabel, Tree.full, noName_head'', noName_tail'', List.append_assoc, List.cons_append,
      List.nil_append]
    exact ((relabel_rel₁ s k hk h a _ _
      ((relabel_rel₁ s k hk h b _ _ ((hR.toRel₁.pre _).cons _)).pre _)).relCons _).pre _
  | .op .unk xs l, _, _, _, _, hu, _ => by simp [isOpK] at hu
  | .op .bool xs l, _, _, _, hc, _, _ => by simp [CanonAt] at hc
  | .op .and xs l, _, R', R, hc, _, hR => by
    simp only [CanonAt, Bool.and_eq_true] at hc
    simp only [relabel, Tree.full, noName_head'', noName_tail'', List.append_assoc]
    refine Rel.pre ?_ _
    cases xs with
    | nil => simpa [relabelList, Tree.fulls, joinWith] using hR.pre _
    | cons x r =>
      simp only [CanonsAt, List.all_cons, Bool.and_eq_true] at hc
      simp only [relabelList, Tree.fulls, joinWith_cons, List.append_assoc]
      exact relabel_rel s k hk h x false _ _ hc.1.2.1 (not_unk_of_operandOK (Or.inl rfl) hc.2.1)
        (relabels_rel s k hk h .and (Or.inl rfl) r _ _ (hR.pre _))
  | .op .or xs l, _, R', R, hc, _, hR => by
    simp only [CanonAt, Bool.and_eq_true] at hc
    simp only [relabel, Tree.full, noName_head'', noName_tail'', List.append_assoc]
    refine Rel.pre ?_ _
    cases xs with
    | nil => simpa [relabelList, Tree.fulls, joinWith] using hR.pre _
    | cons x r =>
      simp only [CanonsAt, List.all_cons, Bool.and_eq_true] at hc
      simp only [relabelList, Tree.fulls, joinWith_cons, List.append_assoc]
      exact relabel_rel s k hk h x false _ _ hc.1.2.1 (not_unk_of_operandOK (Or.inr rfl) hc.2.1)
        (relabels_rel s k hk h .or (Or.inr rfl) r _ _ (hR.pre _))

/-! ### the operator word behind an operand -/

/-- `P` holds of every tree of the list but the last one -/
def initAll (P : Tree → Bool) : List Tree → Bool
  | [] => true
  | [_] => true
  | x :: y :: r => P x && initAll P (y :: r)

mutual
/-- **every operand but the last of every implicit operation keeps its lexing when the word `w` is
printed right behind it** (behind its tail): the last token of the operand is not a term glued to
the operator word (finding KF7) -/
def wordAfterOK (s : NumStyle) (w : Str) : Tree → Bool
  | .term .. => true
  | .none _ => true
  | .field _ e _ => wordAfterOK s w e
  | .group _ e _ => wordAfterOK s w e
  | .approx _ e _ _ => wordAfterOK s w e
  | .boost e _ _ => wordAfterOK s w e
  | .unary _ e _ => wordAfterOK s w e
  | .orange _ e _ _ => wordAfterOK s w e
  | .range a b _ _ _ => wordAfterOK s w a && wordAfterOK s w b
  | .op k xs _ => (k != .unk || initAll (fun x => x.chainAt s w) xs) && wordAfterOKs s w xs
def wordAfterOKs (s : NumStyle) (w : Str) : List Tree → Bool
  | [] => true
  | x :: r => wordAfterOK s w x && wordAfterOKs s w r
end

theorem canon_of_isWP {e : Tree} (h : isWP e = true) (uf : Bool) : CanonAt uf e = true := by
  cases e with
  | term k v l => rfl
  | _ => simp [isWP] at h

theorem stopStart_setHead_full (s : NumStyle) (h : Str) (hh : isBlank h = true) (hne : h ≠ [])
    (y : Tree) (R : Str) (hy : y.isNone = false) : StopStart ((y.setHead (h ++ y.head)).full s ++ R) := by
  rw [full_setHead_append s y h hy, List.append_assoc]
  exact stopStart_blank hh _ hne

theorem followOK_stop' {k : TokK} {x r : Str} (hr : StopStart r) : followOK k x r = true :=
  (rel_of_stop hr []).apply (followOK_nil _ _)

theorem opFollow_stop {k : OpK} {r : Str} (hr : StopStart r) : opFollow k r = true := by
  unfold opFollow
  split
  · exact followOK_stop' hr
  · rfl

mutual
/-- **the chain condition passes to the result** of resolving the implicit operations to `k` (AND or
OR) with a separator `h` that is blank and not empty, for a canonical tree in which the operator
word can be printed behind every operand but the last of every implicit operation -/
theorem relabel_chain (s : NumStyle) (k : OpK) (hk : k = .and ∨ k = .or) (h : Str)
    (hh : isBlank h = true) (hne : h ≠ []) :
    ∀ (t : Tree) (uf : Bool) (R' R : Str), CanonAt uf t = true → Rel R' R → t.chainAt s R = true →
      wordAfterOK s k.word t = true → (relabel k h t).chainAt s R' = true
  | .term k' v l, _, R', R, _, hR, hc, _ => by
    cases k'
    · exact (hR.pre _).apply hc
    · rfl
    · rfl
  | .none _, _, _, _, _, _, _, _ => rfl
  | .field n e l, _, R', R, hcn, hR, hc, hw => by
    simp only [CanonAt, Bool.and_eq_true] at hcn
    simp only [wordAfterOK] at hw
    simp only [relabel, Tree.chainAt, Bool.and_eq_true, noName_tail''] at hc ⊢
    exact ⟨((relabel_rel₁ s k hk h e _ _ (hR.toRel₁.pre _)).relCons ':').apply hc.1,
      relabel_chain s k hk h hh hne e true _ _ hcn.1 (hR.pre _) hc.2 hw⟩
  | .group k' e l, _, R', R, hcn, hR, hc, hw => by
    simp only [CanonAt, Bool.and_eq_true] at hcn
    simp only [wordAfterOK] at hw
    simp only [relabel, Tree.chainAt, noName_tail''] at hc ⊢
    exact relabel_chain s k hk h hh hne e false _ _ hcn.2 ((hR.pre _).cons ')') hc hw
  | .approx .fuzzy e n l, _, R', R, hcn, hR, hc, _ => by
    simp only [CanonAt] at hcn
    simp only [relabel, Tree.chainAt, Bool.and_eq_true, noName_tail'',
      (relabel_full_of_isWP s k h (isWP_of_isWord hcn)).2] at hc ⊢
    exact ⟨Tree.chainAt_mono s e _ _ (((hR.pre _).pre _).cons '~') hc.1, (hR.pre _).apply hc.2⟩
  | .approx .proximity e n l, _, R', R, hcn, hR, hc, _ => by
    simp only [CanonAt] at hcn
    simp only [relabel, Tree.chainAt, Bool.and_eq_true, noName_tail'',
      (relabel_full_of_isWP s k h (isWP_of_isPhrase hcn)).2] at hc ⊢
    exact ⟨Tree.chainAt_mono s e _ _ (((hR.pre _).pre _).cons '~') hc.1, (hR.pre _).apply hc.2⟩
  | .boost e n l, _, R', R, hcn, hR, hc, hw => by
    simp only [CanonAt, Bool.and_eq_true] at hcn
    simp only [wordAfterOK] at hw
    simp only [relabel, Tree.chainAt, Bool.and_eq_true, noName_tail''] at hc ⊢
    exact ⟨relabel_chain s k hk h hh hne e false _ _ hcn.1.1.1 (((hR.pre _).pre _).cons '^') hc.1 hw,
      (hR.pre _).apply hc.2⟩
  | .unary k' e l, _, R', R, hcn, hR, hc, hw => by
    simp only [CanonAt, Bool.and_eq_true, Bool.not_eq_true'] at hcn
    simp only [wordAfterOK] at hw
    simp only [relabel, Tree.chainAt, Bool.and_eq_true, noName_tail''] at hc ⊢
    exact ⟨(relabel_rel s k hk h e false _ _ hcn.1 (not_unk_of_nonop hcn.2) (hR.pre _)).apply hc.1,
      relabel_chain s k hk h hh hne e false _ _ hcn.1 (hR.pre _) hc.2 hw⟩
  | .orange k' e i l, _, R', R, hcn, hR, hc, _ => by
    simp only [CanonAt] at hcn
    have he := relabel_full_of_isWP s k h hcn
    simp only [relabel, Tree.chainAt, Bool.and_eq_true, noName_tail'', he.1, he.2] at hc ⊢
    exact ⟨((hR.pre _).pre _).apply hc.1, Tree.chainAt_mono s e _ _ (hR.pre _) hc.2⟩
  | .range a b il ih l, _, R', R, hcn, hR, hc, _ => by
    simp only [CanonAt, Bool.and_eq_true] at hcn
    have ha := relabel_full_of_isBound s k h hcn.1
    have hb := relabel_full_of_isBound s k h hcn.2
    simp only [relabel, Tree.chainAt, Bool.and_eq_true, noName_tail'', ha.2, hb.1, hb.2] at hc ⊢
    have hT := (hR.pre l.tail).cons (clCh ih)
    exact ⟨⟨Tree.chainAt_mono s a _ _ ((hT.pre _).pre _) hc.1.1, (hT.pre _).apply hc.1.2⟩,
      Tree.chainAt_mono s b _ _ hT hc.2⟩
  | .op .bool xs l, _, _, _, hcn, _, _, _ => by simp [CanonAt] at hcn
  | .op .and xs l, _, R', R, hcn, hR, hc, hw => by
    simp only [CanonAt, Bool.and_eq_true] at hcn
    simp only [wordAfterOK, Bool.and_eq_true] at hw
    cases xs with
    | nil => rfl
    | cons x r =>
      simp only [CanonsAt, List.all_cons, Bool.and_eq_true] at hcn
      simp only [wordAfterOKs, Bool.and_eq_true] at hw
      simp only [relabel, relabelList, Tree.chainAt, Bool.and_eq_true, noName_tail''] at hc ⊢
      exact ⟨relabel_chain s k hk h hh hne x false _ _ hcn.1.2.1
          (relabels_rel s k hk h .and (Or.inl rfl) r _ _ (hR.pre _)) hc.1 hw.2.1,
        relabels_chain s k hk h hh hne .and (Or.inl rfl) r _ _ hcn.1.2.2 hcn.2.2 (hR.pre _) hc.2 hw.2.2⟩
  | .op .or xs l, _, R', R, hcn, hR, hc, hw => by
    simp only [CanonAt, Bool.and_eq_true] at hcn
    simp only [wordAfterOK, Bool.and_eq_true] at hw
    cases xs with
    | nil => rfl
    | cons x r =>
      simp only [CanonsAt, List.all_cons, Bool.and_eq_true] at hcn
      simp only [wordAfterOKs, Bool.and_eq_true] at hw
      simp only [relabel, relabelList, Tree.chainAt, Bool.and_eq_true, noName_tail''] at hc ⊢
      exact ⟨relabel_chain s k hk h hh hne x false _ _ hcn.1.2.1
          (relabels_rel s k hk h .or (Or.inr rfl) r _ _ (hR.pre _)) hc.1 hw.2.1,
        relabels_chain s k hk h hh hne .or (Or.inr rfl) r _ _ hcn.1.2.2 hcn.2.2 (hR.pre _) hc.2 hw.2.2⟩
  | .op .unk xs l, _, R', R, hcn, hR, hc, hw => by
    simp only [CanonAt, Bool.and_eq_true] at hcn
    simp only [wordAfterOK, Bool.and_eq_true, Bool.or_eq_true, bne_self_eq_false,
      Bool.false_eq_true, false_or] at hw
    cases xs with
    | nil => rfl
    | cons x r =>
      simp only [CanonsAt, Bool.and_eq_true] at hcn
      simp only [wordAfterOKs, Bool.and_eq_true] at hw
      simp only [relabel, relabelList, fulls_addHeads_cons, Tree.chainAt, Bool.and_eq_true,
        noName_tail''] at hc ⊢
      refine ⟨?_, relabels_chain_unk s k hk h hh hne r _ _ hcn.1.2.2 (hR.pre _) hc.2 ?_ hw.2.2⟩
      · cases r with
        | nil =>
          simp only [relabelList, List.map_nil, restStr_nil] at hc ⊢
          exact relabel_chain s k hk h hh hne x false _ _ hcn.1.2.1 (hR.pre _) hc.1 hw.2.1
        | cons y r' =>
          simp only [initAll, Bool.and_eq_true] at hw
          simp only [relabelList, List.map_cons, restStr_cons]
          exact relabel_chain s k hk h hh hne x false _ _ hcn.1.2.1 (rel_word_extend hk _) hw.1.1 hw.2.1
      · cases r with
        | nil => rfl
        | cons y r' =>
          simp only [initAll, Bool.and_eq_true] at hw
          exact hw.1.2
/-- the operands after the first one of an AND / OR operation (which keeps its class) -/
theorem relabels_chain (s : NumStyle) (k : OpK) (hk : k = .and ∨ k = .or) (h : Str)
    (hh : isBlank h = true) (hne : h ≠ []) (k' : OpK) (hk' : k' = .and ∨ k' = .or) :
    ∀ (xs : List Tree) (R' R : Str), CanonsAt xs = true → xs.all (operandOK k') = true → Rel R' R →
      Tree.chainsTail s k' xs R = true → wordAfterOKs s k.word xs = true →
      Tree.chainsTail s k' (relabelList k h xs) R' = true
  | [], _, _, _, _, _, _, _ => rfl
  | y :: r, R', R, hcn, ho, hR, hc, hw => by
    simp only [CanonsAt, Bool.and_eq_true] at hcn
    simp only [List.all_cons, Bool.and_eq_true] at ho
    simp only [wordAfterOKs, Bool.and_eq_true] at hw
    simp only [relabelList, Tree.chainsTail, Bool.and_eq_true] at hc ⊢
    have hr := relabels_rel s k hk h k' hk' r _ _ hR
    exact ⟨⟨opFollow_rel (relabel_rel s k hk h y false _ _ hcn.1 (not_unk_of_operandOK hk' ho.1) hr) hc.1.1,
      relabel_chain s k hk h hh hne y false _ _ hcn.1 hr hc.1.2 hw.1⟩,
      relabels_chain s k hk h hh hne k' hk' r _ _ hcn.2 ho.2 hR hc.2 hw.2⟩
/-- the operands after the first one of a resolved operation: each is printed behind the operator
word and the separator `h` -/
theorem relabels_chain_unk (s : NumStyle) (k : OpK) (hk : k = .and ∨ k = .or) (h : Str)
    (hh : isBlank h = true) (hne : h ≠ []) :
    ∀ (xs : List Tree) (R' R : Str), CanonsAt xs = true → Rel R' R →
      Tree.chainsTail s .unk xs R = true → initAll (fun x => x.chainAt s k.word) xs = true →
      wordAfterOKs s k.word xs = true →
      Tree.chainsTail s k ((relabelList k h xs).map (fun c => c.setHead (h ++ c.head))) R' = true
  | [], _, _, _, _, _, _, _ => rfl
  | y :: r, R', R, hcn, hR, hc, hi, hw => by
    simp only [CanonsAt, Bool.and_eq_true] at hcn
    simp only [wordAfterOKs, Bool.and_eq_true] at hw
    simp only [Tree.chainsTail, Bool.and_eq_true] at hc
    have hyn : (relabel k h y).isNone = false := by
      rw [(relabel_shape k h y).2.2.2.2.2.2.2]; exact canon_not_none hcn.1
    simp only [relabelList, List.map_cons, Tree.chainsTail, Bool.and_eq_true, chainAt_setHead]
    refine ⟨⟨opFollow_stop (stopStart_setHead_full s h hh hne _ _ hyn), ?_⟩, ?_⟩
    · cases r with
      | nil =>
        simp only [relabelList, List.map_nil, restStr_nil] at hc ⊢
        exact relabel_chain s k hk h hh hne y false _ _ hcn.1 hR hc.1.2 hw.1
      | cons z r' =>
        simp only [initAll, Bool.and_eq_true] at hi
        simp only [relabelList, List.map_cons, restStr_cons]
        exact relabel_chain s k hk h hh hne y false _ _ hcn.1 (rel_word_extend hk _) hi.1 hw.1
    · refine relabels_chain_unk s k hk h hh hne r _ _ hcn.2 hR hc.2 ?_ hw.2
      cases r with
      | nil => rfl
      | cons z r' =>
        simp only [initAll, Bool.and_eq_true] at hi
        exact hi.2
end

end Luqum
