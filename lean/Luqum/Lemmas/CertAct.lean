/-
  Luqum.Lemmas.CertAct — the abstract transfer of the semantic actions is sound: if the arguments of
  an action are canonical, their shapes lie in the given sets and the sets are admissible for the
  action, then the result is canonical and its shape lies in the result set.
-/
import Luqum.Lemmas.CertDefs
import Luqum.Lemmas.ActLossless

namespace Luqum

/-! ### bit masks -/

theorem testBit_of_sub {a b i : Nat} (h : sub a b = true) (hi : a.testBit i = true) :
    b.testBit i = true := by
  have h' : a &&& b = a := by simpa [sub] using h
  have := Nat.testBit_and a b i
  rw [h', hi] at this
  simpa using this.symm

theorem testBit_of_not_meets {a m i : Nat} (h : meets a m = false) (hi : a.testBit i = true) :
    m.testBit i = false := by
  have h' : a &&& m = 0 := by simpa [meets] using h
  have := Nat.testBit_and a m i
  rw [h', hi] at this
  simpa using this.symm

theorem meets_of_testBit {a m i : Nat} (hi : a.testBit i = true) (hm : m.testBit i = true) :
    meets a m = true := by
  cases h : meets a m
  · rw [testBit_of_not_meets h hi] at hm; cases hm
  · rfl

theorem not_sub_of_testBit {a m i : Nat} (hi : a.testBit i = true) (hm : m.testBit i = false) :
    sub a m = false := by
  cases h : sub a m
  · rfl
  · rw [testBit_of_sub h hi] at hm; cases hm

theorem testBit_lor_left {a b i : Nat} (h : a.testBit i = true) : (a ||| b).testBit i = true := by
  simp [Nat.testBit_or, h]

theorem testBit_lor_right {a b i : Nat} (h : b.testBit i = true) : (a ||| b).testBit i = true := by
  simp [Nat.testBit_or, h]

/-! ### layout changes are invisible -/

section setLay
variable (t : Tree) (l : Lay)

@[simp] theorem shapeOfTree_setLay : shapeOfTree (t.setLay l) = shapeOfTree t := by
  cases t with
  | term k _ _ => cases k <;> rfl
  | op k _ _ => cases k <;> rfl
  | _ => rfl

@[simp] theorem isOp'_setLay : isOp' (t.setLay l) = isOp' t := by cases t <;> rfl
@[simp] theorem isOpK_setLay (k : OpK) : isOpK k (t.setLay l) = isOpK k t := by cases t <;> rfl
@[simp] theorem isUnary_setLay : isUnary (t.setLay l) = isUnary t := by cases t <;> rfl
@[simp] theorem isField_setLay : isField (t.setLay l) = isField t := by cases t <;> rfl
@[simp] theorem isWord_setLay : isWord (t.setLay l) = isWord t := by
  cases t with
  | term k _ _ => cases k <;> rfl
  | _ => rfl
@[simp] theorem isPhrase_setLay : isPhrase (t.setLay l) = isPhrase t := by
  cases t with
  | term k _ _ => cases k <;> rfl
  | _ => rfl
@[simp] theorem isWP_setLay : isWP (t.setLay l) = isWP t := by
  cases t with
  | term k _ _ => cases k <;> rfl
  | _ => rfl
@[simp] theorem isBound_setLay : isBound (t.setLay l) = isBound t := by
  cases t with
  | term k _ _ => cases k <;> rfl
  | unary k _ _ => cases k <;> rfl
  | _ => rfl
@[simp] theorem operandOK_setLay (k : OpK) : operandOK k (t.setLay l) = operandOK k t := by
  cases k <;> simp [operandOK]
@[simp] theorem canonAt_setLay (uf : Bool) : CanonAt uf (t.setLay l) = CanonAt uf t := by
  cases t with
  | approx k _ _ _ => cases k <;> simp [Tree.setLay, CanonAt]
  | _ => simp [Tree.setLay, CanonAt]

@[simp] theorem shapeOfTree_setHead (h : Str) : shapeOfTree (t.setHead h) = shapeOfTree t := by simp [Tree.setHead]
@[simp] theorem shapeOfTree_setTail (h : Str) : shapeOfTree (t.setTail h) = shapeOfTree t := by simp [Tree.setTail]
@[simp] theorem isOp'_setHead (h : Str) : isOp' (t.setHead h) = isOp' t := by simp [Tree.setHead]
@[simp] theorem isOp'_setTail (h : Str) : isOp' (t.setTail h) = isOp' t := by simp [Tree.setTail]
@[simp] theorem isUnary_setTail (h : Str) : isUnary (t.setTail h) = isUnary t := by simp [Tree.setTail]
@[simp] theorem isField_setTail (h : Str) : isField (t.setTail h) = isField t := by simp [Tree.setTail]
@[simp] theorem isWord_setTail (h : Str) : isWord (t.setTail h) = isWord t := by simp [Tree.setTail]
@[simp] theorem isPhrase_setTail (h : Str) : isPhrase (t.setTail h) = isPhrase t := by simp [Tree.setTail]
@[simp] theorem isWP_setHead (h : Str) : isWP (t.setHead h) = isWP t := by simp [Tree.setHead]
@[simp] theorem isBound_setHead (h : Str) : isBound (t.setHead h) = isBound t := by simp [Tree.setHead]
@[simp] theorem isBound_setTail (h : Str) : isBound (t.setTail h) = isBound t := by simp [Tree.setTail]
@[simp] theorem operandOK_setHead (k : OpK) (h : Str) : operandOK k (t.setHead h) = operandOK k t := by
  simp [Tree.setHead]
@[simp] theorem canonAt_setHead (uf : Bool) (h : Str) : CanonAt uf (t.setHead h) = CanonAt uf t := by
  simp [Tree.setHead]
@[simp] theorem canonAt_setTail (uf : Bool) (h : Str) : CanonAt uf (t.setTail h) = CanonAt uf t := by
  simp [Tree.setTail]

end setLay

/-! ### the classes of trees, read off the shape -/

theorem testBit_bit (i j : Nat) : (bit i).testBit j = decide (i = j) := by
  simp [bit, Nat.one_shiftLeft, Nat.testBit_two_pow]

/-- evaluate class predicates and membership of literal shapes in literal masks -/
macro "shape_simp" : tactic =>
  `(tactic| simp [isOpK, isOp', isUnary, isField, isWord, isPhrase, isWP, isBound, shapeOfTree,
      testBit_bit, Nat.testBit_or, mWP, mOps, shWord, shPhrase, shRegex, shNeg, shAtomic, shPre,
      shFld, shBst, shAnd, shOr, shUnk, shJunk])

theorem isOpK_unk_eq (a : Tree) : isOpK .unk a = (bit shUnk).testBit (shapeOfTree a) := by
  cases a with
  | term k _ _ => cases k <;> shape_simp
  | op k _ _ => cases k <;> shape_simp
  | unary k e _ => simp only [shapeOfTree]; split <;> shape_simp
  | _ => shape_simp

theorem isOpK_or_eq (a : Tree) : isOpK .or a = (bit shOr).testBit (shapeOfTree a) := by
  cases a with
  | term k _ _ => cases k <;> shape_simp
  | op k _ _ => cases k <;> shape_simp
  | unary k e _ => simp only [shapeOfTree]; split <;> shape_simp
  | _ => shape_simp

theorem isOpK_and_eq (a : Tree) : isOpK .and a = (bit shAnd).testBit (shapeOfTree a) := by
  cases a with
  | term k _ _ => cases k <;> shape_simp
  | op k _ _ => cases k <;> shape_simp
  | unary k e _ => simp only [shapeOfTree]; split <;> shape_simp
  | _ => shape_simp

theorem isOp'_eq {a : Tree} (ha : CanonAt false a = true) : isOp' a = mOps.testBit (shapeOfTree a) := by
  cases a with
  | term k _ _ => cases k <;> shape_simp
  | op k _ _ =>
    cases k
    · shape_simp
    · shape_simp
    · shape_simp
    · simp [CanonAt] at ha
  | unary k e _ => simp only [shapeOfTree]; split <;> shape_simp
  | _ => shape_simp

theorem isUnary_eq (a : Tree) : isUnary a = (bit shPre ||| bit shNeg).testBit (shapeOfTree a) := by
  cases a with
  | term k _ _ => cases k <;> shape_simp
  | op k _ _ => cases k <;> shape_simp
  | unary k e _ => simp only [shapeOfTree]; split <;> shape_simp
  | _ => shape_simp

theorem isField_eq (a : Tree) : isField a = (bit shFld).testBit (shapeOfTree a) := by
  cases a with
  | term k _ _ => cases k <;> shape_simp
  | op k _ _ => cases k <;> shape_simp
  | unary k e _ => simp only [shapeOfTree]; split <;> shape_simp
  | _ => shape_simp

theorem isWord_eq (a : Tree) : isWord a = (bit shWord).testBit (shapeOfTree a) := by
  cases a with
  | term k _ _ => cases k <;> shape_simp
  | op k _ _ => cases k <;> shape_simp
  | unary k e _ => simp only [shapeOfTree]; split <;> shape_simp
  | _ => shape_simp

theorem isPhrase_eq (a : Tree) : isPhrase a = (bit shPhrase).testBit (shapeOfTree a) := by
  cases a with
  | term k _ _ => cases k <;> shape_simp
  | op k _ _ => cases k <;> shape_simp
  | unary k e _ => simp only [shapeOfTree]; split <;> shape_simp
  | _ => shape_simp

theorem isWP_eq (a : Tree) : isWP a = mWP.testBit (shapeOfTree a) := by
  cases a with
  | term k _ _ => cases k <;> shape_simp
  | op k _ _ => cases k <;> shape_simp
  | unary k e _ => simp only [shapeOfTree]; split <;> shape_simp
  | _ => shape_simp

theorem isBound_eq (a : Tree) : isBound a = (mWP ||| bit shNeg).testBit (shapeOfTree a) := by
  cases a with
  | term k _ _ => cases k <;> shape_simp
  | op k _ _ => cases k <;> shape_simp
  | unary k e _ => cases k <;> cases h : isWP e <;> simp [isBound, shapeOfTree, h] <;> shape_simp
  | _ => shape_simp

/-! ### operations -/

theorem canonsAt_append (xs ys : List Tree) : CanonsAt (xs ++ ys) = (CanonsAt xs && CanonsAt ys) := by
  induction xs with
  | nil => simp [CanonsAt]
  | cons x r ih => simp [CanonsAt, ih, Bool.and_assoc]

@[simp] theorem canonsAt_pushHead (t : Str) (ys : List Tree) : CanonsAt (pushHead t ys) = CanonsAt ys := by
  cases ys <;> simp [pushHead, CanonsAt]

@[simp] theorem all_operandOK_pushHead (k : OpK) (t : Str) (ys : List Tree) :
    (pushHead t ys).all (operandOK k) = ys.all (operandOK k) := by
  cases ys <;> simp [pushHead]

@[simp] theorem length_pushHead (t : Str) (ys : List Tree) : (pushHead t ys).length = ys.length := by
  cases ys <;> simp [pushHead]

theorem side_cases' (k : OpK) (a : Tree) :
    (side k a = [a] ∧ isOpK k a = false) ∨ ∃ xs l, a = .op k xs l ∧ side k a = xs := by
  cases a <;> simp [side, isOpK]
  rename_i k' xs l
  by_cases hk : k' = k
  · subst hk; simp
  · simp [hk]

/-- `create_operation` keeps the canonical form: the operands of a left operand of the same class
are spliced, a right operand of the same class is excluded by admissibility -/
theorem canon_binaryOp {k : OpK} (hk : k ≠ .bool) {a b : Tree} (ol : Option Lay)
    (ha : CanonAt false a = true) (hb : CanonAt false b = true)
    (hl : isOpK k a = false → operandOK k a = true)
    (hr : operandOK k b = true) (hrk : isOpK k b = false) :
    ∃ xs l, binaryOp k a ol b = .op k xs l ∧ CanonAt false (.op k xs l) = true := by
  obtain ⟨pos, size, he⟩ := binaryOp_eq k a b ol
  refine ⟨_, _, he, ?_⟩
  have hsb : side k b = [b] := by
    rcases side_cases' k b with ⟨h, _⟩ | ⟨xs, l, rfl, _⟩
    · exact h
    · simp [isOpK] at hrk
  rw [hsb]
  rcases side_cases' k a with ⟨hsa, hka⟩ | ⟨xs, l, rfl, hsa⟩
  · rw [hsa]
    simp [CanonAt, hk, CanonsAt, ha, hb, hl hka, hr]
  · rw [hsa]
    simp only [CanonAt, Bool.and_eq_true, decide_eq_true_eq] at ha
    obtain ⟨⟨⟨_, hlen⟩, hc⟩, hall⟩ := ha
    have hall' : ∀ x ∈ xs, operandOK k x = true := by simpa using hall
    simp [CanonAt, hk, canonsAt_append, CanonsAt, hc, hb, hr]
    exact ⟨by omega, hall'⟩

theorem shapeOfTree_op {k : OpK} (xs : List Tree) (l : Lay) :
    shapeOfTree (.op k xs l) = match k with
      | .and => shAnd | .or => shOr | .unk => shUnk | .bool => shJunk := by
  cases k <;> rfl

/-! ### field groups -/

theorem canonAt_toFieldGroup {e : Tree} (he : CanonAt false e = true) :
    CanonAt true (toFieldGroup e) = true := by
  cases e with
  | group k x l => cases k <;> simp_all [toFieldGroup, CanonAt]
  | approx k _ _ _ => cases k <;> simp [toFieldGroup, CanonAt] at he ⊢ <;> exact he
  | _ => simp_all [toFieldGroup, CanonAt]

@[simp] theorem isOp'_toFieldGroup (e : Tree) : isOp' (toFieldGroup e) = isOp' e := by
  unfold toFieldGroup; split <;> rfl

theorem isOp'_of_isWP {e : Tree} (h : isWP e = true) : isOp' e = false := by
  cases e <;> simp_all [isWP, isOp']

theorem canonAt_of_isWP {e : Tree} (h : isWP e = true) : CanonAt false e = true := by
  cases e <;> simp_all [isWP, CanonAt]

/-! ### the transfer functions at the names of the actions (evaluated once, here) -/

section equations
theorem actK_or : actK "p_expression_or" 3 = .or := by decide +kernel
theorem actK_and : actK "p_expression_and" 3 = .and := by decide +kernel
theorem actK_implicit : actK "p_expression_implicit" 2 = .implicit := by decide +kernel
theorem actK_plus : actK "p_expression_plus" 2 = .plus := by decide +kernel
theorem actK_minus : actK "p_expression_minus" 2 = .minus := by decide +kernel
theorem actK_not : actK "p_expression_not" 2 = .not := by decide +kernel
theorem actK_grouping : actK "p_grouping" 3 = .grouping := by decide +kernel
theorem actK_range : actK "p_range" 5 = .range := by decide +kernel
theorem actK_negterm : actK "p_possibly_negative_term" 2 = .negterm := by decide +kernel
theorem actK_lessthan : actK "p_lessthan" 2 = .lessthan := by decide +kernel
theorem actK_greaterthan : actK "p_greaterthan" 2 = .greaterthan := by decide +kernel
theorem actK_field : actK "p_field_search" 3 = .field := by decide +kernel
theorem actK_proximity : actK "p_proximity" 2 = .proximity := by decide +kernel
theorem actK_fuzzy : actK "p_fuzzy" 2 = .fuzzy := by decide +kernel
theorem actK_boosting : actK "p_boosting" 2 = .boosting := by decide +kernel
theorem actK_toTerm : actK "p_to_as_term" 1 = .toTerm := by decide +kernel
theorem actK_unary : actK "p_expression_unary" 1 = .pass := by decide +kernel
theorem actK_negterm1 : actK "p_possibly_negative_term" 1 = .pass := by decide +kernel
theorem actK_phraseOrNeg : actK "p_phrase_or_possibly_negative_term" 1 = .pass := by decide +kernel
theorem actK_quoting : actK "p_quoting" 1 = .pass := by decide +kernel
theorem actK_terms : actK "p_terms" 1 = .pass := by decide +kernel
theorem actK_regex : actK "p_regex" 1 = .pass := by decide +kernel
theorem actK_phraseOrTerm : actK "p_phrase_or_term" 1 = .pass := by decide +kernel

variable (a b c d e : Nat)
theorem admSet_or : admSet "p_expression_or" [a, b, c] = (!meets a (bit shUnk) && !meets c (bit shUnk ||| bit shOr)) := by
  unfold admSet; rw [show [a, b, c].length = 3 from rfl, actK_or]; rfl
theorem admSet_and : admSet "p_expression_and" [a, b, c] = (!meets a (bit shUnk ||| bit shOr) && !meets c mOps) := by
  unfold admSet; rw [show [a, b, c].length = 3 from rfl, actK_and]; rfl
theorem admSet_implicit : admSet "p_expression_implicit" [a, b] = !meets b (bit shUnk) := by
  unfold admSet; rw [show [a, b].length = 2 from rfl, actK_implicit]; rfl
theorem admSet_plus : admSet "p_expression_plus" [a, b] = !meets b mOps := by
  unfold admSet; rw [show [a, b].length = 2 from rfl, actK_plus]; rfl
theorem admSet_minus : admSet "p_expression_minus" [a, b] = !meets b mOps := by
  unfold admSet; rw [show [a, b].length = 2 from rfl, actK_minus]; rfl
theorem admSet_not : admSet "p_expression_not" [a, b] = !meets b mOps := by
  unfold admSet; rw [show [a, b].length = 2 from rfl, actK_not]; rfl
theorem admSet_range : admSet "p_range" [a, b, c, d, e] = (sub b (mWP ||| bit shNeg) && sub d (mWP ||| bit shNeg)) := by
  unfold admSet; rw [show [a, b, c, d, e].length = 5 from rfl, actK_range]; rfl
theorem admSet_negterm : admSet "p_possibly_negative_term" [a, b] = sub b mWP := by
  unfold admSet; rw [show [a, b].length = 2 from rfl, actK_negterm]; rfl
theorem admSet_lessthan : admSet "p_lessthan" [a, b] = sub b mWP := by
  unfold admSet; rw [show [a, b].length = 2 from rfl, actK_lessthan]; rfl
theorem admSet_greaterthan : admSet "p_greaterthan" [a, b] = sub b mWP := by
  unfold admSet; rw [show [a, b].length = 2 from rfl, actK_greaterthan]; rfl
theorem admSet_field : admSet "p_field_search" [a, b, c] = !meets c mOps := by
  unfold admSet; rw [show [a, b, c].length = 3 from rfl, actK_field]; rfl
theorem admSet_proximity : admSet "p_proximity" [a, b] = sub a (bit shPhrase) := by
  unfold admSet; rw [show [a, b].length = 2 from rfl, actK_proximity]; rfl
theorem admSet_fuzzy : admSet "p_fuzzy" [a, b] = sub a (bit shWord) := by
  unfold admSet; rw [show [a, b].length = 2 from rfl, actK_fuzzy]; rfl
theorem admSet_boosting : admSet "p_boosting" [a, b] = !meets a (mOps ||| bit shPre ||| bit shNeg ||| bit shFld) := by
  unfold admSet; rw [show [a, b].length = 2 from rfl, actK_boosting]; rfl
theorem resSet_or : resSet "p_expression_or" [a, b, c] = bit shOr := by
  unfold resSet; rw [show [a, b, c].length = 3 from rfl, actK_or]; rfl
theorem resSet_and : resSet "p_expression_and" [a, b, c] = bit shAnd := by
  unfold resSet; rw [show [a, b, c].length = 3 from rfl, actK_and]; rfl
theorem resSet_implicit : resSet "p_expression_implicit" [a, b] = bit shUnk := by
  unfold resSet; rw [show [a, b].length = 2 from rfl, actK_implicit]; rfl
theorem resSet_plus : resSet "p_expression_plus" [a, b] = bit shPre := by
  unfold resSet; rw [show [a, b].length = 2 from rfl, actK_plus]; rfl
theorem resSet_minus : resSet "p_expression_minus" [a, b] = ((if meets b mWP then bit shNeg else 0) ||| (if sub b mWP then 0 else bit shPre)) := by
  unfold resSet; rw [show [a, b].length = 2 from rfl, actK_minus]; rfl
theorem resSet_not : resSet "p_expression_not" [a, b] = bit shPre := by
  unfold resSet; rw [show [a, b].length = 2 from rfl, actK_not]; rfl
theorem resSet_grouping : resSet "p_grouping" [a, b, c] = bit shAtomic := by
  unfold resSet; rw [show [a, b, c].length = 3 from rfl, actK_grouping]; rfl
theorem resSet_range : resSet "p_range" [a, b, c, d, e] = bit shAtomic := by
  unfold resSet; rw [show [a, b, c, d, e].length = 5 from rfl, actK_range]; rfl
theorem resSet_negterm : resSet "p_possibly_negative_term" [a, b] = bit shNeg := by
  unfold resSet; rw [show [a, b].length = 2 from rfl, actK_negterm]; rfl
theorem resSet_lessthan : resSet "p_lessthan" [a, b] = bit shAtomic := by
  unfold resSet; rw [show [a, b].length = 2 from rfl, actK_lessthan]; rfl
theorem resSet_greaterthan : resSet "p_greaterthan" [a, b] = bit shAtomic := by
  unfold resSet; rw [show [a, b].length = 2 from rfl, actK_greaterthan]; rfl
theorem resSet_field : resSet "p_field_search" [a, b, c] = bit shFld := by
  unfold resSet; rw [show [a, b, c].length = 3 from rfl, actK_field]; rfl
theorem resSet_proximity : resSet "p_proximity" [a, b] = bit shAtomic := by
  unfold resSet; rw [show [a, b].length = 2 from rfl, actK_proximity]; rfl
theorem resSet_fuzzy : resSet "p_fuzzy" [a, b] = bit shAtomic := by
  unfold resSet; rw [show [a, b].length = 2 from rfl, actK_fuzzy]; rfl
theorem resSet_boosting : resSet "p_boosting" [a, b] = bit shBst := by
  unfold resSet; rw [show [a, b].length = 2 from rfl, actK_boosting]; rfl
theorem resSet_toTerm : resSet "p_to_as_term" [a] = bit shWord := by
  unfold resSet; rw [show [a].length = 1 from rfl, actK_toTerm]; rfl
theorem resSet_unary : resSet "p_expression_unary" [a] = a := by
  unfold resSet; rw [show [a].length = 1 from rfl, actK_unary]; rfl
theorem resSet_negterm1 : resSet "p_possibly_negative_term" [a] = a := by
  unfold resSet; rw [show [a].length = 1 from rfl, actK_negterm1]; rfl
theorem resSet_phraseOrNeg : resSet "p_phrase_or_possibly_negative_term" [a] = a := by
  unfold resSet; rw [show [a].length = 1 from rfl, actK_phraseOrNeg]; rfl
theorem resSet_quoting : resSet "p_quoting" [a] = a := by
  unfold resSet; rw [show [a].length = 1 from rfl, actK_quoting]; rfl
theorem resSet_terms : resSet "p_terms" [a] = a := by
  unfold resSet; rw [show [a].length = 1 from rfl, actK_terms]; rfl
theorem resSet_regex : resSet "p_regex" [a] = a := by
  unfold resSet; rw [show [a].length = 1 from rfl, actK_regex]; rfl
theorem resSet_phraseOrTerm : resSet "p_phrase_or_term" [a] = a := by
  unfold resSet; rw [show [a].length = 1 from rfl, actK_phraseOrTerm]; rfl
end equations

/-! ### the per-action lemma -/

theorem hasShapes_cons {v : Val} {vs : List Val} {As : List Nat} :
    HasShapes (v :: vs) As ↔ ∃ m ms, As = m :: ms ∧ HasShape v m ∧ HasShapes vs ms := by
  cases As with
  | nil => simp [HasShapes]
  | cons a r =>
    simp only [HasShapes, List.cons.injEq]
    constructor
    · rintro ⟨h1, h2⟩; exact ⟨a, r, ⟨rfl, rfl⟩, h1, h2⟩
    · rintro ⟨m, ms, ⟨rfl, rfl⟩, h1, h2⟩; exact ⟨h1, h2⟩

theorem hasShapes_nil {As : List Nat} : HasShapes [] As ↔ As = [] := by
  cases As <;> simp [HasShapes]

theorem hasShape_item {t : Tree} {m : Nat} (hc : CanonAt false t = true)
    (hm : m.testBit (shapeOfTree t) = true) : HasShape (.item t) m := ⟨hc, hm⟩

theorem testBit_bit_self (i : Nat) : (bit i).testBit i = true := by simp [testBit_bit]

/-- a prefix operator on an operand that is not an operation -/
theorem canon_unary (k : UnK) {e : Tree} (l : Lay) (h : Str) (he : CanonAt false e = true)
    (hop : isOp' e = false) : CanonAt false (.unary k (e.setHead h) l) = true := by
  simp [CanonAt, he, hop]

theorem notOp_of_not_meets {A : Nat} {e : Tree} (he : CanonAt false e = true)
    (hA : A.testBit (shapeOfTree e) = true) (h : meets A mOps = false) : isOp' e = false := by
  rw [isOp'_eq he]; exact testBit_of_not_meets h hA

/-- **soundness of the abstract transfer**: a successful action on canonical arguments whose
shapes lie in admissible sets builds a canonical value whose shape lies in the result set -/
theorem act_cert {f : String} {args : List Val} {v : Val} {As : List Nat}
    (h : act f args = .ok v) (hs : HasShapes args As) (hadm : admSet f As = true) :
    HasShape v (resSet f As) := by
  unfold act at h
  split at h
  case h_1 a o b =>
    simp only [hasShapes_cons, hasShapes_nil] at hs
    obtain ⟨A, _, rfl, ⟨ha, hA⟩, O, _, rfl, _, B, _, rfl, ⟨hb, hB⟩, rfl⟩ := hs
    cases h
    rw [admSet_or] at hadm
    rw [resSet_or]
    simp only [Bool.and_eq_true, Bool.not_eq_true'] at hadm
    have h1 : (bit shUnk).testBit (shapeOfTree a) = false := testBit_of_not_meets hadm.1 hA
    have h2 : (bit shUnk ||| bit shOr).testBit (shapeOfTree b) = false := testBit_of_not_meets hadm.2 hB
    simp only [Nat.testBit_or, Bool.or_eq_false_iff] at h2
    rw [← isOpK_unk_eq] at h1
    rw [← isOpK_unk_eq, ← isOpK_or_eq] at h2
    obtain ⟨xs, l, he, hc⟩ := canon_binaryOp (k := .or) (by decide) (some o.lay) ha hb
      (fun hk => by simp [operandOK, h1, hk]) (by simp [operandOK, h2.1, h2.2]) h2.2
    rw [he]
    exact hasShape_item hc (testBit_bit_self shOr)
  case h_2 a o b =>
    simp only [hasShapes_cons, hasShapes_nil] at hs
    obtain ⟨A, _, rfl, ⟨ha, hA⟩, O, _, rfl, _, B, _, rfl, ⟨hb, hB⟩, rfl⟩ := hs
    cases h
    rw [admSet_and] at hadm
    rw [resSet_and]
    simp only [Bool.and_eq_true, Bool.not_eq_true'] at hadm
    have h1 : (bit shUnk ||| bit shOr).testBit (shapeOfTree a) = false := testBit_of_not_meets hadm.1 hA
    have h2 : isOp' b = false := notOp_of_not_meets hb hB hadm.2
    simp only [Nat.testBit_or, Bool.or_eq_false_iff] at h1
    rw [← isOpK_unk_eq, ← isOpK_or_eq] at h1
    have hb' : isOpK .and b = false := by cases b <;> simp_all [isOp', isOpK]
    obtain ⟨xs, l, he, hc⟩ := canon_binaryOp (k := .and) (by decide) (some o.lay) ha hb
      (fun hk => by
        have : CanonAt false a = true := ha
        cases a <;> simp_all [operandOK, isOp', isOpK, CanonAt]
        rename_i k _ _; cases k <;> simp_all)
      (by simp [operandOK, h2]) hb'
    rw [he]
    exact hasShape_item hc (testBit_bit_self shAnd)
  case h_3 a b =>
    simp only [hasShapes_cons, hasShapes_nil] at hs
    obtain ⟨A, _, rfl, ⟨ha, hA⟩, B, _, rfl, ⟨hb, hB⟩, rfl⟩ := hs
    cases h
    rw [admSet_implicit] at hadm
    rw [resSet_implicit]
    simp only [Bool.not_eq_true'] at hadm
    have h2 : (bit shUnk).testBit (shapeOfTree b) = false := testBit_of_not_meets hadm hB
    rw [← isOpK_unk_eq] at h2
    obtain ⟨xs, l, he, hc⟩ := canon_binaryOp (k := .unk) (by decide) none ha hb
      (fun hk => by simp [operandOK, hk]) (by simp [operandOK, h2]) h2
    rw [he]
    exact hasShape_item hc (testBit_bit_self shUnk)
  case h_4 o e =>
    simp only [hasShapes_cons, hasShapes_nil] at hs
    obtain ⟨O, _, rfl, _, A, _, rfl, ⟨he, hA⟩, rfl⟩ := hs
    cases h
    rw [admSet_plus] at hadm
    rw [resSet_plus]
    simp only [Bool.not_eq_true'] at hadm
    have hop := notOp_of_not_meets he hA hadm
    refine hasShape_item (canon_unary _ _ _ he hop) ?_
    simp [mgrUnary, shapeOfTree, testBit_bit]
  case h_5 o e =>
    simp only [hasShapes_cons, hasShapes_nil] at hs
    obtain ⟨O, _, rfl, _, A, _, rfl, ⟨he, hA⟩, rfl⟩ := hs
    cases h
    rw [admSet_minus] at hadm
    rw [resSet_minus]
    simp only [Bool.not_eq_true'] at hadm
    have hop := notOp_of_not_meets he hA hadm
    refine hasShape_item (canon_unary _ _ _ he hop) ?_
    have hA' : A.testBit (shapeOfTree e) = true := hA
    cases hw : isWP e
    · have : sub A mWP = false := not_sub_of_testBit hA' (by rw [← isWP_eq]; exact hw)
      simp [mgrUnary, shapeOfTree, hw, this, Nat.testBit_or, testBit_bit]
    · have : meets A mWP = true := meets_of_testBit hA' (by rw [← isWP_eq]; exact hw)
      simp [mgrUnary, shapeOfTree, hw, this, Nat.testBit_or, testBit_bit]
  case h_6 o e =>
    simp only [hasShapes_cons, hasShapes_nil] at hs
    obtain ⟨O, _, rfl, _, A, _, rfl, ⟨he, hA⟩, rfl⟩ := hs
    cases h
    rw [admSet_not] at hadm
    rw [resSet_not]
    simp only [Bool.not_eq_true'] at hadm
    have hop := notOp_of_not_meets he hA hadm
    refine hasShape_item (canon_unary _ _ _ he hop) ?_
    simp [mgrUnary, shapeOfTree, testBit_bit]
  case h_7 v' =>
    simp only [hasShapes_cons, hasShapes_nil] at hs
    obtain ⟨A, _, rfl, hA, rfl⟩ := hs
    cases h; rw [resSet_unary]; exact hA
  case h_8 lp e rp =>
    simp only [hasShapes_cons, hasShapes_nil] at hs
    obtain ⟨_, _, rfl, _, A, _, rfl, ⟨he, hA⟩, _, _, rfl, _, rfl⟩ := hs
    split at h
    cases h
    rw [resSet_grouping]
    refine hasShape_item ?_ (testBit_bit_self _)
    have : CanonAt false e = true := he
    simp [CanonAt, this]
  case h_9 lb lo to hi rb =>
    simp only [hasShapes_cons, hasShapes_nil] at hs
    obtain ⟨_, _, rfl, _, A, _, rfl, ⟨hlo, hA⟩, _, _, rfl, _, B, _, rfl, ⟨hhi, hB⟩, _, _, rfl, _, rfl⟩ := hs
    split at h
    cases h
    rw [admSet_range] at hadm
    rw [resSet_range]
    simp only [Bool.and_eq_true] at hadm
    have h1 : (mWP ||| bit shNeg).testBit (shapeOfTree lo) = true := testBit_of_sub hadm.1 hA
    have h2 : (mWP ||| bit shNeg).testBit (shapeOfTree hi) = true := testBit_of_sub hadm.2 hB
    rw [← isBound_eq] at h1 h2
    refine hasShape_item ?_ (testBit_bit_self _)
    simp [CanonAt, h1, h2]
  case h_10 o e =>
    simp only [hasShapes_cons, hasShapes_nil] at hs
    obtain ⟨O, _, rfl, _, A, _, rfl, ⟨he, hA⟩, rfl⟩ := hs
    cases h
    rw [admSet_negterm] at hadm
    rw [resSet_negterm]
    have hw : mWP.testBit (shapeOfTree e) = true := testBit_of_sub hadm hA
    rw [← isWP_eq] at hw
    refine hasShape_item (canon_unary _ _ _ he (isOp'_of_isWP hw)) ?_
    simp [mgrUnary, shapeOfTree, hw, testBit_bit]
  case h_11 v' =>
    simp only [hasShapes_cons, hasShapes_nil] at hs
    obtain ⟨A, _, rfl, hA, rfl⟩ := hs
    cases h; rw [resSet_negterm1]; exact hA
  case h_12 v' =>
    simp only [hasShapes_cons, hasShapes_nil] at hs
    obtain ⟨A, _, rfl, hA, rfl⟩ := hs
    cases h; rw [resSet_phraseOrNeg]; exact hA
  case h_13 o e =>
    simp only [hasShapes_cons, hasShapes_nil] at hs
    obtain ⟨O, _, rfl, _, A, _, rfl, ⟨he, hA⟩, rfl⟩ := hs
    cases h
    rw [admSet_lessthan] at hadm
    rw [resSet_lessthan]
    have hw : mWP.testBit (shapeOfTree e) = true := testBit_of_sub hadm hA
    rw [← isWP_eq] at hw
    refine hasShape_item ?_ (testBit_bit_self _)
    simp [mgrUnary, CanonAt, hw]
  case h_14 o e =>
    simp only [hasShapes_cons, hasShapes_nil] at hs
    obtain ⟨O, _, rfl, _, A, _, rfl, ⟨he, hA⟩, rfl⟩ := hs
    cases h
    rw [admSet_greaterthan] at hadm
    rw [resSet_greaterthan]
    have hw : mWP.testBit (shapeOfTree e) = true := testBit_of_sub hadm hA
    rw [← isWP_eq] at hw
    refine hasShape_item ?_ (testBit_bit_self _)
    simp [mgrUnary, CanonAt, hw]
  case h_15 name nl c e =>
    simp only [hasShapes_cons, hasShapes_nil] at hs
    obtain ⟨_, _, rfl, _, _, _, rfl, _, A, _, rfl, ⟨he, hA⟩, rfl⟩ := hs
    have h' : Val.item (.field name ((toFieldGroup e).setHead (c.lay.tail ++ (toFieldGroup e).head))
        { head := nl.head, tail := [],
          pos := (mgrPos [nl, c.lay, (toFieldGroup e).lay] true false).1,
          size := (mgrPos [nl, c.lay, (toFieldGroup e).lay] true false).2 }) = v := Except.ok.inj h
    subst h'
    rw [admSet_field] at hadm
    rw [resSet_field]
    simp only [Bool.not_eq_true'] at hadm
    have hop := notOp_of_not_meets he hA hadm
    refine hasShape_item ?_ (testBit_bit_self _)
    simp [CanonAt, canonAt_toFieldGroup he, hop]
  case h_16 v' =>
    simp only [hasShapes_cons, hasShapes_nil] at hs
    obtain ⟨A, _, rfl, hA, rfl⟩ := hs
    cases h; rw [resSet_quoting]; exact hA
  case h_17 e a =>
    simp only [hasShapes_cons, hasShapes_nil] at hs
    obtain ⟨A, _, rfl, ⟨he, hA⟩, _, _, rfl, _, rfl⟩ := hs
    split at h
    · cases h
      rw [admSet_proximity] at hadm
      rw [resSet_proximity]
      have hw : (bit shPhrase).testBit (shapeOfTree e) = true := testBit_of_sub hadm hA
      rw [← isPhrase_eq] at hw
      refine hasShape_item ?_ (testBit_bit_self _)
      simp [mgrPostUnary, CanonAt, hw]
    · cases h
  case h_18 e a =>
    simp only [hasShapes_cons, hasShapes_nil] at hs
    obtain ⟨A, _, rfl, ⟨he, hA⟩, _, _, rfl, _, rfl⟩ := hs
    split at h
    · cases h
      rw [admSet_boosting] at hadm
      rw [resSet_boosting]
      simp only [Bool.not_eq_true'] at hadm
      have hw : (mOps ||| bit shPre ||| bit shNeg ||| bit shFld).testBit (shapeOfTree e) = false :=
        testBit_of_not_meets hadm hA
      have hc : CanonAt false e = true := he
      simp only [Nat.testBit_or, Bool.or_eq_false_iff] at hw
      have hu : isUnary e = false := by
        rw [isUnary_eq]; simp only [Nat.testBit_or, Bool.or_eq_false_iff]; exact ⟨hw.1.1.2, hw.1.2⟩
      have hf : isField e = false := by rw [isField_eq]; exact hw.2
      have ho : isOp' e = false := by rw [isOp'_eq hc]; exact hw.1.1.1
      refine hasShape_item ?_ (testBit_bit_self _)
      simp [mgrPostUnary, CanonAt, hc, hu, hf, ho]
    · cases h
  case h_19 v' =>
    simp only [hasShapes_cons, hasShapes_nil] at hs
    obtain ⟨A, _, rfl, hA, rfl⟩ := hs
    cases h; rw [resSet_terms]; exact hA
  case h_20 e a =>
    simp only [hasShapes_cons, hasShapes_nil] at hs
    obtain ⟨A, _, rfl, ⟨he, hA⟩, _, _, rfl, _, rfl⟩ := hs
    split at h
    · cases h
      rw [admSet_fuzzy] at hadm
      rw [resSet_fuzzy]
      have hw : (bit shWord).testBit (shapeOfTree e) = true := testBit_of_sub hadm hA
      rw [← isWord_eq] at hw
      refine hasShape_item ?_ (testBit_bit_self _)
      simp [mgrPostUnary, CanonAt, hw]
    · cases h
  case h_21 v' =>
    simp only [hasShapes_cons, hasShapes_nil] at hs
    obtain ⟨A, _, rfl, hA, rfl⟩ := hs
    cases h; rw [resSet_regex]; exact hA
  case h_22 t =>
    simp only [hasShapes_cons, hasShapes_nil] at hs
    obtain ⟨A, _, rfl, hA, rfl⟩ := hs
    split at h
    cases h
    rw [resSet_toTerm]
    refine hasShape_item ?_ (testBit_bit_self _)
    simp [CanonAt]
  case h_23 v' =>
    simp only [hasShapes_cons, hasShapes_nil] at hs
    obtain ⟨A, _, rfl, hA, rfl⟩ := hs
    cases h; rw [resSet_phraseOrTerm]; exact hA
  case h_24 => cases h

end Luqum
