/-
  Luqum.Lemmas.ReparseNums — conditions on the numerals of a tree that do not mention the ghost
  field `raw`, under which the numerals the implementation prints are read back, by the parser's
  conversions, as the same numbers: `numsOK`.  With the part of `TextOK` that is about words
  (`WordsOK`) it gives `TextOK (respell u)`.
-/
import Luqum.Lemmas.ReparseSpell
import Luqum.Props.C01Num

namespace Luqum
open Luqum.Compl
open Luqum.Props.C01 (respell respells)

/-! ### one numeral -/

/-- at most `decPrec` significant digits (the coefficient without its trailing zeros) -/
def shortSig (d : Dec) : Bool := decide ((natDigits d.canon.coeff).length ≤ decPrec)

/-- a degree of `Fuzzy` / force of `Boost` that is printed and read back as the same number:
implicit and equal to the default of the class, or explicit, not negative and of at most `decPrec`
significant digits (what `Decimal.normalize()` keeps) -/
def decOK (dflt : Dec) (n : Num) : Bool :=
  if n.implicit then n.val.numEq dflt else !n.val.neg && shortSig n.val

/-- a degree of `Proximity` that is printed and read back as the same number: implicit and equal to
1, or explicit, not negative, with an exponent that is not negative (printed without a dot; a Python
`int` has exponent 0) and printed with at most `intMaxStrDigits` digits -/
def intOK (n : Num) : Bool :=
  if n.implicit then n.val.numEq { coeff := 1 }
  else !n.val.neg && decide (0 ≤ n.val.exp) && decide (n.val.render.length ≤ intMaxStrDigits)

theorem numEq_comm (a b : Dec) : a.numEq b = b.numEq a := by
  simp only [Dec.numEq]
  exact Bool.eq_iff_iff.2 ⟨fun h => by rw [beq_iff_eq] at h ⊢; exact h.symm,
    fun h => by rw [beq_iff_eq] at h ⊢; exact h.symm⟩

theorem Dec.render_ne_nil {d : Dec} (hn : d.neg = false) : d.render ≠ [] := by
  intro h
  obtain ⟨d', h1, _⟩ := Dec.ofLiteral_render_sameValue hn
  rw [h] at h1
  simp [Dec.ofLiteral] at h1

theorem respell_source (n : Num) :
    (Props.C01.Num.respell n).source = if n.implicit then [] else n.val.render := rfl

/-- the number the implementation prints for a `decOK` numeral is converted (`p_fuzzy`,
`p_boosting`) into an equal number -/
theorem numOK_respell_dec {dflt : Dec} {n : Num} (h : decOK dflt n = true) :
    numOK (decNum · dflt) (Props.C01.Num.respell n) = true := by
  unfold decOK at h
  unfold numOK
  rw [respell_source]
  by_cases hi : n.implicit = true
  · simp only [hi, if_true] at h ⊢
    simp only [srcValue, if_true, decNum]
    show dflt.numEq n.val = true
    rw [numEq_comm]; exact h
  · have hi' : n.implicit = false := by simpa using hi
    simp only [hi', Bool.false_eq_true, if_false, Bool.and_eq_true, Bool.not_eq_true', shortSig,
      decide_eq_true_eq] at h ⊢
    obtain ⟨hn, hs⟩ := h
    obtain ⟨d', h1, h2⟩ := Dec.ofLiteral_render_sameValue hn
    have hc : d'.canon = n.val.canon := (Dec.canon_eq_iff _ _).2 h2
    have hn' : d'.neg = false := ofLiteral_neg h1
    have hnorm : d'.normalize = d'.canon := Dec.normalize_eq_canon' hn' (by rw [hc]; exact hs)
    simp only [srcValue, if_neg (Dec.render_ne_nil hn), decNum, h1]
    show (d'.normalize).numEq n.val = true
    rw [hnorm, Dec.numEq, Dec.canon_canon, hc]
    simp

theorem render_int_digits {d : Dec} (hn : d.neg = false) (he : 0 ≤ d.exp) :
    ∀ c ∈ d.render, isDigitC c = true := by
  rw [Dec.render_of_nonneg_exp hn he]
  split
  · intro c hc; simp at hc; subst hc; decide
  · intro c hc
    simp only [List.mem_append, List.mem_replicate] at hc
    rcases hc with hc | ⟨_, rfl⟩
    · exact natDigits_digit _ c hc
    · exact isDigitC_zero

/-- the same for the degree of a proximity (`p_proximity`) -/
theorem numOK_respell_int {n : Num} (h : intOK n = true) :
    numOK intNum (Props.C01.Num.respell n) = true := by
  unfold intOK at h
  unfold numOK
  rw [respell_source]
  by_cases hi : n.implicit = true
  · simp only [hi, if_true] at h ⊢
    simp only [srcValue, if_true, intNum]
    show Dec.numEq { coeff := 1 } n.val = true
    rw [numEq_comm]; exact h
  · have hi' : n.implicit = false := by simpa using hi
    simp only [hi', Bool.false_eq_true, if_false, Bool.and_eq_true, Bool.not_eq_true',
      decide_eq_true_eq] at h ⊢
    obtain ⟨⟨hn, he⟩, hl⟩ := h
    have hne := Dec.render_ne_nil hn
    have hdig := render_int_digits hn he
    obtain ⟨d', h1, h2⟩ := Dec.ofLiteral_render_sameValue hn
    have h3 := ofLiteral_digits n.val.render (fun c hc => isDigitC_ne_dot (hdig c hc)) hne
    rw [h1] at h3
    cases h3
    have hint : intOfLiteral n.val.render = some (digitsToNat n.val.render) := by
      unfold intOfLiteral
      rw [if_pos]
      simp only [Bool.and_eq_true, List.all_eq_true, Bool.not_eq_true', List.isEmpty_eq_false_iff,
        decide_eq_true_eq]
      exact ⟨⟨fun c hc => by simpa [isDigitC] using hdig c hc, hne⟩, hl⟩
    simp only [srcValue, if_neg hne, intNum, hint]
    exact (Dec.numEq_iff _ _).2 h2

/-! ### the tree -/

mutual
/-- **every numeral of the tree is printed and read back as the same number** (a condition on the
values and the implicit flags only, not on the ghost spelling `raw`) -/
def numsOK : Tree → Bool
  | .term .. => true
  | .field _ e _ => numsOK e
  | .group _ e _ => numsOK e
  | .range lo hi _ _ _ => numsOK lo && numsOK hi
  | .approx .fuzzy e n _ => decOK fuzzyDflt n && numsOK e
  | .approx .proximity e n _ => intOK n && numsOK e
  | .boost e n _ => decOK boostDflt n && numsOK e
  | .op _ xs _ => numssOK xs
  | .unary _ e _ => numsOK e
  | .orange _ e _ _ => numsOK e
  | .none _ => true
def numssOK : List Tree → Bool
  | [] => true
  | x :: r => numsOK x && numssOK r
end

mutual
/-- the part of `TextOK` that is about words and field names: a word is not `AND` / `OR` / `NOT`,
and is `TO` only where the grammar has `p_to_as_term`; field names are not reserved words -/
def WordsOK : Tree → Bool
  | .term .word v _ => reservedKind v == .term || reservedKind v == .to
  | .term .phrase _ _ => true
  | .term .regex _ _ => true
  | .field n e _ => reservedKind n == .term && WordsOK e
  | .group _ e _ => WordsOK e
  | .range lo hi _ _ _ => boundText lo && boundText hi
  | .approx .fuzzy e _ _ => wordTerm e
  | .approx .proximity _ _ _ => true
  | .boost e _ _ => WordsOK e
  | .op _ xs _ => WordssOK xs
  | .unary _ e _ => WordsOK e
  | .orange _ e _ _ => wordTerm e
  | .none _ => true
def WordssOK : List Tree → Bool
  | [] => true
  | x :: r => WordsOK x && WordssOK r
end

mutual
/-- the part of `TextOK` that is about the source spelling of the numerals -/
def SrcNumsOK : Tree → Bool
  | .term .. => true
  | .field _ e _ => SrcNumsOK e
  | .group _ e _ => SrcNumsOK e
  | .range .. => true
  | .approx .fuzzy _ n _ => numOK (decNum · fuzzyDflt) n
  | .approx .proximity _ n _ => numOK intNum n
  | .boost e n _ => SrcNumsOK e && numOK (decNum · boostDflt) n
  | .op _ xs _ => SrcNumssOK xs
  | .unary _ e _ => SrcNumsOK e
  | .orange .. => true
  | .none _ => true
def SrcNumssOK : List Tree → Bool
  | [] => true
  | x :: r => SrcNumsOK x && SrcNumssOK r
end

mutual
/-- `TextOK` is the conjunction of its two parts -/
theorem textOK_split : ∀ t : Tree, TextOK t = (WordsOK t && SrcNumsOK t)
  | .term k v l => by cases k <;> simp [TextOK, WordsOK, SrcNumsOK]
  | .field n e l => by simp [TextOK, WordsOK, SrcNumsOK, textOK_split e, Bool.and_assoc]
  | .group k e l => by simp [TextOK, WordsOK, SrcNumsOK, textOK_split e]
  | .range a b il ih l => by simp [TextOK, WordsOK, SrcNumsOK]
  | .approx k t n l => by cases k <;> simp [TextOK, WordsOK, SrcNumsOK]
  | .boost e n l => by simp [TextOK, WordsOK, SrcNumsOK, textOK_split e, Bool.and_assoc]
  | .op k xs l => by simp [TextOK, WordsOK, SrcNumsOK, textsOK_split xs]
  | .unary k a l => by simp [TextOK, WordsOK, SrcNumsOK, textOK_split a]
  | .orange k a i l => by simp [TextOK, WordsOK, SrcNumsOK]
  | .none l => by simp [TextOK, WordsOK, SrcNumsOK]
theorem textsOK_split : ∀ xs : List Tree, TextsOK xs = (WordssOK xs && SrcNumssOK xs)
  | [] => by simp [TextsOK, WordssOK, SrcNumssOK]
  | x :: r => by
    simp only [TextsOK, WordssOK, SrcNumssOK, textOK_split x, textsOK_split r]
    cases WordsOK x <;> cases SrcNumsOK x <;> cases WordssOK r <;> cases SrcNumssOK r <;> rfl
end

@[simp] theorem wordTerm_respell (t : Tree) : wordTerm (respell t) = wordTerm t := by
  cases t with
  | term k v l => cases k <;> simp [respell, wordTerm]
  | _ => simp [respell, wordTerm]

@[simp] theorem boundText_respell (t : Tree) : boundText (respell t) = boundText t := by
  cases t with
  | term k v l => cases k <;> simp [respell, boundText, wordTerm]
  | unary k e l =>
    cases k
    · simp [respell, boundText, wordTerm]
    · simp [respell, boundText, wordTerm]
    · simp only [respell, boundText]; exact wordTerm_respell e
  | _ => simp [respell, boundText, wordTerm]

mutual
/-- **the texts and numerals of the re-spelled tree are those of `Parseable`** -/
theorem textOK_respell : ∀ t : Tree, WordsOK t = true → numsOK t = true → TextOK (respell t) = true
  | .term .word v l, hw, _ => by simpa [respell, TextOK, WordsOK] using hw
  | .term .phrase v l, _, _ => by simp [respell, TextOK]
  | .term .regex v l, _, _ => by simp [respell, TextOK]
  | .field n e l, hw, hn => by
    simp only [WordsOK, Bool.and_eq_true] at hw
    simp only [numsOK] at hn
    simp only [respell, TextOK, Bool.and_eq_true]
    exact ⟨hw.1, textOK_respell e hw.2 hn⟩
  | .group k e l, hw, hn => by
    simp only [WordsOK] at hw
    simp only [numsOK] at hn
    simpa [respell, TextOK] using textOK_respell e hw hn
  | .range a b il ih l, hw, _ => by simpa [respell, TextOK, WordsOK] using hw
  | .approx .fuzzy e n l, hw, hn => by
    simp only [WordsOK] at hw
    simp only [numsOK, Bool.and_eq_true] at hn
    simp only [respell, TextOK, Bool.and_eq_true, wordTerm_respell]
    exact ⟨hw, numOK_respell_dec hn.1⟩
  | .approx .proximity e n l, _, hn => by
    simp only [numsOK, Bool.and_eq_true] at hn
    simp only [respell, TextOK]
    exact numOK_respell_int hn.1
  | .boost e n l, hw, hn => by
    simp only [WordsOK] at hw
    simp only [numsOK, Bool.and_eq_true] at hn
    simp only [respell, TextOK, Bool.and_eq_true]
    exact ⟨textOK_respell e hw hn.2, numOK_respell_dec hn.1⟩
  | .op k xs l, hw, hn => by
    simp only [WordsOK] at hw
    simp only [numsOK] at hn
    simpa [respell, TextOK] using textsOK_respells xs hw hn
  | .unary k a l, hw, hn => by
    simp only [WordsOK] at hw
    simp only [numsOK] at hn
    simpa [respell, TextOK] using textOK_respell a hw hn
  | .orange k a i l, hw, _ => by simpa [respell, TextOK, WordsOK] using hw
  | .none l, _, _ => by simp [respell, TextOK]
theorem textsOK_respells : ∀ xs : List Tree, WordssOK xs = true → numssOK xs = true →
    TextsOK (respells xs) = true
  | [], _, _ => by simp [respells, TextsOK]
  | x :: r, hw, hn => by
    simp only [WordssOK, Bool.and_eq_true] at hw
    simp only [numssOK, Bool.and_eq_true] at hn
    simp only [respells, TextsOK, Bool.and_eq_true]
    exact ⟨textOK_respell x hw.1 hn.1, textsOK_respells r hw.2 hn.2⟩
end

end Luqum
