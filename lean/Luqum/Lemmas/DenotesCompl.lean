/-
  Luqum.Lemmas.DenotesCompl — direction characterisation ⇒ grammar: a canonical tree with fine texts
  is denoted by its yield, at the tightest level its root allows (`levelOf`); and the equivalence
  `denotes_iff` of the readable grammar (`Denotes`) with the decidable characterisation of the parser
  (`Parseable` + `yield`).
-/
import Luqum.Lemmas.DenotesSound

namespace Luqum.Grammar
open Luqum Luqum.Compl

/-- the tightest level at which a tree can be denoted: the level of the rule that builds its root -/
def levelOf : Tree → Level
  | .op .unk _ _ => .implicit
  | .op .or _ _ => .or
  | .op .and _ _ => .and
  | .op .bool _ _ => .and
  | .unary .. => .prefix
  | .field .. => .prefix
  | .boost .. => .suffix
  | .approx .. => .suffix
  | _ => .atom

theorem levelOf_le_of_fits {lv : Level} {t : Tree} (hlv : Level.suffix ≤ lv) (h : fits lv t = true) :
    levelOf t ≤ lv := by
  cases t with
  | op k xs l =>
    cases k <;> cases lv <;>
      first
        | (exact absurd hlv (by decide))
        | (simp [fits, isOpK] at h; done)
        | (simp [Level.le_def, levelOf, Level.rank]; done)
  | _ =>
    cases lv <;>
      first
        | (exact absurd hlv (by decide))
        | (simp [fits, isUnary, isField] at h; done)
        | (simp [Level.le_def, levelOf, Level.rank]; done)

theorem levelOf_le_implicit (t : Tree) : levelOf t ≤ .implicit := by
  cases t with
  | op k xs l => cases k <;> simp [Level.le_def, levelOf, Level.rank]
  | _ => simp [Level.le_def, levelOf, Level.rank]

theorem nodeCount_le_of_mem {x : Tree} {xs : List Tree} (h : x ∈ xs) :
    x.nodeCount ≤ Tree.nodeCounts xs := by
  induction xs with
  | nil => cases h
  | cons y r ih =>
    simp only [Tree.nodeCounts]
    rcases List.mem_cons.1 h with rfl | h
    · omega
    · have := ih h; omega

/-- the operands of an n-ary rule, from the operands of an operation -/
def asOps (xs : List Tree) : List (List Token × Tree) := xs.map fun x => (yield x, x)

theorem asOps_fst (xs : List Tree) : (asOps xs).map (·.1) = yields xs := by
  rw [yields_eq_map]; simp [asOps]

theorem asOps_snd (xs : List Tree) : (asOps xs).map (·.2) = xs := by
  induction xs with
  | nil => rfl
  | cons x r ih => simpa [asOps] using ih

theorem word_cases {v : Str} (h : reservedKind v = .to) : v = "TO".toList := by
  unfold reservedKind at h
  repeat' split at h
  all_goals first | assumption | cases h

/-- a one-token operand, from the tests of `CanonAt` and `TextOK` -/
theorem wordOrPhrase_of {e : Tree} (h1 : isWP e = true) (h2 : wordTerm e = true) :
    ∃ tk, yield e = [tk] ∧ WordOrPhrase tk e := by
  cases e with
  | term k v l =>
    cases k with
    | word =>
      simp only [wordTerm, beq_iff_eq] at h2
      exact ⟨(.term, v), by simp [yield, h2], .word h2⟩
    | phrase => exact ⟨(.phrase, v), by simp [yield], .phrase⟩
    | regex => simp [isWP] at h1
  | _ => simp [isWP] at h1

/-- **characterisation ⇒ grammar**, by induction on the size of the tree -/
theorem denotes_of_canon_aux : ∀ (n : Nat) (t : Tree), t.nodeCount ≤ n →
    CanonAt false t = true → TextOK t = true → Denotes (levelOf t) (yield t) t := by
  intro n
  induction n with
  | zero =>
    intro t hn
    cases t <;> simp [Tree.nodeCount] at hn
  | succ n ih =>
    intro t hn hc ht
    cases t with
    | none l => simp [CanonAt] at hc
    | term k v l =>
      cases k with
      | word =>
        simp only [TextOK, Bool.or_eq_true, beq_iff_eq] at ht
        rcases ht with h | h
        · simp only [yield, h]
          exact .word h
        · have hv := word_cases h
          subst hv
          exact .toWord
      | phrase => exact .phrase
      | regex => exact .regex
    | op k xs l =>
      simp only [CanonAt, Bool.and_eq_true, List.all_eq_true, decide_eq_true_eq, bne_iff_ne, ne_eq] at hc
      obtain ⟨⟨⟨hk, hlen⟩, hcs⟩, hall⟩ := hc
      simp only [TextOK] at ht
      simp only [Tree.nodeCount] at hn
      have hlen' : 2 ≤ (asOps xs).length := by simpa [asOps] using hlen
      -- every operand, at its own level
      have hops : ∀ x ∈ xs, Denotes (levelOf x) (yield x) x := fun x hx =>
        ih x (by have := nodeCount_le_of_mem hx; omega) ((canonsAt_iff xs).1 hcs x hx)
          ((textsOK_iff xs).1 ht x hx)
      -- … hence at the level the operation wants
      have hlv : ∀ lv, Level.suffix ≤ lv → (∀ x ∈ xs, fits lv x = true) →
          ∀ p ∈ asOps xs, Denotes lv p.1 p.2 := by
        intro lv hs hf p hp
        obtain ⟨x, hx, rfl⟩ := List.mem_map.1 hp
        exact .looser (levelOf_le_of_fits hs (hf x hx)) (hops x hx)
      cases k with
      | bool => exact absurd rfl hk
      | unk =>
        have := Denotes.implicit (asOps xs) l hlen'
          (hlv .or (by decide) fun x hx => by simpa [operandOK, fits] using hall x hx)
        rw [asOps_fst, asOps_snd] at this
        exact this
      | or =>
        have := Denotes.or (asOps xs) l hlen'
          (hlv .and (by decide) fun x hx => by simpa [operandOK, fits] using hall x hx)
        rw [asOps_fst, asOps_snd] at this
        exact this
      | and =>
        have := Denotes.and (asOps xs) l hlen'
          (hlv .prefix (by decide) fun x hx => by simpa [operandOK, fits] using hall x hx)
        rw [asOps_fst, asOps_snd] at this
        exact this
    | unary k e l =>
      simp only [CanonAt, Bool.and_eq_true] at hc
      simp only [TextOK] at ht
      simp only [Tree.nodeCount] at hn
      have he : Denotes .prefix (yield e) e :=
        .looser (levelOf_le_of_fits (by decide) (by simpa [fits] using hc.2)) (ih e (by omega) hc.1 ht)
      cases k with
      | plus => exact .plus he
      | prohibit => exact .minus he
      | not => exact .not he
    | field name e l =>
      simp only [CanonAt, Bool.and_eq_true] at hc
      simp only [TextOK, Bool.and_eq_true, beq_iff_eq] at ht
      simp only [Tree.nodeCount] at hn
      by_cases hp : isParen e = true
      · -- `name:( … )`
        cases e with
        | group k x lg =>
          simp only [CanonAt, Bool.and_eq_true, beq_iff_eq] at hc
          simp only [TextOK] at ht
          simp only [Tree.nodeCount] at hn
          have hk : k = .fieldGroup := by
            cases k with
            | group => simp at hc
            | fieldGroup => rfl
          subst hk
          have hx : Denotes .implicit (yield x) x :=
            .looser (levelOf_le_implicit x)
              (ih x (by omega) hc.1.2 ht.2)
          have := Denotes.fieldGroup (lg := lg) (l := l) ht.1 hx
          simpa [yield, levelOf] using this
        | _ => simp [isParen] at hp
      · -- any other value
        have hp' : isParen e = false := by simpa using hp
        have hcf : CanonAt false e = true := by
          cases e with
          | group k x lg => simp [isParen] at hp'
          | approx k _ _ _ => cases k <;> simpa [CanonAt] using hc.1
          | term => rfl
          | none => simp [CanonAt] at hc
          | _ => simpa [CanonAt] using hc.1
        have he : Denotes .prefix (yield e) e :=
          .looser (levelOf_le_of_fits (by decide) (by simpa [fits] using hc.2)) (ih e (by omega) hcf ht.2)
        exact .field ht.1 he hp'
    | group k e l =>
      simp only [CanonAt, Bool.and_eq_true, beq_iff_eq] at hc
      simp only [TextOK] at ht
      simp only [Tree.nodeCount] at hn
      have hk : k = .group := by
        cases k with
        | group => rfl
        | fieldGroup => simp at hc
      subst hk
      have hx : Denotes .implicit (yield e) e :=
        .looser (levelOf_le_implicit e)
          (ih e (by omega) hc.2 ht)
      exact .group hx
    | boost e num l =>
      simp only [CanonAt, Bool.and_eq_true] at hc
      simp only [TextOK, Bool.and_eq_true] at ht
      simp only [Tree.nodeCount] at hn
      have he : Denotes .suffix (yield e) e :=
        .looser (levelOf_le_of_fits (by decide) (by simp [fits, hc.1.1.2, hc.1.2, hc.2]))
          (ih e (by omega) hc.1.1.1 ht.1)
      exact .boost he ((decNumeral_iff _ _ _).2 ⟨rfl, ht.2⟩)
    | approx k e num l =>
      cases k with
      | fuzzy =>
        simp only [CanonAt] at hc
        simp only [TextOK, Bool.and_eq_true] at ht
        cases e with
        | term k v lw =>
          cases k with
          | word =>
            have hw : reservedKind v = .term := by simpa [wordTerm] using ht.1
            have := Denotes.fuzzy (lw := lw) (l := l) hw ((decNumeral_iff fuzzyDflt _ num).2 ⟨rfl, ht.2⟩)
            simpa [yield, hw, levelOf] using this
          | _ => simp [isWord] at hc
        | _ => simp [isWord] at hc
      | proximity =>
        simp only [CanonAt] at hc
        simp only [TextOK] at ht
        cases e with
        | term k v lp =>
          cases k with
          | phrase =>
            have := Denotes.proximity (p := v) (lp := lp) (l := l) ((intNumeral_iff _ num).2 ⟨rfl, ht⟩)
            simpa [yield, levelOf] using this
          | _ => simp [isPhrase] at hc
        | _ => simp [isPhrase] at hc
    | range lo hi il ih' l =>
      simp only [CanonAt, Bool.and_eq_true] at hc
      simp only [TextOK, Bool.and_eq_true] at ht
      exact .range ((bound_iff _ _).2 ⟨hc.1, ht.1, rfl⟩) ((bound_iff _ _).2 ⟨hc.2, ht.2, rfl⟩)
    | orange k e inc l =>
      simp only [CanonAt] at hc
      simp only [TextOK] at ht
      obtain ⟨tk, hy, hw⟩ := wordOrPhrase_of hc ht
      cases k with
      | to =>
        have := Denotes.lessThan (inclusive := inc) (l := l) hw
        simpa [yield, hy, levelOf] using this
      | «from» =>
        have := Denotes.greaterThan (inclusive := inc) (l := l) hw
        simpa [yield, hy, levelOf] using this

/-- **characterisation ⇒ grammar**: a canonical tree with fine texts is denoted by its yield, at the
level of its root -/
theorem denotes_of_canon (t : Tree) (hc : CanonAt false t = true) (ht : TextOK t = true) :
    Denotes (levelOf t) (yield t) t :=
  denotes_of_canon_aux t.nodeCount t (Nat.le_refl _) hc ht

/-- **the readable grammar is the characterisation of the parser**: the tokens `toks` denote the
tree `t` (as a query) iff `t` is `Parseable` and `toks` is its yield -/
theorem denotes_iff (toks : List Token) (t : Tree) :
    Denotes .implicit toks t ↔ (Parseable t = true ∧ yield t = toks) := by
  constructor
  · intro h
    obtain ⟨h1, _, h3, h4⟩ := denotes_sound h
    exact ⟨by simp [Parseable, h1, h3], h4⟩
  · rintro ⟨hp, rfl⟩
    simp only [Parseable, Bool.and_eq_true] at hp
    exact .looser (levelOf_le_implicit t) (denotes_of_canon t hp.1 hp.2)

/-- the same at every level: `fits` is exactly what a level adds -/
theorem denotes_iff_level (lv : Level) (hlv : Level.suffix ≤ lv) (toks : List Token) (t : Tree) :
    Denotes lv toks t ↔ (Parseable t = true ∧ fits lv t = true ∧ yield t = toks) := by
  constructor
  · intro h
    obtain ⟨h1, h2, h3, h4⟩ := denotes_sound h
    exact ⟨by simp [Parseable, h1, h3], h2, h4⟩
  · rintro ⟨hp, hf, rfl⟩
    simp only [Parseable, Bool.and_eq_true] at hp
    exact .looser (levelOf_le_of_fits hlv hf) (denotes_of_canon t hp.1 hp.2)

end Luqum.Grammar
