/-
  Luqum.Lemmas.LaidLex — property C02 (positions): the lexer puts every token at the right place.
  When `lex` meets no illegal character, the `pos` of each token is the offset at which its lexeme
  starts (the heads, lexemes and tails of the tokens before it, then its own head); hence the stack
  values the parser receives are laid out consecutively from offset 0.
-/
import Luqum.Lemmas.LexLossless
import Luqum.Lemmas.LaidAct

namespace Luqum

/-- the tokens are laid out one after the other, the first one's head starting at `off` -/
def TokPos : List Tok → Nat → Prop
  | [], _ => True
  | t :: r, off => t.pos = off + t.head.length ∧ TokPos r (off + t.flat.length)

theorem tokPos_snoc : ∀ (l : List Tok) (t : Tok) (off : Nat),
    TokPos (l ++ [t]) off ↔ TokPos l off ∧ t.pos = off + (tflats l).length + t.head.length
  | [], t, off => by simp [TokPos]
  | x :: r, t, off => by
      simp only [List.cons_append, TokPos, tokPos_snoc r t, tflats_cons, List.length_append,
        and_assoc, Nat.add_assoc]

theorem take_length_of_drop_ne {α : Type} {l : List α} {n : Nat} (h : l.drop n ≠ []) :
    (l.take n).length = n := by
  have : n < l.length := by
    apply Classical.byContradiction
    intro hn
    exact h (List.drop_eq_nil_of_le (by omega))
  simp [List.length_take]; omega

theorem lexLoop_pos : ∀ (fuel pos : Nat) (prev rest : Str) (acc : List Tok) (pending : Option Str)
    (toks : List Tok) (done : Str),
    rest.length < fuel →
    (rest ≠ [] → pos = done.length) →
    (acc = [] → done = pending.getD [] ∧ (done ≠ [] → ∀ c r, rest = c :: r → isSpace c = false)) →
    (acc ≠ [] → pending = none ∧ done = tflats acc.reverse ∧ done ≠ []) →
    TokPos acc.reverse 0 →
    lexLoop fuel pos prev rest acc pending = (toks, none) →
    TokPos toks 0 := by
  intro fuel
  induction fuel with
  | zero => intro pos prev rest acc pending toks done hf; omega
  | succ fuel ih =>
    intro pos prev rest acc pending toks done hf hpos hnil hcons hwf h
    cases rest with
    | nil =>
      simp [lexLoop] at h
      subst h
      exact hwf
    | cons c r =>
      have hpos' : pos = done.length := hpos (by simp)
      unfold lexLoop at h
      simp only at h
      cases hl : lexOne prev (c :: r) with
      | none => rw [hl] at h; simp at h
      | some l =>
        rw [hl] at h
        rcases lexOne_spec hl with ⟨hc, rfl⟩ | ⟨hc, k, n, rfl, hk⟩
        · -- a separator
          simp only at h
          have hn1 : max (sepLen (c :: r)) 1 = sepLen (c :: r) := Nat.max_eq_left (sepLen_pos (r := r) hc)
          rw [hn1] at h
          have hsp : 1 ≤ sepLen (c :: r) := sepLen_pos hc
          have hlen := drop_length_lt hsp hf
          have hsne : (c :: r).take (sepLen (c :: r)) ≠ [] := take_ne_nil (sepLen_pos (r := r) hc)
          by_cases hp : pos = 0
          · rw [if_pos hp] at h
            have hd : done = [] := by
              rw [hp] at hpos'; exact List.eq_nil_of_length_eq_zero hpos'.symm
            have hacc : acc = [] := Classical.byContradiction fun hne => (hcons hne).2.2 hd
            subst hacc; subst hd
            exact ih _ _ _ _ _ _ ((c :: r).take (sepLen (c :: r))) hlen
              (fun hne => by rw [take_length_of_drop_ne hne]; omega)
              (fun _ => ⟨rfl, fun _ => sepLen_drop (c :: r)⟩)
              (fun hne => absurd rfl hne) hwf h
          · rw [if_neg hp] at h
            have hdn : done ≠ [] := by
              intro hd; rw [hd] at hpos'; exact hp hpos'
            cases acc with
            | nil =>
              have := (hnil rfl).2 hdn c r rfl
              rw [hc] at this; cases this
            | cons t racc =>
              obtain ⟨hpn, hdone, _⟩ := hcons (by simp)
              simp only [addTail] at h
              refine ih _ _ _ _ _ _ (done ++ (c :: r).take (sepLen (c :: r))) hlen
                (fun hne => by rw [List.length_append, take_length_of_drop_ne hne]; omega)
                (fun hh => by simp at hh)
                (fun _ => ⟨hpn, by simp [hdone, Tok.flat],
                  fun h' => absurd (List.append_eq_nil_iff.1 h').2 hsne⟩)
                ?_ h
              simp only [List.reverse_cons] at hwf ⊢
              rw [tokPos_snoc] at hwf ⊢
              exact hwf
        · -- a token
          simp only at h
          have hn1 : 1 ≤ max n 1 := Nat.le_max_right _ _
          have hlen := drop_length_lt hn1 hf
          have hsne : (c :: r).take (max n 1) ≠ [] := take_ne_nil hn1
          refine ih _ _ _ _ _ _ (done ++ (c :: r).take (max n 1)) hlen
            (fun hne => by rw [List.length_append, take_length_of_drop_ne hne]; omega)
            (fun hh => by simp at hh)
            (fun _ => ⟨rfl, by
              by_cases hacc : acc = []
              · subst hacc; simp [(hnil rfl).1, Tok.flat]
              · obtain ⟨hpn, hdone, _⟩ := hcons hacc
                simp [hpn, hdone, Tok.flat],
              fun h' => absurd (List.append_eq_nil_iff.1 h').2 hsne⟩)
            ?_ h
          simp only [List.reverse_cons]
          rw [tokPos_snoc]
          refine ⟨hwf, ?_⟩
          by_cases hacc : acc = []
          · subst hacc
            simp [(hnil rfl).1 ▸ hpos']
          · obtain ⟨hpn, hdone, _⟩ := hcons hacc
            simp [hpn, ← hdone, hpos']

/-- **token positions**: if the lexer meets no illegal character, each token's `pos` is the offset
of its lexeme in the input -/
theorem lex_tokPos {s : Str} {toks : List Tok} (h : lex s = (toks, none)) : TokPos toks 0 :=
  lexLoop_pos (s.length + 1) 0 [] s [] none toks [] (by omega) (fun _ => rfl)
    (fun _ => ⟨rfl, fun h => absurd rfl h⟩) (fun h => absurd rfl h) trivial h

/-! ### from tokens to stack values -/

theorem toVal_lay_head (t : Tok) : t.toVal.lay.head = t.head := by
  obtain ⟨kind, text, pos, head, tail⟩ := t
  cases kind <;> simp [Tok.toVal, Val.lay, Tree.lay]

theorem toVal_posAt {t : Tok} (h : tokOK t.kind t.text) : t.toVal.PosAt (t.pos : Int) := by
  obtain ⟨kind, text, pos, head, tail⟩ := t
  cases kind <;> simp only [tokOK] at h <;>
    simp [Tok.toVal, Val.PosAt, Pos, LayAt, body_term, tokText]
  all_goals
    obtain ⟨cs, rfl⟩ := h
    cases cs <;> simp

theorem seqPos_toVal : ∀ {toks : List Tok} {off : Nat}, (∀ t ∈ toks, tokOK t.kind t.text) →
    TokPos toks off → SeqPos (toks.map Tok.toVal) (off : Int)
  | [], _, _, _ => trivial
  | t :: r, off, hok, hp => by
    simp only [List.map_cons, SeqPos, toVal_lay_head, toVal_flat (hok t (by simp))]
    obtain ⟨h1, h2⟩ := hp
    refine ⟨?_, ?_⟩
    · have := toVal_posAt (hok t (by simp))
      rw [h1] at this
      simpa using this
    · have := seqPos_toVal (fun x hx => hok x (by simp [hx])) h2
      simpa using this

end Luqum
