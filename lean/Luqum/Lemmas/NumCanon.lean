/-
  Luqum.Lemmas.NumCanon — `stripZeros`, `Dec.canon` (soundness w.r.t. the numeric value),
  `Dec.normalize` (normal forms, idempotence).  Core Lean only.
-/
import Luqum.Lemmas.NumDigits

namespace Luqum

/-! ### `stripZeros` -/

/-- with enough fuel, `stripZeros` splits off a power of ten and leaves a coefficient that is
not divisible by ten -/
theorem stripZeros_spec : ∀ (fuel c : Nat) (e : Int), c ≤ fuel → c ≠ 0 →
    ∃ k : Nat, (stripZeros fuel c e).2 = e + k ∧ (stripZeros fuel c e).1 * 10 ^ k = c ∧
      (stripZeros fuel c e).1 % 10 ≠ 0
  | 0, c, e, hf, hc => by omega
  | fuel + 1, c, e, hf, hc => by
    unfold stripZeros
    by_cases h : c ≠ 0 ∧ c % 10 = 0
    · rw [if_pos h]
      obtain ⟨k, h1, h2, h3⟩ := stripZeros_spec fuel (c / 10) (e + 1) (by omega) (by omega)
      refine ⟨k + 1, ?_, ?_, h3⟩
      · rw [h1]; omega
      · rw [Nat.pow_succ, ← Nat.mul_assoc, h2]; omega
    · rw [if_neg h]
      exact ⟨0, by simp, by simp, by omega⟩

/-- stripping `c·10^k` with `10 ∤ c` gives back `c` -/
theorem stripZeros_mul_pow : ∀ (fuel c k : Nat) (e : Int), c % 10 ≠ 0 → k ≤ fuel →
    stripZeros fuel (c * 10 ^ k) e = (c, e + k)
  | 0, c, k, e, hc, hk => by
    have : k = 0 := by omega
    subst this; simp [stripZeros]
  | fuel + 1, c, 0, e, hc, hk => by
    unfold stripZeros
    simp [hc]
  | fuel + 1, c, k + 1, e, hc, hk => by
    unfold stripZeros
    have h0 : c ≠ 0 := by intro h; subst h; simp at hc
    have hp : 0 < 10 ^ k := Nat.pow_pos (by decide)
    have h1 : c * 10 ^ (k + 1) ≠ 0 := by
      rw [Nat.pow_succ]; exact Nat.mul_ne_zero h0 (Nat.mul_ne_zero (by omega) (by decide))
    have h2 : c * 10 ^ (k + 1) % 10 = 0 := by
      rw [Nat.pow_succ, ← Nat.mul_assoc]; exact Nat.mul_mod_left _ _
    have h3 : c * 10 ^ (k + 1) / 10 = c * 10 ^ k := by
      rw [Nat.pow_succ, ← Nat.mul_assoc]; exact Nat.mul_div_cancel _ (by decide)
    rw [if_pos ⟨h1, h2⟩, h3, stripZeros_mul_pow fuel c k (e + 1) hc (by omega)]
    congr 1; omega

theorem lt_ten_pow (k : Nat) : k < 10 ^ k := by
  induction k with
  | zero => simp
  | succ k ih => rw [Nat.pow_succ]; omega

/-- the fuel used by the model (`c` itself) is always enough -/
theorem stripZeros_self_mul_pow (c k : Nat) (e : Int) (hc : c % 10 ≠ 0) :
    stripZeros (c * 10 ^ k) (c * 10 ^ k) e = (c, e + k) := by
  apply stripZeros_mul_pow _ _ _ _ hc
  have h0 : 0 < c := by
    apply Nat.pos_of_ne_zero; intro h; subst h; simp at hc
  have := lt_ten_pow k
  calc k ≤ 10 ^ k := by omega
    _ = 1 * 10 ^ k := by simp
    _ ≤ c * 10 ^ k := Nat.mul_le_mul_right _ h0

/-- a decimal representation `x·10^i` with `10 ∤ x` is unique -/
theorem mul_pow_unique : ∀ (i j x y : Nat), x % 10 ≠ 0 → y % 10 ≠ 0 →
    x * 10 ^ i = y * 10 ^ j → x = y ∧ i = j
  | 0, 0, x, y, _, _, h => by simpa using h
  | 0, j + 1, x, y, hx, _, h => by
    exfalso; apply hx
    rw [Nat.pow_zero, Nat.mul_one] at h
    rw [h, Nat.pow_succ, ← Nat.mul_assoc]; exact Nat.mul_mod_left _ _
  | i + 1, 0, x, y, _, hy, h => by
    exfalso; apply hy
    rw [Nat.pow_zero, Nat.mul_one] at h
    rw [← h, Nat.pow_succ, ← Nat.mul_assoc]; exact Nat.mul_mod_left _ _
  | i + 1, j + 1, x, y, hx, hy, h => by
    rw [Nat.pow_succ, Nat.pow_succ, ← Nat.mul_assoc, ← Nat.mul_assoc] at h
    have := Nat.eq_of_mul_eq_mul_right (by decide : 0 < 10) h
    obtain ⟨h1, h2⟩ := mul_pow_unique i j x y hx hy this
    exact ⟨h1, by omega⟩

/-! ### `Dec.canon` -/

/-- the numeric value of `d` as an integer after scaling by `10^(-m)` (meaningful for
`m ≤ d.exp`): `±coeff · 10^(exp - m)` -/
def Dec.scaled (d : Dec) (m : Int) : Int :=
  (if d.neg then -1 else 1) * ((d.coeff * 10 ^ (d.exp - m).toNat : Nat) : Int)

/-- `a` and `b` denote the same number: equal after scaling both to the common exponent
`min a.exp b.exp` (so both scaled values are integers); a zero has no sign. -/
def Dec.SameValue (a b : Dec) : Prop :=
  a.scaled (min a.exp b.exp) = b.scaled (min a.exp b.exp)

theorem Dec.canon_zero {d : Dec} (h : d.coeff = 0) :
    d.canon = { neg := false, coeff := 0, exp := 0 } := by
  simp [Dec.canon, h]

/-- shape of the canonical form of a non-zero number -/
theorem Dec.canon_nonzero {d : Dec} (h : d.coeff ≠ 0) :
    ∃ (c k : Nat), d.canon = { neg := d.neg, coeff := c, exp := d.exp + k } ∧
      c * 10 ^ k = d.coeff ∧ c % 10 ≠ 0 := by
  obtain ⟨k, h1, h2, h3⟩ := stripZeros_spec d.coeff d.coeff d.exp (Nat.le_refl _) h
  refine ⟨(stripZeros d.coeff d.coeff d.exp).1, k, ?_, h2, h3⟩
  simp only [Dec.canon, if_neg h]
  rw [← h1]

theorem Dec.canon_of_mul_pow (n : Bool) (c k : Nat) (e : Int) (hc : c % 10 ≠ 0) :
    Dec.canon { neg := n, coeff := c * 10 ^ k, exp := e } =
      { neg := n, coeff := c, exp := e + k } := by
  have h0 : c ≠ 0 := by intro h; subst h; simp at hc
  have : c * 10 ^ k ≠ 0 := Nat.mul_ne_zero h0 (Nat.ne_of_gt (Nat.pow_pos (by decide)))
  simp only [Dec.canon, if_neg this, stripZeros_self_mul_pow c k e hc]

private theorem sgn_mul_eq_zero (n : Bool) (x : Nat) :
    (if n then -1 else 1) * (x : Int) = 0 ↔ x = 0 := by
  cases n <;> simp

private theorem sgn_mul_inj (n1 n2 : Bool) (x y : Nat) (hx : 0 < x) (hy : 0 < y) :
    (if n1 then -1 else 1) * (x : Int) = (if n2 then -1 else 1) * (y : Int) ↔
      n1 = n2 ∧ x = y := by
  cases n1 <;> cases n2 <;> simp <;> omega

private theorem scaled_eq_zero_iff (d : Dec) (m : Int) : d.scaled m = 0 ↔ d.coeff = 0 := by
  unfold Dec.scaled
  rw [sgn_mul_eq_zero]
  have hp : 0 < 10 ^ (d.exp - m).toNat := Nat.pow_pos (by decide)
  constructor
  · intro h
    rcases Nat.mul_eq_zero.mp h with h | h
    · exact h
    · omega
  · intro h; simp [h]

/-- **`canon` is sound and complete for the numeric value**: two decimals have the same canonical
form iff they denote the same number (`±coeff·10^exp`, compared exactly after scaling to the
common exponent; `0` and `-0` and `0E+5` are the same number). -/
theorem Dec.canon_eq_iff (a b : Dec) : a.canon = b.canon ↔ a.SameValue b := by
  unfold Dec.SameValue
  generalize hm : min a.exp b.exp = m
  have hma : m ≤ a.exp := by omega
  have hmb : m ≤ b.exp := by omega
  by_cases ha : a.coeff = 0
  · -- a is zero
    rw [Dec.canon_zero ha, (scaled_eq_zero_iff a m).mpr ha]
    by_cases hb : b.coeff = 0
    · rw [Dec.canon_zero hb, (scaled_eq_zero_iff b m).mpr hb]; simp
    · obtain ⟨c, k, h1, h2, h3⟩ := Dec.canon_nonzero hb
      constructor
      · intro h; rw [h1] at h
        have : c = 0 := by injection h with _ hc _; exact hc.symm
        subst this; simp at h3
      · intro h; exact absurd ((scaled_eq_zero_iff b m).mp h.symm) hb
  · by_cases hb : b.coeff = 0
    · rw [Dec.canon_zero hb, (scaled_eq_zero_iff b m).mpr hb]
      obtain ⟨c, k, h1, h2, h3⟩ := Dec.canon_nonzero ha
      constructor
      · intro h; rw [h1] at h
        have : c = 0 := by injection h with _ hc _
        subst this; simp at h3
      · intro h; exact absurd ((scaled_eq_zero_iff a m).mp h) ha
    · obtain ⟨ca, ka, ha1, ha2, ha3⟩ := Dec.canon_nonzero ha
      obtain ⟨cb, kb, hb1, hb2, hb3⟩ := Dec.canon_nonzero hb
      rw [ha1, hb1]
      unfold Dec.scaled
      -- rewrite both scaled magnitudes over the canonical coefficients
      have ea : a.coeff * 10 ^ (a.exp - m).toNat = ca * 10 ^ (ka + (a.exp - m).toNat) := by
        rw [← ha2, Nat.mul_assoc, ← Nat.pow_add]
      have eb : b.coeff * 10 ^ (b.exp - m).toNat = cb * 10 ^ (kb + (b.exp - m).toNat) := by
        rw [← hb2, Nat.mul_assoc, ← Nat.pow_add]
      rw [ea, eb]
      have pa : 0 < ca * 10 ^ (ka + (a.exp - m).toNat) :=
        Nat.mul_pos (by omega) (Nat.pow_pos (by decide))
      have pb : 0 < cb * 10 ^ (kb + (b.exp - m).toNat) :=
        Nat.mul_pos (by omega) (Nat.pow_pos (by decide))
      rw [sgn_mul_inj _ _ _ _ pa pb]
      constructor
      · intro h
        injection h with hn hc he
        have : ka + (a.exp - m).toNat = kb + (b.exp - m).toNat := by omega
        rw [hn, hc, this]; exact ⟨rfl, rfl⟩
      · intro ⟨hn, hmag⟩
        obtain ⟨hc, hk⟩ := mul_pow_unique _ _ _ _ ha3 hb3 hmag
        rw [hn, hc]
        have : a.exp + (ka : Int) = b.exp + (kb : Int) := by omega
        rw [this]

theorem Dec.SameValue.refl (a : Dec) : a.SameValue a := rfl

theorem Dec.canon_canon (d : Dec) : d.canon.canon = d.canon := by
  by_cases h : d.coeff = 0
  · rw [Dec.canon_zero h]; rfl
  · obtain ⟨c, k, h1, h2, h3⟩ := Dec.canon_nonzero h
    rw [h1]
    have := Dec.canon_of_mul_pow d.neg c 0 (d.exp + k) h3
    simpa using this

/-- the canonical form denotes the same number -/
theorem Dec.sameValue_canon (d : Dec) : d.canon.SameValue d :=
  (Dec.canon_eq_iff _ _).mp (Dec.canon_canon d)

/-- `numEq` (the model of Python's `==` on Decimals) is exactly "same number" -/
theorem Dec.numEq_iff (a b : Dec) : a.numEq b = true ↔ a.SameValue b := by
  rw [← Dec.canon_eq_iff]; simp [Dec.numEq]

/-! ### `Dec.normalize` -/

/-- normal form: `0`, or a coefficient of at most `decPrec` digits that does not end in `0` -/
def Dec.Normal (d : Dec) : Prop :=
  (d.coeff = 0 ∧ d.exp = 0) ∨ (d.coeff % 10 ≠ 0 ∧ d.coeff < 10 ^ decPrec)

/-- the rounding step of `normalize` -/
def Dec.rounded (d : Dec) : Nat × Int :=
  let nd := (natDigits d.coeff).length
  if nd > decPrec then
    let drop := nd - decPrec
    let p := 10 ^ drop
    let q := d.coeff / p
    let r := d.coeff % p
    let half := p / 2
    let q' := if r > half || (r == half && q % 2 == 1) then q + 1 else q
    (q', d.exp + drop)
  else (d.coeff, d.exp)

theorem Dec.normalize_eq (d : Dec) :
    d.normalize =
      if d.rounded.1 = 0 then { neg := d.neg, coeff := 0, exp := 0 }
      else { neg := d.neg, coeff := (stripZeros d.rounded.1 d.rounded.1 d.rounded.2).1,
             exp := (stripZeros d.rounded.1 d.rounded.1 d.rounded.2).2 } := rfl

theorem Dec.normalize_neg (d : Dec) : d.normalize.neg = d.neg := by
  rw [Dec.normalize_eq]; split <;> rfl

/-- the rounded coefficient has at most `decPrec` digits, or is exactly `10^decPrec` -/
theorem Dec.rounded_le (d : Dec) : d.rounded.1 ≤ 10 ^ decPrec := by
  unfold Dec.rounded
  simp only
  split
  · rename_i h
    have hlt := lt_pow_natDigits_length d.coeff
    have hq : d.coeff / 10 ^ ((natDigits d.coeff).length - decPrec) < 10 ^ decPrec := by
      rw [Nat.div_lt_iff_lt_mul (Nat.pow_pos (by decide)), ← Nat.pow_add]
      have : decPrec + ((natDigits d.coeff).length - decPrec) = (natDigits d.coeff).length := by
        omega
      rw [this]; exact hlt
    simp only
    split <;> omega
  · rename_i h
    have : (natDigits d.coeff).length ≤ decPrec := by omega
    exact Nat.le_of_lt ((natDigits_length_le_iff (by decide)).mp this)

theorem Dec.normalize_normal (d : Dec) : d.normalize.Normal := by
  rw [Dec.normalize_eq]
  split
  · left; exact ⟨rfl, rfl⟩
  · rename_i h
    right
    obtain ⟨k, h1, h2, h3⟩ :=
      stripZeros_spec d.rounded.1 d.rounded.1 d.rounded.2 (Nat.le_refl _) h
    refine ⟨h3, ?_⟩
    simp only
    have hle := Dec.rounded_le d
    have hp : 0 < 10 ^ k := Nat.pow_pos (by decide)
    have h4 : (stripZeros d.rounded.1 d.rounded.1 d.rounded.2).1 ≤ d.rounded.1 := by
      calc _ = (stripZeros d.rounded.1 d.rounded.1 d.rounded.2).1 * 1 := by simp
        _ ≤ (stripZeros d.rounded.1 d.rounded.1 d.rounded.2).1 * 10 ^ k :=
            Nat.mul_le_mul_left _ hp
        _ = _ := h2
    have h5 : (stripZeros d.rounded.1 d.rounded.1 d.rounded.2).1 ≠ 10 ^ decPrec := by
      intro he; rw [he] at h3; exact h3 (by decide)
    omega

theorem Dec.rounded_of_short {d : Dec} (h : (natDigits d.coeff).length ≤ decPrec) :
    d.rounded = (d.coeff, d.exp) := by
  unfold Dec.rounded
  simp only
  rw [if_neg (by omega)]

/-- a normal form is a fixed point of `normalize` -/
theorem Dec.normalize_of_normal {d : Dec} (h : d.Normal) : d.normalize = d := by
  rcases h with ⟨hc, he⟩ | ⟨hc, hlt⟩
  · have hs : (natDigits d.coeff).length ≤ decPrec := by
      rw [hc, natDigits_zero]; decide
    rw [Dec.normalize_eq, Dec.rounded_of_short hs]
    simp only [hc, if_pos]
    cases d; simp_all
  · have hs : (natDigits d.coeff).length ≤ decPrec :=
      (natDigits_length_le_iff (by decide)).mpr hlt
    have h0 : d.coeff ≠ 0 := by intro h; rw [h] at hc; simp at hc
    rw [Dec.normalize_eq, Dec.rounded_of_short hs]
    simp only [if_neg h0]
    have := stripZeros_self_mul_pow d.coeff 0 d.exp hc
    simp only [Nat.pow_zero, Nat.mul_one] at this
    rw [this]; simp

/-- `Decimal.normalize()` is idempotent -/
theorem Dec.normalize_idem (d : Dec) : d.normalize.normalize = d.normalize :=
  Dec.normalize_of_normal (Dec.normalize_normal d)

/-- on a numeral of at most `decPrec` significant digits (and unsigned), `normalize` is exact:
it is the canonical form -/
theorem Dec.normalize_eq_canon {d : Dec} (hn : d.neg = false)
    (hs : (natDigits d.coeff).length ≤ decPrec) : d.normalize = d.canon := by
  rw [Dec.normalize_eq, Dec.rounded_of_short hs]
  unfold Dec.canon
  simp only [hn]

/-- normalising `c·10^k E e` for a normal `c` gives `c E (e+k)`, however many zeros there are
(the dropped digits are all zeros, so nothing is rounded) -/
theorem Dec.normalize_mul_pow (n : Bool) (c k : Nat) (e : Int) (hc : c % 10 ≠ 0)
    (hlt : c < 10 ^ decPrec) :
    Dec.normalize { neg := n, coeff := c * 10 ^ k, exp := e } =
      { neg := n, coeff := c, exp := e + (k : Int) } := by
  have h0 : c ≠ 0 := by intro h; subst h; simp at hc
  rw [Dec.normalize_eq]
  by_cases hs : (natDigits (c * 10 ^ k)).length ≤ decPrec
  · rw [Dec.rounded_of_short (d := { neg := n, coeff := c * 10 ^ k, exp := e }) hs]
    have : c * 10 ^ k ≠ 0 := Nat.mul_ne_zero h0 (Nat.ne_of_gt (Nat.pow_pos (by decide)))
    simp only [if_neg this, stripZeros_self_mul_pow c k e hc]
  · -- more than `decPrec` digits: the dropped part is `0…0`
    have hlen : (natDigits (c * 10 ^ k)).length ≤ decPrec + k := by
      apply (natDigits_length_le_iff (Nat.add_pos_left (by decide) k)).mpr
      rw [Nat.pow_add]
      exact Nat.mul_lt_mul_of_lt_of_le hlt (Nat.le_refl _) (Nat.pow_pos (by decide))
    generalize hdrop : (natDigits (c * 10 ^ k)).length - decPrec = drop
    have hd1 : 1 ≤ drop := by omega
    have hd2 : drop ≤ k := by omega
    have hsplit : c * 10 ^ k = c * 10 ^ (k - drop) * 10 ^ drop := by
      rw [Nat.mul_assoc, ← Nat.pow_add]; congr 2; omega
    have hp : 0 < 10 ^ drop := Nat.pow_pos (by decide)
    have hq : c * 10 ^ k / 10 ^ drop = c * 10 ^ (k - drop) := by
      rw [hsplit]; exact Nat.mul_div_cancel _ hp
    have hr : c * 10 ^ k % 10 ^ drop = 0 := by
      rw [hsplit]; exact Nat.mul_mod_left _ _
    have hhalf : 10 ^ drop / 2 ≠ 0 := by
      have : 10 ^ 1 ≤ 10 ^ drop := Nat.pow_le_pow_right (by decide) hd1
      omega
    have hround : Dec.rounded { neg := n, coeff := c * 10 ^ k, exp := e } =
        (c * 10 ^ (k - drop), e + (drop : Int)) := by
      unfold Dec.rounded
      simp only
      rw [if_pos (by omega), hdrop, hq, hr]
      have h1 : ¬ (0 > 10 ^ drop / 2) := by omega
      have h2 : ¬ (0 = 10 ^ drop / 2) := by omega
      simp [h1, h2]
    rw [hround]
    have : c * 10 ^ (k - drop) ≠ 0 := Nat.mul_ne_zero h0 (Nat.ne_of_gt (Nat.pow_pos (by decide)))
    simp only [if_neg this, stripZeros_self_mul_pow c (k - drop) (e + drop) hc]
    congr 1; omega

/-- the canonical coefficient of a normal form is its coefficient -/
theorem Dec.canon_coeff_of_normal {d : Dec} (h : d.Normal) : d.canon.coeff = d.coeff := by
  rcases h with ⟨hc, _⟩ | ⟨hc, _⟩
  · rw [Dec.canon_zero hc, hc]
  · have := Dec.canon_of_mul_pow d.neg d.coeff 0 d.exp hc
    simp only [Nat.pow_zero, Nat.mul_one] at this
    rw [this]

theorem Dec.canon_coeff_le (d : Dec) : d.canon.coeff ≤ d.coeff := by
  by_cases h : d.coeff = 0
  · rw [Dec.canon_zero h]; exact Nat.zero_le _
  · obtain ⟨c, k, h1, h2, _⟩ := Dec.canon_nonzero h
    rw [h1, ← h2]
    exact Nat.le_mul_of_pos_right _ (Nat.pow_pos (by decide))

/-- **exactness of `normalize`** (unsigned numerals): `normalize` is the canonical form as soon as
the *significand* (the coefficient without its trailing zeros) has at most `decPrec` digits -/
theorem Dec.normalize_eq_canon' {d : Dec} (hn : d.neg = false)
    (hs : (natDigits d.canon.coeff).length ≤ decPrec) : d.normalize = d.canon := by
  by_cases h : d.coeff = 0
  · apply Dec.normalize_eq_canon hn
    rw [h, natDigits_zero]; decide
  · obtain ⟨c, k, h1, h2, h3⟩ := Dec.canon_nonzero h
    rw [h1] at hs ⊢
    have hlt : c < 10 ^ decPrec := (natDigits_length_le_iff (by decide)).mp hs
    have := Dec.normalize_mul_pow d.neg c k d.exp h3 hlt
    rw [h2] at this
    exact this

/-- and only then: if `normalize` keeps the value, the significand is short -/
theorem Dec.short_of_normalize_sameValue {d : Dec} (h : d.normalize.SameValue d) :
    (natDigits d.canon.coeff).length ≤ decPrec := by
  have hc := (Dec.canon_eq_iff _ _).mpr h
  rw [← hc, Dec.canon_coeff_of_normal (Dec.normalize_normal d)]
  rcases Dec.normalize_normal d with ⟨h0, _⟩ | ⟨_, hlt⟩
  · rw [h0, natDigits_zero]; decide
  · exact (natDigits_length_le_iff (by decide)).mpr hlt

end Luqum
