/-
  Luqum.Lemmas.EsLeavesSpec — the items the builder is expected to create, by direct recursion on the
  query (lemmas of C06).

  `expItems c x u ms t` lists, in document order, one item per word / phrase / range of `t`, computed
  top-down from what encloses the term:
  * `x : EsCtx`     — the field path, the analysed marker and the nearest propagated name;
  * `u : Up`        — whether `t` is a direct operand of an operation of kind `k` / of a `+`
                      (an operand of exactly that class is flattened into it: `simplify_if_same`);
  * `ms : List Mod` — the pending modifiers, innermost first: the boost / fuzziness / slop of the
                      enclosing `^` / `~` and the `zero_terms_query` of the enclosing conjunction or negation, as far
                      as they reach the term: an operation, a unary operator and a field that gets a
                      `nested` wrapper do not let the modifiers of what encloses them through.
  `visitS_items` : the items of the E-nodes returned by the visitor (with the pending modifiers
  applied to those E-nodes that are items) are the expected ones.
-/
import Luqum.Lemmas.EsLeaves
import Luqum.Lemmas.EsBuild

namespace Luqum.Lemmas.Es
open Luqum

/-! ### modifiers of an item -/

/-- what an enclosing construct does to the item of a term -/
inductive Mod
  | boost (d : Dec)
  | fuzzy (d : Dec)
  | slop (d : Dec)
  | zero (v : Str)
deriving Repr, DecidableEq

def Mod.act : Mod → EItem → EItem
  | .boost d, i => { i with boost := some d }
  | .fuzzy d, i => { i with fuzzy := some d, method0 := "fuzzy".toList }
  | .slop d, i => if i.kind == .phrase then { i with slop := some d } else i
  | .zero v, i => { i with zeroTerms := v }

/-- apply the modifiers, the first one first -/
def actAll : List Mod → EItem → EItem
  | [], i => i
  | m :: ms, i => actAll ms (m.act i)

/-- the modifiers reach an E-node only if it is an item -/
def actE (ms : List Mod) : ETree → ETree
  | .item i => .item (actAll ms i)
  | e => e

def actL (ms : List Mod) : List ETree → List ETree
  | [] => []
  | e :: r => actE ms e :: actL ms r

theorem actE_nil (e : ETree) : actE [] e = e := by cases e <;> rfl

theorem actL_nil : ∀ (es : List ETree), actL [] es = es
  | [] => rfl
  | e :: r => by simp only [actL, actE_nil, actL_nil r]

theorem actE_cons (m : Mod) (ms : List Mod) (e : ETree) : actE ms (actE [m] e) = actE (m :: ms) e := by
  cases e <;> rfl

theorem actL_append (ms : List Mod) (xs ys : List ETree) : actL ms (xs ++ ys) = actL ms xs ++ actL ms ys := by
  induction xs with
  | nil => rfl
  | cons x r ih => simp only [List.cons_append, actL, ih]

theorem setBoost_eq (d : Dec) (e : ETree) : setBoost d e = actE [.boost d] e := by cases e <;> rfl
theorem setFuzzy_eq (d : Dec) (e : ETree) : setFuzzy d e = actE [.fuzzy d] e := by cases e <;> rfl
theorem setSlop_eq (d : Dec) (e : ETree) : setSlop d e = actE [.slop d] e := by
  cases e with
  | item i => simp only [setSlop, actE, actAll, Mod.act]; split <;> rfl
  | _ => rfl

theorem setZeroTerms_eq (v : Str) : ∀ (es : List ETree), setZeroTerms v es = actL [.zero v] es
  | [] => rfl
  | .item i :: r => by simp only [setZeroTerms, actL, setZeroTerms_eq v r]; rfl
  | .op k items :: r => by simp only [setZeroTerms, actL, setZeroTerms_eq v r]; rfl
  | .nested p i n :: r => by simp only [setZeroTerms, actL, setZeroTerms_eq v r]; rfl

/-- the `zero_terms_query` an E-operation gives to its direct items -/
def zeroMods : EOpK → List Mod
  | .must => [.zero "all".toList]
  | .mustNot => [.zero "none".toList]
  | _ => []

theorem eItems_buildOp (k : EOpK) (items : List ETree) :
    eItems (buildOp k items) = eItemsL (actL (zeroMods k) items) := by
  cases k <;> simp only [buildOp, eItems, zeroMods, setZeroTerms_eq, actL_nil]

theorem actE_buildOp (ms : List Mod) (k : EOpK) (items : List ETree) :
    actE ms (buildOp k items) = buildOp k items := by
  cases k <;> rfl

mutual
theorem eItems_excludeNested (path : Str) : ∀ (e : ETree), eItems (excludeNested path e) = eItems e
  | .item i => by simp only [excludeNested]
  | .op k items => by simp only [excludeNested, eItems, eItemsL_excludeNested path items]
  | .nested p inner nm => by
      simp only [excludeNested]; split
      · simp only [eItems, eItems_excludeNested path inner]
      · rfl
theorem eItemsL_excludeNested (path : Str) : ∀ (es : List ETree),
    eItemsL (excludeNestedList path es) = eItemsL es
  | [] => by simp only [excludeNestedList]
  | x :: r => by
      simp only [excludeNestedList, eItemsL, eItems_excludeNested path x, eItemsL_excludeNested path r]
end

/-! ### the position of a node: operand of what -/

/-- of what the node is a direct operand, as far as flattening is concerned -/
inductive Up
  | top
  | op (k : OpK)
  | plus
deriving Repr, DecidableEq

def upOf : Option Tree → Up
  | some (.op k _ _) => .op k
  | some (.unary .plus _ _) => .plus
  | _ => .top

/-- an operation of kind `k` is flattened into the operation it is an operand of -/
def flatOp : Up → OpK → Bool
  | .op k', k => decide (k = k')
  | _, _ => false

/-- `++a`: a `+` is flattened into the `+` it is the operand of -/
def flatUn : Up → UnK → Bool
  | .plus, .plus => true
  | _, _ => false

/-- the operand of `+` is visited as the operand of an operation -/
def unUp : UnK → Up
  | .plus => .plus
  | _ => .top

theorem parSame_unary {par : Option Tree} (hp : ParOK par) (k : UnK) (e : Tree) (l : Lay) :
    parSame par (.unary k e l) = flatUn (upOf par) k := by
  cases hp with
  | none => cases k <;> rfl
  | op k' ys l' => simp only [parSame, sameType_unary_op, upOf]; cases k <;> rfl
  | plus e' l' => simp only [parSame, sameType_unary_unary, upOf]; cases k <;> rfl

theorem sameType_op {parent : Tree} (hp : ParOK (some parent)) (k : OpK) (xs : List Tree) (l : Lay) :
    sameType (.op k xs l) parent = flatOp (upOf (some parent)) k := by
  cases hp with
  | op k' ys l' => simp only [sameType_op_op, upOf, flatOp]
  | plus e' l' => simp only [sameType_op_unary, upOf, flatOp]

theorem upOf_unaryPar (k : UnK) (e : Tree) (l : Lay) : upOf (unaryPar k (.unary k e l)) = unUp k := by
  cases k <;> rfl

/-! ### the context -/

/-- `_propagate_name`: a non-empty name of the node becomes the nearest name -/
def pushName (l : Lay) (x : EsCtx) : EsCtx :=
  match l.name with
  | some n => if n.isEmpty then x else { x with name := some n }
  | none => x

/-- `get_name`: the name of the node itself (even an empty one), else the nearest propagated name -/
def ownName (l : Lay) (x : EsCtx) : Option Str :=
  match l.name with
  | some n => some n
  | none => x.name

theorem propagateName_eq (t : Tree) (x : EsCtx) : propagateName t x = pushName t.lay x := rfl
theorem ctxName_eq (t : Tree) (x : EsCtx) : ctxName t x = ownName t.lay x := rfl

/-- the context below `n:` (with layout `l`): the field path is extended by the '.'-separated
components of `n`, the analysed marker is the one of the new path -/
def fieldCtxL (c : EsCfg) (x : EsCtx) (n : Str) (l : Lay) : EsCtx :=
  let pfx := x.fieldPrefix.getD [] ++ splitOnChar '.' n
  pushName l { x with analyzed := some (!c.notAnalyzed.contains (joinDot pfx)), fieldPrefix := some pfx }

theorem fieldCtx_eq (c : EsCfg) (x : EsCtx) (n : Str) (e : Tree) (l : Lay) :
    fieldCtx c x n e l = fieldCtxL c x n l := rfl

/-- the field `n` (below the path of `x`) is, or is inside, a nested document: one of the paths
`base.n₁`, `base.n₁.n₂`, … is the container of a declared nested field -/
def reachesNested (c : EsCfg) (x : EsCtx) (n : Str) : Bool :=
  let names := splitOnChar '.' n
  let base := x.fieldPrefix.getD []
  let cands := (List.range names.length).map fun i => joinDot (base ++ names.take (names.length - i))
  (cands.find? (fun p => c.nestedPrefixes.contains p)).isSome

theorem eItems_fieldWrap (c : EsCfg) (x : EsCtx) (n : Str) (e : Tree) (l : Lay) (ms : List Mod)
    (en : ETree) :
    eItemsL (actL ms (fieldWrap c x n e l en)) =
      eItemsL (actL (if reachesNested c x n then [] else ms) [en]) := by
  unfold fieldWrap reachesNested
  dsimp only
  split
  · rename_i h; simp only [h, Option.isSome_some, if_true, actL_nil]; rfl
  · rename_i h _
    simp only [h, Option.isSome_some, if_true, actL_nil]
    simp only [actL, actE, eItemsL, eItems, eItems_excludeNested]
  · rename_i h; simp only [h, Option.isSome_none, Bool.false_eq_true, if_false]

/-! ### the expected items -/

def wordItem (c : EsCfg) (x : EsCtx) (v : Str) (nm : Option Str) : EItem :=
  { kind := .word, q := some v,
    method0 := if c.isAnalyzed x then (if c.matchWordAsPhrase then "match_phrase".toList else "match".toList)
               else "term".toList,
    fields := c.fields x, name := nm }

def phraseItem (c : EsCfg) (x : EsCtx) (v : Str) (nm : Option Str) : EItem :=
  if c.isAnalyzed x then
    { kind := .phrase, q := some (((collapseSpaces v).drop 1).dropLast), method0 := "match_phrase".toList,
      fields := c.fields x, name := nm }
  else
    { kind := .word, q := some ((v.drop 1).dropLast), method0 := "term".toList, fields := c.fields x, name := nm }

def rangeItem (c : EsCfg) (x : EsCtx) (lo hi : Tree) (il ih : Bool) (nm : Option Str) : EItem :=
  { kind := .range, method0 := "range".toList, fields := c.fields x, name := nm,
    rangeKeys := rangeKeysOf (if il then "gte".toList else "gt".toList) (if ih then "lte".toList else "lt".toList)
      ((termValue? lo).getD []) ((termValue? hi).getD []) }

mutual
/-- the items expected for the terms of `t`, in document order -/
def expItems (c : EsCfg) (x : EsCtx) (u : Up) (ms : List Mod) : Tree → List EItem
  | .term .word v l => [actAll ms (wordItem c x v (ownName l x))]
  | .term .phrase v l => [actAll ms (phraseItem c x v (ownName l x))]
  | .term .regex _ _ => []
  | .none _ => []
  | .range lo hi il ih l => [actAll ms (rangeItem c x lo hi il ih (ownName l x))]
  | .field n e l => expItems c (fieldCtxL c x n l) .top (if reachesNested c x n then [] else ms) e
  | .group _ e l => expItems c (pushName l x) .top ms e
  | .orange _ e _ l => expItems c (pushName l x) .top ms e
  | .boost e n l => expItems c (pushName l x) .top (.boost n.val :: ms) e
  | .approx .fuzzy e n l => expItems c (pushName l x) .top (.fuzzy n.val :: ms) e
  | .approx .proximity e n l =>
    expItems c (pushName l x) .top ((if c.isAnalyzed x then Mod.slop n.val else Mod.fuzzy n.val) :: ms) e
  | .unary k e l =>
    if flatUn u k then expItems c x u ms e
    else expItems c (pushName l x) (unUp k) (zeroMods (unEK k)) e
  | .op k xs l =>
    if flatOp u k then expItemsL c x u ms xs
    else expItemsL c (pushName l x) (.op k) (zeroMods (opEK c k)) xs
def expItemsL (c : EsCfg) (x : EsCtx) (u : Up) (ms : List Mod) : List Tree → List EItem
  | [] => []
  | t :: r => expItems c x u ms t ++ expItemsL c x u ms r
end

/-! ### the visitor creates the expected items -/

section Main
variable (c : EsCfg)

theorem one_items {ms : List Mod} {en : ETree} {r : List EItem}
    (h : eItemsL (actL ms [en]) = r) : eItems (actE ms en) = r := by
  simpa only [actL, eItemsL, List.append_nil] using h

mutual
theorem visitS_items : ∀ (t : Tree) (x : EsCtx) (par : Option Tree) (ms : List Mod) (es : List ETree),
    ParOK par → visitS c x par t = .ok es → eItemsL (actL ms es) = expItems c x (upOf par) ms t
  | .term .word v l, x, par, ms, es, _, h => by
      simp only [visitS] at h; cases h; rfl
  | .term .phrase v l, x, par, ms, es, _, h => by
      simp only [visitS] at h
      simp only [expItems, phraseItem]
      split at h <;> cases h <;> rename_i ha <;> simp only [ha, if_true, Bool.false_eq_true, if_false] <;> rfl
  | .term .regex v l, x, par, ms, es, _, h => by simp only [visitS] at h; cases h; rfl
  | .none _, x, par, ms, es, _, h => by simp only [visitS] at h; cases h; rfl
  | .range lo hi il ih l, x, par, ms, es, _, h => by
      simp only [visitS] at h
      split at h
      · rename_i lv hv h1 h2
        cases h
        simp only [expItems, rangeItem, h1, h2, Option.getD_some]; rfl
      · cases h
  | .field n e l, x, par, ms, es, _, h => by
      simp only [visitS] at h
      obtain ⟨en, h1, rfl⟩ := map_ok h
      rw [eItems_fieldWrap]
      exact visitS_items e _ none _ _ .none (exactlyOne_ok h1)
  | .group k e l, x, par, ms, es, _, h => by
      simp only [visitS] at h; exact visitS_items e _ none ms es .none h
  | .orange k e i l, x, par, ms, es, _, h => by
      simp only [visitS] at h; exact visitS_items e _ none ms es .none h
  | .boost e n l, x, par, ms, es, _, h => by
      simp only [visitS] at h
      obtain ⟨en, h1, rfl⟩ := map_ok h
      have := one_items (visitS_items e _ none (.boost n.val :: ms) _ .none (exactlyOne_ok h1))
      simp only [actL, eItemsL, List.append_nil, setBoost_eq, actE_cons, expItems]
      exact this
  | .approx .fuzzy e n l, x, par, ms, es, _, h => by
      simp only [visitS] at h
      obtain ⟨en, h1, rfl⟩ := map_ok h
      have := one_items (visitS_items e _ none (.fuzzy n.val :: ms) _ .none (exactlyOne_ok h1))
      simp only [actL, eItemsL, List.append_nil, setFuzzy_eq, actE_cons, expItems]
      exact this
  | .approx .proximity e n l, x, par, ms, es, _, h => by
      simp only [visitS] at h
      obtain ⟨en, h1, rfl⟩ := map_ok h
      have := one_items (visitS_items e _ none
        ((if c.isAnalyzed x then Mod.slop n.val else Mod.fuzzy n.val) :: ms) _ .none (exactlyOne_ok h1))
      simp only [actL, eItemsL, List.append_nil, expItems]
      refine Eq.trans ?_ this
      split <;> simp only [setSlop_eq, setFuzzy_eq, actE_cons]
  | .unary k e l, x, par, ms, es, hp, h => by
      simp only [visitS, parSame_unary hp] at h
      simp only [expItems]
      split at h
      · rename_i hf
        simp only [hf, if_true]
        exact visitS_items e x par ms es hp h
      · rename_i hf
        simp only [hf]
        obtain ⟨items, h1, rfl⟩ := map_ok h
        have := visitS_items e _ _ (zeroMods (unEK k)) _ (parOK_unaryPar k e l) h1
        rw [upOf_unaryPar] at this
        simp only [actL, actE_buildOp, eItemsL, List.append_nil, eItems_buildOp]
        exact this
  | .op k xs l, x, par, ms, es, hp, h => by
      simp only [visitS] at h
      simp only [expItems]
      have hfin : ∀ x', (visitsS c x' (.op k xs l) xs).map (fun items => [buildOp (opEK c k) items]) = .ok es →
          eItemsL (actL ms es) = expItemsL c x' (.op k) (zeroMods (opEK c k)) xs := by
        intro x' h
        obtain ⟨items, h1, rfl⟩ := map_ok h
        have := visitsS_items xs x' (.op k xs l) (zeroMods (opEK c k)) _ (.op k xs l) h1
        simp only [actL, actE_buildOp, eItemsL, List.append_nil, eItems_buildOp]
        exact this
      cases par with
      | none =>
        simp only [upOf, flatOp, Bool.false_eq_true, if_false]
        exact hfin _ h
      | some parent =>
        simp only [sameType_op hp] at h
        split at h
        · rename_i hf
          simp only [hf, if_true]
          exact visitsS_items xs x parent ms es hp h
        · rename_i hf
          simp only [hf]
          split at h
          · unfold mixError at h; split at h <;> cases h
          · exact hfin _ h
theorem visitsS_items : ∀ (xs : List Tree) (x : EsCtx) (parent : Tree) (ms : List Mod) (es : List ETree),
    ParOK (some parent) → visitsS c x parent xs = .ok es →
    eItemsL (actL ms es) = expItemsL c x (upOf (some parent)) ms xs
  | [], x, parent, ms, es, _, h => by simp only [visitsS] at h; cases h; rfl
  | t :: r, x, parent, ms, es, hp, h => by
      simp only [visitsS] at h
      split at h
      · cases h
      · rename_i items h1
        split at h
        · cases h
        · rename_i rest h2
          cases h
          simp only [actL_append, eItemsL_append, expItemsL, visitS_items t x _ ms items hp h1,
            visitsS_items r x parent ms rest hp h2]
end

end Main

end Luqum.Lemmas.Es
