/-
  Luqum.Lemmas.PrettySpellSeg — segments (piece lists with a trailing separator) as a monoid, the
  "loosening" relation between piece lists (same token texts; a separator is kept, or replaced by a
  non-empty blank one), and the monotonicity of the adjacency condition `gluesOK` under loosening.
  Used by `Luqum.Props.C18` (parse-back of the pretty-printer's output).
-/
import Luqum.Lemmas.ReparseBare

namespace Luqum.PSpell
open Luqum

/-! ### segments -/

/-- a segment: pieces and the separator after the last one -/
abbrev Seg := List Piece × Str

/-- a segment without token: a separator -/
def bl (X : Str) : Seg := ([], X)

/-- one token, no separator -/
def tk (k : TokK) (x : Str) : Seg := ([⟨[], k, x⟩], [])

/-- concatenation: the trailing separator of `A` goes before the first piece of `B` -/
def mul (A B : Seg) : Seg := (A.1 ++ (addPre A.2 B).1, (addPre A.2 B).2)

/-- the text of a segment -/
def Seg.str (A : Seg) : Str := spell A.1 A.2

infixl:70 " ⋅ " => mul

theorem addPre_nil (C : Seg) : addPre [] C = C := by
  obtain ⟨c, z⟩ := C
  cases c <;> simp [addPre]

theorem addPre_append (x y : Str) (C : Seg) : addPre (x ++ y) C = addPre x (addPre y C) := by
  obtain ⟨c, z⟩ := C
  cases c <;> simp [addPre]

theorem spell_addPre (P : Str) (C : Seg) : spell (addPre P C).1 (addPre P C).2 = P ++ spell C.1 C.2 := by
  obtain ⟨c, z⟩ := C
  cases c <;> simp [addPre, spell]

theorem str_mul (A B : Seg) : (A ⋅ B).str = A.str ++ B.str := by
  simp only [Seg.str, mul]
  rw [spell_append, spell_addPre, ← List.append_assoc, ← spell_trail]

theorem str_bl (X : Str) : (bl X).str = X := rfl
theorem str_tk (k : TokK) (x : Str) : (tk k x).str = x := by simp [tk, Seg.str, spell]

theorem bl_mul (X : Str) (A : Seg) : bl X ⋅ A = addPre X A := by simp [bl, mul]
theorem mul_bl (A : Seg) (X : Str) : A ⋅ bl X = (A.1, A.2 ++ X) := by simp [bl, mul, addPre]
theorem bl_mul_bl (X Y : Str) : bl X ⋅ bl Y = bl (X ++ Y) := by simp [bl, mul, addPre]
theorem one_mul (A : Seg) : bl [] ⋅ A = A := by rw [bl_mul, addPre_nil]
theorem mul_one (A : Seg) : A ⋅ bl [] = A := by rw [mul_bl]; simp

theorem mul_assoc (A B C : Seg) : A ⋅ B ⋅ C = A ⋅ (B ⋅ C) := by
  obtain ⟨a, x⟩ := A
  obtain ⟨b, y⟩ := B
  cases b with
  | nil =>
    simp only [mul]
    rw [show addPre x (([] : List Piece), y) = ([], x ++ y) from rfl]
    simp only [List.append_nil, List.nil_append, Prod.mk.eta]
    rw [addPre_append]
  | cons p bs =>
    simp only [mul, addPre, List.append_assoc, List.cons_append]

/-- `t.pcs s pre` is `pre` followed by `t.pcs s []` -/
theorem pcs_pre_eq (s : NumStyle) (t : Tree) (pre : Str) : t.pcs s pre = bl pre ⋅ t.pcs s [] := by
  rw [bl_mul]
  have := Tree.pcs_pre s t pre []
  rwa [List.append_nil] at this

theorem pcsTail_pre_eq (s : NumStyle) (k : OpK) (ys : List Tree) (pre : Str) :
    Tree.pcsTail s k ys pre = bl pre ⋅ Tree.pcsTail s k ys [] := by
  rw [bl_mul]
  have := Tree.pcsTail_pre s k ys pre []
  rwa [List.append_nil] at this

/-! ### loosening -/

/-- `qs` loosens `ps`: same token kinds and texts, blank separators, and a separator that is empty in
`qs` was empty in `ps` -/
inductive LooseL : List Piece → List Piece → Prop
  | nil : LooseL [] []
  | cons {p q : Piece} {ps qs : List Piece} : p.key = q.key → isBlank q.sep = true →
      (q.sep = [] → p.sep = []) → LooseL ps qs → LooseL (p :: ps) (q :: qs)

/-- the same, nothing being asked of the first separator (but that it is blank) -/
inductive Loose1 : List Piece → List Piece → Prop
  | nil : Loose1 [] []
  | cons {p q : Piece} {ps qs : List Piece} : p.key = q.key → isBlank q.sep = true →
      LooseL ps qs → Loose1 (p :: ps) (q :: qs)

theorem LooseL.toLoose1 {ps qs : List Piece} (h : LooseL ps qs) : Loose1 ps qs := by
  cases h with
  | nil => exact .nil
  | cons h1 h2 _ h4 => exact .cons h1 h2 h4

theorem LooseL.append {as as' xs xs' : List Piece} (h : LooseL as as') (h' : LooseL xs xs') :
    LooseL (as ++ xs) (as' ++ xs') := by
  induction h with
  | nil => exact h'
  | cons h1 h2 h3 _ ih => exact .cons h1 h2 h3 ih

theorem Loose1.append {as as' xs xs' : List Piece} (h : Loose1 as as') (h' : LooseL xs xs')
    (hne : as ≠ []) : Loose1 (as ++ xs) (as' ++ xs') := by
  cases h with
  | nil => exact absurd rfl hne
  | cons h1 h2 h3 => exact .cons h1 h2 (h3.append h')

theorem LooseL.keys {ps qs : List Piece} (h : LooseL ps qs) : ps.map Piece.key = qs.map Piece.key := by
  induction h with
  | nil => rfl
  | cons h1 _ _ _ ih => simp [h1, ih]

theorem Loose1.keys {ps qs : List Piece} (h : Loose1 ps qs) : ps.map Piece.key = qs.map Piece.key := by
  cases h with
  | nil => rfl
  | cons h1 _ h3 => simp [h1, h3.keys]

theorem LooseL.blank {ps qs : List Piece} (h : LooseL ps qs) : ∀ q ∈ qs, isBlank q.sep = true := by
  induction h with
  | nil => intro q hq; cases hq
  | cons _ h2 _ _ ih =>
    intro q hq
    simp only [List.mem_cons] at hq
    rcases hq with rfl | hq
    · exact h2
    · exact ih q hq

theorem Loose1.blank {ps qs : List Piece} (h : Loose1 ps qs) : ∀ q ∈ qs, isBlank q.sep = true := by
  cases h with
  | nil => intro q hq; cases hq
  | cons _ h2 h3 =>
    intro q hq
    simp only [List.mem_cons] at hq
    rcases hq with rfl | hq
    · exact h2
    · exact h3.blank q hq

/-- segments: the pieces, up to the first separator, and a blank trailing separator -/
def SLoose (A B : Seg) : Prop := Loose1 A.1 B.1 ∧ isBlank B.2 = true

theorem SLoose.ofBl (X : Str) {P : Str} (hP : isBlank P = true) : SLoose (bl X) (bl P) := ⟨.nil, hP⟩

/-- a separator before both -/
theorem SLoose.pre {A A' : Seg} (h : SLoose A A') (X : Str) {P : Str} (hP : isBlank P = true) :
    SLoose (bl X ⋅ A) (bl P ⋅ A') := by
  obtain ⟨a, x⟩ := A
  obtain ⟨a', x'⟩ := A'
  obtain ⟨h1, h2⟩ := h
  simp only [bl_mul]
  cases h1 with
  | nil => exact ⟨.nil, by simp only [addPre, isBlank_append, hP, Bool.true_and]; exact h2⟩
  | cons k1 k2 k3 =>
    exact ⟨.cons k1 (by simp only [isBlank_append, hP, Bool.true_and]; exact k2) k3, h2⟩

/-- a separator after both -/
theorem SLoose.post {A A' : Seg} (h : SLoose A A') (X : Str) {T : Str} (hT : isBlank T = true) :
    SLoose (A ⋅ bl X) (A' ⋅ bl T) := by
  obtain ⟨h1, h2⟩ := h
  simp only [mul_bl]
  exact ⟨h1, by simp only [isBlank_append, h2, hT, Bool.and_self]⟩

/-- **composition**: two loosened segments joined by a non-empty blank separator loosen the two
segments joined by any separator -/
theorem SLoose.comp {A A' B B' : Seg} (hA : SLoose A A') (hB : SLoose B B') (X : Str) {J : Str}
    (hJ : J ≠ []) (hJb : isBlank J = true) : SLoose (A ⋅ bl X ⋅ B) (A' ⋅ bl J ⋅ B') := by
  obtain ⟨a, x⟩ := A
  obtain ⟨a', x'⟩ := A'
  obtain ⟨b, y⟩ := B
  obtain ⟨b', y'⟩ := B'
  obtain ⟨h1, h2⟩ := hA
  obtain ⟨h3, h4⟩ := hB
  simp only at h1 h2 h3 h4
  simp only [mul_bl]
  have hxJ : isBlank (x' ++ J) = true := by simp only [isBlank_append, h2, hJb, Bool.and_self]
  cases h3 with
  | nil =>
    refine ⟨by simpa [PSpell.mul, addPre] using h1, ?_⟩
    simp only [PSpell.mul, addPre, isBlank_append, hxJ, Bool.true_and]
    exact h4
  | @cons p q ps qs k1 k2 k3 =>
    refine ⟨?_, by simpa [PSpell.mul, addPre] using h4⟩
    simp only [PSpell.mul, addPre]
    by_cases ha : a = []
    · subst ha
      cases h1
      exact .cons k1 (by simp only [isBlank_append, hxJ, k2, Bool.and_self]) k3
    · refine Loose1.append h1 (.cons k1 ?_ ?_ k3) ha
      · simp only [isBlank_append, hxJ, k2, Bool.and_self]
      · intro h
        simp only [List.append_eq_nil_iff] at h
        exact absurd h.1.2 hJ

/-! ### `:\d\d` and loosening -/

theorem secOK_cons (x : Char) (r : Str) : secOK (x :: r) = (x == ':' && startsDD r) := by
  rw [secOK_eq]
  by_cases hx : x = ':'
  · subst hx; simp
  · split
    · rename_i r' heq
      simp only [List.cons.injEq] at heq
      exact absurd heq.1 hx
    · simp [hx]

theorem secOK_length {X : Str} (h : 3 ≤ X.length) (R R' : Str) : secOK (X ++ R) = secOK (X ++ R') := by
  match X, h with
  | x :: y :: z :: X', _ => simp [secOK_cons, startsDD]

/-- a blank among the first three characters: no `:\d\d` -/
theorem secOK_blank_cut {c : Char} (hc : isSpace c = true) (X R R' : Str)
    (h : secOK (X ++ c :: R) = true) : secOK (X ++ R') = true := by
  have hcol : c ≠ ':' := space_ne hc (by decide)
  have hd := space_not_digit hc
  match X with
  | [] => simp [secOK_cons, hcol] at h
  | [x] => cases R <;> simp [secOK_cons, startsDD, hd] at h
  | [x, y] => simp [secOK_cons, startsDD, hd] at h
  | x :: y :: z :: X' =>
    rw [secOK_length (by simp) _ (c :: R)]
    exact h

/-- if the loosened text starts with `:\d\d`, so does the original one -/
theorem secOK_loose {tr tr' : Str} (htr : isBlank tr = true) (htr' : isBlank tr' = true)
    {ps qs : List Piece} (h : LooseL ps qs) :
    ∀ X : Str, secOK (X ++ spell qs tr') = true → secOK (X ++ spell ps tr) = true := by
  induction h with
  | nil =>
    intro X hx
    simp only [spell] at hx ⊢
    rw [secOK_blank_tail X tr' htr'] at hx
    rw [secOK_blank_tail X tr htr]
    exact hx
  | @cons p q ps qs h1 h2 h3 _ ih =>
    intro X hx
    simp only [Piece.key, Prod.mk.injEq] at h1
    simp only [spell] at hx ⊢
    cases hq : q.sep with
    | nil =>
      rw [h3 hq, h1.2]
      rw [hq] at hx
      have := ih (X ++ q.text) (by simpa only [List.append_assoc, List.nil_append] using hx)
      simpa only [List.append_assoc, List.nil_append] using this
    | cons c w =>
      rw [hq, isBlank_cons, Bool.and_eq_true] at h2
      rw [hq] at hx
      simp only [List.cons_append, List.append_assoc] at hx
      exact secOK_blank_cut h2.1 X _ _ hx

/-- **monotonicity of the adjacency condition**: making separators non-empty (blank), or replacing
non-empty separators by other non-empty blank ones, never breaks `gluesOK` -/
theorem gluesOK_looseL {tr tr' : Str} (htr : isBlank tr = true) (htr' : isBlank tr' = true) :
    ∀ {ps qs : List Piece}, Loose1 ps qs → gluesOK ps tr = true → gluesOK qs tr' = true
  | _, _, .nil, _ => rfl
  | _, _, .cons _ _ .nil, _ => rfl
  | _, _, .cons (p := p) (q := p') hp hpb (.cons (p := q) (q := q') (ps := rest) (qs := rest')
      hq hqb hqs hr), hg => by
    simp only [gluesOK, Bool.and_eq_true] at hg ⊢
    refine ⟨?_, gluesOK_looseL htr htr' (Loose1.cons hq hqb hr) hg.2⟩
    cases hs : q'.sep with
    | cons c w => simp
    | nil =>
      have hg1 := hg.1
      simp only [hqs hs, List.isEmpty_nil, Bool.not_true, Bool.false_or, Bool.and_eq_true,
        Bool.not_eq_true'] at hg1
      simp only [Piece.key, Prod.mk.injEq] at hp hq
      simp only [List.isEmpty_nil, Bool.not_true, Bool.false_or, Bool.and_eq_true,
        Bool.not_eq_true']
      rw [← hp.1, ← hp.2, ← hq.1, ← hq.2]
      refine ⟨hg1.1, ?_⟩
      cases hk : isTermKind p.kind with
      | false => rfl
      | true =>
        have h2 := hg1.2
        rw [hk, Bool.true_and] at h2
        rw [Bool.true_and]
        simp only [timeClash, Bool.and_eq_false_iff] at h2 ⊢
        rcases h2 with h2 | h2
        · exact Or.inl h2
        · right
          cases hsec : secOK (q.text ++ spell rest' tr') with
          | false => rfl
          | true => rw [secOK_loose htr htr' hr q.text hsec] at h2; cases h2

end Luqum.PSpell
