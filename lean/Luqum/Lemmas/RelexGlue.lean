/-
  Luqum.Lemmas.RelexGlue — a local (token by token) sufficient condition for `chainOK`: only the
  tokens that are not preceded by a separator need to be checked, against the token before them
  (`glueOK`) and, for the time-expression clash, against the text after them (`timeClash`).
-/
import Luqum.Lemmas.RelexTree

namespace Luqum

/-- every piece that has no separator before it (the first one excepted) can be glued to the piece
before it: `glueOK`, and no time-expression clash with the text that follows -/
def gluesOK : List Piece → Str → Bool
  | p :: q :: rest, trail =>
    (!q.sep.isEmpty ||
      (glueOK p.kind p.text q.kind q.text &&
        !(isTermKind p.kind && timeClash p.text (q.text ++ spell rest trail)))) &&
    gluesOK (q :: rest) trail
  | _, _ => true

theorem followOK_of_glue {k k₂ : TokK} {x x₂ R : Str} (hx : x₂ ≠ [])
    (hg : glueOK k x k₂ x₂ = true) (ht : (isTermKind k && timeClash x (x₂ ++ R)) = false) :
    followOK k x (x₂ ++ R) = true := by
  cases x₂ with
  | nil => exact absurd rfl hx
  | cons c r₂ =>
    unfold glueOK at hg
    have hterm : isTermKind k = true → termStops x.reverse (c :: r₂) = true →
        timeClash x (c :: r₂ ++ R) = false → termStops x.reverse (c :: r₂ ++ R) = true := by
      intro _ h1 h2
      simp only [termStops, Bool.and_eq_true, Bool.not_eq_true', bne_iff_ne, ne_eq,
        List.cons_append] at h1 ⊢
      refine ⟨h1.1, ?_⟩
      simp only [timeClash, List.cons_append, secOK_eq] at h2
      by_cases hc : c = ':'
      · subst hc
        simp only [beq_self_eq_true, Bool.true_and]
        exact h2
      · simp [hc]
    cases k <;> first
      | exact hterm rfl hg (by simpa [isTermKind] using ht)
      | rfl
      | exact hg

theorem chainOK_of_gluesOK : ∀ (ps : List Piece) (trail : Str), isBlank trail = true →
    (∀ p ∈ ps, isBlank p.sep = true) → (∀ p ∈ ps, validTok p.kind p.text = true) →
    gluesOK ps trail = true → chainOK ps trail = true
  | [], _, _, _, _, _ => rfl
  | [p], trail, htr, _, _, _ => by
    simp only [chainOK, spell, Bool.and_true]
    cases trail with
    | nil => exact followOK_nil _ _
    | cons c w =>
      rw [isBlank_cons] at htr
      simp only [Bool.and_eq_true] at htr
      exact followOK_blank _ _ _ htr.1
  | p :: q :: rest, trail, htr, hb, hv, hg => by
    simp only [gluesOK, Bool.and_eq_true] at hg
    have ih := chainOK_of_gluesOK (q :: rest) trail htr (fun x hx => hb x (by simp [hx]))
      (fun x hx => hv x (by simp [hx])) hg.2
    simp only [chainOK, Bool.and_eq_true] at ih ⊢
    refine ⟨?_, ih⟩
    simp only [spell, List.append_assoc]
    cases hs : q.sep with
    | nil =>
      have hg1 := hg.1
      simp only [hs, List.isEmpty_nil, Bool.not_true, Bool.false_or, Bool.and_eq_true,
        Bool.not_eq_true'] at hg1
      have hq : q.text ≠ [] := by
        obtain ⟨c, xs, hx, _⟩ := validTok_cons (hv q (by simp))
        rw [hx]; simp
      simpa using followOK_of_glue hq hg1.1 hg1.2
    | cons c w =>
      have := hb q (by simp)
      rw [hs, isBlank_cons] at this
      simp only [Bool.and_eq_true] at this
      exact followOK_blank _ _ _ this.1

/-- if every piece but the first has a separator before it, nothing needs to be checked -/
theorem gluesOK_of_seps : ∀ (ps : List Piece) (trail : Str), (∀ p ∈ ps.tail, p.sep ≠ []) →
    gluesOK ps trail = true
  | [], _, _ => rfl
  | [_], _, _ => rfl
  | p :: q :: rest, trail, h => by
    have hq : q.sep ≠ [] := h q (by simp)
    have ih := gluesOK_of_seps (q :: rest) trail (fun x hx => h x (by simp at hx ⊢; exact Or.inr hx))
    simp only [gluesOK, Bool.and_eq_true, Bool.or_eq_true, Bool.not_eq_true',
      List.isEmpty_eq_false_iff]
    exact ⟨Or.inl hq, ih⟩

end Luqum
