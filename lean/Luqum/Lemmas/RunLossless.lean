/-
  Luqum.Lemmas.RunLossless — table-independent run lemma: for ARBITRARY tables, along `runLoop`
  the sequence `stack (bottom first) ++ remaining input` keeps its flat text and its invariant
  under every shift and every reduce. With three checkable facts about the tables (`TablesOK`)
  the accepting configuration holds exactly one value, which then spells the whole input.
-/
import Luqum.Lemmas.ActLossless

namespace Luqum

/-! ### replacing a segment of a well-formed sequence by the result of an action -/

theorem SeqOK.mid {below args rest : List Val} (h : SeqOK (below ++ args ++ rest)) : SeqOK args := by
  obtain ⟨hg, hn, ha⟩ := h
  refine ⟨fun v hv => hg v (by simp [hv]), fun v hv => ?_, ?_⟩
  · cases args with
    | nil => simp at hv
    | cons x xs =>
      simp only [List.tail_cons] at hv
      cases below with
      | nil => exact hn v (by simp [hv])
      | cons b bs => exact hn v (by simp [hv])
  · rw [adj_append, adj_append] at ha
    exact ha.1.2.1

theorem seqOK_replace {below args rest : List Val} {v : Val}
    (h : SeqOK (below ++ args ++ rest)) (hv : ActOK args v) :
    SeqOK (below ++ [v] ++ rest) ∧ flats (below ++ [v] ++ rest) = flats (below ++ args ++ rest) := by
  obtain ⟨hflat, hgood, hnf, hcolon, htail, hne⟩ := hv
  obtain ⟨x, xs, rfl⟩ := List.exists_cons_of_ne_nil hne
  obtain ⟨hg, hn, ha⟩ := h
  refine ⟨⟨?_, ?_, ?_⟩, by simp [hflat]⟩
  · intro w hw
    simp only [List.mem_append, List.mem_cons, List.not_mem_nil, or_false] at hw
    rcases hw with (hw | rfl) | hw
    · exact hg w (by simp [hw])
    · exact hgood
    · exact hg w (by simp [hw])
  · cases below with
    | nil =>
      intro w hw
      exact hn w (by simp at hw ⊢; exact Or.inr hw)
    | cons b bs =>
      intro w hw
      simp only [List.cons_append, List.tail_cons, List.mem_append, List.mem_cons, List.not_mem_nil,
        or_false] at hw
      rcases hw with (hw | rfl) | hw
      · exact hn w (by simp [hw])
      · exact hnf x rfl (hn x (by simp))
      · exact hn w (by simp [hw])
  · rw [adj_append, adj_append] at ha ⊢
    obtain ⟨⟨hab, haa, hj1⟩, har, hj2⟩ := ha
    refine ⟨⟨hab, by simp, ?_⟩, har, ?_⟩
    · intro a b hal hb hbc
      simp at hb; subst hb
      exact hj1 a x hal rfl (hcolon x rfl hbc)
    · intro a b hal hb hbc
      simp at hal; subst hal
      obtain ⟨y, hy⟩ : ∃ y, (x :: xs).getLast? = some y := ⟨_, List.getLast?_eq_some_getLast (by simp)⟩
      have : ((below ++ x :: xs).getLast?) = some y := by
        rw [List.getLast?_append, hy]; rfl
      exact htail y hy (hj2 y b this hb hbc)



/-! ### one step of the driver, for arbitrary tables -/

/-- name of the look-ahead column -/
def lookName : Option Tok → String
  | some t => t.kind.name
  | none => "$end"

/-- the reduce branch of `step` for the production `p` -/
def reduceBy (T : Tables) (c : Cfg) (p : String × List String × String) : StepResult :=
  if ((c.vals.take p.2.1.length).reverse).length ≠ p.2.1.length then
    .error (.internal "value stack underflow")
  else
    match act p.2.2 (c.vals.take p.2.1.length).reverse with
    | .error e => .error e
    | .ok v =>
      match T.goto? ((c.states.drop p.2.1.length).headD 0) p.1 with
      | some g => .reduce { states := g.toNat :: c.states.drop p.2.1.length,
                            vals := v :: c.vals.drop p.2.1.length }
      | none => .error (.internal "no goto")

theorem step_eq (T : Tables) (c : Cfg) (look : Option Tok) :
    step T c look =
      match T.act? (c.states.headD 0) (lookName look) with
      | none =>
        (match look with
        | some t => .error (.syntaxAt (t.toVal.errText) t.pos)
        | none => .error .syntaxEnd)
      | some a =>
        if a > 0 then
          (match look with
          | some t => .shift { states := a.toNat :: c.states, vals := t.toVal :: c.vals }
          | none => .error (.internal "shift on end of input"))
        else if a < 0 then reduceBy T c (T.prods.getD (-a).toNat ("", [], ""))
        else
          (match c.vals with
          | v :: _ => .accept v
          | [] => .error (.internal "accept on empty stack")) := by
  cases look <;> rfl

theorem reduceBy_reduce {T : Tables} {c c' : Cfg} {p : String × List String × String}
    (h : reduceBy T c p = .reduce c') :
    ∃ (n : Nat) (f lhs : String) (v : Val) (g : Int),
      n ≤ c.vals.length ∧ act f (c.vals.take n).reverse = .ok v ∧
      T.goto? ((c.states.drop n).headD 0) lhs = some g ∧
      c' = { states := g.toNat :: c.states.drop n, vals := v :: c.vals.drop n } := by
  unfold reduceBy at h
  split at h
  · cases h
  · rename_i hlen
    split at h
    · cases h
    · rename_i v hv
      split at h
      · rename_i g hg
        cases h
        refine ⟨_, _, _, v, g, ?_, hv, hg, rfl⟩
        simp at hlen
        omega
      · cases h

theorem reduceBy_not_shift {T : Tables} {c c' : Cfg} {p : String × List String × String} :
    reduceBy T c p ≠ .shift c' := by
  unfold reduceBy
  intro h
  split at h
  · cases h
  · split at h
    · cases h
    · split at h <;> cases h

theorem reduceBy_not_accept {T : Tables} {c : Cfg} {v : Val} {p : String × List String × String} :
    reduceBy T c p ≠ .accept v := by
  unfold reduceBy
  intro h
  split at h
  · cases h
  · split at h
    · cases h
    · split at h <;> cases h

theorem step_shift {T : Tables} {c c' : Cfg} {look : Option Tok} (h : step T c look = .shift c') :
    ∃ t a, look = some t ∧ T.act? (c.states.headD 0) t.kind.name = some a ∧ a > 0 ∧
      c' = { states := a.toNat :: c.states, vals := t.toVal :: c.vals } := by
  rw [step_eq] at h
  split at h
  · split at h <;> cases h
  · rename_i a ha
    split at h
    · rename_i hpos
      split at h
      · rename_i t; cases h; exact ⟨t, a, rfl, ha, hpos, rfl⟩
      · cases h
    · split at h
      · exact absurd h reduceBy_not_shift
      · split at h <;> cases h

theorem step_reduce {T : Tables} {c c' : Cfg} {look : Option Tok} (h : step T c look = .reduce c') :
    ∃ (n : Nat) (f lhs : String) (v : Val) (g : Int),
      n ≤ c.vals.length ∧ act f (c.vals.take n).reverse = .ok v ∧
      T.goto? ((c.states.drop n).headD 0) lhs = some g ∧
      c' = { states := g.toNat :: c.states.drop n, vals := v :: c.vals.drop n } := by
  rw [step_eq] at h
  split at h
  · split at h <;> cases h
  · split at h
    · split at h <;> cases h
    · split at h
      · exact reduceBy_reduce h
      · split at h <;> cases h

theorem step_accept {T : Tables} {c : Cfg} {look : Option Tok} {v : Val}
    (h : step T c look = .accept v) :
    T.act? (c.states.headD 0) (lookName look) = some 0 ∧ ∃ r, c.vals = v :: r := by
  rw [step_eq] at h
  split at h
  · split at h <;> cases h
  · rename_i a ha
    split at h
    · split at h <;> cases h
    · split at h
      · exact absurd h reduceBy_not_accept
      · have : a = 0 := by omega
        subst this
        split at h
        · rename_i v' r hvals; cases h
          exact ⟨ha, r, hvals⟩
        · cases h



/-! ### the driver loop: invariants are carried to the accepting configuration -/

/-- any property of (configuration, remaining input) kept by shifts and reductions holds where the
run accepts -/
theorem runLoop_ok {T : Tables} {P : Cfg → List Tok → Prop}
    (hshift : ∀ c t toks c', P c (t :: toks) → step T c (some t) = .shift c' → P c' toks)
    (hred : ∀ c toks c', P c toks → step T c toks.head? = .reduce c' → P c' toks) :
    ∀ (fuel : Nat) (c : Cfg) (toks : List Tok) (lerr : Option LexErr) (v : Val),
      P c toks → runLoop T fuel c toks lerr = .ok v →
      ∃ c' toks', P c' toks' ∧ step T c' toks'.head? = .accept v ∧ (toks' = [] → lerr = none) := by
  intro fuel
  induction fuel with
  | zero => intro c toks lerr v _ h; simp [runLoop] at h
  | succ fuel ih =>
    intro c toks lerr v hP h
    unfold runLoop at h
    split at h
    · cases h
    · rename_i hnot
      split at h
      · rename_i c' hs
        obtain ⟨t, a, hl, _⟩ := step_shift hs
        cases toks with
        | nil => simp at hl
        | cons t' rest =>
          simp at hl; subst hl
          exact ih c' rest lerr v (hshift c t' rest c' hP hs) h
      · rename_i c' hs
        exact ih c' toks lerr v (hred c toks c' hP hs) h
      · rename_i v' hs
        cases h
        refine ⟨c, toks, hP, hs, fun ht => ?_⟩
        cases lerr with
        | none => rfl
        | some e => exact absurd rfl (hnot e ht)
      · cases h

/-! ### the text invariant -/

/-- stack (bottom first) followed by the remaining input -/
def seqOf (c : Cfg) (toks : List Tok) : List Val := c.vals.reverse ++ toks.map Tok.toVal

/-- the sequence is well-formed and still spells `s` -/
def Spells (s : Str) (c : Cfg) (toks : List Tok) : Prop :=
  SeqOK (seqOf c toks) ∧ flats (seqOf c toks) = s

theorem spells_shift {T : Tables} {s : Str} (c : Cfg) (t : Tok) (toks : List Tok) (c' : Cfg)
    (hP : Spells s c (t :: toks)) (hs : step T c (some t) = .shift c') : Spells s c' toks := by
  obtain ⟨t', a, hl, _, _, rfl⟩ := step_shift hs
  cases hl
  have : seqOf { states := a.toNat :: c.states, vals := t.toVal :: c.vals } toks = seqOf c (t :: toks) := by
    simp [seqOf]
  unfold Spells
  rw [this]; exact hP

theorem spells_reduce {T : Tables} {s : Str} (c : Cfg) (toks : List Tok) (c' : Cfg)
    (hP : Spells s c toks) (hs : step T c toks.head? = .reduce c') : Spells s c' toks := by
  obtain ⟨n, f, lhs, v, g, hn, hact, _, rfl⟩ := step_reduce hs
  obtain ⟨hok, hfl⟩ := hP
  have e1 : seqOf c toks = (c.vals.drop n).reverse ++ (c.vals.take n).reverse ++ toks.map Tok.toVal := by
    simp only [seqOf, ← List.reverse_append, List.take_append_drop]
  have e2 : seqOf { states := g.toNat :: c.states.drop n, vals := v :: c.vals.drop n } toks
      = (c.vals.drop n).reverse ++ [v] ++ toks.map Tok.toVal := by
    simp [seqOf]
  rw [e1] at hok hfl
  have := seqOK_replace hok (act_ok hact hok.mid)
  unfold Spells
  rw [e2]
  exact ⟨this.1, this.2.trans hfl⟩

/-- **table-independent run lemma**: whatever the tables, a successful run accepts in a
configuration whose stack, followed by the input not yet consumed, spells the text of all tokens -/
theorem runLoop_spells (T : Tables) (fuel : Nat) (toks : List Tok) (lerr : Option LexErr) (v : Val)
    (c : Cfg) (hok : SeqOK (seqOf c toks)) (h : runLoop T fuel c toks lerr = .ok v) :
    ∃ c' toks', Spells (flats (seqOf c toks)) c' toks' ∧ step T c' toks'.head? = .accept v ∧
      (toks' = [] → lerr = none) :=
  runLoop_ok (P := Spells (flats (seqOf c toks))) spells_shift spells_reduce fuel c toks lerr v ⟨hok, rfl⟩ h



/-! ### the shape of the stack at the accepting step (needs three facts about the tables) -/

/-- `s` is a state that accepts at the end of the input -/
def Tables.isAcc (T : Tables) (s : Nat) : Bool := T.act? s "$end" == some 0

/-- the facts about the tables used for the shape of the stack when the run accepts: accept only on
`$end`; no shift enters an accepting state; gotos lead to positive states, and into an accepting
state only from state 0 -/
structure TablesOK (T : Tables) : Prop where
  acceptEnd : ∀ s (k : TokK), T.act? s k.name ≠ some 0
  shiftTarget : ∀ s name a, T.act? s name = some a → a > 0 → T.isAcc a.toNat = false
  gotoTarget : ∀ s nt g, T.goto? s nt = some g → g > 0 ∧ (T.isAcc g.toNat = true → s = 0)

/-- state stack = nonzero states over the bottom state 0, one per value; an accepting state on top
sits directly on the bottom -/
def Shape (T : Tables) (c : Cfg) : Prop :=
  ∃ ss, c.states = ss ++ [0] ∧ ss.length = c.vals.length ∧ (∀ s ∈ ss, s ≠ 0) ∧
    (∀ s r, ss = s :: r → T.isAcc s = true → r = [])

theorem shape_init (T : Tables) : Shape T { states := [0], vals := [] } :=
  ⟨[], rfl, rfl, by simp, by simp⟩

theorem shape_shift {T : Tables} (hT : TablesOK T) {c c' : Cfg} {t : Tok}
    (hP : Shape T c) (hs : step T c (some t) = .shift c') : Shape T c' := by
  obtain ⟨t', a, hl, ha, hpos, rfl⟩ := step_shift hs
  obtain ⟨ss, h1, h2, h3, h4⟩ := hP
  refine ⟨a.toNat :: ss, by simp [h1], by simp [h2], ?_, ?_⟩
  · intro s hs
    simp at hs
    rcases hs with rfl | hs
    · omega
    · exact h3 s hs
  · intro s r he hacc
    cases he
    have := hT.shiftTarget _ _ _ ha hpos
    rw [this] at hacc; cases hacc

theorem shape_reduce {T : Tables} (hT : TablesOK T) {c c' : Cfg} {look : Option Tok}
    (hP : Shape T c) (hs : step T c look = .reduce c') : Shape T c' := by
  obtain ⟨n, f, lhs, v, g, hn, hact, hg, rfl⟩ := step_reduce hs
  obtain ⟨ss, h1, h2, h3, h4⟩ := hP
  have hd : c.states.drop n = ss.drop n ++ [0] := by
    rw [h1, List.drop_append_of_le_length (by omega)]
  obtain ⟨hgpos, hgacc⟩ := hT.gotoTarget _ _ _ hg
  refine ⟨g.toNat :: ss.drop n, by simp [hd], by simp [h2], ?_, ?_⟩
  · intro s hs
    simp at hs
    rcases hs with rfl | hs
    · omega
    · exact h3 s (List.mem_of_mem_drop hs)
  · intro s r he hacc
    cases he
    have h0 := hgacc hacc
    rw [hd] at h0
    cases hdr : ss.drop n with
    | nil => rfl
    | cons x xs =>
      rw [hdr] at h0
      simp at h0
      have : x ∈ ss := List.mem_of_mem_drop (by rw [hdr]; simp)
      exact absurd h0 (h3 x this)

theorem shape_accept {T : Tables} (hT : TablesOK T) {c : Cfg} {look : Option Tok} {v : Val}
    (hP : Shape T c) (hs : step T c look = .accept v) : look = none ∧ c.vals = [v] := by
  obtain ⟨ha, r, hv⟩ := step_accept hs
  obtain ⟨ss, h1, h2, h3, h4⟩ := hP
  have hl : look = none := by
    cases look with
    | none => rfl
    | some t => exact absurd ha (hT.acceptEnd _ _)
  subst hl
  refine ⟨rfl, ?_⟩
  cases ss with
  | nil => simp [hv] at h2
  | cons s r' =>
    have hacc : T.isAcc s = true := by
      simp [Tables.isAcc]
      simpa [h1, lookName] using ha
    have := h4 s r' rfl hacc
    subst this
    simp [hv] at h2
    simp [hv, h2]

/-- nothing can be accepted before a token has been read -/
theorem act_nil (f : String) : ∀ v, act f [] ≠ .ok v := by
  intro v h
  have := (shape_ok (act_shape h) ⟨by simp [AllGood], by simp [AllNF], by simp⟩).ne
  exact this rfl

theorem step_init_nil (T : Tables) (s0 : List Nat) :
    (∃ e, step T { states := s0, vals := [] } none = .error e) := by
  rw [step_eq]
  split
  · exact ⟨_, rfl⟩
  · split
    · exact ⟨_, rfl⟩
    · split
      · unfold reduceBy
        split
        · exact ⟨_, rfl⟩
        · rename_i hlen
          simp at hlen
          simp only [List.take_nil, List.reverse_nil]
          split
          · exact ⟨_, rfl⟩
          · rename_i v hv; exact absurd hv (act_nil _ v)
      · exact ⟨_, rfl⟩

theorem runLoop_nil (T : Tables) (fuel : Nat) (s0 : List Nat) (lerr : Option LexErr) (v : Val) :
    runLoop T fuel { states := s0, vals := [] } [] lerr ≠ .ok v := by
  intro h
  cases fuel with
  | zero => simp [runLoop] at h
  | succ fuel =>
    unfold runLoop at h
    obtain ⟨e, he⟩ := step_init_nil T s0
    split at h
    · cases h
    · simp only [List.head?_nil, he] at h
      cases h

/-- if the tables accept only on `$end`, a lexer error is always raised: a run that succeeds has
consumed all tokens and asked for the next one, which raises the pending error -/
theorem runLoop_no_lexErr {T : Tables} (hT : ∀ s (k : TokK), T.act? s k.name ≠ some 0)
    (fuel : Nat) (c : Cfg) (toks : List Tok) (lerr : Option LexErr) (v : Val)
    (h : runLoop T fuel c toks lerr = .ok v) : lerr = none := by
  obtain ⟨c', toks', _, hacc, hl⟩ := runLoop_ok (T := T) (P := fun _ _ => True)
    (fun _ _ _ _ _ _ => trivial) (fun _ _ _ _ _ => trivial) fuel c toks lerr v trivial h
  apply hl
  cases toks' with
  | nil => rfl
  | cons t r => exact absurd (step_accept hacc).1 (hT _ _)

/-- **losslessness of a run**: with tables satisfying `TablesOK`, a successful run over a
well-formed token sequence met no lexer error and returns a value that spells all the tokens -/
theorem runLoop_lossless {T : Tables} (hT : TablesOK T) (fuel : Nat) (toks : List Tok)
    (lerr : Option LexErr) (v : Val) (hok : SeqOK (toks.map Tok.toVal))
    (h : runLoop T fuel { states := [0], vals := [] } toks lerr = .ok v) :
    lerr = none ∧ toks ≠ [] ∧ v.flat = flats (toks.map Tok.toVal) := by
  have hne : toks ≠ [] := by
    rintro rfl; exact runLoop_nil T fuel [0] lerr v h
  have := runLoop_ok (T := T)
    (P := fun c tk => Spells (flats (toks.map Tok.toVal)) c tk ∧ Shape T c)
    (fun c t tk c' hP hs => ⟨spells_shift c t tk c' hP.1 hs, shape_shift hT hP.2 hs⟩)
    (fun c tk c' hP hs => ⟨spells_reduce c tk c' hP.1 hs, shape_reduce hT hP.2 hs⟩)
    fuel { states := [0], vals := [] } toks lerr v
    ⟨⟨by simpa [seqOf] using hok, by simp [seqOf]⟩, shape_init T⟩ h
  obtain ⟨c', toks', ⟨⟨_, hfl⟩, hsh⟩, hacc, hl⟩ := this
  obtain ⟨hlook, hv⟩ := shape_accept hT hsh hacc
  have ht : toks' = [] := by cases toks' <;> simp at hlook ⊢
  subst ht
  refine ⟨hl rfl, hne, ?_⟩
  simpa [seqOf, hv] using hfl

/-! ### from Bool checks on the tables to `TablesOK` -/

theorem getD_some_mem {α : Type} {xs : Array (Option α)} {i : Nat} {a : α}
    (h : xs.getD i none = some a) : some a ∈ xs := by
  unfold Array.getD at h
  split at h
  · rw [← h]; exact Array.getElem_mem _
  · cases h

theorem getD_getD_some {A : Array (Array (Option Int))} {s i : Nat} {a : Int}
    (h : (A.getD s #[]).getD i none = some a) :
    s < A.size ∧ some a ∈ A.getD s #[] ∧ A.getD s #[] ∈ A := by
  have hm := getD_some_mem h
  have hs : s < A.size := by
    apply Classical.byContradiction
    intro hs
    have : A.getD s #[] = #[] := by simp [Array.getD, hs]
    rw [this] at hm
    simp at hm
  exact ⟨hs, hm, by simp [Array.getD, hs]⟩

/-! ### checkable facts about the tables -/

def allKinds : List TokK :=
  [.term, .phrase, .regex, .approx, .boost, .minus, .plus, .column, .lparen, .rparen,
   .lbracket, .rbracket, .lessthan, .greaterthan, .andOp, .orOp, .not, .to]

theorem mem_allKinds (k : TokK) : k ∈ allKinds := by cases k <;> simp [allKinds]

/-- the accept action occurs only in the `$end` column -/
def acceptOnlyAtEnd (T : Tables) : Bool :=
  (List.range T.action.size).all fun s => allKinds.all fun k => T.act? s k.name != some 0

/-- no shift enters an accepting state -/
def shiftTargetsOK (T : Tables) : Bool :=
  T.action.all fun row => row.all fun e =>
    match e with
    | some a => !decide (a > 0) || !T.isAcc a.toNat
    | none => true

/-- gotos lead to positive states, and into an accepting state only from state 0 -/
def gotoTargetsOK (T : Tables) : Bool :=
  (List.range T.goto.size).all fun s => (T.goto.getD s #[]).all fun e =>
    match e with
    | some g => decide (g > 0) && (!T.isAcc g.toNat || s == 0)
    | none => true

theorem tablesOK_of_checks {T : Tables} (h1 : acceptOnlyAtEnd T = true)
    (h2 : shiftTargetsOK T = true) (h3 : gotoTargetsOK T = true) : TablesOK T := by
  refine ⟨fun s k => ?_, fun s name a ha hpos => ?_, fun s nt g hg => ?_⟩
  · by_cases hs : s < T.action.size
    · simp only [acceptOnlyAtEnd, List.all_eq_true, List.mem_range] at h1
      simpa using h1 s hs k (mem_allKinds k)
    · simp [Tables.act?, Array.getD, hs]
  · obtain ⟨_, hm, hr⟩ := getD_getD_some ha
    simp only [shiftTargetsOK, Array.all_eq_true_iff_forall_mem] at h2
    have := h2 _ hr _ hm
    simpa [hpos] using this
  · obtain ⟨hs, hm, _⟩ := getD_getD_some hg
    simp only [gotoTargetsOK, List.all_eq_true, List.mem_range, Array.all_eq_true_iff_forall_mem] at h3
    have := h3 s hs _ hm
    simp only [Bool.and_eq_true, decide_eq_true_eq, Bool.or_eq_true, Bool.not_eq_true', beq_iff_eq] at this
    refine ⟨this.1, fun hacc => ?_⟩
    rcases this.2 with h | h
    · rw [h] at hacc; cases hacc
    · exact h

end Luqum
