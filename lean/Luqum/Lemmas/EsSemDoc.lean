/-
  Luqum.Lemmas.EsSemDoc — lemmas on documents (`Obj`), dotted names (`splitOnChar`, `joinDot`),
  proper prefixes and `atPath` (used by the meaning theorems of C05).
-/
import Luqum.Lemmas.EsSem

namespace Luqum.Lemmas.Es
open Luqum

/-! ### `splitOnChar` and `joinDot` -/

theorem splitOnChar_go_ne_nil (c : Char) : ∀ (s cur : Str), splitOnChar.go c cur s ≠ []
  | [], cur => by simp only [splitOnChar.go]; exact List.cons_ne_nil _ _
  | x :: r, cur => by
      simp only [splitOnChar.go]
      split
      · exact List.cons_ne_nil _ _
      · exact splitOnChar_go_ne_nil c r _

theorem splitOnChar_ne_nil (c : Char) (s : Str) : splitOnChar c s ≠ [] := by
  unfold splitOnChar; exact splitOnChar_go_ne_nil c s []

theorem splitOnChar_go_nodot : ∀ (s cur : Str), '.' ∉ cur →
    ∀ x ∈ splitOnChar.go '.' cur s, '.' ∉ x
  | [], cur, hc, x, hx => by
      simp only [splitOnChar.go, List.mem_singleton] at hx
      subst hx
      simpa only [List.mem_reverse] using hc
  | a :: r, cur, hc, x, hx => by
      simp only [splitOnChar.go] at hx
      split at hx
      · rcases List.mem_cons.1 hx with rfl | hx
        · simpa only [List.mem_reverse] using hc
        · exact splitOnChar_go_nodot r [] List.not_mem_nil x hx
      · rename_i hne
        refine splitOnChar_go_nodot r (a :: cur) ?_ x hx
        intro hm
        rcases List.mem_cons.1 hm with h | h
        · exact hne h.symm
        · exact hc h

theorem splitOnChar_nodot (s : Str) : ∀ x ∈ splitOnChar '.' s, '.' ∉ x := by
  unfold splitOnChar; exact splitOnChar_go_nodot s [] List.not_mem_nil

theorem splitOnChar_go_append_dot : ∀ (x cur rest : Str), '.' ∉ x →
    splitOnChar.go '.' cur (x ++ '.' :: rest) = (cur.reverse ++ x) :: splitOnChar.go '.' [] rest
  | [], cur, rest, _ => by
      simp only [List.nil_append, splitOnChar.go, if_true, List.append_nil]
  | a :: x, cur, rest, h => by
      have ha : a ≠ '.' := fun e => h (by rw [e]; exact List.mem_cons_self)
      have hx : '.' ∉ x := fun e => h (List.mem_cons_of_mem _ e)
      simp only [List.cons_append, splitOnChar.go, if_neg ha]
      rw [splitOnChar_go_append_dot x (a :: cur) rest hx]
      simp only [List.reverse_cons, List.append_assoc, List.singleton_append]

theorem splitOnChar_go_single : ∀ (x cur : Str), '.' ∉ x →
    splitOnChar.go '.' cur x = [cur.reverse ++ x]
  | [], cur, _ => by simp only [splitOnChar.go, List.append_nil]
  | a :: x, cur, h => by
      have ha : a ≠ '.' := fun e => h (by rw [e]; exact List.mem_cons_self)
      have hx : '.' ∉ x := fun e => h (List.mem_cons_of_mem _ e)
      simp only [splitOnChar.go, if_neg ha]
      rw [splitOnChar_go_single x (a :: cur) hx]
      simp only [List.reverse_cons, List.append_assoc, List.singleton_append]

/-- splitting the dotted name of a non-empty list of dot-free names gives the list back -/
theorem splitOnChar_joinDot (L : List Str) (hne : L ≠ []) (h : ∀ x ∈ L, '.' ∉ x) :
    splitOnChar '.' (joinDot L) = L := by
  induction L with
  | nil => exact absurd rfl hne
  | cons a r ih =>
    cases r with
    | nil =>
      have ha := h a List.mem_cons_self
      unfold splitOnChar joinDot
      simp only [joinWith]
      rw [splitOnChar_go_single a [] ha]
      simp only [List.reverse_nil, List.nil_append]
    | cons b r =>
      have ha := h a List.mem_cons_self
      have ih' := ih (List.cons_ne_nil _ _) (fun x hx => h x (List.mem_cons_of_mem _ hx))
      unfold splitOnChar joinDot at *
      simp only [joinWith]
      rw [List.append_assoc, List.singleton_append, splitOnChar_go_append_dot a [] _ ha]
      simp only [List.reverse_nil, List.nil_append]
      rw [ih']

/-! ### proper prefixes -/

theorem properPrefix_iff' (xs ys : List Str) :
    properPrefix xs ys = true ↔ xs <+: ys ∧ xs.length < ys.length := by
  unfold properPrefix
  simp only [Bool.and_eq_true, List.isPrefixOf_iff_prefix, decide_eq_true_eq]

theorem properPrefix_iff (xs ys : List Str) :
    properPrefix xs ys = true ↔ ∃ q, q ≠ [] ∧ ys = xs ++ q := by
  rw [properPrefix_iff']
  constructor
  · rintro ⟨⟨q, rfl⟩, hl⟩
    refine ⟨q, ?_, rfl⟩
    rintro rfl
    simp only [List.append_nil, Nat.lt_irrefl] at hl
  · rintro ⟨q, hq, rfl⟩
    refine ⟨⟨q, rfl⟩, ?_⟩
    cases q with
    | nil => exact absurd rfl hq
    | cons a q => simp only [List.length_append, List.length_cons]; omega

theorem properPrefix_trans {xs ys zs : List Str} (h1 : properPrefix xs ys = true)
    (h2 : properPrefix ys zs = true) : properPrefix xs zs = true := by
  rw [properPrefix_iff'] at *
  exact ⟨h1.1.trans h2.1, by omega⟩

theorem properPrefix_ne {xs ys : List Str} (h : properPrefix xs ys = true) : xs ≠ ys := by
  rw [properPrefix_iff'] at h
  rintro rfl
  exact Nat.lt_irrefl _ h.2

theorem properPrefix_irrefl (xs : List Str) : properPrefix xs xs = true → False :=
  fun h => properPrefix_ne h rfl

/-- two prefixes of the same list are comparable -/
theorem properPrefix_trichotomy {xs ys zs : List Str} (h1 : xs <+: zs) (h2 : ys <+: zs) :
    properPrefix xs ys = true ∨ xs = ys ∨ properPrefix ys xs = true := by
  simp only [properPrefix_iff']
  rcases Nat.lt_trichotomy xs.length ys.length with hl | hl | hl
  · exact Or.inl ⟨List.prefix_of_prefix_length_le h1 h2 (Nat.le_of_lt hl), hl⟩
  · refine Or.inr (Or.inl ?_)
    have h := List.prefix_of_prefix_length_le h1 h2 (Nat.le_of_eq hl)
    exact h.eq_of_length hl
  · exact Or.inr (Or.inr ⟨List.prefix_of_prefix_length_le h2 h1 (Nat.le_of_lt hl), hl⟩)

theorem properPrefix_prefix {xs ys : List Str} (h : properPrefix xs ys = true) : xs <+: ys :=
  ((properPrefix_iff' xs ys).1 h).1

/-! ### descendants -/

theorem Obj.mem_descL_cons {a k : Obj} {r : List Obj} :
    a ∈ Obj.descL (k :: r) ↔ a = k ∨ a ∈ k.desc ∨ a ∈ Obj.descL r := by
  simp only [Obj.descL, List.mem_cons, List.mem_append]

mutual
theorem Obj.mem_desc_trans' {a b : Obj} (h1 : a ∈ b.desc) : ∀ (c : Obj), b ∈ c.desc → a ∈ c.desc
  | .mk _ kids, h2 => by
      simp only [Obj.desc] at h2 ⊢; exact Obj.mem_descL_trans' h1 kids h2
theorem Obj.mem_descL_trans' {a b : Obj} (h1 : a ∈ b.desc) :
    ∀ (ks : List Obj), b ∈ Obj.descL ks → a ∈ Obj.descL ks
  | [], h2 => by simp only [Obj.descL, List.not_mem_nil] at h2
  | k :: r, h2 => by
      rw [Obj.mem_descL_cons] at h2 ⊢
      rcases h2 with rfl | h2 | h2
      · exact Or.inr (Or.inl h1)
      · exact Or.inr (Or.inl (Obj.mem_desc_trans' h1 k h2))
      · exact Or.inr (Or.inr (Obj.mem_descL_trans' h1 r h2))
end

theorem Obj.mem_desc_trans {a b c : Obj} (h1 : a ∈ b.desc) (h2 : b ∈ c.desc) : a ∈ c.desc :=
  Obj.mem_desc_trans' h1 c h2

theorem Obj.wfL_cons {decl : List (List Str)} {p : List Str} {k : Obj} {r : List Obj} :
    Obj.wfL decl p (k :: r) = true ↔
      properPrefix p k.path = true ∧
      (∀ d ∈ decl, properPrefix p d = true → properPrefix d k.path = true → False) ∧
      k.wf decl = true ∧ Obj.wfL decl p r = true := by
  simp only [Obj.wfL, Bool.and_eq_true, List.all_eq_true, Bool.not_eq_true', Bool.and_eq_false_iff,
    and_assoc]
  constructor
  · rintro ⟨h1, h2, h3, h4⟩
    refine ⟨h1, ?_, h3, h4⟩
    intro d hd ha hb
    rcases h2 d hd with h | h
    · rw [ha] at h; cases h
    · rw [hb] at h; cases h
  · rintro ⟨h1, h2, h3, h4⟩
    refine ⟨h1, ?_, h3, h4⟩
    intro d hd
    cases ha : properPrefix p d with
    | false => exact Or.inl rfl
    | true =>
      cases hb : properPrefix d k.path with
      | false => exact Or.inr rfl
      | true => exact (h2 d hd ha hb).elim

mutual
theorem Obj.wf_of_mem_desc' {decl : List (List Str)} {o' : Obj} :
    ∀ (o : Obj), o.wf decl = true → o' ∈ o.desc → o'.wf decl = true
  | .mk p kids, h, hm => by
      simp only [Obj.wf] at h; simp only [Obj.desc] at hm
      exact Obj.wfL_of_mem_descL' kids p h hm
theorem Obj.wfL_of_mem_descL' {decl : List (List Str)} {o' : Obj} :
    ∀ (ks : List Obj) (p : List Str), Obj.wfL decl p ks = true → o' ∈ Obj.descL ks →
      o'.wf decl = true
  | [], _, _, hm => by simp only [Obj.descL, List.not_mem_nil] at hm
  | k :: r, p, h, hm => by
      rw [Obj.wfL_cons] at h
      rw [Obj.mem_descL_cons] at hm
      rcases hm with rfl | hm | hm
      · exact h.2.2.1
      · exact Obj.wf_of_mem_desc' k h.2.2.1 hm
      · exact Obj.wfL_of_mem_descL' r p h.2.2.2 hm
end

theorem Obj.wf_of_mem_desc {decl : List (List Str)} {o o' : Obj} (h : o.wf decl = true)
    (hm : o' ∈ o.desc) : o'.wf decl = true :=
  Obj.wf_of_mem_desc' o h hm

mutual
theorem Obj.path_of_mem_desc' {decl : List (List Str)} {o' : Obj} :
    ∀ (o : Obj), o.wf decl = true → o' ∈ o.desc → properPrefix o.path o'.path = true
  | .mk p kids, h, hm => by
      simp only [Obj.wf] at h; simp only [Obj.desc] at hm
      exact Obj.path_of_mem_descL' kids p h hm
theorem Obj.path_of_mem_descL' {decl : List (List Str)} {o' : Obj} :
    ∀ (ks : List Obj) (p : List Str), Obj.wfL decl p ks = true → o' ∈ Obj.descL ks →
      properPrefix p o'.path = true
  | [], _, _, hm => by simp only [Obj.descL, List.not_mem_nil] at hm
  | k :: r, p, h, hm => by
      rw [Obj.wfL_cons] at h
      rw [Obj.mem_descL_cons] at hm
      rcases hm with rfl | hm | hm
      · exact h.1
      · exact properPrefix_trans h.1 (Obj.path_of_mem_desc' k h.2.2.1 hm)
      · exact Obj.path_of_mem_descL' r p h.2.2.2 hm
end

theorem Obj.path_of_mem_desc {decl : List (List Str)} {o o' : Obj} (h : o.wf decl = true)
    (hm : o' ∈ o.desc) : properPrefix o.path o'.path = true :=
  Obj.path_of_mem_desc' o h hm

/-! ### `atPath` -/

theorem atPath_self (p : Str) (o : Obj) (f : Obj → Bool) (h : o.path = splitOnChar '.' p) :
    atPath p o f = f o := by
  unfold atPath; rw [if_pos h]

/-- only the objects that instantiate `p`, among `o` and its descendants, matter -/
theorem atPath_congr (p : Str) (o : Obj) (f g : Obj → Bool)
    (h : ∀ o', (o' = o ∨ o' ∈ o.desc) → o'.path = splitOnChar '.' p → f o' = g o') :
    atPath p o f = atPath p o g := by
  unfold atPath
  split
  · rename_i hp; exact h o (Or.inl rfl) hp
  · rw [Bool.eq_iff_iff]
    simp only [List.any_eq_true, Bool.and_eq_true, beq_iff_eq]
    constructor
    · rintro ⟨o', hm, hp, hf⟩
      exact ⟨o', hm, hp, by rw [← h o' (Or.inr hm) hp]; exact hf⟩
    · rintro ⟨o', hm, hp, hf⟩
      exact ⟨o', hm, hp, by rw [h o' (Or.inr hm) hp]; exact hf⟩

mutual
/-- in a well-formed object below the declared container `P`, every descendant at the deeper path
`P'` lies inside a descendant at `P` -/
theorem Obj.through_container {decl : List (List Str)} {P P' : List Str} (hd : P ∈ decl)
    (h2 : properPrefix P P' = true) {o'' : Obj} (hp'' : o''.path = P') :
    ∀ (o : Obj), o.wf decl = true → properPrefix o.path P = true → o'' ∈ o.desc →
      ∃ o', o' ∈ o.desc ∧ o'.path = P ∧ o'' ∈ o'.desc
  | .mk p kids, h, h1, hm => by
      simp only [Obj.wf] at h; simp only [Obj.desc] at hm ⊢; simp only [Obj.path] at h1
      exact Obj.through_containerL hd h2 hp'' kids p h h1 hm
theorem Obj.through_containerL {decl : List (List Str)} {P P' : List Str} (hd : P ∈ decl)
    (h2 : properPrefix P P' = true) {o'' : Obj} (hp'' : o''.path = P') :
    ∀ (ks : List Obj) (p : List Str), Obj.wfL decl p ks = true → properPrefix p P = true →
      o'' ∈ Obj.descL ks → ∃ o', o' ∈ Obj.descL ks ∧ o'.path = P ∧ o'' ∈ o'.desc
  | [], _, _, _, hm => by simp only [Obj.descL, List.not_mem_nil] at hm
  | k :: r, p, h, h1, hm => by
      rw [Obj.wfL_cons] at h
      obtain ⟨hk, hall, hkwf, hr⟩ := h
      rw [Obj.mem_descL_cons] at hm
      have key : o'' = k ∨ o'' ∈ k.desc →
          ∃ o', o' ∈ Obj.descL (k :: r) ∧ o'.path = P ∧ o'' ∈ o'.desc := by
        intro hm
        have hkP' : k.path <+: P' := by
          rcases hm with rfl | hm
          · rw [hp'']; exact List.prefix_refl _
          · rw [← hp'']; exact properPrefix_prefix (Obj.path_of_mem_desc hkwf hm)
        rcases properPrefix_trichotomy (properPrefix_prefix h2) hkP' with hc | hc | hc
        · exact (hall P hd h1 hc).elim
        · refine ⟨k, Obj.mem_descL_cons.2 (Or.inl rfl), hc.symm, ?_⟩
          rcases hm with rfl | hm
          · exact (properPrefix_ne h2 (hc.trans hp'')).elim
          · exact hm
        · rcases hm with rfl | hm
          · rw [hp''] at hc
            exact (properPrefix_irrefl _ (properPrefix_trans h2 hc)).elim
          · obtain ⟨o', hm', hp', hd'⟩ := Obj.through_container hd h2 hp'' k hkwf hc hm
            exact ⟨o', Obj.mem_descL_cons.2 (Or.inr (Or.inl hm')), hp', hd'⟩
      rcases hm with hm | hm | hm
      · exact key (Or.inl hm)
      · exact key (Or.inr hm)
      · obtain ⟨o', hm', hp', hd'⟩ := Obj.through_containerL hd h2 hp'' r p hr h1 hm
        exact ⟨o', Obj.mem_descL_cons.2 (Or.inr (Or.inr hm')), hp', hd'⟩
end

/-- skip-nesting: in a well-formed document, looking for an object at the deeper nested path `p'`
through an object at the declared container `p` (a proper prefix of `p'`) is the same as looking for
it directly, from any object whose path is a proper prefix of `p` -/
theorem atPath_skip {decl : List (List Str)} (o : Obj) (p p' : Str) (g : Obj → Bool)
    (hwf : o.wf decl = true)
    (h1 : properPrefix o.path (splitOnChar '.' p) = true)
    (h2 : properPrefix (splitOnChar '.' p) (splitOnChar '.' p') = true)
    (hd : splitOnChar '.' p ∈ decl) :
    atPath p o (fun o' => atPath p' o' g) = atPath p' o g := by
  have hne : splitOnChar '.' p ≠ splitOnChar '.' p' := properPrefix_ne h2
  unfold atPath
  rw [if_neg (properPrefix_ne h1), if_neg (properPrefix_ne (properPrefix_trans h1 h2))]
  rw [Bool.eq_iff_iff]
  simp only [List.any_eq_true, Bool.and_eq_true, beq_iff_eq]
  constructor
  · rintro ⟨o', hm, hp, hif⟩
    rw [if_neg (by rw [hp]; exact hne)] at hif
    simp only [List.any_eq_true, Bool.and_eq_true, beq_iff_eq] at hif
    obtain ⟨o'', hm', hp', hg⟩ := hif
    exact ⟨o'', Obj.mem_desc_trans hm' hm, hp', hg⟩
  · rintro ⟨o'', hm, hp, hg⟩
    obtain ⟨o', hm', hp', hd'⟩ := Obj.through_container hd h2 hp o hwf h1 hm
    refine ⟨o', hm', hp', ?_⟩
    rw [if_neg (by rw [hp']; exact hne)]
    simp only [List.any_eq_true, Bool.and_eq_true, beq_iff_eq]
    exact ⟨o'', hd', hp, hg⟩

end Luqum.Lemmas.Es
