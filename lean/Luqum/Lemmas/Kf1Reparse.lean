/-
  Luqum.Lemmas.Kf1Reparse — known finding KF1 and re-lexing: the text with the blanks before the
  `:` tokens dropped is the spelling of the same pieces with the separators of the `:` pieces
  emptied (`dropSeps1`); it lexes into the same token keys unless a term that ends like a time
  expression (`T12`) gets glued to `:` followed by two digits (finding KF8, `colonClash`).
-/
import Luqum.Lemmas.Kf1Tok
import Luqum.Lemmas.RelexGlue

namespace Luqum

/-- empty the separator of every `:` piece -/
def dropSeps : List Piece → List Piece
  | [] => []
  | q :: qs => (if q.kind == .column then { q with sep := [] } else q) :: dropSeps qs

/-- the same for all pieces but the first (the head of the first token is never dropped) -/
def dropSeps1 : List Piece → List Piece
  | [] => []
  | p :: ps => p :: dropSeps ps

theorem dropSeps_keys : ∀ (ps : List Piece), (dropSeps ps).map Piece.key = ps.map Piece.key
  | [] => rfl
  | q :: qs => by
    simp only [dropSeps, List.map_cons, dropSeps_keys qs]
    split <;> rfl

theorem dropSeps1_keys (ps : List Piece) : (dropSeps1 ps).map Piece.key = ps.map Piece.key := by
  cases ps with
  | nil => rfl
  | cons p ps => simp [dropSeps1, dropSeps_keys]

/-! ### the dropped text is the spelling of the dropped pieces -/

theorem nextIsColon_toksOf (trail : Str) (ps : List Piece) (pos : Nat) (first : Bool) :
    nextIsColon (toksOf pos first ps trail) = (match ps with | q :: _ => q.kind == .column | [] => false) := by
  cases ps <;> rfl

theorem tflats_drop_toksOf (trail : Str) : ∀ (ps : List Piece) (pos : Nat),
    tflats (dropColonBlanks (toksOf pos false ps trail)) =
      (match ps with | [] => [] | p :: ps' => p.text ++ spell (dropSeps ps') trail)
  | [], _ => rfl
  | [p], pos => by
    simp [toksOf, dropColonBlanks, nextIsColon, Tok.flat, nextSep, spell, dropSeps]
  | p :: q :: qs, pos => by
    have ih := tflats_drop_toksOf trail (q :: qs) (pos + p.sep.length + p.text.length)
    simp only [toksOf] at ih ⊢
    simp only [dropColonBlanks, tflats_cons] at ih ⊢
    rw [ih]
    simp only [nextIsColon, nextSep, dropSeps, spell]
    by_cases hq : q.kind = .column
    · simp [hq, Tok.flat]
    · simp [hq, Tok.flat]

theorem tflats_drop_toksOf_first (trail : Str) (p : Piece) (ps : List Piece) :
    tflats (dropColonBlanks (toksOf 0 true (p :: ps) trail)) = spell (dropSeps1 (p :: ps)) trail := by
  cases ps with
  | nil => simp [toksOf, dropColonBlanks, nextIsColon, Tok.flat, nextSep, spell, dropSeps1, dropSeps]
  | cons q qs =>
    have ih := tflats_drop_toksOf trail (q :: qs) (0 + p.sep.length + p.text.length)
    simp only [toksOf] at ih ⊢
    simp only [dropColonBlanks, tflats_cons] at ih ⊢
    rw [ih]
    simp only [nextIsColon, nextSep, dropSeps1, dropSeps, spell]
    by_cases hq : q.kind = .column
    · simp [hq, Tok.flat]
    · simp [hq, Tok.flat]

/-! ### what `followOK` sees of the text that follows -/

/-- does the text start with a digit? -/
def firstDigit : Str → Bool
  | c :: _ => isDigitU c
  | [] => false

theorem startsDD_cons (a : Char) (r : Str) : startsDD (a :: r) = (isDigitU a && firstDigit r) := by
  cases r <;> simp [startsDD, firstDigit]

theorem followOK_view {k : TokK} {x r r' : Str} (h1 : r.head? = r'.head?)
    (h2 : r.head? = some ':' → startsDD r.tail = startsDD r'.tail) :
    followOK k x r = followOK k x r' := by
  cases r with
  | nil =>
    cases r' with
    | nil => rfl
    | cons c' t' => simp at h1
  | cons c t =>
    cases r' with
    | nil => simp at h1
    | cons c' t' =>
      simp only [List.head?_cons, Option.some.injEq] at h1
      subst h1
      simp only [List.head?_cons, Option.some.injEq, List.tail_cons] at h2
      by_cases hc : c = ':'
      · have := h2 hc
        cases k <;> simp [followOK, termStops, this]
      · have hc' : (c == ':') = false := by simp [hc]
        cases k <;> simp [followOK, termStops, hc']

theorem colon_text {x : Str} (h : validTok .column x = true) : x = [':'] := by
  obtain ⟨c, xs, rfl, _⟩ := validTok_cons h
  simp only [validTok, decide_eq_true_eq] at h
  rcases lexOne_spec h with ⟨_, h'⟩ | ⟨_, k, n, h', hk⟩
  · cases h'
  · cases h'
    have hm : max (c :: xs).length 1 = (c :: xs).length := by simp
    rw [hm, List.take_length] at hk
    exact hk

/-- blank separators and valid token texts -/
def PcsOK (qs : List Piece) : Prop :=
  ∀ p ∈ qs, isBlank p.sep = true ∧ validTok p.kind p.text = true

theorem PcsOK.tail {q : Piece} {qs : List Piece} (h : PcsOK (q :: qs)) : PcsOK qs :=
  fun p hp => h p (by simp [hp])

/-- a piece whose separator is kept -/
theorem spell_dropSeps_keep {c : Piece} (rest : List Piece) (trail : Str)
    (h : ¬ (c.kind = .column ∧ c.sep ≠ [])) :
    spell (dropSeps (c :: rest)) trail = c.sep ++ c.text ++ spell (dropSeps rest) trail := by
  simp only [dropSeps, spell]
  by_cases hk : c.kind = .column
  · have : c.sep = [] := Classical.byContradiction fun hs => h ⟨hk, hs⟩
    simp [hk, this]
  · simp [hk]

/-- a `:` piece whose separator is dropped -/
theorem spell_dropSeps_drop {c : Piece} (rest : List Piece) (trail : Str)
    (hk : c.kind = .column) (hv : validTok c.kind c.text = true) :
    spell (dropSeps (c :: rest)) trail = ':' :: spell (dropSeps rest) trail := by
  rw [hk] at hv
  simp [dropSeps, spell, hk, colon_text hv]

theorem firstDigit_drop (trail : Str) : ∀ (qs : List Piece), PcsOK qs →
    firstDigit (spell (dropSeps qs) trail) = firstDigit (spell qs trail)
  | [], _ => rfl
  | c :: rest, h => by
    obtain ⟨hb, hv⟩ := h c (by simp)
    by_cases hd : c.kind = .column ∧ c.sep ≠ []
    · rw [spell_dropSeps_drop rest trail hd.1 hv]
      obtain ⟨b, bs, hs⟩ := List.exists_cons_of_ne_nil hd.2
      rw [hs, isBlank_cons, Bool.and_eq_true] at hb
      simp [spell, hs, firstDigit, isDigitU_colon, space_not_digit hb.1]
    · rw [spell_dropSeps_keep rest trail hd]
      obtain ⟨d, xs, hx, _⟩ := validTok_cons hv
      cases hs : c.sep with
      | nil => simp [spell, hs, hx, firstDigit]
      | cons b bs => simp [spell, hs, firstDigit]

theorem startsDD_drop (trail : Str) : ∀ (qs : List Piece), PcsOK qs →
    startsDD (spell (dropSeps qs) trail) = startsDD (spell qs trail)
  | [], _ => rfl
  | c :: rest, h => by
    obtain ⟨hb, hv⟩ := h c (by simp)
    by_cases hd : c.kind = .column ∧ c.sep ≠ []
    · rw [spell_dropSeps_drop rest trail hd.1 hv]
      obtain ⟨b, bs, hs⟩ := List.exists_cons_of_ne_nil hd.2
      rw [hs, isBlank_cons, Bool.and_eq_true] at hb
      simp [spell, hs, startsDD_cons, isDigitU_colon, space_not_digit hb.1]
    · rw [spell_dropSeps_keep rest trail hd]
      obtain ⟨d, xs, hx, _⟩ := validTok_cons hv
      cases hs : c.sep with
      | nil =>
        cases xs with
        | nil => simp [spell, hs, hx, startsDD_cons, firstDigit_drop trail rest h.tail]
        | cons x2 xs' => simp [spell, hs, hx, startsDD]
      | cons b bs =>
        rw [hs, isBlank_cons, Bool.and_eq_true] at hb
        simp [spell, hs, startsDD_cons, space_not_digit hb.1]

/-! ### the clash -/

/-- the first of `qs` is a `:` piece that loses its separator, and `q` is a term that then goes on
through `:` and the two digits after it (a time expression, finding KF8) -/
def clashAt (q : Piece) (qs : List Piece) (trail : Str) : Bool :=
  match qs with
  | c :: rest =>
    c.kind == .column && !c.sep.isEmpty && isTermKind q.kind &&
      timeClash q.text (':' :: spell rest trail)
  | [] => false

/-- some piece clashes with the `:` piece after it once the separator between them is dropped -/
def colonClash : List Piece → Str → Bool
  | [], _ => false
  | q :: qs, trail => clashAt q qs trail || colonClash qs trail

theorem follow_drop (q : Piece) (qs : List Piece) (trail : Str) (hqs : PcsOK qs)
    (hf : followOK q.kind q.text (spell qs trail) = true) (hc : clashAt q qs trail = false) :
    followOK q.kind q.text (spell (dropSeps qs) trail) = true := by
  cases qs with
  | nil => exact hf
  | cons c rest =>
    obtain ⟨hb, hv⟩ := hqs c (by simp)
    by_cases hd : c.kind = .column ∧ c.sep ≠ []
    · rw [spell_dropSeps_drop rest trail hd.1 hv]
      have hdd := startsDD_drop trail rest hqs.tail
      simp only [clashAt, hd.1, beq_self_eq_true, Bool.true_and, Bool.and_eq_false_iff,
        Bool.not_eq_false', List.isEmpty_iff] at hc
      rcases hc with (hc | hc) | hc
      · exact absurd hc hd.2
      · cases hk : q.kind <;> simp [hk, isTermKind] at hc <;> simp [followOK, isNumChar]
      · simp only [timeClash, secOK_eq, Bool.and_eq_false_iff] at hc
        rw [← hdd] at hc
        cases hk : q.kind <;> simp [followOK, isNumChar, termStops, isTermNext_colon]
        all_goals
          rcases hc with hc | hc
          · simp only [Bool.or_eq_false_iff] at hc; simp [hc.1, hc.2]
          · simp [hc]
    · rw [spell_dropSeps_keep rest trail hd]
      cases hs : c.sep with
      | cons b bs =>
        rw [hs, isBlank_cons, Bool.and_eq_true] at hb
        exact followOK_blank _ _ _ hb.1
      | nil =>
        obtain ⟨d, xs, hx, _⟩ := validTok_cons hv
        rw [← hf]
        apply followOK_view
        · simp [spell, hs, hx]
        · intro _
          simp only [spell, hs, hx, List.nil_append, List.cons_append, List.tail_cons]
          cases xs with
          | nil => simpa using startsDD_drop trail rest hqs.tail
          | cons x2 xs' =>
            cases xs' with
            | nil =>
              simp only [List.cons_append, List.nil_append, startsDD_cons,
                firstDigit_drop trail rest hqs.tail]
            | cons x3 xs'' => simp [startsDD]

theorem chainOK_dropSeps (trail : Str) : ∀ (ps : List Piece), PcsOK ps → chainOK ps trail = true →
    colonClash ps trail = false → chainOK (dropSeps ps) trail = true
  | [], _, _, _ => rfl
  | q :: qs, hp, hch, hcl => by
    simp only [chainOK, Bool.and_eq_true] at hch
    simp only [colonClash, Bool.or_eq_false_iff] at hcl
    have ih := chainOK_dropSeps trail qs hp.tail hch.2 hcl.2
    have hf := follow_drop q qs trail hp.tail hch.1 hcl.1
    simp only [dropSeps, chainOK, Bool.and_eq_true]
    refine ⟨?_, ih⟩
    split <;> exact hf

/-- **the pieces with the separators before `:` dropped satisfy the hypotheses of the spelling
theorem**, unless a time-expression clash arises -/
theorem piecesOK_dropSeps1 {ps : List Piece} {trail : Str} (hok : PiecesOK ps trail)
    (hcl : colonClash ps trail = false) : PiecesOK (dropSeps1 ps) trail := by
  cases ps with
  | nil => exact hok
  | cons p ps =>
    have hp : PcsOK (p :: ps) := fun q hq => ⟨hok.blank q hq, hok.valid q hq⟩
    have hch := hok.chain
    simp only [chainOK, Bool.and_eq_true] at hch
    simp only [colonClash, Bool.or_eq_false_iff] at hcl
    have hmem : ∀ q ∈ dropSeps ps, ∃ q' ∈ ps, q.kind = q'.kind ∧ q.text = q'.text ∧
        (q.sep = q'.sep ∨ q.sep = []) := by
      intro q hq
      clear hch hcl hp hok
      induction ps with
      | nil => simp [dropSeps] at hq
      | cons a r ih =>
        simp only [dropSeps, List.mem_cons] at hq
        rcases hq with rfl | hq
        · refine ⟨a, by simp, ?_⟩
          split
          · exact ⟨rfl, rfl, Or.inr rfl⟩
          · exact ⟨rfl, rfl, Or.inl rfl⟩
        · obtain ⟨q', hq', h⟩ := ih hq
          exact ⟨q', by simp [hq'], h⟩
    refine ⟨hok.blankTrail, ?_, ?_, ?_⟩
    · intro q hq
      simp only [dropSeps1, List.mem_cons] at hq
      rcases hq with rfl | hq
      · exact hok.blank _ (by simp)
      · obtain ⟨q', hq', _, _, hs⟩ := hmem q hq
        rcases hs with hs | hs
        · rw [hs]; exact hok.blank q' (by simp [hq'])
        · rw [hs]; rfl
    · intro q hq
      simp only [dropSeps1, List.mem_cons] at hq
      rcases hq with rfl | hq
      · exact hok.valid _ (by simp)
      · obtain ⟨q', hq', hk, ht, _⟩ := hmem q hq
        rw [hk, ht]; exact hok.valid q' (by simp [hq'])
    · simp only [dropSeps1, chainOK, Bool.and_eq_true]
      exact ⟨follow_drop p ps trail hp.tail hch.1 hcl.1,
        chainOK_dropSeps trail ps hp.tail hch.2 hcl.2⟩

end Luqum
