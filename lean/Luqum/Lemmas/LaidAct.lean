/-
  Luqum.Lemmas.LaidAct — property C02 (positions): every semantic action keeps the layout. If the
  arguments of an action are laid out consecutively from offset `off`, the value it builds is laid
  out at `off`. This is the arithmetic of `HeadTailManager.pos`; for the binary operations it needs
  the fact (from the certificate of the LALR tables) that the right operand is never an operation of
  the class being built.
-/
import Luqum.Lemmas.LaidDefs
import Luqum.Lemmas.CertAct

namespace Luqum

/-! ### bodies, constructor by constructor (unfolding `Tree.body` on a variable gives a `match`) -/

section body
variable (s : NumStyle)
theorem body_term (k v l) : Tree.body s (.term k v l) = v := by simp only [Tree.body]
theorem body_field (n e l) : Tree.body s (.field n e l) = n ++ [':'] ++ e.full s := by
  simp only [Tree.body]
theorem body_group (k e l) : Tree.body s (.group k e l) = ['('] ++ e.full s ++ [')'] := by
  simp only [Tree.body]
theorem body_range (a b il ih l) : Tree.body s (.range a b il ih l) =
    [if il then '[' else '{'] ++ a.full s ++ "TO".toList ++ b.full s ++ [if ih then ']' else '}'] := by
  simp only [Tree.body]
theorem body_op (k xs l) : Tree.body s (.op k xs l) = joinWith k.word (Tree.fulls s xs) := by
  simp only [Tree.body]
end body

/-! ### stack values and sequences of them -/

/-- the body of the value (the lexeme, for a token value) starts at `p` -/
def Val.PosAt : Val → Int → Prop
  | .tok k v, p => LayAt v.lay p (tokText k v.value)
  | .item t, p => Pos .raw t p

/-- the values are laid out one after the other, the full text of the first starting at `off` -/
def SeqPos : List Val → Int → Prop
  | [], _ => True
  | v :: r, off => v.PosAt (off + v.lay.head.length) ∧ SeqPos r (off + v.flat.length)

theorem seqPos_append : ∀ (xs ys : List Val) (off : Int),
    SeqPos (xs ++ ys) off ↔ SeqPos xs off ∧ SeqPos ys (off + (flats xs).length)
  | [], ys, off => by simp [SeqPos]
  | x :: r, ys, off => by
      simp only [List.cons_append, SeqPos, seqPos_append r ys, flats_cons, List.length_append,
        and_assoc]
      have : off + (x.flat.length : Int) + ((flats r).length : Int)
          = off + ((x.flat.length + (flats r).length : Nat) : Int) := by omega
      rw [this]

theorem Pos.cast {s : NumStyle} {t : Tree} {p q : Int} (h : Pos s t p) (e : p = q) : Pos s t q :=
  e ▸ h

theorem layLen_of_pos {s : NumStyle} {t : Tree} {p : Int} (h : Pos s t p) :
    layLen t.lay = ((t.full s).length : Int) := by
  rw [h.full_len]
  simp only [layLen, h.size_eq, Tree.head, Tree.tail, Option.getD_some]
  omega

/-! ### prefix and postfix operators -/

/-- a node constructor for `OP expr` whose node prints `w` before the operand -/
def PreMk (w : Str) (mk : Tree → Lay → Tree) : Prop :=
  ∀ a l p, Pos .raw (mk a l) p ↔
    LayAt l p (w ++ a.full .raw) ∧ Pos .raw a (p + w.length + a.head.length)

/-- a node constructor for `expr OP` whose node prints `w` after the operand -/
def PostMk (w : Str) (mk : Tree → Lay → Tree) : Prop :=
  ∀ a l p, Pos .raw (mk a l) p ↔ LayAt l p (a.full .raw ++ w) ∧ Pos .raw a (p + a.head.length)

theorem preMk_unary (k : UnK) : PreMk k.word (.unary k) := by
  intro a l p; simp only [Pos, Tree.body]

theorem preMk_orange (k : ORK) (inc : Bool) :
    PreMk (orangePre k inc) (fun a l => .orange k a inc l) := by
  intro a l p; simp only [Pos, Tree.body, orangePre]

theorem postMk_approx (k : ApxK) (n : Num) :
    PostMk ('~' :: n.source) (fun x l => .approx k x n l) := by
  intro a l p
  simp only [Pos, Tree.body, Num.text, LayAt, List.length_append, List.length_cons,
    List.length_nil]
  constructor <;> rintro ⟨⟨h1, h2⟩, h3⟩ <;> refine ⟨⟨h1, ?_⟩, h3⟩ <;> rw [h2] <;> congr 1 <;> omega

theorem postMk_boost (n : Num) : PostMk ('^' :: n.source) (fun x l => .boost x n l) := by
  intro a l p
  simp only [Pos, Tree.body, Num.text, LayAt, List.length_append, List.length_cons,
    List.length_nil]
  constructor <;> rintro ⟨⟨h1, h2⟩, h3⟩ <;> refine ⟨⟨h1, ?_⟩, h3⟩ <;> rw [h2] <;> congr 1 <;> omega

/-- `HeadTailManager.unary` -/
theorem mgrUnary_pos {o : Lay} {e : Tree} {mk : Tree → Lay → Tree} {w : Str} {off : Int}
    (hmk : PreMk w mk) (ho : LayAt o (off + o.head.length) w)
    (he : Pos .raw e (off + (o.head.length + w.length + o.tail.length : Nat) + e.head.length)) :
    Pos .raw (mgrUnary o e mk) (off + o.head.length) := by
  unfold mgrUnary
  simp only []
  rw [hmk]
  refine ⟨⟨?_, ?_⟩, ?_⟩
  · simp [mgrPos, ho.1]
  · simp [mgrPos, layLen, ho.2, he.size_eq, Tree.setHead_full _ _ _ he.not_none]
    simp only [Tree.head, Tree.tail]; omega
  · simp only [pos_setHead, Tree.setHead_head, List.length_append]
    exact he.cast (by omega)

/-- `HeadTailManager.post_unary` -/
theorem mgrPostUnary_pos {e : Tree} {o : Lay} {mk : Tree → Lay → Tree} {w : Str} {off : Int}
    (hmk : PostMk w mk) (he : Pos .raw e (off + e.head.length))
    (ho : o.size = some (w.length : Int)) :
    Pos .raw (mgrPostUnary e o mk) off := by
  unfold mgrPostUnary
  simp only []
  rw [hmk]
  refine ⟨⟨?_, ?_⟩, ?_⟩
  · simp [mgrPos, he.pos_eq, Tree.head]
  · simp [mgrPos, layLen, ho, he.size_eq, Tree.setTail_full _ _ _ he.not_none]
    simp only [Tree.head, Tree.tail]; omega
  · simp only [pos_setTail, Tree.setTail_head]
    exact he

/-! ### parentheses, ranges, fields, `TO` as a term -/

theorem group_pos {lp rp : Lay} {e : Tree} {pos size : Option Int} {off : Int}
    (hm : mgrPos [lp, e.lay, rp] true true = (pos, size))
    (hlp : LayAt lp (off + lp.head.length) ['('])
    (he : Pos .raw e (off + (lp.head.length + 1 + lp.tail.length : Nat) + e.head.length))
    (hrp : rp.size = some 1) :
    Pos .raw (.group .group
      ((e.setHead (lp.tail ++ e.head)).setTail ((e.setHead (lp.tail ++ e.head)).tail ++ rp.head))
      { head := lp.head, tail := rp.tail, pos := pos, size := size }) (off + lp.head.length) := by
  simp only [mgrPos, layLen, hlp.1, hlp.2, hrp, he.size_eq, List.map, List.foldl,
    List.getLast?, Prod.mk.injEq] at hm
  obtain ⟨rfl, rfl⟩ := hm
  have hn : (e.setHead (lp.tail ++ e.head)).isNone = false := by simpa using he.not_none
  simp only [Pos, LayAt, body_group, Tree.setTail_full _ _ _ hn, Tree.setHead_head,
    Tree.setHead_body, Tree.setHead_tail, pos_setTail, pos_setHead, Tree.setTail_head]
  refine ⟨⟨by simp, ?_⟩, ?_⟩
  · simp [Tree.head, Tree.tail]; omega
  · simp only [List.length_append]
    exact he.cast (by omega)

theorem toTerm_pos {t : TokV} {pos size : Option Int} {off : Int}
    (hm : mgrPos [t.lay] true true = (pos, size))
    (ht : LayAt t.lay (off + t.lay.head.length) (t.value.getD [])) :
    Pos .raw (.term .word (t.value.getD [])
      { head := t.lay.head, tail := t.lay.tail, pos := pos, size := size })
      (off + t.lay.head.length) := by
  simp only [mgrPos, layLen, ht.1, ht.2, List.map, List.foldl, List.getLast?,
    Prod.mk.injEq] at hm
  obtain ⟨rfl, rfl⟩ := hm
  simp only [Pos, LayAt, body_term]
  refine ⟨by simp, ?_⟩
  simp; omega

theorem range_pos {lb to rb : Lay} {lo hi : Tree} {il ih : Bool} {pos size : Option Int} {off : Int}
    (hm : mgrPos [lb, lo.lay, to, hi.lay, rb] true true = (pos, size))
    (hlbp : lb.pos = some (off + lb.head.length)) (hlbs : lb.size = some 1)
    (hlo : Pos .raw lo (off + (lb.head.length + 1 + lb.tail.length : Nat) + lo.head.length))
    (hto : to.size = some 2) (htoh : to.head = [])
    (hhi : Pos .raw hi (off + (lb.head.length + 1 + lb.tail.length : Nat) + (lo.full .raw).length
      + (2 + to.tail.length : Nat) + hi.head.length))
    (hrb : rb.size = some 1) :
    Pos .raw (.range
      ((lo.setHead (lb.tail ++ lo.head)).setTail ((lo.setHead (lb.tail ++ lo.head)).tail ++ to.head))
      ((hi.setHead (to.tail ++ hi.head)).setTail ((hi.setHead (to.tail ++ hi.head)).tail ++ rb.head))
      il ih { head := lb.head, tail := rb.tail, pos := pos, size := size }) (off + lb.head.length) := by
  simp only [mgrPos, layLen, hlbp, hlbs, hto, hrb, hlo.size_eq, hhi.size_eq, List.map, List.foldl,
    List.getLast?, Prod.mk.injEq] at hm
  obtain ⟨rfl, rfl⟩ := hm
  have hn1 : (lo.setHead (lb.tail ++ lo.head)).isNone = false := by simpa using hlo.not_none
  have hn2 : (hi.setHead (to.tail ++ hi.head)).isNone = false := by simpa using hhi.not_none
  have hfl := hlo.full_len
  simp only [Pos, LayAt, body_range, Tree.setTail_full _ _ _ hn1, Tree.setTail_full _ _ _ hn2,
    Tree.setHead_head, Tree.setHead_body, Tree.setHead_tail, pos_setTail, pos_setHead,
    Tree.setTail_head]
  refine ⟨⟨by simp, ?_⟩, ?_, ?_⟩
  · simp [Tree.head, Tree.tail]; omega
  · simp only [List.length_append]
    exact hlo.cast (by omega)
  · simp only [List.length_append, htoh, List.length_nil] at hfl ⊢
    exact hhi.cast (by omega)

theorem field_pos {nl c : Lay} {name : Str} {e : Tree} {pos size : Option Int} {off : Int}
    (hm : mgrPos [nl, c, (toFieldGroup e).lay] true false = (pos, size))
    (hnl : LayAt nl (off + nl.head.length) name) (hnt : nl.tail = [])
    (hc : c.size = some 1) (hch : c.head = [])
    (he : Pos .raw e (off + (nl.head.length + name.length : Nat) + (1 + c.tail.length : Nat)
      + e.head.length)) :
    Pos .raw (.field name ((toFieldGroup e).setHead (c.tail ++ (toFieldGroup e).head))
      { head := nl.head, tail := [], pos := pos, size := size }) (off + nl.head.length) := by
  obtain ⟨f1, f2, f3, f4, f5⟩ := toFieldGroup_spec e
  have he' : Pos .raw (toFieldGroup e) (off + (nl.head.length + name.length : Nat)
      + (1 + c.tail.length : Nat) + e.head.length) := (pos_toFieldGroup _ _ _).2 he
  simp only [mgrPos, layLen, hnl.1, hnl.2, hc, he'.size_eq, List.map, List.foldl,
    List.getLast?, Prod.mk.injEq] at hm
  obtain ⟨rfl, rfl⟩ := hm
  simp only [Pos, LayAt, body_field, Tree.setHead_full _ _ _ he'.not_none, Tree.setHead_head,
    pos_setHead]
  refine ⟨⟨by simp, ?_⟩, ?_⟩
  · simp [Tree.head, Tree.tail, hnt, hch]
    rw [← Tree.tail_eq, f4, Tree.tail_eq]; omega
  · simp only [List.length_append, f3]
    exact he'.cast (by omega)

end Luqum
