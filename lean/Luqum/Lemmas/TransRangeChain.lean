/-
  Luqum.Lemmas.TransRangeChain — `OpenRangeTransformer`: the words of the result are fine, and
  (without merging, with a separator `h` that is blank and not empty) the result has the chain
  condition of the tree: `[` / `{` glue to nothing before them, `]` / `}` to nothing after them, and
  `TO` and `*` stand between separators.
-/
import Luqum.Lemmas.TransRangeCanon

namespace Luqum
open Luqum.Compl (wordTerm boundText)

/-! ### words -/

theorem boundText_setLay (t : Tree) (l : Lay) : boundText (t.setLay l) = boundText t := by
  cases t with
  | term k v l' => cases k <;> rfl
  | unary k e l' => cases k <;> rfl
  | _ => rfl

theorem boundText_star : boundText wildcardWord = true := by decide +kernel

mutual
theorem wordsOK_openRange (m : Bool) (h : Str) : ∀ (t : Tree) (uf : Bool), CanonAt uf t = true →
    WordsOK t = true → WordsOK (openRange m h t) = true
  | .term k v l, _, _, hw => by cases k <;> exact hw
  | .none _, _, _, hw => hw
  | .field n e l, uf, hc, hw => by
    simp only [CanonAt, Bool.and_eq_true] at hc
    simp only [WordsOK, Bool.and_eq_true] at hw
    simp [openRange, WordsOK, hw.1, wordsOK_openRange m h e true hc.1 hw.2]
  | .group k e l, uf, hc, hw => by
    simp only [CanonAt, Bool.and_eq_true] at hc
    simpa [openRange, WordsOK] using wordsOK_openRange m h e false hc.2 (by simpa [WordsOK] using hw)
  | .approx .fuzzy e n l, uf, hc, hw => by
    simp only [WordsOK] at hw
    simp [openRange, WordsOK, (openRange_shape m h e).2.2.2.2.2.2.2, hw]
  | .approx .proximity e n l, uf, hc, hw => by simp [openRange, WordsOK]
  | .boost e n l, uf, hc, hw => by
    simp only [CanonAt, Bool.and_eq_true] at hc
    simpa [openRange, WordsOK] using wordsOK_openRange m h e false hc.1.1.1 (by simpa [WordsOK] using hw)
  | .unary k e l, uf, hc, hw => by
    simp only [CanonAt, Bool.and_eq_true] at hc
    simpa [openRange, WordsOK] using wordsOK_openRange m h e false hc.1 (by simpa [WordsOK] using hw)
  | .range a b il ih l, uf, hc, hw => by
    simp only [WordsOK, Bool.and_eq_true] at hw
    simp [openRange, WordsOK, (openRange_isBound m h a).2, (openRange_isBound m h b).2, hw.1, hw.2]
  | .orange .from e inc l, uf, hc, hw => by
    simp only [CanonAt] at hc
    simp only [WordsOK] at hw
    have : boundText (openRange m h e) = true := by
      rw [(openRange_isBound m h e).2]; exact boundText_of_wordTerm hc hw
    simp [openRange, WordsOK, Tree.setTail, Tree.setHead, boundText_setLay, this, boundText_star]
  | .orange .to e inc l, uf, hc, hw => by
    simp only [CanonAt] at hc
    simp only [WordsOK] at hw
    have : boundText (openRange m h e) = true := by
      rw [(openRange_isBound m h e).2]; exact boundText_of_wordTerm hc hw
    simp [openRange, WordsOK, Tree.setTail, Tree.setHead, boundText_setLay, this, boundText_star]
  | .op k xs l, uf, hc, hw => by
    simp only [CanonAt, Bool.and_eq_true] at hc
    have ih := wordssOK_openRange m h xs hc.1.2 (by simpa [WordsOK] using hw)
    simp only [openRange]
    split
    · simp only [WordsOK]
      rw [wordssOK_eq_all] at ih ⊢
      exact mergeOps_all_bool _ joinRange_wordsOK _ ih
    · simpa [WordsOK] using ih
theorem wordssOK_openRange (m : Bool) (h : Str) : ∀ xs : List Tree, CanonsAt xs = true →
    WordssOK xs = true → WordssOK (openRangeList m h xs) = true
  | [], _, _ => rfl
  | x :: r, hc, hw => by
    simp only [CanonsAt, Bool.and_eq_true] at hc
    simp only [WordssOK, Bool.and_eq_true] at hw
    simp [openRangeList, WordssOK, wordsOK_openRange m h x false hc.1 hw.1,
      wordssOK_openRange m h r hc.2 hw.2]
end

/-! ### following texts and the chain condition (without merging) -/

/-- a printed tree with a blank layout and a head that is not empty is empty (`NoneItem`) or starts
with a blank -/
theorem stopStart_full_head (s : NumStyle) (t : Tree) (R : Str) (hb : t.blankLayout = true)
    (hh : t.head ≠ []) (hR : StopStart R) : StopStart (t.full s ++ R) := by
  cases hn : t.isNone with
  | true =>
    cases t <;> simp [Tree.isNone] at hn
    simpa [Tree.full] using hR
  | false =>
    rw [Tree.full_eq s t hn, List.append_assoc, List.append_assoc]
    refine stopStart_blank ?_ _ hh
    cases t <;> simp_all [Tree.blankLayout, Tree.head, Tree.lay, Tree.isNone]

theorem stopStart_cons {c : Char} (hc : Stop c) (r : Str) : StopStart (c :: r) := Or.inr ⟨c, r, rfl, hc⟩

theorem stop_clCh (ih : Bool) : Stop (clCh ih) := by
  cases ih
  · exact stop_rbrace
  · exact stop_rbracket

theorem followOK_star (r : Str) (hr : StopStart r) : followOK (reservedKind ['*']) ['*'] r = true :=
  (rel_of_stop hr []).apply (followOK_nil _ _)

mutual
/-- what the result prints, followed by a better follower, is a better follower -/
theorem openRange_rel (s : NumStyle) (h : Str) (hh : isBlank h = true) (hne : h ≠ []) :
    ∀ (t : Tree) (R' R : Str), Rel R' R → Rel ((openRange false h t).full s ++ R') (t.full s ++ R)
  | .term .., R', R, hR => by
    simp only [openRange, Tree.full, noName_head', noName_tail', List.append_assoc]
    exact ((hR.pre _).pre _).pre _
  | .none _, R', R, hR => by simpa [openRange, Tree.full] using hR
  | .field n e l, R', R, hR => by
    simp only [openRange, Tree.full, noName_head', noName_tail', List.append_assoc, List.cons_append,
      List.nil_append]
    exact (((openRange_rel s h hh hne e _ _ (hR.pre _)).cons ':').pre _).pre _
  | .group k e l, R', R, hR => by
    simp only [openRange, Tree.full, noName_head', noName_tail', List.append_assoc, List.cons_append,
      List.nil_append]
    exact ((openRange_rel s h hh hne e _ _ ((hR.pre _).cons ')')).cons '(').pre _
  | .approx k e n l, R', R, hR => by
    simp only [openRange, Tree.full, noName_head', noName_tail', List.append_assoc, List.cons_append,
      List.nil_append]
    exact (openRange_rel s h hh hne e _ _ (((hR.pre _).pre _).cons '~')).pre _
  | .boost e n l, R', R, hR => by
    simp only [openRange, Tree.full, noName_head', noName_tail', List.append_assoc, List.cons_append,
      List.nil_append]
    exact (openRange_rel s h hh hne e _ _ (((hR.pre _).pre _).cons '^')).pre _
  | .unary k e l, R', R, hR => by
    simp only [openRange, Tree.full, noName_head', noName_tail', List.append_assoc]
    exact ((openRange_rel s h hh hne e _ _ (hR.pre _)).pre _).pre _
  | .range a b il ih l, R', R, hR => by
    simp only [openRange, Tree.full, noName_head', noName_tail', List.append_assoc, List.cons_append,
      List.nil_append]
    exact ((openRange_rel s h hh hne a _ _
      ((openRange_rel s h hh hne b _ _ ((hR.pre _).cons _)).pre _)).cons _).pre _
  | .orange .from e inc l, R', R, hR => by
    simp only [openRange, Tree.full, noName_head', noName_tail', List.append_assoc, List.cons_append,
      List.nil_append]
    refine Rel.pre ?_ _
    refine rel_of_stop (stopStart_cons ?_ _) _
    cases inc
    · exact stop_lbrace
    · exact stop_lbracket
  | .orange .to e inc l, R', R, hR => by
    simp only [openRange, Tree.full, noName_head', noName_tail', List.append_assoc, List.cons_append,
      List.nil_append]
    refine Rel.pre ?_ _
    exact rel_of_stop (stopStart_cons stop_lbracket _) _
  | .op k xs l, R', R, hR => by
    simp only [openRange, Bool.false_and, Bool.false_eq_true, if_false, Tree.full, noName_head',
      noName_tail', List.append_assoc]
    refine Rel.pre ?_ _
    cases xs with
    | nil => simpa [openRangeList, Tree.fulls, joinWith] using hR.pre _
    | cons x r =>
      simp only [openRangeList, Tree.fulls, joinWith_cons, List.append_assoc]
      exact openRange_rel s h hh hne x _ _ (openRanges_rel s h hh hne k r _ _ (hR.pre _))
theorem openRanges_rel (s : NumStyle) (h : Str) (hh : isBlank h = true) (hne : h ≠ []) (k : OpK) :
    ∀ (xs : List Tree) (R' R : Str), Rel R' R →
      Rel (restStr s k (openRangeList false h xs) R') (restStr s k xs R)
  | [], R', R, hR => hR
  | x :: r, R', R, hR => by
    rw [openRangeList, restStr_cons, restStr_cons]
    exact (openRange_rel s h hh hne x _ _ (openRanges_rel s h hh hne k r _ _ hR)).pre _
end

theorem star_head_full (s : NumStyle) (h : Str) : (wildcardWord.setHead h).full s = h ++ ['*'] := by
  simp [wildcardWord, Tree.setHead, Tree.setLay, Tree.lay, Tree.full]

theorem star_head_chain (s : NumStyle) (h R : Str) :
    (wildcardWord.setHead h).chainAt s R = followOK (reservedKind ['*']) ['*'] R := by
  simp [wildcardWord, Tree.setHead, Tree.setLay, Tree.lay, Tree.chainAt]

theorem star_tail_chain (s : NumStyle) (h R : Str) :
    (wildcardWord.setTail h).chainAt s R = followOK (reservedKind ['*']) ['*'] (h ++ R) := by
  simp [wildcardWord, Tree.setTail, Tree.setLay, Tree.lay, Tree.chainAt]

theorem followOK_stop {k : TokK} {x r : Str} (hr : StopStart r) : followOK k x r = true :=
  (rel_of_stop hr []).apply (followOK_nil _ _)

mutual
/-- **the chain condition passes to the result** (without merging; the separator `h` put around `TO`
is blank and not empty) -/
theorem openRange_chain (s : NumStyle) (h : Str) (hh : isBlank h = true) (hne : h ≠ []) :
    ∀ (t : Tree) (R' R : Str), t.blankLayout = true → Rel R' R → t.chainAt s R = true →
      (openRange false h t).chainAt s R' = true
  | .term k v l, R', R, _, hR, hc => by
    cases k
    · exact (hR.pre _).apply hc
    · rfl
    · rfl
  | .none _, _, _, _, _, _ => rfl
  | .field n e l, R', R, hb, hR, hc => by
    simp only [Tree.blankLayout, Bool.and_eq_true] at hb
    simp only [openRange, Tree.chainAt, Bool.and_eq_true, noName_tail'] at hc ⊢
    exact ⟨((openRange_rel s h hh hne e _ _ (hR.pre _)).cons ':').apply hc.1,
      openRange_chain s h hh hne e _ _ hb.2 (hR.pre _) hc.2⟩
  | .group k e l, R', R, hb, hR, hc => by
    simp only [Tree.blankLayout, Bool.and_eq_true] at hb
    simp only [openRange, Tree.chainAt, noName_tail'] at hc ⊢
    exact openRange_chain s h hh hne e _ _ hb.2 ((hR.pre _).cons ')') hc
  | .approx k e n l, R', R, hb, hR, hc => by
    simp only [Tree.blankLayout, Bool.and_eq_true] at hb
    simp only [openRange, Tree.chainAt, Bool.and_eq_true, noName_tail'] at hc ⊢
    exact ⟨openRange_chain s h hh hne e _ _ hb.2 (((hR.pre _).pre _).cons '~') hc.1, (hR.pre _).apply hc.2⟩
  | .boost e n l, R', R, hb, hR, hc => by
    simp only [Tree.blankLayout, Bool.and_eq_true] at hb
    simp only [openRange, Tree.chainAt, Bool.and_eq_true, noName_tail'] at hc ⊢
    exact ⟨openRange_chain s h hh hne e _ _ hb.2 (((hR.pre _).pre _).cons '^') hc.1, (hR.pre _).apply hc.2⟩
  | .unary k e l, R', R, hb, hR, hc => by
    simp only [Tree.blankLayout, Bool.and_eq_true] at hb
    simp only [openRange, Tree.chainAt, Bool.and_eq_true, noName_tail'] at hc ⊢
    exact ⟨(openRange_rel s h hh hne e _ _ (hR.pre _)).apply hc.1,
      openRange_chain s h hh hne e _ _ hb.2 (hR.pre _) hc.2⟩
  | .range a b il ih l, R', R, hb, hR, hc => by
    simp only [Tree.blankLayout, Bool.and_eq_true] at hb
    simp only [openRange, Tree.chainAt, Bool.and_eq_true, noName_tail'] at hc ⊢
    have hT := (hR.pre l.tail).cons (clCh ih)
    have hB := openRange_rel s h hh hne b _ _ hT
    exact ⟨⟨openRange_chain s h hh hne a _ _ hb.1.2 (hB.pre _) hc.1.1, hB.apply hc.1.2⟩,
      openRange_chain s h hh hne b _ _ hb.2 hT hc.2⟩
  | .orange .from e inc l, R', R, hb, hR, hc => by
    simp only [Tree.blankLayout, Bool.and_eq_true] at hb
    simp only [Tree.chainAt, Bool.and_eq_true] at hc
    simp only [openRange, Tree.chainAt, Bool.and_eq_true, noName_tail', chainAt_setTail, star_head_full,
      star_head_chain, List.append_assoc]
    refine ⟨⟨?_, ?_⟩, ?_⟩
    · exact openRange_chain s h hh hne e _ _ hb.2 (rel_blank hh hne _ _) hc.2
    · exact followOK_stop (stopStart_blank hh _ hne)
    · exact followOK_stop (stopStart_cons (stop_clCh true) _)
  | .orange .to e inc l, R', R, hb, hR, hc => by
    simp only [Tree.blankLayout, Bool.and_eq_true] at hb
    simp only [Tree.chainAt, Bool.and_eq_true] at hc
    simp only [openRange, Tree.chainAt, Bool.and_eq_true, noName_tail', chainAt_setHead, star_tail_chain]
    have hbe := blank_openRange false h hh e hb.2
    refine ⟨⟨?_, ?_⟩, ?_⟩
    · exact followOK_stop (stopStart_blank hh _ hne)
    · refine followOK_stop (stopStart_full_head s _ _ (blank_setHead_post _ h hbe hh) ?_
        (stopStart_cons (stop_clCh inc) _))
      simp [hne]
    · exact openRange_chain s h hh hne e _ _ hb.2 (rel_of_stop (stopStart_cons (stop_clCh inc) _) _) hc.2
  | .op k xs l, R', R, hb, hR, hc => by
    simp only [Tree.blankLayout, Bool.and_eq_true] at hb
    simp only [openRange, Bool.false_and, Bool.false_eq_true, if_false]
    cases xs with
    | nil => rfl
    | cons x r =>
      simp only [Tree.blankLayouts, Bool.and_eq_true] at hb
      simp only [openRangeList, Tree.chainAt, Bool.and_eq_true, noName_tail'] at hc ⊢
      exact ⟨openRange_chain s h hh hne x _ _ hb.2.1 (openRanges_rel s h hh hne k r _ _ (hR.pre _)) hc.1,
        openRanges_chain s h hh hne k r _ _ hb.2.2 (hR.pre _) hc.2⟩
theorem openRanges_chain (s : NumStyle) (h : Str) (hh : isBlank h = true) (hne : h ≠ []) (k : OpK) :
    ∀ (xs : List Tree) (R' R : Str), Tree.blankLayouts xs = true → Rel R' R →
      Tree.chainsTail s k xs R = true → Tree.chainsTail s k (openRangeList false h xs) R' = true
  | [], _, _, _, _, _ => rfl
  | x :: r, R', R, hb, hR, hc => by
    simp only [Tree.blankLayouts, Bool.and_eq_true] at hb
    simp only [openRangeList, Tree.chainsTail, Bool.and_eq_true] at hc ⊢
    have hr := openRanges_rel s h hh hne k r _ _ hR
    exact ⟨⟨opFollow_rel (openRange_rel s h hh hne x _ _ hr) hc.1.1,
      openRange_chain s h hh hne x _ _ hb.1 hr hc.1.2⟩, openRanges_chain s h hh hne k r _ _ hb.2 hR hc.2⟩
end

end Luqum
