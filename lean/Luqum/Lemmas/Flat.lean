/-
  Luqum.Lemmas.Flat — the flat text of a parse-stack value, the well-formedness predicates on a
  sequence of values (stack bottom first, then the remaining input), and rewriting lemmas about
  `setHead` / `setTail` / `full` / `body` / `joinWith` / `fulls`.
-/
import Luqum.Model.Parser

namespace Luqum

/-! ### trees: head / tail / body -/

def Tree.isNone : Tree → Bool
  | .none _ => true
  | _ => false

@[simp] theorem Tree.setHead_head (t : Tree) (h : Str) : (t.setHead h).head = h := by
  cases t <;> rfl
@[simp] theorem Tree.setHead_tail (t : Tree) (h : Str) : (t.setHead h).tail = t.tail := by
  cases t <;> rfl
@[simp] theorem Tree.setTail_head (t : Tree) (x : Str) : (t.setTail x).head = t.head := by
  cases t <;> rfl
@[simp] theorem Tree.setTail_tail (t : Tree) (x : Str) : (t.setTail x).tail = x := by
  cases t <;> rfl
@[simp] theorem Tree.setHead_body (s : NumStyle) (t : Tree) (h : Str) :
    (t.setHead h).body s = t.body s := by
  cases t <;> simp [Tree.setHead, Tree.setLay, Tree.body]
@[simp] theorem Tree.setTail_body (s : NumStyle) (t : Tree) (x : Str) :
    (t.setTail x).body s = t.body s := by
  cases t <;> simp [Tree.setTail, Tree.setLay, Tree.body]
@[simp] theorem Tree.setHead_isNone (t : Tree) (h : Str) : (t.setHead h).isNone = t.isNone := by
  cases t <;> rfl
@[simp] theorem Tree.setTail_isNone (t : Tree) (x : Str) : (t.setTail x).isNone = t.isNone := by
  cases t <;> rfl
@[simp] theorem Tree.setLay_lay (t : Tree) (l : Lay) : (t.setLay l).lay = l := by
  cases t <;> rfl
theorem Tree.head_eq (t : Tree) : t.head = t.lay.head := rfl
theorem Tree.tail_eq (t : Tree) : t.tail = t.lay.tail := rfl

/-- for every item but `NoneItem`: `full = head ++ body ++ tail` -/
theorem Tree.full_eq (s : NumStyle) (t : Tree) (h : t.isNone = false) :
    t.full s = t.head ++ t.body s ++ t.tail := by
  cases t <;> simp [Tree.full, Tree.body, Tree.head, Tree.tail, Tree.lay] at h ⊢
  all_goals simp [Tree.isNone] at h

theorem Tree.setHead_full (s : NumStyle) (t : Tree) (x : Str) (h : t.isNone = false) :
    (t.setHead x).full s = x ++ t.body s ++ t.tail := by
  rw [Tree.full_eq s _ (by simpa using h)]; simp

theorem Tree.setTail_full (s : NumStyle) (t : Tree) (x : Str) (h : t.isNone = false) :
    (t.setTail x).full s = t.head ++ t.body s ++ x := by
  rw [Tree.full_eq s _ (by simpa using h)]; simp

/-! ### joinWith / fulls -/

theorem joinWith_append (sep : Str) (xs ys : List Str) (hx : xs ≠ []) (hy : ys ≠ []) :
    joinWith sep (xs ++ ys) = joinWith sep xs ++ sep ++ joinWith sep ys := by
  induction xs with
  | nil => exact absurd rfl hx
  | cons x r ih =>
    cases r with
    | nil =>
      cases ys with
      | nil => exact absurd rfl hy
      | cons y s => simp [joinWith]
    | cons x2 r2 =>
      have := ih (by simp)
      simp [joinWith] at this ⊢
      simp [this]

theorem Tree.fulls_append (s : NumStyle) (xs ys : List Tree) :
    Tree.fulls s (xs ++ ys) = Tree.fulls s xs ++ Tree.fulls s ys := by
  induction xs with
  | nil => simp [Tree.fulls]
  | cons x r ih => simp [Tree.fulls, ih]

theorem Tree.fulls_ne (s : NumStyle) {xs : List Tree} (h : xs ≠ []) : Tree.fulls s xs ≠ [] := by
  cases xs with
  | nil => exact absurd rfl h
  | cons x r => simp [Tree.fulls]

/-- pushing text in front of the first element of a joined list -/
theorem joinWith_cons_push (sep p x : Str) (r : List Str) :
    joinWith sep ((p ++ x) :: r) = p ++ joinWith sep (x :: r) := by
  cases r <;> simp [joinWith]

/-! ### flat text of stack values -/

/-- the lexeme of a token value, recovered from kind and value -/
def tokText : TokK → Option Str → Str
  | .approx, v => '~' :: v.getD []
  | .boost, v => '^' :: v.getD []
  | _, v => v.getD []

/-- the source text a stack value stands for -/
def Val.flat : Val → Str
  | .tok k v => v.lay.head ++ tokText k v.value ++ v.lay.tail
  | .item t => t.full .raw

def flats (vs : List Val) : Str := (vs.map Val.flat).flatten

@[simp] theorem flats_nil : flats [] = [] := rfl
@[simp] theorem flats_cons (v : Val) (vs : List Val) : flats (v :: vs) = v.flat ++ flats vs := by
  simp [flats]
@[simp] theorem flats_append (xs ys : List Val) : flats (xs ++ ys) = flats xs ++ flats ys := by
  simp [flats]

/-! ### well-formedness of values -/

/-- the value of a token is consistent with its kind (printing re-creates the text of operators and
brackets from the node class) -/
def tokValOK : TokK → Option Str → Prop
  | .plus, v => v = some ['+']
  | .minus, v => v = some ['-']
  | .column, v => v = some [':']
  | .lparen, v => v = some ['(']
  | .rparen, v => v = some [')']
  | .lbracket, v => v = some ['['] ∨ v = some ['{']
  | .rbracket, v => v = some [']'] ∨ v = some ['}']
  | .lessthan, v => v = some ['<'] ∨ v = some ['<', '=']
  | .greaterthan, v => v = some ['>'] ∨ v = some ['>', '=']
  | .andOp, v => v = some "AND".toList
  | .orOp, v => v = some "OR".toList
  | .not, v => v = some "NOT".toList
  | .to, v => v = some "TO".toList
  | _, _ => True

/-- an item that may sit on the stack: never `NoneItem`; an operation has empty head and tail and a
first operand that is not `NoneItem` -/
def Tree.good : Tree → Prop
  | .none _ => False
  | .op _ [] _ => False
  | .op _ (x :: _) l => l.head = [] ∧ l.tail = [] ∧ x.isNone = false
  | _ => True

/-- an item that is not the first element of the sequence: empty head, and for an operation the
first operand has an empty head too -/
def Tree.nonFirst : Tree → Prop
  | .op _ (x :: _) l => l.head = [] ∧ x.head = []
  | t => t.lay.head = []

def Val.good : Val → Prop
  | .tok k v => tokValOK k v.value
  | .item t => t.good

def Val.nonFirst : Val → Prop
  | .tok _ v => v.lay.head = []
  | .item t => t.nonFirst

def Val.isColon : Val → Bool
  | .tok .column _ => true
  | _ => false

theorem Tree.good_not_none {t : Tree} (h : t.good) : t.isNone = false := by
  cases t <;> simp [Tree.good, Tree.isNone] at h ⊢

theorem Tree.nonFirst_head {t : Tree} (h : t.nonFirst) : t.head = [] := by
  unfold Tree.nonFirst at h
  split at h
  · exact h.1
  · exact h

theorem Val.nonFirst_head {v : Val} (h : v.nonFirst) : v.lay.head = [] := by
  cases v with
  | tok k v => exact h
  | item t => exact Tree.nonFirst_head h

/-- every element is well-formed -/
def AllGood (l : List Val) : Prop := ∀ v ∈ l, v.good
/-- every element is a non-first one -/
def AllNF (l : List Val) : Prop := ∀ v ∈ l, v.nonFirst
/-- whatever directly precedes a `:` token has an empty tail -/
def Adj : List Val → Prop
  | a :: b :: r => (b.isColon = true → a.lay.tail = []) ∧ Adj (b :: r)
  | _ => True

/-- the invariant on `stack (bottom first) ++ remaining input` -/
structure SeqOK (l : List Val) : Prop where
  good : AllGood l
  nf : AllNF l.tail
  adj : Adj l

@[simp] theorem adj_nil : Adj [] = True := rfl
@[simp] theorem adj_single (a : Val) : Adj [a] = True := rfl
theorem adj_cons_cons (a b : Val) (r : List Val) :
    Adj (a :: b :: r) = ((b.isColon = true → a.lay.tail = []) ∧ Adj (b :: r)) := rfl

theorem adj_append (xs ys : List Val) :
    Adj (xs ++ ys) ↔ Adj xs ∧ Adj ys ∧
      (∀ a b, xs.getLast? = some a → ys.head? = some b → b.isColon = true → a.lay.tail = []) := by
  induction xs with
  | nil => simp
  | cons x r ih =>
    cases r with
    | nil =>
      cases ys with
      | nil => simp
      | cons y s => simp [adj_cons_cons, and_comm]
    | cons x2 r2 =>
      have ih' := ih
      simp only [List.cons_append] at ih' ⊢
      rw [adj_cons_cons, adj_cons_cons, ih']
      simp only [List.getLast?_cons_cons]
      constructor
      · rintro ⟨h1, h2, h3, h4⟩; exact ⟨⟨h1, h2⟩, h3, h4⟩
      · rintro ⟨⟨h1, h2⟩, h3, h4⟩; exact ⟨h1, h2, h3, h4⟩

end Luqum
