/-
  Luqum.Lemmas.Propagate — lemmas for property C16: `MatchingPropagator._propagate` computes the
  boolean value of every visited sub-expression.

  Two independent halves:
  1. `vis`: the postorder list of the visited nodes with their paths; membership (`mem_vis`) and
     distinctness of the paths (`vis_distinct`) — no hypothesis on the tree;
  2. `propagate_eq`: under the invariant `Inv`, `propagate` returns the value `evalT` of the node and
     the visited paths split according to the value of their node (`okOf` / `koOf` of `vis`).
  The facts about the generated class tuples enter only through the hypothesis `CfgSpec` (they are
  proved in `Luqum.Props.C16`).
-/
import Luqum.Lemmas.PropagateDefs
namespace Luqum.Lemmas.Propagate
open Luqum Luqum.Lemmas.NamedPaths

mutual
/-- postorder enumeration of the nodes `_propagate` visits, with their paths (prefixed by `path`) -/
def vis (path : List Nat) : Tree → List (List Nat × Tree)
  | .term k v l => [(path, .term k v l)]
  | .none l => [(path, .none l)]
  | .range a b il ih l => [(path, .range a b il ih l)]
  | .approx k e n l => [(path, .approx k e n l)]
  | .field n e l => vis (path ++ [0]) e ++ [(path, .field n e l)]
  | .group k e l => vis (path ++ [0]) e ++ [(path, .group k e l)]
  | .boost e n l => vis (path ++ [0]) e ++ [(path, .boost e n l)]
  | .unary k e l => vis (path ++ [0]) e ++ [(path, .unary k e l)]
  | .orange k e i l => vis (path ++ [0]) e ++ [(path, .orange k e i l)]
  | .op k xs l => visList path 0 xs ++ [(path, .op k xs l)]
def visList (path : List Nat) (i : Nat) : List Tree → List (List Nat × Tree)
  | [] => []
  | x :: r => vis (path ++ [i]) x ++ visList path (i + 1) r
end

theorem visible_nil (t : Tree) : visible t [] = true := by simp [visible]

theorem visible_single (t e : Tree) (hc : t.children = [e]) (ha : isAtomic t = false) (q : List Nat) (n : Tree) :
    (t.at? q = some n ∧ visible t q = true) ↔
      (q = [] ∧ n = t) ∨ ∃ r, q = 0 :: r ∧ e.at? r = some n ∧ visible e r = true := by
  match q with
  | [] => simp [at?_nil, visible]; exact eq_comm
  | 0 :: r => simp [at?_cons, visible, hc, ha]
  | (_ + 1) :: r => simp [at?_cons, visible, hc]

private theorem mem_single (t e : Tree) (hc : t.children = [e]) (ha : isAtomic t = false)
    (path : List Nat) (x : List Nat × Tree) :
    ((∃ q, x.1 = path ++ [0] ++ q ∧ e.at? q = some x.2 ∧ visible e q = true) ∨ x = (path, t)) ↔
    ∃ q, x.1 = path ++ q ∧ t.at? q = some x.2 ∧ visible t q = true := by
  obtain ⟨p, n⟩ := x
  constructor
  · rintro (⟨q, h1, h2, h3⟩ | h)
    · exact ⟨0 :: q, by simpa using h1, (visible_single t e hc ha _ _).2 (Or.inr ⟨q, rfl, h2, h3⟩)⟩
    · simp at h; obtain ⟨rfl, rfl⟩ := h
      exact ⟨[], by simp, at?_nil _, visible_nil _⟩
  · rintro ⟨q, h1, h2⟩
    rcases (visible_single t e hc ha _ _).1 h2 with ⟨rfl, rfl⟩ | ⟨r, rfl, h3, h4⟩
    · right; simp at h1; simp [h1]
    · left; exact ⟨r, by simpa using h1, h3, h4⟩

private theorem mem_leaf (t : Tree) (hc : t.children = [] ∨ isAtomic t = true)
    (path : List Nat) (x : List Nat × Tree) :
    x = (path, t) ↔ ∃ q, x.1 = path ++ q ∧ t.at? q = some x.2 ∧ visible t q = true := by
  obtain ⟨p, n⟩ := x
  constructor
  · intro h; simp at h; obtain ⟨rfl, rfl⟩ := h
    exact ⟨[], by simp, at?_nil _, visible_nil _⟩
  · rintro ⟨q, h1, h2, h3⟩
    match q with
    | [] => simp [at?_nil] at h1 h2; simp [h1, h2]
    | i :: r =>
      rcases hc with hc | hc
      · simp [at?_cons, hc] at h2
      · simp [visible, hc] at h3

mutual
theorem mem_vis : ∀ (t : Tree) (path : List Nat) (x : List Nat × Tree),
    x ∈ vis path t ↔ ∃ q, x.1 = path ++ q ∧ t.at? q = some x.2 ∧ visible t q = true
  | .term .., path, x => by
      simp only [vis, List.mem_singleton]; exact mem_leaf _ (Or.inl rfl) path x
  | .none _, path, x => by
      simp only [vis, List.mem_singleton]; exact mem_leaf _ (Or.inl rfl) path x
  | .range .., path, x => by
      simp only [vis, List.mem_singleton]; exact mem_leaf _ (Or.inr rfl) path x
  | .approx .., path, x => by
      simp only [vis, List.mem_singleton]; exact mem_leaf _ (Or.inr rfl) path x
  | .field _ e _, path, x => by
      simp only [vis, List.mem_append, List.mem_singleton, mem_vis e]
      exact mem_single _ e rfl rfl path x
  | .group _ e _, path, x => by
      simp only [vis, List.mem_append, List.mem_singleton, mem_vis e]
      exact mem_single _ e rfl rfl path x
  | .boost e _ _, path, x => by
      simp only [vis, List.mem_append, List.mem_singleton, mem_vis e]
      exact mem_single _ e rfl rfl path x
  | .unary _ e _, path, x => by
      simp only [vis, List.mem_append, List.mem_singleton, mem_vis e]
      exact mem_single _ e rfl rfl path x
  | .orange _ e _ _, path, x => by
      simp only [vis, List.mem_append, List.mem_singleton, mem_vis e]
      exact mem_single _ e rfl rfl path x
  | .op k xs l, path, x => by
      simp only [vis, List.mem_append, List.mem_singleton, mem_visList xs path 0 x]
      obtain ⟨p, n⟩ := x
      constructor
      · rintro (⟨j, c, q, hc, h1, h2, h3⟩ | h)
        · refine ⟨j :: q, by simpa using h1, ?_, ?_⟩
          · simp [at?_cons, Tree.children, hc, h2]
          · simp [visible, Tree.children, hc, h3, isAtomic]
        · simp at h; obtain ⟨rfl, rfl⟩ := h
          exact ⟨[], by simp, at?_nil _, visible_nil _⟩
      · rintro ⟨q, h1, h2, h3⟩
        match q with
        | [] => simp [at?_nil] at h1 h2; simp [h1, h2]
        | j :: r =>
          simp only [at?_cons, Tree.children] at h2
          simp only [visible, Tree.children] at h3
          cases hc : xs[j]? with
          | none => simp [hc] at h2
          | some c =>
            simp [hc] at h2 h3
            exact Or.inl ⟨j, c, r, hc, by simpa using h1, h2, h3.2⟩
theorem mem_visList : ∀ (xs : List Tree) (path : List Nat) (i : Nat) (x : List Nat × Tree),
    x ∈ visList path i xs ↔
      ∃ j c q, xs[j]? = some c ∧ x.1 = path ++ [i + j] ++ q ∧ c.at? q = some x.2 ∧ visible c q = true
  | [], path, i, x => by simp [visList]
  | y :: rest, path, i, x => by
      simp only [visList, List.mem_append, mem_vis y, mem_visList rest path (i + 1) x]
      constructor
      · rintro (⟨q, h1, h2, h3⟩ | ⟨j, c, q, hc, h1, h2, h3⟩)
        · exact ⟨0, y, q, by simp, by simpa using h1, h2, h3⟩
        · exact ⟨j + 1, c, q, by simp [hc], by rw [h1]; simp; omega, h2, h3⟩
      · rintro ⟨j, c, q, hc, h1, h2, h3⟩
        cases j with
        | zero => simp at hc; subst hc; exact Or.inl ⟨q, by simpa using h1, h2, h3⟩
        | succ j => simp at hc; exact Or.inr ⟨j, c, q, hc, by rw [h1]; simp; omega, h2, h3⟩
end


/-- the paths enumerated by `vis` are pairwise different -/
abbrev DistinctPaths (l : List (List Nat × Tree)) : Prop := l.Pairwise (fun a b => a.1 ≠ b.1)

private theorem pw_snoc (l : List (List Nat × Tree)) (path : List Nat) (t : Tree)
    (h : DistinctPaths l) (hl : ∀ a ∈ l, ∃ k q, a.1 = path ++ k :: q) :
    DistinctPaths (l ++ [(path, t)]) := by
  refine List.pairwise_append.2 ⟨h, List.pairwise_singleton _ _, ?_⟩
  intro a ha b hb
  simp at hb; subst hb
  obtain ⟨k, q, hq⟩ := hl a ha
  intro he; simp at he; rw [he] at hq
  have := congrArg List.length hq; simp at this

mutual
theorem vis_distinct : ∀ (t : Tree) (path : List Nat), DistinctPaths (vis path t)
  | .term .., path => by simp [vis, DistinctPaths]
  | .none _, path => by simp [vis, DistinctPaths]
  | .range .., path => by simp [vis, DistinctPaths]
  | .approx .., path => by simp [vis, DistinctPaths]
  | .field _ e _, path => by
      simp only [vis]; refine pw_snoc _ _ _ (vis_distinct e _) ?_
      intro a ha; obtain ⟨q, h, -⟩ := (mem_vis e _ a).1 ha; exact ⟨0, q, by simpa using h⟩
  | .group _ e _, path => by
      simp only [vis]; refine pw_snoc _ _ _ (vis_distinct e _) ?_
      intro a ha; obtain ⟨q, h, -⟩ := (mem_vis e _ a).1 ha; exact ⟨0, q, by simpa using h⟩
  | .boost e _ _, path => by
      simp only [vis]; refine pw_snoc _ _ _ (vis_distinct e _) ?_
      intro a ha; obtain ⟨q, h, -⟩ := (mem_vis e _ a).1 ha; exact ⟨0, q, by simpa using h⟩
  | .unary _ e _, path => by
      simp only [vis]; refine pw_snoc _ _ _ (vis_distinct e _) ?_
      intro a ha; obtain ⟨q, h, -⟩ := (mem_vis e _ a).1 ha; exact ⟨0, q, by simpa using h⟩
  | .orange _ e _ _, path => by
      simp only [vis]; refine pw_snoc _ _ _ (vis_distinct e _) ?_
      intro a ha; obtain ⟨q, h, -⟩ := (mem_vis e _ a).1 ha; exact ⟨0, q, by simpa using h⟩
  | .op _ xs _, path => by
      simp only [vis]; refine pw_snoc _ _ _ (visList_distinct xs _ _) ?_
      intro a ha; obtain ⟨j, c, q, -, h, -⟩ := (mem_visList xs _ _ a).1 ha
      exact ⟨0 + j, q, by simpa using h⟩
theorem visList_distinct : ∀ (xs : List Tree) (path : List Nat) (i : Nat),
    DistinctPaths (visList path i xs)
  | [], path, i => by simp [visList, DistinctPaths]
  | y :: rest, path, i => by
      simp only [visList]
      refine List.pairwise_append.2 ⟨vis_distinct y _, visList_distinct rest _ _, ?_⟩
      intro a ha b hb he
      obtain ⟨q, h, -⟩ := (mem_vis y _ a).1 ha
      obtain ⟨j, c, q', -, h', -⟩ := (mem_visList rest _ _ b).1 hb
      rw [he, h'] at h
      simp at h; omega
end

/-- two entries of a path-distinct list with the same path are the same entry -/
theorem DistinctPaths.eq_of_fst_eq {l : List (List Nat × Tree)} (h : DistinctPaths l)
    {a b : List Nat × Tree} (ha : a ∈ l) (hb : b ∈ l) (he : a.1 = b.1) : a = b := by
  induction l with
  | nil => simp at ha
  | cons x r ih =>
    rw [DistinctPaths, List.pairwise_cons] at h
    rcases List.mem_cons.1 ha with rfl | ha' <;> rcases List.mem_cons.1 hb with rfl | hb'
    · rfl
    · exact absurd he (h.1 _ hb')
    · exact absurd he.symm (h.1 _ ha')
    · exact ih h.2 ha' hb'


/-! ### the result lists as filters of `vis` -/

/-- the paths of the entries whose node evaluates to true -/
def okOf (d : Bool) (τ : List Nat → Bool) (l : List (List Nat × Tree)) : List (List Nat) :=
  (l.filter (fun x => evalT d τ x.1 x.2)).map (·.1)
/-- the paths of the entries whose node evaluates to false -/
def koOf (d : Bool) (τ : List Nat → Bool) (l : List (List Nat × Tree)) : List (List Nat) :=
  (l.filter (fun x => !evalT d τ x.1 x.2)).map (·.1)

theorem okOf_nil (d τ) : okOf d τ [] = [] := rfl
theorem koOf_nil (d τ) : koOf d τ [] = [] := rfl
theorem okOf_append (d τ) (a b : List (List Nat × Tree)) :
    okOf d τ (a ++ b) = okOf d τ a ++ okOf d τ b := by simp [okOf]
theorem koOf_append (d τ) (a b : List (List Nat × Tree)) :
    koOf d τ (a ++ b) = koOf d τ a ++ koOf d τ b := by simp [koOf]
theorem okOf_single (d τ) (p : List Nat) (t : Tree) :
    okOf d τ [(p, t)] = if evalT d τ p t = true then [p] else [] := by
  simp only [okOf, List.filter_cons, List.filter_nil]; split <;> simp
theorem koOf_single (d τ) (p : List Nat) (t : Tree) :
    koOf d τ [(p, t)] = if evalT d τ p t = true then [] else [p] := by
  simp only [koOf, List.filter_cons, List.filter_nil]; cases evalT d τ p t <;> simp

theorem mem_okOf (d τ) (l : List (List Nat × Tree)) (p : List Nat) :
    p ∈ okOf d τ l ↔ ∃ n, (p, n) ∈ l ∧ evalT d τ p n = true := by
  simp [okOf]
theorem mem_koOf (d τ) (l : List (List Nat × Tree)) (p : List Nat) :
    p ∈ koOf d τ l ↔ ∃ n, (p, n) ∈ l ∧ evalT d τ p n = false := by
  simp [koOf]

/-- the two result lists together have no duplicate -/
theorem okOf_koOf_pairwise (d τ) (l : List (List Nat × Tree)) (h : DistinctPaths l) :
    (okOf d τ l ++ koOf d τ l).Pairwise (· ≠ ·) := by
  have hmap : ∀ f : List Nat × Tree → Bool, ((l.filter f).map (·.1)).Pairwise (· ≠ ·) := by
    intro f
    rw [List.pairwise_map]
    exact List.Pairwise.sublist List.filter_sublist h
  refine List.pairwise_append.2 ⟨hmap _, hmap _, ?_⟩
  intro a ha b hb he
  obtain ⟨n, hn, hv⟩ := (mem_okOf d τ l a).1 ha
  obtain ⟨n', hn', hv'⟩ := (mem_koOf d τ l b).1 hb
  subst he
  have := h.eq_of_fst_eq hn hn' rfl
  simp at this; subst this; simp [hv] at hv'

/-! ### one step of `_propagate` -/

/-- the status of a node, given the statuses of its visited children -/
def nodeVal (cfg : PropCfg) (m o : List (List Nat)) (path : List Nat) (t : Tree) (ss : List Bool) :
    Bool :=
  let nodeOk0 :=
    if m.contains path then true
    else if !ss.isEmpty then
      if isInstanceOf cfg.orNodes t then ss.any id else ss.all id
    else statusFromParent m o (path.length + 1) path
  if isInstanceOf cfg.negNodes t then !nodeOk0 else nodeOk0

/-- what `_propagate` does once the children are visited -/
def step (cfg : PropCfg) (m o : List (List Nat)) (path : List Nat) (t : Tree)
    (st : List Bool × List (List Nat) × List (List Nat)) : Bool × List (List Nat) × List (List Nat) :=
  let nodeOk0 :=
    if m.contains path then true
    else if !st.1.isEmpty then
      if isInstanceOf cfg.orNodes t then st.1.any id else st.1.all id
    else statusFromParent m o (path.length + 1) path
  let nodeOk := if isInstanceOf cfg.negNodes t then !nodeOk0 else nodeOk0
  if nodeOk then (nodeOk, st.2.1 ++ [path], st.2.2) else (nodeOk, st.2.1, st.2.2 ++ [path])

theorem step_eq (cfg : PropCfg) (m o : List (List Nat)) (path : List Nat) (t : Tree)
    (ss : List Bool) (ok ko : List (List Nat)) (v : Bool) (hv : nodeVal cfg m o path t ss = v) :
    step cfg m o path t (ss, ok, ko) =
      (v, ok ++ (if v = true then [path] else []), ko ++ (if v = true then [] else [path])) := by
  subst hv
  show (if nodeVal cfg m o path t ss = true then _ else _) = _
  cases h : nodeVal cfg m o path t ss
  · simp only [Bool.false_eq_true, if_false, List.append_nil]
    show (nodeVal cfg m o path t ss, ok, ko ++ [path]) = _
    rw [h]
  · simp only [if_true, List.append_nil]
    show (nodeVal cfg m o path t ss, ok ++ [path], ko) = _
    rw [h]

theorem propagate_stop (cfg : PropCfg) (m o : List (List Nat)) (path : List Nat) (t : Tree)
    (h : (!t.children.isEmpty && !isInstanceOf cfg.noDescend t) = false) :
    propagate cfg m o path t = step cfg m o path t ([], [], []) := by
  cases t <;> rw [propagate] <;> first | (simp only [h, step]; rfl) | (intros; contradiction)

/-- single-operand nodes that are descended -/
theorem propagate_single (cfg : PropCfg) (m o : List (List Nat)) (path : List Nat) (t e : Tree)
    (hc : t.children = [e]) (ho : isOp t = false) (h : isInstanceOf cfg.noDescend t = false) :
    propagate cfg m o path t = step cfg m o path t
      ([(propagate cfg m o (path ++ [0]) e).1], (propagate cfg m o (path ++ [0]) e).2.1,
        (propagate cfg m o (path ++ [0]) e).2.2) := by
  cases t <;> simp [Tree.children, isOp] at hc ho
  all_goals (subst hc; rw [propagate]; simp only [h, step, Tree.children]; rfl)

theorem propagate_op (cfg : PropCfg) (m o : List (List Nat)) (path : List Nat) (k : OpK)
    (x : Tree) (xs : List Tree) (l : Lay)
    (h : isInstanceOf cfg.noDescend (.op k (x :: xs) l) = false) :
    propagate cfg m o path (.op k (x :: xs) l) = step cfg m o path (.op k (x :: xs) l)
      (propagateList cfg m o path 0 (x :: xs)) := by
  rw [propagate]
  simp only [h, step, Tree.children]
  rfl


/-! ### structural lemmas on `cover`, `negFree`, `opFree`, `good` -/

theorem good_mono : ∀ (t : Tree), good true t = true → good false t = true
  | .term .., _ => by simp [good]
  | .none _, h => by simp [good] at h
  | .range .., h => by simpa [good] using h
  | .approx .., h => by simpa [good] using h
  | .field .., h => by simpa [good] using h
  | .group .., h => by simpa [good] using h
  | .boost .., h => by simpa [good] using h
  | .orange .., h => by simpa [good] using h
  | .op .., h => by simpa [good] using h
  | .unary .plus _ _, h => by simpa [good] using h
  | .unary .not _ _, h => by simp [good] at h ⊢; exact h.2
  | .unary .prohibit _ _, h => by simp [good] at h ⊢; exact h.2

/-- the single operand of a (visited) non-operation node is in `below` mode -/
theorem good_child (b : Bool) (t e : Tree) (hc : t.children = [e]) (ho : isOp t = false)
    (ha : isAtomic t = false) (h : good b t = true) : good true e = true := by
  cases t <;> simp_all [Tree.children, isOp, isAtomic, good]
  rename_i k _ _; cases k <;> simp_all [good]

theorem cover_child (t e : Tree) (hc : t.children = [e]) (ho : isOp t = false)
    (ha : isAtomic t = false) : cover t = (cover e).map (0 :: ·) := by
  cases t <;> simp_all [Tree.children, isOp, isAtomic, cover]

theorem good_negFree : ∀ (t : Tree), good true t = true → negFree t = true
  | .term .., _ => by simp [negFree]
  | .none _, _ => by simp [negFree]
  | .range .., _ => by simp [negFree]
  | .approx .., _ => by simp [negFree]
  | .op .., _ => by simp [negFree]
  | .field _ e _, h => by simp only [good] at h; simpa [negFree] using good_negFree e h
  | .group _ e _, h => by simp only [good] at h; simpa [negFree] using good_negFree e h
  | .boost e _ _, h => by simp only [good] at h; simpa [negFree] using good_negFree e h
  | .orange _ e _ _, h => by simp only [good] at h; simpa [negFree] using good_negFree e h
  | .unary .plus e _, h => by simp only [good] at h; simpa [negFree] using good_negFree e h
  | .unary .not e _, h => by simp [good] at h; simp [negFree, h.1]
  | .unary .prohibit e _, h => by simp [good] at h; simp [negFree, h.1]

/-- **chain lemma**: without negation on the chain, an element has the value of the term it covers -/
theorem evalT_cover (d : Bool) (τ : List Nat → Bool) : ∀ (t : Tree) (p c : List Nat),
    negFree t = true → cover t = some c → evalT d τ p t = τ (p ++ c)
  | .term .., p, c, _, hc => by simp [cover] at hc; subst hc; simp [evalT]
  | .range .., p, c, _, hc => by simp [cover] at hc; subst hc; simp [evalT]
  | .approx .., p, c, _, hc => by simp [cover] at hc; subst hc; simp [evalT]
  | .none _, p, c, _, hc => by simp [cover] at hc
  | .op .., p, c, _, hc => by simp [cover] at hc
  | .field _ e _, p, c, hn, hc => by
      simp [cover] at hc; obtain ⟨c', hc', rfl⟩ := hc
      simp only [negFree] at hn
      simp [evalT, evalT_cover d τ e (p ++ [0]) c' hn hc']
  | .group _ e _, p, c, hn, hc => by
      simp [cover] at hc; obtain ⟨c', hc', rfl⟩ := hc
      simp only [negFree] at hn
      simp [evalT, evalT_cover d τ e (p ++ [0]) c' hn hc']
  | .boost e _ _, p, c, hn, hc => by
      simp [cover] at hc; obtain ⟨c', hc', rfl⟩ := hc
      simp only [negFree] at hn
      simp [evalT, evalT_cover d τ e (p ++ [0]) c' hn hc']
  | .orange _ e _ _, p, c, hn, hc => by
      simp [cover] at hc; obtain ⟨c', hc', rfl⟩ := hc
      simp only [negFree] at hn
      simp [evalT, evalT_cover d τ e (p ++ [0]) c' hn hc']
  | .unary .plus e _, p, c, hn, hc => by
      simp [cover] at hc; obtain ⟨c', hc', rfl⟩ := hc
      simp only [negFree] at hn
      simp [evalT, evalT_cover d τ e (p ++ [0]) c' hn hc']
  | .unary .not e _, p, c, hn, hc => by
      simp [cover] at hc; obtain ⟨c', hc', rfl⟩ := hc
      simp [negFree, hc'] at hn
  | .unary .prohibit e _, p, c, hn, hc => by
      simp [cover] at hc; obtain ⟨c', hc', rfl⟩ := hc
      simp [negFree, hc'] at hn

/-- **chain lemma for operations**: without negation on the chain, an element has the value of the
operation it covers -/
theorem evalT_coverOp (d : Bool) (τ : List Nat → Bool) : ∀ (t : Tree) (p c : List Nat) (o : Tree),
    negFreeOp t = true → coverOp t = some c → t.at? c = some o → evalT d τ p t = evalT d τ (p ++ c) o
  | .op .., p, c, o, _, hc, ho => by
      simp [coverOp] at hc; subst hc; simp [at?_nil] at ho; subst ho; simp
  | .term .., p, c, o, _, hc, _ => by simp [coverOp] at hc
  | .range .., p, c, o, _, hc, _ => by simp [coverOp] at hc
  | .approx .., p, c, o, _, hc, _ => by simp [coverOp] at hc
  | .none _, p, c, o, _, hc, _ => by simp [coverOp] at hc
  | .field _ e _, p, c, o, hn, hc, ho => by
      simp [coverOp] at hc; obtain ⟨c', hc', rfl⟩ := hc
      simp only [negFreeOp] at hn
      simp [at?_cons, Tree.children] at ho
      simp [evalT, evalT_coverOp d τ e (p ++ [0]) c' o hn hc' ho]
  | .group _ e _, p, c, o, hn, hc, ho => by
      simp [coverOp] at hc; obtain ⟨c', hc', rfl⟩ := hc
      simp only [negFreeOp] at hn
      simp [at?_cons, Tree.children] at ho
      simp [evalT, evalT_coverOp d τ e (p ++ [0]) c' o hn hc' ho]
  | .boost e _ _, p, c, o, hn, hc, ho => by
      simp [coverOp] at hc; obtain ⟨c', hc', rfl⟩ := hc
      simp only [negFreeOp] at hn
      simp [at?_cons, Tree.children] at ho
      simp [evalT, evalT_coverOp d τ e (p ++ [0]) c' o hn hc' ho]
  | .orange _ e _ _, p, c, o, hn, hc, ho => by
      simp [coverOp] at hc; obtain ⟨c', hc', rfl⟩ := hc
      simp only [negFreeOp] at hn
      simp [at?_cons, Tree.children] at ho
      simp [evalT, evalT_coverOp d τ e (p ++ [0]) c' o hn hc' ho]
  | .unary .plus e _, p, c, o, hn, hc, ho => by
      simp [coverOp] at hc; obtain ⟨c', hc', rfl⟩ := hc
      simp only [negFreeOp] at hn
      simp [at?_cons, Tree.children] at ho
      simp [evalT, evalT_coverOp d τ e (p ++ [0]) c' o hn hc' ho]
  | .unary .not e _, p, c, o, hn, _, _ => by simp [negFreeOp] at hn
  | .unary .prohibit e _, p, c, o, hn, _, _ => by simp [negFreeOp] at hn

/-- when no negation lies strictly between an element and the operation it covers, the value of the
element before its own negation is the value of that operation -/
theorem preVal_coverOp (d : Bool) (τ : List Nat → Bool) : ∀ (t : Tree) (p c : List Nat) (o : Tree),
    negFreeBelow t = true → coverOp t = some c → t.at? c = some o →
    preVal d τ p t = evalT d τ (p ++ c) o
  | .op .., p, c, o, _, hc, ho => by
      simp [coverOp] at hc; subst hc; simp [at?_nil] at ho; subst ho; simp [preVal, isNeg]
  | .term .., p, c, o, _, hc, _ => by simp [coverOp] at hc
  | .range .., p, c, o, _, hc, _ => by simp [coverOp] at hc
  | .approx .., p, c, o, _, hc, _ => by simp [coverOp] at hc
  | .none _, p, c, o, _, hc, _ => by simp [coverOp] at hc
  | .field _ e _, p, c, o, hn, hc, ho => by
      simp [coverOp] at hc; obtain ⟨c', hc', rfl⟩ := hc
      simp only [negFreeBelow] at hn
      simp [at?_cons, Tree.children] at ho
      simp [preVal, isNeg, evalT, evalT_coverOp d τ e (p ++ [0]) c' o hn hc' ho]
  | .group _ e _, p, c, o, hn, hc, ho => by
      simp [coverOp] at hc; obtain ⟨c', hc', rfl⟩ := hc
      simp only [negFreeBelow] at hn
      simp [at?_cons, Tree.children] at ho
      simp [preVal, isNeg, evalT, evalT_coverOp d τ e (p ++ [0]) c' o hn hc' ho]
  | .boost e _ _, p, c, o, hn, hc, ho => by
      simp [coverOp] at hc; obtain ⟨c', hc', rfl⟩ := hc
      simp only [negFreeBelow] at hn
      simp [at?_cons, Tree.children] at ho
      simp [preVal, isNeg, evalT, evalT_coverOp d τ e (p ++ [0]) c' o hn hc' ho]
  | .orange _ e _ _, p, c, o, hn, hc, ho => by
      simp [coverOp] at hc; obtain ⟨c', hc', rfl⟩ := hc
      simp only [negFreeBelow] at hn
      simp [at?_cons, Tree.children] at ho
      simp [preVal, isNeg, evalT, evalT_coverOp d τ e (p ++ [0]) c' o hn hc' ho]
  | .unary k e _, p, c, o, hn, hc, ho => by
      simp [coverOp] at hc; obtain ⟨c', hc', rfl⟩ := hc
      simp only [negFreeBelow] at hn
      simp [at?_cons, Tree.children] at ho
      cases k <;> simp [preVal, isNeg, evalT, evalT_coverOp d τ e (p ++ [0]) c' o hn hc' ho]

theorem opFree_isOp (t : Tree) (h : opFree t = true) : isOp t = false := by
  cases t <;> simp [opFree, isOp] at h ⊢

theorem opFree_child (t c : Tree) (i : Nat) (h : opFree t = true) (hc : t.children[i]? = some c) :
    opFree c = true := by
  cases t <;> simp [Tree.children, opFree] at hc h
  case range =>
    match i, hc with
    | 0, hc => simp at hc; subst hc; exact h.1
    | 1, hc => simp at hc; subst hc; exact h.2
    | _ + 2, hc => simp at hc
  all_goals (cases i <;> simp at hc; subst hc; exact h)

theorem opFree_no_operand (p : List Nat) : ∀ (t : Tree), opFree t = true → isOperand t p = false := by
  induction p with
  | nil => intro t _; simp [isOperand]
  | cons i r ih =>
    intro t h
    simp only [isOperand]
    cases hc : t.children[i]? with
    | none => rfl
    | some c => simp [opFree_isOp t h, ih c (opFree_child t c i h hc)]

/-- an element that covers a term contains no operand -/
theorem cover_no_operand : ∀ (b : Bool) (t : Tree) (c : List Nat), good b t = true → cover t = some c →
    ∀ p, isOperand t p = false
  | _, .term .., _, _, _, p => by cases p <;> simp [isOperand, Tree.children]
  | _, .none _, _, _, hc, _ => by simp [cover] at hc
  | _, .op .., _, _, hc, _ => by simp [cover] at hc
  | _, .range a b' _ _ _, _, hg, _, p => by
      apply opFree_no_operand; simpa [good, opFree] using hg
  | _, .approx _ e _ _, _, hg, _, p => by
      apply opFree_no_operand; simpa [good, opFree] using hg
  | b, .field n e l, c, hg, hc, p => by
      have hg' := good_child b _ e rfl rfl rfl hg
      simp [cover] at hc; obtain ⟨c', hc', -⟩ := hc
      cases h : isOperand (.field n e l) p
      · rfl
      · obtain ⟨r, -, hr⟩ := (isOperand_single _ e rfl rfl p).1 h
        simp [cover_no_operand true e c' hg' hc' r] at hr
  | b, .group n e l, c, hg, hc, p => by
      have hg' := good_child b _ e rfl rfl rfl hg
      simp [cover] at hc; obtain ⟨c', hc', -⟩ := hc
      cases h : isOperand (.group n e l) p
      · rfl
      · obtain ⟨r, -, hr⟩ := (isOperand_single _ e rfl rfl p).1 h
        simp [cover_no_operand true e c' hg' hc' r] at hr
  | b, .boost e n l, c, hg, hc, p => by
      have hg' := good_child b _ e rfl rfl rfl hg
      simp [cover] at hc; obtain ⟨c', hc', -⟩ := hc
      cases h : isOperand (.boost e n l) p
      · rfl
      · obtain ⟨r, -, hr⟩ := (isOperand_single _ e rfl rfl p).1 h
        simp [cover_no_operand true e c' hg' hc' r] at hr
  | b, .orange k e n l, c, hg, hc, p => by
      have hg' := good_child b _ e rfl rfl rfl hg
      simp [cover] at hc; obtain ⟨c', hc', -⟩ := hc
      cases h : isOperand (.orange k e n l) p
      · rfl
      · obtain ⟨r, -, hr⟩ := (isOperand_single _ e rfl rfl p).1 h
        simp [cover_no_operand true e c' hg' hc' r] at hr
  | b, .unary k e l, c, hg, hc, p => by
      have hg' := good_child b _ e rfl rfl rfl hg
      simp [cover] at hc; obtain ⟨c', hc', -⟩ := hc
      cases h : isOperand (.unary k e l) p
      · rfl
      · obtain ⟨r, -, hr⟩ := (isOperand_single _ e rfl rfl p).1 h
        simp [cover_no_operand true e c' hg' hc' r] at hr

theorem goods_get : ∀ (xs : List Tree) (j : Nat) (c : Tree), goods xs = true → xs[j]? = some c →
    good false c = true
  | [], _, _, _, h => by simp at h
  | x :: r, 0, c, hg, h => by simp at h; subst h; simp [goods] at hg; exact hg.1
  | x :: r, j + 1, c, hg, h => by
      simp at h; simp [goods] at hg; exact goods_get r j c hg.2 h


/-! ### `_status_from_parent` -/

theorem sfp_succ (m o : List (List Nat)) (n : Nat) (path : List Nat) :
    statusFromParent m o (n + 1) path =
      if path ∈ m then true else if path ∈ o then false else if path = [] then false
      else statusFromParent m o n path.dropLast := by
  simp [statusFromParent]

/-- a path that is neither matching nor other inherits the status of its parent -/
theorem sfp_child (m o : List (List Nat)) (path : List Nat) (i : Nat)
    (hm : path ++ [i] ∉ m) (ho : path ++ [i] ∉ o) :
    statusFromParent m o ((path ++ [i]).length + 1) (path ++ [i]) =
      statusFromParent m o (path.length + 1) path := by
  rw [sfp_succ]; simp [hm, ho]

/-! ### the context: the class tests, and the two lists handed to the propagator -/

/-- what the proof uses of the class tuples of the propagator -/
structure CfgSpec (cfg : PropCfg) (d : Bool) : Prop where
  orNodes : ∀ t, isInstanceOf cfg.orNodes t = isOrNode d t
  negNodes : ∀ t, isInstanceOf cfg.negNodes t = isNeg t
  noDescend : ∀ t, isInstanceOf cfg.noDescend t = isAtomic t

/-- what the proof needs of `matching` / `other`: both list named elements only; a named element
which covers a term is in `matching` when the term is true and in `other` when it is not; a named
element which covers no term (it covers an operation) may be in `other` or in neither, and is in
`matching` only if its value, before its own negation, is true -/
structure Ctx (d : Bool) (τ : List Nat → Bool) (T : Tree) (m o : List (List Nat)) : Prop where
  sub_m : ∀ p, p ∈ m → p ∈ named T
  sub_o : ∀ p, p ∈ o → p ∈ named T
  term_m : ∀ p t c, p ∈ named T → T.at? p = some t → cover t = some c → (p ∈ m ↔ τ (p ++ c) = true)
  term_o : ∀ p t c, p ∈ named T → T.at? p = some t → cover t = some c → (p ∈ o ↔ τ (p ++ c) = false)
  oper : ∀ p t, p ∈ m → T.at? p = some t → cover t = none → preVal d τ p t = true

/-- the special case of the statement of the property: `matching` / `other` = the named elements of
`T` whose covered term is true / is not (those which cover an operation are all in `other`) -/
theorem Ctx.of_iff {d : Bool} {τ : List Nat → Bool} {T : Tree} {m o : List (List Nat)}
    (hm : ∀ p, p ∈ m ↔ p ∈ named T ∧ coverVal τ T p = true)
    (ho : ∀ p, p ∈ o ↔ p ∈ named T ∧ coverVal τ T p = false) : Ctx d τ T m o := by
  refine ⟨fun p h => ((hm p).1 h).1, fun p h => ((ho p).1 h).1, ?_, ?_, ?_⟩
  · intro p t c hn hat hc
    rw [hm]; simp [coverVal, hat, hc, hn]
  · intro p t c hn hat hc
    rw [ho]; simp [coverVal, hat, hc, hn]
  · intro p t hp hat hc
    have := ((hm p).1 hp).2
    simp [coverVal, hat, hc] at this

/-- the invariant of the traversal: `t` is the node of `T` at `path`; it satisfies the tree
hypotheses; if it covers a term, the status it inherits (from itself or the nearest named ancestor)
is the truth of that term; and if it is reported matching without covering a term, its value
before its own negation is true -/
structure Inv (d : Bool) (τ : List Nat → Bool) (T : Tree) (m o : List (List Nat)) (path : List Nat)
    (t : Tree) : Prop where
  at_ : T.at? path = some t
  good : good false t = true
  status : ∀ c, cover t = some c → statusFromParent m o (path.length + 1) path = τ (path ++ c)
  matched : path ∈ m → cover t = none → preVal d τ path t = true

theorem not_named_child (T t : Tree) (path : List Nat) (i : Nat) (hat : T.at? path = some t)
    (ho : isOp t = false) : path ++ [i] ∉ named T := by
  rw [mem_named, isOperand_iff]
  rintro (⟨q, j, k, xs, l, hp, hq, -⟩ | ⟨h, -⟩)
  · obtain ⟨rfl, -⟩ := List.append_inj' hp rfl
    rw [hat] at hq; cases hq; simp [isOp] at ho
  · simp at h

theorem named_child (T : Tree) (path : List Nat) (i : Nat) (k : OpK) (xs : List Tree) (l : Lay)
    (hat : T.at? path = some (.op k xs l)) (hi : i < xs.length) : path ++ [i] ∈ named T := by
  rw [mem_named, isOperand_iff]
  exact Or.inl ⟨path, i, k, xs, l, rfl, hat, hi⟩

theorem at?_child (T t c : Tree) (path : List Nat) (i : Nat) (hat : T.at? path = some t)
    (hc : t.children[i]? = some c) : T.at? (path ++ [i]) = some c := by
  simp [at?_append, hat, at?_cons, hc, at?_nil]

section
variable {d : Bool} {τ : List Nat → Bool} {T : Tree} {m o : List (List Nat)}

/-- a named element satisfies the invariant -/
theorem Inv.of_named (C : Ctx d τ T m o) (path : List Nat) (t : Tree) (hn : path ∈ named T)
    (hat : T.at? path = some t) (hg : Propagate.good false t = true) : Inv d τ T m o path t := by
  refine ⟨hat, hg, ?_, fun hm hc => C.oper path t hm hat hc⟩
  intro c hc
  rw [sfp_succ]
  cases hv : τ (path ++ c)
  · have h1 : path ∉ m := by rw [C.term_m path t c hn hat hc]; simp [hv]
    have h2 : path ∈ o := by rw [C.term_o path t c hn hat hc]; simp [hv]
    simp [h1, h2]
  · have h1 : path ∈ m := by rw [C.term_m path t c hn hat hc]; simp [hv]
    simp [h1]

/-- the operand of a visited single-operand node satisfies the invariant -/
theorem Inv.child (C : Ctx d τ T m o) (path : List Nat) (t e : Tree) (I : Inv d τ T m o path t)
    (hc : t.children = [e]) (hop : isOp t = false) (ha : isAtomic t = false) :
    Inv d τ T m o (path ++ [0]) e := by
  have hg := good_child false t e hc hop ha I.good
  have hnn := not_named_child T t path 0 I.at_ hop
  have h1 : path ++ [0] ∉ m := fun h => hnn (C.sub_m _ h)
  have h2 : path ++ [0] ∉ o := fun h => hnn (C.sub_o _ h)
  refine ⟨at?_child T t e path 0 I.at_ (by simp [hc]), good_mono e hg, ?_, fun h => absurd h h1⟩
  intro c hce
  rw [sfp_child m o path 0 h1 h2, I.status (0 :: c) (by simp [cover_child t e hc hop ha, hce])]
  simp

/-- the operands of an operation satisfy the invariant -/
theorem Inv.operand (C : Ctx d τ T m o) (path : List Nat) (k : OpK) (xs : List Tree) (l : Lay)
    (I : Inv d τ T m o path (.op k xs l)) (j : Nat) (c : Tree) (hc : xs[j]? = some c) :
    Inv d τ T m o (path ++ [j]) c := by
  have hj : j < xs.length := (List.getElem?_eq_some_iff.1 hc).1
  have hg : goods xs = true := by have := I.good; simp [Propagate.good] at this; exact this.2
  exact Inv.of_named C _ c (named_child T path j k xs l I.at_ hj)
    (at?_child T _ c path j I.at_ (by simpa [Tree.children] using hc)) (goods_get xs j c hg hc)

/-- a visited single-operand node reported matching has a true operand -/
theorem Inv.match_child (path : List Nat) (t e : Tree) (I : Inv d τ T m o path t)
    (hc : t.children = [e]) (hop : isOp t = false) (ha : isAtomic t = false)
    (hev : evalT d τ path t = if isNeg t = true then !evalT d τ (path ++ [0]) e
      else evalT d τ (path ++ [0]) e) (hm : path ∈ m) :
    evalT d τ (path ++ [0]) e = true := by
  have hg := good_child false t e hc hop ha I.good
  have hcov := cover_child t e hc hop ha
  cases hce : cover e with
  | none =>
    have := I.matched hm (by simp [hcov, hce])
    rw [preVal, hev] at this
    cases hneg : isNeg t <;> simpa [hneg] using this
  | some c =>
    rw [evalT_cover d τ e _ c (good_negFree e hg) hce]
    have := I.status (0 :: c) (by simp [hcov, hce])
    rw [sfp_succ] at this; simp [hm] at this
    simpa using this.symm

/-- the root satisfies the invariant -/
theorem Inv.root (C : Ctx d τ T m o) (hg : Propagate.good false T = true) : Inv d τ T m o [] T := by
  cases h : hasOperand T
  · exact Inv.of_named C [] T ((mem_named T []).2 (Or.inr ⟨rfl, h⟩)) (at?_nil T) hg
  · have hnn : [] ∉ named T := by rw [mem_named]; simp [h, isOperand]
    have h1 : [] ∉ m := fun h => hnn (C.sub_m _ h)
    obtain ⟨p, hp⟩ := (hasOperand_iff T).1 h
    refine ⟨at?_nil T, hg, ?_, fun h => absurd h h1⟩
    intro c hc
    simp [cover_no_operand false T c hg hc p] at hp

end


/-! ### the status computed at a node -/

section
variable {cfg : PropCfg} {d : Bool}

theorem nodeVal_leaf (S : CfgSpec cfg d) (m o : List (List Nat)) (path : List Nat) (t : Tree)
    (hn : isNeg t = false) :
    nodeVal cfg m o path t [] = statusFromParent m o (path.length + 1) path := by
  simp only [nodeVal, S.negNodes, hn]
  rw [sfp_succ]
  by_cases h : path ∈ m <;> simp [h]

theorem nodeVal_single (S : CfgSpec cfg d) (m o : List (List Nat)) (path : List Nat) (t : Tree)
    (s : Bool) (hs : path ∈ m → s = true) :
    nodeVal cfg m o path t [s] = if isNeg t = true then !s else s := by
  simp only [nodeVal, S.negNodes]
  by_cases h : path ∈ m
  · simp [h, hs h]
  · simp [h]

theorem nodeVal_op (S : CfgSpec cfg d) (m o : List (List Nat)) (path : List Nat) (t : Tree)
    (s : Bool) (ss : List Bool) (hn : isNeg t = false) (hm : path ∉ m) :
    nodeVal cfg m o path t (s :: ss) =
      if isOrNode d t = true then (s :: ss).any id else (s :: ss).all id := by
  simp [nodeVal, S.negNodes, S.orNodes, hn, hm]

/-- the override: a node reported matching (and not a negation) is matching -/
theorem nodeVal_matched (S : CfgSpec cfg d) (m o : List (List Nat)) (path : List Nat) (t : Tree)
    (ss : List Bool) (hn : isNeg t = false) (hm : path ∈ m) :
    nodeVal cfg m o path t ss = true := by
  simp [nodeVal, S.negNodes, hn, hm]

/-! ### the main equation -/

variable {τ : List Nat → Bool} {T : Tree} {m o : List (List Nat)}

private theorem single_case (S : CfgSpec cfg d) (path : List Nat) (t e : Tree)
    (I : Inv d τ T m o path t) (hc : t.children = [e]) (hop : isOp t = false)
    (ha : isAtomic t = false)
    (hvis : vis path t = vis (path ++ [0]) e ++ [(path, t)])
    (hev : evalT d τ path t = if isNeg t = true then !evalT d τ (path ++ [0]) e
      else evalT d τ (path ++ [0]) e)
    (ih : propagate cfg m o (path ++ [0]) e =
      (evalT d τ (path ++ [0]) e, okOf d τ (vis (path ++ [0]) e), koOf d τ (vis (path ++ [0]) e))) :
    propagate cfg m o path t = (evalT d τ path t, okOf d τ (vis path t), koOf d τ (vis path t)) := by
  rw [propagate_single cfg m o path t e hc hop (by rw [S.noDescend, ha]), ih]
  rw [step_eq cfg m o path t _ _ _ (evalT d τ path t)]
  · simp only [hvis, okOf_append, koOf_append, okOf_single, koOf_single]
  · rw [nodeVal_single S m o path t _ (Inv.match_child path t e I hc hop ha hev), hev]

private theorem leaf_case (S : CfgSpec cfg d) (path : List Nat) (t : Tree)
    (I : Inv d τ T m o path t) (hc : t.children = [] ∨ isAtomic t = true) (hn : isNeg t = false)
    (hcov : cover t = some [])
    (hvis : vis path t = [(path, t)]) (hev : evalT d τ path t = τ path) :
    propagate cfg m o path t = (evalT d τ path t, okOf d τ (vis path t), koOf d τ (vis path t)) := by
  rw [propagate_stop cfg m o path t (by rcases hc with h | h <;> simp [S.noDescend, h])]
  rw [step_eq cfg m o path t _ _ _ (evalT d τ path t)]
  · simp only [hvis, okOf_single, koOf_single, List.nil_append]
  · rw [nodeVal_leaf S m o path t hn, I.status [] hcov, hev]; simp

mutual
/-- **`_propagate` computes the boolean value**, and splits the visited paths accordingly -/
theorem propagate_eq (S : CfgSpec cfg d) (C : Ctx d τ T m o) : ∀ (t : Tree) (path : List Nat),
    Inv d τ T m o path t →
    propagate cfg m o path t = (evalT d τ path t, okOf d τ (vis path t), koOf d τ (vis path t))
  | .term k v l, path, I => leaf_case S path _ I (Or.inl rfl) rfl rfl (by simp [vis]) (by simp [evalT])
  | .range a b il ih l, path, I =>
      leaf_case S path _ I (Or.inr rfl) rfl rfl (by simp [vis]) (by simp [evalT])
  | .approx k e n l, path, I =>
      leaf_case S path _ I (Or.inr rfl) rfl rfl (by simp [vis]) (by simp [evalT])
  | .none l, path, I => by have := I.good; simp [good] at this
  | .field n e l, path, I =>
      single_case S path _ e I rfl rfl rfl (by simp [vis]) (by simp [evalT, isNeg])
        (propagate_eq S C e _ (Inv.child C path _ e I rfl rfl rfl))
  | .group n e l, path, I =>
      single_case S path _ e I rfl rfl rfl (by simp [vis]) (by simp [evalT, isNeg])
        (propagate_eq S C e _ (Inv.child C path _ e I rfl rfl rfl))
  | .boost e n l, path, I =>
      single_case S path _ e I rfl rfl rfl (by simp [vis]) (by simp [evalT, isNeg])
        (propagate_eq S C e _ (Inv.child C path _ e I rfl rfl rfl))
  | .orange k e n l, path, I =>
      single_case S path _ e I rfl rfl rfl (by simp [vis]) (by simp [evalT, isNeg])
        (propagate_eq S C e _ (Inv.child C path _ e I rfl rfl rfl))
  | .unary k e l, path, I =>
      single_case S path _ e I rfl rfl rfl (by simp [vis]) (by cases k <;> simp [evalT, isNeg])
        (propagate_eq S C e _ (Inv.child C path _ e I rfl rfl rfl))
  | .op k [] l, path, I => by have := I.good; simp [good] at this
  | .op k (x :: xs) l, path, I => by
      have ih := propagateList_eq S C (x :: xs) path 0 (fun j c hc => by
        simpa using Inv.operand C path k (x :: xs) l I j c hc)
      rw [propagate_op cfg m o path k x xs l (by rw [S.noDescend]; rfl), ih]
      simp only [evalTs]
      rw [step_eq cfg m o path _ _ _ _ (evalT d τ path (.op k (x :: xs) l))]
      · simp only [vis, okOf_append, koOf_append, okOf_single, koOf_single]
      · by_cases hm : path ∈ m
        · have := I.matched hm rfl
          simp only [preVal, isNeg] at this
          rw [nodeVal_matched S m o path _ _ rfl hm]
          simpa using this.symm
        · rw [nodeVal_op S m o path _ _ _ rfl hm]
          cases k <;> simp [isOrNode, evalT, evalTs]
theorem propagateList_eq (S : CfgSpec cfg d) (C : Ctx d τ T m o) :
    ∀ (xs : List Tree) (path : List Nat) (i : Nat),
    (∀ j c, xs[j]? = some c → Inv d τ T m o (path ++ [i + j]) c) →
    propagateList cfg m o path i xs =
      (evalTs d τ path i xs, okOf d τ (visList path i xs), koOf d τ (visList path i xs))
  | [], path, i, _ => by simp [propagateList, evalTs, visList, okOf_nil, koOf_nil]
  | x :: r, path, i, H => by
      have h1 := propagate_eq S C x (path ++ [i]) (by simpa using H 0 x (by simp))
      have h2 := propagateList_eq S C r path (i + 1) (fun j c hc => by
        have := H (j + 1) c (by simpa using hc)
        rwa [show i + (j + 1) = i + 1 + j by omega] at this)
      simp only [propagateList, h1, h2, evalTs, visList, okOf_append, koOf_append]
end

end


/-! ### the specification of the propagator, for any class tuples satisfying `CfgSpec` -/

/-- Under the tree hypotheses `good`, when `matching` / `other` are the named elements whose covered
term is true / false: the propagator returns the value of the query, each visited node is
classified according to its value, nothing else is classified, and nothing is classified twice. -/
theorem propagate_spec {cfg : PropCfg} {d : Bool} (S : CfgSpec cfg d) (τ : List Nat → Bool)
    (t : Tree) (hg : good false t = true) (matching other : List (List Nat))
    (C : Ctx d τ t matching other) :
    (propagate cfg matching other [] t).1 = evalT d τ [] t ∧
    (∀ p n, t.at? p = some n → visible t p = true →
      (p ∈ (propagate cfg matching other [] t).2.1 ↔ evalT d τ p n = true) ∧
      (p ∈ (propagate cfg matching other [] t).2.2 ↔ evalT d τ p n = false)) ∧
    (∀ p, p ∈ (propagate cfg matching other [] t).2.1 ++ (propagate cfg matching other [] t).2.2 →
      visible t p = true ∧ ∃ n, t.at? p = some n) ∧
    ((propagate cfg matching other [] t).2.1 ++ (propagate cfg matching other [] t).2.2).Pairwise
      (· ≠ ·) := by
  rw [propagate_eq S C t [] (Inv.root C hg)]
  refine ⟨rfl, ?_, ?_, okOf_koOf_pairwise d τ _ (vis_distinct t [])⟩
  · intro p n hat hv
    have hmem : (p, n) ∈ vis [] t := (mem_vis t [] (p, n)).2 ⟨p, rfl, hat, hv⟩
    have huniq : ∀ n', (p, n') ∈ vis [] t → n' = n := by
      intro n' h
      obtain ⟨q, h1, h2, -⟩ := (mem_vis t [] (p, n')).1 h
      simp at h1; subst h1; rw [hat] at h2; cases h2; rfl
    constructor
    · rw [mem_okOf]
      exact ⟨fun ⟨n', h, hv⟩ => by rw [← huniq n' h]; exact hv, fun h => ⟨n, hmem, h⟩⟩
    · rw [mem_koOf]
      exact ⟨fun ⟨n', h, hv⟩ => by rw [← huniq n' h]; exact hv, fun h => ⟨n, hmem, h⟩⟩
  · intro p hp
    have : ∃ n, (p, n) ∈ vis [] t := by
      rcases List.mem_append.1 hp with h | h
      · obtain ⟨n, h, -⟩ := (mem_okOf d τ _ p).1 h; exact ⟨n, h⟩
      · obtain ⟨n, h, -⟩ := (mem_koOf d τ _ p).1 h; exact ⟨n, h⟩
    obtain ⟨n, h⟩ := this
    obtain ⟨q, h1, h2, h3⟩ := (mem_vis t [] (p, n)).1 h
    simp at h1; subst h1
    exact ⟨h3, n, h2⟩

end Luqum.Lemmas.Propagate
