/-
  Luqum.Lemmas.ComplLevel — completeness, the left-recursive operations (for ARBITRARY tables):
  `x₁ OP x₂ OP … xₙ` is parsed by a loop "operand, reduce" that comes back to the same state; the
  flattening of `create_operation` rebuilds the n-ary operation.
-/
import Luqum.Lemmas.ComplUnary

namespace Luqum.Compl
open Luqum
open Luqum.Props.C09 (content contents)

/-- the operation over the operands `xs` -- or the operand itself when there is only one -/
def mkOp (k : OpK) : List Tree → Tree
  | [x] => x
  | xs => .op k xs {}

theorem mkOp_two {k : OpK} {xs : List Tree} (h : 2 ≤ xs.length) : mkOp k xs = .op k xs {} := by
  match xs, h with
  | _ :: _ :: _, _ => rfl

theorem mkOp_snoc {k : OpK} {xs : List Tree} (h : xs ≠ []) (y : Tree) :
    mkOp k (xs ++ [y]) = .op k (xs ++ [y]) {} := by
  apply mkOp_two
  cases xs with
  | nil => exact absurd rfl h
  | cons x r => simp

theorem contents_map (xs : List Tree) : contents xs = xs.map content := by
  induction xs with
  | nil => rfl
  | cons x r ih => simp [contents, ih]

/-! ### the loop -/

/-- the loop over the operands after the first: each round parses an operand (after the separator
`sep`) and reduces, coming back to the state `e` with the operation so far -/
theorem level_loop {T : Tables} {e s : Nat} {k : OpK} {sep : List (TokK × Str)} {a : String}
    (B : String → Prop) (hBa : B a) :
    ∀ (xs : List Tree),
    (∀ x ∈ xs, ∀ b, B b → ∀ (acc : Tree) (ss : List Nat) (vs : List Val) (tsep tx rest' : List Tok),
      tsep.map tokKey = sep → tx.map tokKey = yield x → lookName rest'.head? = b →
      ∃ x' ol, content x' = content x ∧
        Run T ⟨e :: s :: ss, .item acc :: vs⟩ (tsep ++ (tx ++ rest'))
          ⟨e :: s :: ss, .item (binaryOp k acc ol x') :: vs⟩ rest') →
    (∀ x ∈ xs, ∃ kx r, sep ++ yield x = kx :: r ∧ B kx.1.name) →
    (∀ x ∈ xs, side k (content x) = [content x]) →
    ∀ (acc : Tree) (accs : List Tree), content acc = mkOp k accs → side k (mkOp k accs) = accs →
      accs ≠ [] →
    ∀ (toks : List Tok), toks.map tokKey = (xs.map fun x => sep ++ yield x).flatten →
    ∀ (ss : List Nat) (vs : List Val) (rest : List Tok), lookName rest.head? = a →
    ∃ t', content t' = mkOp k (accs ++ xs.map content) ∧
      Run T ⟨e :: s :: ss, .item acc :: vs⟩ (toks ++ rest) ⟨e :: s :: ss, .item t' :: vs⟩ rest := by
  intro xs
  induction xs with
  | nil =>
    intro _ _ _ acc accs hacc _ _ toks hk ss vs rest _
    simp only [List.map_nil, List.flatten_nil] at hk
    cases keys_nil hk
    exact ⟨acc, by simpa using hacc, .refl _ _⟩
  | cons x xs ih =>
    intro hstep hfirst hside acc accs hacc hsd hne toks hk ss vs rest hl
    simp only [List.map_cons, List.flatten_cons, List.append_assoc] at hk
    obtain ⟨tsep, ts, rfl, htsep, hts⟩ := keys_append hk
    obtain ⟨tx, toks', rfl, htx, htoks'⟩ := keys_append hts
    -- the look-ahead after this operand
    have hB : B (lookName (toks' ++ rest).head?) := by
      cases xs with
      | nil =>
        simp only [List.map_nil, List.flatten_nil] at htoks'
        cases keys_nil htoks'
        simpa [hl] using hBa
      | cons y ys =>
        obtain ⟨ky, r, hy, hBy⟩ := hfirst y (by simp)
        simp only [List.map_cons, List.flatten_cons] at htoks'
        rw [hy] at htoks'
        obtain ⟨ty, ts', rfl, hky, _, _⟩ := keys_cons htoks'
        simp only [List.cons_append, List.head?_cons, lookName]
        rw [hky]; exact hBy
    obtain ⟨x', ol, hcx, hrun⟩ := hstep x (by simp) _ hB acc ss vs tsep tx (toks' ++ rest) htsep htx rfl
    have hacc' : content (binaryOp k acc ol x') = mkOp k ((accs ++ [content x]) ) := by
      rw [content_binaryOp, hacc, hsd, hcx, hside x (by simp), mkOp_snoc hne]
    have hsd' : side k (mkOp k (accs ++ [content x])) = accs ++ [content x] := by
      rw [mkOp_snoc hne]; simp [side]
    obtain ⟨t', hct, hrun'⟩ := ih (fun y hy => hstep y (by simp [hy])) (fun y hy => hfirst y (by simp [hy]))
      (fun y hy => hside y (by simp [hy])) (binaryOp k acc ol x') (accs ++ [content x]) hacc' hsd'
      (by simp) toks' htoks' ss vs rest hl
    refine ⟨t', by simpa using hct, ?_⟩
    have e1 : tsep ++ (tx ++ toks') ++ rest = tsep ++ (tx ++ (toks' ++ rest)) := by simp
    rw [e1]
    exact hrun.trans hrun'

/-- `joinL` as: first operand, then (separator, operand) pairs -/
theorem joinL_cons_flat {α : Type} (sep : List α) (x : List α) (xs : List (List α)) :
    joinL sep (x :: xs) = x ++ (xs.map fun y => sep ++ y).flatten := by
  induction xs generalizing x with
  | nil => simp [joinL]
  | cons y ys ih => simp [joinL, ih y]

theorem yields_map (xs : List Tree) : yields xs = xs.map yield := by
  induction xs with
  | nil => rfl
  | cons x r ih => simp [yields, ih]

/-! ### AND, OR -/

/-- operands with eventualities at every pair `(s, b)` accepted by `sub` -/
def OpEv (T : Tables) (sub : Nat → String → Bool) (x : Tree) : Prop :=
  ∀ s b, sub s b = true → ∀ toks : List Tok, toks.map tokKey = yield x → Ev T s nE b toks (content x)

theorem ev_level {T : Tables} {sub : Nat → String → Bool} {op f : String} {s : Nat} {a : String}
    (h : chkLevel T sub op f s a = true) (k : OpK) (kk : TokK) (w : Str) (hkk : kk.name = op)
    (hplain : plainKind kk = true) (hkey : opKey k = [(kk, w)])
    (hact : ∀ x o y, act f [.item x, .tok kk o, .item y] = .ok (.item (binaryOp k x (some o.lay) y)))
    (x : Tree) (xs : List Tree) (hev : ∀ y ∈ x :: xs, OpEv T sub y)
    (hside : ∀ y ∈ x :: xs, side k (content y) = [content y])
    (toks : List Tok) (hk : toks.map tokKey = joinL (opKey k) (yields (x :: xs))) :
    Ev T s nE a toks (mkOp k ((x :: xs).map content)) := by
  simp only [chkLevel, Option.any_eq_true, Bool.and_eq_true, beq_iff_eq] at h
  obtain ⟨⟨hsa, hsop⟩, e, he, so, hso, eo, heo, ⟨⟨⟨hsoop, hsoa⟩, hredop⟩, hreda⟩⟩ := h
  intro ss vs rest hl
  rw [yields_map, List.map_cons, joinL_cons_flat, List.map_map] at hk
  obtain ⟨tx, toks', rfl, htx, htoks'⟩ := keys_append hk
  -- the loop
  have hloop := level_loop (T := T) (e := e) (s := s) (k := k) (sep := opKey k) (a := a)
    (fun b => b = a ∨ b = op) (Or.inl rfl) xs ?_ ?_ (fun y hy => hside y (by simp [hy]))
  rotate_left
  · -- one round
    intro y hy b hb acc ss vs tsep ty rest' htsep hty hl'
    rw [hkey] at htsep
    obtain ⟨to, ts, rfl, hkto, _, hts⟩ := keys_cons htsep
    cases keys_nil hts
    simp only at hkto
    have hsub : sub so b = true := by rcases hb with rfl | rfl <;> assumption
    have hred : redTo T s eo b f 3 = some e := by rcases hb with rfl | rfl <;> assumption
    obtain ⟨eo', y', heo', hcy, hrun⟩ := hev y (by simp [hy]) so b hsub ty hty (e :: s :: ss)
      (to.toVal :: .item acc :: vs) rest' hl'
    rw [heo] at heo'; cases heo'
    have hact' := hact acc { value := some to.text, lay := tokLay to } y'
    rw [← toVal_plain hkto hplain] at hact'
    exact ⟨y', _, hcy, (run_shift hso to (by rw [hkto, hkk]) _ _ _).trans (hrun.trans
      (run_reduce' hred hl' [so, e] rfl [.item acc, to.toVal, .item y'] rfl hact' ss vs))⟩
  · -- the look-ahead before an operand is the operator
    intro y _
    rw [hkey]
    exact ⟨(kk, w), _, rfl, Or.inr hkk⟩
  -- the first operand
  have hb1 : lookName (toks' ++ rest).head? = a ∨ lookName (toks' ++ rest).head? = op := by
    cases xs with
    | nil =>
      simp only [List.map_nil, List.flatten_nil] at htoks'
      cases keys_nil htoks'
      exact Or.inl (by simpa using hl)
    | cons y ys =>
      simp only [List.map_cons, List.flatten_cons, Function.comp, hkey] at htoks'
      obtain ⟨ty, ts', rfl, hky, _, _⟩ := keys_cons htoks'
      simp only [List.cons_append, List.head?_cons, lookName]
      exact Or.inr (by rw [hky]; exact hkk)
  have hsub1 : sub s (lookName (toks' ++ rest).head?) = true := by
    rcases hb1 with h | h <;> rw [h] <;> assumption
  obtain ⟨e', x', he', hcx, hrun1⟩ := hev x (by simp) s _ hsub1 tx htx ss vs (toks' ++ rest) rfl
  rw [he] at he'; cases he'
  have hsd := hside x (by simp)
  obtain ⟨t', hct, hrun2⟩ := hloop x' [content x] (by simpa [mkOp] using hcx) (by simpa [mkOp] using hsd)
    (by simp) toks' htoks' ss vs rest hl
  refine ⟨e, t', he, by simpa using hct, ?_⟩
  rw [List.append_assoc]
  exact hrun1.trans hrun2

/-! ### the implicit operation -/

theorem act_implicit (x y : Tree) :
    act "p_expression_implicit" [.item x, .item y] = .ok (.item (binaryOp .unk x none y)) := rfl

theorem ev_implicit {T : Tables} {R : List (Nat × String)} {s : Nat} {a : String}
    (h : chkExpr T R s a = true)
    (x : Tree) (xs : List Tree) (hev : ∀ y ∈ x :: xs, OpEv T (chkOr T R) y)
    (hside : ∀ y ∈ x :: xs, side .unk (content y) = [content y])
    (hfirst : ∀ y ∈ xs, ∃ ky r, yield y = ky :: r ∧ ky.1 ∈ firstKinds)
    (toks : List Tok) (hk : toks.map tokKey = joinL (opKey .unk) (yields (x :: xs))) :
    Ev T s nE a toks (mkOp .unk ((x :: xs).map content)) := by
  simp only [chkExpr, Option.any_eq_true, Bool.and_eq_true, beq_iff_eq, List.all_eq_true] at h
  obtain ⟨hsa, e, he, ei, hei, ⟨hea, hreda⟩, hall⟩ := h
  intro ss vs rest hl
  rw [yields_map, List.map_cons, joinL_cons_flat, List.map_map] at hk
  obtain ⟨tx, toks', rfl, htx, htoks'⟩ := keys_append hk
  have hloop := level_loop (T := T) (e := e) (s := s) (k := .unk) (sep := opKey .unk) (a := a)
    (fun b => b = a ∨ b ∈ firstNames) (Or.inl rfl) xs ?_ ?_ (fun y hy => hside y (by simp [hy]))
  rotate_left
  · intro y hy b hb acc ss vs tsep ty rest' htsep hty hl'
    cases keys_nil htsep
    have hsub : chkOr T R e b = true := by
      rcases hb with rfl | hb
      · exact hea
      · exact (hall b hb).1.2
    have hred : redTo T s ei b "p_expression_implicit" 2 = some e := by
      rcases hb with rfl | hb
      · exact hreda
      · exact (hall b hb).2
    obtain ⟨ei', y', hei', hcy, hrun⟩ := hev y (by simp [hy]) e b hsub ty hty (s :: ss)
      (.item acc :: vs) rest' hl'
    rw [hei] at hei'; cases hei'
    exact ⟨y', none, hcy, by
      simpa using hrun.trans
        (run_reduce' hred hl' [e] rfl [.item acc, .item y'] rfl (act_implicit acc y') ss vs)⟩
  · intro y hy
    obtain ⟨ky, r, hyy, hky⟩ := hfirst y hy
    refine ⟨ky, r, by simp [opKey, hyy], Or.inr ?_⟩
    simp only [firstNames, List.mem_map]
    exact ⟨ky.1, hky, rfl⟩
  have hb1 : lookName (toks' ++ rest).head? = a ∨ lookName (toks' ++ rest).head? ∈ firstNames := by
    cases xs with
    | nil =>
      simp only [List.map_nil, List.flatten_nil] at htoks'
      cases keys_nil htoks'
      exact Or.inl (by simpa using hl)
    | cons y ys =>
      obtain ⟨ky, r, hyy, hky⟩ := hfirst y (by simp)
      simp only [List.map_cons, List.flatten_cons, Function.comp, opKey, List.nil_append, hyy,
        List.cons_append] at htoks'
      obtain ⟨ty, ts', rfl, hkty, _, _⟩ := keys_cons htoks'
      simp only [List.cons_append, List.head?_cons, lookName]
      refine Or.inr ?_
      simp only [firstNames, List.mem_map]
      exact ⟨ky.1, hky, by rw [hkty]⟩
  have hsub1 : chkOr T R s (lookName (toks' ++ rest).head?) = true := by
    rcases hb1 with h | h
    · rw [h]; exact hsa
    · exact (hall _ h).1.1
  obtain ⟨e', x', he', hcx, hrun1⟩ := hev x (by simp) s _ hsub1 tx htx ss vs (toks' ++ rest) rfl
  rw [he] at he'; cases he'
  have hsd := hside x (by simp)
  obtain ⟨t', hct, hrun2⟩ := hloop x' [content x] (by simpa [mkOp] using hcx) (by simpa [mkOp] using hsd)
    (by simp) toks' htoks' ss vs rest hl
  refine ⟨e, t', he, by simpa using hct, ?_⟩
  rw [List.append_assoc]
  exact hrun1.trans hrun2

end Luqum.Compl
