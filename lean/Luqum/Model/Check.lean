/-
  Luqum.Model.Check — model of `luqum.check.LuceneCheck` (errors as a list of messages).
  Which classes have a `check_*` method and which of those recurse into the children is generated
  (Luqum.Generated.Check) and consulted through the MRO dispatch.
-/
import Luqum.Model.Lexer
import Luqum.Model.Visitor
import Luqum.Generated.Check

namespace Luqum

/-- `LuceneCheck.check`'s dispatch: the first class of the MRO that has a `check_*` method -/
def checkMethodOf (cls : String) : Option (String × Bool) :=
  (mroOf cls).findSome? fun c => Generated.checkMethods.find? (fun m => m.1 == c)

/-- `field_name_re = ^\w+$` used with `fullmatch` (since fix F8; with `match`, `$` also matched before a final
line feed): one or more word characters, nothing else -/
def validFieldName (n : Str) : Bool :=
  !n.isEmpty && n.all isWordChar

def isInstance (classes : List String) (t : Tree) : Bool :=
  (mroOf t.className).any (fun c => classes.contains c)

def lit (x : String) : Str := x.toList

/-- the messages the method `check_<m>` itself yields (before the recursion into children) -/
def ownErrors (zeal : Nat) (m : String) (parents : List Tree) (t : Tree) : List Str :=
  match m, t with
  | "SearchField", .field name e _ =>
    (if validFieldName name then [] else [name ++ lit " is not a valid field name"]) ++
    (if isInstance Generated.fieldExprFields e then []
     else [lit "field expression is not valid : " ++ t.str])
  | "Group", _ =>
    match parents.getLast? with
    | some p => if isInstance ["SearchField"] p
        then [lit "Group misuse, after SearchField you should use Group :\u00a0" ++ p.str] else []
    | none => []
  | "FieldGroup", _ =>
    match parents.getLast? with
    | some p => if isInstance ["SearchField"] p then []
        else [lit "FieldGroup misuse, it must be used after SearchField :\u00a0" ++ p.str]
    | none => [lit "FieldGroup misuse, it must be used after SearchField :\u00a0" ++ t.str]
  | "Word", .term _ v _ =>
    (if v.any isSpace then [lit "A single term value can't hold a space " ++ t.str] else []) ++
    (if zeal ≠ 0 && v.any (fun c => c == '+' || c == '/' || c == '-')
     then [lit "Invalid characters in term value: " ++ v] else [])
  | "Fuzzy", .approx _ term n _ =>
    -- (after fix F7 the degree is printed with `format(degree, "f")`; before, `%d` truncated it and crashed on -Infinity)
    (if n.val.neg then [lit "invalid degree " ++ n.val.render ++ lit ", it must be positive"] else []) ++
    (if isInstance ["Word"] term then [] else [lit "Fuzzy should be on a single term in " ++ t.str])
  | "Proximity", .approx _ term _ _ =>
    if isInstance ["Phrase"] term then [] else [lit "Proximity can be only on a phrase in " ++ t.str]
  | "Not", _ | "Prohibit", _ =>
    match parents.getLast? with
    | some p => if zeal ≠ 0 && isInstance ["OrOperation"] p
        then [lit "Prohibit or Not really means 'AND NOT' wich is inconsistent with OR operation in " ++ p.str]
        else []
    | none => []
  | _, _ => []

mutual
/-- `LuceneCheck(zeal).check(item, parents)` as a list -/
def checkErrors (zeal : Nat) (parents : List Tree) (t : Tree) : List Str :=
  match checkMethodOf t.className with
  | none => [lit "Unknown item type " ++ t.className.toList ++ lit " : " ++ t.str]
  | some (m, recurse) =>
    ownErrors zeal m parents t ++
    (if recurse then
      match t with
      | .field _ e _ | .group _ e _ | .approx _ e _ _ | .boost e _ _ | .unary _ e _ | .orange _ e _ _ =>
        checkErrors zeal (parents ++ [t]) e
      | .range a b _ _ _ => checkErrors zeal (parents ++ [t]) a ++ checkErrors zeal (parents ++ [t]) b
      | .op _ xs _ => checkErrorsList zeal (parents ++ [t]) xs
      | _ => []
    else [])
def checkErrorsList (zeal : Nat) (parents : List Tree) : List Tree → List Str
  | [] => []
  | x :: r => checkErrors zeal parents x ++ checkErrorsList zeal parents r
end

/-- `LuceneCheck(zeal).errors(tree)` -/
def luceneErrors (zeal : Nat) (t : Tree) : List Str := checkErrors zeal [] t
/-- `LuceneCheck(zeal)(tree)` -/
def luceneCheck (zeal : Nat) (t : Tree) : Bool := (luceneErrors zeal t).isEmpty

end Luqum
