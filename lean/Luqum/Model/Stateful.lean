/-
  Luqum.Model.Stateful — the lexer of `luqum.parser` as the *stateful object* it is in Python.

  The pure `lex` (Luqum.Model.Lexer) threads the head/tail bookkeeping of `HeadTailLexer` through the
  arguments of `lexLoop` and starts every call from a clean slate.  The Python code does not: the
  `HeadTailLexer` instance ("tracker") is stored as the attribute `_luqum_headtail` ON THE PLY LEXER
  OBJECT, and

    * `HeadTailLexer.handle(token, _)` creates a NEW tracker iff `token.lexpos == 0` (separator or
      not) and stores it on `token.lexer`; otherwise it fetches the stored one
      (`getattr(token.lexer, "_luqum_headtail")`, an `AttributeError` if there is none);
    * PLY's `lexer.input(s)` resets `lexdata`, `lexpos` (and `lexlen`) but NOT that attribute;
    * `lexer.clone()` is `copy.copy(self)`: the per-thread clone of `luqum.thread.parse` is born with
      whatever tracker the module-level lexer carried at that moment.

  So a call to `parse` starts from a lexer whose `lexdata`/`lexpos`/tracker are left-overs of earlier
  calls: a tracker with a pending head, a `last_elt` pointing to a token of an older parse, `lexpos`
  in the middle of (or one past the end of) the previous input.  This file makes that state explicit;
  `Luqum.Lemmas.Stateful` proves that it collapses to `lex` / `parse` whatever the initial state.
-/
import Luqum.Model.ParserInst

namespace Luqum

/-- what `HeadTailLexer.last_elt` points to (when it is not `None`).  In Python it is a reference to
the `LexToken` of the last non-separator token handled *by this tracker*.  In the model the tokens of
the running call are the accumulator of the loop (newest first), so a reference is either

* `current`: the newest token of the list being built by the running call, or
* `stale`: a token produced by an earlier call to `parse` (the tracker survived `input()`); adding a
  tail to it mutates an object that is not in the current token list. -/
inductive LastRef
  | stale
  | current
deriving Repr, DecidableEq, Inhabited

/-- the fields of a `HeadTailLexer` instance -/
structure Tracker where
  /-- `self.head`: separator seen at offset 0, to become the head of the next token -/
  head : Option Str := none
  /-- `self.last_elt` -/
  last : Option LastRef := none
deriving Repr, DecidableEq, Inhabited

/-- `HeadTailLexer()` -/
def Tracker.fresh : Tracker := { head := none, last := none }

/-- a tracker seen from the *next* call: the token list it refers to is no longer the current one -/
def Tracker.age (t : Tracker) : Tracker := { t with last := t.last.map fun _ => LastRef.stale }

/-- the mutable state of a PLY lexer object that matters here: `lexdata`, `lexpos`, and the
attribute `_luqum_headtail` (`none`: attribute absent, as on a lexer that never produced a token) -/
structure LexerState where
  data : Str := []
  pos : Nat := 0
  tracker : Option Tracker := none
deriving Repr, DecidableEq, Inhabited

/-- `lexer.input(s)`: resets `lexdata` and `lexpos`; the tracker attribute is NOT touched (the only
change is the model's book-keeping that its `last_elt` now refers to a token of an older call) -/
def LexerState.input (st : LexerState) (s : Str) : LexerState :=
  { data := s, pos := 0, tracker := st.tracker.map Tracker.age }

/-- the "get instance" part of `HeadTailLexer.handle` for a token starting at `lexpos`: a new
instance iff `lexpos == 0`, else the stored attribute (`none` = `AttributeError`) -/
def LexerState.fetch (st : LexerState) (lexpos : Nat) : Option Tracker :=
  if lexpos = 0 then some Tracker.fresh else st.tracker

/-- `handle_token` for a `SEPARATOR` token with text `s` starting at `lexpos`; `acc` is the token
list of the running call (newest first).  If `last_elt` is stale the text is appended to the tail of
a token of an OLDER call: it is lost for the current list (visibly different from `lexLoop`, which
would attach it to the newest token). -/
def Tracker.handleSep (tr : Tracker) (lexpos : Nat) (s : Str) (acc : List Tok) : Tracker × List Tok :=
  if lexpos = 0 then ({ tr with head := some s }, acc)
  else
    match tr.last with
    | none => (tr, acc)
    | some .current => (tr, addTail acc s)
    | some .stale => (tr, acc)

/-- `handle_token` for a non-separator token: a pending head (possibly a left-over of an older
call, if the tracker is stale!) is applied and cleared; the token becomes `last_elt` -/
def Tracker.handleTok (tr : Tracker) (k : TokK) (lexpos : Nat) (s : Str) (acc : List Tok) :
    Tracker × List Tok :=
  let t : Tok := { kind := k, text := s, pos := lexpos, head := tr.head.getD [], tail := [] }
  ({ head := none, last := some .current }, t :: acc)

/-- the token loop of the stateful lexer (all the `lexer.token()` calls the parser can make, run
eagerly like `lexLoop`).  Everything is read from / written to the lexer state: the remaining input
is `lexdata[lexpos:]`, the look-behind context is `lexdata[:lexpos]`.  The lexeme matcher is the
`lexOne` of the pure model; the only new thing is that the tracker is fetched from the state.

* end of input: PLY sets `self.lexpos = lexpos + 1`;
* no rule matches: `t_error` raises `IllegalCharacterError`, `self.lexpos` stays at the offending
  offset and the tracker is left as it is (this is one way a later call meets a stale tracker with
  `pos` in the middle of an old input);
* a rule matches at `lexpos`: PLY first sets `self.lexpos = m.end()`, then calls the rule function,
  which calls `HeadTailLexer.handle`.  If the attribute is missing (`fetch = none`) Python raises
  `AttributeError`; the model stops there with an error at that offset (an outcome `lexLoop` never
  produces for a lexeme that matches). -/
def lexLoopS : Nat → LexerState → List Tok → (List Tok × Option LexErr) × LexerState
  | 0, st, acc => ((acc.reverse, none), st)
  | fuel + 1, st, acc =>
    let lexpos := st.pos
    let rest := st.data.drop lexpos
    let prev := (st.data.take lexpos).reverse
    match rest with
    | [] => ((acc.reverse, none), { st with pos := lexpos + 1 })
    | _ :: _ =>
      match lexOne prev rest with
      | none => ((acc.reverse, some { pos := lexpos, rest := rest }), st)
      | some (.sep n) =>
        let n := max n 1
        let s := rest.take n
        let st1 := { st with pos := lexpos + n }
        match st1.fetch lexpos with
        | none => ((acc.reverse, some { pos := lexpos, rest := rest }), st1)
        | some tr =>
          let (tr', acc') := tr.handleSep lexpos s acc
          lexLoopS fuel { st1 with tracker := some tr' } acc'
      | some (.tok k n) =>
        let n := max n 1
        let s := rest.take n
        let st1 := { st with pos := lexpos + n }
        match st1.fetch lexpos with
        | none => ((acc.reverse, some { pos := lexpos, rest := rest }), st1)
        | some tr =>
          let (tr', acc') := tr.handleTok k lexpos s acc
          lexLoopS fuel { st1 with tracker := some tr' } acc'

/-- tokenize `s` with a lexer object found in the ARBITRARY state `st`: `lexer.input(s)` followed by
the token loop.  Returns the tokens / lexer error (same shape as `lex`) and the state the lexer
object is left in.

`st` is universally quantified in the theorems, which covers every way a previous call may have
ended: normal end of input (`pos` one past the end), a syntax error raised by the parser before the
lexer reached the end (`pos` mid-input, tracker with `last_elt` set), an illegal character (`t_error`
raises mid-input: `pos` at the offending offset, tracker stale, possibly with a pending head when the
previous input was blank-then-illegal), a fresh lexer (`tracker = none`), or a clone that inherited
another lexer's tracker. -/
def lexFrom (st : LexerState) (s : Str) : (List Tok × Option LexErr) × LexerState :=
  lexLoopS (s.length + 1) (st.input s) []

/-- `parser.parse(s, lexer=L)` with `L` in state `st`: the body of `parseWith tables`, the tokens
coming from the stateful lexer.  Both entry points are this function: `luqum.parser.parse` passes
the module-level `luqum.parser.lexer`, `luqum.thread.parse` passes the calling thread's clone
`thread_local.lexer`; they differ only in WHICH lexer state they start from. -/
def parseCall (st : LexerState) (s : Str) : Except ParseErr Tree × LexerState :=
  let r := lexFrom st s
  let res : Except ParseErr Tree :=
    match runLoop tables (parseFuel r.1.1.length) { states := [0], vals := [] } r.1.1 r.1.2 with
    | .ok (.item t) => .ok t
    | .ok (.tok ..) => .error (.internal "token value as result")
    | .error e => .error e
  (res, r.2)

/-- a history of calls on the same lexer object: outcomes in order, and the final lexer state -/
def parseSeq (st : LexerState) : List Str → List (Except ParseErr Tree) × LexerState
  | [] => ([], st)
  | s :: rest =>
    let r := parseCall st s
    let rs := parseSeq r.2 rest
    (r.1 :: rs.1, rs.2)

end Luqum
