/-
  Luqum.Model.Naming — model of `luqum.naming`: `auto_name`, `element_from_path`,
  `MatchingPropagator`, `HTMLMarker`. The naming alphabet and the class tuples are generated.
-/
import Luqum.Model.Visitor
import Luqum.Generated.Naming

namespace Luqum

/-! ### auto_name -/

def letters : List Char := Generated.namingLetters.toList

def posLetter (c : Char) : Option Nat :=
  (Generated.namingPosLetter.find? (fun e => e.1 == c)).map (·.2)

/-- `TreeAutoNamer.next_name`; `none` models the `KeyError` on a letter outside the alphabet -/
def nextName : Option Str → Option Str
  | none => letters.head?.map (fun c => [c])
  | some name =>
    match name.getLast? with
    | none => none            -- name[-1] on an empty string: IndexError
    | some last =>
      match posLetter last with
      | none => none
      | some p =>
        match letters[p + 1]? with
        | some c => some (name.dropLast ++ [c])
        | none => letters.head?.map (fun c => name ++ [c])

/-- state of the naming visit: last name given, and the `name_to_path` dict in insertion order -/
structure NameSt where
  last : Option Str := none
  map : List (Str × List Nat) := []
  failed : Bool := false

/-- the names given to the `n` operands of the operation at `path` (every child gets the next
name), with the updated state -/
def genNames (st : NameSt) (path : List Nat) (i : Nat) : Nat → List Str × NameSt
  | 0 => ([], st)
  | n + 1 =>
    match nextName st.last with
    | none => ([], { st with failed := true })
    | some nm =>
      let st1 : NameSt := { st with last := some nm, map := st.map.filter (fun e => e.1 != nm) ++ [(nm, path ++ [i])] }
      let (r, st2) := genNames st1 path (i + 1) n
      (nm :: r, st2)

/-- `set_name(child, name)` for each child -/
def setNames : List Tree → List Str → List Tree
  | x :: r, nm :: ns => x.setLay { x.lay with name := some nm } :: setNames r ns
  | xs, _ => xs

mutual
/-- `TreeAutoNamer.visit_iter`: at an operation name all direct operands, then descend -/
def nameNode (st : NameSt) (path : List Nat) : Tree → Tree × NameSt
  | .term k v l => (.term k v l, st)
  | .none l => (.none l, st)
  | .field n e l => let (e', s) := nameNode st (path ++ [0]) e; (.field n e' l, s)
  | .group k e l => let (e', s) := nameNode st (path ++ [0]) e; (.group k e' l, s)
  | .approx k e n l => let (e', s) := nameNode st (path ++ [0]) e; (.approx k e' n l, s)
  | .boost e n l => let (e', s) := nameNode st (path ++ [0]) e; (.boost e' n l, s)
  | .unary k e l => let (e', s) := nameNode st (path ++ [0]) e; (.unary k e' l, s)
  | .orange k e i l => let (e', s) := nameNode st (path ++ [0]) e; (.orange k e' i l, s)
  | .range a b il ih l =>
    let (a', s1) := nameNode st (path ++ [0]) a
    let (b', s2) := nameNode s1 (path ++ [1]) b
    (.range a' b' il ih l, s2)
  | .op k xs l =>
    let (names, s1) := genNames st path 0 xs.length
    let (xs2, s2) := nameList s1 path 0 xs
    (.op k (setNames xs2 names) l, s2)
def nameList (st : NameSt) (path : List Nat) (i : Nat) : List Tree → List Tree × NameSt
  | [] => ([], st)
  | x :: r =>
    let (x', s1) := nameNode st (path ++ [i]) x
    let (r', s2) := nameList s1 path (i + 1) r
    (x' :: r', s2)
end

/-- `auto_name(tree)`: the tree with names attached (the implementation sets them in place) and the
returned `name_to_path` mapping -/
def autoName (t : Tree) : Option (Tree × List (Str × List Nat)) :=
  let (t', st) := nameNode {} [] t
  if st.failed then none
  else if st.map.isEmpty then
    match nextName st.last with
    | some nm => some (t'.setLay { t'.lay with name := some nm }, [(nm, [])])
    | none => none
  else some (t', st.map)

/-! ### MatchingPropagator -/

/-- `isinstance(node, classes)` for a tuple of classes given by name -/
def isInstanceOf (classes : List String) (t : Tree) : Bool :=
  (mroOf t.className).any (fun c => classes.contains c)

/-- `_status_from_parent` -/
def statusFromParent (matching other : List (List Nat)) : Nat → List Nat → Bool
  | 0, _ => false
  | fuel + 1, path =>
    if matching.contains path then true
    else if other.contains path then false
    else if path.isEmpty then false
    else statusFromParent matching other fuel path.dropLast

structure PropCfg where
  orNodes : List String
  negNodes : List String := Generated.negationNodes
  noDescend : List String := Generated.noChildrenPropagate

def propCfg (defaultOr : Bool) : PropCfg :=
  { orNodes := if defaultOr then Generated.orNodesDefaultOr else Generated.orNodesDefaultAnd }

mutual
/-- `_propagate`: (node is matching, paths ok, paths ko) -/
def propagate (cfg : PropCfg) (matching other : List (List Nat)) (path : List Nat) (t : Tree) :
    Bool × List (List Nat) × List (List Nat) :=
  let descend := !t.children.isEmpty && !isInstanceOf cfg.noDescend t
  let (statuses, ok, ko) : List Bool × List (List Nat) × List (List Nat) :=
    if descend then
      match t with
      | .field _ e _ | .group _ e _ | .approx _ e _ _ | .boost e _ _ | .unary _ e _ | .orange _ e _ _ =>
        let (s, o, k) := propagate cfg matching other (path ++ [0]) e
        ([s], o, k)
      | .range a b _ _ _ =>
        let (s1, o1, k1) := propagate cfg matching other (path ++ [0]) a
        let (s2, o2, k2) := propagate cfg matching other (path ++ [1]) b
        ([s1, s2], o1 ++ o2, k1 ++ k2)
      | .op _ xs _ => propagateList cfg matching other path 0 xs
      | _ => ([], [], [])
    else ([], [], [])
  let nodeOk0 :=
    if matching.contains path then true
    else if !statuses.isEmpty then
      if isInstanceOf cfg.orNodes t then statuses.any id else statuses.all id
    else statusFromParent matching other (path.length + 1) path
  let nodeOk := if isInstanceOf cfg.negNodes t then !nodeOk0 else nodeOk0
  if nodeOk then (nodeOk, ok ++ [path], ko) else (nodeOk, ok, ko ++ [path])
def propagateList (cfg : PropCfg) (matching other : List (List Nat)) (path : List Nat) (i : Nat) :
    List Tree → List Bool × List (List Nat) × List (List Nat)
  | [] => ([], [], [])
  | x :: r =>
    let (s, o, k) := propagate cfg matching other (path ++ [i]) x
    let (ss, os, ks) := propagateList cfg matching other path (i + 1) r
    (s :: ss, o ++ os, k ++ ks)
end

/-! ### HTMLMarker -/

structure MarkCfg where
  okClass : Str := "ok".toList
  koClass : Str := "ko".toList
  element : Str := "span".toList
  parcimonious : Bool := true

/-- `css_class` -/
def cssClass (m : MarkCfg) (ok ko : List (List Nat)) (path : List Nat) : Option Str :=
  if ok.contains path then some m.okClass else if ko.contains path then some m.koClass else none

/-- class of the nearest strict ancestor that has one -/
def parentClass (m : MarkCfg) (ok ko : List (List Nat)) : Nat → List Nat → Option Str
  | 0, _ => none
  | fuel + 1, path =>
    if path.isEmpty then none
    else
      let p := path.dropLast
      match cssClass m ok ko p with
      | some c => some c
      | none => parentClass m ok ko fuel p

/-- `HTMLMarker.mark_node` on the layout of the (already copied) node -/
def markLay (m : MarkCfg) (ok ko : List (List Nat)) (path : List Nat) (l : Lay) : Lay :=
  match cssClass m ok ko path with
  | none => l
  | some cls =>
    let add := if m.parcimonious then parentClass m ok ko (path.length + 1) path != some cls else true
    if add then
      { l with head := "<".toList ++ m.element ++ " class=\"".toList ++ cls ++ "\">".toList ++ l.head,
               tail := l.tail ++ "</".toList ++ m.element ++ ">".toList }
    else l

mutual
/-- `ExpressionMarker.visit`: path-tracking copy, every copied node passed through `mark_node` -/
def markTree (m : MarkCfg) (ok ko : List (List Nat)) (path : List Nat) : Tree → Tree
  | .term k v l => .term k v (markLay m ok ko path l.noName)
  | .none l => .none (markLay m ok ko path l.noName)
  | .field n e l => .field n (markTree m ok ko (path ++ [0]) e) (markLay m ok ko path l.noName)
  | .group k e l => .group k (markTree m ok ko (path ++ [0]) e) (markLay m ok ko path l.noName)
  | .approx k e n l => .approx k (markTree m ok ko (path ++ [0]) e) n (markLay m ok ko path l.noName)
  | .boost e n l => .boost (markTree m ok ko (path ++ [0]) e) n (markLay m ok ko path l.noName)
  | .unary k e l => .unary k (markTree m ok ko (path ++ [0]) e) (markLay m ok ko path l.noName)
  | .orange k e i l => .orange k (markTree m ok ko (path ++ [0]) e) i (markLay m ok ko path l.noName)
  | .range a b il ih l =>
    .range (markTree m ok ko (path ++ [0]) a) (markTree m ok ko (path ++ [1]) b) il ih
      (markLay m ok ko path l.noName)
  | .op k xs l => .op k (markList m ok ko path 0 xs) (markLay m ok ko path l.noName)
def markList (m : MarkCfg) (ok ko : List (List Nat)) (path : List Nat) (i : Nat) : List Tree → List Tree
  | [] => []
  | x :: r => markTree m ok ko (path ++ [i]) x :: markList m ok ko path (i + 1) r
end

/-- `HTMLMarker(...)(tree, paths_ok, paths_ko, parcimonious)` -/
def htmlMark (m : MarkCfg) (ok ko : List (List Nat)) (t : Tree) : Str :=
  (markTree m ok ko [] t).strHT

end Luqum
