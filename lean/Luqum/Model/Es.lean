/-
  Luqum.Model.Es — model of `luqum.elasticsearch`: field-spec normalisation (`luqum.utils`),
  `CheckNestedFields`, `ElasticsearchQueryBuilder` (visitor), the E-tree and its JSON.
-/
import Luqum.Model.Visitor
import Luqum.Model.Lexer

namespace Luqum

/-! ### JSON values -/

inductive JVal
  | str (s : Str)
  | num (d : Dec)
  | bool (b : Bool)
  | null
  | arr (xs : List JVal)
  | obj (kvs : List (Str × JVal))
deriving Repr, Inhabited

abbrev JObj := List (Str × JVal)

def jget (o : JObj) (k : Str) : Option JVal := (o.find? (fun e => e.1 == k)).map (·.2)
def jerase (o : JObj) (k : Str) : JObj := o.filter (fun e => e.1 != k)
/-- `d[k] = v` -/
def jset (o : JObj) (k : Str) (v : JVal) : JObj :=
  if o.any (fun e => e.1 == k) then o.map (fun e => if e.1 == k then (k, v) else e) else o ++ [(k, v)]

/-- Python truthiness of a JSON value -/
def JVal.truthy : JVal → Bool
  | .str s => !s.isEmpty
  | .num d => d.coeff != 0
  | .bool b => b
  | .null => false
  | .arr xs => !xs.isEmpty
  | .obj kvs => !kvs.isEmpty

/-! ### field specifications (`luqum.utils`) -/

/-- a `nested_fields` / `object_fields` / `sub_fields` specification as the user may spell it -/
inductive Spec
  | none
  | list (xs : List Str)
  | dict (kvs : List (Str × Spec))
deriving Repr, Inhabited

def splitOnChar (c : Char) (s : Str) : List Str :=
  let rec go (cur : Str) : Str → List Str
    | [] => [cur.reverse]
    | x :: r => if x = c then cur.reverse :: go [] r else go (x :: cur) r
  go [] s

def joinDot (xs : List Str) : Str := joinWith ['.'] xs

/-- `k.rsplit(".", 1)[0]` -/
def rsplitHead (s : Str) : Str :=
  match splitOnChar '.' s with
  | [] => []
  | [x] => x
  | parts => joinDot parts.dropLast

def dedup (xs : List Str) : List Str := xs.foldl (fun acc x => if acc.contains x then acc else acc ++ [x]) []

mutual
/-- `normalize_nested_fields_specs` (the result is again a `Spec` made of dicts only) -/
def normalizeNested : Spec → Spec
  | .none => .dict []
  | .list xs => .dict ((dedup xs).map fun x => (x, Spec.dict []))
  | .dict kvs => .dict (normalizeNestedKvs kvs)
def normalizeNestedKvs : List (Str × Spec) → List (Str × Spec)
  | [] => []
  | (k, v) :: r => (k, normalizeNested v) :: normalizeNestedKvs r
end

mutual
/-- `_flatten_fields_specs` -/
def flattenSpecs : Spec → List (List Str)
  | .none => [[]]
  | .list xs => if xs.isEmpty then [[]] else xs.map fun k => [k]
  | .dict kvs => if kvs.isEmpty then [[]] else flattenKvs kvs
def flattenKvs : List (Str × Spec) → List (List Str)
  | [] => []
  | (k, v) :: r => (flattenSpecs v).map (fun v2 => k :: v2) ++ flattenKvs r
end

/-- `flatten_nested_fields_specs` (as a duplicate-free list) -/
def flattenNested : Spec → List Str
  | .none => []
  | .list xs => dedup xs
  | .dict kvs => dedup ((flattenSpecs (.dict kvs)).map joinDot)

/-- `normalize_object_fields_specs`; `none` = no specification -/
def normalizeObject : Spec → Option (List Str)
  | .none => none
  | .list xs => some (dedup xs)
  | .dict kvs => some (dedup ((flattenSpecs (.dict kvs)).map joinDot))

/-! ### configuration -/

structure EsCfg where
  defaultMust : Bool := false            -- default_operator == MUST
  defaultField : Str := "text".toList
  notAnalyzed : List Str := []
  nested : Spec := .none
  objectFields : Spec := .none
  subFields : Spec := .none
  fieldOptions : List (Str × JObj) := []
  matchWordAsPhrase : Bool := false

def EsCfg.nestedNorm (c : EsCfg) : Spec := normalizeNested c.nested
def EsCfg.nestedFlat (c : EsCfg) : List Str := flattenNested c.nestedNorm
def EsCfg.nestedPrefixes (c : EsCfg) : List Str := dedup (c.nestedFlat.map rsplitHead)
def EsCfg.objectNorm (c : EsCfg) : Option (List Str) := normalizeObject c.objectFields
def EsCfg.objectPrefixes (c : EsCfg) : List Str := dedup ((c.objectNorm.getD []).map rsplitHead)
/-- the builder hands the *normalised* object fields (a set) to the checker, and `sub_fields` as given -/
def EsCfg.subNorm (c : EsCfg) : Option (List Str) := normalizeObject c.subFields

inductive EsErr
  | orAnd (msg : Str)
  | nestedSearch (msg : Str)
  | objectSearch (msg : Str)
  /-- an exception of another class escaping (unsupported constructs): the class name -/
  | other (cls : String)
deriving Repr, Inhabited

/-! ### CheckNestedFields -/

def quoteMsg (expr field : Str) (tailMsg : String) : Str :=
  ['"'] ++ expr ++ "\" can't be directly attributed to \"".toList ++ field ++ tailMsg.toList

/-- `_check_final_operation` -/
def checkFinal (c : EsCfg) (pfx : List Str) (node : Tree) : Except EsErr Unit :=
  if pfx.isEmpty then .ok ()
  else
    let full := joinDot pfx
    if c.nestedPrefixes.contains full then
      .error (.nestedSearch (quoteMsg node.str full "\" as it is a nested field"))
    else if c.objectPrefixes.contains full then
      .error (.nestedSearch (quoteMsg node.str full "\" as it is an object field"))
    else if pfx.length > 1 then
      match c.subNorm, c.objectNorm with
      | some sub, some obj =>
        if !sub.contains full && !obj.contains full && !c.nestedFlat.contains full then
          .error (.objectSearch (['"'] ++ node.str ++ "\" attributed to unknown nested or object field \"".toList
            ++ full ++ ['"']))
        else .ok ()
      | _, _ => .ok ()
    else .ok ()

mutual
/-- `CheckNestedFields.visit_iter` (first exception in document order wins) -/
def nestingCheck (c : EsCfg) (pfx : List Str) : Tree → Except EsErr Unit
  | .term k v l => checkFinal c pfx (.term k v l)
  | .none _ => .ok ()
  | .field n e _ => nestingCheck c (pfx ++ splitOnChar '.' n) e
  | .group _ e _ => nestingCheck c pfx e
  | .approx _ e _ _ => nestingCheck c pfx e
  | .boost e _ _ => nestingCheck c pfx e
  | .unary _ e _ => nestingCheck c pfx e
  | .orange _ e _ _ => nestingCheck c pfx e
  | .range a b _ _ _ =>
    match nestingCheck c pfx a with
    | .ok _ => nestingCheck c pfx b
    | .error e => .error e
  | .op _ xs _ => nestingCheckList c pfx xs
def nestingCheckList (c : EsCfg) (pfx : List Str) : List Tree → Except EsErr Unit
  | [] => .ok ()
  | x :: r =>
    match nestingCheck c pfx x with
    | .ok _ => nestingCheckList c pfx r
    | .error e => .error e
end

/-! ### the E-tree -/

inductive EKind | word | phrase | range deriving DecidableEq, Repr

/-- an `AbstractEItem` (EWord / EPhrase / ERange) with the attributes that reach the JSON -/
structure EItem where
  kind : EKind
  q : Option Str := none
  method0 : Str := "term".toList
  fields : List Str := []
  name : Option Str := none
  boost : Option Dec := none
  fuzzy : Option Dec := none
  slop : Option Dec := none
  zeroTerms : Str := "none".toList
  rangeKeys : List (Str × Str) := []
deriving Repr

inductive EOpK | must | mustNot | should | boolOp deriving DecidableEq, Repr

inductive ETree
  | item (i : EItem)
  | op (k : EOpK) (items : List ETree)
  | nested (path : Str) (inner : ETree) (name : Option Str)
deriving Repr

instance : Inhabited ETree := ⟨.op .must []⟩

/-- `Term.has_wildcard` (`WILDCARDS_PATTERN`): an unescaped `*` / `?` -/
def hasWildcardAux : Option Char → Option Char → Str → Bool
  | _, _, [] => false
  | p2, p1, c :: r =>
    ((c == '*' || c == '?') &&
      (match p1 with
       | none => true
       | some b => b != '\\' || p2 == some '\\')) || hasWildcardAux p1 (some c) r

def hasWildcard (s : Str) : Bool := hasWildcardAux none none s

def EItem.field (i : EItem) : Str := joinDot i.fields

def EItem.wild (i : EItem) : Bool :=
  match i.kind with
  | .phrase => false
  | _ => hasWildcard (i.q.getD [])

def startsWith (p s : Str) : Bool := s.take p.length == p

/-- `AbstractEItem.method` -/
def EItem.method (c : EsCfg) (i : EItem) : Str :=
  let analyzed := !c.notAnalyzed.contains i.field
  if !analyzed && i.wild then "wildcard".toList
  else if analyzed then
    if i.wild then "query_string".toList
    else if startsWith "match".toList i.method0 then
      let opts := (c.fieldOptions.find? (fun e => e.1 == i.field)).map (·.2) |>.getD []
      match jget opts "match_type".toList with
      | some (.str m) => m
      | some _ => i.method0      -- a non-string option value: outside the modelled configurations
      | none =>
        match jget opts "type".toList with
        | some (.str m) => m
        | some _ => i.method0
        | none => i.method0
    else i.method0
  else i.method0

def containsSub (sub s : Str) : Bool :=
  let rec go : Nat → Str → Bool
    | 0, _ => false
    | n + 1, t => startsWith sub t || (match t with | [] => false | _ :: r => go n r)
  go (s.length + 1) s

/-- `AbstractEItem.json` / `EWord.json` -/
def EItem.json (c : EsCfg) (i : EItem) : JVal :=
  let field := i.field
  let nameKv : JObj := match i.name with | some n => [("_name".toList, JVal.str n)] | none => []
  if i.kind == .word && i.q == some ['*'] then
    .obj [("exists".toList, .obj ([("field".toList, JVal.str field)] ++ nameKv))]
  else
    let opts := (c.fieldOptions.find? (fun e => e.1 == field)).map (·.2) |>.getD []
    let mt := jget opts "match_type".toList
    let inner0 := jerase opts "match_type".toList
    let inner1 := if (mt.map JVal.truthy).getD false then inner0 else jerase inner0 "type".toList
    let method := i.method c
    -- keys in the order boost, fuzziness, _name, then the additional ones
    let inner2 := match i.boost with | some b => jset inner1 "boost".toList (.num b) | none => inner1
    let inner3 := match i.fuzzy with | some f => jset inner2 "fuzziness".toList (.num f) | none => inner2
    let inner4 := match i.name with | some n => jset inner3 "_name".toList (.str n) | none => inner3
    let inner5 :=
      match i.kind, i.q with
      | .range, _ => i.rangeKeys.foldl (fun o kv => jset o kv.1 (.str kv.2)) inner4
      | _, none => inner4
      | _, some q =>
        if containsSub "match".toList method then
          let o := jset inner4 "query".toList (.str q)
          if method == "match".toList then jset o "zero_terms_query".toList (.str i.zeroTerms) else o
        else if method == "query_string".toList then
          let o := jset (jset inner4 "query".toList (.str q)) "default_field".toList (.str field)
          let o := jset o "analyze_wildcard".toList ((jget o "analyze_wildcard".toList).getD (.bool true))
          jset o "allow_leading_wildcard".toList ((jget o "allow_leading_wildcard".toList).getD (.bool true))
        else jset inner4 "value".toList (.str q)
    let inner6 := match i.kind, i.slop with
      | .phrase, some s => jset inner5 "slop".toList (.num s)
      | _, _ => inner5
    if method == "query_string".toList || method == "multi_match".toList then
      .obj [(method, .obj inner6)]
    else .obj [(method, .obj [(field, .obj inner6)])]

def EOpK.key : EOpK → Str
  | .must => "must".toList | .mustNot => "must_not".toList | .should => "should".toList | .boolOp => []

mutual
/-- `.json` of an E-tree -/
def ETree.json (c : EsCfg) : ETree → JVal
  | .item i => i.json c
  | .nested path inner name =>
    .obj [("nested".toList, .obj ([("path".toList, JVal.str path), ("query".toList, inner.json c)] ++
      (match name with
       | some n => if n.isEmpty then [] else [("_name".toList, JVal.str n)]
       | none => [])))]
  | .op .boolOp items =>
    let must := ETree.boolPart c .must items
    let should := ETree.boolPart c .should items
    let mustNot := ETree.boolPart c .mustNot items
    .obj [("bool".toList, .obj (
      (if must.isEmpty then [] else [("must".toList, JVal.arr must)]) ++
      (if should.isEmpty then [] else [("should".toList, JVal.arr should)]) ++
      (if mustNot.isEmpty then [] else [("must_not".toList, JVal.arr mustNot)])))]
  | .op k items => .obj [("bool".toList, .obj [(k.key, .arr (ETree.jsons c items))])]
def ETree.jsons (c : EsCfg) : List ETree → List JVal
  | [] => []
  | x :: r => x.json c :: ETree.jsons c r
/-- `EBoolOperation.json`: items of an `EMust` go to must, of an `EMustNot` to must_not, any other
item to should -/
def ETree.boolPart (c : EsCfg) (part : EOpK) : List ETree → List JVal
  | [] => []
  | .op .must sub :: r =>
    (if part == .must then ETree.jsons c sub else []) ++ ETree.boolPart c part r
  | .op .mustNot sub :: r =>
    (if part == .mustNot then ETree.jsons c sub else []) ++ ETree.boolPart c part r
  | x :: r => (if part == .should then [x.json c] else []) ++ ETree.boolPart c part r
end

/-- `item.zero_terms_query = …` on the direct items of an `EMust` / `EMustNot` -/
def setZeroTerms (v : Str) : List ETree → List ETree
  | [] => []
  | .item i :: r => .item { i with zeroTerms := v } :: setZeroTerms v r
  | x :: r => x :: setZeroTerms v r

/-- `factory.build(E_MUST / E_MUST_NOT / E_SHOULD / E_BOOL_OPERATION, items)` -/
def buildOp (k : EOpK) (items : List ETree) : ETree :=
  match k with
  | .must => .op .must (setZeroTerms "all".toList items)
  | .mustNot => .op .mustNot (setZeroTerms "none".toList items)
  | k => .op k items

mutual
/-- `ENested._exclude_nested_children` -/
def excludeNested (path : Str) : ETree → ETree
  | .nested p inner name => if p == path then excludeNested path inner else .nested p inner name
  | .op k items => .op k (excludeNestedList path items)
  | .item i => .item i
def excludeNestedList (path : Str) : List ETree → List ETree
  | [] => []
  | x :: r => excludeNested path x :: excludeNestedList path r
end

/-! ### the builder -/

structure EsCtx where
  analyzed : Option Bool := none
  fieldPrefix : Option (List Str) := none
  name : Option Str := none

def EsCfg.isAnalyzed (c : EsCfg) (x : EsCtx) : Bool :=
  match x.analyzed with
  | some b => b
  | none => !c.notAnalyzed.contains c.defaultField

def EsCfg.fields (c : EsCfg) (x : EsCtx) : List Str := x.fieldPrefix.getD [c.defaultField]

/-- `_propagate_name` -/
def propagateName (t : Tree) (x : EsCtx) : EsCtx :=
  match t.lay.name with
  | some n => if n.isEmpty then x else { x with name := some n }
  | none => x

/-- `get_name(node, context)` -/
def ctxName (t : Tree) (x : EsCtx) : Option Str :=
  match t.lay.name with
  | some n => some n
  | none => x.name

def EsCfg.isMust (c : EsCfg) : Tree → Bool
  | .op .and _ _ => true
  | .op .unk _ _ => c.defaultMust
  | _ => false
def EsCfg.isShould (c : EsCfg) : Tree → Bool
  | .op .or _ _ => true
  | .op .unk _ _ => !c.defaultMust
  | _ => false

/-- `str.find` -/
def findSub (sub s : Str) : Option Nat :=
  let rec go : Nat → Nat → Str → Option Nat
    | 0, _, _ => none
    | n + 1, i, t => if startsWith sub t then some i else (match t with | [] => none | _ :: r => go n (i + 1) r)
  go (s.length + 1) 0 s

/-- `_get_operator_extract(child)` (delta = 8); `none` models the IndexError on < 2 operands -/
def operatorExtract (child : Tree) : Option Str :=
  match child.children with
  | c1 :: c2 :: _ =>
    let nodeStr := child.str
    let s1 := c1.str
    let s2 := c2.str
    let middle : Int := (nodeStr.length : Int) - s1.length - s2.length
    let position : Int := match findSub s2 nodeStr with | some i => i | none => -1
    let start : Int := if position - middle - 8 ≥ 0 then position - middle - 8 else 0
    let stop : Int := position + 8
    -- python slice semantics for a possibly negative `stop`
    let n : Int := nodeStr.length
    let stop' : Int := if stop < 0 then max (stop + n) 0 else min stop n
    let start' : Int := min start n
    some ((nodeStr.drop start'.toNat).take (stop' - start').toNat)
  | _ => none

/-- same *type* (exact class) as used by `simplify_if_same` -/
def sameType (a b : Tree) : Bool := a.className == b.className

def exactlyOne (r : Except EsErr (List ETree)) : Except EsErr ETree :=
  match r with
  | .error e => .error e
  | .ok [x] => .ok x
  | .ok _ => .error (.other "ValueError")

def setBoost (d : Dec) : ETree → ETree
  | .item i => .item { i with boost := some d }
  | t => t
/-- the `fuzziness` setter: also switches the method to `fuzzy` -/
def setFuzzy (d : Dec) : ETree → ETree
  | .item i => .item { i with fuzzy := some d, method0 := "fuzzy".toList }
  | t => t
def setSlop (d : Dec) : ETree → ETree
  | .item i => if i.kind == .phrase then .item { i with slop := some d } else .item i
  | t => t

/-- `re.sub(r'\s+', ' ', phrase)` -/
def collapseAux : Bool → Str → Str
  | _, [] => []
  | prevSpace, c :: r =>
    if isSpace c then (if prevSpace then collapseAux true r else ' ' :: collapseAux true r)
    else c :: collapseAux false r
def collapseSpaces (s : Str) : Str := collapseAux false s

/-- keyword arguments of `ERange`: which keys end up in the JSON -/
def rangeKeysOf (lowKey highKey lo hi : Str) : List (Str × Str) :=
  let usable (v : Str) : Bool := !v.isEmpty && v != ['*']
  (if usable hi then [(highKey, hi)] else []) ++ (if usable lo then [(lowKey, lo)] else [])

def termValue? : Tree → Option Str
  | .term _ v _ => some v
  | _ => none

mutual
/-- `ElasticsearchQueryBuilder.visit_iter(node, context)` -/
def esVisit (c : EsCfg) (x : EsCtx) : Tree → Except EsErr (List ETree)
  | .term .word v l =>
    let method : Str := if c.isAnalyzed x then (if c.matchWordAsPhrase then "match_phrase".toList else "match".toList)
                        else "term".toList
    .ok [.item { kind := .word, q := some v, method0 := method, fields := c.fields x,
                 name := ctxName (.term .word v l) x }]
  | .term .phrase v l =>
    if c.isAnalyzed x then
      .ok [.item { kind := .phrase, q := some (((collapseSpaces v).drop 1).dropLast),
                   method0 := "match_phrase".toList, fields := c.fields x, name := ctxName (.term .phrase v l) x }]
    else
      .ok [.item { kind := .word, q := some ((v.drop 1).dropLast), method0 := "term".toList,
                   fields := c.fields x, name := ctxName (.term .phrase v l) x }]
  | .term .regex _ _ => .ok []
  | .none _ => .ok []
  | .range lo hi il ih l =>
    match termValue? lo, termValue? hi with
    | some lv, some hv =>
      .ok [.item { kind := .range, method0 := "range".toList, fields := c.fields x,
                   name := ctxName (.range lo hi il ih l) x,
                   rangeKeys := rangeKeysOf (if il then "gte".toList else "gt".toList)
                                            (if ih then "lte".toList else "lt".toList) lv hv }]
    | _, _ => .error (.other "AttributeError")
  | .field n e l =>
    let pfx := x.fieldPrefix.getD [] ++ splitOnChar '.' n
    let full := joinDot pfx
    let x' := propagateName (.field n e l)
      { x with analyzed := some (!c.notAnalyzed.contains full), fieldPrefix := some pfx }
    match exactlyOne (esVisit c x' e) with
    | .error err => .error err
    | .ok enode =>
      let names := splitOnChar '.' n
      let base := x.fieldPrefix.getD []
      -- longest first: names, names[:-1], …, names[:1]
      let cands := (List.range names.length).map fun i => joinDot (base ++ names.take (names.length - i))
      match cands.find? (fun p => c.nestedPrefixes.contains p), enode with
      | some _, .nested p i nm => .ok [.nested p i nm]
      | some path, en => .ok [.nested path (excludeNested path en) (ctxName (.field n e l) x)]
      | none, en => .ok [en]
  | .group k e l => esVisit c (propagateName (.group k e l) x) e
  | .orange k e i l => esVisit c (propagateName (.orange k e i l) x) e
  | .boost e n l =>
    match exactlyOne (esVisit c (propagateName (.boost e n l) x) e) with
    | .error err => .error err
    | .ok en => .ok [setBoost n.val en]
  | .approx .fuzzy e n l =>
    match exactlyOne (esVisit c (propagateName (.approx .fuzzy e n l) x) e) with
    | .error err => .error err
    | .ok en => .ok [setFuzzy n.val en]
  | .approx .proximity e n l =>
    match exactlyOne (esVisit c (propagateName (.approx .proximity e n l) x) e) with
    | .error err => .error err
    | .ok en => .ok [if c.isAnalyzed x then setSlop n.val en else setFuzzy n.val en]
  | .unary .plus e l =>
    -- `_must_operation`: simplify_if_same flattens `++a`
    (esOperand c (propagateName (.unary .plus e l) x) (.unary .plus e l) e).map fun items => [buildOp .must items]
  | .unary k e l =>
    match esVisit c (propagateName (.unary k e l) x) e with
    | .error err => .error err
    | .ok items => .ok [buildOp .mustNot items]
  | .op k xs l =>
    let node := Tree.op k xs l
    let ek : EOpK := match k with
      | .and => .must | .or => .should | .bool => .boolOp
      | .unk => if c.defaultMust then .must else .should
    (esOperands c (propagateName node x) node xs).map fun items => [buildOp ek items]
/-- the loop of `_binary_operation` over the children of `parent`, with `simplify_if_same`
(a child of exactly the parent's class is replaced by its own children, recursively) and, for each
remaining child, first the AND/OR mix test (`_yield_nested_children`), then its visit -/
def esOperands (c : EsCfg) (x : EsCtx) (parent : Tree) : List Tree → Except EsErr (List ETree)
  | [] => .ok []
  | ch :: r =>
    match esOperand c x parent ch with
    | .error e => .error e
    | .ok items =>
      match esOperands c x parent r with
      | .error e => .error e
      | .ok rest => .ok (items ++ rest)
def esOperand (c : EsCfg) (x : EsCtx) (parent : Tree) : Tree → Except EsErr (List ETree)
  | .op k ys l =>
    if sameType (.op k ys l) parent then esOperands c x parent ys
    else if (c.isShould parent && c.isMust (.op k ys l)) || (c.isMust parent && c.isShould (.op k ys l)) then
      match operatorExtract (.op k ys l) with
      | some m => .error (.orAnd m)
      | none => .error (.other "IndexError")
    else esVisit c x (.op k ys l)
  | .unary k e l =>
    if sameType (.unary k e l) parent then esOperand c x parent e
    else esVisit c x (.unary k e l)
  | ch => esVisit c x ch
end

/-- `ElasticsearchQueryBuilder(**cfg)(tree)` -/
def esBuild (c : EsCfg) (t : Tree) : Except EsErr JVal :=
  match nestingCheck c [] t with
  | .error e => .error e
  | .ok _ =>
    match esVisit c {} t with
    | .error e => .error e
    | .ok [] => .error (.other "IndexError")
    | .ok (e :: _) => .ok (e.json c)

end Luqum
