/-
  Luqum.Model.Pretty — model of `luqum.pretty.Prettifier`.
-/
import Luqum.Model.Basic

namespace Luqum

/-- what `_get_chains` yields: strings, the stick marker, and nested lists (indentation levels) -/
inductive Chain
  | str (s : Str)
  | stick
  | sub (xs : List Chain)
deriving Repr, Inhabited

structure PrettyCfg where
  indent : Nat := 4
  maxLen : Int := 80
  inlineOps : Bool := false

def opText : Tree → Option Str
  | .op k _ _ => some k.word
  | _ => none

/-- separators yielded between two operands of an operation -/
def opSeparators (inline : Bool) (op : Str) : List Chain :=
  (if inline then [Chain.stick] else []) ++ (if op.isEmpty then [] else [Chain.str op])

mutual
/-- `_get_chains(element, parent)`; `parentOp` = `parent.op` when the parent is an operation -/
def getChains (inline : Bool) (parentOp : Option Str) : Tree → List Chain
  | .op k xs _ =>
    let body := getChainsOperands inline k.word xs
    match parentOp with
    | some p => if p == k.word then body else [Chain.sub body]
    | none => body
  | .group _ e _ =>
    [Chain.str ['('], Chain.sub (getChains inline none e)] ++ (if inline then [Chain.stick] else [])
      ++ [Chain.str [')']]
  | .field n e _ => [Chain.str (n ++ [':']), Chain.stick] ++ getChains inline none e
  | t => [Chain.str t.str]
/-- the chains of the operands of an operation with operator text `op`, separated -/
def getChainsOperands (inline : Bool) (op : Str) : List Tree → List Chain
  | [] => []
  | [x] => getChains inline (some op) x
  | x :: r => getChains inline (some op) x ++ opSeparators inline op ++ getChainsOperands inline op r
end

mutual
/-- `_count_chars`: the count attached to an element -/
def Chain.count : Chain → Int
  | .str s => s.length
  | .stick => 0
  | .sub xs => Chain.countList xs - 1
/-- `sum(n + 1 for c, n in with_counts)` -/
def Chain.countList : List Chain → Int
  | [] => 0
  | x :: r => x.count + 1 + Chain.countList r
end

/-- `str.split("\n")` -/
def splitLines (s : Str) : List Str :=
  let rec go (cur : Str) : Str → List Str
    | [] => [cur.reverse]
    | c :: r => if c = '\n' then cur.reverse :: go [] r else go (c :: cur) r
  go [] s

/-- an element after its sub-lists have been rendered -/
inductive Elt
  | str (s : Str)
  | stick

/-- `_apply_stick`; `none` models the failure on an empty list (`None.split`) / a leading marker -/
def applyStick : List Elt → Option Str → Bool → Option (List Str)
  | [], last, _ => last.map (fun l => [l])
  | .stick :: r, last, _ =>
    match last with
    | none => none
    | some l => applyStick r (some l) true
  | .str c :: r, last, sticking =>
    if sticking then
      match last with
      | some l => applyStick r (some (l ++ [' '] ++ c)) false
      | none => none
    else
      match last with
      | some l => (applyStick r (some c) false).map (fun rest => l :: rest)
      | none => applyStick r (some c) false

def joinStr (sep : Str) : List Str → Str
  | [] => []
  | [x] => x
  | x :: r => x ++ sep ++ joinStr sep r

mutual
/-- `_concatenates(chain_with_counts, char_counts, level, in_one_liner)` -/
def concatenates (cfg : PrettyCfg) (xs : List Chain) (n : Int) (level : Nat) (inOne : Bool) : Option Str :=
  let oneLiner := inOne || n < cfg.maxLen - (cfg.indent * level : Nat)
  let newLevel := if oneLiner then level else level + 1
  match concatElts cfg xs newLevel oneLiner with
  | none => none
  | some elts =>
    match applyStick elts none false with
    | none => none
    | some strs =>
      let prefix_ : Str := if level ≠ 0 && !inOne then List.replicate cfg.indent ' ' else []
      let joinChar : Str := if oneLiner then [' '] else '\n' :: prefix_
      some (prefix_ ++ joinStr joinChar (strs.flatMap splitLines))
def concatElts (cfg : PrettyCfg) : List Chain → Nat → Bool → Option (List Elt)
  | [], _, _ => some []
  | .str s :: r, lvl, one => (concatElts cfg r lvl one).map (fun rest => Elt.str s :: rest)
  | .stick :: r, lvl, one => (concatElts cfg r lvl one).map (fun rest => Elt.stick :: rest)
  | .sub ys :: r, lvl, one =>
    match concatenates cfg ys (Chain.countList ys - 1) lvl one, concatElts cfg r lvl one with
    | some s, some rest => some (Elt.str s :: rest)
    | _, _ => none
end

/-- `Prettifier(indent, max_len, inline_ops)(tree)` -/
def prettify (cfg : PrettyCfg) (t : Tree) : Option Str :=
  let chains := getChains cfg.inlineOps none t
  concatenates cfg chains (Chain.countList chains - 1) 0 false

end Luqum
