/-
  Luqum.Model.Transform — models of the shipped tree transformers:
  `UnknownOperationResolver`, `OpenRangeTransformer` (luqum/utils.py) and `AutoHeadTail`
  (luqum/auto_head_tail.py). Each is a `TreeTransformer`: nodes without a specific visit method are
  copied by `clone_item` (attached names are not copied).
-/
import Luqum.Model.Visitor

namespace Luqum

/-! ### UnknownOperationResolver -/

inductive ResolveTo | lucene | and | or | bool deriving DecidableEq, Repr, Inhabited

/-- key of the `last_operation` dict: `_first_nonop_parent(parents)` -- the *first* (root-most)
ancestor that is not an operation, identified by its path; `none` when all ancestors are operations -/
abbrev RKey := Option (List Nat)
/-- the `last_operation` dict -/
abbrev RStore := List (RKey × OpK)

def RStore.get (s : RStore) (k : RKey) : OpK :=
  match s.find? (fun e => e.1 == k) with
  | some e => e.2
  | none => .and          -- DEFAULT_OPERATION

def RStore.set (s : RStore) (k : RKey) (v : OpK) : RStore :=
  (k, v) :: s.filter (fun e => e.1 != k)

def isOp : Tree → Bool
  | .op .. => true
  | _ => false

/-- key seen by the children of node `t` at `path` when `t` itself sees `top` -/
def childKey (top : RKey) (path : List Nat) (t : Tree) : RKey :=
  match top with
  | some k => some k
  | none => if isOp t then none else some path

/-- `child.head = add_head + child.head` for every child but the first -/
def addHeads (h : Str) : List Tree → List Tree
  | [] => []
  | x :: r => x :: r.map (fun c => c.setHead (h ++ c.head))

mutual
/-- `UnknownOperationResolver(resolve_to, add_head).visit`. `d` is the `last_operation` dict visible
in the context of this node (`none`: the key is absent from the context, a dict created below is not
seen by siblings); the result carries the new content of that same dict object. -/
def resolveNode (to : ResolveTo) (h : Str) (d : Option RStore) (top : RKey) (path : List Nat) :
    Tree → Tree × Option RStore
  | .term k v l => (.term k v l.noName, d)
  | .none l => (.none l.noName, d)
  | .field n e l =>
    let (e', d') := resolveNode to h d (childKey top path (.field n e l)) (path ++ [0]) e
    (.field n e' l.noName, d')
  | .group k e l =>
    let (e', d') := resolveNode to h d (childKey top path (.group k e l)) (path ++ [0]) e
    (.group k e' l.noName, d')
  | .approx k e n l =>
    let (e', d') := resolveNode to h d (childKey top path (.approx k e n l)) (path ++ [0]) e
    (.approx k e' n l.noName, d')
  | .boost e n l =>
    let (e', d') := resolveNode to h d (childKey top path (.boost e n l)) (path ++ [0]) e
    (.boost e' n l.noName, d')
  | .unary k e l =>
    let (e', d') := resolveNode to h d (childKey top path (.unary k e l)) (path ++ [0]) e
    (.unary k e' l.noName, d')
  | .orange k e i l =>
    let (e', d') := resolveNode to h d (childKey top path (.orange k e i l)) (path ++ [0]) e
    (.orange k e' i l.noName, d')
  | .range a b il ih l =>
    let ck := childKey top path (.range a b il ih l)
    let (a', d1) := resolveNode to h d ck (path ++ [0]) a
    let (b', d2) := resolveNode to h d1 ck (path ++ [1]) b
    (.range a' b' il ih l.noName, d2)
  | .op k xs l =>
    -- children of an operation see the same key as the operation itself
    match to, k with
    | .lucene, .and | .lucene, .or =>
      let s := (d.getD []).set top k
      let (xs', s') := resolveList to h (some s) top path 0 xs
      (.op k xs' l.noName, if d.isSome then s' else none)
    | .lucene, .unk =>
      let s := d.getD []
      let k' := s.get top
      let (xs', s') := resolveList to h (some s) top path 0 xs
      (.op k' (addHeads h xs') l.noName, if d.isSome then s' else none)
    | _, .unk =>
      let k' := match to with | .and => OpK.and | .or => OpK.or | _ => OpK.bool
      let (xs', d') := resolveList to h d top path 0 xs
      (.op k' (addHeads h xs') l.noName, d')
    | _, _ =>
      let (xs', d') := resolveList to h d top path 0 xs
      (.op k xs' l.noName, d')
def resolveList (to : ResolveTo) (h : Str) (d : Option RStore) (top : RKey) (path : List Nat) (i : Nat) :
    List Tree → List Tree × Option RStore
  | [] => ([], d)
  | x :: r =>
    let (x', d1) := resolveNode to h d top (path ++ [i]) x
    let (r', d2) := resolveList to h d1 top path (i + 1) r
    (x' :: r', d2)
end

/-- `UnknownOperationResolver(resolve_to, add_head)(tree)` -/
def resolve (to : ResolveTo) (h : Str) (t : Tree) : Tree := (resolveNode to h none none [] t).1

/-! ### OpenRangeTransformer -/

/-- `item == OpenRangeTransformer.WILDCARD_WORD` -/
def isWildcard : Tree → Bool
  | .term .word v _ => v == ['*']
  | _ => false

inductive Side | low | high deriving DecidableEq, Repr

/-- `_get_node_bound_side` -/
def boundSide : Tree → Option Side
  | .range lo hi _ _ _ =>
    if isWildcard lo && !isWildcard hi then some .high
    else if !isWildcard lo && isWildcard hi then some .low
    else none
  | _ => none

/-- merge the bound of `child` (side `cs`) into the pending range `j` -/
def joinRange (j child : Tree) (cs : Side) : Tree :=
  match j, child with
  | .range lo hi il ih l, .range clo chi cil cih _ =>
    match cs with
    | .low => .range clo hi cil ih l
    | .high => .range lo chi il cih l
  | j, _ => j

structure MergeSt where
  out : List Tree := []
  pending : List Nat := []      -- indices into `out`, oldest first
  side : Option Side := none

def mergeStep (st : MergeSt) (child : Tree) : MergeSt :=
  match boundSide child with
  | some cs =>
    if st.pending.isEmpty || st.side == some cs then
      { out := st.out ++ [child], pending := st.pending ++ [st.out.length], side := some cs }
    else
      match st.pending with
      | j :: rest =>
        { out := st.out.modify j (fun x => joinRange x child cs), pending := rest, side := st.side }
      | [] => st
  | none => { st with out := st.out ++ [child] }

/-- the loop of `visit_and_operation` over the (already transformed) operands -/
def mergeOps (xs : List Tree) : List Tree := (xs.foldl mergeStep {}).out

/-- `WILDCARD_WORD.clone_item()` -/
def wildcardWord : Tree := .term .word ['*'] {}

mutual
/-- `OpenRangeTransformer(merge_ranges, add_head).visit` -/
def openRange (merge : Bool) (h : Str) : Tree → Tree
  | .term k v l => .term k v l.noName
  | .none l => .none l.noName
  | .field n e l => .field n (openRange merge h e) l.noName
  | .group k e l => .group k (openRange merge h e) l.noName
  | .approx k e n l => .approx k (openRange merge h e) n l.noName
  | .boost e n l => .boost (openRange merge h e) n l.noName
  | .unary k e l => .unary k (openRange merge h e) l.noName
  | .range a b il ih l => .range (openRange merge h a) (openRange merge h b) il ih l.noName
  | .orange .from e inc l =>
    let c := openRange merge h e
    .range (c.setTail (c.tail ++ h)) (wildcardWord.setHead h) inc true l.noName
  | .orange .to e inc l =>
    let c := openRange merge h e
    .range (wildcardWord.setTail h) (c.setHead (c.head ++ h)) true inc l.noName
  | .op k xs l =>
    let xs' := openRangeList merge h xs
    if merge && k == .and then .op .and (mergeOps xs') l.noName
    else .op k xs' l.noName
def openRangeList (merge : Bool) (h : Str) : List Tree → List Tree
  | [] => []
  | x :: r => openRange merge h x :: openRangeList merge h r
end

/-! ### AutoHeadTail -/

def spacer : Str := [' ']
def addHeadIfEmpty (t : Tree) : Tree := if t.head.isEmpty then t.setHead spacer else t
def addTailIfEmpty (t : Tree) : Tree := if t.tail.isEmpty then t.setTail spacer else t

/-- `visit_base_operation`: tail on the first, head and tail on the inner ones, head on the last
(first and last may be the same node) -/
def ahtOperands : List Tree → List Tree
  | [] => []
  | [x] => [addHeadIfEmpty (addTailIfEmpty x)]
  | x :: r =>
    let n := r.length
    addTailIfEmpty x :: (r.take (n - 1)).map (fun c => addTailIfEmpty (addHeadIfEmpty c))
      ++ (r.drop (n - 1)).map addHeadIfEmpty

/-- `visit_unknown_operation`: tail on every operand but the last -/
def ahtUnknownOperands : List Tree → List Tree
  | [] => []
  | [x] => [x]
  | x :: r => addTailIfEmpty x :: ahtUnknownOperands r

mutual
/-- `auto_head_tail(t)`; `none` models the `IndexError` on an operation without operands -/
def aht : Tree → Option Tree
  | .term k v l => some (.term k v l.noName)
  | .none l => some (.none l.noName)
  | .field n e l => (aht e).map fun e' => .field n e' l.noName
  | .group k e l => (aht e).map fun e' => .group k e' l.noName
  | .approx k e n l => (aht e).map fun e' => .approx k e' n l.noName
  | .boost e n l => (aht e).map fun e' => .boost e' n l.noName
  | .unary .not e l => (aht e).map fun e' => .unary .not (addHeadIfEmpty e') l.noName
  | .unary k e l => (aht e).map fun e' => .unary k e' l.noName
  | .orange k e i l => (aht e).map fun e' => .orange k e' i l.noName
  | .range a b il ih l =>
    match aht a, aht b with
    | some a', some b' => some (.range (addTailIfEmpty a') (addHeadIfEmpty b') il ih l.noName)
    | _, _ => none
  | .op k xs l =>
    match ahtList xs with
    | none => none
    | some xs' =>
      if k == .unk then some (.op k (ahtUnknownOperands xs') l.noName)
      else if xs'.isEmpty then none
      else some (.op k (ahtOperands xs') l.noName)
def ahtList : List Tree → Option (List Tree)
  | [] => some []
  | x :: r =>
    match aht x, ahtList r with
    | some x', some r' => some (x' :: r')
    | _, _ => none
end

end Luqum
