/-
  Luqum.Model.Basic — data model of `luqum.tree` (items, layout, printing, equality, cloning).

  Hand-written model (tie to the source: correspondence harness + generated class data).
  Core Lean only: this file must stay free of Mathlib imports (it is linked into the driver).
-/
namespace Luqum

abbrev Str := List Char

/-- A `decimal.Decimal` that is finite: sign, coefficient, exponent (value = ±coeff·10^exp). -/
structure Dec where
  neg : Bool := false
  coeff : Nat := 0
  exp : Int := 0
deriving DecidableEq, Repr, Inhabited

/-- The number carried by `Fuzzy` / `Proximity` (`degree`) or `Boost` (`force`).
`implicit` is `_implicit_degree` / `implicit_force`; `raw` is a *ghost* field: the spelling of the
numeral in the source text (only the parser model fills it; never observable in the implementation;
only used to state losslessness up to numeral re-spelling). -/
structure Num where
  val : Dec := {}
  implicit : Bool := false
  raw : Str := []
deriving DecidableEq, Repr, Inhabited

/-- Layout and bookkeeping attributes every `Item` has (`head`, `tail`, `pos`, `size`) plus the
attached name (`_luqum_name`, `none` when the attribute is absent). -/
structure Lay where
  head : Str := []
  tail : Str := []
  pos : Option Int := none
  size : Option Int := none
  name : Option Str := none
deriving DecidableEq, Repr, Inhabited

inductive TermK | word | phrase | regex deriving DecidableEq, Repr, Inhabited
inductive GrpK | group | fieldGroup deriving DecidableEq, Repr, Inhabited
inductive ApxK | fuzzy | proximity deriving DecidableEq, Repr, Inhabited
inductive OpK | and | or | unk | bool deriving DecidableEq, Repr, Inhabited
inductive UnK | plus | not | prohibit deriving DecidableEq, Repr, Inhabited
inductive ORK | from | to deriving DecidableEq, Repr, Inhabited

/-- `luqum.tree` items. One constructor per family of concrete classes. -/
inductive Tree where
  | term (k : TermK) (v : Str) (l : Lay)
  | field (name : Str) (e : Tree) (l : Lay)
  | group (k : GrpK) (e : Tree) (l : Lay)
  | range (lo hi : Tree) (il ih : Bool) (l : Lay)
  | approx (k : ApxK) (t : Tree) (n : Num) (l : Lay)
  | boost (e : Tree) (n : Num) (l : Lay)
  | op (k : OpK) (xs : List Tree) (l : Lay)
  | unary (k : UnK) (a : Tree) (l : Lay)
  | orange (k : ORK) (a : Tree) (inc : Bool) (l : Lay)
  | none (l : Lay)
deriving Repr, Inhabited

namespace Tree

def lay : Tree → Lay
  | term _ _ l | field _ _ l | group _ _ l | range _ _ _ _ l | approx _ _ _ l
  | boost _ _ l | op _ _ l | unary _ _ l | orange _ _ _ l | none l => l

def setLay : Tree → Lay → Tree
  | term k v _, l => term k v l
  | field n e _, l => field n e l
  | group k e _, l => group k e l
  | range a b il ih _, l => range a b il ih l
  | approx k t n _, l => approx k t n l
  | boost e n _, l => boost e n l
  | op k xs _, l => op k xs l
  | unary k a _, l => unary k a l
  | orange k a i _, l => orange k a i l
  | none _, l => none l

def head (t : Tree) : Str := t.lay.head
def tail (t : Tree) : Str := t.lay.tail
def setHead (t : Tree) (h : Str) : Tree := t.setLay { t.lay with head := h }
def setTail (t : Tree) (x : Str) : Tree := t.setLay { t.lay with tail := x }

/-- `item.children` -/
def children : Tree → List Tree
  | term .. => []
  | field _ e _ => [e]
  | group _ e _ => [e]
  | range a b _ _ _ => [a, b]
  | approx _ t _ _ => [t]
  | boost e _ _ => [e]
  | op _ xs _ => xs
  | unary _ a _ => [a]
  | orange _ a _ _ => [a]
  | none _ => []

/-- `item.children = value`; `none` models the `ValueError` of the generic setter. -/
def setChildren : Tree → List Tree → Option Tree
  | term k v l, [] => some (term k v l)
  | field n _ l, [e] => some (field n e l)
  | group k _ l, [e] => some (group k e l)
  | range _ _ il ih l, [a, b] => some (range a b il ih l)
  | approx k _ n l, [t] => some (approx k t n l)
  | boost _ n l, [e] => some (boost e n l)
  | op k _ l, xs => some (op k xs l)
  | unary k _ l, [a] => some (unary k a l)
  | orange k _ i l, [a] => some (orange k a i l)
  | none l, [] => some (none l)
  | _, _ => Option.none

/-- Python class name of the node. -/
def className : Tree → String
  | term .word _ _ => "Word" | term .phrase _ _ => "Phrase" | term .regex _ _ => "Regex"
  | field .. => "SearchField"
  | group .group _ _ => "Group" | group .fieldGroup _ _ => "FieldGroup"
  | range .. => "Range"
  | approx .fuzzy .. => "Fuzzy" | approx .proximity .. => "Proximity"
  | boost .. => "Boost"
  | op .and _ _ => "AndOperation" | op .or _ _ => "OrOperation"
  | op .unk _ _ => "UnknownOperation" | op .bool _ _ => "BoolOperation"
  | unary .plus _ _ => "Plus" | unary .not _ _ => "Not" | unary .prohibit _ _ => "Prohibit"
  | orange .from .. => "From" | orange .to .. => "To"
  | none _ => "NoneItem"

end Tree

/-! ### numbers -/

def natDigits (n : Nat) : Str := (Nat.repr n).toList

/-- `format(d, 'f')` for a finite Decimal (after fix F1 this is how `~`/`^` numbers print). -/
def Dec.render (d : Dec) : Str :=
  let ds := natDigits d.coeff
  let body : Str :=
    if d.exp ≥ 0 then
      if d.coeff = 0 then ['0'] else ds ++ List.replicate d.exp.toNat '0'
    else
      let k := (-d.exp).toNat
      let ds' := List.replicate (k + 1 - ds.length) '0' ++ ds
      ds'.take (ds'.length - k) ++ ['.'] ++ ds'.drop (ds'.length - k)
  if d.neg then '-' :: body else body

/-- canonical representative of the numeric value (Python's `==` on Decimals compares values). -/
def stripZeros : Nat → Nat → Int → Nat × Int
  | 0, c, e => (c, e)
  | fuel + 1, c, e => if c ≠ 0 ∧ c % 10 = 0 then stripZeros fuel (c / 10) (e + 1) else (c, e)

def Dec.canon (d : Dec) : Dec :=
  if d.coeff = 0 then { neg := false, coeff := 0, exp := 0 }
  else
    let (c, e) := stripZeros d.coeff d.coeff d.exp
    { neg := d.neg, coeff := c, exp := e }

/-- Python `a == b` for two finite Decimals / ints. -/
def Dec.numEq (a b : Dec) : Bool := a.canon == b.canon

/-- what `__str__` prints after `~` / `^` -/
def Num.shown (n : Num) : Str := if n.implicit then [] else n.val.render

/-- the spelling in the source text (ghost) -/
def Num.source (n : Num) : Str := if n.implicit then [] else n.raw

/-! ### printing (`__str__`) -/

def joinWith (sep : Str) : List Str → Str
  | [] => []
  | [x] => x
  | x :: y :: r => x ++ sep ++ joinWith sep (y :: r)

def OpK.word : OpK → Str
  | .and => "AND".toList | .or => "OR".toList | .unk => [] | .bool => []

def UnK.word : UnK → Str
  | .plus => ['+'] | .not => "NOT".toList | .prohibit => ['-']

def ORK.word : ORK → Str
  | .from => ['>'] | .to => ['<']

/-- which spelling of numerals to print: as the implementation does, or as in the source. -/
inductive NumStyle | norm | raw deriving DecidableEq, Repr

def Num.text (s : NumStyle) (n : Num) : Str :=
  match s with | .norm => n.shown | .raw => n.source

mutual
/-- `item.__str__(head_tail=False)` -/
def Tree.body (s : NumStyle) : Tree → Str
  | .term _ v _ => v
  | .field n e _ => n ++ [':'] ++ e.full s
  | .group _ e _ => ['('] ++ e.full s ++ [')']
  | .range a b il ih _ =>
      [if il then '[' else '{'] ++ a.full s ++ "TO".toList ++ b.full s ++ [if ih then ']' else '}']
  | .approx _ t n _ => t.full s ++ ['~'] ++ n.text s
  | .boost e n _ => e.full s ++ ['^'] ++ n.text s
  | .op k xs _ => joinWith k.word (Tree.fulls s xs)
  | .unary k a _ => k.word ++ a.full s
  | .orange k a inc _ => k.word ++ (if inc then ['='] else []) ++ a.full s
  | .none _ => []
/-- `item.__str__(head_tail=True)`; note `NoneItem.__str__` ignores head and tail. -/
def Tree.full (s : NumStyle) : Tree → Str
  | .none _ => []
  | .term _ v l => l.head ++ v ++ l.tail
  | .field n e l => l.head ++ (n ++ [':'] ++ e.full s) ++ l.tail
  | .group _ e l => l.head ++ (['('] ++ e.full s ++ [')']) ++ l.tail
  | .range a b il ih l =>
      l.head ++ ([if il then '[' else '{'] ++ a.full s ++ "TO".toList ++ b.full s
        ++ [if ih then ']' else '}']) ++ l.tail
  | .approx _ t n l => l.head ++ (t.full s ++ ['~'] ++ n.text s) ++ l.tail
  | .boost e n l => l.head ++ (e.full s ++ ['^'] ++ n.text s) ++ l.tail
  | .op k xs l => l.head ++ joinWith k.word (Tree.fulls s xs) ++ l.tail
  | .unary k a l => l.head ++ (k.word ++ a.full s) ++ l.tail
  | .orange k a inc l => l.head ++ (k.word ++ (if inc then ['='] else []) ++ a.full s) ++ l.tail
def Tree.fulls (s : NumStyle) : List Tree → List Str
  | [] => []
  | x :: r => x.full s :: Tree.fulls s r
end

/-- `str(item)` -/
def Tree.str (t : Tree) : Str := t.body .norm
/-- `item.__str__(head_tail=True)` -/
def Tree.strHT (t : Tree) : Str := t.full .norm

/-! ### equality (`Item.__eq__`, generic over `_equality_attrs` and children) -/

mutual
def Tree.eqv : Tree → Tree → Bool
  | .term k v _, .term k' v' _ => k == k' && v == v'
  | .field n e _, .field n' e' _ => n == n' && e.eqv e'
  | .group k e _, .group k' e' _ => k == k' && e.eqv e'
  | .range a b il ih _, .range a' b' il' ih' _ => ih == ih' && il == il' && a.eqv a' && b.eqv b'
  | .approx k t n _, .approx k' t' n' _ => k == k' && n.val.numEq n'.val && t.eqv t'
  | .boost e n _, .boost e' n' _ => n.val.numEq n'.val && e.eqv e'
  | .op k xs _, .op k' xs' _ => k == k' && Tree.eqvs xs xs'
  | .unary k a _, .unary k' a' _ => k == k' && a.eqv a'
  | .orange k a i _, .orange k' a' i' _ => k == k' && i == i' && a.eqv a'
  | .none _, .none _ => true
  | _, _ => false
/-- `len(c) == len(d) and all(c.__eq__(d) for c, d in zip(...))` -/
def Tree.eqvs : List Tree → List Tree → Bool
  | [], [] => true
  | x :: r, y :: s => x.eqv y && Tree.eqvs r s
  | _, _ => false
end

/-! ### cloning -/

/-- `NONE_ITEM` -/
def noneItem : Tree := .none {}

/-- `item.clone_item()`: same class, layout and own attributes; children are `NONE_ITEM`;
operations get no operands (`cls(**attrs)`); the attached name is *not* copied. (After fix F2 the
implicit flag of a degree/force is kept.) -/
def Tree.cloneItem : Tree → Tree
  | .term k v l => .term k v { l with name := Option.none }
  | .field n _ l => .field n noneItem { l with name := Option.none }
  | .group k _ l => .group k noneItem { l with name := Option.none }
  | .range _ _ il ih l => .range noneItem noneItem il ih { l with name := Option.none }
  | .approx k _ n l => .approx k noneItem n { l with name := Option.none }
  | .boost _ n l => .boost noneItem n { l with name := Option.none }
  | .op k _ l => .op k [] { l with name := Option.none }
  | .unary k _ l => .unary k noneItem { l with name := Option.none }
  | .orange k _ i l => .orange k noneItem i { l with name := Option.none }
  | .none l => .none { l with name := Option.none }

/-! ### generic traversal helpers -/

mutual
def Tree.nodeCount : Tree → Nat
  | .term .. => 1
  | .field _ e _ => e.nodeCount + 1
  | .group _ e _ => e.nodeCount + 1
  | .range a b _ _ _ => a.nodeCount + b.nodeCount + 1
  | .approx _ t _ _ => t.nodeCount + 1
  | .boost e _ _ => e.nodeCount + 1
  | .op _ xs _ => Tree.nodeCounts xs + 1
  | .unary _ a _ => a.nodeCount + 1
  | .orange _ a _ _ => a.nodeCount + 1
  | .none _ => 1
def Tree.nodeCounts : List Tree → Nat
  | [] => 0
  | x :: r => x.nodeCount + Tree.nodeCounts r
end

end Luqum
