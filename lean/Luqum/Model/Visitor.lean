/-
  Luqum.Model.Visitor — model of `luqum.visitor`: method dispatch along the MRO (with the
  per-instance dispatch cache as explicit state), generic traversal with the `parents` context and
  the index path, and the default `TreeTransformer` (deep copy through `clone_item`).
-/
import Luqum.Model.Basic
import Luqum.Generated.Classes

namespace Luqum

/-- MRO (class names, most specific first, without `object`) of a concrete class, from the
generated class table -/
def mroOf (cls : String) : List String :=
  match Generated.classTable.find? (fun r => r.1 == cls) with
  | some r => r.2.1
  | none => []

/-- `TreeVisitor._get_method` without cache: the first class of the MRO for which the visitor has
a method, else the generic method. `handlers` = the classes `C` for which `visit_<c>` exists. -/
def dispatch (handlers : List String) (cls : String) : String :=
  match (mroOf cls).find? (fun c => handlers.contains c) with
  | some c => c
  | none => "<generic>"

/-- the dispatch cache (`_get_method_cache`): class ↦ handler -/
abbrev Cache := List (String × String)

def Cache.get? (c : Cache) (cls : String) : Option String := (c.find? (fun e => e.1 == cls)).map (·.2)

/-- `_get_method` with the cache -/
def dispatchCached (handlers : List String) (cache : Cache) (cls : String) : String × Cache :=
  match cache.get? cls with
  | some h => (h, cache)
  | none =>
    let h := dispatch handlers cls
    (h, (cls, h) :: cache)

/-- one call of a handler: which handler, on which node, with which `parents` and `path` -/
structure Event where
  handler : String
  node : Tree
  parents : List Tree   -- root first (proper ancestors)
  path : List Nat

mutual
/-- `visit_iter` of a visitor none of whose handlers overrides traversal (each handler records the
call and delegates to `generic_visit`), with `track_parents` and path tracking -/
def visitEvents (handlers : List String) (cache : Cache) (parents : List Tree) (path : List Nat)
    (t : Tree) : List Event × Cache :=
  let (h, cache1) := dispatchCached handlers cache t.className
  let ev : Event := { handler := h, node := t, parents := parents, path := path }
  match t with
  | .term .. => ([ev], cache1)
  | .none _ => ([ev], cache1)
  | .field _ e _ => let (es, c) := visitEvents handlers cache1 (parents ++ [t]) (path ++ [0]) e; (ev :: es, c)
  | .group _ e _ => let (es, c) := visitEvents handlers cache1 (parents ++ [t]) (path ++ [0]) e; (ev :: es, c)
  | .approx _ e _ _ => let (es, c) := visitEvents handlers cache1 (parents ++ [t]) (path ++ [0]) e; (ev :: es, c)
  | .boost e _ _ => let (es, c) := visitEvents handlers cache1 (parents ++ [t]) (path ++ [0]) e; (ev :: es, c)
  | .unary _ e _ => let (es, c) := visitEvents handlers cache1 (parents ++ [t]) (path ++ [0]) e; (ev :: es, c)
  | .orange _ e _ _ => let (es, c) := visitEvents handlers cache1 (parents ++ [t]) (path ++ [0]) e; (ev :: es, c)
  | .range a b _ _ _ =>
    let (ea, c1) := visitEvents handlers cache1 (parents ++ [t]) (path ++ [0]) a
    let (eb, c2) := visitEvents handlers c1 (parents ++ [t]) (path ++ [1]) b
    (ev :: (ea ++ eb), c2)
  | .op _ xs _ =>
    let (es, c) := visitEventsList handlers cache1 (parents ++ [t]) path 0 xs
    (ev :: es, c)
def visitEventsList (handlers : List String) (cache : Cache) (parents : List Tree) (path : List Nat)
    (i : Nat) : List Tree → List Event × Cache
  | [] => ([], cache)
  | x :: r =>
    let (e1, c1) := visitEvents handlers cache parents (path ++ [i]) x
    let (e2, c2) := visitEventsList handlers c1 parents path (i + 1) r
    (e1 ++ e2, c2)
end

mutual
/-- document (pre-)order enumeration of the nodes with their ancestors and index path -/
def preorder (parents : List Tree) (path : List Nat) (t : Tree) : List (Tree × List Tree × List Nat) :=
  (t, parents, path) :: match t with
  | .term .. => []
  | .none _ => []
  | .field _ e _ => preorder (parents ++ [t]) (path ++ [0]) e
  | .group _ e _ => preorder (parents ++ [t]) (path ++ [0]) e
  | .approx _ e _ _ => preorder (parents ++ [t]) (path ++ [0]) e
  | .boost e _ _ => preorder (parents ++ [t]) (path ++ [0]) e
  | .unary _ e _ => preorder (parents ++ [t]) (path ++ [0]) e
  | .orange _ e _ _ => preorder (parents ++ [t]) (path ++ [0]) e
  | .range a b _ _ _ => preorder (parents ++ [t]) (path ++ [0]) a ++ preorder (parents ++ [t]) (path ++ [1]) b
  | .op _ xs _ => preorderList (parents ++ [t]) path 0 xs
def preorderList (parents : List Tree) (path : List Nat) (i : Nat) :
    List Tree → List (Tree × List Tree × List Nat)
  | [] => []
  | x :: r => preorder parents (path ++ [i]) x ++ preorderList parents path (i + 1) r
end

/-! ### default transformer -/

/-- `clone_item` does not copy the attached name -/
def Lay.noName (l : Lay) : Lay := { l with name := Option.none }

mutual
/-- `TreeTransformer().visit(t)`: `generic_visit` = `clone_item` + cloned children -/
def Tree.copy : Tree → Tree
  | .term k v l => .term k v l.noName
  | .none l => .none l.noName
  | .field n e l => .field n e.copy l.noName
  | .group k e l => .group k e.copy l.noName
  | .range a b il ih l => .range a.copy b.copy il ih l.noName
  | .approx k e n l => .approx k e.copy n l.noName
  | .boost e n l => .boost e.copy n l.noName
  | .op k xs l => .op k (Tree.copies xs) l.noName
  | .unary k e l => .unary k e.copy l.noName
  | .orange k e i l => .orange k e.copy i l.noName
def Tree.copies : List Tree → List Tree
  | [] => []
  | x :: r => x.copy :: Tree.copies r
end

/-- `element_from_path` -/
def Tree.at? : Tree → List Nat → Option Tree
  | t, [] => some t
  | t, i :: r => match t.children[i]? with
    | Option.some c => c.at? r
    | Option.none => Option.none

end Luqum
