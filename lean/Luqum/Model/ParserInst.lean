/-
  The parser model instantiated with the tables generated from the live PLY parser object.
-/
import Luqum.Model.Parser
import Luqum.Generated.Tables

namespace Luqum

def tables : Tables where
  terminals := Generated.terminals
  nonterminals := Generated.nonterminals
  action := Generated.actionTable
  goto := Generated.gotoTable
  prods := Generated.productions.toArray

/-- `luqum.parser.parser.parse(s)` / `luqum.thread.parse(s)` -/
def parse (s : Str) : Except ParseErr Tree := parseWith tables s

end Luqum
