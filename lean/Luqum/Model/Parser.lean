/-
  Luqum.Model.Parser — model of `luqum.parser.parse`: numeric conversions, semantic actions
  (`p_*` + `HeadTailManager` + `create_operation`), and PLY's LALR driver loop over tables that
  are a *parameter* (instantiated with the generated tables in Luqum.Model.ParserInst).
-/
import Luqum.Model.Lexer

namespace Luqum

/-! ### numbers after `~` and `^` -/

def digitVal (c : Char) : Nat := c.toNat - '0'.toNat

def digitsToNat (ds : Str) : Nat := ds.foldl (fun a c => a * 10 + digitVal c) 0

/-- `decimal.Decimal(s)` for `s` matching `[0-9.]+`: exact; fails (`InvalidOperation`) unless there is
at most one dot and at least one digit -/
def Dec.ofLiteral (s : Str) : Option Dec :=
  let ip := s.takeWhile (· ≠ '.')
  let rest := s.dropWhile (· ≠ '.')
  match rest with
  | [] => if ip.isEmpty then none else some { neg := false, coeff := digitsToNat ip, exp := 0 }
  | _ :: fp =>
    if fp.contains '.' then none
    else if ip.isEmpty && fp.isEmpty then none
    else some { neg := false, coeff := digitsToNat (ip ++ fp), exp := - (fp.length : Int) }

/-- decimal context precision (`decimal.getcontext().prec`; pinned by a translator obligation) -/
def decPrec : Nat := 28

/-- `Decimal.normalize()`: round half-even to `decPrec` significant digits, strip trailing zeros,
zero becomes `0` (sign kept) -/
def Dec.normalize (d : Dec) : Dec :=
  let nd := (natDigits d.coeff).length
  let (c, e) : Nat × Int :=
    if nd > decPrec then
      let drop := nd - decPrec
      let p := 10 ^ drop
      let q := d.coeff / p
      let r := d.coeff % p
      let half := p / 2
      let q' := if r > half || (r == half && q % 2 == 1) then q + 1 else q
      (q', d.exp + drop)
    else (d.coeff, d.exp)
  if c = 0 then { neg := d.neg, coeff := 0, exp := 0 }
  else
    let (c', e') := stripZeros c c e
    { neg := d.neg, coeff := c', exp := e' }

/-- `int(s)` for `s` matching `[0-9.]+`: digits only, at most `intMaxStrDigits` of them -/
def intMaxStrDigits : Nat := 4300
def intOfLiteral (s : Str) : Option Nat :=
  if s.all (fun c => '0' ≤ c && c ≤ '9') && !s.isEmpty && s.length ≤ intMaxStrDigits
  then some (digitsToNat s) else none

/-! ### parse-stack values -/

/-- `TokenValue` -/
structure TokV where
  value : Option Str
  lay : Lay
deriving Repr, Inhabited

inductive Val
  | tok (k : TokK) (v : TokV)
  | item (t : Tree)
deriving Repr, Inhabited

def Val.lay : Val → Lay
  | .tok _ v => v.lay
  | .item t => t.lay

/-- what a token contributes to the stack: `Word`/`Phrase`/`Regex` items for the term rules,
a `TokenValue` otherwise -/
def Tok.toVal (t : Tok) : Val :=
  let lay : Lay := { head := t.head, tail := t.tail, pos := some t.pos, size := some t.text.length }
  match t.kind with
  | .term => .item (.term .word t.text lay)
  | .phrase => .item (.term .phrase t.text lay)
  | .regex => .item (.term .regex t.text lay)
  | .approx | .boost =>
      .tok t.kind { value := if t.text.length ≤ 1 then none else some (t.text.drop 1), lay := lay }
  | k => .tok k { value := some t.text, lay := lay }

/-- `str(p.value)` as used by `p_error` -/
def Val.errText : Val → Str
  | .item t => t.str
  | .tok _ v => v.value.getD []

inductive ParseErr
  | illegalChar (pos : Nat) (rest : Str)
  | syntaxAt (text : Str) (pos : Nat)
  | syntaxEnd
  | badNumber (text : Str) (pos : Int)
  /-- not a luqum error: something the model regards as impossible (internal inconsistency of the
  tables, wrong arity); reported as such by the driver -/
  | internal (msg : String)
deriving Repr, DecidableEq, Inhabited

/-! ### HeadTailManager -/

def layLen (l : Lay) : Int := (l.size.getD 0) + l.head.length + l.tail.length

/-- `HeadTailManager.pos`: (pos, size) of the new element from the layouts of its parts -/
def mgrPos (parts : List Lay) (headTransfer tailTransfer : Bool) : Option Int × Option Int :=
  match parts with
  | [] => (none, none)
  | first :: _ =>
    let last := parts.getLast?.getD first
    let pos : Option Int := first.pos.map fun (p : Int) => if headTransfer then p else p - (first.head.length : Int)
    let total : Int := (parts.map layLen).foldl (· + ·) 0
    let s1 := if headTransfer then total - first.head.length else total
    let s2 := if tailTransfer then s1 - last.tail.length else s1
    (pos, some s2)

def isOpOf (k : OpK) : Tree → Bool
  | .op k' _ _ => k' == k
  | _ => false

/-- `create_operation(cls, a, b, op_tail)` -/
def createOp (k : OpK) (a b : Tree) (opTail : Str) : Tree :=
  let l := match a with
    | .op k' xs lay => if k' = k then xs else [.op k' xs lay]
    | t => [t]
  let r := match b with
    | .op k' xs lay => if k' = k then xs else [.op k' xs lay]
    | t => [t]
  let r' := match r with
    | [] => []
    | x :: rest => x.setHead (x.head ++ opTail) :: rest
  .op k (l ++ r') {}

/-- the right operand as `binary_operation` sees it after `create_operation` mutated it -/
def afterCreate (k : OpK) (b : Tree) (opTail : Str) : Tree :=
  match b with
  | .op k' xs lay =>
    if k' = k then
      match xs with
      | [] => .op k' [] lay
      | x :: rest => .op k' (x.setHead (x.head ++ opTail) :: rest) lay
    else (Tree.op k' xs lay).setHead (lay.head ++ opTail)
  | t => t.setHead (t.head ++ opTail)

def binaryOp (k : OpK) (a : Tree) (opLay : Option Lay) (b : Tree) : Tree :=
  let opTail := match opLay with | some l => l.tail | none => []
  let node := createOp k a b opTail
  let b' := afterCreate k b opTail
  let parts := match opLay with
    | some l => [a.lay, l, b'.lay]
    | none => [a.lay, b'.lay]
  let (pos, size) := mgrPos parts false false
  node.setLay { head := [], tail := [], pos := pos, size := size.map (· - opTail.length) }

/-- `OP expr` -/
def mgrUnary (opLay : Lay) (e : Tree) (mk : Tree → Lay → Tree) : Tree :=
  let (pos, size) := mgrPos [opLay, e.lay] true false
  mk (e.setHead (opLay.tail ++ e.head)) { head := opLay.head, tail := [], pos := pos, size := size }

/-- `expr OP` -/
def mgrPostUnary (e : Tree) (opLay : Lay) (mk : Tree → Lay → Tree) : Tree :=
  let (pos, size) := mgrPos [e.lay, opLay] false true
  mk (e.setTail (e.tail ++ opLay.head)) { head := [], tail := opLay.tail, pos := pos, size := size }

def numError (v : TokV) : ParseErr := .badNumber (v.value.getD []) (v.lay.pos.getD 0)

/-- number of a `Fuzzy` / `Boost` from the token value -/
def decNum (v : TokV) (dflt : Dec) : Except ParseErr Num :=
  match v.value with
  | none => .ok { val := dflt, implicit := true, raw := [] }
  | some s =>
    match Dec.ofLiteral s with
    | some d => .ok { val := d.normalize, implicit := false, raw := s }
    | none => .error (numError v)

def intNum (v : TokV) : Except ParseErr Num :=
  match v.value with
  | none => .ok { val := { coeff := 1 }, implicit := true, raw := [] }
  | some s =>
    match intOfLiteral s with
    | some n => .ok { val := { coeff := n }, implicit := false, raw := s }
    | none => .error (numError v)

/-- the semantic action named `f` applied to the values of the right-hand side. The token kinds are
matched explicitly (the real functions index `p[i]` blindly; with tables whose right-hand sides are
the ones of the docstrings they only ever see these kinds -- the correspondence runs cover this) -/
def act (f : String) (vs : List Val) : Except ParseErr Val :=
  match f, vs with
  | "p_expression_or", [.item a, .tok .orOp o, .item b] => .ok (.item (binaryOp .or a (some o.lay) b))
  | "p_expression_and", [.item a, .tok .andOp o, .item b] => .ok (.item (binaryOp .and a (some o.lay) b))
  | "p_expression_implicit", [.item a, .item b] => .ok (.item (binaryOp .unk a none b))
  | "p_expression_plus", [.tok .plus o, .item e] => .ok (.item (mgrUnary o.lay e (.unary .plus)))
  | "p_expression_minus", [.tok .minus o, .item e] => .ok (.item (mgrUnary o.lay e (.unary .prohibit)))
  | "p_expression_not", [.tok .not o, .item e] => .ok (.item (mgrUnary o.lay e (.unary .not)))
  | "p_expression_unary", [v] => .ok v
  | "p_grouping", [.tok .lparen lp, .item e, .tok .rparen rp] =>
    let (pos, size) := mgrPos [lp.lay, e.lay, rp.lay] true true
    let e1 := e.setHead (lp.lay.tail ++ e.head)
    let e2 := e1.setTail (e1.tail ++ rp.lay.head)
    .ok (.item (.group .group e2 { head := lp.lay.head, tail := rp.lay.tail, pos := pos, size := size }))
  | "p_range", [.tok .lbracket lb, .item lo, .tok .to to, .item hi, .tok .rbracket rb] =>
    let (pos, size) := mgrPos [lb.lay, lo.lay, to.lay, hi.lay, rb.lay] true true
    let lo1 := lo.setHead (lb.lay.tail ++ lo.head)
    let lo2 := lo1.setTail (lo1.tail ++ to.lay.head)
    let hi1 := hi.setHead (to.lay.tail ++ hi.head)
    let hi2 := hi1.setTail (hi1.tail ++ rb.lay.head)
    .ok (.item (.range lo2 hi2 (lb.value == some ['[']) (rb.value == some [']'])
      { head := lb.lay.head, tail := rb.lay.tail, pos := pos, size := size }))
  | "p_possibly_negative_term", [.tok .minus o, .item e] => .ok (.item (mgrUnary o.lay e (.unary .prohibit)))
  | "p_possibly_negative_term", [v] => .ok v
  | "p_phrase_or_possibly_negative_term", [v] => .ok v
  | "p_lessthan", [.tok .lessthan o, .item e] =>
    .ok (.item (mgrUnary o.lay e (fun a l => .orange .to a ((o.value.getD []).contains '=') l)))
  | "p_greaterthan", [.tok .greaterthan o, .item e] =>
    .ok (.item (mgrUnary o.lay e (fun a l => .orange .from a ((o.value.getD []).contains '=') l)))
  | "p_field_search", [.item (.term .word name nl), .tok .column c, .item e] =>
    let e' := match e with
      | .group .group x l => Tree.group .fieldGroup x { l with name := none }
      | t => t
    let (pos, size) := mgrPos [nl, c.lay, e'.lay] true false
    .ok (.item (.field name (e'.setHead (c.lay.tail ++ e'.head))
      { head := nl.head, tail := [], pos := pos, size := size }))
  | "p_quoting", [v] => .ok v
  | "p_proximity", [.item e, .tok .approx a] =>
    match intNum a with
    | .ok n => .ok (.item (mgrPostUnary e a.lay (fun x l => .approx .proximity x n l)))
    | .error err => .error err
  | "p_boosting", [.item e, .tok .boost a] =>
    match decNum a { coeff := 1 } with
    | .ok n => .ok (.item (mgrPostUnary e a.lay (fun x l => .boost x n l)))
    | .error err => .error err
  | "p_terms", [v] => .ok v
  | "p_fuzzy", [.item e, .tok .approx a] =>
    match decNum a { coeff := 5, exp := -1 } with
    | .ok n => .ok (.item (mgrPostUnary e a.lay (fun x l => .approx .fuzzy x n l)))
    | .error err => .error err
  | "p_regex", [v] => .ok v
  | "p_to_as_term", [.tok .to t] =>
    let (pos, size) := mgrPos [t.lay] true true
    .ok (.item (.term .word (t.value.getD []) { head := t.lay.head, tail := t.lay.tail, pos := pos, size := size }))
  | "p_phrase_or_term", [v] => .ok v
  | f, _ => .error (.internal s!"no action {f} for these values")

/-! ### LALR driver (PLY `LRParser.parseopt_notrack`) -/

structure Tables where
  terminals : List String
  nonterminals : List String
  action : Array (Array (Option Int))
  goto : Array (Array (Option Int))
  prods : Array (String × List String × String)

def Tables.termIdx (T : Tables) (name : String) : Nat := T.terminals.idxOf name
def Tables.ntIdx (T : Tables) (name : String) : Nat := T.nonterminals.idxOf name
def Tables.act? (T : Tables) (s : Nat) (term : String) : Option Int :=
  ((T.action.getD s #[]).getD (T.termIdx term) none)
def Tables.goto? (T : Tables) (s : Nat) (nt : String) : Option Int :=
  ((T.goto.getD s #[]).getD (T.ntIdx nt) none)

/-- parser configuration: state stack and value stack, top first (the bottom state 0 has no value) -/
structure Cfg where
  states : List Nat
  vals : List Val
deriving Inhabited

inductive StepResult
  | shift (c : Cfg)
  | reduce (c : Cfg)
  | accept (v : Val)
  | error (e : ParseErr)

/-- one parser step with look-ahead `look` (`none` = end of input) -/
def step (T : Tables) (c : Cfg) (look : Option Tok) : StepResult :=
  let s := c.states.headD 0
  let lname := match look with | some t => t.kind.name | none => "$end"
  match T.act? s lname with
  | none =>
    match look with
    | some t => .error (.syntaxAt (t.toVal.errText) t.pos)
    | none => .error .syntaxEnd
  | some a =>
    if a > 0 then
      match look with
      | some t => .shift { states := a.toNat :: c.states, vals := t.toVal :: c.vals }
      | none => .error (.internal "shift on end of input")
    else if a < 0 then
      let (lhs, rhs, f) := T.prods.getD (-a).toNat ("", [], "")
      let n := rhs.length
      let args := (c.vals.take n).reverse
      if args.length ≠ n then .error (.internal "value stack underflow") else
      match act f args with
      | .error e => .error e
      | .ok v =>
        let states' := c.states.drop n
        match T.goto? (states'.headD 0) lhs with
        | some g => .reduce { states := g.toNat :: states', vals := v :: c.vals.drop n }
        | none => .error (.internal "no goto")
    else
      match c.vals with
      | v :: _ => .accept v
      | [] => .error (.internal "accept on empty stack")

/-- the driver loop; the look-ahead is fetched from `toks`, and when they are exhausted the lexer
error (if any) is raised exactly when PLY would ask for the next token -/
def runLoop (T : Tables) : Nat → Cfg → List Tok → Option LexErr → Except ParseErr Val
  | 0, _, _, _ => .error (.internal "out of fuel")
  | fuel + 1, c, toks, lerr =>
    match toks, lerr with
    | [], some e => .error (.illegalChar e.pos e.rest)
    | _, _ =>
      match step T c toks.head? with
      | .shift c' => runLoop T fuel c' toks.tail lerr
      | .reduce c' => runLoop T fuel c' toks lerr
      | .accept v => .ok v
      | .error e => .error e

/-- fuel that always suffices: every token is shifted once and between two shifts the number of
reductions is bounded (no empty production, unit chains are short) -/
def parseFuel (n : Nat) : Nat := 8 * (2 * n + 2) + 8

def parseWith (T : Tables) (s : Str) : Except ParseErr Tree :=
  let (toks, lerr) := lex s
  match runLoop T (parseFuel toks.length) { states := [0], vals := [] } toks lerr with
  | .ok (.item t) => .ok t
  | .ok (.tok ..) => .error (.internal "token value as result")
  | .error e => .error e

/-- the exception PLY's user sees: class and message -/
def ParseErr.render : ParseErr → String × String
  | .illegalChar pos rest =>
    ("IllegalCharacterError", s!"Illegal character '{String.ofList rest}' at position {pos}")
  | .syntaxAt text pos =>
    ("ParseSyntaxError", s!"Syntax error in input : unexpected  '{String.ofList text}' at position {pos}!")
  | .syntaxEnd =>
    ("ParseSyntaxError", "Syntax error in input : unexpected end of expression (maybe due to unmatched parenthesis) at the end!")
  | .badNumber text pos =>
    ("ParseSyntaxError", s!"Syntax error in input : invalid number '{String.ofList text}' at position {pos}!")
  | .internal msg => ("<model-internal>", msg)

end Luqum
