/-
  Luqum.Model.Threads — abstract machine for `luqum.thread.parse`: every thread owns a lexer
  clone (hence its own token stream and head/tail tracker) and its own parser stacks; the `LRParser`
  object is shared, but a parse only *writes* per-parse attributes on it (audited by the harness).
  A parse is a sequence of atomic steps (`pstep`); a schedule is any interleaving of thread ids.
-/
import Luqum.Model.ParserInst

namespace Luqum

/-- a thread's parse in progress -/
structure PState where
  cfg : Cfg
  toks : List Tok
  lerr : Option LexErr
  result : Option (Except ParseErr Val) := none

/-- one atomic step of a parse: what one iteration of PLY's loop does -/
def pstep (T : Tables) (p : PState) : PState :=
  match p.result with
  | some _ => p
  | none =>
    match p.toks, p.lerr with
    | [], some e => { p with result := some (.error (.illegalChar e.pos e.rest)) }
    | _, _ =>
      match step T p.cfg p.toks.head? with
      | .shift c' => { p with cfg := c', toks := p.toks.tail }
      | .reduce c' => { p with cfg := c' }
      | .accept v => { p with result := some (.ok v) }
      | .error e => { p with result := some (.error e) }

def piter (T : Tables) : Nat → PState → PState
  | 0, p => p
  | n + 1, p => piter T n (pstep T p)

/-- start of `thread.parse(input)` in a thread: its own lexer clone is fed the input -/
def pinit (s : Str) : PState :=
  let (toks, lerr) := lex s
  { cfg := { states := [0], vals := [] }, toks := toks, lerr := lerr }

/-- the world: per-thread states, and the cell standing for the attributes of the shared parser
object that a parse writes (`statestack`, `symstack`, `token`, `state`, `errorok`): last writer -/
structure World where
  threads : List PState
  shared : Option Nat := none

def World.stepThread (T : Tables) (w : World) (i : Nat) : World :=
  { threads := w.threads.modify i (pstep T), shared := some i }

def World.run (T : Tables) (w : World) (sched : List Nat) : World := sched.foldl (World.stepThread T) w

def World.init (inputs : List Str) : World := { threads := inputs.map pinit }

end Luqum
