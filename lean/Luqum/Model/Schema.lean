/-
  Luqum.Model.Schema — model of `luqum.elasticsearch.schema.SchemaAnalyzer` over JSON values.
-/
import Luqum.Model.Es

namespace Luqum

def JVal.objD : JVal → JObj
  | .obj kvs => kvs
  | _ => []

def JVal.getKey (v : JVal) (k : String) : Option JVal := jget v.objD k.toList

def JVal.strEq (v : Option JVal) (s : String) : Bool :=
  match v with
  | some (.str x) => x == s.toList
  | _ => false

/-- `SchemaAnalyzer.__init__`: the list of mappings (one per document type) -/
def schemaMappings (schema : JVal) : List JVal :=
  let mappings := (schema.getKey "mappings").getD (.obj [])
  match mappings.getKey "properties" with
  | some p => if p.truthy then [mappings] else mappings.objD.map (·.2)
  | none => mappings.objD.map (·.2)

/-- `default_field()` -/
def schemaDefaultField (schema : JVal) : Str :=
  match ((schema.getKey "settings").getD (.obj [])).getKey "query" with
  | some q => match q.getKey "default_field" with
    | some (.str s) => s
    | _ => ['*']
  | none => ['*']

abbrev Parents := List (Str × JVal)

/-- `dict(subdef, **fdef)` -/
def mergeObj (base over : JObj) : JObj := over.foldl (fun o kv => jset o kv.1 kv.2) base

mutual
/-- a bound on the nesting of a JSON value (fuel for the walks) -/
def JVal.size : JVal → Nat
  | .obj kvs => 1 + JVal.sizeKvs kvs
  | .arr xs => 1 + JVal.sizeList xs
  | _ => 1
def JVal.sizeKvs : List (Str × JVal) → Nat
  | [] => 0
  | (_, v) :: r => v.size + JVal.sizeKvs r
def JVal.sizeList : List JVal → Nat
  | [] => 0
  | v :: r => v.size + JVal.sizeList r
end

/-- `_walk_properties(properties, parents, subfields)`: (fname, fdef, parents) in order. The
implementation re-binds `fname, fdef` in the loop over the sub fields, so the recursion into
`properties` uses the *last sub field's* merged definition and name: modelled literally. -/
def walkProps (subfields : Bool) : Nat → List (Str × JVal) → Parents → List (Str × JVal × Parents)
  | 0, _, _ => []
  | fuel + 1, props, parents =>
    props.flatMap fun (fname, fdef) =>
      let subs : List (Str × JVal) :=
        if subfields then
          match fdef.getKey "fields" with
          | some fs =>
            let subdef := jerase fdef.objD "fields".toList
            fs.objD.map fun (sn, sd) => (sn, JVal.obj (mergeObj subdef sd.objD))
          | none => []
        else []
      let subEntries := subs.map fun (sn, sd) => (sn, sd, parents ++ [(fname, fdef)])
      let (fname', fdef') := match subs.getLast? with
        | some (sn, sd) => (sn, sd)
        | none => (fname, fdef)
      let inner := (fdef'.getKey "properties").getD (.obj [])
      (fname, fdef, parents) :: subEntries ++
        (if inner.truthy then walkProps subfields fuel inner.objD (parents ++ [(fname', fdef')]) else [])

/-- `iter_fields(subfields)` -/
def schemaFields (schema : JVal) (subfields : Bool) : List (Str × JVal × Parents) :=
  (schemaMappings schema).flatMap fun m =>
    walkProps subfields (schema.size + 1) ((m.getKey "properties").getD (.obj [])).objD []

def dotName (fname : Str) (parents : Parents) : Str := joinDot (parents.map (·.1) ++ [fname])

def typeIn (v : JVal) (ts : List String) : Bool :=
  match v.getKey "type" with
  | some (.str x) => ts.any (fun t => t.toList == x)
  | _ => false

/-- `not_analyzed_fields()` -/
def schemaNotAnalyzed (schema : JVal) : List Str :=
  (schemaFields schema true).filterMap fun (fname, fdef, parents) =>
    let na := (JVal.strEq (fdef.getKey "type") "string" &&
               JVal.strEq (some ((fdef.getKey "index").getD (.str []))) "not_analyzed") ||
              !typeIn fdef ["text", "string", "nested", "object"]
    if na then some (dotName fname parents) else none

/-- `object_fields()` -/
def schemaObjectFields (schema : JVal) : List Str :=
  (schemaFields schema false).filterMap fun (fname, fdef, parents) =>
    match parents.getLast? with
    | some (_, pdef) =>
      if JVal.strEq (pdef.getKey "type") "object" && !typeIn fdef ["object", "nested"]
      then some (dotName fname parents) else none
    | none => none

/-- `sub_fields()` -/
def schemaSubFields (schema : JVal) : List Str :=
  (schemaFields schema false).flatMap fun (fname, fdef, parents) =>
    match fdef.getKey "fields" with
    | some fs => if fs.truthy then fs.objD.map fun (sn, _) => dotName sn (parents ++ [(fname, fdef)]) else []
    | none => []

/-- insert `fname: {}` at the place `nested_fields()` computes from the parents' names -/
def nestedInsert : Nat → JObj → List Str → List Str → Str → JObj
  | 0, target, _, _, _ => target
  | fuel + 1, target, cumulated, names, fname =>
    match names with
    | [] =>
      if cumulated.isEmpty then jset target fname (.obj [])
      else
        let key := joinDot cumulated
        let sub := ((jget target key).getD (.obj [])).objD
        jset target key (.obj (jset sub fname (.obj [])))
    | n :: rest =>
      let cum := cumulated ++ [n]
      let key := joinDot cum
      match jget target key with
      | some sub => jset target key (.obj (nestedInsert fuel sub.objD [] rest fname))
      | none => nestedInsert fuel target cum rest fname

/-- `nested_fields()` -/
def schemaNestedFields (schema : JVal) : JObj :=
  (schemaFields schema false).foldl (fun result (fname, _, parents) =>
    match parents.getLast? with
    | some (_, pdef) =>
      if JVal.strEq (pdef.getKey "type") "nested"
      then nestedInsert (parents.length + 2) result [] (parents.map (·.1)) fname
      else result
    | none => result) []

/-- the nested-fields dict as a `Spec` -/
def jvalToSpec : Nat → JVal → Spec
  | 0, _ => .dict []
  | fuel + 1, .obj kvs => .dict (kvs.map fun kv => (kv.1, jvalToSpec fuel kv.2))
  | _, _ => .dict []

/-- `ElasticsearchQueryBuilder(**SchemaAnalyzer(schema).query_builder_options())` -/
def schemaCfg (schema : JVal) : EsCfg :=
  { defaultField := schemaDefaultField schema,
    notAnalyzed := schemaNotAnalyzed schema,
    nested := jvalToSpec (schema.size + 1) (.obj (schemaNestedFields schema)),
    objectFields := .list (schemaObjectFields schema) }

end Luqum
