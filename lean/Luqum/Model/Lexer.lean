/-
  Luqum.Model.Lexer — model of the PLY lexer of `luqum.parser` (token rules, rule dispatch,
  reserved words) and of `HeadTailLexer` (separators become head of the first / tail of the previous
  token; `pos` and `size`).

  The character classes `\s` and `\d` are *generated* (Luqum.Generated.Lexer); the structure of the
  rules is hand-modelled from the master regex whose parsed form is pinned by a translator obligation
  (`Props.C03.lexer_regex_ok`).
-/
import Luqum.Model.Basic
import Luqum.Generated.Lexer

namespace Luqum

def inRanges (rs : List (Nat × Nat)) (n : Nat) : Bool := rs.any fun r => r.1 ≤ n && n ≤ r.2

/-- `\s` of the running `re` -/
def isSpace (c : Char) : Bool := inRanges Generated.spaceRanges c.toNat
/-- `\d` of the running `re` (Unicode decimal digits) -/
def isDigitU (c : Char) : Bool := inRanges Generated.digitRanges c.toNat
/-- `\w` of the running `re` -/
def isWordChar (c : Char) : Bool := inRanges Generated.wordRanges c.toNat
/-- `[0-9.]` -/
def isNumChar (c : Char) : Bool := ('0' ≤ c && c ≤ '9') || c == '.'

inductive TokK
  | term | phrase | regex | approx | boost | minus | plus | column | lparen | rparen
  | lbracket | rbracket | lessthan | greaterthan | andOp | orOp | not | to
deriving DecidableEq, Repr, Inhabited

/-- PLY terminal name -/
def TokK.name : TokK → String
  | .term => "TERM" | .phrase => "PHRASE" | .regex => "REGEX" | .approx => "APPROX" | .boost => "BOOST"
  | .minus => "MINUS" | .plus => "PLUS" | .column => "COLUMN" | .lparen => "LPAREN" | .rparen => "RPAREN"
  | .lbracket => "LBRACKET" | .rbracket => "RBRACKET" | .lessthan => "LESSTHAN"
  | .greaterthan => "GREATERTHAN" | .andOp => "AND_OP" | .orOp => "OR_OP" | .not => "NOT" | .to => "TO"

/-- characters (besides `\s`) that cannot start a term -/
def termFirstExcl : Str := [':', '^', '~', '(', ')', '{', '}', '[', ']', '/', '"', '\'', '+', '-', '\\', '<', '>']
/-- characters (besides `\s`) that cannot continue a term -/
def termNextExcl : Str := [':', '^', '\\', '~', '(', ')', '{', '}', '[', ']']

def isTermFirst (c : Char) : Bool := !isSpace c && !termFirstExcl.contains c
def isTermNext (c : Char) : Bool := !isSpace c && !termNextExcl.contains c

/-- The `( [^…] | \\. | time )*` loop of `TERM_RE`. `prev` is the input consumed so far, reversed
(needed by the look-behind `(?<=T\d{2})`); returns the number of characters matched. -/
def termRest : Nat → Str → Str → Nat
  | 0, _, _ => 0
  | fuel + 1, prev, rest =>
    match rest with
    | [] => 0
    | c :: r =>
      if isTermNext c then 1 + termRest fuel (c :: prev) r
      else if c = '\\' then
        match r with
        | d :: r' => if d ≠ '\n' then 2 + termRest fuel (d :: c :: prev) r' else 0
        | [] => 0
      else if c = ':' then
        match prev, r with
        | d2 :: d1 :: 'T' :: _, m1 :: m2 :: r' =>
          if isDigitU d1 && isDigitU d2 && isDigitU m1 && isDigitU m2 then
            match r' with
            | ':' :: s1 :: s2 :: r'' =>
              if isDigitU s1 && isDigitU s2 then
                6 + termRest fuel (s2 :: s1 :: ':' :: m2 :: m1 :: ':' :: prev) r''
              else 3 + termRest fuel (m2 :: m1 :: ':' :: prev) r'
            | _ => 3 + termRest fuel (m2 :: m1 :: ':' :: prev) r'
          else 0
        | _, _ => 0
      else 0

/-- length of the `TERM_RE` match at the start of `rest`, if any -/
def termLen (prev rest : Str) : Option Nat :=
  match rest with
  | [] => none
  | c :: r =>
    if isTermFirst c then some (1 + termRest r.length (c :: prev) r)
    else if c = '\\' then
      match r with
      | d :: r' => if d ≠ '\n' then some (2 + termRest r'.length (d :: c :: prev) r') else none
      | [] => none
    else none

/-- body of `PHRASE_RE` / `REGEX_RE` after the opening delimiter `q`: `([^\\q] | \\.)* q`;
returns the number of characters up to and including the closing delimiter -/
def delimScan (q : Char) : Nat → Str → Option Nat
  | 0, _ => none
  | _ + 1, [] => none
  | fuel + 1, c :: r =>
    if c = q then some 1
    else if c = '\\' then
      match r with
      | d :: r' => if d ≠ '\n' then (delimScan q fuel r').map (· + 2) else none
      | [] => none
    else (delimScan q fuel r).map (· + 1)

def delimLen (q : Char) (rest : Str) : Option Nat :=
  match rest with
  | c :: r => if c = q then (delimScan q (r.length + 1) r).map (· + 1) else none
  | [] => none

/-- `\s+` -/
def sepLen (rest : Str) : Nat := (rest.takeWhile isSpace).length

/-- `~[0-9.]*` / `\^[0-9.]*` -/
def suffixLen (mark : Char) (rest : Str) : Option Nat :=
  match rest with
  | c :: r => if c = mark then some (1 + (r.takeWhile isNumChar).length) else none
  | [] => none

/-- `luqum.parser.reserved` -/
def reservedKind (text : Str) : TokK :=
  if text = "AND".toList then .andOp
  else if text = "OR".toList then .orOp
  else if text = "NOT".toList then .not
  else if text = "TO".toList then .to
  else .term

inductive Lexeme
  | sep (n : Nat)
  | tok (k : TokK) (n : Nat)
deriving Repr, DecidableEq

/-- one step of the master regex at the start of `rest` (the first characters of the rules are
pairwise exclusive, so PLY's rule order is irrelevant): the rule that matches and the match length -/
def lexOne (prev rest : Str) : Option Lexeme :=
  match rest with
  | [] => none
  | c :: r =>
    if isSpace c then some (.sep (sepLen rest))
    else if c = '+' then some (.tok .plus 1)
    else if c = '-' then some (.tok .minus 1)
    else if c = ':' then some (.tok .column 1)
    else if c = '(' then some (.tok .lparen 1)
    else if c = ')' then some (.tok .rparen 1)
    else if c = '[' || c = '{' then some (.tok .lbracket 1)
    else if c = ']' || c = '}' then some (.tok .rbracket 1)
    else if c = '>' then some (.tok .greaterthan (match r with | '=' :: _ => 2 | _ => 1))
    else if c = '<' then some (.tok .lessthan (match r with | '=' :: _ => 2 | _ => 1))
    else if c = '"' then (delimLen '"' rest).map (.tok .phrase)
    else if c = '/' then (delimLen '/' rest).map (.tok .regex)
    else if c = '~' then (suffixLen '~' rest).map (.tok .approx)
    else if c = '^' then (suffixLen '^' rest).map (.tok .boost)
    else (termLen prev rest).map fun n => .tok (reservedKind (rest.take n)) n

/-- a token as the parser receives it: kind, lexeme, position, head and tail attached by
`HeadTailLexer` -/
structure Tok where
  kind : TokK
  text : Str
  pos : Nat
  head : Str := []
  tail : Str := []
deriving Repr, DecidableEq, Inhabited

/-- lexer error: `IllegalCharacterError` at `pos`, `rest` is the input from there -/
structure LexErr where
  pos : Nat
  rest : Str
deriving Repr, DecidableEq

/-- add a separator to the tail of the most recent token (list is newest first) -/
def addTail (acc : List Tok) (s : Str) : List Tok :=
  match acc with
  | t :: r => { t with tail := t.tail ++ s } :: r
  | [] => []

/-- the lexer loop. `acc`: tokens so far, newest first; `pending`: head for the next token (a
separator at offset 0). Returns the tokens lexed before the end or the first illegal character. -/
def lexLoop : Nat → Nat → Str → Str → List Tok → Option Str → List Tok × Option LexErr
  | 0, _, _, _, acc, _ => (acc.reverse, none)
  | fuel + 1, pos, prev, rest, acc, pending =>
    match rest with
    | [] => (acc.reverse, none)
    | _ :: _ =>
      match lexOne prev rest with
      | none => (acc.reverse, some { pos := pos, rest := rest })
      | some (.sep n) =>
        let n := max n 1
        let s := rest.take n
        let prev' := s.reverse ++ prev
        if pos = 0 then lexLoop fuel (pos + n) prev' (rest.drop n) acc (some s)
        else lexLoop fuel (pos + n) prev' (rest.drop n) (addTail acc s) pending
      | some (.tok k n) =>
        let n := max n 1
        let s := rest.take n
        let t : Tok := { kind := k, text := s, pos := pos, head := pending.getD [], tail := [] }
        lexLoop fuel (pos + n) (s.reverse ++ prev) (rest.drop n) (t :: acc) none

/-- tokenize a whole input (what the parser will be able to fetch, and the error it meets if it
fetches further) -/
def lex (s : Str) : List Tok × Option LexErr := lexLoop (s.length + 1) 0 [] s [] none

end Luqum
