import Luqum.Model.Transform
import Luqum.Model.ParserInst
namespace Luqum.Props.C11
open Luqum
theorem copy_term (k : TermK) (v : Str) (l : Lay) : (Tree.term k v l).copy.full .norm = (Tree.term k v l).full .norm := rfl
end Luqum.Props.C11
