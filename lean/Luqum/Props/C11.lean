/-
  C11 — printing the result of a shipped tree transformer and parsing it again.

  For a parsed query `t` and a shipped transformer `T` (default copy, `auto_head_tail`,
  `OpenRangeTransformer`, `UnknownOperationResolver`): `parser.parse(T(t).__str__(head_tail=True))`
  is equal (`==`) to the normal form `norm (T t)` of the transformed tree, hence has the same
  boolean meaning over the same terms, fields, ranges and modifiers.

  0. `norm` (nested operations of the same class flattened, one-operand operations unwrapped: what
     printing cannot show), `evalB_norm` / `meaning_norm` (normalisation keeps the boolean meaning),
     `norm_of_canon`, and the generic theorem `reparse_norm`.
  Every theorem comes for any `printable` tree (`…_printable`; Props/Reparse) and, as a corollary,
  for a parsed tree (`…_partial`, up to KF1: no separator directly before a `:` in the query).
  1. `c11_copy_printable`, `c11_copy_partial`
  2. `c11_aht_printable`, `c11_aht_partial`
  3. `c11_openrange_printable`, `c11_openrange_partial` (`add_head` blank and not empty);
     `c11_openrange_merge_printable_partial`, `c11_openrange_merge_partial` (up to KF12, a finding
     made here: the separator after a merged-away last operand is lost; hypothesis: the adjacency
     condition of the result), `c11_openrange_merge_noAnd_partial`
  4. `c11_resolve_printable_partial`, `c11_resolve_partial` (AND / OR; up to KF6: a looser operation as
     direct operand of a resolved operation, `noLooserOperand`; KF7: the operator word glued to the
     operand before it, hypothesis: the adjacency condition of the result); `resolved_gluesOK`,
     `c11_resolve_query_partial` (KF7 as a condition on the query, `wordAfterOK`);
     `c11_resolve_or_partial` (no KF6 when resolving to OR); the lucene mode:
     `c11_resolve_lucene_printable_partial`, `c11_resolve_lucene_partial`,
     `c11_resolve_lucene_noAndOr_partial`; `c11_meaning`
  5. kernel-checked witnesses: non-vacuity of every theorem on a query with a group, a field, a
     range, a boost, NOT and several operations; the findings KF1 / KF8, KF6, KF7, KF12 and the empty
     `add_head`.
  The lemmas are in Luqum/Lemmas/Trans*.lean.
-/
import Luqum.Lemmas.TransAht
import Luqum.Lemmas.TransRangeChain
import Luqum.Lemmas.TransResolveChain
import Luqum.Lemmas.TransLucene
import Luqum.Lemmas.TransMeaning
import Luqum.Props.Reparse
import Luqum.Props.C08
import Luqum.Props.C10
import Luqum.Props.C12
import Luqum.Props.C13

namespace Luqum.Props.C11
open Luqum
open Luqum.Props.Reparse (printable reparse_of_printable parse_printable parse_print_parse)
open Luqum.Props.C01 (noBlankBeforeColon)
open Luqum.Props.LX (treeGluesOK treePieces treeTrail)
open Luqum.Props.C10 (evalB relabel opKOf resolve_explicit)
open Luqum.Props.C09 (content)

/-! ### (0) the normal form -/

export Luqum (norm normOps splice wrapOp pushFront pushBack PreCanonAt preOperandOK noLooserOperand
  wordAfterOK initAll)

/-- an operand of a `k`-operation that is a `k`-operation is replaced by its operands: its head goes
in front of the head of the first one, its tail behind the tail of the last one -/
example (k : OpK) (a b c : Tree) (l1 l : Lay) (hk : k ≠ .bool)
    (ha : isOp' a = false) (hb : isOp' b = false) (hc : isOp' c = false) :
    norm (.op k [.op k [a, b] l1, c] l) =
      .op k [(norm a).setHead (l1.head ++ (norm a).head), (norm b).setTail ((norm b).tail ++ l1.tail),
        norm c] l := by
  have e : ∀ x : Tree, isOp' x = false → splice k (norm x) = [norm x] :=
    fun x hx => splice_nonop k (norm_nonop x hx).1
  have e2 : norm (.op k [a, b] l1) = .op k [norm a, norm b] l1 := by
    rw [norm_op k _ _ hk]; simp [normOps, e a ha, e b hb, wrapOp]
  rw [norm_op k _ _ hk]
  simp only [normOps, e2, e c hc]
  simp [splice, wrapOp, pushFront, pushBack]

/-- an operation with one operand is replaced by this operand (it is printed as the operand) -/
example (k : OpK) (a : Tree) (l : Lay) (hk : k ≠ .bool) (ha : isOp' a = false) :
    norm (.op k [a] l) = ((norm a).setHead (l.head ++ (norm a).head)).setTail ((norm a).tail ++ l.tail) := by
  rw [norm_op k _ _ hk]
  simp [normOps, splice_nonop k (norm_nonop a ha).1, wrapOp]

/-- a `BoolOperation` is kept as it is; ranges, fuzzy / proximity terms and open ranges are leaves -/
example (xs : List Tree) (a b : Tree) (il ih : Bool) (l : Lay) :
    norm (.op .bool xs l) = .op .bool xs l ∧ norm (.range a b il ih l) = .range a b il ih l :=
  ⟨rfl, rfl⟩

/-- **a canonical tree (every parsed tree) is its own normal form** -/
theorem norm_of_canon (u : Tree) (uf : Bool) (h : CanonAt uf u = true) : norm u = u :=
  Luqum.norm_of_canon u uf h

theorem norm_parsed (q : Str) (t : Tree) (h : parse q = .ok t) : norm t = t :=
  norm_of_canon t false (Reparse.parse_canon q t h)

/-- **normalisation keeps the boolean meaning** (`evalB` of C10): on every document `τ`, in every
field context, when an implicit operation is read as AND or as OR (under the reading
`BoolOperation` flattening an implicit operation is not meaning-preserving) -/
theorem evalB_norm (dflt : OpK) (hd : dflt = .and ∨ dflt = .or) (τ : Option Str → Str → Bool)
    (fld : Option Str) (u : Tree) : evalB dflt τ fld (norm u) = evalB dflt τ fld u :=
  Luqum.evalB_norm dflt hd τ u fld

/-- `evalB` does *not* depend on the content only: the leaves of the boolean structure (ranges,
fuzzy / proximity terms, open ranges) are keyed by their printed form, blanks included.  Two equal
(`==`) ranges, a document that tells them apart: -/
example :
    let a : Tree := .range (.term .word ['1'] {}) (.term .word ['2'] {}) true true {}
    let b : Tree := .range (.term .word ['1'] { tail := [' '] }) (.term .word ['2'] {}) true true {}
    a.eqv b = true ∧
    evalB .and (fun _ v => v == "[1TO2]".toList) none a ≠ evalB .and (fun _ v => v == "[1TO2]".toList) none b := by
  decide +kernel

/-- the boolean meaning of a tree with layout and numeral spelling disregarded: `evalB` of the
`content` (C09) of the tree, in which every leaf is keyed by its canonical printed form -/
def meaning (dflt : OpK) (τ : Option Str → Str → Bool) (fld : Option Str) (t : Tree) : Bool :=
  evalB dflt τ fld (content t)

/-- **equal (`==`) trees have the same meaning** -/
theorem meaning_eqv (dflt : OpK) (τ : Option Str → Str → Bool) (fld : Option Str) (a b : Tree)
    (h : a.eqv b = true) : meaning dflt τ fld a = meaning dflt τ fld b := by
  unfold meaning; rw [(C09.eqv_iff_content a b).1 h]

/-- **normalisation keeps the meaning** -/
theorem meaning_norm (dflt : OpK) (hd : dflt = .and ∨ dflt = .or) (τ : Option Str → Str → Bool)
    (fld : Option Str) (u : Tree) : meaning dflt τ fld (norm u) = meaning dflt τ fld u := by
  unfold meaning; rw [content_norm, Luqum.evalB_norm dflt hd τ _ fld]

/-- hence: a tree equal (`==`) to the normal form of `u` has the meaning of `u` -/
theorem meaning_of_eqv_norm (dflt : OpK) (hd : dflt = .and ∨ dflt = .or) (τ : Option Str → Str → Bool)
    (fld : Option Str) (r u : Tree) (h : r.eqv (norm u) = true) :
    meaning dflt τ fld r = meaning dflt τ fld u :=
  (meaning_eqv dflt τ fld r _ h).trans (meaning_norm dflt hd τ fld u)

/-! ### the generic theorem -/

theorem treeGluesOK_eq (s : NumStyle) (u : Tree) :
    treeGluesOK s u = gluesOK (u.pcs s []).1 (u.pcs s []).2 := rfl

/-- the chain condition of a printable tree, computed on the tree -/
theorem chain_of_printable (u : Tree) (h : printable u = true) : u.chainAt .norm [] = true := by
  simp only [printable, Bool.and_eq_true] at h
  obtain ⟨⟨⟨⟨⟨h1, _⟩, _⟩, h4⟩, h5⟩, h6⟩ := h
  exact chainAt_of_glues .norm u h1 h5 (validNums_norm u h4) h6

/-- a tree is printable if it has a blank layout, is canonical, its words, numerals and token texts
are fine, and the chain condition holds -/
theorem printable_of_chain (u : Tree) (hb : u.blankLayout = true) (hc : CanonAt false u = true)
    (hw : WordsOK u = true) (hn : numsOK u = true) (ht : validTexts u = true)
    (hch : u.chainAt .norm [] = true) : printable u = true := by
  simp only [printable, Bool.and_eq_true]
  exact ⟨⟨⟨⟨⟨hb, hc⟩, hw⟩, hn⟩, ht⟩, glues_of_chainAt .norm u ht (validNums_norm u hn) hch⟩

/-- **print-and-reparse up to normalisation**: a tree with a blank layout, canonical up to
same-class nesting and one-operand operations, whose words, numerals and token texts are fine and
which satisfies the adjacency condition, is printed as a text that parses into a tree equal (`==`) to
its normal form -/
theorem reparse_norm (u : Tree) (hb : u.blankLayout = true) (hc : PreCanonAt false u = true)
    (hw : WordsOK u = true) (hn : numsOK u = true) (ht : validTexts u = true)
    (hg : treeGluesOK .norm u = true) :
    ∃ r, parse u.strHT = .ok r ∧ r.eqv (norm u) = true := by
  have hch : u.chainAt .norm [] = true := chainAt_of_glues .norm u hb ht (validNums_norm u hn) hg
  have hp : printable (norm u) = true :=
    printable_of_chain (norm u) (blankLayout_norm u hb) (canon_norm u false hc).1
      (norm_keeps keeps_wordsOK u hw) (norm_keeps keeps_numsOK u hn) (norm_keeps keeps_validTexts u ht)
      (by rw [chainAt_norm .norm u false [] hc]; exact hch)
  obtain ⟨r, hr, he⟩ := reparse_of_printable (norm u) hp
  refine ⟨r, ?_, he⟩
  have : (norm u).strHT = u.strHT := full_norm .norm u false hc
  rw [← this]; exact hr

/-! ### (1) the default transformer -/

/-- the hypotheses of the print-and-reparse theorem pass to a tree that differs by blanks put into
empty heads and tails, and by dropped names -/
theorem printable_layRel {t' t : Tree} (hr : Lemmas.Aht.layRel t' t) (hp : printable t = true) :
    printable t' = true := by
  have hch := chain_of_printable t hp
  simp only [printable, Bool.and_eq_true] at hp
  obtain ⟨⟨⟨⟨⟨h1, h2⟩, h3⟩, h4⟩, h5⟩, _⟩ := hp
  exact printable_of_chain t' (layRel_blank t' t hr h1) (by rw [layRel_canon t' t false hr]; exact h2)
    (by rw [layRel_wordsOK t' t hr]; exact h3) (by rw [layRel_numsOK t' t hr]; exact h4)
    (by rw [layRel_validTexts t' t hr]; exact h5) (layRel_chain .norm t' t [] [] hr (Rel.refl _) hch)

/-- **default `TreeTransformer`, any printable tree** (built by a program or parsed): the printed copy
parses into a tree equal (`==`) to the copy -/
theorem c11_copy_printable (t : Tree) (hp : printable t = true) :
    ∃ r, parse t.copy.strHT = .ok r ∧ r.eqv t.copy = true :=
  reparse_of_printable _ (printable_layRel (layRel_copy t) hp)

/-- **C11, default `TreeTransformer`** (up to KF1: no separator directly before a `:` in the query):
the printed copy parses into a tree equal (`==`) to the copy -/
theorem c11_copy_partial (q : Str) (t : Tree) (h : parse q = .ok t)
    (hk : noBlankBeforeColon (lex q).1 = true) :
    ∃ r, parse t.copy.strHT = .ok r ∧ r.eqv t.copy = true :=
  c11_copy_printable t (parse_printable q t h hk)

/-- the copy of a parsed tree is its own normal form -/
theorem norm_copy (q : Str) (t : Tree) (h : parse q = .ok t) : norm t.copy = t.copy :=
  norm_of_canon _ false (by rw [layRel_canon _ t false (layRel_copy t)]; exact Reparse.parse_canon q t h)

/-! ### (2) `auto_head_tail` -/

/-- **`auto_head_tail`, any printable tree**: the printed result parses into a tree equal (`==`) to
the result (separators only grow, so nothing that was separated gets glued) -/
theorem c11_aht_printable (t t' : Tree) (hp : printable t = true) (ha : aht t = some t') :
    ∃ r, parse t'.strHT = .ok r ∧ r.eqv t' = true :=
  reparse_of_printable t' (printable_layRel (Lemmas.Aht.aht_layRel t ha) hp)

/-- **C11, `auto_head_tail`** (up to KF1) -/
theorem c11_aht_partial (q : Str) (t t' : Tree) (h : parse q = .ok t)
    (hk : noBlankBeforeColon (lex q).1 = true) (ha : aht t = some t') :
    ∃ r, parse t'.strHT = .ok r ∧ r.eqv t' = true :=
  c11_aht_printable t t' (parse_printable q t h hk) ha

/-- the result for a parsed tree is its own normal form -/
theorem norm_aht (q : Str) (t t' : Tree) (h : parse q = .ok t) (ha : aht t = some t') : norm t' = t' :=
  norm_of_canon _ false
    (by rw [layRel_canon _ t false (Lemmas.Aht.aht_layRel t ha)]; exact Reparse.parse_canon q t h)

/-! ### (3) `OpenRangeTransformer` -/

/-- the hypotheses of the print-and-reparse theorem pass to the result of
`OpenRangeTransformer(merge_ranges=False, add_head=h)`, `h` blank and not empty -/
theorem printable_openRange (h : Str) (hh : isBlank h = true) (hne : h ≠ []) (t : Tree)
    (hp : printable t = true) : printable (openRange false h t) = true := by
  have hch := chain_of_printable t hp
  simp only [printable, Bool.and_eq_true] at hp
  obtain ⟨⟨⟨⟨⟨h1, h2⟩, h3⟩, h4⟩, h5⟩, _⟩ := hp
  exact printable_of_chain _ (blank_openRange false h hh t h1) (canon_openRange h t false h2)
    (wordsOK_openRange false h t false h2 h3) (numsOK_openRange false h t h4)
    (validTexts_openRange false h t h5) (openRange_chain .norm h hh hne t [] [] h1 (Rel.refl _) hch)

/-- **`OpenRangeTransformer(merge_ranges=False, add_head=h)`, any printable tree**, for a separator
`h` that is blank and not empty (the default is `" "`) -/
theorem c11_openrange_printable (t : Tree) (h : Str) (hp : printable t = true) (hh : isBlank h = true)
    (hne : h ≠ []) :
    ∃ r, parse (openRange false h t).strHT = .ok r ∧ r.eqv (openRange false h t) = true :=
  reparse_of_printable _ (printable_openRange h hh hne t hp)

/-- **C11, `OpenRangeTransformer(merge_ranges=False, add_head=h)`** (up to KF1): the printed result
parses into a tree equal (`==`) to the result -/
theorem c11_openrange_partial (q : Str) (t : Tree) (h : Str) (hq : parse q = .ok t)
    (hk : noBlankBeforeColon (lex q).1 = true) (hh : isBlank h = true) (hne : h ≠ []) :
    ∃ r, parse (openRange false h t).strHT = .ok r ∧ r.eqv (openRange false h t) = true :=
  c11_openrange_printable t h (parse_printable q t hq hk) hh hne

/-- … the result is its own normal form -/
theorem norm_openrange (q : Str) (t : Tree) (h : Str) (hq : parse q = .ok t) :
    norm (openRange false h t) = openRange false h t :=
  norm_of_canon _ false (canon_openRange h t false (Reparse.parse_canon q t hq))

/-- **`OpenRangeTransformer(merge_ranges=True, add_head=h)`, any printable tree** (up to KF12): if the
result satisfies the adjacency condition (it need not: when the last operand of an AND operation is
merged into an earlier one, the separator behind it disappears with it, finding KF12), its printed
form parses into a tree equal (`==`) to its normal form (a merged AND operation may be left with one
operand, which is printed without the operation) -/
theorem c11_openrange_merge_printable_partial (t : Tree) (h : Str) (hp : printable t = true)
    (hh : isBlank h = true) (hg : treeGluesOK .norm (openRange true h t) = true) :
    ∃ r, parse (openRange true h t).strHT = .ok r ∧ r.eqv (norm (openRange true h t)) = true := by
  simp only [printable, Bool.and_eq_true] at hp
  obtain ⟨⟨⟨⟨⟨h1, h2⟩, h3⟩, h4⟩, h5⟩, _⟩ := hp
  exact reparse_norm _ (blank_openRange true h hh t h1)
    (preCanon_openRange true h t false h2 (fun h => by cases h))
    (wordsOK_openRange true h t false h2 h3) (numsOK_openRange true h t h4)
    (validTexts_openRange true h t h5) hg

/-- **C11, `OpenRangeTransformer(merge_ranges=True, add_head=h)`** (up to KF1 and KF12) -/
theorem c11_openrange_merge_partial (q : Str) (t : Tree) (h : Str) (hq : parse q = .ok t)
    (hk : noBlankBeforeColon (lex q).1 = true) (hh : isBlank h = true)
    (hg : treeGluesOK .norm (openRange true h t) = true) :
    ∃ r, parse (openRange true h t).strHT = .ok r ∧ r.eqv (norm (openRange true h t)) = true :=
  c11_openrange_merge_printable_partial t h (parse_printable q t hq hk) hh hg

/-- without an AND operation in the query nothing is merged: no adjacency hypothesis is needed -/
theorem c11_openrange_merge_noAnd_partial (q : Str) (t : Tree) (h : Str) (hq : parse q = .ok t)
    (hk : noBlankBeforeColon (lex q).1 = true) (hh : isBlank h = true) (hne : h ≠ [])
    (hand : C12.hasAnd t = false) :
    ∃ r, parse (openRange true h t).strHT = .ok r ∧ r.eqv (openRange true h t) = true := by
  rw [C12.openRange_merge_eq_noMerge h t hand]
  exact c11_openrange_partial q t h hq hk hh hne

/-! ### (4) `UnknownOperationResolver` -/

/-- what `noLooserOperand` asks of an operation -/
example (k : OpK) (xs : List Tree) (l : Lay) :
    noLooserOperand (.op k xs l) = (xs.all (preOperandOK k) && Luqum.noLooserOperands xs) ∧
    (∀ x, preOperandOK k x = (operandOK k x || isOpK k x)) := ⟨rfl, fun _ => rfl⟩

/-- what `wordAfterOK` asks of an operation: if it is implicit, every operand but the last satisfies
the chain condition with the word printed right behind it -/
example (s : NumStyle) (w : Str) (k : OpK) (xs : List Tree) (l : Lay) :
    wordAfterOK s w (.op k xs l) =
      ((k != .unk || initAll (fun x => x.chainAt s w) xs) && Luqum.wordAfterOKs s w xs) := rfl
example (s : NumStyle) (w v : Str) (l : Lay) :
    (Tree.term .word v l).chainAt s w = followOK (reservedKind v) v (l.tail ++ w) := rfl

/-- **`UnknownOperationResolver(resolve_to=AndOperation / OrOperation, add_head=h)`, any printable
tree** (up to KF6, KF7), `h` blank: if no operation of the result has a looser operation as direct
operand (KF6: `a OR b c` resolved to AND is printed `a OR b AND c`) and the result satisfies the
adjacency condition (KF7: `a(b)` is printed `aAND (b)`; see `resolved_gluesOK` for a condition on
the tree itself), the printed result parses into a tree equal (`==`) to its normal form (`a AND b c`
resolved to AND is `And(And(a, b), c)`, printed `a AND b AND c`) -/
theorem c11_resolve_printable_partial (t : Tree) (tgt : ResolveTo) (h : Str) (hp : printable t = true)
    (hto : tgt = .and ∨ tgt = .or) (hh : isBlank h = true)
    (h6 : noLooserOperand (resolve tgt h t) = true)
    (h7 : treeGluesOK .norm (resolve tgt h t) = true) :
    ∃ r, parse (resolve tgt h t).strHT = .ok r ∧ r.eqv (norm (resolve tgt h t)) = true := by
  simp only [printable, Bool.and_eq_true] at hp
  obtain ⟨⟨⟨⟨⟨h1, h2⟩, h3⟩, h4⟩, h5⟩, _⟩ := hp
  have hto' : tgt ≠ .lucene := by rcases hto with rfl | rfl <;> decide
  have hkk : opKOf tgt = .and ∨ opKOf tgt = .or := by rcases hto with rfl | rfl <;> simp [opKOf]
  rw [resolve_explicit tgt hto' h t] at h6 h7 ⊢
  exact reparse_norm _ (blank_relabel _ h hh t h1) (preCanon_relabel _ hkk h t false h2 h6)
    (by rw [wordsOK_relabel]; exact h3) (by rw [numsOK_relabel]; exact h4)
    (by rw [validTexts_relabel]; exact h5) h7

/-- **C11, `UnknownOperationResolver(resolve_to=AndOperation / OrOperation, add_head=h)`** (up to
KF1, KF6, KF7) -/
theorem c11_resolve_partial (q : Str) (t : Tree) (tgt : ResolveTo) (h : Str) (hq : parse q = .ok t)
    (hk : noBlankBeforeColon (lex q).1 = true) (hto : tgt = .and ∨ tgt = .or) (hh : isBlank h = true)
    (h6 : noLooserOperand (resolve tgt h t) = true)
    (h7 : treeGluesOK .norm (resolve tgt h t) = true) :
    ∃ r, parse (resolve tgt h t).strHT = .ok r ∧ r.eqv (norm (resolve tgt h t)) = true :=
  c11_resolve_printable_partial t tgt h (parse_printable q t hq hk) hto hh h6 h7

/-- **a condition on the tree for the adjacency condition of the resolved tree** (KF7): if the
operator word can be printed right behind every operand but the last of every implicit operation
(`wordAfterOK`: the operand ends with a separator, or with a token that is not a term), and `h` is
blank and not empty, the resolved tree satisfies the adjacency condition -/
theorem resolved_gluesOK (t : Tree) (tgt : ResolveTo) (h : Str) (hp : printable t = true)
    (hto : tgt = .and ∨ tgt = .or) (hh : isBlank h = true) (hne : h ≠ [])
    (h7 : wordAfterOK .norm (opKOf tgt).word t = true) :
    treeGluesOK .norm (resolve tgt h t) = true := by
  have hch := chain_of_printable t hp
  simp only [printable, Bool.and_eq_true] at hp
  obtain ⟨⟨⟨⟨⟨_, h2⟩, _⟩, h4⟩, h5⟩, _⟩ := hp
  have hto' : tgt ≠ .lucene := by rcases hto with rfl | rfl <;> decide
  have hkk : opKOf tgt = .and ∨ opKOf tgt = .or := by rcases hto with rfl | rfl <;> simp [opKOf]
  rw [resolve_explicit tgt hto' h t]
  exact glues_of_chainAt .norm _ (by rw [validTexts_relabel]; exact h5)
    (validNums_norm _ (by rw [numsOK_relabel]; exact h4))
    (relabel_chain .norm _ hkk h hh hne t false [] [] h2 (Rel.refl _) hch h7)

/-- **C11, `UnknownOperationResolver`, the hypothesis for KF7 on the query** -/
theorem c11_resolve_query_partial (q : Str) (t : Tree) (tgt : ResolveTo) (h : Str) (hq : parse q = .ok t)
    (hk : noBlankBeforeColon (lex q).1 = true) (hto : tgt = .and ∨ tgt = .or) (hh : isBlank h = true)
    (hne : h ≠ []) (h6 : noLooserOperand (resolve tgt h t) = true)
    (h7 : wordAfterOK .norm (opKOf tgt).word t = true) :
    ∃ r, parse (resolve tgt h t).strHT = .ok r ∧ r.eqv (norm (resolve tgt h t)) = true :=
  c11_resolve_partial q t tgt h hq hk hto hh h6
    (resolved_gluesOK t tgt h (parse_printable q t hq hk) hto hh hne h7)

/-- resolving to OR never gives an operation a looser operation as direct operand: KF6 needs
`resolve_to=AndOperation` -/
theorem noLooser_resolve_or (t : Tree) (h : Str) (hc : CanonAt false t = true) :
    noLooserOperand (resolve .or h t) = true := by
  rw [resolve_explicit .or (by decide) h t]
  exact noLooser_relabel_or h t false hc

/-- **C11, `UnknownOperationResolver(resolve_to=OrOperation)`** (up to KF1 and KF7 only) -/
theorem c11_resolve_or_partial (q : Str) (t : Tree) (h : Str) (hq : parse q = .ok t)
    (hk : noBlankBeforeColon (lex q).1 = true) (hh : isBlank h = true) (hne : h ≠ [])
    (h7 : wordAfterOK .norm "OR".toList t = true) :
    ∃ r, parse (resolve .or h t).strHT = .ok r ∧ r.eqv (norm (resolve .or h t)) = true :=
  c11_resolve_query_partial q t .or h hq hk (Or.inr rfl) hh hne
    (noLooser_resolve_or t h (Reparse.parse_canon q t hq)) h7

/-- **`UnknownOperationResolver` in lucene mode (`resolve_to=None`, the default), any printable tree**
(up to KF6, KF7): an implicit operation becomes an AND or an OR operation (the class of the explicit
operation seen last); same statement, same hypotheses on the result -/
theorem c11_resolve_lucene_printable_partial (t : Tree) (h : Str) (hp : printable t = true)
    (hh : isBlank h = true) (h6 : noLooserOperand (resolve .lucene h t) = true)
    (h7 : treeGluesOK .norm (resolve .lucene h t) = true) :
    ∃ r, parse (resolve .lucene h t).strHT = .ok r ∧ r.eqv (norm (resolve .lucene h t)) = true := by
  simp only [printable, Bool.and_eq_true] at hp
  obtain ⟨⟨⟨⟨⟨h1, h2⟩, h3⟩, h4⟩, h5⟩, _⟩ := hp
  obtain ⟨l1, l2, l3, l4, l5⟩ := lucene_hyps h hh t h1 h2 h3 h4 h5 h6
  exact reparse_norm _ l1 l2 l3 l4 l5 h7

/-- **C11, `UnknownOperationResolver` in lucene mode** (up to KF1, KF6, KF7) -/
theorem c11_resolve_lucene_partial (q : Str) (t : Tree) (h : Str) (hq : parse q = .ok t)
    (hk : noBlankBeforeColon (lex q).1 = true) (hh : isBlank h = true)
    (h6 : noLooserOperand (resolve .lucene h t) = true)
    (h7 : treeGluesOK .norm (resolve .lucene h t) = true) :
    ∃ r, parse (resolve .lucene h t).strHT = .ok r ∧ r.eqv (norm (resolve .lucene h t)) = true :=
  c11_resolve_lucene_printable_partial t h (parse_printable q t hq hk) hh h6 h7

/-- the lucene mode on a query without explicit AND / OR is resolving to AND (C10): KF6 cannot happen,
and the hypothesis for KF7 can be put on the query -/
theorem c11_resolve_lucene_noAndOr_partial (q : Str) (t : Tree) (h : Str) (hq : parse q = .ok t)
    (hk : noBlankBeforeColon (lex q).1 = true) (hh : isBlank h = true) (hne : h ≠ [])
    (hno : C10.hasAndOr t = false) (h7 : wordAfterOK .norm "AND".toList t = true) :
    ∃ r, parse (resolve .lucene h t).strHT = .ok r ∧ r.eqv (norm (resolve .lucene h t)) = true := by
  have e : resolve .lucene h t = resolve .and h t := by
    rw [C10.resolve_lucene_noAndOr h t hno, resolve_explicit .and (by decide) h t]; rfl
  rw [e]
  refine c11_resolve_query_partial q t .and h hq hk (Or.inl rfl) hh hne ?_ h7
  rw [resolve_explicit .and (by decide) h t]
  exact noLooser_relabel_and_noAndOr h t false (Reparse.parse_canon q t hq) hno

/-- **same meaning**: under the hypotheses of any of the theorems above, the tree parsed back has the
boolean meaning (layout and numeral spelling disregarded) of the transformed tree, on every document,
in every field context, an implicit operation being read as AND or as OR -/
theorem c11_meaning (u r : Tree) (h : r.eqv (norm u) = true) (dflt : OpK) (hd : dflt = .and ∨ dflt = .or)
    (τ : Option Str → Str → Bool) (fld : Option Str) : meaning dflt τ fld r = meaning dflt τ fld u :=
  meaning_of_eqv_norm dflt hd τ fld r u h

/-! ### (5) non-vacuity and negative witnesses (kernel-checked) -/

private def sp : Str := [' ']

/-- a query with an AND, an OR and an implicit operation, a group, a field, a range, a boost, NOT, a
proximity and a fuzzy term, `-`, and two open ranges -/
private def q0 : Str := "a AND (f:[1 TO 5}^2.50 OR NOT \"x y\"~3) >=3 -b~ <z".toList

/-- `T t` is printed as `txt`, which parses into a tree equal to `T t` (`strict`) or to its normal
form only -/
private def roundTrip (q : Str) (T : Tree → Tree) (txt : String) (strict : Bool) : Bool :=
  match parse q with
  | .ok t =>
    decide ((T t).strHT = txt.toList) &&
    (match parse (T t).strHT with
     | .ok r => r.eqv (norm (T t)) && (r.eqv (T t) == strict)
     | .error _ => false)
  | .error _ => false

/-- the hypotheses of the theorems, on the result of `T` for the query `q`:
`[no blank before a colon, no looser operand, adjacency]` -/
private def hyps (q : Str) (T : Tree → Tree) : List Bool :=
  match parse q with
  | .ok t => [noBlankBeforeColon (lex q).1, noLooserOperand (T t), treeGluesOK .norm (T t)]
  | .error _ => []

/-- `T t` is printed as `txt`, which does not parse into a tree equal to the normal form of `T t` -/
private def fails (q : Str) (T : Tree → Tree) (txt : String) : Bool :=
  match parse q with
  | .ok t =>
    decide ((T t).strHT = txt.toList) &&
    (match parse (T t).strHT with
     | .ok r => !r.eqv (norm (T t))
     | .error _ => true)
  | .error _ => false

example : noBlankBeforeColon (lex q0).1 = true := by decide +kernel

/-- default transformer: by the theorem, and by evaluation -/
example : ∀ t, parse q0 = .ok t → ∃ r, parse t.copy.strHT = .ok r ∧ r.eqv t.copy = true :=
  fun t h => c11_copy_partial q0 t h (by decide +kernel)
example : roundTrip q0 Tree.copy "a AND (f:[1 TO 5}^2.5 OR NOT \"x y\"~3) >=3 -b~ <z" true = true := by
  decide +kernel

/-- `auto_head_tail` -/
example : ∀ t t', parse q0 = .ok t → aht t = some t' → ∃ r, parse t'.strHT = .ok r ∧ r.eqv t' = true :=
  fun t t' h ha => c11_aht_partial q0 t t' h (by decide +kernel) ha
example : roundTrip q0 (fun t => (aht t).getD t)
    "a AND (f:[1 TO 5}^2.5  OR NOT \"x y\"~3)  >=3  -b~  <z" true = true ∧
    (match parse q0 with | .ok t => (aht t).isSome | .error _ => false) = true := by decide +kernel

/-- a query where `auto_head_tail` separates glued tokens -/
example : roundTrip "a(b)AND c d".toList (fun t => (aht t).getD t) "a (b) AND c  d" true = true := by
  decide +kernel

/-- `OpenRangeTransformer(merge_ranges=False, add_head=" ")` -/
example : ∀ t, parse q0 = .ok t →
    ∃ r, parse (openRange false sp t).strHT = .ok r ∧ r.eqv (openRange false sp t) = true :=
  fun t h => c11_openrange_partial q0 t sp h (by decide +kernel) (by decide +kernel) (by decide)
example : roundTrip q0 (openRange false sp)
    "a AND (f:[1 TO 5}^2.5 OR NOT \"x y\"~3) [3  TO *]-b~ [* TO z}" true = true := by decide +kernel

/-- `OpenRangeTransformer(merge_ranges=True, add_head=" ")`: the first AND operation is left with
one operand, the result is equal to the normal form only -/
private def q1 : Str := "x:(>1 AND <5) OR y:>=2 AND y:<3 AND w".toList

example : hyps q1 (openRange true sp) = [true, true, true] := by decide +kernel
example : ∀ t, parse q1 = .ok t →
    ∃ r, parse (openRange true sp t).strHT = .ok r ∧ r.eqv (norm (openRange true sp t)) = true :=
  fun t h => c11_openrange_merge_partial q1 t sp h (by decide +kernel) (by decide +kernel)
    (by
      have : (match parse q1 with
          | .ok t => treeGluesOK .norm (openRange true sp t) | .error _ => false) = true := by
        decide +kernel
      rw [h] at this; exact this)
example : roundTrip q1 (openRange true sp) "x:({1  TO 5}) OR y:[2  TO *]AND y:[* TO 3 }AND w" false = true := by
  decide +kernel

/-- `UnknownOperationResolver(resolve_to=AndOperation, add_head=" ")`: the resolved operation has an
AND operation as first operand, the result is equal to the normal form only -/
example : hyps q0 (resolve .and sp) = [true, true, true] := by decide +kernel
example : ∀ t, parse q0 = .ok t →
    ∃ r, parse (resolve .and sp t).strHT = .ok r ∧ r.eqv (norm (resolve .and sp t)) = true :=
  fun t h => c11_resolve_partial q0 t .and sp h (by decide +kernel) (Or.inl rfl) (by decide +kernel)
    (by
      have : (match parse q0 with
          | .ok t => noLooserOperand (resolve .and sp t) | .error _ => false) = true := by
        decide +kernel
      rw [h] at this; exact this)
    (by
      have : (match parse q0 with
          | .ok t => treeGluesOK .norm (resolve .and sp t) | .error _ => false) = true := by
        decide +kernel
      rw [h] at this; exact this)
example : roundTrip q0 (resolve .and sp)
    "a AND (f:[1 TO 5}^2.5 OR NOT \"x y\"~3) AND >=3 AND -b~ AND <z" false = true := by decide +kernel

/-- `UnknownOperationResolver(resolve_to=OrOperation, add_head=" ")` -/
example : hyps q0 (resolve .or sp) = [true, true, true] ∧
    roundTrip q0 (resolve .or sp)
      "a AND (f:[1 TO 5}^2.5 OR NOT \"x y\"~3) OR >=3 OR -b~ OR <z" true = true := by decide +kernel

/-- `UnknownOperationResolver()` (lucene mode) -/
example : hyps q0 (resolve .lucene sp) = [true, true, true] := by decide +kernel
example : ∀ t, parse q0 = .ok t →
    ∃ r, parse (resolve .lucene sp t).strHT = .ok r ∧ r.eqv (norm (resolve .lucene sp t)) = true :=
  fun t h => c11_resolve_lucene_partial q0 t sp h (by decide +kernel) (by decide +kernel)
    (by
      have : (match parse q0 with
          | .ok t => noLooserOperand (resolve .lucene sp t) | .error _ => false) = true := by
        decide +kernel
      rw [h] at this; exact this)
    (by
      have : (match parse q0 with
          | .ok t => treeGluesOK .norm (resolve .lucene sp t) | .error _ => false) = true := by
        decide +kernel
      rw [h] at this; exact this)
example : roundTrip q0 (resolve .lucene sp)
    "a AND (f:[1 TO 5}^2.5 OR NOT \"x y\"~3) AND >=3 AND -b~ AND <z" false = true := by decide +kernel

/-- `a OR b c` resolved to OR is `Or(Or(a, b), c)`: equal to the normal form only -/
example : hyps "a OR b c".toList (resolve .or sp) = [true, true, true] ∧
    roundTrip "a OR b c".toList (resolve .or sp) "a OR b OR c" false = true := by decide +kernel

/-- **KF6**: `a OR b c` resolved to AND is `And(Or(a, b), c)`, printed without parentheses -/
example : hyps "a OR b c".toList (resolve .and sp) = [true, false, true] ∧
    fails "a OR b c".toList (resolve .and sp) "a OR b AND c" = true := by decide +kernel

/-- the condition on the query for KF7 holds for `q0` (both operator words), so the resolved trees
satisfy the adjacency condition by `resolved_gluesOK` -/
example : (match parse q0 with
    | .ok t => wordAfterOK .norm "AND".toList t && wordAfterOK .norm "OR".toList t
    | .error _ => false) = true := by decide +kernel
example : ∀ t, parse q0 = .ok t →
    ∃ r, parse (resolve .or sp t).strHT = .ok r ∧ r.eqv (norm (resolve .or sp t)) = true :=
  fun t h => c11_resolve_or_partial q0 t sp h (by decide +kernel) (by decide +kernel) (by decide)
    (by
      have : (match parse q0 with
          | .ok t => wordAfterOK .norm "OR".toList t | .error _ => false) = true := by decide +kernel
      rw [h] at this; exact this)

/-- … and fails for `a(b)` -/
example : (match parse "a(b)".toList with
    | .ok t => wordAfterOK .norm "AND".toList t
    | .error _ => true) = false := by decide +kernel

/-- … also in lucene mode (the implicit operation is visited before the OR below it) -/
example : hyps "a OR b c".toList (resolve .lucene sp) = [true, false, true] ∧
    fails "a OR b c".toList (resolve .lucene sp) "a OR b AND c" = true := by decide +kernel

/-- **KF7**: `a(b)` resolved to AND: the operator word is glued to `a` -/
example : hyps "a(b)".toList (resolve .and sp) = [true, true, false] ∧
    fails "a(b)".toList (resolve .and sp) "aAND (b)" = true := by decide +kernel

/-- **the empty `add_head`**: `>5` becomes `{5TO*]`, a syntax error -/
example : hyps ">5".toList (openRange false []) = [true, true, false] ∧
    fails ">5".toList (openRange false []) "{5TO*]" = true := by decide +kernel

/-- **KF12** (found here): `>1 AND a~2AND <5 3` with merging: `<5` is merged into `>1` and
disappears with the blank behind it, `a~2` is now followed by `3` -/
example : hyps ">1 AND a~2AND <5 3".toList (openRange true sp) = [true, true, false] ∧
    fails ">1 AND a~2AND <5 3".toList (openRange true sp) "{1  TO 5 }AND a~23" = true ∧
    ((parse "{1  TO 5 }AND a~23".toList).map Tree.strHT) = .ok "{1  TO 5 }AND a~23".toList := by
  decide +kernel

/-- **KF1 / KF8**: `T12 :30` is a field; every transformer drops the blank before the colon, and
`T12:30` is one word -/
example : hyps "T12 :30".toList Tree.copy = [false, true, false] ∧
    fails "T12 :30".toList Tree.copy "T12:30" = true := by decide +kernel

/-- `resolve_to=BoolOperation`: a `BoolOperation` is printed as a juxtaposition, which parses into
an `UnknownOperation`: never equal -/
example : fails "a b".toList (resolve .bool sp) "a  b" = true := by decide +kernel

end Luqum.Props.C11
