/-
  Translator obligations (G11): the head / tail bookkeeping of the lexer.

  `Luqum/Generated/Handle.lean` is produced on every run by symbolic execution (tools/pysym.py) of
  `HeadTailLexer.handle` and `HeadTailLexer.handle_token` (luqum/head_tail.py) on a symbolic token and lexer object, in
  the ten shapes of the situation: separator or token, at offset 0 or later, and what the lexer object carries (no
  `_luqum_headtail` attribute, a tracker without `last_elt`, a tracker with one). The result is a list of EFFECTS
  (`HandleOut`). The theorems below say that the stateful lexer model (`Model/Stateful.lean`: `LexerState.fetch`,
  `Tracker.handleSep`, `Tracker.handleTok`) performs exactly these effects. A change of the python source that alters
  when a tracker is created, what becomes the head of the next token, which token receives a separator as its
  tail, or the position / size a token gets, changes the generated definitions and these theorems stop checking.

  The reading of effects in the model's vocabulary (`HandleOut.tracker`, `HandleOut.acc`) is hand-written and small:
  `last_elt` is a python reference; the model says whether it designates the newest token of the running call
  (`current`) or a token of an older call (`stale`: a tail appended there is not visible in the current tokens).
-/
import Luqum.Generated.Handle
import Luqum.Model.Stateful

namespace Luqum.Props.GenHandle
open Luqum Generated

/-- the tracker after the call: its head, and what `last_elt` designates (`prev` = what it designated before) -/
def HandleOut.tracker (o : HandleOut) (prev : Option LastRef) : Tracker :=
  { head := o.head
    last := match o.last with
      | .none => none
      | .token => some .current
      | .old => prev }

/-- the tokens of the running call after a SEPARATOR was handled: a tail appended to the old `last_elt` is visible
iff that is the newest token of this call -/
def HandleOut.acc (o : HandleOut) (prev : Option LastRef) (acc : List Tok) : List Tok :=
  match o.oldTail, prev with
  | some s, some .current => addTail acc s
  | _, _ => acc

/-- the token pushed when a non separator was handled: `TokenValue` / items start with head `""` -/
def HandleOut.tok (o : HandleOut) (k : TokK) (lexpos : Nat) (text : Str) : Tok :=
  { kind := k, text := text, pos := lexpos, head := o.tokHead.getD [], tail := [] }

/-! ### which tracker handles the token (`HeadTailLexer.handle`, "get instance") -/

/-- at offset 0 a NEW tracker is created whatever the lexer carried -/
theorem fetch_first (st : LexerState) (s orig : Str) (th : Option Str) (ol vl : Lay) :
    st.fetch 0 = some Tracker.fresh ∧
    (∃ o, Handle.handle_sep_first s orig = .ok o ∧ o.freshTracker = true) ∧
    (∃ o, Handle.handle_sep_first_stored th ol s orig = .ok o ∧ o.freshTracker = true) ∧
    (∃ o, Handle.handle_tok_first vl orig = .ok o ∧ o.freshTracker = true) ∧
    (∃ o, Handle.handle_tok_first_stored th ol vl orig = .ok o ∧ o.freshTracker = true) := by
  simp [LexerState.fetch, Handle.handle_sep_first, Handle.handle_sep_first_stored, Handle.handle_tok_first,
    Handle.handle_tok_first_stored]

/-- later, the stored tracker is used; a lexer without the attribute raises `AttributeError` (the model: `none`) -/
theorem fetch_later_absent (st : LexerState) (lexpos : Nat) (h : lexpos ≠ 0) (ht : st.tracker = none)
    (s orig : Str) (vl : Lay) :
    st.fetch lexpos = none ∧
    Handle.handle_sep_absent lexpos s orig = .error (.exc "AttributeError") ∧
    Handle.handle_tok_absent lexpos vl orig = .error (.exc "AttributeError") := by
  simp [LexerState.fetch, h, ht, Handle.handle_sep_absent, Handle.handle_tok_absent]

theorem fetch_later_stored (st : LexerState) (lexpos : Nat) (h : lexpos ≠ 0) (tr : Tracker)
    (ht : st.tracker = some tr) (ol vl : Lay) (s orig : Str) :
    st.fetch lexpos = some tr ∧
    (∃ o, Handle.handle_sep_nolast tr.head lexpos s orig = .ok o ∧ o.freshTracker = false) ∧
    (∃ o, Handle.handle_sep_last tr.head ol lexpos s orig = .ok o ∧ o.freshTracker = false) ∧
    (∃ o, Handle.handle_tok_nolast tr.head lexpos vl orig = .ok o ∧ o.freshTracker = false) ∧
    (∃ o, Handle.handle_tok_last tr.head ol lexpos vl orig = .ok o ∧ o.freshTracker = false) := by
  simp only [LexerState.fetch, h, ht, if_false, true_and]
  unfold Handle.handle_sep_nolast Handle.handle_sep_last Handle.handle_tok_nolast Handle.handle_tok_last
  cases tr.head <;> simp

/-! ### separators -/

/-- a separator at offset 0 becomes the pending head of the fresh tracker; nothing else changes -/
theorem sep_first (s orig : Str) (acc : List Tok) :
    ∃ o, Handle.handle_sep_first s orig = .ok o ∧
      Tracker.fresh.handleSep 0 s acc = (HandleOut.tracker o none, HandleOut.acc o none acc) := by
  simp [Handle.handle_sep_first, Tracker.handleSep, Tracker.fresh, HandleOut.tracker, HandleOut.acc]

theorem sep_first_stored (th : Option Str) (ol : Lay) (s orig : Str) (acc : List Tok) :
    ∃ o, Handle.handle_sep_first_stored th ol s orig = .ok o ∧
      Tracker.fresh.handleSep 0 s acc = (HandleOut.tracker o none, HandleOut.acc o none acc) := by
  simp [Handle.handle_sep_first_stored, Tracker.handleSep, Tracker.fresh, HandleOut.tracker, HandleOut.acc]

/-- a later separator with no `last_elt`: dropped (the python code does nothing) -/
theorem sep_later_nolast (tr : Tracker) (lexpos : Nat) (h : lexpos ≠ 0) (hl : tr.last = none) (s orig : Str)
    (acc : List Tok) :
    ∃ o, Handle.handle_sep_nolast tr.head lexpos s orig = .ok o ∧
      tr.handleSep lexpos s acc = (HandleOut.tracker o tr.last, HandleOut.acc o tr.last acc) := by
  cases tr with
  | mk hd lst =>
    simp only at hl
    subst hl
    simp [Handle.handle_sep_nolast, Tracker.handleSep, h, HandleOut.tracker, HandleOut.acc]

/-- a later separator is appended to the tail of the value of `last_elt`, and to nothing else -/
theorem sep_later_last (tr : Tracker) (lexpos : Nat) (h : lexpos ≠ 0) (r : LastRef) (hl : tr.last = some r)
    (ol : Lay) (s orig : Str) (acc : List Tok) :
    ∃ o, Handle.handle_sep_last tr.head ol lexpos s orig = .ok o ∧ o.oldTail = some s ∧
      tr.handleSep lexpos s acc = (HandleOut.tracker o tr.last, HandleOut.acc o tr.last acc) := by
  cases tr with
  | mk hd lst =>
    simp only at hl
    subst hl
    cases r <;> simp [Handle.handle_sep_last, Tracker.handleSep, h, HandleOut.tracker, HandleOut.acc]

/-! ### tokens -/

/-- the first token of an input: no head, position 0, size = length of the lexeme, it becomes `last_elt` -/
theorem tok_first (k : TokK) (text : Str) (vl : Lay) (acc : List Tok) :
    ∃ o, Handle.handle_tok_first vl text = .ok o ∧
      o.tokPos = some (some 0) ∧ o.tokSize = some (some (text.length : Int)) ∧
      Tracker.fresh.handleTok k 0 text acc = (HandleOut.tracker o none, HandleOut.tok o k 0 text :: acc) := by
  simp [Handle.handle_tok_first, Tracker.handleTok, Tracker.fresh, HandleOut.tracker, HandleOut.tok]

theorem tok_first_stored (k : TokK) (text : Str) (th : Option Str) (ol vl : Lay) (acc : List Tok) :
    ∃ o, Handle.handle_tok_first_stored th ol vl text = .ok o ∧
      o.tokPos = some (some 0) ∧ o.tokSize = some (some (text.length : Int)) ∧
      Tracker.fresh.handleTok k 0 text acc = (HandleOut.tracker o none, HandleOut.tok o k 0 text :: acc) := by
  simp [Handle.handle_tok_first_stored, Tracker.handleTok, Tracker.fresh, HandleOut.tracker, HandleOut.tok]

/-- a later token takes the pending head (if any) and clears it, gets its offset and the length of its lexeme,
and becomes `last_elt` -/
theorem tok_later (tr : Tracker) (k : TokK) (lexpos : Nat) (text : Str) (ol vl : Lay) (acc : List Tok) :
    (∃ o, Handle.handle_tok_nolast tr.head lexpos vl text = .ok o ∧
      o.tokPos = some (some (lexpos : Int)) ∧ o.tokSize = some (some (text.length : Int)) ∧
      tr.handleTok k lexpos text acc = (HandleOut.tracker o tr.last, HandleOut.tok o k lexpos text :: acc)) ∧
    (∃ o, Handle.handle_tok_last tr.head ol lexpos vl text = .ok o ∧
      o.tokPos = some (some (lexpos : Int)) ∧ o.tokSize = some (some (text.length : Int)) ∧
      tr.handleTok k lexpos text acc = (HandleOut.tracker o tr.last, HandleOut.tok o k lexpos text :: acc)) := by
  cases tr with
  | mk hd lst =>
    cases hd <;>
      simp [Handle.handle_tok_nolast, Handle.handle_tok_last, Tracker.handleTok, HandleOut.tracker, HandleOut.tok]

/-- every situation was translated -/
theorem handle_names_complete :
    Handle.handleNames = ["handle_sep_first", "handle_sep_first_stored", "handle_sep_absent", "handle_sep_nolast",
      "handle_sep_last", "handle_tok_first", "handle_tok_first_stored", "handle_tok_absent", "handle_tok_nolast",
      "handle_tok_last"] ∧ Handle.lexerAttr = "_luqum_headtail" := by decide

end Luqum.Props.GenHandle
