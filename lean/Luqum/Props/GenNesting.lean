/-
  Translator obligations (G17): `CheckNestedFields` (luqum/check.py), the decision C07's container clauses rest on.

  `Luqum/Generated/Nesting.lean` is produced on every run by symbolic execution (tools/pysym.py) of
  `CheckNestedFields._check_final_operation(node, context)` -- with the checker's `nested_prefixes`,
  `object_prefixes`, `nested_fields`, `sub_fields`, `object_fields` and the prefix accumulated in the context as
  variables -- and of `visit_search_field` (the prefix handed down to the expression of a field). The theorems say that
  the model's `checkFinal` and the recursion of `nestingCheck` through a field (Model/Es.lean) are these functions:
  which exception, in which order of the tests, with which message.
-/
import Luqum.Generated.Nesting

namespace Luqum.Props.GenNesting
open Luqum Generated

/-- the model's reading of the outcome of the translated check -/
def liftNest : Except PyErr Unit → Except EsErr Unit
  | .ok () => .ok ()
  | .error (.msg "NestedSearchFieldException" m) => .error (.nestedSearch m)
  | .error (.msg "ObjectSearchFieldException" m) => .error (.objectSearch m)
  | .error (.msg cls _) => .error (.other cls)
  | .error (.exc cls) => .error (.other cls)
  | .error (.fmt cls _ _) => .error (.other cls)

/-- **the decision on a term is the translated code**: for every configuration, accumulated prefix and term, the
model's `checkFinal` is `_check_final_operation` as translated from the source, applied to the collections the
checker's `__init__` computes (`EsCfg.nestedPrefixes`, `objectPrefixes`, `nestedFlat`, `subNorm`, `objectNorm`) -/
theorem checkFinal_is_generated (c : EsCfg) (pfx : List Str) (node : Tree) :
    checkFinal c pfx node =
      liftNest (Nesting.check_final_operation c.nestedPrefixes c.objectPrefixes c.nestedFlat c.subNorm c.objectNorm
        pfx node.str) := by
  unfold checkFinal Nesting.check_final_operation
  cases pfx with
  | nil => simp [liftNest]
  | cons p r =>
    simp only [List.isEmpty_cons, Bool.false_eq_true, if_false, reduceCtorEq, joinDot]
    by_cases h1 : joinWith ['.'] (p :: r) ∈ c.nestedPrefixes
    · simp [h1, liftNest, quoteMsg, List.append_assoc]
    · by_cases h2 : joinWith ['.'] (p :: r) ∈ c.objectPrefixes
      · simp [h1, h2, liftNest, quoteMsg, List.append_assoc]
      · cases r with
        | nil => simp [h1, h2, liftNest]
        | cons q r' =>
          have hl : (1 : Int) < (r'.length : Int) + 1 + 1 := by omega
          cases hs : c.subNorm <;> cases ho : c.objectNorm <;>
            simp [h1, h2, hl, liftNest, List.append_assoc] <;>
            (try (split <;> simp_all [liftNest, List.append_assoc]))

/-- the expression of a field is checked under the prefix extended by the components of its dotted name, in a new
context that keeps the other keys -/
theorem nestingCheck_field_is_generated (c : EsCfg) (pfx : List Str) (n : Str) (e : Tree) (l : Lay) (other : Str) :
    ∃ pfx', Nesting.search_field_prefix pfx n other = .ok (pfx', true) ∧
      nestingCheck c pfx (.field n e l) = nestingCheck c pfx' e := by
  refine ⟨pfx ++ splitOnChar '.' n, rfl, ?_⟩
  simp [nestingCheck]

theorem nesting_names_complete : Nesting.nestingNames = ["check_final_operation", "search_field_prefix"] := by decide

end Luqum.Props.GenNesting
