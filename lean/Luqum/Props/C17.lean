import Luqum.Model.Naming
namespace Luqum.Props.C17
open Luqum
theorem first_name : nextName none = some ['a'] := by decide
end Luqum.Props.C17
