/-
  C17 — HTML marking wraps exactly the marked elements' text and keeps the query intact.

  The output of `HTMLMarker` is described as a list of tokens (`markToks`): characters of the query,
  opening tags carrying a class, closing tags. Then:
   * removing the tags gives back the query text exactly (`erase_markToks`, `htmlMark_erase`);
   * the tags are properly nested (`balanced_markToks`);
   * rendering the tokens is the actual output (`render_markToks`, `htmlMark_eq_render`);
   * every character is rendered with the class of the innermost marked sub-expression whose text
     (head and tail included) contains it (`classAt_markToks`), in both modes; parsimony changes only
     how many elements are emitted (`parcimonious_same_classes`, `tagOf_none_iff`);
   * `markTree` changes only heads / tails (`Luqum.Lemmas.Mark.markTree_eq`, `markTree_at`,
     `markLay_cases`), restated here as `markTree_shape`.
  Model-level lemmas are in Luqum/Lemmas/Mark.lean.
-/
import Luqum.Model.Naming
import Luqum.Lemmas.Mark

namespace Luqum.Props.C17
open Luqum Luqum.Lemmas.Mark

/-! ### the marked output as tokens -/

/-- a piece of the marked output: a character of the query, an opening tag with its class, a
closing tag -/
inductive MTok where
  | chr (c : Char)
  | opn (cls : Str)
  | clo
deriving DecidableEq, Repr

def chrs (s : Str) : List MTok := s.map .chr

/-- the class of the element that `mark_node` adds around the node at `path` (`none`: no element):
the node's own class, except that in parsimonious mode nothing is added when the nearest marked
strict ancestor has that very class -/
def tagOf (m : MarkCfg) (ok ko : List (List Nat)) (path : List Nat) : Option Str :=
  match cssClass m ok ko path with
  | none => none
  | some cls =>
    if (if m.parcimonious then parentClass m ok ko (path.length + 1) path != some cls else true)
    then some cls else none

def wrap : Option Str → List MTok → List MTok
  | none, ts => ts
  | some c, ts => .opn c :: ts ++ [.clo]

/-- `joinWith` for any kind of items -/
def joinL {α : Type} (sep : List α) : List (List α) → List α
  | [] => []
  | [x] => x
  | x :: y :: r => x ++ sep ++ joinL sep (y :: r)

/-- one node: the optional element encloses head, body and tail -/
def nodeToks (tag : Option Str) (l : Lay) (body : List MTok) : List MTok :=
  wrap tag (chrs l.head ++ body ++ chrs l.tail)

mutual
/-- the marked output, by recursion on the ORIGINAL tree, parallel to `Tree.full` -/
def markToks (s : NumStyle) (m : MarkCfg) (ok ko : List (List Nat)) (path : List Nat) :
    Tree → List MTok
  | .none _ => []   -- `NoneItem` prints as empty and ignores head / tail: its mark vanishes
  | .term _ v l => nodeToks (tagOf m ok ko path) l (chrs v)
  | .field n e l =>
      nodeToks (tagOf m ok ko path) l (chrs n ++ chrs [':'] ++ markToks s m ok ko (path ++ [0]) e)
  | .group _ e l =>
      nodeToks (tagOf m ok ko path) l (chrs ['('] ++ markToks s m ok ko (path ++ [0]) e ++ chrs [')'])
  | .range a b il ih l =>
      nodeToks (tagOf m ok ko path) l
        (chrs [if il then '[' else '{'] ++ markToks s m ok ko (path ++ [0]) a ++ chrs "TO".toList
          ++ markToks s m ok ko (path ++ [1]) b ++ chrs [if ih then ']' else '}'])
  | .approx _ t n l =>
      nodeToks (tagOf m ok ko path) l (markToks s m ok ko (path ++ [0]) t ++ chrs ['~'] ++ chrs (n.text s))
  | .boost e n l =>
      nodeToks (tagOf m ok ko path) l (markToks s m ok ko (path ++ [0]) e ++ chrs ['^'] ++ chrs (n.text s))
  | .op k xs l =>
      nodeToks (tagOf m ok ko path) l (joinL (chrs k.word) (markToksList s m ok ko path 0 xs))
  | .unary k a l =>
      nodeToks (tagOf m ok ko path) l (chrs k.word ++ markToks s m ok ko (path ++ [0]) a)
  | .orange k a inc l =>
      nodeToks (tagOf m ok ko path) l
        (chrs k.word ++ chrs (if inc then ['='] else []) ++ markToks s m ok ko (path ++ [0]) a)
def markToksList (s : NumStyle) (m : MarkCfg) (ok ko : List (List Nat)) (path : List Nat) (i : Nat) :
    List Tree → List (List MTok)
  | [] => []
  | x :: r => markToks s m ok ko (path ++ [i]) x :: markToksList s m ok ko path (i + 1) r
end

/-- drop the tags, keep the characters -/
def erase : List MTok → Str
  | [] => []
  | .chr c :: r => c :: erase r
  | .opn _ :: r => erase r
  | .clo :: r => erase r

/-- the text of the tokens (tags spelled exactly as `mark_node` does) -/
def render (m : MarkCfg) : List MTok → Str
  | [] => []
  | .chr c :: r => c :: render m r
  | .opn cls :: r =>
      ("<".toList ++ m.element ++ " class=\"".toList ++ cls ++ "\">".toList) ++ render m r
  | .clo :: r => ("</".toList ++ m.element ++ ">".toList) ++ render m r

/-- depth after reading the tokens from depth `d`; `none` when a closing tag has no opening one -/
def balAux : Nat → List MTok → Option Nat
  | d, [] => some d
  | d, .chr _ :: r => balAux d r
  | d, .opn _ :: r => balAux (d + 1) r
  | 0, .clo :: _ => none
  | d + 1, .clo :: r => balAux d r

/-- tags are properly nested: the depth never goes negative and ends at 0 -/
def balanced (ts : List MTok) : Bool := balAux 0 ts == some 0

/-- class in force at each character: the top of the stack of open elements -/
def classAtAux : List Str → List MTok → List (Char × Option Str)
  | _, [] => []
  | stk, .chr c :: r => (c, stk.head?) :: classAtAux stk r
  | stk, .opn cls :: r => classAtAux (cls :: stk) r
  | stk, .clo :: r => classAtAux stk.tail r

def classAt : List MTok → List (Char × Option Str) := classAtAux []

/-- class of the nearest ancestor-or-self of `path` that has a class (independent of the mode) -/
def effClass (m : MarkCfg) (ok ko : List (List Nat)) (path : List Nat) : Option Str :=
  match cssClass m ok ko path with
  | some c => some c
  | none => parentClass m ok ko (path.length + 1) path

/-- label every character of `s` with `c` -/
def lab (c : Option Str) (s : Str) : List (Char × Option Str) := s.map (fun x => (x, c))

mutual
/-- specification of the class of every character, parallel to `Tree.full`: every character that
the node at `path` contributes itself (head, own text, separators, tail) carries `cls path`;
the characters of the children are labelled recursively -/
def charClasses (s : NumStyle) (cls : List Nat → Option Str) (path : List Nat) :
    Tree → List (Char × Option Str)
  | .none _ => []
  | .term _ v l => lab (cls path) l.head ++ lab (cls path) v ++ lab (cls path) l.tail
  | .field n e l =>
      lab (cls path) l.head ++ (lab (cls path) n ++ lab (cls path) [':']
        ++ charClasses s cls (path ++ [0]) e) ++ lab (cls path) l.tail
  | .group _ e l =>
      lab (cls path) l.head ++ (lab (cls path) ['('] ++ charClasses s cls (path ++ [0]) e
        ++ lab (cls path) [')']) ++ lab (cls path) l.tail
  | .range a b il ih l =>
      lab (cls path) l.head ++ (lab (cls path) [if il then '[' else '{']
        ++ charClasses s cls (path ++ [0]) a ++ lab (cls path) "TO".toList
        ++ charClasses s cls (path ++ [1]) b ++ lab (cls path) [if ih then ']' else '}'])
        ++ lab (cls path) l.tail
  | .approx _ t n l =>
      lab (cls path) l.head ++ (charClasses s cls (path ++ [0]) t ++ lab (cls path) ['~']
        ++ lab (cls path) (n.text s)) ++ lab (cls path) l.tail
  | .boost e n l =>
      lab (cls path) l.head ++ (charClasses s cls (path ++ [0]) e ++ lab (cls path) ['^']
        ++ lab (cls path) (n.text s)) ++ lab (cls path) l.tail
  | .op k xs l =>
      lab (cls path) l.head ++ joinL (lab (cls path) k.word) (charClassesList s cls path 0 xs)
        ++ lab (cls path) l.tail
  | .unary k a l =>
      lab (cls path) l.head ++ (lab (cls path) k.word ++ charClasses s cls (path ++ [0]) a)
        ++ lab (cls path) l.tail
  | .orange k a inc l =>
      lab (cls path) l.head ++ (lab (cls path) k.word ++ lab (cls path) (if inc then ['='] else [])
        ++ charClasses s cls (path ++ [0]) a) ++ lab (cls path) l.tail
def charClassesList (s : NumStyle) (cls : List Nat → Option Str) (path : List Nat) (i : Nat) :
    List Tree → List (List (Char × Option Str))
  | [] => []
  | x :: r => charClasses s cls (path ++ [i]) x :: charClassesList s cls path (i + 1) r
end

/-! ### helper lemmas on tokens -/

theorem joinWith_eq_joinL (sep : Str) : ∀ xs : List Str, joinWith sep xs = joinL sep xs
  | [] => rfl
  | [_] => rfl
  | x :: y :: r => by simp [joinWith, joinL, joinWith_eq_joinL sep (y :: r)]

/-- a function that respects concatenation respects joining -/
theorem joinL_hom {α β : Type} (f : List α → List β) (hf : ∀ a b, f (a ++ b) = f a ++ f b)
    (hnil : f [] = []) (sep : List α) :
    ∀ xs : List (List α), f (joinL sep xs) = joinL (f sep) (xs.map f)
  | [] => by simp [joinL, hnil]
  | [_] => by simp [joinL]
  | x :: y :: r => by
      have ih := joinL_hom f hf hnil sep (y :: r)
      simp only [List.map_cons] at ih
      simp [joinL, hf, ih]

@[simp] theorem chrs_nil : chrs [] = [] := rfl
@[simp] theorem chrs_append (a b : Str) : chrs (a ++ b) = chrs a ++ chrs b := by simp [chrs]

theorem erase_append : ∀ a b : List MTok, erase (a ++ b) = erase a ++ erase b
  | [], b => rfl
  | .chr c :: r, b => by simp [erase, erase_append r b]
  | .opn _ :: r, b => by simp [erase, erase_append r b]
  | .clo :: r, b => by simp [erase, erase_append r b]

theorem erase_chrs : ∀ s : Str, erase (chrs s) = s
  | [] => rfl
  | c :: r => by simp [chrs, erase]; exact erase_chrs r

theorem erase_wrap (tag : Option Str) (ts : List MTok) : erase (wrap tag ts) = erase ts := by
  cases tag <;> simp [wrap, erase, erase_append]

theorem erase_nodeToks (tag : Option Str) (l : Lay) (body : List MTok) :
    erase (nodeToks tag l body) = l.head ++ erase body ++ l.tail := by
  simp [nodeToks, erase_wrap, erase_append, erase_chrs]

theorem render_append (m : MarkCfg) : ∀ a b : List MTok, render m (a ++ b) = render m a ++ render m b
  | [], b => rfl
  | .chr c :: r, b => by simp [render, render_append m r b]
  | .opn _ :: r, b => by simp [render, render_append m r b]
  | .clo :: r, b => by simp [render, render_append m r b]

theorem render_chrs (m : MarkCfg) : ∀ s : Str, render m (chrs s) = s
  | [] => rfl
  | c :: r => by simp [chrs, render]; exact render_chrs m r

/-- `markLay` in terms of `tagOf` -/
theorem markLay_tagOf (m : MarkCfg) (ok ko : List (List Nat)) (path : List Nat) (l : Lay) :
    markLay m ok ko path l =
      match tagOf m ok ko path with
      | none => l
      | some cls =>
        { l with head := "<".toList ++ m.element ++ " class=\"".toList ++ cls ++ "\">".toList ++ l.head,
                 tail := l.tail ++ "</".toList ++ m.element ++ ">".toList } := by
  unfold markLay tagOf
  cases cssClass m ok ko path with
  | none => rfl
  | some cls =>
    dsimp only
    by_cases hadd : (if m.parcimonious then
        parentClass m ok ko (path.length + 1) path != some cls else true) = true
    · rw [if_pos hadd, if_pos hadd]
    · rw [if_neg hadd, if_neg hadd]

/-- rendering one node: the marked head, the body, the marked tail -/
theorem render_nodeToks (m : MarkCfg) (ok ko : List (List Nat)) (path : List Nat) (l : Lay)
    (body : List MTok) :
    render m (nodeToks (tagOf m ok ko path) l body) =
      (markLay m ok ko path l.noName).head ++ render m body ++ (markLay m ok ko path l.noName).tail := by
  rw [markLay_tagOf]
  cases tagOf m ok ko path <;>
    simp [nodeToks, wrap, render, render_append, render_chrs, Lay.noName, List.append_assoc]

theorem balAux_append : ∀ (a b : List MTok) (d : Nat),
    balAux d (a ++ b) = (balAux d a).bind (fun d' => balAux d' b)
  | [], b, d => by simp [balAux]
  | .chr _ :: r, b, d => by simp [balAux, balAux_append r b]
  | .opn _ :: r, b, d => by simp [balAux, balAux_append r b]
  | .clo :: r, b, 0 => by simp [balAux]
  | .clo :: r, b, d + 1 => by simp [balAux, balAux_append r b]

/-- a self-contained balanced block: from any depth, back to that depth -/
def Bal (ts : List MTok) : Prop := ∀ d, balAux d ts = some d

theorem Bal.nil : Bal [] := fun _ => rfl
theorem Bal.append {a b : List MTok} (ha : Bal a) (hb : Bal b) : Bal (a ++ b) := by
  intro d; simp [balAux_append, ha d, hb d]
theorem Bal.chrs : ∀ s : Str, Bal (chrs s)
  | [] => Bal.nil
  | c :: r => by intro d; simp only [C17.chrs, List.map_cons, balAux]; exact Bal.chrs r d
theorem Bal.wrap (tag : Option Str) {ts : List MTok} (h : Bal ts) : Bal (wrap tag ts) := by
  cases tag with
  | none => exact h
  | some c => intro d; simp [C17.wrap, balAux, balAux_append, h (d + 1)]
theorem Bal.nodeToks (tag : Option Str) (l : Lay) {body : List MTok} (h : Bal body) :
    Bal (nodeToks tag l body) :=
  Bal.wrap tag (Bal.append (Bal.append (Bal.chrs _) h) (Bal.chrs _))
theorem Bal.joinL {sep : List MTok} (hs : Bal sep) :
    ∀ xs : List (List MTok), (∀ x ∈ xs, Bal x) → Bal (joinL sep xs)
  | [], _ => Bal.nil
  | [x], h => h x (by simp)
  | x :: y :: r, h =>
      Bal.append (Bal.append (h x (by simp)) hs) (Bal.joinL hs (y :: r) (fun z hz => h z (by simp [hz])))

theorem classAtAux_chrs (stk : List Str) : ∀ (s : Str) (rest : List MTok),
    classAtAux stk (chrs s ++ rest) = lab stk.head? s ++ classAtAux stk rest
  | [], rest => rfl
  | c :: r, rest => by
      simp only [chrs, List.map_cons, List.cons_append, classAtAux, lab, List.cons.injEq, true_and]
      exact classAtAux_chrs stk r rest

/-- from a child of `path`, the nearest marked strict ancestor is the nearest marked
ancestor-or-self of `path` -/
theorem parentClass_child (m : MarkCfg) (ok ko : List (List Nat)) (path : List Nat) (i : Nat) :
    parentClass m ok ko ((path ++ [i]).length + 1) (path ++ [i]) = effClass m ok ko path := by
  rw [parentClass_snoc, effClass]
  cases cssClass m ok ko path <;> rfl

/-- (b) in parsimonious mode an element is omitted only when the nearest marked strict ancestor has
the same class (without parsimony: only when the node has no class) -/
theorem tagOf_none_iff (m : MarkCfg) (ok ko : List (List Nat)) (path : List Nat) :
    tagOf m ok ko path = none ↔
      cssClass m ok ko path = none ∨
      (m.parcimonious = true ∧ ∃ cls, cssClass m ok ko path = some cls ∧
        parentClass m ok ko (path.length + 1) path = some cls) := by
  unfold tagOf
  cases cssClass m ok ko path with
  | none => simp
  | some cls => cases hp : m.parcimonious <;> simp

/-- an emitted element always carries the node's own class -/
theorem tagOf_some (m : MarkCfg) (ok ko : List (List Nat)) (path : List Nat) (cls : Str)
    (h : tagOf m ok ko path = some cls) : cssClass m ok ko path = some cls := by
  unfold tagOf at h
  cases hc : cssClass m ok ko path with
  | none => simp [hc] at h
  | some c => simp [hc] at h; simp [h.2]

/-- whether or not the element is emitted, inside the node the class in force is `effClass path`,
and after the node the stack is back to what it was -/
theorem classAtAux_wrap (m : MarkCfg) (ok ko : List (List Nat)) (path : List Nat) (stk : List Str)
    (hstk : stk.head? = parentClass m ok ko (path.length + 1) path)
    (inner rest : List MTok) (X : List (Char × Option Str))
    (hin : ∀ (stk' : List Str) (rest' : List MTok), stk'.head? = effClass m ok ko path →
      classAtAux stk' (inner ++ rest') = X ++ classAtAux stk' rest') :
    classAtAux stk (wrap (tagOf m ok ko path) inner ++ rest) = X ++ classAtAux stk rest := by
  cases htag : tagOf m ok ko path with
  | some cls =>
    have hc := tagOf_some m ok ko path cls htag
    have := hin (cls :: stk) (.clo :: rest) (by simp [effClass, hc])
    simpa [wrap, classAtAux, List.append_assoc] using this
  | none =>
    refine hin stk rest ?_
    rw [hstk, effClass]
    rcases (tagOf_none_iff m ok ko path).1 htag with h | ⟨_, cls, h1, h2⟩
    · rw [h]
    · rw [h1, h2]

theorem lab_append (c : Option Str) (a b : Str) : lab c (a ++ b) = lab c a ++ lab c b := by
  simp [lab]

theorem map_fst_lab (c : Option Str) (s : Str) : (lab c s).map Prod.fst = s := by
  simp [lab, Function.comp_def]

/-! ### part 1: text kept, tags nested, tokens = real output -/

mutual
/-- **(i)** removing the inserted elements gives back the query text exactly -/
theorem erase_markToks (s : NumStyle) (m : MarkCfg) (ok ko : List (List Nat)) :
    ∀ (path : List Nat) (t : Tree), erase (markToks s m ok ko path t) = t.full s
  | path, .none _ => by simp [markToks, Tree.full, erase]
  | path, .term _ v l => by simp [markToks, Tree.full, erase_nodeToks, erase_chrs]
  | path, .field n e l => by
      simp [markToks, Tree.full, erase_nodeToks, erase_append, erase_chrs,
        erase_markToks s m ok ko (path ++ [0]) e]
  | path, .group _ e l => by
      simp [markToks, Tree.full, erase_nodeToks, erase_append, erase_chrs,
        erase_markToks s m ok ko (path ++ [0]) e]
  | path, .range a b il ih l => by
      simp [markToks, Tree.full, erase_nodeToks, erase_append, erase_chrs,
        erase_markToks s m ok ko (path ++ [0]) a, erase_markToks s m ok ko (path ++ [1]) b]
  | path, .approx _ e n l => by
      simp [markToks, Tree.full, erase_nodeToks, erase_append, erase_chrs,
        erase_markToks s m ok ko (path ++ [0]) e]
  | path, .boost e n l => by
      simp [markToks, Tree.full, erase_nodeToks, erase_append, erase_chrs,
        erase_markToks s m ok ko (path ++ [0]) e]
  | path, .op k xs l => by
      simp [markToks, Tree.full, erase_nodeToks, joinL_hom erase erase_append rfl, erase_chrs,
        erase_markToksList s m ok ko path 0 xs, joinWith_eq_joinL]
  | path, .unary k e l => by
      simp [markToks, Tree.full, erase_nodeToks, erase_append, erase_chrs,
        erase_markToks s m ok ko (path ++ [0]) e]
  | path, .orange k e i l => by
      simp [markToks, Tree.full, erase_nodeToks, erase_append, erase_chrs,
        erase_markToks s m ok ko (path ++ [0]) e]
theorem erase_markToksList (s : NumStyle) (m : MarkCfg) (ok ko : List (List Nat)) :
    ∀ (path : List Nat) (i : Nat) (xs : List Tree),
      (markToksList s m ok ko path i xs).map erase = Tree.fulls s xs
  | path, i, [] => by simp [markToksList, Tree.fulls]
  | path, i, x :: r => by
      simp [markToksList, Tree.fulls, erase_markToks s m ok ko (path ++ [i]) x,
        erase_markToksList s m ok ko path (i + 1) r]
end

mutual
theorem bal_markToks (s : NumStyle) (m : MarkCfg) (ok ko : List (List Nat)) :
    ∀ (path : List Nat) (t : Tree), Bal (markToks s m ok ko path t)
  | path, .none _ => by simp only [markToks]; exact Bal.nil
  | path, .term _ v l => by simp only [markToks]; exact Bal.nodeToks _ _ (Bal.chrs _)
  | path, .field n e l => by
      simp only [markToks]
      exact Bal.nodeToks _ _ (Bal.append (Bal.append (Bal.chrs _) (Bal.chrs _))
        (bal_markToks s m ok ko (path ++ [0]) e))
  | path, .group _ e l => by
      simp only [markToks]
      exact Bal.nodeToks _ _ (Bal.append (Bal.append (Bal.chrs _)
        (bal_markToks s m ok ko (path ++ [0]) e)) (Bal.chrs _))
  | path, .range a b il ih l => by
      simp only [markToks]
      exact Bal.nodeToks _ _ (Bal.append (Bal.append (Bal.append (Bal.append (Bal.chrs _)
        (bal_markToks s m ok ko (path ++ [0]) a)) (Bal.chrs _))
        (bal_markToks s m ok ko (path ++ [1]) b)) (Bal.chrs _))
  | path, .approx _ e n l => by
      simp only [markToks]
      exact Bal.nodeToks _ _ (Bal.append (Bal.append
        (bal_markToks s m ok ko (path ++ [0]) e) (Bal.chrs _)) (Bal.chrs _))
  | path, .boost e n l => by
      simp only [markToks]
      exact Bal.nodeToks _ _ (Bal.append (Bal.append
        (bal_markToks s m ok ko (path ++ [0]) e) (Bal.chrs _)) (Bal.chrs _))
  | path, .op k xs l => by
      simp only [markToks]
      exact Bal.nodeToks _ _ (Bal.joinL (Bal.chrs _) _ (bal_markToksList s m ok ko path 0 xs))
  | path, .unary k e l => by
      simp only [markToks]
      exact Bal.nodeToks _ _ (Bal.append (Bal.chrs _) (bal_markToks s m ok ko (path ++ [0]) e))
  | path, .orange k e i l => by
      simp only [markToks]
      exact Bal.nodeToks _ _ (Bal.append (Bal.append (Bal.chrs _) (Bal.chrs _))
        (bal_markToks s m ok ko (path ++ [0]) e))
theorem bal_markToksList (s : NumStyle) (m : MarkCfg) (ok ko : List (List Nat)) :
    ∀ (path : List Nat) (i : Nat) (xs : List Tree),
      ∀ x ∈ markToksList s m ok ko path i xs, Bal x
  | path, i, [] => by simp [markToksList]
  | path, i, x :: r => by
      intro y hy
      simp only [markToksList, List.mem_cons] at hy
      rcases hy with rfl | hy
      · exact bal_markToks s m ok ko (path ++ [i]) x
      · exact bal_markToksList s m ok ko path (i + 1) r y hy
end

/-- **(ii)** the inserted elements are properly nested (every closing tag closes the latest open
element, none is left open) -/
theorem balanced_markToks (s : NumStyle) (m : MarkCfg) (ok ko : List (List Nat)) (path : List Nat)
    (t : Tree) : balanced (markToks s m ok ko path t) = true := by
  simp [balanced, bal_markToks s m ok ko path t 0]

mutual
/-- **(iii)** the tokens, spelled out, are the text of the marked tree -/
theorem render_markToks (s : NumStyle) (m : MarkCfg) (ok ko : List (List Nat)) :
    ∀ (path : List Nat) (t : Tree),
      render m (markToks s m ok ko path t) = (markTree m ok ko path t).full s
  | path, .none _ => by simp [markToks, markTree, Tree.full, render]
  | path, .term _ v l => by simp [markToks, markTree, Tree.full, render_nodeToks, render_chrs]
  | path, .field n e l => by
      simp [markToks, markTree, Tree.full, render_nodeToks, render_append, render_chrs,
        render_markToks s m ok ko (path ++ [0]) e]
  | path, .group _ e l => by
      simp [markToks, markTree, Tree.full, render_nodeToks, render_append, render_chrs,
        render_markToks s m ok ko (path ++ [0]) e]
  | path, .range a b il ih l => by
      simp [markToks, markTree, Tree.full, render_nodeToks, render_append, render_chrs,
        render_markToks s m ok ko (path ++ [0]) a, render_markToks s m ok ko (path ++ [1]) b]
  | path, .approx _ e n l => by
      simp [markToks, markTree, Tree.full, render_nodeToks, render_append, render_chrs,
        render_markToks s m ok ko (path ++ [0]) e]
  | path, .boost e n l => by
      simp [markToks, markTree, Tree.full, render_nodeToks, render_append, render_chrs,
        render_markToks s m ok ko (path ++ [0]) e]
  | path, .op k xs l => by
      simp [markToks, markTree, Tree.full, render_nodeToks,
        joinL_hom (render m) (render_append m) rfl, render_chrs,
        render_markToksList s m ok ko path 0 xs, joinWith_eq_joinL]
  | path, .unary k e l => by
      simp [markToks, markTree, Tree.full, render_nodeToks, render_append, render_chrs,
        render_markToks s m ok ko (path ++ [0]) e]
  | path, .orange k e i l => by
      simp [markToks, markTree, Tree.full, render_nodeToks, render_append, render_chrs,
        render_markToks s m ok ko (path ++ [0]) e]
theorem render_markToksList (s : NumStyle) (m : MarkCfg) (ok ko : List (List Nat)) :
    ∀ (path : List Nat) (i : Nat) (xs : List Tree),
      (markToksList s m ok ko path i xs).map (render m) = Tree.fulls s (markList m ok ko path i xs)
  | path, i, [] => by simp [markToksList, markList, Tree.fulls]
  | path, i, x :: r => by
      simp [markToksList, markList, Tree.fulls, render_markToks s m ok ko (path ++ [i]) x,
        render_markToksList s m ok ko path (i + 1) r]
end

/-- the output of `HTMLMarker` is the rendering of the tokens -/
theorem htmlMark_eq_render (m : MarkCfg) (ok ko : List (List Nat)) (t : Tree) :
    htmlMark m ok ko t = render m (markToks .norm m ok ko [] t) := by
  rw [render_markToks]; rfl

/-- … and without its tags it is the query as printed (`str` with head and tail) -/
theorem htmlMark_erase (m : MarkCfg) (ok ko : List (List Nat)) (t : Tree) :
    erase (markToks .norm m ok ko [] t) = t.strHT :=
  erase_markToks .norm m ok ko [] t

/-! ### part 2: the class every character is rendered with -/

mutual
/-- general form: reading the tokens of the sub-tree at `path` with a stack whose top is the class
of the nearest marked strict ancestor labels its characters as specified and restores the stack -/
theorem classAtAux_markToks (s : NumStyle) (m : MarkCfg) (ok ko : List (List Nat)) :
    ∀ (path : List Nat) (t : Tree) (stk : List Str) (rest : List MTok),
      stk.head? = parentClass m ok ko (path.length + 1) path →
      classAtAux stk (markToks s m ok ko path t ++ rest) =
        charClasses s (effClass m ok ko) path t ++ classAtAux stk rest
  | path, .none _, stk, rest, _ => by simp [markToks, charClasses]
  | path, .term _ v l, stk, rest, h => by
      simp only [markToks, charClasses, nodeToks]
      refine classAtAux_wrap m ok ko path stk h _ rest _ ?_
      intro stk' rest' h'
      simp only [List.append_assoc, classAtAux_chrs, h']
  | path, .field n e l, stk, rest, h => by
      simp only [markToks, charClasses, nodeToks]
      refine classAtAux_wrap m ok ko path stk h _ rest _ ?_
      intro stk' rest' h'
      have ih := fun r => classAtAux_markToks s m ok ko (path ++ [0]) e stk' r
        (by rw [parentClass_child]; exact h')
      simp only [List.append_assoc, classAtAux_chrs, h', ih]
  | path, .group _ e l, stk, rest, h => by
      simp only [markToks, charClasses, nodeToks]
      refine classAtAux_wrap m ok ko path stk h _ rest _ ?_
      intro stk' rest' h'
      have ih := fun r => classAtAux_markToks s m ok ko (path ++ [0]) e stk' r
        (by rw [parentClass_child]; exact h')
      simp only [List.append_assoc, classAtAux_chrs, h', ih]
  | path, .range a b il ih l, stk, rest, h => by
      simp only [markToks, charClasses, nodeToks]
      refine classAtAux_wrap m ok ko path stk h _ rest _ ?_
      intro stk' rest' h'
      have iha := fun r => classAtAux_markToks s m ok ko (path ++ [0]) a stk' r
        (by rw [parentClass_child]; exact h')
      have ihb := fun r => classAtAux_markToks s m ok ko (path ++ [1]) b stk' r
        (by rw [parentClass_child]; exact h')
      simp only [List.append_assoc, classAtAux_chrs, h', iha, ihb]
  | path, .approx _ e n l, stk, rest, h => by
      simp only [markToks, charClasses, nodeToks]
      refine classAtAux_wrap m ok ko path stk h _ rest _ ?_
      intro stk' rest' h'
      have ih := fun r => classAtAux_markToks s m ok ko (path ++ [0]) e stk' r
        (by rw [parentClass_child]; exact h')
      simp only [List.append_assoc, classAtAux_chrs, h', ih]
  | path, .boost e n l, stk, rest, h => by
      simp only [markToks, charClasses, nodeToks]
      refine classAtAux_wrap m ok ko path stk h _ rest _ ?_
      intro stk' rest' h'
      have ih := fun r => classAtAux_markToks s m ok ko (path ++ [0]) e stk' r
        (by rw [parentClass_child]; exact h')
      simp only [List.append_assoc, classAtAux_chrs, h', ih]
  | path, .op k xs l, stk, rest, h => by
      simp only [markToks, charClasses, nodeToks]
      refine classAtAux_wrap m ok ko path stk h _ rest _ ?_
      intro stk' rest' h'
      have ih := fun r => classAtAux_markToksList s m ok ko k.word path 0 xs stk' r h'
      simp only [List.append_assoc, classAtAux_chrs, h', ih]
  | path, .unary k e l, stk, rest, h => by
      simp only [markToks, charClasses, nodeToks]
      refine classAtAux_wrap m ok ko path stk h _ rest _ ?_
      intro stk' rest' h'
      have ih := fun r => classAtAux_markToks s m ok ko (path ++ [0]) e stk' r
        (by rw [parentClass_child]; exact h')
      simp only [List.append_assoc, classAtAux_chrs, h', ih]
  | path, .orange k e i l, stk, rest, h => by
      simp only [markToks, charClasses, nodeToks]
      refine classAtAux_wrap m ok ko path stk h _ rest _ ?_
      intro stk' rest' h'
      have ih := fun r => classAtAux_markToks s m ok ko (path ++ [0]) e stk' r
        (by rw [parentClass_child]; exact h')
      simp only [List.append_assoc, classAtAux_chrs, h', ih]
theorem classAtAux_markToksList (s : NumStyle) (m : MarkCfg) (ok ko : List (List Nat)) (sep : Str) :
    ∀ (path : List Nat) (i : Nat) (xs : List Tree) (stk : List Str) (rest : List MTok),
      stk.head? = effClass m ok ko path →
      classAtAux stk (joinL (chrs sep) (markToksList s m ok ko path i xs) ++ rest) =
        joinL (lab (effClass m ok ko path) sep) (charClassesList s (effClass m ok ko) path i xs)
          ++ classAtAux stk rest
  | path, i, [], stk, rest, _ => by simp [markToksList, charClassesList, joinL]
  | path, i, x :: r, stk, rest, h => by
      have ihx := fun r' => classAtAux_markToks s m ok ko (path ++ [i]) x stk r'
        (by rw [parentClass_child]; exact h)
      have ihr := classAtAux_markToksList s m ok ko sep path (i + 1) r stk rest h
      cases r with
      | nil => simp only [markToksList, charClassesList, joinL, ihx]
      | cons y r' =>
        simp only [markToksList, charClassesList, joinL] at ihr ⊢
        simp only [List.append_assoc, ihx, classAtAux_chrs, h, ihr]
end

/-- **class per character**: in the marked output of a whole tree every character is rendered
inside the elements whose innermost one has the class of the nearest marked ancestor-or-self of
the node that contributes the character — in both modes -/
theorem classAt_markToks (s : NumStyle) (m : MarkCfg) (ok ko : List (List Nat)) (t : Tree) :
    classAt (markToks s m ok ko [] t) = charClasses s (effClass m ok ko) [] t := by
  have := classAtAux_markToks s m ok ko [] t [] [] (by simp [parentClass_nil])
  simpa [classAt, classAtAux] using this

mutual
/-- the characters labelled by the specification are the characters of the query, in order -/
theorem map_fst_charClasses (s : NumStyle) (cls : List Nat → Option Str) :
    ∀ (path : List Nat) (t : Tree), (charClasses s cls path t).map Prod.fst = t.full s
  | path, .none _ => by simp [charClasses, Tree.full]
  | path, .term _ v l => by simp [charClasses, Tree.full, map_fst_lab]
  | path, .field n e l => by
      simp [charClasses, Tree.full, map_fst_lab, map_fst_charClasses s cls (path ++ [0]) e]
  | path, .group _ e l => by
      simp [charClasses, Tree.full, map_fst_lab, map_fst_charClasses s cls (path ++ [0]) e]
  | path, .range a b il ih l => by
      simp [charClasses, Tree.full, map_fst_lab, map_fst_charClasses s cls (path ++ [0]) a,
        map_fst_charClasses s cls (path ++ [1]) b]
  | path, .approx _ e n l => by
      simp [charClasses, Tree.full, map_fst_lab, map_fst_charClasses s cls (path ++ [0]) e]
  | path, .boost e n l => by
      simp [charClasses, Tree.full, map_fst_lab, map_fst_charClasses s cls (path ++ [0]) e]
  | path, .op k xs l => by
      simp [charClasses, Tree.full, map_fst_lab,
        joinL_hom (List.map Prod.fst) (fun _ _ => List.map_append) rfl,
        map_fst_charClassesList s cls path 0 xs, joinWith_eq_joinL]
  | path, .unary k e l => by
      simp [charClasses, Tree.full, map_fst_lab, map_fst_charClasses s cls (path ++ [0]) e]
  | path, .orange k e i l => by
      simp [charClasses, Tree.full, map_fst_lab, map_fst_charClasses s cls (path ++ [0]) e]
theorem map_fst_charClassesList (s : NumStyle) (cls : List Nat → Option Str) :
    ∀ (path : List Nat) (i : Nat) (xs : List Tree),
      (charClassesList s cls path i xs).map (List.map Prod.fst) = Tree.fulls s xs
  | path, i, [] => by simp [charClassesList, Tree.fulls]
  | path, i, x :: r => by
      simp [charClassesList, Tree.fulls, map_fst_charClasses s cls (path ++ [i]) x,
        map_fst_charClassesList s cls path (i + 1) r]
end

/-- `effClass` does not look at the mode -/
theorem effClass_parcimonious (m : MarkCfg) (b : Bool) (ok ko : List (List Nat)) :
    effClass { m with parcimonious := b } ok ko = effClass m ok ko := by
  funext path
  simp only [effClass, cssClass_parcimonious, parentClass_parcimonious]

/-- fuel-free reading of `effClass`: the class of the longest prefix of `path` (itself included)
that is in `ok` or `ko` -/
theorem effClass_eq_findSome (m : MarkCfg) (ok ko : List (List Nat)) (path : List Nat) :
    effClass m ok ko path =
      (List.range (path.length + 1)).reverse.findSome? (fun n => cssClass m ok ko (path.take n)) := by
  rw [effClass, parentClass_eq_findSome m ok ko _ path (Nat.le_succ _)]
  cases hc : cssClass m ok ko path <;> simp [List.range_succ, hc]

/-- **parsimony changes only how many elements are emitted**, never the class a character is
rendered with -/
theorem parcimonious_same_classes (s : NumStyle) (m : MarkCfg) (ok ko : List (List Nat)) (t : Tree) :
    classAt (markToks s { m with parcimonious := true } ok ko [] t) =
      classAt (markToks s { m with parcimonious := false } ok ko [] t) := by
  rw [classAt_markToks, classAt_markToks, effClass_parcimonious m true, effClass_parcimonious m false]

/-- … and the text without tags is the same too -/
theorem parcimonious_same_text (s : NumStyle) (m : MarkCfg) (ok ko : List (List Nat)) (t : Tree) :
    erase (markToks s { m with parcimonious := true } ok ko [] t) =
      erase (markToks s { m with parcimonious := false } ok ko [] t) := by
  rw [erase_markToks, erase_markToks]

/-! ### (iv) the marked tree has the shape of the original; only heads / tails differ -/

/-- at every path `q`: the marked tree has a node there exactly when the original has, and that node
is the original node `u` with the same class and own attributes, its layout `markLay q u.lay.noName`
(by `Luqum.Lemmas.Mark.markLay_cases`: unchanged, or open tag before head AND close tag after tail),
and marked children -/
theorem markTree_shape (m : MarkCfg) (ok ko : List (List Nat)) (t : Tree) (q : List Nat) :
    (markTree m ok ko [] t).at? q = (t.at? q).map (markTree m ok ko q) ∧
    ∀ u : Tree,
      (markTree m ok ko q u).className = u.className ∧
      (markTree m ok ko q u).lay = markLay m ok ko q u.lay.noName ∧
      (markTree m ok ko q u).children = markList m ok ko q 0 u.children ∧
      (u.setChildren (markTree m ok ko q u).children).map
        (fun v => v.setLay (markTree m ok ko q u).lay) = some (markTree m ok ko q u) := by
  refine ⟨by simpa using markTree_at m ok ko q [] t, fun u => ⟨markTree_className .., markTree_lay ..,
    markTree_children .., ?_⟩⟩
  rw [markTree_children, markTree_lay]; exact markTree_eq m ok ko q u

/-! ### non-vacuity: `a AND b`, root and first operand ok, second operand ko -/

/-- the tree of `a AND b` as the parser builds it -/
def aAndB : Tree :=
  .op .and [.term .word "a".toList { tail := " ".toList },
            .term .word "b".toList { head := " ".toList }] {}

example : aAndB.strHT = "a AND b".toList := by decide

example : htmlMark {} [[0]] [[1]] aAndB =
    "<span class=\"ok\">a </span>AND<span class=\"ko\"> b</span>".toList := by decide

/-- parsimonious: the first operand has the class of the root, no element for it -/
example : markToks .norm {} [[], [0]] [[1]] [] aAndB =
    [.opn "ok".toList, .chr 'a', .chr ' ', .chr 'A', .chr 'N', .chr 'D',
     .opn "ko".toList, .chr ' ', .chr 'b', .clo, .clo] := by decide

example : htmlMark {} [[], [0]] [[1]] aAndB =
    "<span class=\"ok\">a AND<span class=\"ko\"> b</span></span>".toList := by decide

/-- not parsimonious: one more element, same classes -/
example : htmlMark { parcimonious := false } [[], [0]] [[1]] aAndB =
    "<span class=\"ok\"><span class=\"ok\">a </span>AND<span class=\"ko\"> b</span></span>".toList := by
  decide

example : classAt (markToks .norm {} [[], [0]] [[1]] [] aAndB) =
    [('a', some "ok".toList), (' ', some "ok".toList), ('A', some "ok".toList),
     ('N', some "ok".toList), ('D', some "ok".toList), (' ', some "ko".toList),
     ('b', some "ko".toList)] := by decide

example : classAt (markToks .norm { parcimonious := false } [[], [0]] [[1]] [] aAndB) =
    classAt (markToks .norm {} [[], [0]] [[1]] [] aAndB) := by decide

/-- unmarked characters have no class; a path that is not in the tree marks nothing -/
example : classAt (markToks .norm {} [[1]] [[5]] [] aAndB) =
    [('a', none), (' ', none), ('A', none), ('N', none), ('D', none),
     (' ', some "ok".toList), ('b', some "ok".toList)] := by decide

/-- `balanced` does reject badly nested tokens -/
example : balanced [.clo, .opn "ok".toList] = false := by decide
example : balanced [.opn "ok".toList, .chr 'a'] = false := by decide

/-- a marked `NoneItem` prints nothing (its head and tail are ignored), so its mark vanishes -/
example : htmlMark {} [[]] [] noneItem = [] := by decide

end Luqum.Props.C17
