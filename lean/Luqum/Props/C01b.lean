/-
  C01b — known finding KF1, exactly: what `parse` keeps of the input WITHOUT the hypothesis "no
  separator directly before a `:`" of C01 / C02.

  (1) text.  The only text the tree loses is the separator between a token and a `:` token that
      directly follows it (in an accepted query: between a field name and its colon):
      `parse_lossless_exact : parse s = .ok t → t.full .raw = unblank s`, unconditionally, where
      `unblank s` is the concatenation of the tokens of `s` with the tail of every token directly
      followed by a `:` token emptied (`dropColonBlanks`).  Corollaries: the tree prints back the
      input iff nothing stands before a colon (`parse_lossless_iff`; `C01.parse_lossless_partial` is
      the special case), how much is lost (`unblank_length`), that only blanks are lost and
      everything else stays in place (`unblank_sublist`, `unblank_nonblank`), and that the printed
      tree parses again into an equal tree and prints the same again, unless dropping the blank
      creates a time expression, finding KF8 (`reparse_unblank_partial`, `print_stable_partial`;
      counterexample `T12 :30`).
  (2) positions.  `pos` / `size` keep designating slices of the INPUT (not of the printed tree):
      `parse_laid_exact : parse s = .ok t → LaidSrc 0 t`, unconditionally, where `LaidSrc` is
      `C02`'s `Laid` with every length of a printed text replaced by the extent the node claims in
      the source, and a gap of any length between the name of a `SearchField` and its `:`.
      Corollaries, all unconditional: the root spans the whole input, every node lies inside the
      input, the widened spans of the children of a node lie inside the node's span, in order and
      without overlapping.
  (2') slices.  `regap s t` is `t` with, after every field name, the characters the input has
      between that name and its `:` (found through `pos` and `size` of the node itself).
      `parse_source_exact : parse s = .ok t → (regap s t).full .raw = s ∧ Laid .raw 0 (regap s t)`:
      with the lost separators read back the tree prints the input and is laid out as in C02; hence
      for every node the slice of the input that `pos` / `size` designate is the node printed with
      these separators put back (`node_slices_exact`), the printed node is a subsequence of it, a
      `Word` / `Phrase` / `Regex` is its slice (`leaf_slice_exact`), and what is put back is blank
      (`field_gap_exact`).
  (3) kernel-checked witnesses.

  Property theorems only; the lemmas are in Luqum/Lemmas:
    Kf1Flat      the run invariant for the text (`runLoop_losslessK`), table independent
    Kf1Tok       `dropColonBlanks` on the token level
    Kf1Reparse   the pieces of the unblanked text (`piecesOK_dropSeps1`)
    Kf1PosDefs, Kf1PosAct, Kf1PosBin, Kf1PosMain   every action keeps the source layout (`act_posS`)
    Kf1PosRun    the run invariant for positions (`runLoop_laidS`)
    Kf1PosPath   consequences path by path, Bool checker
    Kf1Regap, Kf1RegapPos, Kf1RegapRun, Kf1RegapPath, Kf1RegapBlank
                 putting the lost separators back (`runLoop_srcR`, `pos_regap`)
-/
import Luqum.Model.ParserInst
import Luqum.Props.C01
import Luqum.Props.C02
import Luqum.Props.C03
import Luqum.Props.C03b
import Luqum.Lemmas.Kf1Flat
import Luqum.Lemmas.Kf1Tok
import Luqum.Lemmas.Kf1Reparse
import Luqum.Lemmas.Kf1PosRun
import Luqum.Lemmas.Kf1PosPath
import Luqum.Lemmas.Kf1RegapRun
import Luqum.Lemmas.Kf1RegapBlank

namespace Luqum.Props.C01b
open Luqum
open Luqum.Props.C01 (noBlankBeforeColon tables_ok)

/-! ### definitions (from Luqum/Lemmas/Kf1Flat.lean, Kf1Tok.lean) -/

export Luqum (nextIsColon dropColonBlanks droppedLen)

/-- `dropColonBlanks`: the tail of every token directly followed by a `:` token is emptied.
(Heads are kept: `HeadTailLexer` gives a head to the first token only, so a `:` token has a head
only when it is the first token, and then nothing parses: `colon_first_fails`.) -/
example (t : Tok) (r : List Tok) :
    dropColonBlanks [] = [] ∧
    dropColonBlanks (t :: r) =
      (if nextIsColon r then { t with tail := [] } else t) :: dropColonBlanks r := ⟨rfl, rfl⟩
example (t : Tok) (r : List Tok) :
    nextIsColon [] = false ∧ nextIsColon (t :: r) = (t.kind == .column) := ⟨rfl, rfl⟩

/-- `droppedLen`: the number of characters `dropColonBlanks` removes -/
example (t : Tok) (r : List Tok) :
    droppedLen [] = 0 ∧
    droppedLen (t :: r) = (if nextIsColon r then t.tail.length else 0) + droppedLen r := ⟨rfl, rfl⟩

/-- the input without the separators that stand directly before a `:` token -/
def unblank (s : Str) : Str := tflats (dropColonBlanks (lex s).1)

/-! ### (1) text -/

/-- a successful parse: no illegal character, at least one token, and the run that accepted -/
theorem parse_run (s : Str) (t : Tree) (h : parse s = .ok t) :
    ∃ toks, lex s = (toks, none) ∧ toks ≠ [] ∧
      runLoop tables (parseFuel toks.length) { states := [0], vals := [] } toks none = .ok (.item t) := by
  unfold parse parseWith at h
  rcases hlex : lex s with ⟨toks, lerr⟩
  rw [hlex] at h
  simp only at h
  split at h
  · rename_i t' hrun
    cases h
    have hnolex : lerr = none := runLoop_no_lexErr tables_ok.acceptEnd _ _ toks lerr _ hrun
    subst hnolex
    refine ⟨toks, rfl, ?_, hrun⟩
    rintro rfl
    exact runLoop_nil tables _ [0] none _ hrun
  · cases h
  · cases h

/-- **C01, exact form (no hypothesis)**: if `parse s` succeeds, printing the tree with heads and
tails (numerals as spelled in the source) gives the input without the separators directly before
the `:` tokens.  The only text the tree loses is the blank between a field name and its colon. -/
theorem parse_lossless_exact (s : Str) (t : Tree) (h : parse s = .ok t) :
    t.full .raw = unblank s := by
  obtain ⟨toks, hlex, _, hrun⟩ := parse_run s t h
  obtain ⟨hwf, _⟩ := lex_spec hlex
  obtain ⟨_, _, hv⟩ := runLoop_losslessK tables_ok _ toks none _ (seqOK0_toVal hwf) hrun
  rcases hv with hv | hv
  · cases hv
  · rw [flatsK_toVal hwf.ok] at hv
    simpa [unblank, hlex, Val.flat] using hv

/-- for an input without illegal character and with at least one token: nothing is dropped iff no
token directly followed by a `:` token has a tail -/
theorem unblank_eq_iff (s : Str) (hl : (lex s).2 = none) (hne : (lex s).1 ≠ []) :
    unblank s = s ↔ noBlankBeforeColon (lex s).1 = true := by
  have hlex : lex s = ((lex s).1, none) := by rw [← hl]
  have hs := (lex_spec hlex).2 hne
  unfold unblank
  conv => lhs; rhs; rw [← hs]
  exact tflats_dropColonBlanks_eq_iff _

/-- (the hypotheses of `unblank_eq_iff` are needed: a blank input has no token at all) -/
example : unblank " ".toList = [] ∧ noBlankBeforeColon (lex " ".toList).1 = true := ⟨by rfl, by rfl⟩

/-- **the tree prints back the input exactly when no separator stands directly before a `:`** -/
theorem parse_lossless_iff (s : Str) (t : Tree) (h : parse s = .ok t) :
    t.full .raw = s ↔ noBlankBeforeColon (lex s).1 = true := by
  obtain ⟨toks, hlex, hne, _⟩ := parse_run s t h
  rw [parse_lossless_exact s t h]
  exact unblank_eq_iff s (by rw [hlex]) (by rw [hlex]; exact hne)

/-- `C01.parse_lossless_partial` is the special case -/
theorem parse_lossless_of_noBlank (s : Str) (t : Tree) (h : parse s = .ok t)
    (hk : noBlankBeforeColon (lex s).1 = true) : t.full .raw = s :=
  (parse_lossless_iff s t h).2 hk

/-- **how much is lost**: exactly the tails of the tokens directly followed by a `:` token -/
theorem unblank_length (s : Str) (hl : (lex s).2 = none) (hne : (lex s).1 ≠ []) :
    (unblank s).length + droppedLen (lex s).1 = s.length := by
  have hlex : lex s = ((lex s).1, none) := by rw [← hl]
  have hs := (lex_spec hlex).2 hne
  have := dropColonBlanks_length (lex s).1
  rw [hs] at this
  exact this

theorem unblank_length_le (s : Str) (hl : (lex s).2 = none) (hne : (lex s).1 ≠ []) :
    (unblank s).length ≤ s.length := by
  have := unblank_length s hl hne; omega

theorem print_length (s : Str) (t : Tree) (h : parse s = .ok t) :
    (t.full .raw).length + droppedLen (lex s).1 = s.length := by
  obtain ⟨toks, hlex, hne, _⟩ := parse_run s t h
  rw [parse_lossless_exact s t h]
  exact unblank_length s (by rw [hlex]) (by rw [hlex]; exact hne)

theorem print_length_le (s : Str) (t : Tree) (h : parse s = .ok t) :
    (t.full .raw).length ≤ s.length := by
  have := print_length s t h; omega

/-- **what is left stays in place**: the unblanked text is a subsequence of the input -/
theorem unblank_sublist (s : Str) (hl : (lex s).2 = none) (hne : (lex s).1 ≠ []) :
    (unblank s).Sublist s := by
  have hlex : lex s = ((lex s).1, none) := by rw [← hl]
  have hs := (lex_spec hlex).2 hne
  have := dropColonBlanks_sublist (lex s).1
  rw [hs] at this
  exact this

/-- **only blanks are lost**: the characters of the input that are not `\s` are those of the
unblanked text, in the same order -/
theorem unblank_nonblank (s : Str) (hl : (lex s).2 = none) (hne : (lex s).1 ≠ []) :
    (unblank s).filter (fun c => !isSpace c) = s.filter (fun c => !isSpace c) := by
  have hlex : lex s = ((lex s).1, none) := by rw [← hl]
  have hs := (lex_spec hlex).2 hne
  have := dropColonBlanks_filter (lex s).1 (lex_tails_blank hlex)
  rw [hs] at this
  exact this

/-- the three facts about the printed tree of an accepted query: it is a subsequence of the input,
it has the same non-blank characters, and it is shorter by exactly `droppedLen` -/
theorem print_erases_blanks (s : Str) (t : Tree) (h : parse s = .ok t) :
    (t.full .raw).Sublist s ∧
    (t.full .raw).filter (fun c => !isSpace c) = s.filter (fun c => !isSpace c) ∧
    (t.full .raw).length + droppedLen (lex s).1 = s.length := by
  obtain ⟨toks, hlex, hne, _⟩ := parse_run s t h
  have hl : (lex s).2 = none := by rw [hlex]
  have hne' : (lex s).1 ≠ [] := by rw [hlex]; exact hne
  rw [parse_lossless_exact s t h]
  exact ⟨unblank_sublist s hl hne', unblank_nonblank s hl hne', unblank_length s hl hne'⟩

/-- the tokens keep their kinds and texts -/
theorem dropColonBlanks_keys (toks : List Tok) :
    (dropColonBlanks toks).map tokKey = toks.map tokKey := Luqum.dropColonBlanks_keys toks

/-! ### (1') parsing the printed tree again -/

export Luqum (dropSeps dropSeps1 clashAt colonClash)

/-- the decidable hypothesis of the re-parse corollary: no term that ends like a time expression
(`T\d\d` or `T\d\d:\d\d`) is followed by a separator, a `:` token, and then two digits (dropping the
separator would make the three one word: finding KF8) -/
def colonTimeClash (s : Str) : Bool := colonClash (piecesOf (lex s).1) (trailOf (lex s).1)

example (q c : Piece) (rest : List Piece) (trail : Str) :
    colonClash [] trail = false ∧
    colonClash (q :: c :: rest) trail =
      ((c.kind == .column && !c.sep.isEmpty && isTermKind q.kind &&
          timeClash q.text (':' :: spell rest trail)) || colonClash (c :: rest) trail) ∧
    timeClash q.text (':' :: spell rest trail) =
      ((tddR q.text.reverse || tmmR q.text.reverse) && secOK (':' :: spell rest trail)) :=
  ⟨rfl, rfl, rfl⟩

/-- the lexer on the unblanked text of an accepted query (without clash): no illegal character, the
same token keys, and nothing more to drop -/
theorem lex_unblank (s : Str) (t : Tree) (h : parse s = .ok t) (hc : colonTimeClash s = false) :
    (lex (unblank s)).2 = none ∧ (lex (unblank s)).1.map tokKey = (lex s).1.map tokKey ∧
    unblank (unblank s) = unblank s := by
  obtain ⟨toks, hlex, hne, _⟩ := parse_run s t h
  obtain ⟨ps, trail, hs, hok⟩ := lex_decomp s (by rw [hlex])
  have hl := lex_spell ps trail hok
  rw [← hs] at hl
  have hps : ps ≠ [] := by
    rintro rfl
    rw [hlex] at hl
    simp only [toksOf, Prod.mk.injEq, and_true] at hl
    exact hne hl
  obtain ⟨p, ps', rfl⟩ := List.exists_cons_of_ne_nil hps
  have hc' : colonClash (p :: ps') trail = false := by
    simpa [colonTimeClash, hl, piecesOf_toksOf, trailOf_toksOf trail (p :: ps') 0 true (by simp)]
      using hc
  have hu : unblank s = spell (dropSeps1 (p :: ps')) trail := by
    unfold unblank; rw [hl]; exact tflats_drop_toksOf_first trail p ps'
  have hok' := piecesOK_dropSeps1 hok hc'
  have hl' := lex_spell _ trail hok'
  rw [← hu] at hl'
  refine ⟨by rw [hl'], ?_, ?_⟩
  · rw [hl', hl]; simp only [toksOf_keys, dropSeps1_keys]
  · have hidem : ∀ qs : List Piece, dropSeps (dropSeps qs) = dropSeps qs := by
      intro qs
      induction qs with
      | nil => rfl
      | cons q qs ih =>
        simp only [dropSeps, ih]
        by_cases hq : q.kind = .column <;> simp [hq]
    show tflats (dropColonBlanks (lex (unblank s)).1) = unblank s
    rw [hl']
    simp only [dropSeps1]
    rw [tflats_drop_toksOf_first, hu]
    simp only [dropSeps1, hidem]

/-- **re-parse (partial: up to KF8)**: the printed tree of an accepted query parses again, into an
equal tree.

What is missing for the full property: the hypothesis `colonTimeClash s = false`.  Without it the
claim is false: dropping the blank of `T12 :30` makes the three tokens one word (witness below). -/
theorem reparse_unblank_partial (s : Str) (t : Tree) (h : parse s = .ok t)
    (hc : colonTimeClash s = false) :
    ∃ t', parse (t.full .raw) = .ok t' ∧ t.eqv t' = true := by
  obtain ⟨h1, h2, _⟩ := lex_unblank s t h hc
  rw [parse_lossless_exact s t h]
  exact C03b.layout_independent s (unblank s) t h2.symm h1 h

/-- **printing is stable (partial: up to KF8)**: the tree obtained by parsing the printed tree
prints the same text again (printing and parsing again loses nothing more) -/
theorem print_stable_partial (s : Str) (t t' : Tree) (h : parse s = .ok t)
    (hc : colonTimeClash s = false) (h' : parse (t.full .raw) = .ok t') :
    t'.full .raw = t.full .raw := by
  rw [parse_lossless_exact s t h] at h' ⊢
  rw [parse_lossless_exact _ t' h', (lex_unblank s t h hc).2.2]

/-! ### which `:` tokens can be consumed -/

export Luqum (badColon)

/-- `badColon false toks`: some `:` token is the first token, or directly follows a token that is
neither a term nor `TO` -/
example (p : Bool) (t : Tok) (r : List Tok) :
    badColon p [] = false ∧
    badColon p (t :: r) =
      ((t.kind == .column && !p) || badColon (t.kind == .term || t.kind == .to) r) := ⟨rfl, rfl⟩

/-- **a query with such a `:` never parses** (for any tables satisfying `TablesOK`: the only action
that consumes a `:` token is `p_field_search`, which wants a `Word` before it).  So in an accepted
query every token that loses its tail is a term -- with the generated tables: the name of a
`SearchField`; `TO :x` is rejected by the tables themselves, see the witnesses. -/
theorem bad_colon_fails (s : Str) (t : Tree) (hb : badColon false (lex s).1 = true) :
    parse s ≠ .ok t := by
  intro h
  obtain ⟨toks, hlex, _, hrun⟩ := parse_run s t h
  rw [hlex] at hb
  obtain ⟨hwf, _⟩ := lex_spec hlex
  have := runLoop_bad tables_ok _ toks none _ (seqOK0_toVal hwf) (bad_of_badColon hb) hrun
  cases this

/-- a query whose first token is a `:` never parses (so the head of a `:` token, which only the
first token can have, is never lost: `dropColonBlanks` keeps all heads) -/
theorem colon_first_fails (s : Str) (t : Tree) (c : Tok) (r : List Tok)
    (hl : (lex s).1 = c :: r) (hc : c.kind = .column) : parse s ≠ .ok t :=
  bad_colon_fails s t (by simp [hl, badColon, hc])

/-! ### (2) positions -/

export Luqum (LaidSrc PosS PosListS LayS spanS)

/-! `LaidSrc off t` (Luqum/Lemmas/Kf1PosDefs.lean) is `PosS t (off + t.head.length)`; `PosS t p`
says: the body of `t` starts at offset `p` of the source, `size` is the extent of the parts of `t`
in the source, and so on for the descendants.  `t.ext` is the extent an item claims in the source:
head, `size` characters, tail.  `LayS l p z` is `l.pos = some p ∧ l.size = some z`.  The equations
below are the definition, constructor by constructor; compare with `C02.laid_*`: every
`(x.full s).length` became `x.ext`, and a `SearchField` has a gap `g`. -/

theorem ext_def (t : Tree) :
    t.ext = (t.lay.size.getD 0) + t.lay.head.length + t.lay.tail.length := rfl

theorem laidSrc_def (off : Int) (t : Tree) : LaidSrc off t ↔ PosS t (off + t.head.length) := Iff.rfl

theorem posS_term (p : Int) (k : TermK) (v : Str) (l : Lay) :
    PosS (.term k v l) p ↔ l.pos = some p ∧ l.size = some (v.length : Int) := by
  simp only [PosS, LayS]

/-- a `SearchField`: name, a gap of `g` characters (the separator KF1 loses), `:`, operand -/
theorem posS_field (p : Int) (n : Str) (e : Tree) (l : Lay) :
    PosS (.field n e l) p ↔
      ∃ g : Nat, (l.pos = some p ∧ l.size = some ((n.length : Int) + g + 1 + e.ext)) ∧
        PosS e (p + n.length + g + 1 + e.head.length) := by
  simp only [PosS, LayS]

theorem posS_group (p : Int) (k : GrpK) (e : Tree) (l : Lay) :
    PosS (.group k e l) p ↔
      (l.pos = some p ∧ l.size = some (1 + e.ext + 1)) ∧ PosS e (p + 1 + e.head.length) := by
  simp only [PosS, LayS]

theorem posS_range (p : Int) (a b : Tree) (il ih : Bool) (l : Lay) :
    PosS (.range a b il ih l) p ↔
      (l.pos = some p ∧ l.size = some (1 + a.ext + 2 + b.ext + 1)) ∧
      PosS a (p + 1 + a.head.length) ∧ PosS b (p + 1 + a.ext + 2 + b.head.length) := by
  simp only [PosS, LayS]

theorem posS_approx (p : Int) (k : ApxK) (t : Tree) (n : Num) (l : Lay) :
    PosS (.approx k t n l) p ↔
      (l.pos = some p ∧ l.size = some (t.ext + 1 + n.source.length)) ∧
      PosS t (p + t.head.length) := by
  simp only [PosS, LayS]

theorem posS_boost (p : Int) (e : Tree) (n : Num) (l : Lay) :
    PosS (.boost e n l) p ↔
      (l.pos = some p ∧ l.size = some (e.ext + 1 + n.source.length)) ∧
      PosS e (p + e.head.length) := by
  simp only [PosS, LayS]

/-- the operands of an operation follow each other, separated by the operator word -/
theorem posS_op (p : Int) (k : OpK) (xs : List Tree) (l : Lay) :
    PosS (.op k xs l) p ↔
      xs ≠ [] ∧ (l.pos = some p ∧ l.size = some (spanS k.word.length xs - k.word.length)) ∧
      PosListS k.word.length xs p := by
  simp only [PosS, LayS]

theorem spanS_def (sep : Nat) (x : Tree) (r : List Tree) :
    spanS sep [] = 0 ∧ spanS sep (x :: r) = x.ext + sep + spanS sep r := ⟨rfl, rfl⟩

theorem posListS_cons (sep : Nat) (p : Int) (x : Tree) (r : List Tree) :
    PosListS sep (x :: r) p ↔ PosS x (p + x.head.length) ∧ PosListS sep r (p + x.ext + sep) := by
  simp only [PosListS]

theorem posS_unary (p : Int) (k : UnK) (a : Tree) (l : Lay) :
    PosS (.unary k a l) p ↔
      (l.pos = some p ∧ l.size = some ((k.word.length : Int) + a.ext)) ∧
      PosS a (p + k.word.length + a.head.length) := by
  simp only [PosS, LayS]

theorem posS_orange (p : Int) (k : ORK) (a : Tree) (inc : Bool) (l : Lay) :
    PosS (.orange k a inc l) p ↔
      (l.pos = some p ∧ l.size = some (((orangePre k inc).length : Int) + a.ext)) ∧
      PosS a (p + (orangePre k inc).length + a.head.length) := by
  simp only [PosS, LayS]

theorem posS_none (p : Int) (l : Lay) : ¬ PosS (.none l) p := by
  simp only [PosS, not_false_eq_true]

/-- **generic form**: for ARBITRARY tables `T` satisfying the three `TablesOK` facts and ARBITRARY
certificate `C` accepted by the checker of C03, a successful run of the LALR driver over
well-formed tokens laid out from offset 0 (no adjacency hypothesis) returns an item laid out in the
source at offset 0, whose extent is the total length of the tokens -/
theorem run_laidSrc (T : Tables) (C : Cert) (hT : TablesOK T) (hC : certOK T C = true) (fuel : Nat)
    (toks : List Tok) (lerr : Option LexErr) (t : Tree) (hwf : ToksWF toks) (hp : TokPos toks 0)
    (h : runLoop T fuel { states := [0], vals := [] } toks lerr = .ok (.item t)) :
    LaidSrc 0 t ∧ t.ext = ((tflats toks).length : Int) := by
  have := runLoop_laidS hT hC fuel toks lerr _ (seqOK0_toVal hwf)
    (by simpa using seqPosS_toVal hwf.ok hp) h
  rw [extsV_toVal] at this
  exact ⟨by simpa [LaidSrc, Val.PosAtS, Val.lay, Tree.head] using this.1, this.2⟩

/-- **C02, exact form (no hypothesis)**: if `parse s` succeeds, the tree is laid out in the source
at offset 0: for every node, `pos` is the offset of the node's body in the INPUT and `size` is the
extent of its parts in the input (the separator lost between a field name and its `:` included), and
the root claims the whole input -/
theorem parse_laid_exact (s : Str) (t : Tree) (h : parse s = .ok t) :
    LaidSrc 0 t ∧ t.ext = (s.length : Int) := by
  obtain ⟨toks, hlex, hne, hrun⟩ := parse_run s t h
  obtain ⟨hwf, hs⟩ := lex_spec hlex
  have := run_laidSrc tables C03.cert tables_ok C03.cert_ok _ toks none t hwf (lex_tokPos hlex) hrun
  rw [hs hne] at this
  exact this

/-- the extent the root claims exceeds the length of the printed tree by exactly the number of
characters lost: the gaps of the `SearchField`s add up to `droppedLen` -/
theorem extent_vs_print (s : Str) (t : Tree) (h : parse s = .ok t) :
    t.ext = ((t.full .raw).length : Int) + (droppedLen (lex s).1 : Int) := by
  have h1 := (parse_laid_exact s t h).2
  have h2 := print_length s t h
  omega

/-- **C02, root (no hypothesis)**: the widened span of the root is the whole input -/
theorem root_span_exact (s : Str) (t : Tree) (h : parse s = .ok t) :
    t.span true = some (0, (s.length : Int)) := by
  obtain ⟨hl, he⟩ := parse_laid_exact s t h
  have := PosS.span_true hl
  rw [this, he]; congr 2 <;> omega

/-- **C02, nodes (no hypothesis)**: for the node `n` at any path of the parse tree, `pos` and
`size` are natural numbers, the span widened by head and tail lies inside the input, and `n` is laid
out in the source where its widened span starts -/
theorem node_span_exact (s : Str) (t : Tree) (h : parse s = .ok t) (p : List Nat) (n : Tree)
    (hn : t.at? p = some n) :
    ∃ pos size : Nat, n.lay.pos = some (pos : Int) ∧ n.lay.size = some (size : Int) ∧
      n.head.length ≤ pos ∧ pos + size + n.tail.length ≤ s.length ∧
      LaidSrc ((pos - n.head.length : Nat) : Int) n := by
  obtain ⟨hl, he⟩ := parse_laid_exact s t h
  obtain ⟨q, hq, h1, h2⟩ := PosS.at p hl hn
  obtain ⟨z, hz, hez⟩ := hq.ext_nonneg
  obtain ⟨pos, rfl⟩ : ∃ pos : Nat, q = pos := ⟨q.toNat, by omega⟩
  refine ⟨pos, z, hq.pos_eq, hz, by omega, by omega, ?_⟩
  have e : ((pos - n.head.length : Nat) : Int) + (n.head.length : Int) = (pos : Int) := by omega
  simp only [LaidSrc]
  rw [e]; exact hq

/-- **C02, children (no hypothesis)**: for the node `n` at any path of the parse tree, with span
`(a, b)` (not widened): every child has a widened span `(a', b')` with `a ≤ a' ≤ b' ≤ b`, and a
child with a smaller index ends before a child with a larger index starts -/
theorem children_spans_exact (s : Str) (t : Tree) (h : parse s = .ok t) (p : List Nat) (n : Tree)
    (hn : t.at? p = some n) :
    ∃ a b, n.span false = some (a, b) ∧
      (∀ (i : Nat) (c : Tree), n.children[i]? = some c →
        ∃ a' b', c.span true = some (a', b') ∧ a ≤ a' ∧ a' ≤ b' ∧ b' ≤ b) ∧
      (∀ (i j : Nat) (ci cj : Tree), i < j → n.children[i]? = some ci → n.children[j]? = some cj →
        ∃ a₁ b₁ a₂ b₂, ci.span true = some (a₁, b₁) ∧ cj.span true = some (a₂, b₂) ∧ b₁ ≤ a₂) := by
  obtain ⟨hl, _⟩ := parse_laid_exact s t h
  obtain ⟨q, hq, _, _⟩ := PosS.at p hl hn
  obtain ⟨z, hz, hch⟩ := hq.chain
  exact ⟨_, _, hq.span_false hz, SpanChain.spec hch⟩

/-! ### (2') the slices of the input -/

export Luqum (regap regaps gapOf gapText)

/-! `regap s t` (Luqum/Lemmas/Kf1Regap.lean): the tree `t` in which the name of every `SearchField`
is followed by the gap the input `s` has there.  Only the names change: the classes, the operands
and all layout records (`head`, `tail`, `pos`, `size`) are those of `t`. -/

example (s n : Str) (e : Tree) (l : Lay) :
    regap s (.field n e l) = .field (n ++ gapOf s n e l) (regap s e) l ∧
    -- the gap starts after the name and fills what `size` claims beyond name, `:` and operand
    gapOf s n e l = gapText s (l.pos.getD 0 + n.length) (l.size.getD 0 - (n.length + 1 + e.ext)) :=
  ⟨by simp only [regap], rfl⟩
example (s : Str) (k : TermK) (v : Str) (l : Lay) : regap s (.term k v l) = .term k v l := by
  simp only [regap]
example (s : Str) (k : OpK) (xs : List Tree) (l : Lay) :
    regap s (.op k xs l) = .op k (xs.map (regap s)) l := by simp only [regap, regaps_eq_map]
example (s : Str) (k : GrpK) (e : Tree) (l : Lay) :
    regap s (.group k e l) = .group k (regap s e) l := by simp only [regap]
theorem regap_keeps_lay (s : Str) (t : Tree) : (regap s t).lay = t.lay := Luqum.regap_lay s t
/-- `gapText s x g`: the `g` characters of `s` from offset `x` on (were `s` too short it would be
padded with blanks; for the gaps of a parse tree it never is: `field_gap_exact`) -/
theorem gapText_in_bounds (s : Str) (x g : Nat) (h : x + g ≤ s.length) :
    gapText s x g = (s.drop x).take g := Luqum.gapText_eq s x g (by simpa using h)

/-- **generic form**: for ARBITRARY tables `T` satisfying the three `TablesOK` facts and ARBITRARY
certificate `C` accepted by the checker of C03, the item returned by a successful run over
well-formed tokens laid out from offset 0, with the lost separators read back from the text of the
tokens, prints that text -/
theorem run_source (T : Tables) (C : Cert) (hT : TablesOK T) (hC : certOK T C = true) (fuel : Nat)
    (toks : List Tok) (lerr : Option LexErr) (t : Tree) (hwf : ToksWF toks) (hp : TokPos toks 0)
    (h : runLoop T fuel { states := [0], vals := [] } toks lerr = .ok (.item t)) :
    (regap (tflats toks) t).full .raw = tflats toks :=
  (runLoop_srcR hT hC fuel toks lerr _ hwf hp h).1

/-- **C01 + C02 with the lost separators put back (no hypothesis)**: if `parse s` succeeds, the
tree in which every field name is followed by what the input has between it and its `:` prints the
input, and is laid out in it in the sense of C02 (`Laid`): all of C02 holds for `regap s t`, whose
nodes have the layout records of the nodes of `t` -/
theorem parse_source_exact (s : Str) (t : Tree) (h : parse s = .ok t) :
    (regap s t).full .raw = s ∧ Laid .raw 0 (regap s t) := by
  obtain ⟨toks, hlex, hne, hrun⟩ := parse_run s t h
  obtain ⟨hwf, hs⟩ := lex_spec hlex
  have h1 := run_source tables C03.cert tables_ok C03.cert_ok _ toks none t hwf (lex_tokPos hlex) hrun
  rw [hs hne] at h1
  refine ⟨h1, (laid_iff_pos .raw _ 0).2 ?_⟩
  have := pos_regap s t _ (parse_laid_exact s t h).1
  simpa using this

/-- **C02, slices (no hypothesis)**: for the node `n` at any path of the parse tree, the slice of
the input that `pos` and `size` designate is `n` printed (without head and tail) with the lost
separators put back; the slice widened by the lengths of head and tail is `n` printed with head and
tail in the same way; and `n` as it prints is a subsequence of its slice -/
theorem node_slices_exact (s : Str) (t : Tree) (h : parse s = .ok t) (p : List Nat) (n : Tree)
    (hn : t.at? p = some n) :
    ∃ pos size : Nat, n.lay.pos = some (pos : Int) ∧ n.lay.size = some (size : Int) ∧
      (s.drop pos).take size = (regap s n).body .raw ∧
      n.head.length ≤ pos ∧
      (s.drop (pos - n.head.length)).take (n.head.length + size + n.tail.length)
        = (regap s n).full .raw ∧
      (n.body .raw).Sublist ((s.drop pos).take size) := by
  obtain ⟨hfull, hl⟩ := parse_source_exact s t h
  have hn' : (regap s t).at? p = some (regap s n) := by rw [regap_at, hn]; rfl
  obtain ⟨pre, post, hf, hl'⟩ := Laid.at p hl hn'
  rw [hfull] at hf
  obtain ⟨h1, h2, h3, h4⟩ := Laid.slices hf (by simpa using hl')
  simp only [regap_lay, regap_head, regap_tail] at h1 h2 h3 h4
  refine ⟨pre.length + n.head.length, ((regap s n).body .raw).length, h1, h2, h3, by omega, ?_, ?_⟩
  · rw [Nat.add_sub_cancel]; exact h4
  · rw [h3]; exact body_sublist_regap s n

/-- a `Word`, `Phrase` or `Regex` of the parse tree is its slice of the input -/
theorem leaf_slice_exact (s : Str) (t : Tree) (h : parse s = .ok t) (p : List Nat) (k : TermK)
    (v : Str) (l : Lay) (hn : t.at? p = some (.term k v l)) :
    ∃ pos : Nat, l.pos = some (pos : Int) ∧ l.size = some (v.length : Int) ∧
      (s.drop pos).take v.length = v := by
  obtain ⟨pos, size, h1, h2, h3, _⟩ := node_slices_exact s t h p _ hn
  simp only [regap_term, body_term, Tree.lay] at h1 h2 h3
  have hv : size = v.length := by
    have := congrArg List.length h3
    obtain ⟨pos', size', g1, g2, _, g4, _⟩ := node_span_exact s t h p _ hn
    simp only [Tree.lay, h1, h2, Option.some.injEq, Int.natCast_inj] at g1 g2
    subst g1; subst g2
    simp only [List.length_take, List.length_drop, Tree.tail] at this g4
    omega
  subst hv
  exact ⟨pos, h1, h2, h3⟩

/-- **the gap of a `SearchField` (no hypothesis)**: for a `SearchField` at any path of the parse
tree, with name `name`: the input has the name at `pos`, then a gap of `g` BLANK characters (the
separator that the printed tree loses), then the `:`; `size` counts the gap -/
theorem field_gap_exact (s : Str) (t : Tree) (h : parse s = .ok t) (p : List Nat) (name : Str)
    (e : Tree) (l : Lay) (hn : t.at? p = some (.field name e l)) :
    ∃ pos g : Nat, l.pos = some (pos : Int) ∧ l.size = some ((name.length : Int) + g + 1 + e.ext) ∧
      (s.drop pos).take name.length = name ∧
      gapOf s name e l = (s.drop (pos + name.length)).take g ∧
      ((s.drop (pos + name.length)).take g).length = g ∧
      isBlank (gapOf s name e l) = true ∧
      (s.drop (pos + name.length + g)).head? = some ':' := by
  obtain ⟨pos, size, h1, h2, h3, _⟩ := node_slices_exact s t h p _ hn
  obtain ⟨hl, _⟩ := parse_laid_exact s t h
  obtain ⟨q, hq, _, _⟩ := PosS.at p hl hn
  obtain ⟨g, ⟨hp1, hp2⟩, _⟩ := hq
  simp only [Tree.lay] at h1 h2
  have hq' : q = pos := by rw [hp1] at h1; exact Option.some.inj h1
  subst hq'
  have hglen := gapOf_length s hp2
  -- the slice starts with the name, the gap and the `:`
  simp only [regap, body_field] at h3
  have hsz : (size : Int) = (name.length : Int) + g + 1 + e.ext := by
    rw [hp2] at h2; exact (Option.some.inj h2).symm
  have hlen := congrArg List.length h3
  simp only [List.length_take, List.length_drop, List.length_append, hglen, List.length_cons,
    List.length_nil] at hlen
  have hd : s.drop pos = (name ++ gapOf s name e l ++ [':'] ++ (regap s e).full .raw)
      ++ (s.drop pos).drop size := by
    rw [← h3, List.take_append_drop]
  have hgap : (s.drop (pos + name.length)).take g = gapOf s name e l := by
    rw [← List.drop_drop, hd]
    simp only [List.append_assoc]
    rw [List.drop_left' rfl, List.take_left' hglen]
  -- blank: the re-gapped tree has the non-blank characters of the input, and so has the tree
  have hnb : gapsNB s t = 0 := by
    have e1 := nbLen_regap s t
    rw [(parse_source_exact s t h).1] at e1
    have e2 := (print_erases_blanks s t h).2.1
    have : nbLen (t.full .raw) = nbLen s := by simp only [nbLen, e2]
    omega
  have hnb' := gapsNB_at s p hn
  simp only [gapsNB] at hnb'
  refine ⟨pos, g, hp1, hp2, ?_, hgap.symm, by rw [hgap]; exact hglen,
    isBlank_of_nbLen (by omega), ?_⟩
  · rw [hd]; simp only [List.append_assoc]; rw [List.take_left' rfl]
  · have : s.drop (pos + name.length + g) = ((s.drop pos).drop name.length).drop g := by
      simp only [List.drop_drop]
    rw [this, hd]
    simp only [List.append_assoc]
    rw [List.drop_left' rfl, List.drop_left' hglen]
    rfl

/-! ### (3) witnesses (kernel-checked) -/

/-- what a witness records: the printed tree, the unblanked input, the hypothesis of C01, the
number of characters lost, the source layout (Bool checker), the layout of C02, the widened span of
the root, the spans (not widened) of the nodes at the given paths, the layout of C02 for the
re-gapped tree, and the bodies of the re-gapped nodes at the given paths -/
structure Probe where
  printed : String
  unblanked : String
  noBlank : Bool
  lost : Nat
  laidSrc : Bool
  laid : Bool
  root : Option (Int × Int)
  spans : List (Option (Int × Int))
  regapLaid : Bool
  slices : List String
deriving DecidableEq, Repr

def probe (s : String) (paths : List (List Nat)) : Option Probe :=
  match parse s.toList with
  | .ok t =>
    some { printed := String.ofList (t.full .raw), unblanked := String.ofList (unblank s.toList),
           noBlank := noBlankBeforeColon (lex s.toList).1, lost := droppedLen (lex s.toList).1,
           laidSrc := posSB t t.head.length, laid := laidB .raw 0 t, root := t.span true,
           spans := paths.map fun p => (t.at? p).bind (·.span false),
           regapLaid := laidB .raw 0 (regap s.toList t),
           slices := paths.map fun p =>
             match t.at? p with
             | some n => String.ofList ((regap s.toList n).body .raw)
             | none => "" }
  | .error _ => none

/-- `foo :bar`: prints `foo:bar`; one character lost; laid out in the source but not in its own
text; the field spans `(0, 8)` (size 8 for 7 printed characters), `bar` is at `(5, 8)`; re-gapped
it is laid out as in C02, and its slice is `foo :bar` -/
example : probe "foo :bar" [[], [0]] =
    some ⟨"foo:bar", "foo:bar", false, 1, true, false, some (0, 8), [some (0, 8), some (5, 8)],
      true, ["foo :bar", "bar"]⟩ := by
  decide +kernel

/-- `a  :  b c`: the two blanks before `:` are lost, the two after it are the head of `b`; the
field (size 8: `a`, the gap of 2, `:`, and `b` with its head and tail) prints 6 characters -/
example : probe "a  :  b c" [[], [0], [0, 0], [1]] =
    some ⟨"a:  b c", "a:  b c", false, 2, true, false, some (0, 9),
      [some (0, 9), some (0, 8), some (6, 7), some (8, 9)],
      true, ["a  :  b c", "a  :  b ", "b", "c"]⟩ := by
  decide +kernel

/-- `f \n:(x y)`: a blank and a newline before the `:` of a field group -/
example : probe "f \n:(x y)" [[], [0], [0, 0], [0, 0, 1]] =
    some ⟨"f:(x y)", "f:(x y)", false, 2, true, false, some (0, 9),
      [some (0, 9), some (4, 9), some (5, 8), some (7, 8)],
      true, ["f \n:(x y)", "(x y)", "x y", "y"]⟩ := by
  decide +kernel

/-- two fields, blanks before both colons (and a head and a tail that are kept: they belong to the
first and the last operand of the operation, whose span therefore is the whole input) -/
example : probe " aa :1 AND  bb\t\t:[2 TO 3] " [[], [0], [0, 0], [1], [1, 0]] =
    some ⟨" aa:1 AND  bb:[2 TO 3] ", " aa:1 AND  bb:[2 TO 3] ", false, 3, true, false, some (0, 26),
      [some (0, 26), some (1, 7), some (5, 6), some (12, 26), some (17, 25)],
      true, [" aa :1 AND  bb\t\t:[2 TO 3] ", "aa :1 ", "1", "bb\t\t:[2 TO 3] ", "[2 TO 3]"]⟩ := by
  decide +kernel

/-- non-vacuity: a query with AND, OR, an implicit operation, a group, two fields with blanks before
their colons, a range, a boost, a fuzzy term, a proximity, prefixes and blanks everywhere -/
example : probe "  a  AND (f  :[1 TO  5}^2.50   OR \"x y\"~3 OR w~ ) -z  NOT  g\t: u" [[]] =
    some ⟨"  a  AND (f:[1 TO  5}^2.50   OR \"x y\"~3 OR w~ ) -z  NOT  g: u",
      "  a  AND (f:[1 TO  5}^2.50   OR \"x y\"~3 OR w~ ) -z  NOT  g: u", false, 3, true, false,
      some (0, 64), [some (0, 64)], true,
      ["  a  AND (f  :[1 TO  5}^2.50   OR \"x y\"~3 OR w~ ) -z  NOT  g\t: u"]⟩ := by
  decide +kernel

/-- without a blank before a colon nothing is lost and both layouts hold -/
example : probe " a AND f:[1 TO  5}^2 " [[]] =
    some ⟨" a AND f:[1 TO  5}^2 ", " a AND f:[1 TO  5}^2 ", true, 0, true, true, some (0, 21),
      [some (0, 21)], true, [" a AND f:[1 TO  5}^2 "]⟩ := by
  decide +kernel

/-- the hypothesis of the re-parse corollary holds for these inputs, and the printed tree parses
into an equal tree (checked directly, not through the theorem) -/
example :
    (["foo :bar", "a  :  b c", "f \n:(x y)", " aa :1 AND  bb\t\t:[2 TO 3] ", "T12 :3 0", "T12 : 30",
      "T1 :30"].all fun s =>
      !colonTimeClash s.toList &&
      (match parse s.toList with
       | .ok t => (match parse (t.full .raw) with
                   | .ok t' => t.eqv t' && decide (t'.full .raw = t.full .raw)
                   | .error _ => false)
       | .error _ => false)) = true := by
  decide +kernel

/-- **KF8 counterexample to re-parsing without the hypothesis**: `T12 :30` parses (a field `T12`
with value `30`), prints `T12:30`, which lexes as ONE word: the printed tree parses into a different
tree; the hypothesis `colonTimeClash` detects it -/
example :
    let s := "T12 :30".toList
    colonTimeClash s = true ∧
    (match parse s with
     | .ok t => decide (t.full .raw = "T12:30".toList) && t.className == "SearchField"
     | .error _ => false) = true ∧
    (lex (unblank s)).1.map tokKey = [(.term, "T12:30".toList)] ∧
    (match parse s, parse (unblank s) with
     | .ok t, .ok t' => t'.className == "Word" && !t.eqv t'
     | _, _ => false) = true := by
  decide +kernel

/-- the same with seconds -/
example :
    let s := "T12:30\t:45".toList
    colonTimeClash s = true ∧ (lex (unblank s)).1.map tokKey = [(.term, "T12:30:45".toList)] := by
  decide +kernel

/-- a query that starts with `:` does not parse -/
example : (lex " :a".toList).1.map (·.head) = [[' '], []] ∧
    parse " :a".toList = .error (.syntaxAt [':'] 1) := ⟨by rfl, by rfl⟩

/-- `badColon` on these inputs -/
example : badColon false (lex " :a".toList).1 = true ∧ badColon false (lex "a^2 :x".toList).1 = true ∧
    badColon false (lex "(a) :x".toList).1 = true ∧ badColon false (lex "TO :x".toList).1 = false ∧
    badColon false (lex "a :x b\t:y".toList).1 = false := by decide +kernel

/-- something other than a name before the blank and the `:` does not parse either (so
`dropColonBlanks`, which empties the tail of ANY token before a `:`, and "the blank between a field
name and its colon" are the same thing for accepted queries) -/
example : parse "a^2 :x".toList = .error (.syntaxAt [':'] 4) ∧
    parse "(a) :x".toList = .error (.syntaxAt [':'] 4) ∧
    parse "TO :x".toList = .error (.syntaxAt [':'] 3) := ⟨by rfl, by rfl, by rfl⟩

end Luqum.Props.C01b
