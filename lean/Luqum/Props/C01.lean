/-
  C01 — parsing is lossless: printing the parse tree with heads and tails gives back the input
  (numerals in their source spelling), under the hypothesis of known finding KF1 (no separator
  directly before a ':').
  Property theorems only; the lemmas are in Luqum/Lemmas (Flat, ActLossless, RunLossless,
  LexLossless).
-/
import Luqum.Model.ParserInst
import Luqum.Lemmas.RunLossless
import Luqum.Lemmas.LexLossless

namespace Luqum.Props.C01
open Luqum

/-- KF1 hypothesis: no separator immediately before a ':' token
    (every token directly followed by a COLUMN token has an empty tail) -/
def noBlankBeforeColon : List Tok → Bool
  | t1 :: t2 :: r => (t2.kind != .column || t1.tail.isEmpty) && noBlankBeforeColon (t2 :: r)
  | _ => true

/-! ### kernel-checked facts about the generated tables -/

/-- the accept action occurs only in the `$end` column -/
theorem accept_only_at_end : acceptOnlyAtEnd tables = true := by decide +kernel
/-- no shift enters the accepting state -/
theorem shift_targets_ok : shiftTargetsOK tables = true := by decide +kernel
/-- gotos lead to positive states, and into the accepting state only from state 0 -/
theorem goto_targets_ok : gotoTargetsOK tables = true := by decide +kernel

/-- hence: when the run accepts, the input is exhausted and the stack holds exactly one value -/
theorem tables_ok : TablesOK tables :=
  tablesOK_of_checks accept_only_at_end shift_targets_ok goto_targets_ok

/-! ### losslessness -/

private theorem adj_of_noBlank : ∀ toks : List Tok, noBlankBeforeColon toks = true →
    Adj (toks.map Tok.toVal)
  | [], _ => trivial
  | [_], _ => trivial
  | t1 :: t2 :: r, h => by
    simp only [noBlankBeforeColon, Bool.and_eq_true, Bool.or_eq_true, bne_iff_ne, ne_eq,
      List.isEmpty_iff] at h
    refine ⟨fun hc => ?_, adj_of_noBlank (t2 :: r) h.2⟩
    rw [toVal_isColon] at hc
    rw [toVal_lay_tail]
    rcases h.1 with h1 | h1
    · exact absurd (by simpa using hc) h1
    · exact h1

/-- **C01 (partial: up to KF1)**: if `parse s` succeeds and no separator stands directly before a
`:`, then printing the tree with heads and tails (numerals as spelled in the source) gives `s` -/
theorem parse_lossless_partial (s : Str) (t : Tree)
    (h : parse s = .ok t) (hk : noBlankBeforeColon (lex s).1 = true) :
    t.full .raw = s := by
  unfold parse parseWith at h
  rcases hlex : lex s with ⟨toks, lerr⟩
  rw [hlex] at h hk
  simp only at h hk
  split at h
  · rename_i t' hrun
    cases h
    -- a lexer error would have been raised: the run accepts only at the end of the input
    have hnolex : lerr = none := runLoop_no_lexErr tables_ok.acceptEnd _ _ toks lerr _ hrun
    subst hnolex
    -- the tokens slice the input, and form a well-formed sequence of stack values
    obtain ⟨hwf, hflat⟩ := lex_spec hlex
    have hok : SeqOK (toks.map Tok.toVal) :=
      ⟨allGood_toVal hwf, allNF_toVal hwf, adj_of_noBlank toks hk⟩
    -- every shift and reduce keeps the text; at accept the stack is the single result
    obtain ⟨_, hne, hv⟩ := runLoop_lossless tables_ok _ toks none _ hok hrun
    rw [flats_toVal hwf.ok, hflat hne] at hv
    exact hv
  · cases h
  · cases h

/-! ### what the implementation prints vs. the source spelling of numerals -/

/-- re-spell a numeral the way the implementation prints it -/
def Num.respell (n : Num) : Num := { n with raw := n.val.render }

mutual
/-- the tree with every `~` / `^` numeral re-spelled as the implementation prints it -/
def respell : Tree → Tree
  | .term k v l => .term k v l
  | .field n e l => .field n (respell e) l
  | .group k e l => .group k (respell e) l
  | .range a b il ih l => .range (respell a) (respell b) il ih l
  | .approx k t n l => .approx k (respell t) (Num.respell n) l
  | .boost e n l => .boost (respell e) (Num.respell n) l
  | .op k xs l => .op k (respells xs) l
  | .unary k a l => .unary k (respell a) l
  | .orange k a i l => .orange k (respell a) i l
  | .none l => .none l
def respells : List Tree → List Tree
  | [] => []
  | x :: r => respell x :: respells r
end

private theorem num_respell (n : Num) : (Num.respell n).text .raw = n.text .norm := by
  obtain ⟨v, i, r⟩ := n
  cases i <;> rfl

mutual
/-- what the implementation prints (`.norm`) is the source-faithful print (`.raw`) of the tree whose
numerals are re-spelled -/
theorem print_norm_eq_raw_respelled : ∀ t : Tree, t.full .norm = (respell t).full .raw
  | .term .. => by simp [respell, Tree.full]
  | .field n e l => by simp [respell, Tree.full, print_norm_eq_raw_respelled e]
  | .group k e l => by simp [respell, Tree.full, print_norm_eq_raw_respelled e]
  | .range a b il ih l => by
      simp [respell, Tree.full, print_norm_eq_raw_respelled a, print_norm_eq_raw_respelled b]
  | .approx k t n l => by simp [respell, Tree.full, print_norm_eq_raw_respelled t, num_respell]
  | .boost e n l => by simp [respell, Tree.full, print_norm_eq_raw_respelled e, num_respell]
  | .op k xs l => by simp [respell, Tree.full, prints_norm_eq_raw_respelled xs]
  | .unary k a l => by simp [respell, Tree.full, print_norm_eq_raw_respelled a]
  | .orange k a i l => by simp [respell, Tree.full, print_norm_eq_raw_respelled a]
  | .none l => by simp [respell, Tree.full]
theorem prints_norm_eq_raw_respelled : ∀ xs : List Tree,
    Tree.fulls .norm xs = Tree.fulls .raw (respells xs)
  | [] => by simp [respells, Tree.fulls]
  | x :: r => by
      simp [respells, Tree.fulls, print_norm_eq_raw_respelled x, prints_norm_eq_raw_respelled r]
end

/-! ### lexer errors, witnesses -/

/-- the empty input is a syntax error at the end -/
theorem parse_empty : parse [] = .error .syntaxEnd := by rfl

/-- a successful parse met no illegal character (if `lex s = (toks, some e)` then `parse s` fails) -/
theorem parse_ok_no_lexErr (s : Str) (t : Tree) (h : parse s = .ok t) : (lex s).2 = none := by
  unfold parse parseWith at h
  rcases hlex : lex s with ⟨toks, lerr⟩
  rw [hlex] at h
  simp only at h
  split at h
  · rename_i t' hrun
    exact runLoop_no_lexErr tables_ok.acceptEnd _ _ toks lerr _ hrun
  · cases h
  · cases h

/-- KF1 (negative witness): the blank between the field name and `:` is lost -/
example : (parse "foo :bar".toList).map (·.full .raw) = .ok "foo:bar".toList := by rfl

example : noBlankBeforeColon (lex "foo :bar".toList).1 = false := by rfl

/-- non-vacuity: a query with AND, a group, a field, a range, a boost and several blanks parses,
satisfies the hypothesis, and prints back -/
example :
    let s := "  a  AND (f:[1 TO  5}^2.50   OR \"x y\"~3 ) -z ".toList
    (parse s).map (·.full .raw) = .ok s ∧ noBlankBeforeColon (lex s).1 = true :=
  ⟨by rfl, by rfl⟩

end Luqum.Props.C01
