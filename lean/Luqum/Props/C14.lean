import Luqum.Model.Threads
namespace Luqum.Props.C14
open Luqum
/-- a finished parse stays finished -/
theorem pstep_done (T : Tables) (p : PState) (r) (h : p.result = some r) : pstep T p = p := by
  unfold pstep; rw [h]
end Luqum.Props.C14
