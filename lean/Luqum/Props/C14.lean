/-
  C14 — luqum.thread.parse is thread-safe: on the abstract machine of Luqum.Model.Threads, under
  every schedule each thread's outcome is the outcome of a sequential parse of its own input.
  (Partial by nature: byte-code atomicity / the GIL and PLY's code outside the audited attribute
  accesses are not in the model; see DESIGN.md.)
-/
import Luqum.Model.Threads
import Luqum.Lemmas.ParseTotal

namespace Luqum.Props.C14
open Luqum

/-- a finished parse stays finished -/
theorem pstep_done (T : Tables) (p : PState) (r) (h : p.result = some r) : pstep T p = p := by
  unfold pstep; rw [h]

theorem piter_done (T : Tables) (n : Nat) (p : PState) (r) (h : p.result = some r) : piter T n p = p := by
  induction n generalizing p with
  | zero => rfl
  | succ n ih => simp only [piter]; rw [pstep_done T p r h]; exact ih p h

/-- one atomic step from an unfinished state whose look-ahead is available (or whose lexer reported
no error): dispatch on the parser step -/
theorem pstep_step (T : Tables) (c : Cfg) (toks : List Tok) (lerr : Option LexErr)
    (hne : ∀ e, toks = [] → lerr = some e → False) :
    pstep T { cfg := c, toks := toks, lerr := lerr } =
      match step T c toks.head? with
      | .shift c' => { cfg := c', toks := toks.tail, lerr := lerr }
      | .reduce c' => { cfg := c', toks := toks, lerr := lerr }
      | .accept v => { cfg := c, toks := toks, lerr := lerr, result := some (.ok v) }
      | .error e => { cfg := c, toks := toks, lerr := lerr, result := some (.error e) } := by
  unfold pstep
  simp only
  generalize step T c toks.head? = r
  rcases toks with _ | ⟨t, rest⟩
  · cases lerr with
    | some e => exact absurd rfl (fun h => hne e rfl h)
    | none => cases r <;> rfl
  · cases r <;> rfl

/-- iterating the atomic step is PLY's loop: when the loop has enough fuel, `fuel` steps finish with
exactly its outcome -/
theorem piter_runLoop (T : Tables) : ∀ (fuel : Nat) (c : Cfg) (toks : List Tok) (lerr : Option LexErr),
    runLoop T fuel c toks lerr ≠ .error (.internal "out of fuel") →
    (piter T fuel { cfg := c, toks := toks, lerr := lerr }).result = some (runLoop T fuel c toks lerr)
  | 0, c, toks, lerr, h => by simp [runLoop] at h
  | fuel + 1, c, toks, lerr, h => by
    unfold runLoop at h ⊢
    simp only [piter]
    split at h
    · -- lexer error with no token left
      rename_i e
      have : pstep T { cfg := c, toks := [], lerr := some e } =
          { cfg := c, toks := [], lerr := some e, result := some (.error (.illegalChar e.pos e.rest)) } := by
        simp [pstep]
      rw [this, piter_done T fuel _ _ rfl]
    · rename_i hne
      rw [pstep_step T c toks lerr hne]
      split at h <;> rename_i hs <;> simp only [hs]
      · exact piter_runLoop T fuel _ _ _ h
      · exact piter_runLoop T fuel _ _ _ h
      · rw [piter_done T fuel _ _ rfl]
      · rw [piter_done T fuel _ _ rfl]

/-- count of the occurrences of thread `i` in a schedule -/
def turns (i : Nat) (sched : List Nat) : Nat := sched.count i

/-- **frame property**: whatever the schedule, the state of thread `i` depends only on how many
turns it got, never on what the other threads did -/
theorem piter_succ' (T : Tables) (n : Nat) (p : PState) : piter T (n + 1) p = piter T n (pstep T p) := rfl

theorem run_thread (T : Tables) (sched : List Nat) (w : World) (i : Nat) :
    (w.run T sched).threads[i]? = (w.threads[i]?).map (piter T (turns i sched)) := by
  induction sched generalizing w with
  | nil => simp [World.run, turns, piter]
  | cons j rest ih =>
    have := ih (w.stepThread T j)
    simp only [World.run, List.foldl_cons] at this ⊢
    rw [this]
    simp only [World.stepThread, turns, List.count_cons]
    by_cases hji : j = i
    · subst hji
      rw [List.getElem?_modify_eq]
      cases w.threads[j]? with
      | none => rfl
      | some p => simp [piter]
    · have hb : (j == i) = false := by simpa using hji
      simp only [hb, Bool.false_eq_true, if_false, Nat.add_zero]
      rw [List.getElem?_modify_ne _ _ hji]

/-- C14 on the abstract machine, assuming the fuel of the sequential loop suffices (it always does:
`thread_safe` below) -/
theorem thread_safe_of_fuel (inputs : List Str) (sched : List Nat) (i : Nat) (s : Str)
    (hi : inputs[i]? = some s)
    (hfair : parseFuel (lex s).1.length ≤ turns i sched)
    (hfuel : runLoop tables (parseFuel (lex s).1.length) { states := [0], vals := [] } (lex s).1 (lex s).2
              ≠ .error (.internal "out of fuel")) :
    ∃ p, ((World.init inputs).run tables sched).threads[i]? = some p ∧
      p.result = some (runLoop tables (parseFuel (lex s).1.length) { states := [0], vals := [] } (lex s).1 (lex s).2) := by
  rw [run_thread]
  have hget : (World.init inputs).threads[i]? = some (pinit s) := by
    simp [World.init, List.getElem?_map, hi]
  rw [hget]
  refine ⟨_, rfl, ?_⟩
  obtain ⟨k, hk⟩ := Nat.exists_eq_add_of_le hfair
  have h1 := piter_runLoop tables _ _ _ _ hfuel
  have split_iter : ∀ (a b : Nat) (p : PState), piter tables (a + b) p = piter tables b (piter tables a p) := by
    intro a b p
    induction a generalizing p with
    | zero => simp [piter]
    | succ a ih => simp only [Nat.succ_add, piter]; exact ih _
  rw [hk, split_iter]
  unfold pinit
  simp only
  rw [piter_done tables k _ _ h1]
  exact h1

/-- and before it has finished a thread has simply no outcome yet: under any schedule the
outcome of thread `i`, once present, is the sequential one (no schedule can make it differ) -/
theorem outcome_unique (inputs : List Str) (sched : List Nat) (i : Nat) (s : Str) (p : PState) (r)
    (hi : inputs[i]? = some s)
    (hp : ((World.init inputs).run tables sched).threads[i]? = some p) (hr : p.result = some r)
    (n : Nat) (hn : turns i sched ≤ n) :
    (piter tables n (pinit s)).result = some r := by
  rw [run_thread] at hp
  have hget : (World.init inputs).threads[i]? = some (pinit s) := by
    simp [World.init, List.getElem?_map, hi]
  rw [hget] at hp
  simp only [Option.map_some, Option.some.injEq] at hp
  obtain ⟨k, hk⟩ := Nat.exists_eq_add_of_le hn
  have split_iter : ∀ (a b : Nat) (q : PState), piter tables (a + b) q = piter tables b (piter tables a q) := by
    intro a b q
    induction a generalizing q with
    | zero => simp [piter]
    | succ a ih => simp only [Nat.succ_add, piter]; exact ih _
  rw [hk, split_iter, hp, piter_done tables k p r hr]
  exact hr


/-- the sequential outcome of `thread.parse(s)` / `parser.parse(s)`, as a stack value -/
def seqOutcome (s : Str) : Except ParseErr Val :=
  runLoop tables (parseFuel (lex s).1.length) { states := [0], vals := [] } (lex s).1 (lex s).2

/-- what `parse` returns for an outcome of the loop -/
def finish : Except ParseErr Val → Except ParseErr Tree
  | .ok (.item t) => .ok t
  | .ok (.tok ..) => .error (.internal "token value as result")
  | .error e => .error e

theorem parse_eq_finish (s : Str) : parse s = finish (seqOutcome s) := by
  unfold parse parseWith seqOutcome finish
  rfl

/-- **C14 on the abstract machine** (unconditional, by fuel sufficiency `runLoop_fuel_ok`): for all
inputs and every schedule in which thread `i` gets at least `parseFuel` turns, its outcome is
exactly the outcome of the sequential loop on its own input -/
theorem thread_safe (inputs : List Str) (sched : List Nat) (i : Nat) (s : Str)
    (hi : inputs[i]? = some s)
    (hfair : parseFuel (lex s).1.length ≤ turns i sched) :
    ∃ p, ((World.init inputs).run tables sched).threads[i]? = some p ∧
      p.result = some (seqOutcome s) :=
  thread_safe_of_fuel inputs sched i s hi hfair (runLoop_fuel_ok _ _)

/-- ... i.e. what the thread returns is `parse s` -/
theorem thread_safe_parse (inputs : List Str) (sched : List Nat) (i : Nat) (s : Str)
    (hi : inputs[i]? = some s)
    (hfair : parseFuel (lex s).1.length ≤ turns i sched) :
    ∃ p, ((World.init inputs).run tables sched).threads[i]? = some p ∧
      p.result.map finish = some (parse s) := by
  obtain ⟨p, hp, hr⟩ := thread_safe inputs sched i s hi hfair
  exact ⟨p, hp, by rw [hr, parse_eq_finish]; rfl⟩

/-- under ANY schedule (fair or not), an outcome that is present is the sequential one -/
theorem outcome_is_sequential (inputs : List Str) (sched : List Nat) (i : Nat) (s : Str) (p : PState) (r)
    (hi : inputs[i]? = some s)
    (hp : ((World.init inputs).run tables sched).threads[i]? = some p) (hr : p.result = some r) :
    r = seqOutcome s ∧ finish r = parse s := by
  have h1 := outcome_unique inputs sched i s p r hi hp hr
    (turns i sched + parseFuel (lex s).1.length) (Nat.le_add_right _ _)
  have h2 := piter_runLoop tables _ _ _ _ (runLoop_fuel_ok (lex s).1 (lex s).2)
  have split_iter : ∀ (a b : Nat) (q : PState), piter tables (a + b) q = piter tables b (piter tables a q) := by
    intro a b q
    induction a generalizing q with
    | zero => simp [piter]
    | succ a ih => simp only [Nat.succ_add, piter]; exact ih _
  rw [Nat.add_comm, split_iter] at h1
  have h3 : (pinit s) = { cfg := { states := [0], vals := [] }, toks := (lex s).1, lerr := (lex s).2 } := rfl
  rw [h3, piter_done tables _ _ _ h2, h2] at h1
  have : r = seqOutcome s := by
    simp only [Option.some.injEq] at h1
    exact h1.symm
  exact ⟨this, by rw [this, parse_eq_finish]⟩

/-- and no thread ever reports a model-internal error -/
theorem outcome_never_internal (inputs : List Str) (sched : List Nat) (i : Nat) (s : Str) (p : PState) (r)
    (hi : inputs[i]? = some s)
    (hp : ((World.init inputs).run tables sched).threads[i]? = some p) (hr : p.result = some r)
    (m : String) : finish r ≠ .error (.internal m) := by
  rw [(outcome_is_sequential inputs sched i s p r hi hp hr).2]
  exact parse_never_internal s m

/-- the `shared` cell (the per-parse attributes written on the shared `LRParser` object) is never
read by a step: two worlds that differ only there run identically on every thread -/
theorem shared_irrelevant (sched : List Nat) (w : World) (x : Option Nat) :
    ({ w with shared := x }.run tables sched).threads = (w.run tables sched).threads := by
  induction sched generalizing w x with
  | nil => rfl
  | cons j rest ih =>
    simp only [World.run, List.foldl_cons] at ih ⊢
    exact ih (w.stepThread tables j) (some j)

/-- non-vacuity: three threads, an adversarial round-robin schedule -/
example :
    let inputs := ["a AND b".toList, "(x".toList, "f:[1 TO 2]^3".toList]
    let sched := (List.range 300).map (· % 3)
    ((World.init inputs).run tables sched).threads.map (fun p => p.result.isSome) = [true, true, true] := by
  decide +kernel

/-- non-vacuity of the fairness hypothesis: "a AND b" has 3 tokens, `parseFuel 3 = 72`, and a
round-robin schedule of 3 × 72 turns gives every thread its 72 turns -/
example : parseFuel (lex "a AND b".toList).1.length = 72 := by decide +kernel
example : turns 0 ((List.range 216).map (· % 3)) = 72 := by decide +kernel

end Luqum.Props.C14
