/-
  C18 — pretty-printing (`luqum.pretty.Prettifier`, model `Luqum.prettify`).

  * determinism: the output is a function of (indent, max_len, inline_ops, tree);
  * structure: for every configuration the printer emits the chunks of the tree (the strings
    yielded by `_get_chains`, in order) unaltered, and between them only blanks and newlines;
  * totality: the printer succeeds on every tree without an operand-less operation (as far as it
    looks: through operations, groups, search fields), and fails on an operand-less operation;
    exact success condition on the chain list;
  * relation to `str`: when the heads/tails below the walked nodes are blank-only, the output and
    `str(tree)` are equal up to blanks and newlines.

  Definitions (`squash`, `chunks`, `NoEmptyOp`, `BlankLay`, `okL`, `startsOk`) and helper lemmas are
  in `Luqum.Lemmas.PrettyLemmas`.
-/
import Luqum.Model.Pretty
import Luqum.Lemmas.PrettyLemmas

namespace Luqum.Props.C18
open Luqum Luqum.Pretty

theorem pretty_word (cfg : PrettyCfg) (v : Str) (l : Lay) (h : ¬ v.contains '\n') :
    (getChains cfg.inlineOps none (.term .word v l)) = [Chain.str v] := rfl

/-! ### (1) determinism -/

/-- the output is a function of the configuration and the tree -/
theorem prettify_congr (cfg cfg' : PrettyCfg) (t t' : Tree) (hc : cfg = cfg') (ht : t = t') :
    prettify cfg t = prettify cfg' t' := by subst hc; subst ht; rfl

/-- … and of the configuration only `indent`, `max_len` and `inline_ops` matter -/
theorem prettify_congr_fields (cfg cfg' : PrettyCfg) (t : Tree) (h1 : cfg.indent = cfg'.indent)
    (h2 : cfg.maxLen = cfg'.maxLen) (h3 : cfg.inlineOps = cfg'.inlineOps) :
    prettify cfg t = prettify cfg' t := by
  cases cfg; cases cfg'; simp only at h1 h2 h3; subst h1; subst h2; subst h3; rfl

/-! ### (2) structure: chunks are never altered, only blanks / newlines are inserted -/

/-- **Structure theorem.** For every indent, max_len, inline_ops and every tree: after removing
all blanks and newlines, the output is the concatenation of the (squashed) chunks of the tree, in
order. No hypothesis on the chunks is needed (a chunk containing newlines is split and re-joined,
which only moves newlines). -/
theorem prettify_squash (cfg : PrettyCfg) (t : Tree) (out : Str) (h : prettify cfg t = some out) :
    squash out = (chunks (getChains cfg.inlineOps none t)).flatMap squash :=
  concatenates_squash cfg _ _ _ _ out h

/-- the same, phrased with the one-line rendering of the chunks -/
theorem prettify_squash_join (cfg : PrettyCfg) (t : Tree) (out : Str)
    (h : prettify cfg t = some out) :
    squash out = squash (joinStr [' '] (chunks (getChains cfg.inlineOps none t))) := by
  rw [prettify_squash cfg t out h, squash_joinStr [' '] squash_blank]

/-- two configurations print the same thing up to blanks and newlines, provided `inline_ops` agree
(`inline_ops` does not change the chunks either, see `prettify_squash_str`) -/
theorem prettify_squash_cfg (cfg cfg' : PrettyCfg) (t : Tree) (out out' : Str)
    (hi : cfg.inlineOps = cfg'.inlineOps)
    (h : prettify cfg t = some out) (h' : prettify cfg' t = some out') :
    squash out = squash out' := by
  rw [prettify_squash cfg t out h, prettify_squash cfg' t out' h', hi]

/-- `sep.join(s.split("\n"))` with a blank-only `sep` changes only blanks / newlines -/
theorem squash_join_splitLines (sep s : Str) (hs : squash sep = []) :
    squash (joinStr sep (splitLines s)) = squash s :=
  Pretty.squash_join_splitLines sep s hs

/-! ### (3) totality -/

/-- **Totality.** A tree without operand-less operation is always printed. -/
theorem prettify_isSome (cfg : PrettyCfg) (t : Tree) (h : NoEmptyOp t = true) :
    (prettify cfg t).isSome := by
  have ⟨h1, h2⟩ := getChains_ok cfg.inlineOps t none h
  exact concatenates_isSome cfg _ _ _ _ h1 h2

theorem prettify_ne_none (cfg : PrettyCfg) (t : Tree) (h : NoEmptyOp t = true) :
    prettify cfg t ≠ none := by
  have := prettify_isSome cfg t h
  intro hn; simp [hn] at this

/-- exact success condition: every (nested) chain list is non-empty and does not start with a
stick marker -/
theorem prettify_isSome_iff (cfg : PrettyCfg) (t : Tree) :
    (prettify cfg t).isSome ↔
      (okL (getChains cfg.inlineOps none t) = true ∧
        startsOk (getChains cfg.inlineOps none t) = true) :=
  concatenates_isSome_iff cfg _ _ _ _

/-- the hypothesis is needed: an operation without operands makes the printer fail
(`None.split` in the implementation), for every configuration -/
theorem prettify_empty_op (cfg : PrettyCfg) (k : OpK) (l : Lay) :
    prettify cfg (.op k [] l) = none := by
  have h := prettify_isSome_iff cfg (.op k [] l)
  simp [getChains, getChainsOperands, startsOk] at h
  exact h

/-- … also when it is nested in another operation -/
theorem prettify_nested_empty_op (cfg : PrettyCfg) (l l' : Lay) (x : Tree) :
    prettify cfg (.op .and [x, .op .or [] l'] l) = none := by
  have h := prettify_isSome_iff cfg (.op .and [x, .op .or [] l'] l)
  have hw : (OpK.and.word == OpK.or.word) = false := by decide
  simp [getChains, getChainsOperands, okL_append, hw, startsOk] at h
  cases hp : prettify cfg (.op .and [x, .op .or [] l'] l) with
  | none => rfl
  | some o => simp [hp] at h

/-! ### (4) relation to `str` -/

/-- the chunks of a tree spell `str(tree)` up to blanks and newlines, when the heads / tails below
the walked nodes are blank-only -/
theorem chunks_str (inline : Bool) (t : Tree) (h : BlankLay t = true) :
    (chunks (getChains inline none t)).flatMap squash = squash t.str :=
  chunks_getChains inline t none h

/-- **The printer only changes blanks and newlines** (for trees whose heads / tails are blank-only,
e.g. parsed trees): for every configuration the output equals `str(tree)` up to blanks/newlines. -/
theorem prettify_squash_str (cfg : PrettyCfg) (t : Tree) (out : Str) (h : BlankLay t = true)
    (hp : prettify cfg t = some out) : squash out = squash t.str := by
  rw [prettify_squash cfg t out hp, chunks_str _ t h]

/-- any two configurations agree up to blanks and newlines -/
theorem prettify_squash_any_cfg (cfg cfg' : PrettyCfg) (t : Tree) (out out' : Str)
    (h : BlankLay t = true) (hp : prettify cfg t = some out) (hp' : prettify cfg' t = some out') :
    squash out = squash out' := by
  rw [prettify_squash_str cfg t out h hp, prettify_squash_str cfg' t out' h hp']

/-! ### non-vacuity -/

section examples

private def w (s : String) : Tree := .term .word s.toList {}
private def ex1 : Tree := .op .and [w "a", .group .group (.op .or [w "b", w "c"] {}) {}] {}
/-- a tail that is not blank: dropped by the printer, printed by `str` -/
private def ex2 : Tree := .op .and [.term .word ['a'] { tail := ['x'] }, w "b"] {}

local macro "pretty_eval" : tactic => `(tactic|
  (simp [prettify, getChains, getChainsOperands, opSeparators, OpK.word, concatenates, concatElts,
    applyStick, Chain.countList, Chain.count, splitLines, splitLines.go, joinStr, Tree.str,
    Tree.body, Tree.full, Tree.fulls, joinWith, List.replicate]))

example : prettify {} ex1 = some "a AND ( b OR c )".toList := by unfold ex1 w; pretty_eval
example : prettify { maxLen := 3 } ex1 = some "a\nAND\n(\n    b\n    OR\n    c\n)".toList := by
  unfold ex1 w; pretty_eval
example : prettify { maxLen := 3, inlineOps := true } ex1 = some "a AND\n(\n    b OR\n    c )".toList := by
  unfold ex1 w; pretty_eval
example : chunks (getChains false none ex1)
    = ["a".toList, "AND".toList, "(".toList, "b".toList, "OR".toList, "c".toList, ")".toList] := by
  unfold ex1 w; simp [getChains, getChainsOperands, opSeparators, OpK.word, Tree.str, Tree.body]
example : squash "a AND\n(\n    b OR\n    c )".toList = "aAND(bORc)".toList := by decide
example : NoEmptyOp ex1 = true := by unfold ex1 w; simp [NoEmptyOp, NoEmptyOps]
example : BlankLay ex1 = true := by
  unfold ex1 w; simp [BlankLay, BlankLays, blankHT, Tree.head, Tree.tail, Tree.lay]
example : ex1.str = "aAND(bORc)".toList := by unfold ex1 w; pretty_eval
/-- `BlankLay` is needed in `prettify_squash_str` -/
example : prettify {} ex2 = some "a AND b".toList ∧ ex2.str = "axANDb".toList := by
  unfold ex2 w; constructor <;> pretty_eval
/-- failure with `inline_ops`: a leading stick marker (`NoEmptyOp` fails) … -/
example : prettify { inlineOps := true } (.op .and [.op .and [] {}, w "x"] {}) = none := by
  unfold w; pretty_eval
/-- … while the same tree is printed without `inline_ops`: `NoEmptyOp` is sufficient, not necessary -/
example : prettify {} (.op .and [.op .and [] {}, w "x"] {}) = some "AND x".toList := by
  unfold w; pretty_eval

end examples

end Luqum.Props.C18
