/-
  C18 — pretty-printing (`luqum.pretty.Prettifier`, model `Luqum.prettify`).

  * determinism: the output is a function of (indent, max_len, inline_ops, tree);
  * structure: for every configuration the printer emits the chunks of the tree (the strings
    yielded by `_get_chains`, in order) unaltered, and between them only blanks and newlines;
  * totality: the printer succeeds on every tree without an operand-less operation (as far as it
    looks: through operations, groups, search fields), and fails on an operand-less operation;
    exact success condition on the chain list;
  * relation to `str`: when the heads/tails below the walked nodes are blank-only, the output and
    `str(tree)` are equal up to blanks and newlines.

  Definitions (`squash`, `chunks`, `NoEmptyOp`, `BlankLay`, `okL`, `startsOk`) and helper lemmas are
  in `Luqum.Lemmas.PrettyLemmas`.
-/
import Luqum.Model.Pretty
import Luqum.Lemmas.PrettyLemmas
import Luqum.Lemmas.PrettySpellNl
import Luqum.Lemmas.PrettySpellEval
import Luqum.Props.Reparse

namespace Luqum.Props.C18
open Luqum Luqum.Pretty

theorem pretty_word (cfg : PrettyCfg) (v : Str) (l : Lay) (h : ¬ v.contains '\n') :
    (getChains cfg.inlineOps none (.term .word v l)) = [Chain.str v] := rfl

/-! ### (1) determinism -/

/-- the output is a function of the configuration and the tree -/
theorem prettify_congr (cfg cfg' : PrettyCfg) (t t' : Tree) (hc : cfg = cfg') (ht : t = t') :
    prettify cfg t = prettify cfg' t' := by subst hc; subst ht; rfl

/-- … and of the configuration only `indent`, `max_len` and `inline_ops` matter -/
theorem prettify_congr_fields (cfg cfg' : PrettyCfg) (t : Tree) (h1 : cfg.indent = cfg'.indent)
    (h2 : cfg.maxLen = cfg'.maxLen) (h3 : cfg.inlineOps = cfg'.inlineOps) :
    prettify cfg t = prettify cfg' t := by
  cases cfg; cases cfg'; simp only at h1 h2 h3; subst h1; subst h2; subst h3; rfl

/-! ### (2) structure: chunks are never altered, only blanks / newlines are inserted -/

/-- **Structure theorem.** For every indent, max_len, inline_ops and every tree: after removing
all blanks and newlines, the output is the concatenation of the (squashed) chunks of the tree, in
order. No hypothesis on the chunks is needed (a chunk containing newlines is split and re-joined,
which only moves newlines). -/
theorem prettify_squash (cfg : PrettyCfg) (t : Tree) (out : Str) (h : prettify cfg t = some out) :
    squash out = (chunks (getChains cfg.inlineOps none t)).flatMap squash :=
  concatenates_squash cfg _ _ _ _ out h

/-- the same, phrased with the one-line rendering of the chunks -/
theorem prettify_squash_join (cfg : PrettyCfg) (t : Tree) (out : Str)
    (h : prettify cfg t = some out) :
    squash out = squash (joinStr [' '] (chunks (getChains cfg.inlineOps none t))) := by
  rw [prettify_squash cfg t out h, squash_joinStr [' '] squash_blank]

/-- two configurations print the same thing up to blanks and newlines, provided `inline_ops` agree
(`inline_ops` does not change the chunks either, see `prettify_squash_str`) -/
theorem prettify_squash_cfg (cfg cfg' : PrettyCfg) (t : Tree) (out out' : Str)
    (hi : cfg.inlineOps = cfg'.inlineOps)
    (h : prettify cfg t = some out) (h' : prettify cfg' t = some out') :
    squash out = squash out' := by
  rw [prettify_squash cfg t out h, prettify_squash cfg' t out' h', hi]

/-- `sep.join(s.split("\n"))` with a blank-only `sep` changes only blanks / newlines -/
theorem squash_join_splitLines (sep s : Str) (hs : squash sep = []) :
    squash (joinStr sep (splitLines s)) = squash s :=
  Pretty.squash_join_splitLines sep s hs

/-! ### (3) totality -/

/-- **Totality.** A tree without operand-less operation is always printed. -/
theorem prettify_isSome (cfg : PrettyCfg) (t : Tree) (h : NoEmptyOp t = true) :
    (prettify cfg t).isSome := by
  have ⟨h1, h2⟩ := getChains_ok cfg.inlineOps t none h
  exact concatenates_isSome cfg _ _ _ _ h1 h2

theorem prettify_ne_none (cfg : PrettyCfg) (t : Tree) (h : NoEmptyOp t = true) :
    prettify cfg t ≠ none := by
  have := prettify_isSome cfg t h
  intro hn; simp [hn] at this

/-- exact success condition: every (nested) chain list is non-empty and does not start with a
stick marker -/
theorem prettify_isSome_iff (cfg : PrettyCfg) (t : Tree) :
    (prettify cfg t).isSome ↔
      (okL (getChains cfg.inlineOps none t) = true ∧
        startsOk (getChains cfg.inlineOps none t) = true) :=
  concatenates_isSome_iff cfg _ _ _ _

/-- the hypothesis is needed: an operation without operands makes the printer fail
(`None.split` in the implementation), for every configuration -/
theorem prettify_empty_op (cfg : PrettyCfg) (k : OpK) (l : Lay) :
    prettify cfg (.op k [] l) = none := by
  have h := prettify_isSome_iff cfg (.op k [] l)
  simp [getChains, getChainsOperands, startsOk] at h
  exact h

/-- … also when it is nested in another operation -/
theorem prettify_nested_empty_op (cfg : PrettyCfg) (l l' : Lay) (x : Tree) :
    prettify cfg (.op .and [x, .op .or [] l'] l) = none := by
  have h := prettify_isSome_iff cfg (.op .and [x, .op .or [] l'] l)
  have hw : (OpK.and.word == OpK.or.word) = false := by decide
  simp [getChains, getChainsOperands, okL_append, hw, startsOk] at h
  cases hp : prettify cfg (.op .and [x, .op .or [] l'] l) with
  | none => rfl
  | some o => simp [hp] at h

/-! ### (4) relation to `str` -/

/-- the chunks of a tree spell `str(tree)` up to blanks and newlines, when the heads / tails below
the walked nodes are blank-only -/
theorem chunks_str (inline : Bool) (t : Tree) (h : BlankLay t = true) :
    (chunks (getChains inline none t)).flatMap squash = squash t.str :=
  chunks_getChains inline t none h

/-- **The printer only changes blanks and newlines** (for trees whose heads / tails are blank-only,
e.g. parsed trees): for every configuration the output equals `str(tree)` up to blanks/newlines. -/
theorem prettify_squash_str (cfg : PrettyCfg) (t : Tree) (out : Str) (h : BlankLay t = true)
    (hp : prettify cfg t = some out) : squash out = squash t.str := by
  rw [prettify_squash cfg t out hp, chunks_str _ t h]

/-- any two configurations agree up to blanks and newlines -/
theorem prettify_squash_any_cfg (cfg cfg' : PrettyCfg) (t : Tree) (out out' : Str)
    (h : BlankLay t = true) (hp : prettify cfg t = some out) (hp' : prettify cfg' t = some out') :
    squash out = squash out' := by
  rw [prettify_squash_str cfg t out h hp, prettify_squash_str cfg' t out' h hp']

/-! ### non-vacuity -/

section examples

private def w (s : String) : Tree := .term .word s.toList {}
private def ex1 : Tree := .op .and [w "a", .group .group (.op .or [w "b", w "c"] {}) {}] {}
/-- a tail that is not blank: dropped by the printer, printed by `str` -/
private def ex2 : Tree := .op .and [.term .word ['a'] { tail := ['x'] }, w "b"] {}

local macro "pretty_eval" : tactic => `(tactic|
  (simp [prettify, getChains, getChainsOperands, opSeparators, OpK.word, concatenates, concatElts,
    applyStick, Chain.countList, Chain.count, splitLines, splitLines.go, joinStr, Tree.str,
    Tree.body, Tree.full, Tree.fulls, joinWith, List.replicate]))

example : prettify {} ex1 = some "a AND ( b OR c )".toList := by unfold ex1 w; pretty_eval
example : prettify { maxLen := 3 } ex1 = some "a\nAND\n(\n    b\n    OR\n    c\n)".toList := by
  unfold ex1 w; pretty_eval
example : prettify { maxLen := 3, inlineOps := true } ex1 = some "a AND\n(\n    b OR\n    c )".toList := by
  unfold ex1 w; pretty_eval
example : chunks (getChains false none ex1)
    = ["a".toList, "AND".toList, "(".toList, "b".toList, "OR".toList, "c".toList, ")".toList] := by
  unfold ex1 w; simp [getChains, getChainsOperands, opSeparators, OpK.word, Tree.str, Tree.body]
example : squash "a AND\n(\n    b OR\n    c )".toList = "aAND(bORc)".toList := by decide
example : NoEmptyOp ex1 = true := by unfold ex1 w; simp [NoEmptyOp, NoEmptyOps]
example : BlankLay ex1 = true := by
  unfold ex1 w; simp [BlankLay, BlankLays, blankHT, Tree.head, Tree.tail, Tree.lay]
example : ex1.str = "aAND(bORc)".toList := by unfold ex1 w; pretty_eval
/-- `BlankLay` is needed in `prettify_squash_str` -/
example : prettify {} ex2 = some "a AND b".toList ∧ ex2.str = "axANDb".toList := by
  unfold ex2 w; constructor <;> pretty_eval
/-- failure with `inline_ops`: a leading stick marker (`NoEmptyOp` fails) … -/
example : prettify { inlineOps := true } (.op .and [.op .and [] {}, w "x"] {}) = none := by
  unfold w; pretty_eval
/-- … while the same tree is printed without `inline_ops`: `NoEmptyOp` is sufficient, not necessary -/
example : prettify {} (.op .and [.op .and [] {}, w "x"] {}) = some "AND x".toList := by
  unfold w; pretty_eval

end examples

/-! ### (5) parse-back: the output is accepted by the parser and parses to an equal tree

  The output of the printer is a *re-layout* of the printed tree: the same token texts, in order,
  where every separator is either kept (inside a chunk printed with `str`; a newline inside such a
  separator is replaced by the join string, which is blank and not empty) or replaced by a non-empty
  blank string (between two chunks: the heads and tails of the nodes the printer walks through are
  dropped, and there is always a join string, a `' '` for a stick marker, between two chunks).
  Definitions and lemmas in `Luqum/Lemmas/PrettySpell{Seg,Join,Tree,Nl}.lean`. -/

section parseback
open Luqum.PSpell
open Luqum.Props.LX (treePieces treeTrail treeGluesOK WsLayout)
open Luqum.Props.Reparse (printable spelled)
open Luqum.Props.C01 (respell noBlankBeforeColon)

export Luqum.PSpell (noNewlineLexemes noNewlineLexemesL LooseL Loose1)

/-- `noNewlineLexemes`: no word, phrase, regex or field name of the tree contains a newline
(finding KF10: `_concatenates` splits every chunk at `\n` and re-joins it with the join string, also
inside a phrase or a regex; a word or a field name of a parsed tree never contains a newline) -/
example (k : TermK) (v n : Str) (e : Tree) (l : Lay) :
    noNewlineLexemes (.term k v l) = !v.contains '\n' ∧
    noNewlineLexemes (.field n e l) = (!n.contains '\n' && noNewlineLexemes e) ∧
    noNewlineLexemes (.group .group e l) = noNewlineLexemes e := ⟨rfl, rfl, rfl⟩

/-- `LooseL ps qs`: `qs` has the token kinds and texts of `ps`, blank separators, and a separator
that is empty in `qs` is empty in `ps` (so a separator of `ps` is kept, or made / replaced by a
non-empty blank one); `Loose1 ps qs`: the same, except that the first separator of `qs` only has to be
blank -/
example (p q : Piece) (ps qs : List Piece) (h1 : p.key = q.key) (h2 : isBlank q.sep = true)
    (h3 : q.sep = [] → p.sep = []) (h : LooseL ps qs) :
    LooseL (p :: ps) (q :: qs) ∧ Loose1 (p :: ps) (q :: qs) :=
  ⟨.cons h1 h2 h3 h, .cons h1 h2 h⟩

/-- **monotonicity of the adjacency condition** (extends `LX.gluesOK_of_seps`): making a separator
non-empty (blank), or replacing a non-empty separator by another non-empty blank one, never breaks
`gluesOK`; the first separator and the (blank) trailing separators do not matter -/
theorem gluesOK_loosen (ps qs : List Piece) (tr tr' : Str) (h : Loose1 ps qs)
    (htr : isBlank tr = true) (htr' : isBlank tr' = true) (hg : gluesOK ps tr = true) :
    gluesOK qs tr' = true := gluesOK_looseL htr htr' h hg

/-- what `_concatenates` returns, exactly enough for re-lexing: the chunks in order, each with its
newlines replaced by non-empty blank strings and preceded by a blank string, and a non-empty blank
string between two consecutive chunks -/
theorem prettify_joined (cfg : PrettyCfg) (t : Tree) (out : Str) (h : prettify cfg t = some out) :
    Joined (chunks (getChains cfg.inlineOps none t)) out :=
  concatenates_joined cfg _ _ _ _ out h

/-- **Structure theorem, on the pieces.** For a tree with a blank layout whose printed token texts
contain no newline, the output of the printer, for every configuration, is the spelling of pieces
that loosen the pieces of `str(tree)` printed with heads and tails (`treePieces .norm t`), with a
blank trailing separator. -/
theorem prettify_spelling_pieces (cfg : PrettyCfg) (t : Tree) (out : Str) (hws : WsLayout t)
    (hnl : ∀ p ∈ treePieces .norm t, '\n' ∉ p.text) (h : prettify cfg t = some out) :
    ∃ ps tr, out = spell ps tr ∧ Loose1 (treePieces .norm t) ps ∧ isBlank tr = true := by
  obtain ⟨Ss, h1, h2⟩ := getChains_lay cfg.inlineOps t none
  have hj := prettify_joined cfg t out h
  rw [h1] at hj
  obtain ⟨Q, hQ, hL, hb⟩ := lay_joined Ss (t.pcs .norm []) out h2
    (LX.tree_seps_blank .norm t hws) hnl hj
  exact ⟨Q.1, Q.2, hQ, hL, hb⟩

/-- **Structure theorem.** The same with the hypothesis on the lexemes of the tree
(`noNewlineLexemes`; the `~…` / `^…` tokens have to be valid token texts, which they are for a parsed
tree). In particular the output has the token kinds and texts of the printed tree, and only blank
separators. -/
theorem prettify_spelling (cfg : PrettyCfg) (t : Tree) (out : Str) (hws : WsLayout t)
    (hnl : noNewlineLexemes t = true) (hnum : validNums .norm t = true)
    (h : prettify cfg t = some out) :
    ∃ ps tr, out = spell ps tr ∧ Loose1 (treePieces .norm t) ps ∧ isBlank tr = true ∧
      ps.map Piece.key = (treePieces .norm t).map Piece.key ∧ (∀ p ∈ ps, isBlank p.sep = true) := by
  obtain ⟨ps, tr, h1, h2, h3⟩ := prettify_spelling_pieces cfg t out hws
    (Tree.pcs_noNl .norm t [] hnl hnum) h
  exact ⟨ps, tr, h1, h2, h3, h2.keys.symm, h2.blank⟩

/-- the adjacency condition passes from the tree to the output of the printer -/
theorem prettify_gluesOK (t : Tree) (ps : List Piece) (tr : Str)
    (hws : WsLayout t) (hL : Loose1 (treePieces .norm t) ps) (htr : isBlank tr = true)
    (hg : treeGluesOK .norm t = true) : gluesOK ps tr = true :=
  gluesOK_loosen _ _ _ _ hL (LX.tree_seps_blank .norm t hws).2 htr hg

/-- **parse-back for any tree** (built by a program or returned by the parser): if the tree has a
blank layout, a `Parseable` re-spelled form, valid token texts and the adjacency condition (the
hypotheses of `Reparse.reparse_printed`), and no newline in a lexeme, then for every configuration the
output of the printer parses, and the result is equal (`==`) to the tree -/
theorem prettify_parse_back_of_tree (cfg : PrettyCfg) (u : Tree) (out : Str) (hws : WsLayout u)
    (hp : C03c.Parseable (respell u) = true)
    (hvalid : ∀ p ∈ treePieces .norm u, validTok p.kind p.text = true)
    (hglue : treeGluesOK .norm u = true)
    (hnl : ∀ p ∈ treePieces .norm u, '\n' ∉ p.text)
    (h : prettify cfg u = some out) :
    ∃ r, parse out = .ok r ∧ r.eqv u = true := by
  obtain ⟨ps, tr, rfl, hL, htr⟩ := prettify_spelling_pieces cfg u out hws hnl h
  have hg := prettify_gluesOK u ps tr hws hL htr hglue
  have hv : ∀ p ∈ ps, validTok p.kind p.text = true := by
    intro p hp'
    have : Piece.key p ∈ (treePieces .norm u).map Piece.key := by
      rw [hL.keys]; exact List.mem_map_of_mem hp'
    obtain ⟨p', hp'', he⟩ := List.mem_map.1 this
    simp only [Piece.key, Prod.mk.injEq] at he
    rw [← he.1, ← he.2]; exact hvalid p' hp''
  have hc := LX.chainOK_of_gluesOK ps tr htr hL.blank hv hg
  obtain ⟨hl, hk⟩ := LX.spelling ps tr htr hL.blank hv hc
  have hk' : (lex (spell ps tr)).1.map tokKey = yield (respell u) := by
    rw [hk]
    have := Reparse.keys_spelled .norm u
    simp only [spelled] at this
    rw [← this, hL.keys]; rfl
  obtain ⟨r, hr, he⟩ := C03c.parse_complete_str (spell ps tr) (respell u) hp hl hk'
  exact ⟨r, hr, C09.eqv_trans _ _ _ he (Reparse.eqv_spelled .norm u)⟩

/-- the same with the decidable hypotheses of `Reparse.reparse_str` (`Reparse.printable`) -/
theorem prettify_parse_back_of_printable (cfg : PrettyCfg) (u : Tree) (out : Str)
    (hpr : printable u = true) (hnl : noNewlineLexemes u = true)
    (h : prettify cfg u = some out) :
    ∃ r, parse out = .ok r ∧ r.eqv u = true := by
  simp only [printable, Bool.and_eq_true] at hpr
  obtain ⟨⟨⟨⟨⟨h1, h2⟩, h3⟩, h4⟩, h5⟩, h6⟩ := hpr
  have hvn := Reparse.validNums_of_numsOK u h4
  exact prettify_parse_back_of_tree cfg u out h1 (Reparse.parseable_respell u h2 h3 h4)
    (Reparse.pieces_valid .norm u h5 hvn) h6 (Tree.pcs_noNl .norm u [] hnl hvn) h

/-- **C18, parse-back clause** (partial). For every parsed query and every printer setting
(`indent`, `max_len`, `inline_ops`), the pretty-printed text is accepted by the parser and parses to a
tree equal (`==`) to the original.

What is missing for the full property (both hypotheses are necessary, see the witnesses below):
* `noBlankBeforeColon` (known findings KF1 + KF8): a blank before the `:` of a search field is lost;
  for a field that is *inside* a chunk printed with `str` (e.g. under `NOT`, `+`, `-`, a boost) the
  name and the value may then lex as one time-like word (`NOT T12 :30` is printed `NOT T12:30`).
  For a field the printer walks through the hypothesis is not needed in fact (`name:` is followed by
  a `' '`), but the tree-level glue condition `Reparse.parse_gluesOK` is only available under it;
* `noNewlineLexemes` (known finding KF10): a newline inside a phrase or a regex is replaced by the
  join string. -/
theorem prettify_parse_back_partial (cfg : PrettyCfg) (q : Str) (t : Tree) (out : Str)
    (hp : parse q = .ok t) (hk : noBlankBeforeColon (lex q).1 = true)
    (hnl : noNewlineLexemes t = true) (h : prettify cfg t = some out) :
    ∃ r, parse out = .ok r ∧ r.eqv t = true :=
  prettify_parse_back_of_printable cfg t out (Reparse.parse_printable q t hp hk) hnl h

/-- a parsed tree has no operand-less operation (it is in canonical form) -/
theorem parse_noEmptyOp (q : Str) (t : Tree) (hp : parse q = .ok t) : NoEmptyOp t = true :=
  canon_noEmptyOp false t (Reparse.parse_canon q t hp)

/-- the printer never fails on a parsed tree -/
theorem prettify_parsed_isSome (cfg : PrettyCfg) (q : Str) (t : Tree) (hp : parse q = .ok t) :
    (prettify cfg t).isSome := prettify_isSome cfg t (parse_noEmptyOp q t hp)

/-- **C18, parse-back clause with totality**: a parsed tree (up to KF1 / KF10) is printed, for every
configuration, and the text parses back to an equal tree -/
theorem prettify_parsed_total (cfg : PrettyCfg) (q : Str) (t : Tree)
    (hp : parse q = .ok t) (hk : noBlankBeforeColon (lex q).1 = true)
    (hnl : noNewlineLexemes t = true) :
    ∃ out r, prettify cfg t = some out ∧ parse out = .ok r ∧ r.eqv t = true := by
  have := prettify_parsed_isSome cfg q t hp
  rw [Option.isSome_iff_exists] at this
  obtain ⟨out, ho⟩ := this
  obtain ⟨r, hr, he⟩ := prettify_parse_back_partial cfg q t out hp hk hnl ho
  exact ⟨out, r, ho, hr, he⟩

end parseback

/-! ### (6) parse-back: non-vacuity and negative witnesses (kernel-checked) -/

section parseback_examples
open Luqum.Props.C01 (noBlankBeforeColon)

/-- nested operations (implicit, AND, OR), a group, a field group, a range, a phrase with a blank,
the boost `2.50` (printed `2.5`), a fuzzy, a field under `NOT` (printed with `str`) -/
private def pbInput : Str :=
  "a  AND (b OR f:(x \"y z\" AND w)) [1 TO  3]^2.50 -c~ NOT g:d".toList

private def pbCfgs : List PrettyCfg :=
  [{}, { maxLen := 10 }, { maxLen := 10, inlineOps := true }, { indent := 2, maxLen := 1 }]

private theorem of_parse_match {q : Str} {t : Tree} {P : Tree → Bool}
    (h : (match parse q with | .ok t => P t | .error _ => false) = true) (hp : parse q = .ok t) :
    P t = true := by
  rw [hp] at h; exact h

/-- the hypotheses of `prettify_parse_back_partial` hold for the input -/
private theorem pbInput_hyps :
    noBlankBeforeColon (lex pbInput).1 = true ∧
    (match parse pbInput with | .ok t => noNewlineLexemes t | .error _ => false) = true := by
  decide +kernel

/-- **non-vacuity**: the theorem applied to the input, for four settings (default; lines broken;
lines broken with inline operators; a narrow width and another indentation) -/
example : ∀ t, parse pbInput = .ok t → ∀ cfg ∈ pbCfgs,
    ∃ out r, prettify cfg t = some out ∧ parse out = .ok r ∧ r.eqv t = true :=
  fun t hp cfg _ => prettify_parsed_total cfg pbInput t hp pbInput_hyps.1
    (of_parse_match pbInput_hyps.2 hp)

/-- what is printed (as the implementation prints it), and, by evaluation, that each text parses
back to an equal tree -/
example :
    (match parse pbInput with
     | .ok t =>
       decide (pbCfgs.map (fun cfg => prettify cfg t) = [
         some "a AND ( b OR f: ( x \"y z\" AND w ) ) [1 TO  3]^2.5 -c~  NOT g:d".toList,
         some ("    a\n    AND\n    (\n        b\n        OR\n        f: (\n            x\n".toList ++
           "                \"y z\"\n                AND\n                w\n        )\n    )\n".toList ++
           "[1 TO  3]^2.5\n-c~ \nNOT g:d".toList),
         some ("    a AND\n    (\n        b OR\n        f: (\n            x     \"y z\" AND\n".toList ++
           "                w ) ) [1 TO  3]^2.5 -c~  NOT g:d".toList),
         some ("  a\n  AND\n  (\n    b\n    OR\n    f: (\n      x\n        \"y z\"\n        AND\n".toList ++
           "        w\n    )\n  )\n[1 TO  3]^2.5\n-c~ \nNOT g:d".toList)]) &&
       pbCfgs.all (fun cfg =>
         match prettify cfg t with
         | some out => (match parse out with | .ok r => r.eqv t | .error _ => false)
         | none => false)
     | .error _ => false) = true := by
  simp only [← PSpell.prettifyK_eq]
  decide +kernel

/-- the structure theorem on the input: the pieces of the narrow output loosen those of the tree
(checked by evaluation on the lexed output: same keys, and only the first separator of the output is
empty where the tree has a non-empty one) -/
example :
    (match parse pbInput with
     | .ok t =>
       (match prettify { maxLen := 10 } t with
        | some out =>
          decide ((piecesOf (lex out).1).map Piece.key = (LX.treePieces .norm t).map Piece.key) &&
          decide (out = spell (piecesOf (lex out).1) (trailOf (lex out).1)) &&
          ((piecesOf (lex out).1).zip (LX.treePieces .norm t)).tail.all
            (fun pq => !pq.1.sep.isEmpty || pq.2.sep.isEmpty)
        | none => false)
     | .error _ => false) = true := by
  simp only [← PSpell.prettifyK_eq]
  decide +kernel

/-- **KF10, negative witness**: `noNewlineLexemes` is needed. The phrase `"a\nb"` is printed
`"a b"` with the default setting (the chunk is split at the newline and re-joined with `' '`): the
text parses, to a different phrase. With a narrow width the join string is a newline and the phrase
survives. -/
example :
    let q := "\"a\nb\" OR c".toList
    noBlankBeforeColon (lex q).1 = true ∧
    (match parse q with
     | .ok t =>
       !noNewlineLexemes t &&
       decide (prettify {} t = some "\"a b\" OR c".toList) &&
       (match parse "\"a b\" OR c".toList with | .ok r => !r.eqv t | .error _ => false) &&
       decide (prettify { maxLen := 1 } t = some "\"a\nb\"\nOR\nc".toList) &&
       (match parse "\"a\nb\"\nOR\nc".toList with | .ok r => r.eqv t | .error _ => false)
     | .error _ => false) = true := by
  simp only [← PSpell.prettifyK_eq]
  decide +kernel

/-- **KF1 + KF8, negative witness**: `noBlankBeforeColon` is needed. In `NOT T12 :30` the field is
inside a chunk printed with `str`, which loses the blank before the `:` (KF1); the output
`NOT T12:30` lexes `T12:30` as one word (KF8), for every setting. -/
example :
    let q := "NOT T12 :30".toList
    noBlankBeforeColon (lex q).1 = false ∧
    (match parse q with
     | .ok t =>
       noNewlineLexemes t &&
       pbCfgs.all (fun cfg =>
         decide (prettify cfg t = some "NOT T12:30".toList)) &&
       (match parse "NOT T12:30".toList with | .ok r => !r.eqv t | .error _ => false)
     | .error _ => false) = true := by
  simp only [← PSpell.prettifyK_eq]
  decide +kernel

/-- ... but the hypothesis is not necessary for a field the printer walks through: `xT30\n:34`
(blank before the `:`; `str` prints `xT30:34`, one word, KF8) is printed `xT30: 34`, which parses
back to an equal tree -/
example :
    let q := "xT30\n:34".toList
    noBlankBeforeColon (lex q).1 = false ∧
    (match parse q with
     | .ok t =>
       decide (t.str = "xT30:34".toList) &&
       (match parse t.str with | .ok r => !r.eqv t | .error _ => false) &&
       pbCfgs.all (fun cfg => decide (prettify cfg t = some "xT30: 34".toList)) &&
       (match parse "xT30: 34".toList with | .ok r => r.eqv t | .error _ => false)
     | .error _ => false) = true := by
  simp only [← PSpell.prettifyK_eq]
  decide +kernel

/-- a tree built by hand (not a parse result) to which `prettify_parse_back_of_printable` applies;
heads and tails of the walked nodes are dropped by the printer, those inside a chunk printed with `str`
(the blank before `b`) are kept -/
private def pbTree : Tree :=
  .op .and [
    .term .word "a".toList { head := " ".toList, tail := "  ".toList },
    .group .group (.op .or [
      .term .phrase "\"x y\"".toList { tail := " ".toList },
      .boost (.term .word "b".toList { head := " ".toList })
        { val := { coeff := 25, exp := -1 }, raw := "2.50".toList } {}] { head := "\n".toList })
      { head := " ".toList, tail := "\t".toList }] {}

example : ∀ cfg out, prettify cfg pbTree = some out → ∃ r, parse out = .ok r ∧ r.eqv pbTree = true :=
  fun cfg out h => prettify_parse_back_of_printable cfg pbTree out (by decide +kernel)
    (by decide +kernel) h

example : pbTree.strHT = " a  AND (\n\"x y\" OR b^2.5)\t".toList ∧
    prettify {} pbTree = some "a AND ( \"x y\" OR  b^2.5 )".toList ∧
    prettify { maxLen := 5 } pbTree = some "a\nAND\n(\n    \"x y\"\n    OR\n     b^2.5\n)".toList := by
  simp only [← PSpell.prettifyK_eq]
  decide +kernel

end parseback_examples

end Luqum.Props.C18
