import Luqum.Model.Pretty
namespace Luqum.Props.C18
open Luqum
theorem pretty_word (cfg : PrettyCfg) (v : Str) (l : Lay) (h : ¬ v.contains '\n') :
    (getChains cfg.inlineOps none (.term .word v l)) = [Chain.str v] := rfl
end Luqum.Props.C18
