/-
  C03c — completeness of the parser (C03, direction grammar ⇒ parser): every token sequence that
  spells a tree of the class `Parseable` (canonical form w.r.t. the precedence rules, texts and
  numerals as the lexer and the semantic actions produce them) is accepted, and the tree returned is
  equal (`==`) to that tree.

  Like the soundness direction (C03), this depends on how PLY resolved the conflicts of the grammar,
  i.e. on the generated LALR tables: `tools/complcert.py` computes a certificate
  (Luqum/Generated/Compl.lean), the checker `complOK` re-checks it in the kernel (`compl_ok`), and the
  checker is proved sound for arbitrary tables and certificates (`run_complete`; the lemmas are in
  Luqum/Lemmas/Compl*.lean).
-/
import Luqum.Model.ParserInst
import Luqum.Generated.Compl
import Luqum.Lemmas.ComplMain
import Luqum.Lemmas.ComplCert
import Luqum.Lemmas.ComplConvRun
import Luqum.Props.C03

namespace Luqum.Props.C03c
open Luqum Luqum.Compl

/- the class of trees, the certificate checker (Luqum.Lemmas.ComplDefs) -/
export Luqum.Compl (Parseable TextOK numOK complOK)

/-- `Parseable` spelled out: the canonical form of C03 (precedence shape), and `TextOK`: a word is
not `AND` / `OR` / `NOT`, and is `TO` only where the grammar has `p_to_as_term` (not under `~`, `<`,
`>`, nor as a range bound); field names are not reserved words; for every `~` / `^` the conversion
of the spelled numeral (`decNum` / `intNum` on `Num.source`, the default when there is none) succeeds
and gives the stored value back up to `Dec.numEq` -/
theorem parseable_iff (t : Tree) : Parseable t = true ↔ C03.Canon t = true ∧ TextOK t = true := by
  rw [C03.canon_eq]
  simp [Parseable]

/-! ### generic soundness of the checker -/

/-- **generic soundness of the checker**: for ARBITRARY tables `T` and certificate `(R, G)` accepted by
`complOK`, the LALR driver, started in the initial configuration on any token sequence whose kinds
and texts are the yield of a `Parseable` tree `t`, accepts with an item equal to `t` -/
theorem run_complete (T : Tables) (R : List (Nat × String)) (G : List Nat)
    (hC : complOK T R G = true)
    (t : Tree) (toks : List Tok) (hp : Parseable t = true) (hk : toks.map tokKey = yield t) :
    ∃ t' fuel, runLoop T fuel { states := [0], vals := [] } toks none = .ok (.item t') ∧
      t'.eqv t = true := by
  simp only [complOK, Bool.and_eq_true, List.all_eq_true] at hC
  obtain ⟨⟨⟨hR, hG⟩, hstart⟩, hacc⟩ := hC
  simp only [Parseable, Bool.and_eq_true] at hp
  obtain ⟨e, t', he, hc, hrun⟩ := (goals hR hG t hp.2).expr hp.1 0 "$end" hstart toks hk [] [] [] rfl
  simp only [chkAccept, Option.any_eq_true, beq_iff_eq] at hacc
  obtain ⟨e', he', hact⟩ := hacc
  rw [actF_eq] at hact
  rw [he] at he'; cases he'
  have hstep : step T { states := [e, 0], vals := [.item t'] } ([] : List Tok).head? = .accept (.item t') := by
    rw [step_eq]
    simp [lookName, hact]
  rw [List.append_nil] at hrun
  obtain ⟨fuel, hf⟩ := hrun.runLoop hstep
  exact ⟨t', fuel, hf, (C09.eqv_iff_content t' t).2 hc⟩

/-! ### the certificate for the generated tables -/

/-- **kernel-checked**: the certificate computed by `tools/complcert.py` is closed for the generated
LALR tables (the evaluation is in Luqum/Lemmas/ComplCert.lean) -/
theorem compl_ok : complOK tables Generated.complRU Generated.complG = true :=
  Luqum.Compl.compl_cert_ok

/-! ### completeness of `parse` -/

/-- **C03 (completeness, token level)**: the parser accepts every token sequence (whatever the
heads, tails and positions of the tokens) whose kinds and texts spell a `Parseable` tree, with the
fuel `parse` gives to the driver, and returns a tree equal to it -/
theorem parse_complete (t : Tree) (toks : List Tok) (hp : Parseable t = true)
    (hk : toks.map tokKey = yield t) :
    ∃ t', runLoop tables (parseFuel toks.length) { states := [0], vals := [] } toks none
        = .ok (.item t') ∧ t'.eqv t = true := by
  obtain ⟨t', fuel, hrun, he⟩ := run_complete tables _ _ compl_ok t toks hp hk
  refine ⟨t', ?_, he⟩
  have h1 := runLoop_more_fuel toks none fuel
  have h2 := runLoop_fuel_mono tables fuel (parseFuel toks.length) { states := [0], vals := [] } toks none
    (by rw [hrun]; simp)
  rw [Nat.add_comm] at h2
  rw [← h1, h2, hrun]

/-- **C03 (completeness)**: if a string has no illegal character and its token sequence (kinds and
texts) is the yield of a `Parseable` tree `t`, then `parse` succeeds on it with a tree equal to `t` -/
theorem parse_complete_str (s : Str) (t : Tree) (hp : Parseable t = true)
    (hl : (lex s).2 = none) (hk : (lex s).1.map tokKey = yield t) :
    ∃ t', parse s = .ok t' ∧ t'.eqv t = true := by
  obtain ⟨t', hrun, he⟩ := parse_complete t (lex s).1 hp hk
  refine ⟨t', ?_, he⟩
  unfold parse parseWith
  simp only
  rw [hl, hrun]

/-- the token-level statement with a (superfluous) well-formedness hypothesis on the tokens: kinds
consistent with texts, TERM lexemes not reserved -/
def ToksWF' (toks : List Tok) : Prop := ∀ t ∈ toks, tokOK t.kind t.text ∧ t.termClean

theorem parse_complete_wf (t : Tree) (toks : List Tok) (hp : Parseable t = true)
    (hk : toks.map tokKey = yield t) (_ : ToksWF' toks) :
    ∃ t', runLoop tables (parseFuel toks.length) { states := [0], vals := [] } toks none
        = .ok (.item t') ∧ t'.eqv t = true :=
  parse_complete t toks hp hk

/-! ### the converse: `Parseable` is exactly the image of the parser -/

/-- **every tree returned by the parser is `Parseable`** (canonical form: `C03.parse_canon`; texts
and numerals: `Luqum.Compl.parse_textOK`) -/
theorem parse_parseable (s : Str) (t : Tree) (h : parse s = .ok t) : Parseable t = true := by
  have hc := C03.parse_canon s t h
  rw [C03.canon_eq] at hc
  simp [Parseable, hc, parse_textOK s t h]

/-- soundness half: a parse result is `Parseable` and spells the tokens of the input -/
theorem parse_sound (s : Str) (t : Tree) (h : parse s = .ok t) :
    Parseable t = true ∧ (lex s).2 = none ∧ (lex s).1.map tokKey = yield t :=
  ⟨parse_parseable s t h, C01.parse_ok_no_lexErr s t h, Luqum.parse_yield s t h⟩

/-- **the image of the parser**: every parse result is `Parseable` (`parse_parseable`), and a
`Parseable` tree is equal (`==`) to a parse result with the same yield exactly when its yield can be
lexed -/
theorem parse_image (t : Tree) (hp : Parseable t = true) :
    (∃ s t', parse s = .ok t' ∧ t'.eqv t = true ∧ yield t' = yield t) ↔
    (∃ s, (lex s).2 = none ∧ (lex s).1.map tokKey = yield t) := by
  constructor
  · rintro ⟨s, t', h, _, hy⟩
    obtain ⟨_, hl, hk⟩ := parse_sound s t' h
    exact ⟨s, hl, by rw [hk, hy]⟩
  · rintro ⟨s, hl, hk⟩
    obtain ⟨t', h, he⟩ := parse_complete_str s t hp hl hk
    exact ⟨s, t', h, he, by rw [← Luqum.parse_yield s t' h, hk]⟩

/-! ### witnesses -/

private def w (s : String) : Tree := .term .word s.toList {}
private def ph (s : String) : Tree := .term .phrase s.toList {}

/-- a tree with AND, OR, the implicit operation, `+`, `-`, NOT, a field, a field group, a group, a
range, a fuzzy, a proximity, boosts, `>=`, `<`, a regex and `TO` as a term -/
def sample : Tree :=
  .op .unk [
    .op .or [
      .op .and [w "a", .unary .not (w "b") {}] {},
      .unary .plus (.boost (.approx .fuzzy (w "c") { val := fuzzyDflt, implicit := true } {})
        { val := { coeff := 2 }, raw := ['2'] } {}) {}] {},
    .unary .prohibit (.field "f".toList (.group .fieldGroup (.op .unk [w "x", ph "\"y z\""] {}) {}) {}) {},
    .group .group (.range (.unary .prohibit (w "1") {}) (ph "\"9\"") true false {}) {},
    .approx .proximity (ph "\"p q\"") { val := { coeff := 3 }, raw := ['3'] } {},
    .boost (.orange .from (w "5") true {}) { val := { coeff := 25, exp := -1 }, raw := "2.50".toList } {},
    .orange .to (w "6") false {},
    .term .regex "/re/".toList {},
    w "TO"] {}

def sampleText : String := "a AND NOT b OR +c~^2 -f:(x \"y z\") ([-1 TO \"9\"}) \"p q\"~3 >=5^2.50 <6 /re/ TO"

/-- non-vacuity: the sample tree is `Parseable` -/
example : Parseable sample = true := by decide +kernel

/-- ... its yield is the token sequence of the sample text (which has no illegal character) -/
example : (lex sampleText.toList).2 = none ∧ (lex sampleText.toList).1.map tokKey = yield sample := by
  decide +kernel

/-- ... so the sample text parses to a tree equal to the sample (by the theorem) -/
example : ∃ t', parse sampleText.toList = .ok t' ∧ t'.eqv sample = true :=
  parse_complete_str _ _ (by decide +kernel) (by decide +kernel) (by decide +kernel)

/-- cross-check by evaluation -/
example : (match parse sampleText.toList with | .ok t' => t'.eqv sample | .error _ => false) = true := by
  decide +kernel

/-- the checker is not trivially true: it rejects the empty certificate -/
example : complOK tables [] [] = false := by decide +kernel

/-- the hypotheses are needed. Canonical form: `a AND (b OR c)` without the parentheses has the
yield of `(a AND b) OR c`, which is what the parser returns -/
example :
    let t : Tree := .op .and [w "a", .op .or [w "b", w "c"] {}] {}
    CanonAt false t = false ∧ TextOK t = true ∧
    (match parse "a AND b OR c".toList with
     | .ok t' => decide ((lex "a AND b OR c".toList).1.map tokKey = yield t) && !t'.eqv t
     | .error _ => false) = true := by decide +kernel

/-- texts: a fuzzy `TO` is canonical, but `TO~` is a syntax error -/
example :
    let t : Tree := .approx .fuzzy (w "TO") { val := fuzzyDflt, implicit := true } {}
    CanonAt false t = true ∧ TextOK t = false ∧
    (lex "TO~".toList).1.map tokKey = yield t ∧
    (match parse "TO~".toList with
     | .error e => decide (e = .syntaxAt [] 2)
     | .ok _ => false) = true := by decide +kernel

/-- numerals: a force whose spelling is not a number -/
example :
    let t : Tree := .boost (w "a") { val := { coeff := 1 }, raw := "1.2.3".toList } {}
    CanonAt false t = true ∧ TextOK t = false ∧
    (lex "a^1.2.3".toList).1.map tokKey = yield t ∧
    (match parse "a^1.2.3".toList with
     | .error e => decide (e = .badNumber "1.2.3".toList 1)
     | .ok _ => false) = true := by decide +kernel

/-- numerals: a stored value that is not the value of the spelling -/
example :
    let t : Tree := .boost (w "a") { val := { coeff := 3 }, raw := ['2'] } {}
    CanonAt false t = true ∧ TextOK t = false ∧
    (match parse "a^2".toList with
     | .ok t' => decide ((lex "a^2".toList).1.map tokKey = yield t) && !t'.eqv t
     | .error _ => false) = true := by decide +kernel

end Luqum.Props.C03c
