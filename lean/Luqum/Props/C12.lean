import Luqum.Model.Transform
namespace Luqum.Props.C12
open Luqum
theorem openRange_term (m : Bool) (h : Str) (k : TermK) (v : Str) (l : Lay) :
    openRange m h (.term k v l) = .term k v l.noName := rfl
end Luqum.Props.C12
