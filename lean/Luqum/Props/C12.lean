/-
  C12 — OpenRangeTransformer: every open range (`>a`, `<=b`) becomes a bracketed range with `*` on
  the other side and nothing else changes; with `merge_ranges`, one-sided ranges that are operands of
  the same AND are joined pairwise, which preserves the conjunction of the operands.
  Property theorems only; the loop invariant and the `List.modify` lemmas are in
  `Luqum.Lemmas.Merge`.
-/
import Luqum.Model.Transform
import Luqum.Lemmas.Merge

namespace Luqum.Props.C12
open Luqum

/-! ### vocabulary -/

mutual
/-- is there a `From` / `To` node anywhere in the tree? -/
def hasOrange : Tree → Bool
  | .term .. => false
  | .none _ => false
  | .field _ e _ => hasOrange e
  | .group _ e _ => hasOrange e
  | .approx _ e _ _ => hasOrange e
  | .boost e _ _ => hasOrange e
  | .unary _ e _ => hasOrange e
  | .range a b _ _ _ => hasOrange a || hasOrange b
  | .orange .. => true
  | .op _ xs _ => hasOranges xs
def hasOranges : List Tree → Bool
  | [] => false
  | x :: r => hasOrange x || hasOranges r
end

mutual
/-- is there an `AndOperation` node anywhere in the tree? -/
def hasAnd : Tree → Bool
  | .term .. => false
  | .none _ => false
  | .field _ e _ => hasAnd e
  | .group _ e _ => hasAnd e
  | .approx _ e _ _ => hasAnd e
  | .boost e _ _ => hasAnd e
  | .unary _ e _ => hasAnd e
  | .range a b _ _ _ => hasAnd a || hasAnd b
  | .orange _ e _ _ => hasAnd e
  | .op k xs _ => k == .and || hasAnds xs
def hasAnds : List Tree → Bool
  | [] => false
  | x :: r => hasAnd x || hasAnds r
end

/-- the word `*` with the given layout -/
def star (l : Lay) : Tree := .term .word ['*'] l

mutual
/-- **Specification** of `OpenRangeTransformer(merge_ranges=False, add_head=h)`: `>a` / `>=a` becomes
`{a TO *]` / `[a TO *]`, `<b` / `<=b` becomes `[* TO b}` / `[* TO b]`, with `h` on both sides of
`TO`; every other node is kept (attached names are dropped, as in every `TreeTransformer`). -/
def convert (h : Str) : Tree → Tree
  | .term k v l => .term k v l.noName
  | .none l => .none l.noName
  | .field n e l => .field n (convert h e) l.noName
  | .group k e l => .group k (convert h e) l.noName
  | .approx k e n l => .approx k (convert h e) n l.noName
  | .boost e n l => .boost (convert h e) n l.noName
  | .unary k e l => .unary k (convert h e) l.noName
  | .range a b il ih l => .range (convert h a) (convert h b) il ih l.noName
  | .orange .from e inc l =>
    .range ((convert h e).setTail ((convert h e).tail ++ h)) (star { head := h }) inc true l.noName
  | .orange .to e inc l =>
    .range (star { tail := h }) ((convert h e).setHead ((convert h e).head ++ h)) true inc l.noName
  | .op k xs l => .op k (converts h xs) l.noName
def converts (h : Str) : List Tree → List Tree
  | [] => []
  | x :: r => convert h x :: converts h r
end

/-! ### 1. without merging: the specification -/

mutual
/-- **Without `merge_ranges` the transformer is `convert`.** -/
theorem openRange_noMerge_spec (h : Str) : ∀ t : Tree, openRange false h t = convert h t
  | .term .. => rfl
  | .none _ => rfl
  | .field _ e _ => by simp [openRange, convert, openRange_noMerge_spec h e]
  | .group _ e _ => by simp [openRange, convert, openRange_noMerge_spec h e]
  | .approx _ e _ _ => by simp [openRange, convert, openRange_noMerge_spec h e]
  | .boost e _ _ => by simp [openRange, convert, openRange_noMerge_spec h e]
  | .unary _ e _ => by simp [openRange, convert, openRange_noMerge_spec h e]
  | .range a b _ _ _ => by
      simp [openRange, convert, openRange_noMerge_spec h a, openRange_noMerge_spec h b]
  | .orange .from e _ _ => by
      simp [openRange, convert, openRange_noMerge_spec h e, star, wildcardWord, Tree.setHead,
        Tree.setLay, Tree.lay]
  | .orange .to e _ _ => by
      simp [openRange, convert, openRange_noMerge_spec h e, star, wildcardWord, Tree.setTail,
        Tree.setLay, Tree.lay]
  | .op _ xs _ => by simp [openRange, convert, openRangeList_noMerge_spec h xs]
theorem openRangeList_noMerge_spec (h : Str) :
    ∀ xs : List Tree, openRangeList false h xs = converts h xs
  | [] => rfl
  | x :: r => by
      simp [openRangeList, converts, openRange_noMerge_spec h x, openRangeList_noMerge_spec h r]
end

/-- `price:>=10 OR <x` with `add_head = " "` -/
example :
    openRange false [' ']
      (.op .or [.field ['p'] (.orange .from (.term .word ['1', '0'] {}) true {}) { tail := [' '] },
                .orange .to (.term .word ['x'] {}) false { head := [' '] }] { name := some ['n'] })
    = .op .or [.field ['p'] (.range (.term .word ['1', '0'] { tail := [' '] })
                                    (.term .word ['*'] { head := [' '] }) true true {}) { tail := [' '] },
               .range (.term .word ['*'] { tail := [' '] })
                      (.term .word ['x'] { head := [' '] }) true false { head := [' '] }] {} := rfl

/-! ### no open range is left -/

theorem hasOrange_setLay (t : Tree) (l : Lay) : hasOrange (t.setLay l) = hasOrange t := by
  cases t <;> simp [Tree.setLay, hasOrange]

theorem hasOranges_eq_false : ∀ xs : List Tree,
    hasOranges xs = false ↔ ∀ t ∈ xs, hasOrange t = false
  | [] => by simp [hasOranges]
  | x :: r => by simp [hasOranges, hasOranges_eq_false r]

theorem isWildcard_no_orange {t : Tree} (h : isWildcard t = true) : hasOrange t = false := by
  cases t <;> simp [isWildcard] at h <;> simp [hasOrange]

/-- joining two one-sided ranges neither introduces nor loses an open range -/
theorem joinConj_hasOrange : JoinConj (fun t => hasOrange t = false) := by
  apply joinConj_of_ranges
  · intro lo hi il ih l clo chi cil cih cl h1 _ _ h4
    simp [hasOrange, isWildcard_no_orange h1, isWildcard_no_orange h4, and_comm]
  · intro lo hi il ih l clo chi cil cih cl _ h2 h3 _
    simp [hasOrange, isWildcard_no_orange h2, isWildcard_no_orange h3]

/-- the merge loop keeps a list of operands free of open ranges (and conversely) -/
theorem mergeOps_hasOranges (xs : List Tree) : hasOranges (mergeOps xs) = hasOranges xs := by
  have h := mergeOps_conj_of_joinConj _ joinConj_hasOrange xs
  rw [← hasOranges_eq_false, ← hasOranges_eq_false] at h
  cases h1 : hasOranges (mergeOps xs) <;> cases h2 : hasOranges xs <;> simp_all

mutual
/-- **No `From` / `To` node is left**, with or without merging. -/
theorem no_orange_left (m : Bool) (h : Str) : ∀ t : Tree, hasOrange (openRange m h t) = false
  | .term .. => by simp [openRange, hasOrange]
  | .none _ => by simp [openRange, hasOrange]
  | .field _ e _ => by simp [openRange, hasOrange, no_orange_left m h e]
  | .group _ e _ => by simp [openRange, hasOrange, no_orange_left m h e]
  | .approx _ e _ _ => by simp [openRange, hasOrange, no_orange_left m h e]
  | .boost e _ _ => by simp [openRange, hasOrange, no_orange_left m h e]
  | .unary _ e _ => by simp [openRange, hasOrange, no_orange_left m h e]
  | .range a b _ _ _ => by simp [openRange, hasOrange, no_orange_left m h a, no_orange_left m h b]
  | .orange .from e _ _ => by
      simp [openRange, hasOrange, Tree.setTail, Tree.setHead, hasOrange_setLay,
        no_orange_left m h e, wildcardWord]
  | .orange .to e _ _ => by
      simp [openRange, hasOrange, Tree.setTail, Tree.setHead, hasOrange_setLay,
        no_orange_left m h e, wildcardWord]
  | .op k xs _ => by
      simp only [openRange]
      split
      · simp [hasOrange, mergeOps_hasOranges, no_oranges_left m h xs]
      · simp [hasOrange, no_oranges_left m h xs]
theorem no_oranges_left (m : Bool) (h : Str) :
    ∀ xs : List Tree, hasOranges (openRangeList m h xs) = false
  | [] => by simp [openRangeList, hasOranges]
  | x :: r => by simp [openRangeList, hasOranges, no_orange_left m h x, no_oranges_left m h r]
end

example : hasOrange (.op .and [.orange .from (.term .word ['a'] {}) true {},
    .group .group (.orange .to (.term .word ['b'] {}) false {}) {}] {}) = true := rfl

/-! ### everything else is copied -/

mutual
/-- **A tree without open ranges is just copied** (`merge_ranges=False`). -/
theorem openRange_noMerge_copy (h : Str) :
    ∀ t : Tree, hasOrange t = false → openRange false h t = t.copy
  | .term .., _ => rfl
  | .none _, _ => rfl
  | .field _ e _, hh => by
      simp [hasOrange] at hh; simp [openRange, Tree.copy, openRange_noMerge_copy h e hh]
  | .group _ e _, hh => by
      simp [hasOrange] at hh; simp [openRange, Tree.copy, openRange_noMerge_copy h e hh]
  | .approx _ e _ _, hh => by
      simp [hasOrange] at hh; simp [openRange, Tree.copy, openRange_noMerge_copy h e hh]
  | .boost e _ _, hh => by
      simp [hasOrange] at hh; simp [openRange, Tree.copy, openRange_noMerge_copy h e hh]
  | .unary _ e _, hh => by
      simp [hasOrange] at hh; simp [openRange, Tree.copy, openRange_noMerge_copy h e hh]
  | .range a b _ _ _, hh => by
      simp [hasOrange] at hh
      simp [openRange, Tree.copy, openRange_noMerge_copy h a hh.1, openRange_noMerge_copy h b hh.2]
  | .orange .., hh => by simp [hasOrange] at hh
  | .op _ xs _, hh => by
      simp [hasOrange] at hh; simp [openRange, Tree.copy, openRangeList_noMerge_copy h xs hh]
theorem openRangeList_noMerge_copy (h : Str) :
    ∀ xs : List Tree, hasOranges xs = false → openRangeList false h xs = Tree.copies xs
  | [], _ => rfl
  | x :: r, hh => by
      simp [hasOranges] at hh
      simp [openRangeList, Tree.copies, openRange_noMerge_copy h x hh.1,
        openRangeList_noMerge_copy h r hh.2]
end

mutual
/-- **Ranges that are not operands of an AND are never merged**: on a tree without `AndOperation`
the two modes agree. -/
theorem openRange_merge_eq_noMerge (h : Str) :
    ∀ t : Tree, hasAnd t = false → openRange true h t = openRange false h t
  | .term .., _ => rfl
  | .none _, _ => rfl
  | .field _ e _, hh => by
      simp [hasAnd] at hh; simp [openRange, openRange_merge_eq_noMerge h e hh]
  | .group _ e _, hh => by
      simp [hasAnd] at hh; simp [openRange, openRange_merge_eq_noMerge h e hh]
  | .approx _ e _ _, hh => by
      simp [hasAnd] at hh; simp [openRange, openRange_merge_eq_noMerge h e hh]
  | .boost e _ _, hh => by
      simp [hasAnd] at hh; simp [openRange, openRange_merge_eq_noMerge h e hh]
  | .unary _ e _, hh => by
      simp [hasAnd] at hh; simp [openRange, openRange_merge_eq_noMerge h e hh]
  | .range a b _ _ _, hh => by
      simp [hasAnd] at hh
      simp [openRange, openRange_merge_eq_noMerge h a hh.1, openRange_merge_eq_noMerge h b hh.2]
  | .orange .from e _ _, hh => by
      simp [hasAnd] at hh; simp [openRange, openRange_merge_eq_noMerge h e hh]
  | .orange .to e _ _, hh => by
      simp [hasAnd] at hh; simp [openRange, openRange_merge_eq_noMerge h e hh]
  | .op k xs _, hh => by
      simp [hasAnd] at hh
      simp [openRange, hh.1, openRangeList_merge_eq_noMerge h xs hh.2]
theorem openRangeList_merge_eq_noMerge (h : Str) :
    ∀ xs : List Tree, hasAnds xs = false → openRangeList true h xs = openRangeList false h xs
  | [], _ => rfl
  | x :: r, hh => by
      simp [hasAnds] at hh
      simp [openRangeList, openRange_merge_eq_noMerge h x hh.1,
        openRangeList_merge_eq_noMerge h r hh.2]
end

/-- `[a TO *] OR [* TO b]` is not merged -/
example :
    openRange true []
      (.op .or [.range (.term .word ['a'] {}) (star {}) true true {},
                .range (star {}) (.term .word ['b'] {}) true true {}] {})
    = .op .or [.range (.term .word ['a'] {}) (star {}) true true {},
               .range (star {}) (.term .word ['b'] {}) true true {}] {} := rfl

/-- **With `merge_ranges`, a tree with neither open ranges nor AND operations is just copied.** -/
theorem openRange_merge_copy (h : Str) (t : Tree) (h1 : hasOrange t = false) (h2 : hasAnd t = false) :
    openRange true h t = t.copy := by
  rw [openRange_merge_eq_noMerge h t h2, openRange_noMerge_copy h t h1]

/-- … and in general it is `convert` as long as there is no AND operation -/
theorem openRange_merge_spec (h : Str) (t : Tree) (h2 : hasAnd t = false) :
    openRange true h t = convert h t := by
  rw [openRange_merge_eq_noMerge h t h2, openRange_noMerge_spec]

/-- on an AND operation: transform the operands, then run the merge loop over them -/
theorem openRange_merge_and (h : Str) (xs : List Tree) (l : Lay) :
    openRange true h (.op .and xs l) = .op .and (mergeOps (openRangeList true h xs)) l.noName := rfl

/-! ### 2. merging preserves the conjunction -/

section Sem
variable {V : Type} [LE V] [LT V]

/-- lower bound `lo` (inclusive iff `il`) under the bound valuation `ι`; `none` = unbounded (`*`) -/
def lowerOk (ι : Tree → Option V) (lo : Tree) (il : Bool) (x : V) : Prop :=
  match ι lo with
  | none => True
  | some a => if il then a ≤ x else a < x

def upperOk (ι : Tree → Option V) (hi : Tree) (ih : Bool) (x : V) : Prop :=
  match ι hi with
  | none => True
  | some b => if ih then x ≤ b else x < b

/-- Does the value `x` satisfy the operand `t`? A range is read over the ordered type `V` through
the bound valuation `ι` (its own layout plays no role); any other operand through an arbitrary `P`. -/
def sat (ι : Tree → Option V) (P : Tree → V → Prop) : Tree → V → Prop
  | .range lo hi il ih _, x => lowerOk ι lo il x ∧ upperOk ι hi ih x
  | t, x => P t x

/-- joining `[* TO b]` with `[a TO *]` (in either order) is their conjunction, as soon as the
valuation reads `*` as "unbounded" -/
theorem joinConj_sat (ι : Tree → Option V) (P : Tree → V → Prop)
    (hι : ∀ b, isWildcard b = true → ι b = none) (x : V) : JoinConj (fun t => sat ι P t x) := by
  apply joinConj_of_ranges
  · intro lo hi il ih l clo chi cil cih cl h1 _ _ h4
    simp [sat, lowerOk, upperOk, hι lo h1, hι chi h4, and_comm]
  · intro lo hi il ih l clo chi cil cih cl _ h2 h3 _
    simp [sat, lowerOk, upperOk, hι hi h2, hι clo h3]

/-- **Merging preserves the conjunction of the operands**: a value satisfies every operand of the
merged list iff it satisfies every original operand -- for every ordered value type, every reading of
the non-range operands, and every reading of the bounds in which `*` means "unbounded". -/
theorem mergeOps_conj (ι : Tree → Option V) (P : Tree → V → Prop)
    (hι : ∀ b, isWildcard b = true → ι b = none) (xs : List Tree) (x : V) :
    (∀ t ∈ mergeOps xs, sat ι P t x) ↔ (∀ t ∈ xs, sat ι P t x) :=
  mergeOps_conj_of_joinConj _ (joinConj_sat ι P hι x) xs

/-- any reading of the bounds, corrected to read `*` as "unbounded" -/
def starAware (ι : Tree → Option V) : Tree → Option V :=
  fun b => if isWildcard b then none else ι b

theorem mergeOps_conj_starAware (ι : Tree → Option V) (P : Tree → V → Prop) (xs : List Tree) (x : V) :
    (∀ t ∈ mergeOps xs, sat (starAware ι) P t x) ↔ (∀ t ∈ xs, sat (starAware ι) P t x) :=
  mergeOps_conj _ P (fun b hb => by simp [starAware, hb]) xs x

/-- `sat` only looks at the valuation of the bounds of the operand -/
theorem sat_starAware (ι : Tree → Option V) (P : Tree → V → Prop) (t : Tree) (x : V)
    (h : ∀ b ∈ boundsOf t, isWildcard b = true → ι b = none) :
    sat (starAware ι) P t x ↔ sat ι P t x := by
  cases t <;> try exact Iff.rfl
  rename_i lo hi il ih l
  have h1 : starAware ι lo = ι lo := by
    cases hw : isWildcard lo <;> simp [starAware, hw]
    exact (h lo (by simp [boundsOf]) hw).symm
  have h2 : starAware ι hi = ι hi := by
    cases hw : isWildcard hi <;> simp [starAware, hw]
    exact (h hi (by simp [boundsOf]) hw).symm
  simp [sat, lowerOk, upperOk, h1, h2]

/-- `mergeOps_conj` with the hypothesis on the valuation restricted to the bounds that occur in the
operands -/
theorem mergeOps_conj_local (ι : Tree → Option V) (P : Tree → V → Prop) (xs : List Tree)
    (hι : ∀ t ∈ xs, ∀ b ∈ boundsOf t, isWildcard b = true → ι b = none) (x : V) :
    (∀ t ∈ mergeOps xs, sat ι P t x) ↔ (∀ t ∈ xs, sat ι P t x) := by
  have hι' := mergeOps_all (fun t => ∀ b ∈ boundsOf t, isWildcard b = true → ι b = none)
    (fun a c cs ha hc => boundsOf_joinRange _ a c cs ha hc) xs hι
  have h := mergeOps_conj_starAware ι P xs x
  constructor
  · intro hm t ht
    exact (sat_starAware ι P t x (hι t ht)).1
      (h.1 (fun u hu => (sat_starAware ι P u x (hι' u hu)).2 (hm u hu)) t ht)
  · intro hx t ht
    exact (sat_starAware ι P t x (hι' t ht)).1
      (h.2 (fun u hu => (sat_starAware ι P u x (hι u hu)).2 (hx u hu)) t ht)

/-- the same, for the operands of a transformed AND operation -/
theorem openRange_and_conj (ι : Tree → Option V) (P : Tree → V → Prop)
    (hι : ∀ b, isWildcard b = true → ι b = none) (h : Str) (xs : List Tree) (l : Lay) (x : V) :
    (∀ t ∈ (openRange true h (.op .and xs l)).children, sat ι P t x) ↔
      (∀ t ∈ openRangeList true h xs, sat ι P t x) :=
  mergeOps_conj ι P hι _ x

end Sem

/-- `[a TO *] AND [b TO *] AND w AND [* TO y} AND [* TO z]  ->  [a TO y} AND [b TO z] AND w`
(the example of the docstring, with another operand in between) -/
example :
    mergeOps [.range (.term .word ['a'] {}) (star {}) true true { head := ['1'] },
              .range (.term .word ['b'] {}) (star {}) false true { head := ['2'] },
              .term .word ['w'] {},
              .range (star {}) (.term .word ['y'] {}) true false { head := ['3'] },
              .range (star {}) (.term .word ['z'] {}) true true { head := ['4'] }]
    = [.range (.term .word ['a'] {}) (.term .word ['y'] {}) true false { head := ['1'] },
       .range (.term .word ['b'] {}) (.term .word ['z'] {}) false true { head := ['2'] },
       .term .word ['w'] {}] := rfl

/-- a reading of one-character bounds as integers -/
def charVal : Tree → Option Int
  | .term .word [c] _ => if c = '*' then none else some (Int.ofNat c.toNat)
  | _ => none

/-- `{a TO c]` holds of `'b'` and of `'c'`, not of `'a'` -/
example : sat charVal (fun _ _ => False)
    (.range (.term .word ['a'] {}) (.term .word ['c'] {}) false true {}) 98 := by
  simp [sat, lowerOk, upperOk, charVal]
example : ¬ sat charVal (fun _ _ => False)
    (.range (.term .word ['a'] {}) (.term .word ['c'] {}) false true {}) 97 := by
  simp [sat, lowerOk, upperOk, charVal]

/-! ### what the merge loop does to the operand list -/

/-- **No one-sided range among the operands: nothing happens.** -/
theorem mergeOps_noSide (xs : List Tree) (h : ∀ t ∈ xs, boundSide t = none) : mergeOps xs = xs := by
  unfold mergeOps; rw [foldl_mergeStep_noSide xs {} h]; rfl

example : mergeOps [.range (star {}) (star {}) true true {}, .term .word ['w'] {},
      .range (.term .word ['a'] {}) (.term .word ['b'] {}) true true {}]
    = [.range (star {}) (star {}) true true {}, .term .word ['w'] {},
      .range (.term .word ['a'] {}) (.term .word ['b'] {}) true true {}] := rfl

/-- **Every bound of a merged operand is a bound of an original operand** (the loop only recombines
bounds). -/
theorem mergeOps_bounds (xs : List Tree) :
    ∀ t ∈ mergeOps xs, ∀ b ∈ boundsOf t, ∃ t' ∈ xs, b ∈ boundsOf t' :=
  mergeOps_all (fun t => ∀ b ∈ boundsOf t, ∃ t' ∈ xs, b ∈ boundsOf t')
    (fun a c cs ha hc => boundsOf_joinRange _ a c cs ha hc) xs
    (fun t ht _ hb => ⟨t, ht, hb⟩)

/-- number of joins performed by the merge loop -/
def joinCount (xs : List Tree) : Nat := joinCountFrom {} xs

/-- **Every operand is either kept or joined into an earlier one.** -/
theorem mergeOps_length (xs : List Tree) : (mergeOps xs).length + joinCount xs = xs.length := by
  have h := foldl_mergeStep_length xs {}
  simpa [mergeOps, joinCount] using h

theorem mergeOps_length_le (xs : List Tree) : (mergeOps xs).length ≤ xs.length := by
  have h := mergeOps_length xs; omega

/-- **The number of joins** is the number of pairs of opposite one-sided ranges: whenever a lower-bound
range and an upper-bound range are both available, they are joined. -/
theorem joinCount_eq_min (xs : List Tree) :
    joinCount xs = min (sideCount .low xs) (sideCount .high xs) := by
  have h := foldl_mergeStep_joinCount xs {} 0 0 MergeSt.inv_init MergeSt.bal_init
  simpa [joinCount] using h

theorem mergeOps_length_eq (xs : List Tree) :
    (mergeOps xs).length = xs.length - min (sideCount .low xs) (sideCount .high xs) := by
  have h := mergeOps_length xs; rw [joinCount_eq_min] at h; omega

/-- `[* TO y] AND [a TO *] AND [b TO *] AND [c TO *] AND [* TO z]`: two joins, three operands left -/
example :
    let xs := [.range (star {}) (.term .word ['y'] {}) true true {},
               .range (.term .word ['a'] {}) (star {}) true true {},
               .range (.term .word ['b'] {}) (star {}) true true {},
               .range (.term .word ['c'] {}) (star {}) true true {},
               .range (star {}) (.term .word ['z'] {}) true true {}]
    sideCount .low xs = 3 ∧ sideCount .high xs = 2 ∧ (mergeOps xs).length = 3 := by decide

/-- **The operands that are not one-sided ranges are all kept, in their order.** -/
theorem mergeOps_sublist (xs : List Tree) :
    (xs.filter (fun t => (boundSide t).isNone)).Sublist (mergeOps xs) := by
  have h := foldl_mergeStep_sublist xs {} MergeSt.inv_init [] (List.nil_sublist _)
  rw [List.nil_append] at h
  exact h.trans List.filter_sublist

/-- They are in general *not* the only operands of the result that are not one-sided ranges: a joined
range is bound on both sides. So `(mergeOps xs).filter noSide = xs.filter noSide` is false. -/
example :
    let xs := [.range (.term .word ['a'] {}) (star {}) true true {},
               .range (star {}) (.term .word ['b'] {}) true true {}]
    ((mergeOps xs).filter (fun t => (boundSide t).isNone)).length = 1 ∧
    (xs.filter (fun t => (boundSide t).isNone)).length = 0 ∧ joinCount xs = 1 := by decide

end Luqum.Props.C12
