/-
  C07 — The query builder refuses exactly the ambiguous AND/OR mixes and the misuse of container
  fields; every other supported query is translated.

  `ElasticsearchQueryBuilder(**cfg)(tree)` (`esBuild`) first runs `CheckNestedFields`
  (`nestingCheck`), then the visitor (`esVisit`). The specifications below are stated on
  (configuration, tree) only (`Luqum.Lemmas.EsDefs`):
  * `andLike` / `orLike`: `AND` (resp. `OR`) operations, and the implicit operation when the default
    operator is MUST (resp. SHOULD);
  * `Mix cfg t`: some and-like or or-like operation has, once its operands of exactly the same kind are
    flattened into it (`simplify_if_same`), a direct operand of the opposite likeness
    (`a AND (b OR c)` written without the group, as the tree `.op .and [a, .op .or [b, c]]`);
  * `misuse cfg t`: the first term (document order; including range bounds and the term of a fuzzy /
    proximity) whose accumulated dotted field name is a container (a proper prefix of a declared
    nested or object field) → `nestedSearch`, or — when both `sub_fields` and `object_fields` are
    configured — has ≥ 2 components and is no declared sub / object / nested field → `objectSearch`;
  * `Supported t`: words, phrases, ranges between terms, fuzzy, proximity, boost, groups, fields,
    `+ - NOT`, operations (AND, OR, implicit, Lucene-boolean) with at least two operands. No regex, no
    one-sided range, no `NoneItem`. Every supported node yields exactly one E-node
    (`esVisit_single`), so no side condition on the operand of a field / boost / fuzzy is needed.

  Theorems:
  (a) `orAnd_only_on_mix`   : the AND/OR error is raised only on a mix without misuse (ANY tree);
  (b) `mix_refused`         : a supported query with a mix and no misuse is refused with it;
  (c) `misuse_refused`      : a misuse is refused with exactly the error of `misuse` (ANY tree);
  (d) `translated`          : a supported query without misuse and mix is translated;
  `refuses_exactly`         : (a)–(d) as one case distinction on supported queries.

  The proofs are on `visitS` (`Luqum.Lemmas.EsStruct`), a structurally recursive presentation of
  `esVisit` / `esOperand` / `esOperands`, proved equal to them (`esVisit_eq`, `esBuild_eq`); it also
  makes the builder evaluable by `decide` in the examples.

  Known finding KF5 (see the last example): only the DIRECT container of a declared leaf is a
  container (`nestedPrefixes` = the declared dotted names minus their last component), so
  with `{"a": {"b": ["c"]}}` the query `a:x` is not a misuse. This is the documented behaviour of
  `misuse`, not an exclusion of the theorems.
-/
import Luqum.Lemmas.EsBuild
import Luqum.Lemmas.EsSpecNorm

namespace Luqum.Props.C07
open Luqum Luqum.Lemmas.Es

export Luqum.Lemmas.Es (kindAnd kindOr andLike orLike opposite mixOp mixOps Mix MixL termMisuse
  fieldedTerms fieldedTermsL misuseAt misuse Supported SupportedL)

/-! ### the specifications agree with the class tests of the implementation -/

/-- `andLike` is the builder's `_is_must` -/
theorem andLike_eq (c : EsCfg) (t : Tree) : andLike c t = c.isMust t := (isMust_eq_andLike c t).symm
/-- `orLike` is the builder's `_is_should` -/
theorem orLike_eq (c : EsCfg) (t : Tree) : orLike c t = c.isShould t := (isShould_eq_orLike c t).symm

/-- nothing is both and-like and or-like -/
theorem not_andLike_and_orLike (c : EsCfg) (t : Tree) : (andLike c t && orLike c t) = false := by
  cases t with
  | op k => cases k <;> simp [andLike, orLike, kindAnd, kindOr]
  | _ => rfl

/-! ### `CheckNestedFields` is `misuse` -/

/-- the checker accepts exactly the queries without misuse -/
theorem nestingCheck_ok_iff (c : EsCfg) (t : Tree) : nestingCheck c [] t = .ok () ↔ misuse c t = none :=
  Lemmas.Es.nestingCheck_ok_iff c t

/-- otherwise its error is the one of `misuse` (the first offending term in document order) -/
theorem nestingCheck_error_iff (c : EsCfg) (t : Tree) (e : EsErr) :
    nestingCheck c [] t = .error e ↔ misuse c t = some e :=
  Lemmas.Es.nestingCheck_error_iff c t e

/-! ### the visitor on supported queries -/

/-- every supported node yields exactly one E-node -/
theorem esVisit_single (c : EsCfg) (x : EsCtx) (t : Tree) (es : List ETree)
    (hs : Supported t = true) (h : esVisit c x t = .ok es) : es.length = 1 := by
  have := visit_spec c t x none .none hs
  rw [← esVisit_eq, h] at this
  exact this.2 rfl

/-- on a supported query the visitor returns one E-node when there is no mix, and raises the AND/OR
error when there is one; no other exception escapes -/
theorem esVisit_supported (c : EsCfg) (x : EsCtx) (t : Tree) (hs : Supported t = true) :
    (Mix c t = false ∧ ∃ e, esVisit c x t = .ok [e]) ∨
    (Mix c t = true ∧ ∃ m, esVisit c x t = .error (.orAnd m)) := by
  have := visit_spec c t x none .none hs
  rw [← esVisit_eq] at this
  simp only [parMix_none, Bool.false_or] at this
  match h : esVisit c x t, this with
  | .ok es, ⟨h1, h2⟩ =>
    have := h2 rfl
    match es, this with
    | [e], _ => exact .inl ⟨h1, e, rfl⟩
  | .error (.orAnd m), h1 => exact .inr ⟨h1, m, rfl⟩

/-! ### the four directions -/

/-- **(a)** the AND/OR error is raised only when there is no misuse and there is a mix — for every
tree, supported or not -/
theorem orAnd_only_on_mix (c : EsCfg) (t : Tree) (m : Str) (h : esBuild c t = .error (.orAnd m)) :
    misuse c t = none ∧ Mix c t = true := by
  unfold esBuild at h
  split at h
  · rename_i e he
    cases h
    -- the checker never raises the AND/OR error
    have := (Lemmas.Es.nestingCheck_error_iff c t _).1 he
    exact absurd this (misuse_ne_orAnd c t m)
  · rename_i u hu
    have hu' : nestingCheck c [] t = .ok () := hu
    refine ⟨(Lemmas.Es.nestingCheck_ok_iff c t).1 hu', ?_⟩
    split at h
    · rename_i e he
      cases h
      rw [esVisit_eq] at he
      simpa [parMix_none] using mix_of_orAnd c t {} none m .none he
    · cases h
    · cases h

/-- **(c)** a misuse is refused, with the error of the first offending term — for every tree -/
theorem misuse_refused (c : EsCfg) (t : Tree) (e : EsErr) (h : misuse c t = some e) :
    esBuild c t = .error e := by
  unfold esBuild
  rw [(Lemmas.Es.nestingCheck_error_iff c t e).2 h]

/-- **(b)** a supported query with a mix (and no misuse) is refused with the AND/OR error -/
theorem mix_refused (c : EsCfg) (t : Tree) (hs : Supported t = true) (hm : misuse c t = none)
    (hx : Mix c t = true) : ∃ m, esBuild c t = .error (.orAnd m) := by
  unfold esBuild
  rw [(Lemmas.Es.nestingCheck_ok_iff c t).2 hm]
  rcases esVisit_supported c {} t hs with ⟨h1, _⟩ | ⟨_, m, h2⟩
  · rw [hx] at h1; cases h1
  · exact ⟨m, by rw [h2]⟩

/-- **(d)** every supported query without misuse and without mix is translated: no exception of any
kind escapes -/
theorem translated (c : EsCfg) (t : Tree) (hs : Supported t = true) (hm : misuse c t = none)
    (hx : Mix c t = false) : ∃ j, esBuild c t = .ok j := by
  unfold esBuild
  rw [(Lemmas.Es.nestingCheck_ok_iff c t).2 hm]
  rcases esVisit_supported c {} t hs with ⟨_, e, h2⟩ | ⟨h1, _⟩
  · exact ⟨e.json c, by rw [h2]⟩
  · rw [hx] at h1; cases h1

/-- **C07.** On supported queries the builder refuses exactly the container-field misuses (with the
checker's error) and the AND/OR mixes (with the AND/OR error), and translates everything else. -/
theorem refuses_exactly (c : EsCfg) (t : Tree) (hs : Supported t = true) :
    (∃ e, misuse c t = some e ∧ esBuild c t = .error e) ∨
    (misuse c t = none ∧ Mix c t = true ∧ ∃ m, esBuild c t = .error (.orAnd m)) ∨
    (misuse c t = none ∧ Mix c t = false ∧ ∃ j, esBuild c t = .ok j) := by
  cases hm : misuse c t with
  | some e => exact .inl ⟨e, rfl, misuse_refused c t e hm⟩
  | none =>
    cases hx : Mix c t with
    | true => exact .inr (.inl ⟨rfl, rfl, mix_refused c t hs hm hx⟩)
    | false => exact .inr (.inr ⟨rfl, rfl, translated c t hs hm hx⟩)

/-! ### equivalent spellings of the field specifications (used by C19)

The containers of `misuse` and of the `nested` wrapping are `cfg.nestedPrefixes`, `cfg.nestedFlat`,
`cfg.objectNorm`; they do not depend on how the specification is spelled
(`Luqum.Lemmas.EsSpecNorm`). -/

export Luqum.Lemmas.EsSpecNorm (SpecEq)

/-- a list of leaf names, or a dict with `None` / `{}` / `[]` values: the same normal form -/
theorem nested_leaf_spellings {xs : List Str} (h : xs.Nodup) :
    normalizeNested (.list xs) = normalizeNested (.dict (xs.map fun x => (x, Spec.none))) ∧
    normalizeNested (.list xs) = normalizeNested (.dict (xs.map fun x => (x, Spec.dict []))) ∧
    normalizeNested (.list xs) = normalizeNested (.dict (xs.map fun x => (x, Spec.list []))) :=
  Lemmas.EsSpecNorm.normalizeNested_leaf_spellings h

/-- equivalent spellings of `nested_fields` (`SpecEq`: `None ≈ [] ≈ {}`, a list ≈ the dict of its
names with empty values, congruence under dict keys) give the same containers -/
theorem nested_spelling_irrelevant {c c' : EsCfg} (h : SpecEq c.nested c'.nested) :
    c.nestedNorm = c'.nestedNorm ∧ c.nestedFlat = c'.nestedFlat ∧ c.nestedPrefixes = c'.nestedPrefixes :=
  ⟨Lemmas.EsSpecNorm.nestedNorm_congr h, Lemmas.EsSpecNorm.nestedFlat_congr h,
    Lemmas.EsSpecNorm.nestedPrefixes_congr h⟩

/-- normalisation is idempotent -/
theorem normalizeNested_idem (s : Spec) : normalizeNested (normalizeNested s) = normalizeNested s :=
  Lemmas.EsSpecNorm.normalizeNested_idem s

/-- `object_fields` spelled as the list of dotted names, or as the dict: the same set -/
theorem object_dotted_list (kvs : List (Str × Spec)) :
    normalizeObject (.list ((flattenSpecs (.dict kvs)).map joinDot)) = normalizeObject (.dict kvs) :=
  Lemmas.EsSpecNorm.normalizeObject_dotted_list kvs

example : ({ nested := .dict [("a".toList, .list ["x".toList, "y".toList])] } : EsCfg).nestedPrefixes =
    ({ nested := .dict [("a".toList, .dict [("x".toList, .none), ("y".toList, .dict [])])] } : EsCfg).nestedPrefixes := by
  decide

/-- (kept from the stub stage; referenced by earlier evidence files) -/
theorem normalizeObject_none : normalizeObject .none = none := rfl

/-! ### non-vacuity, and necessity of `Supported` -/

section Examples

private def w (s : String) : Tree := .term .word s.toList {}
private def isOrAnd : Except EsErr JVal → Bool | .error (.orAnd _) => true | _ => false
private def isOk : Except EsErr JVal → Bool | .ok _ => true | _ => false
private def isNestedSearch : Except EsErr JVal → Bool | .error (.nestedSearch _) => true | _ => false
private def isObjectSearch : Except EsErr JVal → Bool | .error (.objectSearch _) => true | _ => false
private def isOther (cls : String) : Except EsErr JVal → Bool
  | .error (.other c) => c == cls | _ => false

/-- a configuration with a nested field `author.name`, `author.book.title` (nested in nested), an
object field `meta.lang` and a sub-field `title.raw` -/
private def cfg : EsCfg :=
  { defaultMust := true,
    nested := .dict [("author".toList, .dict [("name".toList, .none),
                      ("book".toList, .list ["title".toList])])],
    objectFields := .list ["meta.lang".toList],
    subFields := .list ["title.raw".toList] }

example : cfg.nestedPrefixes = ["author".toList, "author.book".toList] := by decide
example : cfg.objectPrefixes = ["meta".toList] := by decide

/-- `author:(name:a AND book.title:"b c"~2) title.raw:[a TO b]^2 -(x y) +z` — everything supported,
no misuse, no mix (the implicit operation is and-like here, and contains no or-like operand) -/
private def good : Tree :=
  .op .unk [
    .field "author".toList (.group .fieldGroup (.op .and [
        .field "name".toList (w "a") {},
        .field "book.title".toList (.approx .proximity (.term .phrase "\"b c\"".toList {}) {} {}) {}] {}) {}) {},
    .boost (.field "title.raw".toList (.range (w "a") (w "b") true true {}) {}) {} {},
    .unary .prohibit (.group .group (.op .unk [w "x", w "y"] {}) {}) {},
    .unary .plus (w "z") {}] {}

example : Supported good = true := by decide
example : misuse cfg good = none := by decide
example : Mix cfg good = false := by decide
example : isOk (esBuild cfg good) = true := by rw [esBuild_eq]; decide

/-- the same with `x OR y` inside the and-like operation, hidden below a same-kind operand that
`simplify_if_same` flattens: a mix -/
private def mixed : Tree :=
  .op .unk [w "a", .op .unk [w "b", .op .or [w "x", w "y"] {}] {}, .field "title.raw".toList (w "c") {}] {}

example : Supported mixed = true := by decide
example : misuse cfg mixed = none := by decide
example : Mix cfg mixed = true := by decide
example : isOrAnd (esBuild cfg mixed) = true := by rw [esBuild_eq]; decide
/-- with the grouping made explicit there is no mix -/
example : Mix cfg (.op .unk [w "a", .group .group (.op .or [w "x", w "y"] {}) {}] {}) = false := by decide
/-- and with the default operator SHOULD the implicit operation mixes with AND instead -/
example : Mix {} (.op .unk [w "a", .op .or [w "x", w "y"] {}] {}) = false ∧
    Mix {} (.op .unk [w "a", .op .and [w "x", w "y"] {}] {}) = true := by decide

/-- misuse: a term attributed to the nested container `author`, to the object container `meta`, to
an unknown dotted field -/
example : isNestedSearch (esBuild cfg (.field "author".toList (w "a") {})) = true := by
  rw [esBuild_eq]; decide
example : isNestedSearch (esBuild cfg (.op .or [w "x", .field "meta".toList (w "a") {}] {})) = true := by
  rw [esBuild_eq]; decide
example : isObjectSearch (esBuild cfg (.field "foo.bar".toList (w "a") {})) = true := by
  rw [esBuild_eq]; decide
example : (misuse cfg (.field "author".toList (w "a") {})).isSome = true := by decide
/-- the misuse is reported before (instead of) the mix -/
example : isNestedSearch (esBuild cfg (.op .and [.op .or [w "x", w "y"] {}, .field "author".toList (w "a") {}] {}))
    = true := by rw [esBuild_eq]; decide

/-- NEGATIVE witnesses: without `Supported`, (b) and (d) fail.
* a mixed operand with fewer than two operands: `IndexError` in `_get_operator_extract`, not the
  AND/OR error; -/
private def bad1 : Tree := .op .and [w "a", .op .or [w "b"] {}] {}
example : Supported bad1 = false ∧ misuse cfg bad1 = none ∧ Mix cfg bad1 = true ∧
    isOther "IndexError" (esBuild cfg bad1) = true := by
  refine ⟨by decide, by decide, by decide, ?_⟩; rw [esBuild_eq]; decide
/-- * a regex yields no E-node: `field:/re/` escapes with a `ValueError`, the bare regex with an
  `IndexError`; -/
private def bad2 : Tree := .field "title".toList (.term .regex "/a/".toList {}) {}
example : Supported bad2 = false ∧ misuse cfg bad2 = none ∧ Mix cfg bad2 = false ∧
    isOther "ValueError" (esBuild cfg bad2) = true := by
  refine ⟨by decide, by decide, by decide, ?_⟩; rw [esBuild_eq]; decide
example : isOther "IndexError" (esBuild cfg (.term .regex "/a/".toList {})) = true := by
  rw [esBuild_eq]; decide
/-- * a range whose bound is not a term: `AttributeError`. -/
private def bad3 : Tree := .range (.group .group (w "a") {}) (w "b") true true {}
example : Supported bad3 = false ∧ isOther "AttributeError" (esBuild cfg bad3) = true := by
  refine ⟨by decide, ?_⟩; rw [esBuild_eq]; decide

/-- KF5: with `{"a": {"b": ["c"]}}` only `a.b` (the direct container of the leaf `a.b.c`) is a
container: `a:x` is accepted by the checker and translated as a plain clause on `a` -/
private def cfg5 : EsCfg := { nested := .dict [("a".toList, .dict [("b".toList, .list ["c".toList])])] }
example : cfg5.nestedPrefixes = ["a.b".toList] := by decide
example : misuse cfg5 (.field "a".toList (w "x") {}) = none ∧
    (misuse cfg5 (.field "a.b".toList (w "x") {})).isSome = true := by decide
example : isOk (esBuild cfg5 (.field "a".toList (w "x") {})) = true := by rw [esBuild_eq]; decide

end Examples

end Luqum.Props.C07
