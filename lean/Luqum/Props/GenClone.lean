/-
  Translator obligations (G12): `Item.clone_item`.

  `Luqum/Generated/Clone.lean` is produced on every run by symbolic execution (tools/pysym.py) of `clone_item()` --
  `Item._clone_item` with its dictionary of attributes built from `_equality_attrs` / `_children_attrs`, the
  overrides of `BaseApprox` and `Boost` that keep the display flag, and the `__init__` chain of the class -- on a
  symbolic instance of every concrete class of `luqum.tree`. The theorems say that the model's `Tree.cloneItem`
  (the function C08 / C09 / C10 / C12 / C13 / C17 are stated about) is that function.

  Two facts the model leaves out are visible here and stated as hypotheses, not hidden:
  * `Phrase` / `Regex` assert that their value is delimited (`AssertionError` otherwise; parsed phrases are);
  * `Boost._clone_item` runs `Decimal(force).normalize()` again: the identity on numbers already normalised (what the
    constructor stores).
-/
import Luqum.Generated.Clone

namespace Luqum.Props.GenClone
open Luqum Generated

theorem mkNum_self (n : Num) : PyPrim.mkNum n n.implicit = n := by cases n; rfl
theorem mkNum_eq (n : Num) (b : Bool) (h : n.implicit = b) : PyPrim.mkNum n b = n := by
  cases n; simp_all [PyPrim.mkNum]
theorem renorm_of_normal (n : Num) (h : n.val.normalize = n.val) : PyPrim.renorm n = n := by
  cases n; simp_all [PyPrim.renorm]

theorem gen_clone_Word (v : Str) (l : Lay) :
    Clone.clone_Word v l = .ok (Tree.term .word v l).cloneItem := rfl
theorem gen_clone_Phrase (v : Str) (l : Lay) (h1 : PyPrim.startsWith v ['"'] = true)
    (h2 : PyPrim.endsWith v ['"'] = true) :
    Clone.clone_Phrase v l = .ok (Tree.term .phrase v l).cloneItem := by
  simp [Clone.clone_Phrase, h1, h2, Tree.cloneItem]
theorem gen_clone_Phrase_undelimited (v : Str) (l : Lay)
    (h : PyPrim.startsWith v ['"'] = false ∨ PyPrim.endsWith v ['"'] = false) :
    Clone.clone_Phrase v l = .error (.exc "AssertionError") := by
  unfold Clone.clone_Phrase
  rcases h with h | h <;> cases h' : PyPrim.endsWith v ['"'] <;> simp_all
theorem gen_clone_Regex (v : Str) (l : Lay) (h1 : PyPrim.startsWith v ['/'] = true)
    (h2 : PyPrim.endsWith v ['/'] = true) :
    Clone.clone_Regex v l = .ok (Tree.term .regex v l).cloneItem := by
  simp [Clone.clone_Regex, h1, h2, Tree.cloneItem]
theorem gen_clone_SearchField (n : Str) (e : Tree) (l : Lay) :
    Clone.clone_SearchField n e l = .ok (Tree.field n e l).cloneItem := rfl
theorem gen_clone_Group (e : Tree) (l : Lay) :
    Clone.clone_Group e l = .ok (Tree.group .group e l).cloneItem := rfl
theorem gen_clone_FieldGroup (e : Tree) (l : Lay) :
    Clone.clone_FieldGroup e l = .ok (Tree.group .fieldGroup e l).cloneItem := rfl
theorem gen_clone_Range (a b : Tree) (il ih : Bool) (l : Lay) :
    Clone.clone_Range a b il ih l = .ok (Tree.range a b il ih l).cloneItem := rfl
theorem gen_clone_Fuzzy (t : Tree) (n : Num) (l : Lay) :
    Clone.clone_Fuzzy t n l = .ok (Tree.approx .fuzzy t n l).cloneItem := by
  unfold Clone.clone_Fuzzy
  cases h : n.implicit <;> simp [Tree.cloneItem, mkNum_eq n _ h]
theorem gen_clone_Proximity (t : Tree) (n : Num) (l : Lay) :
    Clone.clone_Proximity t n l = .ok (Tree.approx .proximity t n l).cloneItem := by
  unfold Clone.clone_Proximity
  cases h : n.implicit <;> simp [Tree.cloneItem, mkNum_eq n _ h]
theorem gen_clone_Boost (e : Tree) (n : Num) (l : Lay) (hn : n.val.normalize = n.val) :
    Clone.clone_Boost e n l = .ok (Tree.boost e n l).cloneItem := by
  unfold Clone.clone_Boost
  rw [renorm_of_normal n hn]
  cases h : n.implicit <;> simp [Tree.cloneItem, mkNum_eq n _ h]
theorem gen_clone_AndOperation (xs : List Tree) (l : Lay) :
    Clone.clone_AndOperation xs l = .ok (Tree.op .and xs l).cloneItem := rfl
theorem gen_clone_OrOperation (xs : List Tree) (l : Lay) :
    Clone.clone_OrOperation xs l = .ok (Tree.op .or xs l).cloneItem := rfl
theorem gen_clone_UnknownOperation (xs : List Tree) (l : Lay) :
    Clone.clone_UnknownOperation xs l = .ok (Tree.op .unk xs l).cloneItem := rfl
theorem gen_clone_BoolOperation (xs : List Tree) (l : Lay) :
    Clone.clone_BoolOperation xs l = .ok (Tree.op .bool xs l).cloneItem := rfl
theorem gen_clone_Plus (a : Tree) (l : Lay) :
    Clone.clone_Plus a l = .ok (Tree.unary .plus a l).cloneItem := rfl
theorem gen_clone_Not (a : Tree) (l : Lay) :
    Clone.clone_Not a l = .ok (Tree.unary .not a l).cloneItem := rfl
theorem gen_clone_Prohibit (a : Tree) (l : Lay) :
    Clone.clone_Prohibit a l = .ok (Tree.unary .prohibit a l).cloneItem := rfl
theorem gen_clone_From (a : Tree) (i : Bool) (l : Lay) :
    Clone.clone_From a i l = .ok (Tree.orange .from a i l).cloneItem := rfl
theorem gen_clone_To (a : Tree) (i : Bool) (l : Lay) :
    Clone.clone_To a i l = .ok (Tree.orange .to a i l).cloneItem := rfl
theorem gen_clone_NoneItem (l : Lay) :
    Clone.clone_NoneItem l = .ok (Tree.none l).cloneItem := rfl

/-- the generated functions assembled by class -/
def genClone : Tree → Except PyErr Tree
  | .term .word v l => Clone.clone_Word v l
  | .term .phrase v l => Clone.clone_Phrase v l
  | .term .regex v l => Clone.clone_Regex v l
  | .field n e l => Clone.clone_SearchField n e l
  | .group .group e l => Clone.clone_Group e l
  | .group .fieldGroup e l => Clone.clone_FieldGroup e l
  | .range a b il ih l => Clone.clone_Range a b il ih l
  | .approx .fuzzy x n l => Clone.clone_Fuzzy x n l
  | .approx .proximity x n l => Clone.clone_Proximity x n l
  | .boost e n l => Clone.clone_Boost e n l
  | .op .and xs l => Clone.clone_AndOperation xs l
  | .op .or xs l => Clone.clone_OrOperation xs l
  | .op .unk xs l => Clone.clone_UnknownOperation xs l
  | .op .bool xs l => Clone.clone_BoolOperation xs l
  | .unary .plus a l => Clone.clone_Plus a l
  | .unary .not a l => Clone.clone_Not a l
  | .unary .prohibit a l => Clone.clone_Prohibit a l
  | .orange .from a i l => Clone.clone_From a i l
  | .orange .to a i l => Clone.clone_To a i l
  | .none l => Clone.clone_NoneItem l

/-- what the real constructors demand of the node itself (not of its descendants) -/
def cloneable : Tree → Prop
  | .term .phrase v _ => PyPrim.startsWith v ['"'] = true ∧ PyPrim.endsWith v ['"'] = true
  | .term .regex v _ => PyPrim.startsWith v ['/'] = true ∧ PyPrim.endsWith v ['/'] = true
  | .boost _ n _ => n.val.normalize = n.val
  | _ => True

/-- **cloning is the translated code**: for every node whose own content the constructors accept,
`clone_item()` as translated from the source returns exactly the model's `cloneItem` -/
theorem clone_is_generated (t : Tree) (h : cloneable t) : genClone t = .ok t.cloneItem := by
  cases t with
  | term k v l =>
    cases k
    · exact gen_clone_Word v l
    · exact gen_clone_Phrase v l h.1 h.2
    · exact gen_clone_Regex v l h.1 h.2
  | field n e l => exact gen_clone_SearchField n e l
  | group k e l => cases k <;> rfl
  | range a b il ih l => rfl
  | approx k x n l =>
    cases k
    · exact gen_clone_Fuzzy x n l
    · exact gen_clone_Proximity x n l
  | boost e n l => exact gen_clone_Boost e n l h
  | op k xs l => cases k <;> rfl
  | unary k a l => cases k <;> rfl
  | orange k a i l => cases k <;> rfl
  | none l => rfl

/-- non-vacuity: a parsed-looking phrase and a normalised boost are cloneable -/
example : cloneable (.term .phrase "\"a b\"".toList {}) := by
  show _ ∧ _; decide
example : cloneable (.boost (.term .word ['a'] {}) { val := { coeff := 2 } } {}) := by
  show _ = _; decide

theorem clone_names_complete : Clone.cloneNames.length = 21 := by decide

/-- `clone_item()` of the `NONE_ITEM` singleton is an ordinary, new `NoneItem` -/
theorem gen_clone_the_NONE_ITEM : Clone.clone_the_NONE_ITEM = .ok noneItem.cloneItem := rfl

/-- identity, which the model's trees cannot express: on every path of every class (and for the `NONE_ITEM`
singleton itself) the object `clone_item()` returns was created by the call; it is never `self` nor an item that
existed before. Together with `clone_is_generated` this is the "shares no node" clause of C08 for one node. -/
theorem clone_always_fresh : Clone.cloneFresh.all (·.2) = true := by decide

end Luqum.Props.GenClone
