import Luqum.Model.Visitor
namespace Luqum.Props.C08
open Luqum
theorem copy_term (k : TermK) (v : Str) (l : Lay) : (Tree.term k v l).copy = .term k v l.noName := rfl
end Luqum.Props.C08
