/-
  C08 — Visitors reach every node exactly once, in document order, with the true context
  (`parents`, `path`), calling the handler the MRO designates; the dispatch cache never changes
  behaviour; the default `TreeTransformer` is a deep copy through `clone_item`.
  Property theorems (helper lemmas: Luqum/Lemmas/Visit.lean).
-/
import Luqum.Model.Visitor
import Luqum.Lemmas.Visit
import Luqum.Props.C09

namespace Luqum.Props.C08
open Luqum Luqum.Lemmas.Visit

/-! ### 1. events of a visit = document order, decorated with the dispatched handler -/

/-- a dispatch cache is consistent when every entry is what uncached dispatch gives
(`∀ (cls, h) ∈ c, h = dispatch H cls`); the empty cache of a fresh visitor is -/
abbrev Consistent := Luqum.Lemmas.Visit.Consistent

theorem consistent_nil (H : List String) : Consistent H [] := Luqum.Lemmas.Visit.consistent_nil H

/-- the event recorded for an entry of the document-order enumeration -/
def eventOf (H : List String) (x : Tree × List Tree × List Nat) : Event :=
  { handler := dispatch H x.1.className, node := x.1, parents := x.2.1, path := x.2.2 }

/-- **Every node is handled exactly once, in document order, with its true ancestors and path, by
the handler uncached MRO dispatch designates** — whatever (consistent) cache the visitor starts
with; and the cache it ends with is consistent again. -/
theorem visitEvents_eq (H : List String) (c : Cache) (hc : Consistent H c) (parents : List Tree)
    (path : List Nat) (t : Tree) :
    (visitEvents H c parents path t).1 = (preorder parents path t).map (eventOf H)
      ∧ Consistent H (visitEvents H c parents path t).2 :=
  Luqum.Lemmas.Visit.visitEvents_eq H t c parents path hc

/-- the same, componentwise (`Event` has no decidable equality; this is the form to test against) -/
theorem visitEvents_components (H : List String) (c : Cache) (hc : Consistent H c)
    (parents : List Tree) (path : List Nat) (t : Tree) :
    (visitEvents H c parents path t).1.map (fun e => (e.handler, e.node, e.parents, e.path))
      = (preorder parents path t).map (fun x => (dispatch H x.1.className, x.1, x.2.1, x.2.2)) := by
  rw [(visitEvents_eq H c hc parents path t).1, List.map_map]; rfl

/-- **The cache never changes behaviour**: a visitor instance that has already visited `t₁`
(starting from a consistent cache, e.g. fresh) handles any later tree `t₂` exactly as a fresh
visitor does. -/
theorem visit_twice (H : List String) (c : Cache) (hc : Consistent H c)
    (ps₁ ps₂ : List Tree) (p₁ p₂ : List Nat) (t₁ t₂ : Tree) :
    (visitEvents H (visitEvents H c ps₁ p₁ t₁).2 ps₂ p₂ t₂).1 = (visitEvents H [] ps₂ p₂ t₂).1 := by
  rw [(visitEvents_eq H _ (visitEvents_eq H c hc ps₁ p₁ t₁).2 ps₂ p₂ t₂).1,
    (visitEvents_eq H [] (consistent_nil H) ps₂ p₂ t₂).1]

/-- cached dispatch on a consistent cache is uncached dispatch; the cache stays consistent and
only grows -/
theorem dispatchCached_spec (H : List String) (c : Cache) (hc : Consistent H c) (cls : String) :
    (dispatchCached H c cls).1 = dispatch H cls ∧ Consistent H (dispatchCached H c cls).2
      ∧ ∀ e ∈ c, e ∈ (dispatchCached H c cls).2 :=
  ⟨dispatchCached_fst hc cls, dispatchCached_snd hc cls, dispatchCached_mono H c cls⟩

example :
    ((visitEvents ["Term", "Item"] [] [] []
        (.op .and [.term .word ['a'] {}, .term .phrase ['b'] {}] {})).1.map
      (fun e => (e.handler, e.path)))
      = [("Item", []), ("Term", [0]), ("Term", [1])] := by decide

/-! ### 2. `preorder` is the document order with the true context -/

/-- (a) **every node exactly once**: as many entries as nodes … -/
theorem preorder_length (t : Tree) (parents : List Tree) (path : List Nat) :
    ((preorder parents path t).map (·.1)).length = t.nodeCount := by
  simp [Luqum.Lemmas.Visit.preorder_length]

/-- (b) **true context**: the node of an entry is the node at its path; its ancestors are exactly
the nodes at the proper prefixes of the path, root first. -/
theorem preorder_context (t n : Tree) (anc : List Tree) (p : List Nat)
    (h : (n, anc, p) ∈ preorder [] [] t) :
    t.at? p = some n ∧ anc.length = p.length ∧
      ∀ i (hi : i < anc.length), t.at? (p.take i) = some anc[i] := by
  obtain ⟨q, anc', h1, h2, h3, h4, h5⟩ := preorder_ctx t [] [] _ h
  simp at h1 h2; subst h1 h2
  exact ⟨h3, h4, h5⟩

/-- (b), generalised over the `parents` / `path` the traversal is started with (as
`visit_iter(tree, context)` may be): the context is the given prefix followed by the true one. -/
theorem preorder_context_prefix (t n : Tree) (parents anc : List Tree) (path p : List Nat)
    (h : (n, anc, p) ∈ preorder parents path t) :
    ∃ q anc', p = path ++ q ∧ anc = parents ++ anc' ∧ t.at? q = some n ∧ anc'.length = q.length ∧
      ∀ i (hi : i < anc'.length), t.at? (q.take i) = some anc'[i] :=
  preorder_ctx t parents path _ h

/-- (c) **document order, no node twice**: the paths are strictly increasing in the lexicographic
order on index paths (a prefix comes before its extensions: pre-order) … -/
theorem preorder_paths_sorted (t : Tree) (parents : List Tree) (path : List Nat) :
    List.Pairwise (· < ·) ((preorder parents path t).map (·.2.2)) := by
  rw [List.pairwise_map]; exact preorder_sorted t parents path

/-- … hence pairwise distinct: with (a), every node position is enumerated exactly once. -/
theorem preorder_paths_nodup (t : Tree) (parents : List Tree) (path : List Nat) :
    ((preorder parents path t).map (·.2.2)).Nodup := by
  refine List.Pairwise.imp ?_ (preorder_paths_sorted t parents path)
  intro a b hlt heq; subst heq; exact lex_irrefl a hlt

example :
    (preorder [] [] (.field ['f'] (.range (.term .word ['a'] {}) (.term .word ['b'] {}) true true {}) {})).map
      (fun x => (x.1.className, x.2.1.map Tree.className, x.2.2))
    = [("SearchField", [], []), ("Range", ["SearchField"], [0]),
       ("Word", ["SearchField", "Range"], [0, 0]), ("Word", ["SearchField", "Range"], [0, 1])] := by
  decide

/-! ### 3. dispatch follows the MRO -/

/-- **`dispatch H cls` is the first class of the MRO of `cls` that has a handler, else the generic
handler.** -/
theorem dispatch_spec (H : List String) (cls : String) :
    (∃ pre c post, mroOf cls = pre ++ c :: post ∧ c ∈ H ∧ (∀ x ∈ pre, x ∉ H) ∧ dispatch H cls = c)
    ∨ ((∀ c ∈ mroOf cls, c ∉ H) ∧ dispatch H cls = "<generic>") := by
  unfold dispatch
  cases hf : (mroOf cls).find? (fun c => H.contains c) with
  | none =>
    right
    rw [List.find?_eq_none] at hf
    exact ⟨fun c hc => by simpa using hf c hc, rfl⟩
  | some c =>
    left
    rw [List.find?_eq_some_iff_append] at hf
    obtain ⟨hc, pre, post, hm, hpre⟩ := hf
    exact ⟨pre, c, post, hm, by simpa using hc, fun x hx => by simpa using hpre x hx, rfl⟩

/-- a handler for the concrete class itself always wins -/
theorem dispatch_self (H : List String) (t : Tree) (h : t.className ∈ H) :
    dispatch H t.className = t.className := by
  have hm : ∃ r, mroOf t.className = t.className :: r := by
    match t with
    | .term k _ _ => cases k <;> exact ⟨_, rfl⟩
    | .group k _ _ => cases k <;> exact ⟨_, rfl⟩
    | .approx k _ _ _ => cases k <;> exact ⟨_, rfl⟩
    | .op k _ _ => cases k <;> exact ⟨_, rfl⟩
    | .unary k _ _ => cases k <;> exact ⟨_, rfl⟩
    | .orange k _ _ _ => cases k <;> exact ⟨_, rfl⟩
    | .field .. => exact ⟨_, rfl⟩
    | .range .. => exact ⟨_, rfl⟩
    | .boost .. => exact ⟨_, rfl⟩
    | .none _ => exact ⟨_, rfl⟩
  obtain ⟨r, hr⟩ := hm
  unfold dispatch
  rw [hr]; simp [h]

example : dispatch ["Item", "BaseOperation"] "AndOperation" = "BaseOperation" := by decide
example : dispatch ["Term"] "AndOperation" = "<generic>" := by decide

/-! ### 4. the default transformer is a deep copy through `clone_item` -/

theorem copies_eq_map : ∀ xs : List Tree, Tree.copies xs = xs.map Tree.copy
  | [] => rfl
  | x :: r => by simp [Tree.copies, copies_eq_map r]

/-- **`generic_visit` = `clone_item` + the copies of the children** -/
theorem copy_eq_clone (t : Tree) :
    t.cloneItem.setChildren (t.children.map Tree.copy) = some t.copy := by
  cases t <;> simp [Tree.cloneItem, Tree.setChildren, Tree.children, Tree.copy, Lay.noName,
    copies_eq_map]

/-- the copy has the layout of the original, minus the attached name … -/
theorem copy_lay (t : Tree) : t.copy.lay = t.lay.noName := by cases t <;> rfl

/-- … the same class … -/
theorem copy_className : ∀ t : Tree, t.copy.className = t.className
  | .term k _ _ => by cases k <;> rfl
  | .group k _ _ => by cases k <;> rfl
  | .approx k _ _ _ => by cases k <;> rfl
  | .op k _ _ => by cases k <;> rfl
  | .unary k _ _ => by cases k <;> rfl
  | .orange k _ _ _ => by cases k <;> rfl
  | .field .. => rfl
  | .range .. => rfl
  | .boost .. => rfl
  | .none _ => rfl

/-- … and the copies of the children as children -/
theorem copy_children (t : Tree) : t.copy.children = t.children.map Tree.copy := by
  cases t <;> simp [Tree.copy, Tree.children, copies_eq_map]

mutual
private theorem content_copy : ∀ t : Tree, C09.content t.copy = C09.content t
  | .term .. => rfl
  | .none _ => rfl
  | .field n e l => by simp [Tree.copy, C09.content, content_copy e]
  | .group k e l => by simp [Tree.copy, C09.content, content_copy e]
  | .approx k e n l => by simp [Tree.copy, C09.content, content_copy e]
  | .boost e n l => by simp [Tree.copy, C09.content, content_copy e]
  | .unary k e l => by simp [Tree.copy, C09.content, content_copy e]
  | .orange k e i l => by simp [Tree.copy, C09.content, content_copy e]
  | .range a b il ih l => by simp [Tree.copy, C09.content, content_copy a, content_copy b]
  | .op k xs l => by simp [Tree.copy, C09.content, contents_copies xs]
private theorem contents_copies : ∀ xs : List Tree, C09.contents (Tree.copies xs) = C09.contents xs
  | [] => rfl
  | x :: r => by simp [Tree.copies, C09.contents, content_copy x, contents_copies r]
end

/-- **the copy is equal to the original** (`==`) -/
theorem copy_eqv (t : Tree) : t.copy.eqv t = true :=
  (C09.eqv_iff_content _ _).2 (content_copy t)

mutual
private theorem full_copy (s : NumStyle) : ∀ t : Tree, t.copy.full s = t.full s
  | .term .. => rfl
  | .none _ => rfl
  | .field n e l => by simp [Tree.copy, Tree.full, Lay.noName, full_copy s e]
  | .group k e l => by simp [Tree.copy, Tree.full, Lay.noName, full_copy s e]
  | .approx k e n l => by simp [Tree.copy, Tree.full, Lay.noName, full_copy s e]
  | .boost e n l => by simp [Tree.copy, Tree.full, Lay.noName, full_copy s e]
  | .unary k e l => by simp [Tree.copy, Tree.full, Lay.noName, full_copy s e]
  | .orange k e i l => by simp [Tree.copy, Tree.full, Lay.noName, full_copy s e]
  | .range a b il ih l => by simp [Tree.copy, Tree.full, Lay.noName, full_copy s a, full_copy s b]
  | .op k xs l => by simp [Tree.copy, Tree.full, Lay.noName, fulls_copies s xs]
private theorem fulls_copies (s : NumStyle) : ∀ xs : List Tree,
    Tree.fulls s (Tree.copies xs) = Tree.fulls s xs
  | [] => rfl
  | x :: r => by simp [Tree.copies, Tree.fulls, full_copy s x, fulls_copies s r]
end

/-- **the copy prints like the original**, with and without head / tail, in both numeral styles -/
theorem copy_full (t : Tree) (s : NumStyle) : t.copy.full s = t.full s ∧ t.copy.body s = t.body s := by
  refine ⟨full_copy s t, ?_⟩
  cases t <;> simp [Tree.copy, Tree.body, full_copy, fulls_copies]

/-- **same shape, node by node**: at every path of the original the copy has the copy of the node
there — so the same class, head, tail, pos and size (`copy_lay`, `copy_className`); only the
attached name is dropped — and the copy has no other paths. -/
theorem copy_at : ∀ (p : List Nat) (t : Tree), t.copy.at? p = (t.at? p).map Tree.copy
  | [], t => rfl
  | i :: r, t => by
    simp only [Tree.at?, copy_children, List.getElem?_map]
    cases t.children[i]? with
    | none => rfl
    | some c => exact copy_at r c

theorem copy_at_some (t n : Tree) (p : List Nat) (h : t.at? p = some n) :
    t.copy.at? p = some n.copy ∧ n.copy.lay = n.lay.noName ∧ n.copy.className = n.className := by
  rw [copy_at, h]; exact ⟨rfl, copy_lay n, copy_className n⟩

theorem Lay.noName_noName (l : Lay) : l.noName.noName = l.noName := rfl

mutual
/-- **copying a copy changes nothing** -/
theorem copy_copy : ∀ t : Tree, t.copy.copy = t.copy
  | .term .. => rfl
  | .none _ => rfl
  | .field n e l => by simp [Tree.copy, Lay.noName, copy_copy e]
  | .group k e l => by simp [Tree.copy, Lay.noName, copy_copy e]
  | .approx k e n l => by simp [Tree.copy, Lay.noName, copy_copy e]
  | .boost e n l => by simp [Tree.copy, Lay.noName, copy_copy e]
  | .unary k e l => by simp [Tree.copy, Lay.noName, copy_copy e]
  | .orange k e i l => by simp [Tree.copy, Lay.noName, copy_copy e]
  | .range a b il ih l => by simp [Tree.copy, Lay.noName, copy_copy a, copy_copy b]
  | .op k xs l => by simp [Tree.copy, Lay.noName, copies_copies xs]
theorem copies_copies : ∀ xs : List Tree, Tree.copies (Tree.copies xs) = Tree.copies xs
  | [] => rfl
  | x :: r => by simp [Tree.copies, copy_copy x, copies_copies r]
end

mutual
/-- a tree without attached names is its own copy (the copy is *structurally* the original) -/
def noNames : Tree → Bool
  | .term _ _ l => l.name.isNone
  | .none l => l.name.isNone
  | .field _ e l => l.name.isNone && noNames e
  | .group _ e l => l.name.isNone && noNames e
  | .approx _ e _ l => l.name.isNone && noNames e
  | .boost e _ l => l.name.isNone && noNames e
  | .unary _ e l => l.name.isNone && noNames e
  | .orange _ e _ l => l.name.isNone && noNames e
  | .range a b _ _ l => l.name.isNone && noNames a && noNames b
  | .op _ xs l => l.name.isNone && noNamesList xs
def noNamesList : List Tree → Bool
  | [] => true
  | x :: r => noNames x && noNamesList r
end

private theorem noName_of_isNone {l : Lay} (h : l.name.isNone = true) : l.noName = l := by
  cases l; simp_all [Lay.noName]

mutual
theorem copy_eq_self_iff : ∀ t : Tree, t.copy = t ↔ noNames t = true
  | .term k v l => by
    simp only [Tree.copy, noNames, Tree.term.injEq, true_and]
    exact ⟨fun h => by rw [← h]; rfl, noName_of_isNone⟩
  | .none l => by
    simp only [Tree.copy, noNames, Tree.none.injEq]
    exact ⟨fun h => by rw [← h]; rfl, noName_of_isNone⟩
  | .field n e l => by
    simp only [Tree.copy, noNames, Tree.field.injEq, true_and, copy_eq_self_iff e, Bool.and_eq_true]
    exact ⟨fun h => ⟨by rw [← h.2]; rfl, h.1⟩, fun h => ⟨h.2, noName_of_isNone h.1⟩⟩
  | .group k e l => by
    simp only [Tree.copy, noNames, Tree.group.injEq, true_and, copy_eq_self_iff e, Bool.and_eq_true]
    exact ⟨fun h => ⟨by rw [← h.2]; rfl, h.1⟩, fun h => ⟨h.2, noName_of_isNone h.1⟩⟩
  | .approx k e n l => by
    simp only [Tree.copy, noNames, Tree.approx.injEq, true_and, copy_eq_self_iff e, Bool.and_eq_true]
    exact ⟨fun h => ⟨by rw [← h.2]; rfl, h.1⟩, fun h => ⟨h.2, noName_of_isNone h.1⟩⟩
  | .boost e n l => by
    simp only [Tree.copy, noNames, Tree.boost.injEq, true_and, copy_eq_self_iff e, Bool.and_eq_true]
    exact ⟨fun h => ⟨by rw [← h.2]; rfl, h.1⟩, fun h => ⟨h.2, noName_of_isNone h.1⟩⟩
  | .unary k e l => by
    simp only [Tree.copy, noNames, Tree.unary.injEq, true_and, copy_eq_self_iff e, Bool.and_eq_true]
    exact ⟨fun h => ⟨by rw [← h.2]; rfl, h.1⟩, fun h => ⟨h.2, noName_of_isNone h.1⟩⟩
  | .orange k e i l => by
    simp only [Tree.copy, noNames, Tree.orange.injEq, true_and, copy_eq_self_iff e, Bool.and_eq_true]
    exact ⟨fun h => ⟨by rw [← h.2]; rfl, h.1⟩, fun h => ⟨h.2, noName_of_isNone h.1⟩⟩
  | .range a b il ih l => by
    simp only [Tree.copy, noNames, Tree.range.injEq, true_and, copy_eq_self_iff a,
      copy_eq_self_iff b, Bool.and_eq_true]
    exact ⟨fun h => ⟨⟨by rw [← h.2.2]; rfl, h.1⟩, h.2.1⟩,
      fun h => ⟨h.1.2, h.2, noName_of_isNone h.1.1⟩⟩
  | .op k xs l => by
    simp only [Tree.copy, noNames, Tree.op.injEq, true_and, copies_eq_self_iff xs, Bool.and_eq_true]
    exact ⟨fun h => ⟨by rw [← h.2]; rfl, h.1⟩, fun h => ⟨h.2, noName_of_isNone h.1⟩⟩
theorem copies_eq_self_iff : ∀ xs : List Tree, Tree.copies xs = xs ↔ noNamesList xs = true
  | [] => by simp [Tree.copies, noNamesList]
  | x :: r => by
    simp [Tree.copies, noNamesList, copy_eq_self_iff x, copies_eq_self_iff r]
end

example :
    (Tree.op .or [.term .word ['a'] { tail := [' '], name := some ['x'] },
                  .term .word ['b'] { head := [' '], pos := some 5 }] { name := some ['o'] }).copy
      = .op .or [.term .word ['a'] { tail := [' '] }, .term .word ['b'] { head := [' '], pos := some 5 }] {} :=
  rfl

end Luqum.Props.C08
