/-
  LX — re-lexing: when does a text assembled from token texts and separators lex back into exactly
  these tokens?  (Used by the properties about printing a tree and parsing the text again.)

  * `spelling` / `spelling_full`: the spelling theorem.  Pieces `(sep, kind, text)` with blank
    separators, valid token texts (`validTok`: the text alone lexes as one token of that kind) and
    the chain condition (`chainOK`: every token is followed by a text that does not change how it
    lexes, `followOK`) lex back into exactly these tokens, the separators becoming heads and tails
    as `HeadTailLexer` attaches them (`toksOf`).  `chainOK_of_gluesOK`: only the pieces without
    separator before them have to be checked (`glueOK`, plus `timeClash` for finding KF8).
  * converse: `lex_validTok`, `lex_adjacent_glueOK`, `lex_roundtrip`.
  * `relayout_keys`, `relayout_parse`: changing the separators.
  * trees: `Tree.pcs`, `tree_spelling`, `tree_keys`, `relex_tree`.
  The lemmas are in Luqum/Lemmas/Relex*.lean.
-/
import Luqum.Lemmas.RelexGlue
import Luqum.Props.C03b
import Luqum.Props.C01Num

namespace Luqum.Props.LX
open Luqum

/-! ### definitions (from Luqum/Lemmas/Relex*.lean) -/

export Luqum (Piece spell isBlank validTok followOK glueOK timeClash chainOK gluesOK toksOf nextSep
  piecesOf trailOf isTermKind PiecesOK)

/-- a piece: a token text with the separator written before it -/
example (p : Piece) : Piece.key p = (p.kind, p.text) := rfl

/-- the spelling: `sep ++ text` for every piece, then the trailing separator -/
example (p : Piece) (ps : List Piece) (trail : Str) :
    spell [] trail = trail ∧ spell (p :: ps) trail = p.sep ++ p.text ++ spell ps trail := ⟨rfl, rfl⟩

/-- blank: all characters are `\s` -/
example (w : Str) : isBlank w = w.all isSpace := rfl

/-- valid token text: alone, it lexes as exactly one token of that kind -/
example (k : TokK) (x : Str) : validTok k x = decide (lexOne [] x = some (.tok k x.length)) := rfl

/-- `followOK k x r`: the token `x` followed by the text `r` still lexes as `x`.  The exact
condition, per kind: -/
example (x r : Str) (c : Char) (r' : Str) :
    -- a term or a reserved word: `r` does not continue the `TERM_RE` loop
    followOK .term x r = termStops x.reverse r ∧
    followOK .andOp x r = termStops x.reverse r ∧
    termStops x.reverse [] = true ∧
    termStops x.reverse (c :: r') = (!isTermNext c && c != '\\' &&
      !(c == ':' && (tddR x.reverse || tmmR x.reverse) && startsDD r')) ∧
    -- `<`, `>`: no `=` after them; `<=`, `>=`: anything
    followOK .lessthan x (c :: r') = !(x.length == 1 && c == '=') ∧
    -- `~…`, `^…`: no digit or dot after them
    followOK .approx x (c :: r') = !isNumChar c ∧
    followOK .boost x (c :: r') = !isNumChar c ∧
    -- anything after punctuation, phrases and regexes
    followOK .column x r = true ∧ followOK .lparen x r = true ∧ followOK .phrase x r = true ∧
    followOK .regex x r = true ∧ followOK .plus x r = true ∧ followOK .rbracket x r = true :=
  ⟨rfl, rfl, rfl, rfl, rfl, rfl, rfl, rfl, rfl, rfl, rfl, rfl, rfl⟩

/-- `glueOK` is `followOK` against the next token text alone; the chain condition checks every
token against all the text after it -/
example (k₁ k₂ : TokK) (x₁ x₂ : Str) : glueOK k₁ x₁ k₂ x₂ = followOK k₁ x₁ x₂ := rfl
example (p : Piece) (ps : List Piece) (trail : Str) :
    chainOK [] trail = true ∧
    chainOK (p :: ps) trail = (followOK p.kind p.text (spell ps trail) && chainOK ps trail) :=
  ⟨rfl, rfl⟩

/-- the expected tokens: the separator before the first token is its head, every other separator is
the tail of the token before it; positions are offsets in the spelling -/
example (p : Piece) (ps : List Piece) (trail : Str) (pos : Nat) (first : Bool) :
    toksOf pos first [] trail = [] ∧
    toksOf pos first (p :: ps) trail =
      { kind := p.kind, text := p.text, pos := pos + p.sep.length,
        head := if first then p.sep else [], tail := nextSep ps trail } ::
        toksOf (pos + p.sep.length + p.text.length) false ps trail := ⟨rfl, rfl⟩

/-! ### (1) the spelling theorem -/

/-- **spelling theorem, full form**: the whole output of the lexer on a spelling, heads, tails and
positions included -/
theorem spelling_full (ps : List Piece) (trail : Str)
    (htrail : isBlank trail = true)
    (hsep : ∀ p ∈ ps, isBlank p.sep = true)
    (hvalid : ∀ p ∈ ps, validTok p.kind p.text = true)
    (hchain : chainOK ps trail = true) :
    lex (spell ps trail) = (toksOf 0 true ps trail, none) :=
  lex_spell ps trail ⟨htrail, hsep, hvalid, hchain⟩

/-- **spelling theorem**: no illegal character, and the token keys are those of the pieces -/
theorem spelling (ps : List Piece) (trail : Str)
    (htrail : isBlank trail = true)
    (hsep : ∀ p ∈ ps, isBlank p.sep = true)
    (hvalid : ∀ p ∈ ps, validTok p.kind p.text = true)
    (hchain : chainOK ps trail = true) :
    (lex (spell ps trail)).2 = none ∧
    (lex (spell ps trail)).1.map tokKey = ps.map fun p => (p.kind, p.text) := by
  rw [spelling_full ps trail htrail hsep hvalid hchain]
  exact ⟨rfl, toksOf_keys 0 true ps trail⟩

/-- heads and tails: the first token's head is the first separator, no other token has a head, the
tail of a token is the separator of the next piece (the trailing separator for the last token), and
the position of the first token is the length of the first separator -/
theorem spelling_heads_tails (p : Piece) (ps : List Piece) (trail : Str)
    (htrail : isBlank trail = true)
    (hsep : ∀ q ∈ p :: ps, isBlank q.sep = true)
    (hvalid : ∀ q ∈ p :: ps, validTok q.kind q.text = true)
    (hchain : chainOK (p :: ps) trail = true) :
    ∃ t ts, (lex (spell (p :: ps) trail)).1 = t :: ts ∧
      t.head = p.sep ∧ t.pos = p.sep.length ∧ t.tail = nextSep ps trail ∧
      (∀ u ∈ ts, u.head = []) ∧
      piecesOf (t :: ts) = p :: ps ∧ trailOf (t :: ts) = trail := by
  rw [spelling_full _ trail htrail hsep hvalid hchain]
  refine ⟨_, _, rfl, rfl, by simp, rfl, ?_, ?_, ?_⟩
  · have : ∀ (qs : List Piece) (pos : Nat), ∀ u ∈ toksOf pos false qs trail, u.head = [] := by
      intro qs
      induction qs with
      | nil => intro pos u hu; simp [toksOf] at hu
      | cons q qs ih =>
        intro pos u hu
        simp only [toksOf, List.mem_cons] at hu
        rcases hu with rfl | hu
        · rfl
        · exact ih _ u hu
    exact this _ _
  · exact piecesOf_toksOf (p :: ps) trail
  · exact trailOf_toksOf trail (p :: ps) 0 true (by simp)

/-- **local form of the chain condition**: only the pieces that have no separator before them
need a check, against the piece before (`glueOK`) and, for a term, against the time-expression
clash with the text that follows (`timeClash`, finding KF8) -/
theorem chainOK_of_gluesOK (ps : List Piece) (trail : Str)
    (htrail : isBlank trail = true)
    (hsep : ∀ p ∈ ps, isBlank p.sep = true)
    (hvalid : ∀ p ∈ ps, validTok p.kind p.text = true)
    (hglue : gluesOK ps trail = true) : chainOK ps trail = true :=
  Luqum.chainOK_of_gluesOK ps trail htrail hsep hvalid hglue

example (p q : Piece) (rest : List Piece) (trail : Str) :
    gluesOK (p :: q :: rest) trail =
      ((!q.sep.isEmpty ||
        (glueOK p.kind p.text q.kind q.text &&
          !(isTermKind p.kind && timeClash p.text (q.text ++ spell rest trail)))) &&
      gluesOK (q :: rest) trail) := rfl
example (x r : Str) : timeClash x r = ((tddR x.reverse || tmmR x.reverse) && secOK r) := rfl

/-- with a separator before every piece but the first, nothing needs to be checked -/
theorem gluesOK_of_seps (ps : List Piece) (trail : Str) (h : ∀ p ∈ ps.tail, p.sep ≠ []) :
    gluesOK ps trail = true := Luqum.gluesOK_of_seps ps trail h

/-- a blank after a token never changes how it lexes; a blank (or a token that is not a term)
before a term blocks the look-behind `(?<=T\d{2})` of the term rule -/
theorem blank_follows (k : TokK) (x : Str) (c : Char) (r : Str) (hc : isSpace c = true) :
    followOK k x (c :: r) = true := followOK_blank k x r hc

/-- **one token in context**: when is `lexOne prev (x ++ r)` independent of `prev` and `r`? For a
valid token text `x`: when `followOK k x r`, and, for a term, when the text consumed before does not
end with `T` or `T\d` (`boundOK`; true after a blank and after any valid token that is not a term) -/
theorem token_in_context (k : TokK) (x r prev : Str) (hv : validTok k x = true)
    (hf : followOK k x r = true) (hb : isTermKind k = true → boundOK prev = true) :
    lexOne prev (x ++ r) = some (.tok k x.length) := lexOne_ctx hv hf hb

theorem boundOK_after_blank (c : Char) (prev : Str) (hc : isSpace c = true) :
    boundOK (c :: prev) = true := boundOK_blank prev hc

theorem boundOK_after_token (k : TokK) (x prev : Str) (hv : validTok k x = true)
    (hk : isTermKind k = false) : boundOK (x.reverse ++ prev) = true := by
  rcases validTok_cases hv with ⟨hk', _⟩ | ⟨_, hb⟩
  · rw [hk] at hk'; cases hk'
  · exact hb prev

/-! ### (1) converse direction -/

/-- **(a)** every token the lexer produces (with or without lexer error) is a valid token text -/
theorem lex_validTok (s : Str) : ∀ t ∈ (lex s).1, validTok t.kind t.text = true :=
  Luqum.lex_validTok s

/-- **(b)** adjacent tokens of an input without illegal character that are not separated (the
first has an empty tail) satisfy `glueOK` -/
theorem lex_adjacent_glueOK (s : Str) (h : (lex s).2 = none) (l₁ : List Tok) (t₁ t₂ : Tok)
    (l₂ : List Tok) (hsplit : (lex s).1 = l₁ ++ t₁ :: t₂ :: l₂) (htail : t₁.tail = []) :
    glueOK t₁.kind t₁.text t₂.kind t₂.text = true :=
  Luqum.lex_adjacent_glueOK s h l₁ t₁ t₂ l₂ hsplit htail

/-- **round trip**: an input without illegal character and with at least one token is the spelling
of the pieces of its tokens, and these pieces satisfy all the hypotheses of the spelling theorem
(blank separators, valid texts, chain condition) -/
theorem lex_roundtrip (s : Str) (h : (lex s).2 = none) (hne : (lex s).1 ≠ []) :
    s = spell (piecesOf (lex s).1) (trailOf (lex s).1) ∧
    isBlank (trailOf (lex s).1) = true ∧
    (∀ p ∈ piecesOf (lex s).1, isBlank p.sep = true) ∧
    (∀ p ∈ piecesOf (lex s).1, validTok p.kind p.text = true) ∧
    chainOK (piecesOf (lex s).1) (trailOf (lex s).1) = true := by
  obtain ⟨h1, h2⟩ := Luqum.lex_roundtrip s h hne
  exact ⟨h1, h2.blankTrail, h2.blank, h2.valid, h2.chain⟩

/-- any input without illegal character is a spelling of pieces that satisfy the hypotheses of the
spelling theorem (also a blank input: no piece) -/
theorem lex_decomp (s : Str) (h : (lex s).2 = none) :
    ∃ ps trail, s = spell ps trail ∧ isBlank trail = true ∧ (∀ p ∈ ps, isBlank p.sep = true) ∧
      (∀ p ∈ ps, validTok p.kind p.text = true) ∧ chainOK ps trail = true := by
  obtain ⟨ps, trail, h1, h2⟩ := Luqum.lex_decomp s h
  exact ⟨ps, trail, h1, h2.blankTrail, h2.blank, h2.valid, h2.chain⟩

/-! ### (1c) changing the separators -/

/-- **separator replacement**: two spellings of the same token texts with different blank
separators, each satisfying the chain condition (in particular: every separator that was emptied
passes `gluesOK`), have the same token keys and no illegal character -/
theorem relayout_keys (ps₁ ps₂ : List Piece) (trail₁ trail₂ : Str)
    (hkeys : ps₁.map Piece.key = ps₂.map Piece.key)
    (h₁ : PiecesOK ps₁ trail₁) (h₂ : PiecesOK ps₂ trail₂) :
    (lex (spell ps₁ trail₁)).1.map tokKey = (lex (spell ps₂ trail₂)).1.map tokKey ∧
    (lex (spell ps₁ trail₁)).2 = none ∧ (lex (spell ps₂ trail₂)).2 = none := by
  rw [lex_spell ps₁ trail₁ h₁, lex_spell ps₂ trail₂ h₂]
  exact ⟨by simp only [toksOf_keys, hkeys], rfl, rfl⟩

/-- **re-layout of a parsed input**: if `s₁` parses to `t₁`, any spelling of the same token keys
with blank separators that satisfies the chain condition (e.g. through `gluesOK`) parses to an equal
tree.  (The validity of the token texts comes from `lex_validTok`.) -/
theorem relayout_parse (s₁ : Str) (t₁ : Tree) (ps₂ : List Piece) (trail₂ : Str)
    (hparse : parse s₁ = .ok t₁)
    (hkeys : ps₂.map Piece.key = (lex s₁).1.map tokKey)
    (htrail : isBlank trail₂ = true)
    (hsep : ∀ p ∈ ps₂, isBlank p.sep = true)
    (hchain : chainOK ps₂ trail₂ = true) :
    ∃ t₂, parse (spell ps₂ trail₂) = .ok t₂ ∧ t₁.eqv t₂ = true := by
  have hvalid : ∀ p ∈ ps₂, validTok p.kind p.text = true := by
    intro p hp
    have : Piece.key p ∈ (lex s₁).1.map tokKey := by
      rw [← hkeys]; exact List.mem_map_of_mem hp
    obtain ⟨t, ht, he⟩ := List.mem_map.1 this
    have := Luqum.lex_validTok s₁ t ht
    simp only [tokKey, Piece.key, Prod.mk.injEq] at he
    rw [← he.1, ← he.2]; exact this
  obtain ⟨h2, hk2⟩ := spelling ps₂ trail₂ htrail hsep hvalid hchain
  refine C03b.layout_independent s₁ (spell ps₂ trail₂) t₁ ?_ h2 hparse
  rw [hk2, ← hkeys]; rfl

/-- the same with the local condition `gluesOK` -/
theorem relayout_parse_glue (s₁ : Str) (t₁ : Tree) (ps₂ : List Piece) (trail₂ : Str)
    (hparse : parse s₁ = .ok t₁)
    (hkeys : ps₂.map Piece.key = (lex s₁).1.map tokKey)
    (htrail : isBlank trail₂ = true)
    (hsep : ∀ p ∈ ps₂, isBlank p.sep = true)
    (hglue : gluesOK ps₂ trail₂ = true) :
    ∃ t₂, parse (spell ps₂ trail₂) = .ok t₂ ∧ t₁.eqv t₂ = true := by
  have hvalid : ∀ p ∈ ps₂, validTok p.kind p.text = true := by
    intro p hp
    have : Piece.key p ∈ (lex s₁).1.map tokKey := by
      rw [← hkeys]; exact List.mem_map_of_mem hp
    obtain ⟨t, ht, he⟩ := List.mem_map.1 this
    have := Luqum.lex_validTok s₁ t ht
    simp only [tokKey, Piece.key, Prod.mk.injEq] at he
    rw [← he.1, ← he.2]; exact this
  exact relayout_parse s₁ t₁ ps₂ trail₂ hparse hkeys htrail hsep
    (Luqum.chainOK_of_gluesOK ps₂ trail₂ htrail hsep hvalid hglue)

/-! ### (2) trees as spellings -/

/- `Tree.pcs s t pre` (Luqum/Lemmas/RelexTree.lean): the pieces of the printed tree and the separator
left after its last token; the separators are made of the heads and tails of the nodes (a head goes
before the first token of its node, a tail after the last one; `pre` is a pending separator) -/

example (v : Str) (l : Lay) (pre : Str) (s : NumStyle) :
    (Tree.term .word v l).pcs s pre = ([⟨pre ++ l.head, reservedKind v, v⟩], l.tail) := rfl
example (n : Str) (e : Tree) (l : Lay) (pre : Str) (s : NumStyle) :
    (Tree.field n e l).pcs s pre =
      (⟨pre ++ l.head, .term, n⟩ :: ⟨[], .column, [':']⟩ :: (e.pcs s []).1, (e.pcs s []).2 ++ l.tail) :=
  rfl
example (k : ApxK) (t : Tree) (n : Num) (l : Lay) (pre : Str) (s : NumStyle) :
    (Tree.approx k t n l).pcs s pre =
      ((t.pcs s (pre ++ l.head)).1 ++ [⟨(t.pcs s (pre ++ l.head)).2, .approx, '~' :: n.text s⟩],
        l.tail) := rfl

/-- the pieces of a tree, and the separator after its last token -/
def treePieces (s : NumStyle) (t : Tree) : List Piece := (t.pcs s []).1
def treeTrail (s : NumStyle) (t : Tree) : Str := (t.pcs s []).2

/-- **the printed tree is the spelling of its pieces** (any tree, either style of numerals) -/
theorem tree_spelling (s : NumStyle) (t : Tree) :
    t.full s = spell (treePieces s t) (treeTrail s t) := Tree.full_eq_spell s t

/-- **the keys of the pieces, numerals in their source spelling, are the yield of the tree** -/
theorem tree_keys (t : Tree) : (treePieces .raw t).map Piece.key = yield t := Tree.pcs_keys t []

/-- blank layout: every head and tail that is printed is blank (`NoneItem` prints neither) -/
abbrev WsLayout (t : Tree) : Prop := t.blankLayout = true

example (k : TermK) (v : Str) (l : Lay) :
    (Tree.term k v l).blankLayout = (isBlank l.head && isBlank l.tail) := rfl
example (k : OpK) (xs : List Tree) (l : Lay) :
    (Tree.op k xs l).blankLayout = (isBlank l.head && isBlank l.tail && Tree.blankLayouts xs) := rfl
example (l : Lay) : (Tree.none l).blankLayout = true := rfl

/-- with a blank layout all the separators of the pieces are blank -/
theorem tree_seps_blank (s : NumStyle) (t : Tree) (h : WsLayout t) :
    (∀ p ∈ treePieces s t, isBlank p.sep = true) ∧ isBlank (treeTrail s t) = true :=
  Tree.pcs_blank s t [] rfl h

/-- the adjacency condition of a tree, computed from its pieces -/
def treeGluesOK (s : NumStyle) (t : Tree) : Bool := gluesOK (treePieces s t) (treeTrail s t)

/-- **re-lexing a printed tree, full form** (either style of numerals): with a blank layout, valid
token texts and the adjacency condition, the lexer gives exactly the pieces of the tree, heads,
tails and positions included -/
theorem relex_tree_full (s : NumStyle) (t : Tree) (hws : WsLayout t)
    (hvalid : ∀ p ∈ treePieces s t, validTok p.kind p.text = true)
    (hglue : treeGluesOK s t = true) :
    lex (t.full s) = (toksOf 0 true (treePieces s t) (treeTrail s t), none) := by
  obtain ⟨h1, h2⟩ := tree_seps_blank s t hws
  rw [tree_spelling s t]
  exact spelling_full _ _ h2 h1 hvalid (Luqum.chainOK_of_gluesOK _ _ h2 h1 hvalid hglue)

/-- **re-lexing a printed tree** (numerals in their source spelling): with a blank layout, valid
token texts and the adjacency condition, the text lexes without illegal character into the yield of
the tree -/
theorem relex_tree (t : Tree) (hws : WsLayout t)
    (hvalid : ∀ kx ∈ yield t, validTok kx.1 kx.2 = true)
    (hglue : treeGluesOK .raw t = true) :
    (lex (t.full .raw)).2 = none ∧ (lex (t.full .raw)).1.map tokKey = yield t := by
  have hv : ∀ p ∈ treePieces .raw t, validTok p.kind p.text = true := by
    intro p hp
    exact hvalid (Piece.key p) (by rw [← tree_keys t]; exact List.mem_map_of_mem hp)
  rw [relex_tree_full .raw t hws hv hglue]
  exact ⟨rfl, by rw [toksOf_keys, tree_keys]⟩

/-- the same for the implementation's spelling of numerals (`str(tree)` with heads and tails): the
token keys are those of the pieces -/
theorem relex_tree_norm (t : Tree) (hws : WsLayout t)
    (hvalid : ∀ p ∈ treePieces .norm t, validTok p.kind p.text = true)
    (hglue : treeGluesOK .norm t = true) :
    (lex t.strHT).2 = none ∧ (lex t.strHT).1.map tokKey = (treePieces .norm t).map Piece.key := by
  unfold Tree.strHT
  rw [relex_tree_full .norm t hws hvalid hglue]
  exact ⟨rfl, toksOf_keys _ _ _ _⟩

/-- **re-parsing a printed tree**: if some input parses to `t₁` and the tree `t` has the same
yield (e.g. `t` is `t₁` with another layout), a blank layout and the adjacency condition, then the
printed `t` parses to a tree equal to `t₁` -/
theorem reparse_tree (s₁ : Str) (t₁ t : Tree) (hparse : parse s₁ = .ok t₁) (hy : yield t = yield t₁)
    (hws : WsLayout t) (hglue : treeGluesOK .raw t = true) :
    ∃ t₂, parse (t.full .raw) = .ok t₂ ∧ t₁.eqv t₂ = true := by
  obtain ⟨h1, h2⟩ := tree_seps_blank .raw t hws
  rw [tree_spelling .raw t]
  refine relayout_parse_glue s₁ t₁ _ _ hparse ?_ h2 h1 hglue
  rw [tree_keys, hy, Luqum.parse_yield s₁ t₁ hparse]

/-! ### numerals printed by the implementation -/

theorem validTok_suffix (m : Char) (k : TokK) (cs : Str)
    (hm : (m = '~' ∧ k = .approx) ∨ (m = '^' ∧ k = .boost))
    (h : ∀ c ∈ cs, isNumChar c = true) : validTok k (m :: cs) = true := by
  have htw : cs.takeWhile isNumChar = cs := by
    have := takeWhile_append_stop (p := isNumChar) (xs := cs) (r := []) h (by intro c r hr; cases hr)
    simpa using this
  rcases hm with ⟨rfl, rfl⟩ | ⟨rfl, rfl⟩
  · simp only [validTok, decide_eq_true_eq, lexOne_tilde, suffixLen, if_true, htw, Option.map_some,
      List.length_cons]
    rw [Nat.add_comm]
  · simp only [validTok, decide_eq_true_eq, lexOne_caret, suffixLen, if_true, htw, Option.map_some,
      List.length_cons]
    rw [Nat.add_comm]

theorem plain_numChars (x : Str) (h : C01Num.isPlainDecimal x = true) : ∀ c ∈ x, isNumChar c = true := by
  have hd : ∀ c, isDigitC c = true → isNumChar c = true := by
    intro c hc; unfold isDigitC at hc; simp [isNumChar, hc]
  rcases (C01Num.isPlainDecimal_iff x).1 h with ⟨_, h⟩ | ⟨ip, fp, rfl, _, _, h1, h2⟩
  · exact fun c hc => hd c (h c hc)
  · intro c hc
    simp only [List.mem_append, List.mem_cons] at hc
    rcases hc with hc | rfl | hc
    · exact hd c (h1 c hc)
    · decide
    · exact hd c (h2 c hc)

/-- the `~…` / `^…` token the implementation prints for an unsigned number (or an implicit one) is a
valid token text -/
theorem validTok_approx_shown (n : Num) (hn : n.val.neg = false) :
    validTok .approx ('~' :: n.shown) = true := by
  refine validTok_suffix '~' .approx _ (Or.inl ⟨rfl, rfl⟩) ?_
  unfold Num.shown
  split
  · simp
  · exact plain_numChars _ (C01Num.render_plain_of_unsigned n.val hn)

theorem validTok_boost_shown (n : Num) (hn : n.val.neg = false) :
    validTok .boost ('^' :: n.shown) = true := by
  refine validTok_suffix '^' .boost _ (Or.inr ⟨rfl, rfl⟩) ?_
  unfold Num.shown
  split
  · simp
  · exact plain_numChars _ (C01Num.render_plain_of_unsigned n.val hn)

/-! ### (3) non-vacuity and negative witnesses (kernel-checked) -/

/-- the hypotheses of the spelling theorem as one Bool -/
def piecesOKb (ps : List Piece) (trail : Str) : Bool :=
  isBlank trail && ps.all (fun p => isBlank p.sep && validTok p.kind p.text) && gluesOK ps trail

theorem spelling_of_check (ps : List Piece) (trail : Str) (h : piecesOKb ps trail = true) :
    lex (spell ps trail) = (toksOf 0 true ps trail, none) := by
  simp only [piecesOKb, Bool.and_eq_true, List.all_eq_true] at h
  obtain ⟨⟨h1, h2⟩, h3⟩ := h
  exact spelling_full ps trail h1 (fun p hp => (h2 p hp).1) (fun p hp => (h2 p hp).2)
    (Luqum.chainOK_of_gluesOK ps trail h1 (fun p hp => (h2 p hp).1) (fun p hp => (h2 p hp).2) h3)

private def pc (sep : String) (k : TokK) (text : String) : Piece := ⟨sep.toList, k, text.toList⟩

/-- a spelling with every kind of token, glued wherever it is allowed -/
private def sample : List Piece :=
  [pc " " .term "f", pc "" .column ":", pc "" .lparen "(", pc "" .term "a", pc " " .andOp "AND",
   pc " " .phrase "\"x y\"", pc "" .approx "~2", pc "" .rparen ")", pc "" .boost "^3.5",
   pc " " .lbracket "[", pc "" .term "1", pc " " .to "TO", pc " " .term "5", pc "" .rbracket "}",
   pc "" .minus "-", pc "" .term "z", pc " " .lessthan "<=", pc "" .term "4",
   pc " " .term "T12", pc " " .column ":", pc "" .term "30", pc " \t" .plus "+", pc "" .regex "/r/",
   pc " " .not "NOT", pc " " .term "b", pc " " .lessthan "<", pc "" .term "c"]

/-- non-vacuity: the hypotheses hold for `sample`; the spelling is the expected text and lexes into
the pieces -/
example : piecesOKb sample " ".toList = true := by decide +kernel
example : spell sample " ".toList =
    " f:(a AND \"x y\"~2)^3.5 [1 TO 5}-z <=4 T12 :30 \t+/r/ NOT b <c ".toList := by decide +kernel
example : (lex (spell sample " ".toList)).1.map tokKey = sample.map Piece.key :=
  (spelling sample _ (by decide +kernel)
    (fun p hp => by
      have : (sample.all fun p => isBlank p.sep) = true := by decide +kernel
      exact List.all_eq_true.1 this p hp)
    (fun p hp => by
      have : (sample.all fun p => validTok p.kind p.text) = true := by decide +kernel
      exact List.all_eq_true.1 this p hp)
    (by decide +kernel)).2

/-- and the statement agrees with running the lexer -/
example : lex (spell sample " ".toList) = (toksOf 0 true sample " ".toList, none) := by
  decide +kernel

/-- what is and is not a valid token text -/
example : validTok .term "foo".toList = true ∧ validTok .term "T12:30:45".toList = true ∧
    validTok .term "a\\ b".toList = true ∧ validTok .andOp "AND".toList = true ∧
    validTok .term "AND".toList = false ∧ validTok .term "a b".toList = false ∧
    validTok .term "12:30".toList = false ∧ validTok .phrase "\"a\" \"b\"".toList = false ∧
    validTok .approx "~1.5".toList = true ∧ validTok .approx "~1a".toList = false ∧
    validTok .lessthan "<=".toList = true ∧ validTok .lessthan "<=<".toList = false ∧
    validTok .term [] = false := by decide +kernel

/-- **KF8, `T12:30`**: all three texts are valid, each pair passes `glueOK`, but the three together
are a time-expression clash: `gluesOK` rejects them, rightly: the text lexes as one word -/
example :
    let ps := [pc "" .term "T12", pc "" .column ":", pc "" .term "30"]
    (ps.all fun p => validTok p.kind p.text) = true ∧
    glueOK .term "T12".toList .column ":".toList = true ∧
    glueOK .column ":".toList .term "30".toList = true ∧
    timeClash "T12".toList ":30".toList = true ∧
    gluesOK ps [] = false ∧ chainOK ps [] = false ∧
    (lex (spell ps [])).1.map tokKey = [(.term, "T12:30".toList)] := by decide +kernel

/-- with a blank anywhere the clash disappears -/
example :
    piecesOKb [pc "" .term "T12", pc " " .column ":", pc "" .term "30"] [] = true ∧
    piecesOKb [pc "" .term "T12", pc "" .column ":", pc " " .term "30"] [] = true ∧
    piecesOKb [pc "" .term "T1", pc " " .term "2", pc "" .column ":", pc "" .term "30"] [] = true := by
  decide +kernel

/-- the seconds: `T12:30` glued to `:` and `45` is one word too -/
example :
    let ps := [pc "" .term "T12:30", pc "" .column ":", pc "" .term "45"]
    (ps.all fun p => validTok p.kind p.text) = true ∧ gluesOK ps [] = false ∧
    (lex (spell ps [])).1.map tokKey = [(.term, "T12:30:45".toList)] := by decide +kernel

/-- `<` glued to a text that starts with `=` -/
example :
    validTok .lessthan "<".toList = true ∧ validTok .term "=b".toList = true ∧
    glueOK .lessthan "<".toList .term "=b".toList = false ∧
    (lex "<=b".toList).1.map tokKey = [(.lessthan, "<=".toList), (.term, "b".toList)] ∧
    glueOK .lessthan "<=".toList .term "=b".toList = true := by decide +kernel

/-- a term glued to a reserved word (a lexeme is reserved only as a whole) -/
example :
    glueOK .term "a".toList .andOp "AND".toList = false ∧
    (lex "aAND".toList).1.map tokKey = [(.term, "aAND".toList)] ∧
    glueOK .andOp "AND".toList .term "a".toList = false ∧
    glueOK .andOp "AND".toList .lparen "(".toList = true := by decide +kernel

/-- `a~` glued to `2`: the digit joins the `~` token -/
example :
    glueOK .approx "~".toList .term "2".toList = false ∧
    (lex "a~2".toList).1.map tokKey = [(.term, "a".toList), (.approx, "~2".toList)] ∧
    glueOK .approx "~".toList .term "b".toList = true ∧
    (lex "a~b".toList).1.map tokKey =
      [(.term, "a".toList), (.approx, "~".toList), (.term, "b".toList)] := by decide +kernel

/-- a term followed by a phrase, a regex, `+`, `-`, `<`, `>` goes on; followed by
`( ) : ^ ~ [ ] { }` it stops -/
example :
    (["\"p\"", "/r/", "+", "-", "<", ">", "b", "\\("].all fun x =>
      !glueOK .term "a".toList .term x.toList) = true ∧
    (["(", ")", ":", "^2", "~", "[", "]", "{", "}"].all fun x =>
      glueOK .term "a".toList .term x.toList) = true := by decide +kernel

/-- trees: the parse tree of an input, printed, is the spelling of its pieces; the hypotheses of
`relex_tree` hold for it -/
example :
    (match parse " f :(a AND \"x y\"~2)^3.5 [1 TO 5}-z <=4 ".toList with
     | .ok t => t.blankLayout && treeGluesOK .raw t &&
         (yield t).all (fun kx => validTok kx.1 kx.2) &&
         decide (t.full .raw = spell (treePieces .raw t) (treeTrail .raw t)) &&
         decide ((treePieces .raw t).map Piece.key = yield t) &&
         decide ((lex (t.full .raw)).1.map tokKey = yield t)
     | .error _ => false) = true := by decide +kernel

/-- a tree built by hand whose printed form does not lex back into its yield: a field `T12` whose
value `30` has no head (KF8), rejected by `treeGluesOK`; with a blank head it is accepted -/
example :
    let t (h : String) : Tree := .field "T12".toList (.term .word "30".toList { head := h.toList }) {}
    treeGluesOK .raw (t "") = false ∧
    (lex ((t "").full .raw)).1.map tokKey ≠ yield (t "") ∧
    (t " ").blankLayout = true ∧ treeGluesOK .raw (t " ") = true ∧
    (lex ((t " ").full .raw)).1.map tokKey = yield (t " ") := by decide +kernel

/-- the converse direction on an input: its tokens are valid, and it is the spelling of their
pieces -/
example :
    let s := "  a AND(f:[1 TO  5}^2.50 OR\"x y\"~3 )-z T12:30 ".toList
    ((lex s).1.all fun t => validTok t.kind t.text) = true ∧
    s = spell (piecesOf (lex s).1) (trailOf (lex s).1) ∧
    chainOK (piecesOf (lex s).1) (trailOf (lex s).1) = true := by decide +kernel

end Luqum.Props.LX
