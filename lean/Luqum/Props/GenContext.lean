/-
  Translator obligations (G13): the context a child is visited with.

  `Luqum/Generated/Context.lean` is produced on every run by symbolic execution (tools/pysym.py) of `child_context`
  of `TreeVisitor`, `TreeTransformer`, `PathTrackingVisitor` and `PathTrackingTransformer` (luqum/visitor.py) -- the
  `super()` chain through `PathTrackingMixin` included -- below the root (the parent's context carries `parents`,
  `new_parents`, `path` and a foreign key) and at the root (the context as `visit` makes it). The theorems say that
  these are exactly the arguments of the recursive calls of the model (`visitEvents`, `preorder` in
  Model/Visitor.lean: `parents ++ [t]`, `path ++ [i]`), that the child gets a NEW dictionary in which foreign keys are
  kept, and that without `track_parents` nothing is appended.
-/
import Luqum.Generated.Context
import Luqum.Model.Visitor

namespace Luqum.Props.GenContext
open Luqum Generated

/-- below the root, a tracking visitor hands the child its parents extended by the node and the path extended by
the child's index: the arguments of the model's recursive calls -/
theorem child_context_tracks (node child newNode : Tree) (other : Str) (ps nps : List Tree) (path : List Int)
    (i : Int) (trackNew : Bool) :
    Context.child_context_PathTrackingVisitor_inner true trackNew node child newNode other ps nps path i
      = .ok { parents := some (ps ++ [node]), newParents := some nps, path := some (path ++ [i]), otherKept := true } ∧
    Context.child_context_TreeVisitor_inner true trackNew node child newNode other ps nps
      = .ok { parents := some (ps ++ [node]), newParents := some nps, path := none, otherKept := true } := by
  simp [Context.child_context_PathTrackingVisitor_inner, Context.child_context_TreeVisitor_inner]

/-- the transformers also extend `new_parents` by the copy being built, when asked to -/
theorem child_context_transformer (node child newNode : Tree) (other : Str) (ps nps : List Tree) (path : List Int)
    (i : Int) :
    Context.child_context_PathTrackingTransformer_inner true true node child newNode other ps nps path i
      = .ok { parents := some (ps ++ [node]), newParents := some (nps ++ [newNode]), path := some (path ++ [i]),
              otherKept := true } ∧
    Context.child_context_TreeTransformer_inner true true node child newNode other ps nps
      = .ok { parents := some (ps ++ [node]), newParents := some (nps ++ [newNode]), path := none,
              otherKept := true } ∧
    Context.child_context_PathTrackingTransformer_inner false false node child newNode other ps nps path i
      = .ok { parents := some ps, newParents := some nps, path := some (path ++ [i]), otherKept := true } := by
  simp [Context.child_context_PathTrackingTransformer_inner, Context.child_context_TreeTransformer_inner]

/-- at the root there are no parents yet (`context.get("parents", ())`) and the path is `()` -/
theorem child_context_root (node child newNode : Tree) (other : Str) (i : Int) :
    Context.child_context_PathTrackingVisitor_root true false node child newNode other i
      = .ok { parents := some [node], newParents := none, path := some [i], otherKept := true } ∧
    Context.child_context_PathTrackingTransformer_root true true node child newNode other i
      = .ok { parents := some [node], newParents := some [newNode], path := some [i], otherKept := true } ∧
    Context.child_context_TreeVisitor_root false false node child newNode other
      = .ok { parents := none, newParents := none, path := none, otherKept := true } := by
  simp [Context.child_context_PathTrackingVisitor_root, Context.child_context_PathTrackingTransformer_root,
    Context.child_context_TreeVisitor_root]

/-- in every situation the child's context is a new dictionary that keeps the foreign keys of the parent's, and no
call raises -/
theorem child_context_keeps_other (tp tn : Bool) (node child newNode : Tree) (other : Str) (ps nps : List Tree)
    (path : List Int) (i : Int) :
    (∃ o, Context.child_context_TreeVisitor_inner tp tn node child newNode other ps nps = .ok o ∧ o.otherKept = true) ∧
    (∃ o, Context.child_context_TreeVisitor_root tp tn node child newNode other = .ok o ∧ o.otherKept = true) ∧
    (∃ o, Context.child_context_TreeTransformer_inner tp tn node child newNode other ps nps = .ok o ∧
      o.otherKept = true) ∧
    (∃ o, Context.child_context_TreeTransformer_root tp tn node child newNode other = .ok o ∧ o.otherKept = true) ∧
    (∃ o, Context.child_context_PathTrackingVisitor_inner tp tn node child newNode other ps nps path i = .ok o ∧
      o.otherKept = true) ∧
    (∃ o, Context.child_context_PathTrackingVisitor_root tp tn node child newNode other i = .ok o ∧
      o.otherKept = true) ∧
    (∃ o, Context.child_context_PathTrackingTransformer_inner tp tn node child newNode other ps nps path i = .ok o ∧
      o.otherKept = true) ∧
    (∃ o, Context.child_context_PathTrackingTransformer_root tp tn node child newNode other i = .ok o ∧
      o.otherKept = true) := by
  cases tp <;> cases tn <;>
    simp [Context.child_context_TreeVisitor_inner, Context.child_context_TreeVisitor_root,
      Context.child_context_TreeTransformer_inner, Context.child_context_TreeTransformer_root,
      Context.child_context_PathTrackingVisitor_inner, Context.child_context_PathTrackingVisitor_root,
      Context.child_context_PathTrackingTransformer_inner, Context.child_context_PathTrackingTransformer_root]

/-- the model's traversal of a one-child node calls itself with exactly the translated child context -/
theorem preorder_field_uses_child_context (ps : List Tree) (p : List Nat) (n : Str) (e : Tree) (l : Lay)
    (child newNode : Tree) (other : Str) (nps : List Tree) :
    ∃ o, Context.child_context_PathTrackingVisitor_inner true false (.field n e l) child newNode other ps nps
           (p.map Int.ofNat) 0 = .ok o ∧
      o.parents = some (ps ++ [.field n e l]) ∧ o.path = some ((p ++ [0]).map Int.ofNat) ∧
      preorder ps p (.field n e l) = (.field n e l, ps, p) :: preorder (ps ++ [.field n e l]) (p ++ [0]) e := by
  refine ⟨_, rfl, rfl, ?_, ?_⟩
  · simp
  · simp [preorder]

/-- ... and for the `i`-th operand of an operation -/
theorem preorderList_uses_child_context (ps : List Tree) (p : List Nat) (i : Nat) (x : Tree) (r : List Tree)
    (node child newNode : Tree) (other : Str) (nps : List Tree) :
    ∃ o, Context.child_context_PathTrackingVisitor_inner true false node child newNode other ps nps
           (p.map Int.ofNat) i = .ok o ∧
      o.path = some ((p ++ [i]).map Int.ofNat) ∧
      preorderList (ps ++ [node]) p i (x :: r)
        = preorder (ps ++ [node]) (p ++ [i]) x ++ preorderList (ps ++ [node]) p (i + 1) r := by
  refine ⟨_, rfl, ?_, ?_⟩
  · simp
  · simp [preorderList]

theorem context_names_complete : Context.contextNames.length = 8 := by decide

end Luqum.Props.GenContext
