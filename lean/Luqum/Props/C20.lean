/-
  C20 — `LuceneCheck` is total and consistent (`__call__` ⇔ `errors` is empty), accepts exactly the
  well-formed trees, and finds an ill-formed construct wherever it sits.

  The facts about the generated method table (which `check_*` method each of the 20 classes reaches
  through its MRO, and whether it is wrapped by `_check_children`) are in Lemmas/CheckLemmas.
-/
import Luqum.Model.Check
import Luqum.Lemmas.CheckLemmas

namespace Luqum.Props.C20
open Luqum Luqum.Lemmas.Check

export Luqum.Lemmas.Check (isWord isPhrase isField isOr isValue afterField underOr methodOf)

/-! ### 1. totality and consistency -/

/-- `LuceneCheck(zeal)(tree)` is `True` exactly when `errors(tree)` is empty (definitional). -/
theorem call_iff_no_error (z : Nat) (t : Tree) : luceneCheck z t = (luceneErrors z t).isEmpty := rfl

/-- the same as a proposition -/
theorem call_true_iff (z : Nat) (t : Tree) : luceneCheck z t = true ↔ luceneErrors z t = [] := by
  simp [luceneCheck]

theorem call_false_iff (z : Nat) (t : Tree) : luceneCheck z t = false ↔ luceneErrors z t ≠ [] := by
  simp [luceneCheck]

/-- **Totality**: for every zeal and every tree (of any shape, any classes) the checker yields a
finite list of messages — `luceneErrors` is a total Lean function (structural recursion on the
tree); stated as: there is a (unique) result. -/
theorem total (z : Nat) (t : Tree) :
    ∃ es : List Str, luceneErrors z t = es ∧ ∀ es', luceneErrors z t = es' → es' = es :=
  ⟨_, rfl, fun _ h => h.symm⟩

/-- the dispatch never fails either: each class either has a method or yields exactly one
"Unknown item type" message (no exception) -/
theorem unknown_class_one_error (z : Nat) (ps : List Tree) (t : Tree) (h : methodOf t = none) :
    ∃ m, checkErrors z ps t = [m] := by
  rw [checkErrors.eq_def, checkMethodOf_className, h]; exact ⟨_, rfl⟩

/-! ### 2. well-formed trees have no error (and conversely) -/

/-- `check_word` is silent: no whitespace, and with zeal none of `+ - /` -/
def wordOk (z : Nat) (v : Str) : Bool :=
  !v.any isSpace && (z == 0 || !v.any (fun c => c == '+' || c == '/' || c == '-'))

mutual
/-- **Well-formed trees.** `afterField`: the node is directly below a `SearchField`;
`underOr`: directly below an `OrOperation`.
Not included because the checker has no method for them ("Unknown item type"): `Regex`, `From`,
`To`, `NoneItem`. The bounds of a range and the term of a fuzzy / proximity are not constrained
further (their check methods do not recurse). -/
def WF (z : Nat) (afterField underOr : Bool) : Tree → Bool
  | .term .word v _ => wordOk z v
  | .term .phrase _ _ => true
  | .term .regex _ _ => false
  | .range .. => true
  | .approx .fuzzy t n _ => isWord t && !n.val.neg
  | .approx .proximity t _ _ => isPhrase t
  | .boost e _ _ => WF z false false e
  | .group .group e _ => !afterField && WF z false false e
  | .group .fieldGroup e _ => afterField && WF z false false e
  | .field n e _ => validFieldName n && isValue e && WF z true false e
  | .op k xs _ => WFs z false (k == .or) xs
  | .unary .plus a _ => WF z false false a
  | .unary .not a _ => (z == 0 || !underOr) && WF z false false a
  | .unary .prohibit a _ => (z == 0 || !underOr) && WF z false false a
  | .orange .. => false
  | .none _ => false
def WFs (z : Nat) (afterField underOr : Bool) : List Tree → Bool
  | [] => true
  | x :: r => WF z afterField underOr x && WFs z afterField underOr r
end

theorem WFs_eq_all (z : Nat) (af uo : Bool) : ∀ xs, WFs z af uo xs = xs.all (WF z af uo)
  | [] => rfl
  | x :: r => by simp [WFs, WFs_eq_all z af uo r]

private theorem isOr_op (k xs l) : isOr (.op k xs l) = (k == .or) := by cases k <;> rfl

private theorem wordErrors_nil (z v l) : wordErrors z v l = [] ↔ wordOk z v = true := by
  unfold wordErrors wordOk
  by_cases hz : z = 0 <;> by_cases h1 : v.any isSpace = true <;>
    by_cases h2 : (v.any fun c => c == '+' || c == '/' || c == '-') = true <;> simp [hz, h1, h2]

mutual
/-- **The checker is silent exactly on the well-formed trees**, in any context: the context enters
only through the class of the immediate parent. -/
theorem checkErrors_nil_iff (z : Nat) : ∀ (t : Tree) (ps : List Tree),
    checkErrors z ps t = [] ↔ WF z (afterField ps) (underOr ps) t = true
  | .term .word v l, ps => by rw [checkErrors_word, wordErrors_nil]; simp [WF]
  | .term .phrase v l, ps => by simp [checkErrors_phrase, WF]
  | .term .regex v l, ps => by simp [checkErrors_regex, WF]
  | .range a b il ih l, ps => by simp [checkErrors_range, WF]
  | .approx .fuzzy t n l, ps => by
      rw [checkErrors_fuzzy]; cases h1 : isWord t <;> cases h2 : n.val.neg <;> simp [WF, h1, h2]
  | .approx .proximity t n l, ps => by
      rw [checkErrors_proximity]; cases h : isPhrase t <;> simp [WF, h]
  | .boost e n l, ps => by
      rw [checkErrors_boost, checkErrors_nil_iff z e]; simp [WF, isField, isOr]
  | .group .group e l, ps => by
      rw [checkErrors_group, List.append_eq_nil_iff, groupErrors_eq_nil, checkErrors_nil_iff z e]
      simp [WF, isField, isOr]
  | .group .fieldGroup e l, ps => by
      rw [checkErrors_fieldGroup, List.append_eq_nil_iff, fieldGroupErrors_eq_nil,
        checkErrors_nil_iff z e]
      simp [WF, isField, isOr]
  | .field n e l, ps => by
      rw [checkErrors_field, List.append_eq_nil_iff, List.append_eq_nil_iff, checkErrors_nil_iff z e]
      cases h1 : validFieldName n <;> cases h2 : isValue e <;> simp [WF, isField, isOr, h1, h2]
  | .op k xs l, ps => by
      rw [checkErrors_op, checkErrorsList_nil_iff z xs]; simp [WF, isField, isOr_op]
  | .unary .plus a l, ps => by
      rw [checkErrors_plus, checkErrors_nil_iff z a]; simp [WF, isField, isOr]
  | .unary .not a l, ps => by
      rw [checkErrors_not, List.append_eq_nil_iff, notErrors_eq_nil, checkErrors_nil_iff z a]
      simp [WF, isField, isOr]
  | .unary .prohibit a l, ps => by
      rw [checkErrors_prohibit, List.append_eq_nil_iff, notErrors_eq_nil, checkErrors_nil_iff z a]
      simp [WF, isField, isOr]
  | .orange k a i l, ps => by simp [checkErrors_orange, WF]
  | .none l, ps => by simp [checkErrors_none, WF]
theorem checkErrorsList_nil_iff (z : Nat) : ∀ (xs : List Tree) (ps : List Tree),
    checkErrorsList z ps xs = [] ↔ WFs z (afterField ps) (underOr ps) xs = true
  | [], ps => by simp [checkErrorsList, WFs]
  | x :: r, ps => by
      rw [checkErrorsList, List.append_eq_nil_iff, checkErrors_nil_iff z x,
        checkErrorsList_nil_iff z r]
      simp [WFs]
end

/-- **Well-formed trees pass** (generalised to any list of ancestors). -/
theorem wf_no_error_in (z : Nat) (ps : List Tree) (t : Tree)
    (h : WF z (afterField ps) (underOr ps) t = true) : checkErrors z ps t = [] :=
  (checkErrors_nil_iff z t ps).2 h

/-- **Well-formed trees pass.** -/
theorem wf_no_error (z : Nat) (t : Tree) (h : WF z false false t = true) : luceneErrors z t = [] :=
  wf_no_error_in z [] t h

/-- … and only those: `WF` is exactly the set of accepted trees. -/
theorem no_error_iff_wf (z : Nat) (t : Tree) : luceneErrors z t = [] ↔ WF z false false t = true :=
  checkErrors_nil_iff z t []

theorem call_iff_wf (z : Nat) (t : Tree) : luceneCheck z t = WF z false false t := by
  rw [Bool.eq_iff_iff, call_true_iff, no_error_iff_wf]

/-! non-vacuity of `WF` -/

/-- `title:(foo OR "bar baz"~2) AND NOT x^2 AND +[a TO b] AND (y~1)` -/
def sampleWF : Tree :=
  .op .and [
    .field "title".toList (.group .fieldGroup (.op .or [
      .term .word "foo".toList {}, .approx .proximity (.term .phrase "\"bar baz\"".toList {}) {} {}] {}) {}) {},
    .unary .not (.boost (.term .word "x".toList {}) {} {}) {},
    .unary .plus (.range (.term .word "a".toList {}) (.term .word "b".toList {}) true true {}) {},
    .group .group (.approx .fuzzy (.term .word "y".toList {}) {} {}) {}] {}

example : WF 1 false false sampleWF = true := by decide
example : luceneCheck 1 sampleWF = true := by rw [call_iff_wf]; decide
/-- zeal matters: `a OR NOT b` is well-formed only without zeal -/
example : WF 0 false false (.op .or [.term .word ['a'] {}, .unary .not (.term .word ['b'] {}) {}] {}) = true
    ∧ WF 1 false false (.op .or [.term .word ['a'] {}, .unary .not (.term .word ['b'] {}) {}] {}) = false := by
  decide
/-- classes without a check method are never well-formed -/
example : WF 0 false false (.term .regex "/a/".toList {}) = false := rfl

/-! ### 3. defect completeness: an ill-formed construct is found wherever it sits -/

/-- One-hole contexts built from the constructors through which the checker recurses (their
methods are wrapped by `_check_children`): operations, groups and field groups, fields, boosts,
`+` / `NOT` / `-`. -/
inductive Ctx where
  | hole
  | op (k : OpK) (pre : List Tree) (C : Ctx) (post : List Tree) (l : Lay)
  | group (k : GrpK) (C : Ctx) (l : Lay)
  | field (name : Str) (C : Ctx) (l : Lay)
  | boost (C : Ctx) (n : Num) (l : Lay)
  | unary (k : UnK) (C : Ctx) (l : Lay)

namespace Ctx

/-- plug a tree into the hole -/
def fill : Ctx → Tree → Tree
  | .hole, d => d
  | .op k pre C post l, d => .op k (pre ++ C.fill d :: post) l
  | .group k C l, d => .group k (C.fill d) l
  | .field n C l, d => .field n (C.fill d) l
  | .boost C n l, d => .boost (C.fill d) n l
  | .unary k C l, d => .unary k (C.fill d) l

/-- the proper ancestors of the hole in `C.fill d`, root first -/
def parents : Ctx → Tree → List Tree
  | .hole, _ => []
  | .op k pre C post l, d => .op k (pre ++ C.fill d :: post) l :: C.parents d
  | .group k C l, d => .group k (C.fill d) l :: C.parents d
  | .field n C l, d => .field n (C.fill d) l :: C.parents d
  | .boost C n l, d => .boost (C.fill d) n l :: C.parents d
  | .unary k C l, d => .unary k (C.fill d) l :: C.parents d

/-- is the hole directly below a `SearchField`? (`outer`: the answer for the empty context) -/
def parentIsField (outer : Bool) : Ctx → Bool
  | .hole => outer
  | .field _ C _ => C.parentIsField true
  | .op _ _ C _ _ | .group _ C _ | .boost C _ _ | .unary _ C _ => C.parentIsField false

/-- is the hole directly below a `SearchField`? At the root there is no parent. -/
def holeParentIsField (C : Ctx) : Bool := C.parentIsField false

/-- is the hole directly below an `OrOperation`? -/
def parentIsOr (outer : Bool) : Ctx → Bool
  | .hole => outer
  | .op k _ C _ _ => C.parentIsOr (k == .or)
  | .field _ C _ | .group _ C _ | .boost C _ _ | .unary _ C _ => C.parentIsOr false

def holeParentIsOr (C : Ctx) : Bool := C.parentIsOr false

theorem afterField_parents (d : Tree) : ∀ (C : Ctx) (ps : List Tree),
    afterField (ps ++ C.parents d) = C.parentIsField (afterField ps)
  | .hole, ps => by simp [parents, parentIsField]
  | .op k pre C post l, ps => by
      have := afterField_parents d C (ps ++ [.op k (pre ++ C.fill d :: post) l])
      simpa [parents, parentIsField, isField] using this
  | .group k C l, ps => by
      have := afterField_parents d C (ps ++ [.group k (C.fill d) l])
      simpa [parents, parentIsField, isField] using this
  | .field n C l, ps => by
      have := afterField_parents d C (ps ++ [.field n (C.fill d) l])
      simpa [parents, parentIsField, isField] using this
  | .boost C n l, ps => by
      have := afterField_parents d C (ps ++ [.boost (C.fill d) n l])
      simpa [parents, parentIsField, isField] using this
  | .unary k C l, ps => by
      have := afterField_parents d C (ps ++ [.unary k (C.fill d) l])
      simpa [parents, parentIsField, isField] using this

theorem underOr_parents (d : Tree) : ∀ (C : Ctx) (ps : List Tree),
    underOr (ps ++ C.parents d) = C.parentIsOr (underOr ps)
  | .hole, ps => by simp [parents, parentIsOr]
  | .op k pre C post l, ps => by
      have := underOr_parents d C (ps ++ [.op k (pre ++ C.fill d :: post) l])
      simpa [parents, parentIsOr, isOr_op] using this
  | .group k C l, ps => by
      have := underOr_parents d C (ps ++ [.group k (C.fill d) l])
      simpa [parents, parentIsOr, isOr] using this
  | .field n C l, ps => by
      have := underOr_parents d C (ps ++ [.field n (C.fill d) l])
      simpa [parents, parentIsOr, isOr] using this
  | .boost C n l, ps => by
      have := underOr_parents d C (ps ++ [.boost (C.fill d) n l])
      simpa [parents, parentIsOr, isOr] using this
  | .unary k C l, ps => by
      have := underOr_parents d C (ps ++ [.unary k (C.fill d) l])
      simpa [parents, parentIsOr, isOr] using this

end Ctx

/-- **The checker reaches the hole of every context**: the messages for the plugged tree — checked
with its real ancestors — are among (a sublist, in order, of) the messages for the whole tree. -/
theorem hole_errors_sublist (z : Nat) (d : Tree) : ∀ (C : Ctx) (ps : List Tree),
    (checkErrors z (ps ++ C.parents d) d).Sublist (checkErrors z ps (C.fill d))
  | .hole, ps => by simp [Ctx.parents, Ctx.fill]
  | .op k pre C post l, ps => by
      have ih := hole_errors_sublist z d C (ps ++ [.op k (pre ++ C.fill d :: post) l])
      rw [Ctx.fill, checkErrors_op, checkErrorsList_append, checkErrorsList]
      simp only [Ctx.parents, List.append_assoc, List.singleton_append] at ih ⊢
      exact (ih.trans (List.sublist_append_left _ _)).trans (List.sublist_append_right _ _)
  | .group .group C l, ps => by
      have ih := hole_errors_sublist z d C (ps ++ [.group .group (C.fill d) l])
      rw [Ctx.fill, checkErrors_group]
      simp only [Ctx.parents, List.append_assoc, List.singleton_append] at ih ⊢
      exact ih.trans (List.sublist_append_right _ _)
  | .group .fieldGroup C l, ps => by
      have ih := hole_errors_sublist z d C (ps ++ [.group .fieldGroup (C.fill d) l])
      rw [Ctx.fill, checkErrors_fieldGroup]
      simp only [Ctx.parents, List.append_assoc, List.singleton_append] at ih ⊢
      exact ih.trans (List.sublist_append_right _ _)
  | .field n C l, ps => by
      have ih := hole_errors_sublist z d C (ps ++ [.field n (C.fill d) l])
      rw [Ctx.fill, checkErrors_field]
      simp only [Ctx.parents, List.append_assoc, List.singleton_append] at ih ⊢
      exact (ih.trans (List.sublist_append_right _ _)).trans (List.sublist_append_right _ _)
  | .boost C n l, ps => by
      have ih := hole_errors_sublist z d C (ps ++ [.boost (C.fill d) n l])
      rw [Ctx.fill, checkErrors_boost]
      simpa only [Ctx.parents, List.append_assoc, List.singleton_append] using ih
  | .unary .plus C l, ps => by
      have ih := hole_errors_sublist z d C (ps ++ [.unary .plus (C.fill d) l])
      rw [Ctx.fill, checkErrors_plus]
      simpa only [Ctx.parents, List.append_assoc, List.singleton_append] using ih
  | .unary .not C l, ps => by
      have ih := hole_errors_sublist z d C (ps ++ [.unary .not (C.fill d) l])
      rw [Ctx.fill, checkErrors_not]
      simp only [Ctx.parents, List.append_assoc, List.singleton_append] at ih ⊢
      exact ih.trans (List.sublist_append_right _ _)
  | .unary .prohibit C l, ps => by
      have ih := hole_errors_sublist z d C (ps ++ [.unary .prohibit (C.fill d) l])
      rw [Ctx.fill, checkErrors_prohibit]
      simp only [Ctx.parents, List.append_assoc, List.singleton_append] at ih ⊢
      exact ih.trans (List.sublist_append_right _ _)

/-- **Ill-formed constructs** (`parentIsField`: the construct sits directly below a `SearchField`;
`parentIsOr`: directly below an `OrOperation`). The first seven are the kinds the property names
(the seventh comes in two halves); the last two are the pitfalls reported with `zeal > 0`. -/
inductive Defect (z : Nat) (parentIsField parentIsOr : Bool) : Tree → Prop
  /-- a word holding whitespace -/
  | wordSpace (v l) : v.any isSpace = true → Defect z parentIsField parentIsOr (.term .word v l)
  /-- fuzzy on something that is not a word -/
  | fuzzyNonWord (t n l) : isWord t = false → Defect z parentIsField parentIsOr (.approx .fuzzy t n l)
  /-- proximity on something that is not a phrase -/
  | proximityNonPhrase (t n l) :
      isPhrase t = false → Defect z parentIsField parentIsOr (.approx .proximity t n l)
  /-- fuzzy with a negative degree -/
  | fuzzyNegative (t n l) : n.val.neg = true → Defect z parentIsField parentIsOr (.approx .fuzzy t n l)
  /-- a field whose name does not match `^\w+$` -/
  | fieldName (n e l) : validFieldName n = false → Defect z parentIsField parentIsOr (.field n e l)
  /-- a field whose expression is not a value (boost, proximity, fuzzy, word, phrase, field group) -/
  | fieldExpr (n e l) : isValue e = false → Defect z parentIsField parentIsOr (.field n e l)
  /-- a plain group directly after a field -/
  | groupAfterField (e l) : parentIsField = true → Defect z parentIsField parentIsOr (.group .group e l)
  /-- a field group not directly after a field (in particular at the root) -/
  | fieldGroupMisplaced (e l) :
      parentIsField = false → Defect z parentIsField parentIsOr (.group .fieldGroup e l)
  /-- (zeal) a word holding one of `+ - /` -/
  | wordChars (v l) : z ≠ 0 → v.any (fun c => c == '+' || c == '/' || c == '-') = true →
      Defect z parentIsField parentIsOr (.term .word v l)
  /-- (zeal) `NOT` / `-` directly below an `OrOperation` -/
  | notUnderOr (k a l) : z ≠ 0 → k ≠ .plus → parentIsOr = true →
      Defect z parentIsField parentIsOr (.unary k a l)
  /-- a node of a class without check method (`Regex`, `From`, `To`, `NoneItem`) -/
  | unknownClass (t) : methodOf t = none → Defect z parentIsField parentIsOr t

/-- a defect is reported at the node itself, whatever the ancestors are, given only the class of
the immediate parent -/
theorem defect_error_in (z : Nat) (ps : List Tree) (d : Tree)
    (h : Defect z (afterField ps) (underOr ps) d) : checkErrors z ps d ≠ [] := by
  cases h with
  | wordSpace v l h => simp [checkErrors_word, wordErrors, h]
  | fuzzyNonWord t n l h => simp [checkErrors_fuzzy, h]
  | proximityNonPhrase t n l h => simp [checkErrors_proximity, h]
  | fuzzyNegative t n l h => simp [checkErrors_fuzzy, h]
  | fieldName n e l h => simp [checkErrors_field, h]
  | fieldExpr n e l h => simp [checkErrors_field, h]
  | groupAfterField e l h =>
      rw [checkErrors_group]; intro hn
      rw [List.append_eq_nil_iff, groupErrors_eq_nil] at hn; simp [h] at hn
  | fieldGroupMisplaced e l h =>
      rw [checkErrors_fieldGroup]; intro hn
      rw [List.append_eq_nil_iff, fieldGroupErrors_eq_nil] at hn; simp [h] at hn
  | wordChars v l hz h => simp [checkErrors_word, wordErrors, hz, h]
  | notUnderOr k a l hz hk h =>
      cases k with
      | plus => exact absurd rfl hk
      | not =>
        rw [checkErrors_not]; intro hn
        rw [List.append_eq_nil_iff, notErrors_eq_nil] at hn; simp [h, hz] at hn
      | prohibit =>
        rw [checkErrors_prohibit]; intro hn
        rw [List.append_eq_nil_iff, notErrors_eq_nil] at hn; simp [h, hz] at hn
  | unknownClass _ hu =>
      obtain ⟨m, hm⟩ := unknown_class_one_error z ps d hu
      simp [hm]

/-- **Defect completeness.** Plug an ill-formed construct into the hole of any context built from
operations, groups, field groups, fields, boosts and `+` / `NOT` / `-`: the checker reports an error
(the "directly after a field" / "directly under OR" conditions refer to the innermost constructor of
the context; at the root there is no parent). -/
theorem defect_found (z : Nat) (C : Ctx) (d : Tree)
    (h : Defect z C.holeParentIsField C.holeParentIsOr d) : luceneErrors z (C.fill d) ≠ [] := by
  have hs := hole_errors_sublist z d C []
  have hd : checkErrors z ([] ++ C.parents d) d ≠ [] := by
    apply defect_error_in
    rw [Ctx.afterField_parents, Ctx.underOr_parents]
    exact h
  intro hn
  rw [luceneErrors] at hn
  rw [hn] at hs
  exact hd (List.sublist_nil.mp hs)

/-- the same for the checker used as a predicate -/
theorem defect_rejected (z : Nat) (C : Ctx) (d : Tree)
    (h : Defect z C.holeParentIsField C.holeParentIsOr d) : luceneCheck z (C.fill d) = false :=
  (call_false_iff z _).2 (defect_found z C d h)

/-- consequently no tree with a defect anywhere (in such a context) is well-formed -/
theorem defect_not_wf (z : Nat) (C : Ctx) (d : Tree)
    (h : Defect z C.holeParentIsField C.holeParentIsOr d) : WF z false false (C.fill d) = false := by
  rw [← call_iff_wf]; exact defect_rejected z C d h

/-- the defects that do not depend on an `OrOperation` parent (all but `notUnderOr`) can be stated
with the field-ness of the parent alone -/
theorem Defect.mono_or {z : Nat} {pif pio : Bool} {d : Tree} (h : Defect z pif false d) :
    Defect z pif pio d := by
  cases h with
  | wordSpace v l h => exact .wordSpace v l h
  | fuzzyNonWord t n l h => exact .fuzzyNonWord t n l h
  | proximityNonPhrase t n l h => exact .proximityNonPhrase t n l h
  | fuzzyNegative t n l h => exact .fuzzyNegative t n l h
  | fieldName n e l h => exact .fieldName n e l h
  | fieldExpr n e l h => exact .fieldExpr n e l h
  | groupAfterField e l h => exact .groupAfterField e l h
  | fieldGroupMisplaced e l h => exact .fieldGroupMisplaced e l h
  | wordChars v l hz h => exact .wordChars v l hz h
  | notUnderOr k a l hz hk h => exact absurd h (by simp)
  | unknownClass _ h => exact .unknownClass _ h

/-- **Defect completeness**, in the form with the single parameter "the hole is directly below a
field" (covers the seven structural kinds, the zeal check on word characters, and unknown classes) -/
theorem defect_found_struct (z : Nat) (C : Ctx) (d : Tree)
    (h : Defect z C.holeParentIsField false d) : luceneErrors z (C.fill d) ≠ [] :=
  defect_found z C d h.mono_or

/-! #### the limits of the claim (contexts through which the checker does *not* recurse)

`check_fuzzy`, `check_proximity` and `check_range` are not wrapped by `_check_children`, so a defect
below them is not seen: this is why `Ctx` has no approx / range constructor. -/

/-- `"b c"~` — a word holding a space is not reported below a fuzzy -/
example : luceneErrors 1 (.approx .fuzzy (.term .word "b c".toList {}) {} {}) = [] := by
  rw [no_error_iff_wf]; decide
/-- `[f:(a) TO /r/]` — nothing is reported below a range -/
example : luceneErrors 1 (.range (.field ['f'] (.group .group (.term .word ['a'] {}) {}) {})
    (.term .regex "/r/".toList {}) true true {}) = [] := by
  rw [no_error_iff_wf]; decide

/-! non-vacuity of the defect theorem -/

/-- `a AND title:(+□^2)` -/
def sampleCtx : Ctx :=
  .op .and [.term .word ['a'] {}]
    (.field "title".toList (.group .fieldGroup (.unary .plus (.boost .hole {} {}) {}) {}) {}) [] {}

/-- `b c`: a "word" holding a space -/
def sampleDefect : Tree := .term .word "b c".toList {}

example : Defect 0 sampleCtx.holeParentIsField sampleCtx.holeParentIsOr sampleDefect :=
  .wordSpace _ _ (by decide)
example : luceneErrors 0 (sampleCtx.fill sampleDefect) ≠ [] :=
  defect_found 0 sampleCtx sampleDefect (.wordSpace _ _ (by decide))
/-- … and the concrete evaluation agrees: exactly one message -/
example : (luceneErrors 0 (sampleCtx.fill sampleDefect)).length = 1 := by decide
/-- a group directly after a field (`f:□` with a plain group), and a field group at the root -/
example : (Ctx.field ['f'] .hole {}).holeParentIsField = true := rfl
example : luceneErrors 0 ((Ctx.field ['f'] .hole {}).fill (.group .group (.term .word ['a'] {}) {})) ≠ [] :=
  defect_found 0 _ _ (.groupAfterField _ _ rfl)
example : luceneErrors 0 (.group .fieldGroup (.term .word ['a'] {}) {}) ≠ [] :=
  defect_found 0 .hole _ (.fieldGroupMisplaced _ _ rfl)
/-- a plain group at the root is fine -/
example : luceneErrors 0 (.group .group (.term .word ['a'] {}) {}) = [] := by
  rw [no_error_iff_wf]; decide

end Luqum.Props.C20
