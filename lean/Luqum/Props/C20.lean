import Luqum.Model.Check
namespace Luqum.Props.C20
open Luqum
theorem call_iff_no_error (z : Nat) (t : Tree) : luceneCheck z t = (luceneErrors z t).isEmpty := rfl
end Luqum.Props.C20
