/-
  Translator obligations (G15, continued): the visit methods of `AutoHeadTail` (luqum/auto_head_tail.py) and of
  `OpenRangeTransformer(merge_ranges=False)` (luqum/utils.py), one step per class.

  `Luqum/Generated/Visits.lean` holds the symbolic execution of `visit_base_operation` (on an AndOperation, an
  OrOperation and a BoolOperation -- which inherits it), `visit_unknown_operation`, `visit_not`, `visit_range`
  of `AutoHeadTail` and of `visit_from`, `visit_to`, `visit_and_operation` of the open-range transformer; the visit of
  a child is the parameter `rec`.

  The theorems say that the model's `aht` (partial: `IndexError` on an operation without operands) and
  `openRange false h` are exactly the fixed points of these translated steps.
-/
import Luqum.Props.GenVisit

namespace Luqum.Props.GenVisitAht
open Luqum Generated
open Luqum.Props.GenVisit (genCopy cloneable mkNum_eq renorm_of_normal)

/-! ### layout helpers -/

theorem setLay_lay (t : Tree) : t.setLay t.lay = t := by cases t <;> rfl
theorem lay_setLay (t : Tree) (l : Lay) : (t.setLay l).lay = l := by cases t <;> rfl
theorem setLay_setLay (t : Tree) (l l' : Lay) : (t.setLay l).setLay l' = t.setLay l' := by cases t <;> rfl

theorem lay_setHead (t : Tree) (h : Str) : (t.setHead h).lay = { t.lay with head := h } := by
  simp [Tree.setHead, lay_setLay]
theorem lay_setTail (t : Tree) (h : Str) : (t.setTail h).lay = { t.lay with tail := h } := by
  simp [Tree.setTail, lay_setLay]
theorem setHead_self (t : Tree) : t.setHead t.lay.head = t := by cases t <;> rfl
theorem setTail_self (t : Tree) : t.setTail t.lay.tail = t := by cases t <;> rfl

/-- the translated spelling of `if not child.head: child.head = " "` -/
theorem addHeadIfEmpty_eq (t : Tree) :
    addHeadIfEmpty t = t.setHead (if (¬ (t.lay.head ≠ [])) then [' '] else t.lay.head) := by
  by_cases h : t.lay.head = [] <;> simp [addHeadIfEmpty, Tree.head, spacer, h, setHead_self]
theorem addTailIfEmpty_eq (t : Tree) :
    addTailIfEmpty t = t.setTail (if (¬ (t.lay.tail ≠ [])) then [' '] else t.lay.tail) := by
  by_cases h : t.lay.tail = [] <;> simp [addTailIfEmpty, Tree.tail, spacer, h, setTail_self]

theorem addHeadIfEmpty_ite (t : Tree) :
    addHeadIfEmpty t = if t.lay.head = [] then t.setHead [' '] else t := by
  by_cases h : t.lay.head = [] <;> simp [addHeadIfEmpty, Tree.head, spacer, h]
theorem addTailIfEmpty_ite (t : Tree) :
    addTailIfEmpty t = if t.lay.tail = [] then t.setTail [' '] else t := by
  by_cases h : t.lay.tail = [] <;> simp [addTailIfEmpty, Tree.tail, spacer, h]

theorem lay_tail_addHeadIfEmpty (t : Tree) : (addHeadIfEmpty t).lay.tail = t.lay.tail := by
  rw [addHeadIfEmpty_ite]; split <;> simp [lay_setHead]
theorem lay_head_addTailIfEmpty (t : Tree) : (addTailIfEmpty t).lay.head = t.lay.head := by
  rw [addTailIfEmpty_ite]; split <;> simp [lay_setTail]

/-- the translated spelling of the inner operands of `visit_base_operation` -/
theorem inner_eq (t : Tree) :
    (t.setHead (if (¬ (t.lay.head ≠ [])) then [' '] else t.lay.head)).setTail
      (if (¬ (t.lay.tail ≠ [])) then [' '] else t.lay.tail) = addTailIfEmpty (addHeadIfEmpty t) := by
  rw [addTailIfEmpty_eq, lay_tail_addHeadIfEmpty, addHeadIfEmpty_eq]

/-! ### the operands of an operation -/

theorem eq_dropLast_append {α} (y : α) (r : List α) (h : r.getLast? = some y) : r = r.dropLast ++ [y] := by
  have hne : r ≠ [] := by rintro rfl; simp at h
  have : r.getLast hne = y := by
    rw [List.getLast?_eq_some_getLast hne] at h; exact Option.some.inj h
  rw [← this, List.dropLast_concat_getLast]

theorem ahtOperands_single (x : Tree) : ahtOperands [x] = [addHeadIfEmpty (addTailIfEmpty x)] := rfl

theorem ahtOperands_cons_last (x y : Tree) (r : List Tree) (h : r.getLast? = some y) :
    ahtOperands (x :: r) = addTailIfEmpty x ::
      (r.dropLast.map (fun c => addTailIfEmpty (addHeadIfEmpty c)) ++ [addHeadIfEmpty y]) := by
  have hr : r = r.dropLast ++ [y] := eq_dropLast_append y r h
  cases r with
  | nil => simp at h
  | cons z r' =>
    have hl : (z :: r').length - 1 = (z :: r').dropLast.length := by simp
    simp only [ahtOperands, hl]
    generalize (z :: r').dropLast = d at hr ⊢
    rw [hr]; simp

theorem ahtUnknownOperands_last (y : Tree) : ∀ r : List Tree, r.getLast? = some y →
    ahtUnknownOperands r = r.dropLast.map addTailIfEmpty ++ [y]
  | [], h => by simp at h
  | [x], h => by simp at h; simp [ahtUnknownOperands, h]
  | x :: z :: r', h => by
    have h' : (z :: r').getLast? = some y := by simpa [List.getLast?_cons_cons] using h
    simp [ahtUnknownOperands, ahtUnknownOperands_last y (z :: r') h']

/-! ### AutoHeadTail: one step per method -/

/-- `visit_base_operation` on the operands `xs` already visited (`ys = xs.map rec`), for the class `k` -/
theorem base_operation_aux (k : OpK) (rec : Tree → Tree) (x : Tree) (r : List Tree) (l : Lay) :
    (if (rec x).lay.tail = [] then (match (r).getLast? with
        | some y3 => (if (rec y3).lay.head = [] then Except.ok [(Tree.op k ([((rec x).setTail [' '])] ++ ((r).dropLast.map fun c4 => (((rec c4).setHead (if (¬ ((rec c4).lay.head ≠ [])) then [' '] else (rec c4).lay.head)).setTail (if (¬ ((rec c4).lay.tail ≠ [])) then [' '] else (rec c4).lay.tail))) ++ [((rec y3).setHead [' '])]) { head := l.head, tail := l.tail, pos := l.pos, size := l.size })]
          else Except.ok [(Tree.op k ([((rec x).setTail [' '])] ++ ((r).dropLast.map fun c4 => (((rec c4).setHead (if (¬ ((rec c4).lay.head ≠ [])) then [' '] else (rec c4).lay.head)).setTail (if (¬ ((rec c4).lay.tail ≠ [])) then [' '] else (rec c4).lay.tail))) ++ [(rec y3)]) { head := l.head, tail := l.tail, pos := l.pos, size := l.size })])
        | none => (if (rec x).lay.head = [] then Except.ok [(Tree.op k [(((rec x).setHead [' ']).setTail [' '])] { head := l.head, tail := l.tail, pos := l.pos, size := l.size })]
          else Except.ok [(Tree.op k [((rec x).setTail [' '])] { head := l.head, tail := l.tail, pos := l.pos, size := l.size })]))
      else (match (r).getLast? with
        | some y3 => (if (rec y3).lay.head = [] then Except.ok [(Tree.op k ([(rec x)] ++ ((r).dropLast.map fun c4 => (((rec c4).setHead (if (¬ ((rec c4).lay.head ≠ [])) then [' '] else (rec c4).lay.head)).setTail (if (¬ ((rec c4).lay.tail ≠ [])) then [' '] else (rec c4).lay.tail))) ++ [((rec y3).setHead [' '])]) { head := l.head, tail := l.tail, pos := l.pos, size := l.size })]
          else Except.ok [(Tree.op k ([(rec x)] ++ ((r).dropLast.map fun c4 => (((rec c4).setHead (if (¬ ((rec c4).lay.head ≠ [])) then [' '] else (rec c4).lay.head)).setTail (if (¬ ((rec c4).lay.tail ≠ [])) then [' '] else (rec c4).lay.tail))) ++ [(rec y3)]) { head := l.head, tail := l.tail, pos := l.pos, size := l.size })])
        | none => (if (rec x).lay.head = [] then Except.ok [(Tree.op k [((rec x).setHead [' '])] { head := l.head, tail := l.tail, pos := l.pos, size := l.size })]
          else Except.ok [(Tree.op k [(rec x)] { head := l.head, tail := l.tail, pos := l.pos, size := l.size })])))
    = (Except.ok [.op k (ahtOperands ((x :: r).map rec)) l.noName] : Except PyErr (List Tree)) := by
  cases hy : r.getLast? with
  | none =>
    have hr : r = [] := List.getLast?_eq_none_iff.mp hy
    subst hr
    simp only [List.map_cons, List.map_nil, ahtOperands_single]
    rw [addHeadIfEmpty_ite, lay_head_addTailIfEmpty, addTailIfEmpty_ite]
    by_cases h1 : (rec x).lay.tail = [] <;> by_cases h2 : (rec x).lay.head = [] <;>
      simp [h1, h2, Lay.noName, Tree.setHead, Tree.setTail, lay_setLay, setLay_setLay]
  | some y =>
    have hy' : (r.map rec).getLast? = some (rec y) := by simp [List.getLast?_map, hy]
    rw [List.map_cons, ahtOperands_cons_last _ _ _ hy', ← List.map_dropLast, List.map_map]
    simp only [inner_eq]
    rw [addHeadIfEmpty_ite, addTailIfEmpty_ite]
    by_cases h1 : (rec x).lay.tail = [] <;> by_cases h2 : (rec y).lay.head = [] <;>
      simp [h1, h2, Lay.noName, Function.comp_def]

/-- **`visit_base_operation` on an AndOperation** -/
theorem aht_and_operation_step (rec : Tree → Tree) (xs : List Tree) (l : Lay) :
    Visits.aht_AndOperation rec xs l =
      (match xs with
       | [] => .error (.exc "IndexError")
       | _ :: _ => .ok [.op .and (ahtOperands (xs.map rec)) l.noName]) := by
  cases xs with
  | nil => rfl
  | cons x r => exact base_operation_aux .and rec x r l

/-- **`visit_base_operation` on an OrOperation** -/
theorem aht_or_operation_step (rec : Tree → Tree) (xs : List Tree) (l : Lay) :
    Visits.aht_OrOperation rec xs l =
      (match xs with
       | [] => .error (.exc "IndexError")
       | _ :: _ => .ok [.op .or (ahtOperands (xs.map rec)) l.noName]) := by
  cases xs with
  | nil => rfl
  | cons x r => exact base_operation_aux .or rec x r l

/-- **`visit_base_operation` on a BoolOperation** (inherited) -/
theorem aht_bool_operation_step (rec : Tree → Tree) (xs : List Tree) (l : Lay) :
    Visits.aht_BoolOperation rec xs l =
      (match xs with
       | [] => .error (.exc "IndexError")
       | _ :: _ => .ok [.op .bool (ahtOperands (xs.map rec)) l.noName]) := by
  cases xs with
  | nil => rfl
  | cons x r => exact base_operation_aux .bool rec x r l

/-- the generated function for the class of operation `k` (`k ≠ .unk`: `visit_base_operation`) -/
def genBaseOperation (rec : Tree → Tree) (k : OpK) (xs : List Tree) (l : Lay) : Except PyErr (List Tree) :=
  match k with
  | .and => Visits.aht_AndOperation rec xs l
  | .or => Visits.aht_OrOperation rec xs l
  | .bool => Visits.aht_BoolOperation rec xs l
  | .unk => Visits.aht_UnknownOperation rec xs l

/-- **`visit_base_operation`**, the three classes at once -/
theorem aht_base_operation_step (k : OpK) (hk : k ≠ .unk) (rec : Tree → Tree) (xs : List Tree) (l : Lay) :
    genBaseOperation rec k xs l =
      (match xs with
       | [] => .error (.exc "IndexError")
       | _ :: _ => .ok [.op k (ahtOperands (xs.map rec)) l.noName]) := by
  cases k with
  | unk => exact absurd rfl hk
  | and => exact aht_and_operation_step rec xs l
  | or => exact aht_or_operation_step rec xs l
  | bool => exact aht_bool_operation_step rec xs l

/-- **`visit_unknown_operation`** -/
theorem aht_unknown_operation_step (rec : Tree → Tree) (xs : List Tree) (l : Lay) :
    Visits.aht_UnknownOperation rec xs l = .ok [.op .unk (ahtUnknownOperands (xs.map rec)) l.noName] := by
  unfold Visits.aht_UnknownOperation
  cases hy : xs.getLast? with
  | none =>
    have hr : xs = [] := List.getLast?_eq_none_iff.mp hy
    subst hr
    simp [ahtUnknownOperands, Lay.noName]
  | some y =>
    have hy' : (xs.map rec).getLast? = some (rec y) := by simp [List.getLast?_map, hy]
    rw [ahtUnknownOperands_last _ _ hy', ← List.map_dropLast, List.map_map]
    simp [Lay.noName, Function.comp_def, addTailIfEmpty_eq]

/-- **`visit_not`** -/
theorem aht_not_step (rec : Tree → Tree) (a : Tree) (l : Lay) :
    Visits.aht_Not rec a l = .ok [.unary .not (addHeadIfEmpty (rec a)) l.noName] := by
  unfold Visits.aht_Not
  rw [addHeadIfEmpty_ite]
  by_cases h : (rec a).lay.head = [] <;> simp [h, Lay.noName]

/-- **`visit_range`** -/
theorem aht_range_step (rec : Tree → Tree) (a b : Tree) (il ih : Bool) (l : Lay) :
    Visits.aht_Range rec a b il ih l =
      .ok [.range (addTailIfEmpty (rec a)) (addHeadIfEmpty (rec b)) il ih l.noName] := by
  unfold Visits.aht_Range
  rw [addHeadIfEmpty_ite, addTailIfEmpty_ite]
  by_cases h1 : (rec a).lay.tail = [] <;> by_cases h2 : (rec b).lay.head = [] <;> simp [h1, h2, Lay.noName]

/-! ### AutoHeadTail: the fixed point -/

/-- AutoHeadTail's step, assembled by class as `_get_method` does: `visit_base_operation` for the AND, OR and boolean
operations, `visit_unknown_operation`, `visit_not`, `visit_range`; `generic_visit` for every other class -/
def genAht (rec : Tree → Tree) : Tree → Except PyErr (List Tree)
  | .op .and xs l => Visits.aht_AndOperation rec xs l
  | .op .or xs l => Visits.aht_OrOperation rec xs l
  | .op .bool xs l => Visits.aht_BoolOperation rec xs l
  | .op .unk xs l => Visits.aht_UnknownOperation rec xs l
  | .unary .not a l => Visits.aht_Not rec a l
  | .range a b il ih l => Visits.aht_Range rec a b il ih l
  | t => genCopy rec t

theorem ahtList_eq_map (r : Tree → Tree) : ∀ xs : List Tree, (∀ c ∈ xs, aht c = some (r c)) →
    ahtList xs = some (xs.map r)
  | [], _ => by simp [ahtList]
  | x :: rest, h => by
    have h1 : aht x = some (r x) := h x (by simp)
    have h2 : ahtList rest = some (rest.map r) := ahtList_eq_map r rest (fun c hc => h c (by simp [hc]))
    simp [ahtList, h1, h2]

/-- the fixed-point property, with the visits of the children given as a function -/
theorem aht_is_generated_fun (rec : Tree → Tree) (t t' : Tree) (h : aht t = some t') (hc : cloneable t)
    (hrec : ∀ c ∈ t.children, aht c = some (rec c)) : genAht rec t = .ok [t'] := by
  cases t with
  | term k v l =>
    simp only [aht, Option.some.injEq] at h; subst h
    cases k
    · simp [genAht, genCopy, Visits.copy_Word, Lay.noName]
    · simp [genAht, genCopy, Visits.copy_Phrase, Lay.noName, hc.1, hc.2]
    · simp [genAht, genCopy, Visits.copy_Regex, Lay.noName, hc.1, hc.2]
  | none l =>
    simp only [aht, Option.some.injEq] at h; subst h
    simp [genAht, genCopy, Visits.copy_NoneItem, Lay.noName]
  | field n e l =>
    have he : aht e = some (rec e) := hrec e (by simp [Tree.children])
    simp only [aht, he, Option.map_some, Option.some.injEq] at h; subst h
    simp [genAht, genCopy, Visits.copy_SearchField, Lay.noName]
  | group k e l =>
    have he : aht e = some (rec e) := hrec e (by simp [Tree.children])
    simp only [aht, he, Option.map_some, Option.some.injEq] at h; subst h
    cases k <;> simp [genAht, genCopy, Visits.copy_Group, Visits.copy_FieldGroup, Lay.noName]
  | approx k e n l =>
    have he : aht e = some (rec e) := hrec e (by simp [Tree.children])
    simp only [aht, he, Option.map_some, Option.some.injEq] at h; subst h
    cases k <;> cases hn : n.implicit <;>
      simp [genAht, genCopy, Visits.copy_Fuzzy, Visits.copy_Proximity, Lay.noName, hn, mkNum_eq n _ hn]
  | boost e n l =>
    have he : aht e = some (rec e) := hrec e (by simp [Tree.children])
    simp only [aht, he, Option.map_some, Option.some.injEq] at h; subst h
    have h' : n.val.normalize = n.val := hc
    cases hn : n.implicit <;>
      simp [genAht, genCopy, Visits.copy_Boost, Lay.noName, hn, renorm_of_normal n h', mkNum_eq n _ hn]
  | orange k e i l =>
    have he : aht e = some (rec e) := hrec e (by simp [Tree.children])
    simp only [aht, he, Option.map_some, Option.some.injEq] at h; subst h
    cases k <;> simp [genAht, genCopy, Visits.copy_From, Visits.copy_To, Lay.noName]
  | unary k e l =>
    have he : aht e = some (rec e) := hrec e (by simp [Tree.children])
    cases k
    · simp only [aht, he, Option.map_some, Option.some.injEq] at h; subst h
      simp [genAht, genCopy, Visits.copy_Plus, Lay.noName]
    · simp only [aht, he, Option.map_some, Option.some.injEq] at h; subst h
      simp [genAht, aht_not_step]
    · simp only [aht, he, Option.map_some, Option.some.injEq] at h; subst h
      simp [genAht, genCopy, Visits.copy_Prohibit, Lay.noName]
  | range a b il ih l =>
    have ha : aht a = some (rec a) := hrec a (by simp [Tree.children])
    have hb : aht b = some (rec b) := hrec b (by simp [Tree.children])
    simp only [aht, ha, hb, Option.some.injEq] at h; subst h
    simp [genAht, aht_range_step]
  | op k xs l =>
    have hl : ahtList xs = some (xs.map rec) := ahtList_eq_map rec xs hrec
    cases xs with
    | nil =>
      cases k <;> simp [aht, ahtList] at h
      subst h
      simp [genAht, aht_unknown_operation_step]
    | cons x r =>
      cases k <;> simp [aht, hl] at h <;> subst h
      · simp [genAht, aht_and_operation_step]
      · simp [genAht, aht_or_operation_step]
      · simp [genAht, aht_unknown_operation_step]
      · simp [genAht, aht_bool_operation_step]

/-- **AutoHeadTail is the translated code**: whenever the model's `aht` succeeds on a node and `rec` gives the model's
results on its children, the translated visit method of the node's class yields exactly the model's result -/
theorem aht_is_generated (rec : Tree → Tree) (t t' : Tree) (h : aht t = some t') (hc : cloneable t)
    (hrec : ∀ c ∈ t.children, ∃ c', aht c = some c' ∧ rec c = c') : genAht rec t = .ok [t'] :=
  aht_is_generated_fun rec t t' h hc (fun c hm => by
    obtain ⟨c', h1, h2⟩ := hrec c hm
    rw [h1, h2])

/-- the failure direction: an AND / OR / boolean operation without operands raises `IndexError` in the translated
code and has no result in the model -/
theorem aht_empty_operation (rec : Tree → Tree) (k : OpK) (hk : k ≠ .unk) (l : Lay) :
    genAht rec (.op k [] l) = .error (.exc "IndexError") ∧ aht (.op k [] l) = none := by
  cases k with
  | unk => exact absurd rfl hk
  | and => exact ⟨rfl, by simp [aht, ahtList]⟩
  | or => exact ⟨rfl, by simp [aht, ahtList]⟩
  | bool => exact ⟨rfl, by simp [aht, ahtList]⟩

/-! ### OpenRangeTransformer without merging -/

/-- **`visit_from`** -/
theorem openrange_from_step (rec : Tree → Tree) (a : Tree) (inc : Bool) (l : Lay) (h : Str) :
    Visits.openrange_From rec a inc l h =
      .ok [.range ((rec a).setTail ((rec a).tail ++ h)) (wildcardWord.setHead h) inc true l.noName] := by
  simp [Visits.openrange_From, wildcardWord, Tree.setHead, Tree.setLay, Tree.lay, Tree.tail, Lay.noName]

/-- **`visit_to`** -/
theorem openrange_to_step (rec : Tree → Tree) (a : Tree) (inc : Bool) (l : Lay) (h : Str) :
    Visits.openrange_To rec a inc l h =
      .ok [.range (wildcardWord.setTail h) ((rec a).setHead ((rec a).head ++ h)) true inc l.noName] := by
  simp [Visits.openrange_To, wildcardWord, Tree.setTail, Tree.setLay, Tree.lay, Tree.head, Lay.noName]

/-- **`visit_and_operation`** with `merge_ranges=False` -/
theorem openrange_and_step (rec : Tree → Tree) (xs : List Tree) (l : Lay) (h : Str) :
    Visits.openrange_AndOperation rec xs l h = .ok [.op .and (xs.map rec) l.noName] := by
  simp [Visits.openrange_AndOperation, Lay.noName]

/-- the open-range transformer's step (no merging), assembled by class: `visit_from`, `visit_to`,
`visit_and_operation`; `generic_visit` for every other class -/
def genOpenRange (h : Str) (rec : Tree → Tree) : Tree → Except PyErr (List Tree)
  | .orange .from a inc l => Visits.openrange_From rec a inc l h
  | .orange .to a inc l => Visits.openrange_To rec a inc l h
  | .op .and xs l => Visits.openrange_AndOperation rec xs l h
  | t => genCopy rec t

theorem openRangeList_eq_map (m : Bool) (h : Str) : ∀ xs : List Tree,
    openRangeList m h xs = xs.map (openRange m h)
  | [] => by simp [openRangeList]
  | x :: r => by simp [openRangeList, openRangeList_eq_map m h r]

/-- **the open-range transformer (no merging) is the translated code**: the model's `openRange false h` is the fixed
point of the translated visit methods -/
theorem openrange_is_generated (h : Str) (t : Tree) (hc : cloneable t) :
    genOpenRange h (openRange false h) t = .ok [openRange false h t] := by
  cases t with
  | op k xs l =>
    cases k <;>
      simp [genOpenRange, genCopy, openrange_and_step, Visits.copy_OrOperation, Visits.copy_UnknownOperation,
        Visits.copy_BoolOperation, openRange, openRangeList_eq_map, Lay.noName]
  | orange k a i l =>
    cases k
    · simp [genOpenRange, openrange_from_step, openRange]
    · simp [genOpenRange, openrange_to_step, openRange]
  | term k v l =>
    cases k
    · simp [genOpenRange, genCopy, Visits.copy_Word, openRange, Lay.noName]
    · simp [genOpenRange, genCopy, Visits.copy_Phrase, openRange, Lay.noName, hc.1, hc.2]
    · simp [genOpenRange, genCopy, Visits.copy_Regex, openRange, Lay.noName, hc.1, hc.2]
  | field n e l => simp [genOpenRange, genCopy, Visits.copy_SearchField, openRange, Lay.noName]
  | group k e l =>
    cases k <;> simp [genOpenRange, genCopy, Visits.copy_Group, Visits.copy_FieldGroup, openRange, Lay.noName]
  | range a b il ih l => simp [genOpenRange, genCopy, Visits.copy_Range, openRange, Lay.noName]
  | approx k x n l =>
    cases k <;> cases hn : n.implicit <;>
      simp [genOpenRange, genCopy, Visits.copy_Fuzzy, Visits.copy_Proximity, openRange, Lay.noName, hn,
        mkNum_eq n _ hn]
  | boost e n l =>
    have h' : n.val.normalize = n.val := hc
    cases hn : n.implicit <;>
      simp [genOpenRange, genCopy, Visits.copy_Boost, openRange, Lay.noName, hn, renorm_of_normal n h',
        mkNum_eq n _ hn]
  | unary k a l =>
    cases k <;>
      simp [genOpenRange, genCopy, Visits.copy_Plus, Visits.copy_Not, Visits.copy_Prohibit, openRange, Lay.noName]
  | none l => simp [genOpenRange, genCopy, Visits.copy_NoneItem, openRange, Lay.noName]

end Luqum.Props.GenVisitAht
