/-
  C13 — `auto_head_tail` (`luqum/auto_head_tail.py`, model: `Luqum.aht`).

  (i)   the result is equal (`==`) to the input;
  (ii)  it is the same tree node for node (same paths, same classes, same own attributes, same
        positions and sizes); a head / tail is either unchanged or was empty and is now one blank;
        attached names are dropped;
  (iii) it is idempotent;
  (iv)  it fails (`IndexError`) exactly on trees containing an `AndOperation` / `OrOperation` /
        `BoolOperation` without operands;
  (v)   the printed text only gains blanks.

  Property theorems only; the helper lemmas (and the relation `layRel`, from which (i), (ii), (v)
  are derived) are in `Luqum.Lemmas.Aht`.
-/
import Luqum.Lemmas.Aht

namespace Luqum.Props.C13
open Luqum Luqum.Lemmas.Aht

/-! ### the invariant -/

/-- **C13, invariant.** The result of `auto_head_tail` is related to its input by `layRel`: same
constructors, same attributes and same children everywhere; at every node the head (tail) is
unchanged or went from empty to one blank, `pos` / `size` are kept and the attached name is dropped.
(`layRel` / `LayOk` / `StrOk` are defined in `Luqum.Lemmas.Aht`.) -/
theorem aht_same_tree {t t' : Tree} (h : aht t = some t') : layRel t' t := aht_layRel t h

/-! ### (i) equality -/

/-- **C13 (i).** `auto_head_tail(t) == t` -/
theorem aht_eqv {t t' : Tree} (h : aht t = some t') : t'.eqv t = true :=
  layRel_eqv (aht_layRel t h)

example :
    aht (.op .and [.term .word ['a'] {}, .unary .not (.term .word ['b'] {}) {}] { name := some ['x'] })
      = some (.op .and [.term .word ['a'] { tail := [' '] },
                        .unary .not (.term .word ['b'] { head := [' '] }) { head := [' '] }] {}) := rfl

example :
    (Tree.op .and [.term .word ['a'] { tail := [' '] },
                   .unary .not (.term .word ['b'] { head := [' '] }) { head := [' '] }] {}).eqv
      (.op .and [.term .word ['a'] {}, .unary .not (.term .word ['b'] {}) {}] { name := some ['x'] })
      = true := rfl

/-! ### (ii) layout -/

/-- **C13 (ii).** Input and result have the same set of paths, and for the nodes `n` (input) and
`n'` (result) at the same path: the head of `n'` is the head of `n`, or the head of `n` is empty and
that of `n'` is one blank; the same for the tail; `pos` and `size` are kept; the attached name is
dropped; the class is the same, and so are the own attributes (the childless, layout-less clones
coincide). -/
theorem aht_layout {t t' : Tree} (h : aht t = some t') (p : List Nat) :
    ((t'.at? p).isSome = (t.at? p).isSome) ∧
    ∀ n n', t.at? p = some n → t'.at? p = some n' →
      (n'.head = n.head ∨ (n.head = [] ∧ n'.head = [' '])) ∧
      (n'.tail = n.tail ∨ (n.tail = [] ∧ n'.tail = [' '])) ∧
      n'.lay.pos = n.lay.pos ∧ n'.lay.size = n.lay.size ∧ n'.lay.name = none ∧
      n'.className = n.className ∧
      n'.cloneItem.setLay {} = n.cloneItem.setLay {} := by
  have hr := layRel_at p (aht_layRel t h)
  constructor
  · split at hr <;> simp_all
  · intro n n' hn hn'
    rw [hn, hn'] at hr
    have o := layRel_lay hr
    exact ⟨o.head, o.tail, o.pos, o.size, o.name, layRel_className hr, layRel_own hr⟩

/-- in particular every node keeps its number of children -/
theorem aht_children_length {t t' : Tree} (h : aht t = some t') (p : List Nat) (n n' : Tree)
    (hn : t.at? p = some n) (hn' : t'.at? p = some n') : n'.children.length = n.children.length := by
  have hr := layRel_at p (aht_layRel t h)
  rw [hn', hn] at hr
  have hc := layRels_getElem? (layRel_children hr)
  apply Nat.le_antisymm
  · apply Nat.le_of_not_lt; intro hlt
    have := hc n.children.length
    rw [List.getElem?_eq_getElem hlt, List.getElem?_eq_none (Nat.le_refl _)] at this
    exact this
  · apply Nat.le_of_not_lt; intro hlt
    have := hc n'.children.length
    rw [List.getElem?_eq_getElem hlt, List.getElem?_eq_none (Nat.le_refl _)] at this
    exact this

example :
    (aht (.range (.term .word ['1'] { pos := some 1, size := some 1 }) (.term .word ['2'] {}) true false {})).bind
      (·.at? [0]) = some (.term .word ['1'] { tail := [' '], pos := some 1, size := some 1 }) := rfl

/-! ### (iii) idempotence -/

mutual
/-- **C13 (iii).** `auto_head_tail` is idempotent: its result is a fixed point (nothing is added to a
head or tail that is already non-empty, and the result carries no names). -/
theorem aht_idem : ∀ (t : Tree) {t' : Tree}, aht t = some t' → aht t' = some t'
  | .term k v l, t', h => by simp [aht] at h; subst h; simp [aht]
  | .none l, t', h => by simp [aht] at h; subst h; simp [aht]
  | .field n e l, t', h => by
    simp [aht] at h; obtain ⟨e', he, rfl⟩ := h; simp [aht, aht_idem e he]
  | .group k e l, t', h => by
    simp [aht] at h; obtain ⟨e', he, rfl⟩ := h; simp [aht, aht_idem e he]
  | .approx k e n l, t', h => by
    simp [aht] at h; obtain ⟨e', he, rfl⟩ := h; simp [aht, aht_idem e he]
  | .boost e n l, t', h => by
    simp [aht] at h; obtain ⟨e', he, rfl⟩ := h; simp [aht, aht_idem e he]
  | .orange k e i l, t', h => by
    simp [aht] at h; obtain ⟨e', he, rfl⟩ := h; simp [aht, aht_idem e he]
  | .unary k e l, t', h => by
    cases k <;> simp [aht] at h <;> obtain ⟨e', he, rfl⟩ := h
    · simp [aht, aht_idem e he]
    · simp [aht, aht_fix_addHead (aht_idem e he)]
    · simp [aht, aht_idem e he]
  | .range a b il ih l, t', h => by
    simp only [aht] at h
    split at h
    · next a' b' ha hb =>
      simp at h; subst h
      simp [aht, aht_fix_addTail (aht_idem a ha), aht_fix_addHead (aht_idem b hb)]
    · simp at h
  | .op k xs l, t', h => by
    simp only [aht] at h
    split at h
    · simp at h
    · next xs' hx =>
      have ih := ahtList_idem xs hx
      split at h
      · next hk =>
        simp at h; subst h
        simp [aht, hk, ahtList_fix_ahtUnk ih, ahtUnk_idem]
      · next hk =>
        split at h
        · simp at h
        · next he =>
          simp at h; subst h
          simp [aht, hk, he, ahtList_fix_ahtOperands ih, ahtOperands_idem, ahtOperands_isEmpty]
theorem ahtList_idem : ∀ (xs : List Tree) {xs' : List Tree}, ahtList xs = some xs' →
    ahtList xs' = some xs'
  | [], xs', h => by simp [ahtList] at h; subst h; rfl
  | x :: r, xs', h => by
    simp only [ahtList] at h
    split at h
    · next x' r' hx hr =>
      simp at h; subst h
      exact (ahtList_cons_fix x' r').2 ⟨aht_idem x hx, ahtList_idem r hr⟩
    · simp at h
end

example :
    aht (.op .unk [.term .word ['a'] { tail := [' '] }, .term .word ['b'] { tail := [' '] },
                   .range (.term .word ['1'] { tail := [' '] }) (.term .word ['2'] { head := [' '] }) true true {}] {})
      = some (.op .unk [.term .word ['a'] { tail := [' '] }, .term .word ['b'] { tail := [' '] },
                   .range (.term .word ['1'] { tail := [' '] }) (.term .word ['2'] { head := [' '] }) true true {}] {}) := rfl

/-! ### (iv) failure -/

mutual
/-- the tree contains an `AndOperation` / `OrOperation` / `BoolOperation` without operands -/
def hasEmptyOp : Tree → Bool
  | .term .. => false
  | .none _ => false
  | .field _ e _ => hasEmptyOp e
  | .group _ e _ => hasEmptyOp e
  | .approx _ e _ _ => hasEmptyOp e
  | .boost e _ _ => hasEmptyOp e
  | .unary _ e _ => hasEmptyOp e
  | .orange _ e _ _ => hasEmptyOp e
  | .range a b _ _ _ => hasEmptyOp a || hasEmptyOp b
  | .op k xs _ => (k != .unk && xs.isEmpty) || hasEmptyOps xs
def hasEmptyOps : List Tree → Bool
  | [] => false
  | x :: r => hasEmptyOp x || hasEmptyOps r
end

mutual
theorem aht_isNone : ∀ t : Tree, (aht t).isNone = hasEmptyOp t
  | .term .. => rfl
  | .none _ => rfl
  | .field _ e _ => by simp [aht, hasEmptyOp, ← aht_isNone e]
  | .group _ e _ => by simp [aht, hasEmptyOp, ← aht_isNone e]
  | .approx _ e _ _ => by simp [aht, hasEmptyOp, ← aht_isNone e]
  | .boost e _ _ => by simp [aht, hasEmptyOp, ← aht_isNone e]
  | .orange _ e _ _ => by simp [aht, hasEmptyOp, ← aht_isNone e]
  | .unary k e _ => by cases k <;> simp [aht, hasEmptyOp, ← aht_isNone e]
  | .range a b _ _ _ => by
    simp only [aht, hasEmptyOp, ← aht_isNone a, ← aht_isNone b]
    cases aht a <;> cases aht b <;> rfl
  | .op k xs _ => by
    simp only [aht, hasEmptyOp, ← ahtList_isNone xs]
    cases hx : ahtList xs with
    | none => simp
    | some xs' =>
      have he := ahtList_isEmpty hx
      cases k <;> cases hxe : xs.isEmpty <;> simp_all
theorem ahtList_isNone : ∀ xs : List Tree, (ahtList xs).isNone = hasEmptyOps xs
  | [] => rfl
  | x :: r => by
    simp only [ahtList, hasEmptyOps, ← aht_isNone x, ← ahtList_isNone r]
    cases aht x <;> cases ahtList r <;> rfl
end

/-- **C13 (iv).** `auto_head_tail` raises (`IndexError`) exactly on the trees that contain an
and / or / bool operation without operands (an `UnknownOperation` without operands is fine). -/
theorem aht_none_iff (t : Tree) : aht t = none ↔ hasEmptyOp t = true := by
  rw [← aht_isNone]; cases aht t <;> simp

/-- … so it succeeds on every tree all of whose and / or / bool operations have operands -/
theorem aht_some_iff (t : Tree) : (∃ t', aht t = some t') ↔ hasEmptyOp t = false := by
  rw [← aht_isNone]; cases aht t <;> simp

example : aht (.group .group (.op .or [] {}) {}) = none := rfl
example : hasEmptyOp (.group .group (.op .or [] {}) {}) = true := rfl
example : aht (.group .group (.op .unk [] {}) {}) = some (.group .group (.op .unk [] {}) {}) := rfl

/-! ### (v) printing -/

/-- **C13 (v).** `auto_head_tail` only inserts blanks into the printed text: with all blanks removed,
the result prints like the input (with head and tail, in both numeral styles). -/
theorem aht_print_noblank {t t' : Tree} (h : aht t = some t') (s : NumStyle) :
    (t'.full s).filter (· ≠ ' ') = (t.full s).filter (· ≠ ' ') :=
  layRel_full s (· ≠ ' ') (by decide) t' t (aht_layRel t h)

/-- the same for `str(tree)` (without head and tail of the root) -/
theorem aht_str_noblank {t t' : Tree} (h : aht t = some t') (s : NumStyle) :
    (t'.body s).filter (· ≠ ' ') = (t.body s).filter (· ≠ ' ') :=
  layRel_body s (· ≠ ' ') (by decide) (aht_layRel t h)

example :
    (aht (.op .and [.term .word ['a'] {}, .unary .not (.term .word ['b'] {}) {}] {})).map (·.full .norm)
      = some "a AND NOT b".toList := by decide

end Luqum.Props.C13
