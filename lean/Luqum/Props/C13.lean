import Luqum.Model.Transform
namespace Luqum.Props.C13
open Luqum
theorem aht_term (k : TermK) (v : Str) (l : Lay) : aht (.term k v l) = some (.term k v l.noName) := rfl
end Luqum.Props.C13
