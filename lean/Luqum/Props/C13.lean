/-
  C13 — `auto_head_tail` (`luqum/auto_head_tail.py`, model: `Luqum.aht`).

  (i)   the result is equal (`==`) to the input;
  (ii)  it is the same tree node for node (same paths, same classes, same own attributes, same
        positions and sizes); a head / tail is either unchanged or was empty and is now one blank;
        attached names are dropped;
  (iii) it is idempotent;
  (iv)  it fails (`IndexError`) exactly on trees containing an `AndOperation` / `OrOperation` /
        `BoolOperation` without operands;
  (v)   the printed text only gains blanks.

  Property theorems only; the helper lemmas (and the relation `layRel`, from which (i), (ii), (v)
  are derived) are in `Luqum.Lemmas.Aht`.
-/
import Luqum.Lemmas.Aht
import Luqum.Lemmas.AhtGlueChain
import Luqum.Lemmas.AhtGlueAht
import Luqum.Lemmas.AhtGluePad

namespace Luqum.Props.C13
open Luqum Luqum.Lemmas.Aht

/-! ### the invariant -/

/-- **C13, invariant.** The result of `auto_head_tail` is related to its input by `layRel`: same
constructors, same attributes and same children everywhere; at every node the head (tail) is
unchanged or went from empty to one blank, `pos` / `size` are kept and the attached name is dropped.
(`layRel` / `LayOk` / `StrOk` are defined in `Luqum.Lemmas.Aht`.) -/
theorem aht_same_tree {t t' : Tree} (h : aht t = some t') : layRel t' t := aht_layRel t h

/-! ### (i) equality -/

/-- **C13 (i).** `auto_head_tail(t) == t` -/
theorem aht_eqv {t t' : Tree} (h : aht t = some t') : t'.eqv t = true :=
  layRel_eqv (aht_layRel t h)

example :
    aht (.op .and [.term .word ['a'] {}, .unary .not (.term .word ['b'] {}) {}] { name := some ['x'] })
      = some (.op .and [.term .word ['a'] { tail := [' '] },
                        .unary .not (.term .word ['b'] { head := [' '] }) { head := [' '] }] {}) := rfl

example :
    (Tree.op .and [.term .word ['a'] { tail := [' '] },
                   .unary .not (.term .word ['b'] { head := [' '] }) { head := [' '] }] {}).eqv
      (.op .and [.term .word ['a'] {}, .unary .not (.term .word ['b'] {}) {}] { name := some ['x'] })
      = true := rfl

/-! ### (ii) layout -/

/-- **C13 (ii).** Input and result have the same set of paths, and for the nodes `n` (input) and
`n'` (result) at the same path: the head of `n'` is the head of `n`, or the head of `n` is empty and
that of `n'` is one blank; the same for the tail; `pos` and `size` are kept; the attached name is
dropped; the class is the same, and so are the own attributes (the childless, layout-less clones
coincide). -/
theorem aht_layout {t t' : Tree} (h : aht t = some t') (p : List Nat) :
    ((t'.at? p).isSome = (t.at? p).isSome) ∧
    ∀ n n', t.at? p = some n → t'.at? p = some n' →
      (n'.head = n.head ∨ (n.head = [] ∧ n'.head = [' '])) ∧
      (n'.tail = n.tail ∨ (n.tail = [] ∧ n'.tail = [' '])) ∧
      n'.lay.pos = n.lay.pos ∧ n'.lay.size = n.lay.size ∧ n'.lay.name = none ∧
      n'.className = n.className ∧
      n'.cloneItem.setLay {} = n.cloneItem.setLay {} := by
  have hr := layRel_at p (aht_layRel t h)
  constructor
  · split at hr <;> simp_all
  · intro n n' hn hn'
    rw [hn, hn'] at hr
    have o := layRel_lay hr
    exact ⟨o.head, o.tail, o.pos, o.size, o.name, layRel_className hr, layRel_own hr⟩

/-- in particular every node keeps its number of children -/
theorem aht_children_length {t t' : Tree} (h : aht t = some t') (p : List Nat) (n n' : Tree)
    (hn : t.at? p = some n) (hn' : t'.at? p = some n') : n'.children.length = n.children.length := by
  have hr := layRel_at p (aht_layRel t h)
  rw [hn', hn] at hr
  have hc := layRels_getElem? (layRel_children hr)
  apply Nat.le_antisymm
  · apply Nat.le_of_not_lt; intro hlt
    have := hc n.children.length
    rw [List.getElem?_eq_getElem hlt, List.getElem?_eq_none (Nat.le_refl _)] at this
    exact this
  · apply Nat.le_of_not_lt; intro hlt
    have := hc n'.children.length
    rw [List.getElem?_eq_getElem hlt, List.getElem?_eq_none (Nat.le_refl _)] at this
    exact this

example :
    (aht (.range (.term .word ['1'] { pos := some 1, size := some 1 }) (.term .word ['2'] {}) true false {})).bind
      (·.at? [0]) = some (.term .word ['1'] { tail := [' '], pos := some 1, size := some 1 }) := rfl

/-! ### (iii) idempotence -/

mutual
/-- **C13 (iii).** `auto_head_tail` is idempotent: its result is a fixed point (nothing is added to a
head or tail that is already non-empty, and the result carries no names). -/
theorem aht_idem : ∀ (t : Tree) {t' : Tree}, aht t = some t' → aht t' = some t'
  | .term k v l, t', h => by simp [aht] at h; subst h; simp [aht]
  | .none l, t', h => by simp [aht] at h; subst h; simp [aht]
  | .field n e l, t', h => by
    simp [aht] at h; obtain ⟨e', he, rfl⟩ := h; simp [aht, aht_idem e he]
  | .group k e l, t', h => by
    simp [aht] at h; obtain ⟨e', he, rfl⟩ := h; simp [aht, aht_idem e he]
  | .approx k e n l, t', h => by
    simp [aht] at h; obtain ⟨e', he, rfl⟩ := h; simp [aht, aht_idem e he]
  | .boost e n l, t', h => by
    simp [aht] at h; obtain ⟨e', he, rfl⟩ := h; simp [aht, aht_idem e he]
  | .orange k e i l, t', h => by
    simp [aht] at h; obtain ⟨e', he, rfl⟩ := h; simp [aht, aht_idem e he]
  | .unary k e l, t', h => by
    cases k <;> simp [aht] at h <;> obtain ⟨e', he, rfl⟩ := h
    · simp [aht, aht_idem e he]
    · simp [aht, aht_fix_addHead (aht_idem e he)]
    · simp [aht, aht_idem e he]
  | .range a b il ih l, t', h => by
    simp only [aht] at h
    split at h
    · next a' b' ha hb =>
      simp at h; subst h
      simp [aht, aht_fix_addTail (aht_idem a ha), aht_fix_addHead (aht_idem b hb)]
    · simp at h
  | .op k xs l, t', h => by
    simp only [aht] at h
    split at h
    · simp at h
    · next xs' hx =>
      have ih := ahtList_idem xs hx
      split at h
      · next hk =>
        simp at h; subst h
        simp [aht, hk, ahtList_fix_ahtUnk ih, ahtUnk_idem]
      · next hk =>
        split at h
        · simp at h
        · next he =>
          simp at h; subst h
          simp [aht, hk, he, ahtList_fix_ahtOperands ih, ahtOperands_idem, ahtOperands_isEmpty]
theorem ahtList_idem : ∀ (xs : List Tree) {xs' : List Tree}, ahtList xs = some xs' →
    ahtList xs' = some xs'
  | [], xs', h => by simp [ahtList] at h; subst h; rfl
  | x :: r, xs', h => by
    simp only [ahtList] at h
    split at h
    · next x' r' hx hr =>
      simp at h; subst h
      exact (ahtList_cons_fix x' r').2 ⟨aht_idem x hx, ahtList_idem r hr⟩
    · simp at h
end

example :
    aht (.op .unk [.term .word ['a'] { tail := [' '] }, .term .word ['b'] { tail := [' '] },
                   .range (.term .word ['1'] { tail := [' '] }) (.term .word ['2'] { head := [' '] }) true true {}] {})
      = some (.op .unk [.term .word ['a'] { tail := [' '] }, .term .word ['b'] { tail := [' '] },
                   .range (.term .word ['1'] { tail := [' '] }) (.term .word ['2'] { head := [' '] }) true true {}] {}) := rfl

/-! ### (iv) failure -/

mutual
/-- the tree contains an `AndOperation` / `OrOperation` / `BoolOperation` without operands -/
def hasEmptyOp : Tree → Bool
  | .term .. => false
  | .none _ => false
  | .field _ e _ => hasEmptyOp e
  | .group _ e _ => hasEmptyOp e
  | .approx _ e _ _ => hasEmptyOp e
  | .boost e _ _ => hasEmptyOp e
  | .unary _ e _ => hasEmptyOp e
  | .orange _ e _ _ => hasEmptyOp e
  | .range a b _ _ _ => hasEmptyOp a || hasEmptyOp b
  | .op k xs _ => (k != .unk && xs.isEmpty) || hasEmptyOps xs
def hasEmptyOps : List Tree → Bool
  | [] => false
  | x :: r => hasEmptyOp x || hasEmptyOps r
end

mutual
theorem aht_isNone : ∀ t : Tree, (aht t).isNone = hasEmptyOp t
  | .term .. => rfl
  | .none _ => rfl
  | .field _ e _ => by simp [aht, hasEmptyOp, ← aht_isNone e]
  | .group _ e _ => by simp [aht, hasEmptyOp, ← aht_isNone e]
  | .approx _ e _ _ => by simp [aht, hasEmptyOp, ← aht_isNone e]
  | .boost e _ _ => by simp [aht, hasEmptyOp, ← aht_isNone e]
  | .orange _ e _ _ => by simp [aht, hasEmptyOp, ← aht_isNone e]
  | .unary k e _ => by cases k <;> simp [aht, hasEmptyOp, ← aht_isNone e]
  | .range a b _ _ _ => by
    simp only [aht, hasEmptyOp, ← aht_isNone a, ← aht_isNone b]
    cases aht a <;> cases aht b <;> rfl
  | .op k xs _ => by
    simp only [aht, hasEmptyOp, ← ahtList_isNone xs]
    cases hx : ahtList xs with
    | none => simp
    | some xs' =>
      have he := ahtList_isEmpty hx
      cases k <;> cases hxe : xs.isEmpty <;> simp_all
theorem ahtList_isNone : ∀ xs : List Tree, (ahtList xs).isNone = hasEmptyOps xs
  | [] => rfl
  | x :: r => by
    simp only [ahtList, hasEmptyOps, ← aht_isNone x, ← ahtList_isNone r]
    cases aht x <;> cases ahtList r <;> rfl
end

/-- **C13 (iv).** `auto_head_tail` raises (`IndexError`) exactly on the trees that contain an
and / or / bool operation without operands (an `UnknownOperation` without operands is fine). -/
theorem aht_none_iff (t : Tree) : aht t = none ↔ hasEmptyOp t = true := by
  rw [← aht_isNone]; cases aht t <;> simp

/-- … so it succeeds on every tree all of whose and / or / bool operations have operands -/
theorem aht_some_iff (t : Tree) : (∃ t', aht t = some t') ↔ hasEmptyOp t = false := by
  rw [← aht_isNone]; cases aht t <;> simp

example : aht (.group .group (.op .or [] {}) {}) = none := rfl
example : hasEmptyOp (.group .group (.op .or [] {}) {}) = true := rfl
example : aht (.group .group (.op .unk [] {}) {}) = some (.group .group (.op .unk [] {}) {}) := rfl

/-! ### (v) printing -/

/-- **C13 (v).** `auto_head_tail` only inserts blanks into the printed text: with all blanks removed,
the result prints like the input (with head and tail, in both numeral styles). -/
theorem aht_print_noblank {t t' : Tree} (h : aht t = some t') (s : NumStyle) :
    (t'.full s).filter (· ≠ ' ') = (t.full s).filter (· ≠ ' ') :=
  layRel_full s (· ≠ ' ') (by decide) t' t (aht_layRel t h)

/-- the same for `str(tree)` (without head and tail of the root) -/
theorem aht_str_noblank {t t' : Tree} (h : aht t = some t') (s : NumStyle) :
    (t'.body s).filter (· ≠ ' ') = (t.body s).filter (· ≠ ' ') :=
  layRel_body s (· ≠ ' ') (by decide) (aht_layRel t h)

example :
    (aht (.op .and [.term .word ['a'] {}, .unary .not (.term .word ['b'] {}) {}] {})).map (·.full .norm)
      = some "a AND NOT b".toList := by decide

/-! ### (vi) the round trip: the printed result is accepted by the parser and parses to an equal tree

  The helper lemmas are in `Luqum/Lemmas/AhtGlue*.lean`.  The printed result of `auto_head_tail` is
  the spelling of its tokens with the separators `auto_head_tail` guarantees (`spaced`); every place
  where two tokens stay glued is examined in `Luqum.Lemmas.AhtGlue.chain_spaced`.  Exactly two glued
  adjacencies are not read back as written (findings KF8 and KF9, excluded by `safeAdj`); the theorems
  are therefore `_partial`. -/

section RoundTrip
open Luqum.Lemmas.AhtGlue
open Luqum.Props.Reparse (printable)

export Luqum.Lemmas.AhtGlue (noLayout expressible safeAdj timeName spaced)

/-- **built without layout**: every head and every tail of every node is empty -/
example (k : TermK) (v : Str) (l : Lay) (n : Str) (e : Tree) (xs : List Tree) (o : OpK) :
    noLayout (.term k v l) = (l.head.isEmpty && l.tail.isEmpty) ∧
    noLayout (.field n e l) = (l.head.isEmpty && l.tail.isEmpty && noLayout e) ∧
    noLayout (.op o xs l) = (l.head.isEmpty && l.tail.isEmpty && noLayouts xs) := ⟨rfl, rfl, rfl⟩

/-- **a shape the grammar can express**: canonical with respect to the precedences (`CanonAt`: the
operands of `AND` are not operations, those of `OR` are not `OR` / implicit operations, the operands
of `+` `-` `NOT`, field values and boosted expressions are not operations, `~` applies to a word or a
phrase, range bounds are words / phrases, possibly prohibited, operations have two operands at least,
there is no `NoneItem` and no `BoolOperation`); words and field names that are not reserved words
(`WordsOK`); numerals that are printed and read back as the same number (`numsOK`); words, phrases,
regexes and field names that lex as exactly one token of their kind (`validTexts`).

Every parse result is `expressible` (`expressible_of_parse`); conversely an `expressible` tree is
equal (`==`) to the parse result of some text (`expressible_parse`; the text is the tree printed with
a blank around every node).  The converse of the latter does not hold literally, because `==` does
not compare the `implicit` flag of a degree / force that `numsOK` constrains: a tree with an
*implicit* force of 2 is equal to the parse of `a^2` but is printed `a^`. -/
example (t : Tree) :
    expressible t = (CanonAt false t && WordsOK t && numsOK t && validTexts t) := rfl

/-- **the glued adjacencies that are read back as written**: everywhere, except
(KF8) at a field whose name ends with `T\d\d` or `T\d\d:\d\d` (`timeName`) and whose value is printed
with two digits first (`startsDD`; the digits are those of `\d`), and
(KF9) at a `From` / `To` that is not inclusive and whose operand is printed with `=` first -/
example (n : Str) (e : Tree) (l : Lay) (k : ORK) (inc : Bool) :
    safeAdj (.field n e l) = (!(timeName n && startsDD (e.full .norm)) && safeAdj e) ∧
    safeAdj (.orange k e inc l) = ((inc || (e.full .norm).head? != some '=') && safeAdj e) ∧
    timeName n = (tddR n.reverse || tmmR n.reverse) := ⟨rfl, rfl, rfl⟩

/-- every parse result is `expressible` -/
theorem expressible_of_parse (s : Str) (t : Tree) (h : parse s = .ok t) : expressible t = true := by
  simp only [expressible, Bool.and_eq_true]
  exact ⟨⟨⟨Reparse.parse_canon s t h, Reparse.parse_wordsOK s t h⟩, Reparse.parse_numsOK s t h⟩,
    (Reparse.parse_validTexts s t h).1⟩

/-- conversely **every `expressible` tree is equal (`==`) to the parse result of some text**: the
tree printed with a blank before and after every node (`padAll`) -/
theorem expressible_parse (t : Tree) (he : expressible t = true) :
    ∃ s r, parse s = .ok r ∧ r.eqv t = true := by
  obtain ⟨r, hr, hrt⟩ := Reparse.reparse_of_printable (padAll t) (printable_padAll t he)
  exact ⟨_, r, hr, C09.eqv_trans _ _ _ hrt (eqv_padAll t)⟩

/-- ... and then the parse result is `expressible` too -/
theorem expressible_parse' (t : Tree) (he : expressible t = true) :
    ∃ s r, parse s = .ok r ∧ r.eqv t = true ∧ expressible r = true := by
  obtain ⟨s, r, hr, hrt⟩ := expressible_parse t he
  exact ⟨s, r, hr, hrt, expressible_of_parse s r hr⟩

/-- the `implicit` flag of a force is constrained by `expressible` but not seen by `==` -/
example :
    let t : Tree := .boost (.term .word "a".toList {}) { val := { coeff := 2 }, implicit := true } {}
    expressible t = false ∧ t.str = "a^".toList ∧
    (match parse "a^2".toList with | .ok r => r.eqv t | .error _ => false) = true := by
  decide +kernel

/-- `auto_head_tail` does not fail on an `expressible` tree -/
theorem aht_some_of_expressible (t : Tree) (he : expressible t = true) : ∃ t', aht t = some t' := by
  simp only [expressible, Bool.and_eq_true] at he
  have := aht_some_of_canon false t he.1.1.1
  cases h : aht t with
  | none => rw [h] at this; cases this
  | some t' => exact ⟨t', rfl⟩

/-- **the result of `auto_head_tail` satisfies all the hypotheses of the print-and-reparse theorem**
(`Reparse.printable`: blank layout, canonical form, words, numerals, valid texts, adjacency), for an
`expressible` input with a blank layout and without the adjacencies KF8 / KF9 -/
theorem aht_printable_partial {t t' : Tree} (h : aht t = some t') (hws : t.blankLayout = true)
    (he : expressible t = true) (hs : safeAdj t = true) : printable t' = true := by
  simp only [expressible, Bool.and_eq_true] at he
  obtain ⟨⟨⟨hc, hw⟩, hn⟩, ht⟩ := he
  have hrel := aht_layRel t h
  obtain ⟨e1, e2, e3, e4⟩ := expressible_of_strip (layRel_strip t' t hrel)
  rw [← e1] at hc; rw [← e2] at hw; rw [← e3] at hn; rw [← e4] at ht
  have hbl : t'.blankLayout = true := layRel_blank t' t hrel hws
  have hsafe : safeAdj t' = true := safeAdj_aht t false h (e1 ▸ hc) hs
  have hbp := Tree.pcs_blank .norm t' [] rfl hbl
  have hchain := chain_spaced t' [] [] (canon_noNone false t' hc) (aht_spaced t h) hbl hsafe rfl
    (by rw [List.append_nil]; exact contOK_blank hbp.2)
  rw [List.append_nil] at hchain
  have hvalid := Reparse.pieces_valid .norm t' ht (Reparse.validNums_of_numsOK t' hn)
  have hglue : LX.treeGluesOK .norm t' = true := by
    refine gluesOK_of_chainOK _ _ (fun p hp => ?_) hchain
    obtain ⟨c, xs, hx, _⟩ := validTok_cons (hvalid p hp)
    rw [hx]; simp
  simp only [printable, Bool.and_eq_true]
  exact ⟨⟨⟨⟨⟨hbl, hc⟩, hw⟩, hn⟩, ht⟩, hglue⟩

/-- **C13 (vi), trees with some layout.** `parse(str(auto_head_tail(tree))) == tree` for every tree
whose heads and tails are blank (`\s*`; they may be empty, all of them or some of them), whose shape
the grammar can express (`expressible`) and that has none of the two adjacencies KF8 / KF9
(`safeAdj`).  `str` prints the root without its own head and tail.

Partial: the hypothesis `safeAdj` excludes the findings KF8 (`T12:30`) and KF9 (`<=b`), for which the
conclusion is false (witnesses below). -/
theorem aht_roundtrip_partial_layout (t : Tree) (hws : t.blankLayout = true)
    (he : expressible t = true) (hs : safeAdj t = true) :
    ∃ t' r, aht t = some t' ∧ parse t'.str = .ok r ∧ r.eqv t = true := by
  obtain ⟨t', h⟩ := aht_some_of_expressible t he
  have hp := aht_printable_partial h hws he hs
  simp only [printable, Bool.and_eq_true] at hp
  obtain ⟨⟨⟨⟨⟨h1, h2⟩, h3⟩, h4⟩, h5⟩, h6⟩ := hp
  obtain ⟨r, hr, hrt⟩ := Reparse.reparse_str_body t' h1 h2 h3 h4 h5 h6
  exact ⟨t', r, h, hr, C09.eqv_trans _ _ _ hrt (aht_eqv h)⟩

/-- the same for `__str__(head_tail=True)` (the head and the tail of the root are printed too) -/
theorem aht_roundtrip_strHT_partial_layout (t : Tree) (hws : t.blankLayout = true)
    (he : expressible t = true) (hs : safeAdj t = true) :
    ∃ t' r, aht t = some t' ∧ parse t'.strHT = .ok r ∧ r.eqv t = true := by
  obtain ⟨t', h⟩ := aht_some_of_expressible t he
  obtain ⟨r, hr, hrt⟩ := Reparse.reparse_of_printable t' (aht_printable_partial h hws he hs)
  exact ⟨t', r, h, hr, C09.eqv_trans _ _ _ hrt (aht_eqv h)⟩

/-- **C13 (vi).** For a tree built without layout (`noLayout`) whose shape the grammar can express
(`expressible`) and that has none of the two adjacencies KF8 / KF9 (`safeAdj`):
`parse(str(auto_head_tail(tree))) == tree`.

Partial: `safeAdj` excludes the findings KF8 and KF9 (see `aht_roundtrip_partial_layout`). -/
theorem aht_roundtrip_partial (t : Tree) (hnl : noLayout t = true) (he : expressible t = true)
    (hs : safeAdj t = true) :
    ∃ t' r, aht t = some t' ∧ parse t'.str = .ok r ∧ r.eqv t = true :=
  aht_roundtrip_partial_layout t (noLayout_blank t hnl) he hs

/-- the root of the result has the head and the tail of the root of the input: for a tree built
without layout, `__str__(head_tail=True)` prints the same text as `str` -/
theorem aht_strHT_eq_str {t t' : Tree} (h : aht t = some t') (hnl : noLayout t = true) :
    t'.strHT = t'.str := by
  have hl := aht_root_lay h
  have h0 : t.lay.head = [] ∧ t.lay.tail = [] := by
    cases t <;> simp_all [noLayout, Tree.lay]
  have hh : t'.lay.head = [] := by rw [hl]; exact h0.1
  have ht : t'.lay.tail = [] := by rw [hl]; exact h0.2
  cases t' <;> simp_all [Tree.strHT, Tree.str, Tree.full, Tree.body, Tree.lay]

/-- the same for `__str__(head_tail=True)` -/
theorem aht_roundtrip_strHT_partial (t : Tree) (hnl : noLayout t = true) (he : expressible t = true)
    (hs : safeAdj t = true) :
    ∃ t' r, aht t = some t' ∧ parse t'.strHT = .ok r ∧ r.eqv t = true :=
  aht_roundtrip_strHT_partial_layout t (noLayout_blank t hnl) he hs

/-! #### non-vacuity and negative witnesses (kernel-checked) -/

private def wd (s : String) : Tree := .term .word s.toList {}
private def phr (s : String) : Tree := .term .phrase s.toList {}

/-- `parse(str(auto_head_tail(t))) == t`, by evaluation -/
private def roundTrips (t : Tree) : Bool :=
  match aht t with
  | some t' => (match parse t'.str with | .ok r => r.eqv t | .error _ => false)
  | none => false

/-- a tree built without any layout: AND, OR, the implicit operation, NOT, `+`, `-`, a field, a field
group, a group, a range (with a prohibited bound), a fuzzy (implicit degree), a proximity, boosts,
`>=`, `<`, a field with a time-like name, a regex -/
def sampleRT : Tree :=
  .op .unk [
    .op .or [
      .op .and [wd "a", .unary .not (wd "b") {}] {},
      .unary .plus (.boost (.approx .fuzzy (wd "c") { val := Compl.fuzzyDflt, implicit := true } {})
        { val := { coeff := 2 } } {}) {}] {},
    .unary .prohibit (.field "f".toList
      (.group .fieldGroup (.op .unk [wd "x", phr "\"y z\""] {}) {}) {}) {},
    .group .group (.range (.unary .prohibit (wd "1") {}) (phr "\"9\"") true false {}) {},
    .approx .proximity (phr "\"p q\"") { val := { coeff := 3 } } {},
    .boost (.orange .from (wd "5") true {}) { val := { coeff := 25, exp := -1 } } {},
    .orange .to (wd "6") false {},
    .field "T12".toList (wd "x30") {},
    .term .regex "/re/".toList {}] {}

/-- all the hypotheses of `aht_roundtrip_partial` hold for the sample -/
example : noLayout sampleRT = true ∧ expressible sampleRT = true ∧ safeAdj sampleRT = true := by
  decide +kernel

/-- printed as it is, the sample is one word; `auto_head_tail` inserts the blanks that are needed
and no other -/
example :
    sampleRT.str = "aANDNOTbOR+c~^2-f:(x\"y z\")([-1TO\"9\"})\"p q\"~3>=5^2.5<6T12:x30/re/".toList ∧
    (aht sampleRT).map Tree.str = some
      "a AND NOT b OR +c~^2 -f:(x \"y z\") ([-1 TO \"9\"}) \"p q\"~3 >=5^2.5 <6 T12:x30 /re/".toList := by
  decide +kernel

/-- the theorem applied to the sample ... -/
example : ∃ t' r, aht sampleRT = some t' ∧ parse t'.str = .ok r ∧ r.eqv sampleRT = true :=
  aht_roundtrip_partial sampleRT (by decide +kernel) (by decide +kernel) (by decide +kernel)
example : ∃ t' r, aht sampleRT = some t' ∧ parse t'.strHT = .ok r ∧ r.eqv sampleRT = true :=
  aht_roundtrip_strHT_partial sampleRT (by decide +kernel) (by decide +kernel) (by decide +kernel)

/-- ... and cross-checked by evaluation -/
example : roundTrips sampleRT = true ∧
    (aht sampleRT).map (fun t' => printable t' && spaced t') = some true := by decide +kernel

/-- a tree with some layout (a tab as the head of an operand of AND, a tail on a field value): the
hypotheses of `aht_roundtrip_partial_layout` hold, and the round trip by evaluation -/
example :
    let t : Tree := .op .and [.term .word "a".toList { head := "\t".toList },
      .field "T12".toList (.term .word "30".toList { head := " ".toList, tail := "  ".toList }) {}] {}
    noLayout t = false ∧ t.blankLayout = true ∧ expressible t = true ∧ safeAdj t = true ∧
    (aht t).map Tree.str = some "\ta AND T12: 30  ".toList ∧ roundTrips t = true := by
  decide +kernel

/-- **KF8**: `SearchField('T12', Word('30'))`, built without layout and expressible, violates
`safeAdj`; `auto_head_tail` leaves it as it is, it is printed `T12:30`, which is one word for the
lexer: the round trip fails -/
example :
    let t : Tree := .field "T12".toList (wd "30") {}
    noLayout t = true ∧ expressible t = true ∧ safeAdj t = false ∧
    (aht t).map Tree.str = some "T12:30".toList ∧
    (parse "T12:30".toList).map Tree.str = .ok "T12:30".toList ∧
    (parse "T12:30".toList).map Tree.className = .ok "Word" ∧
    roundTrips t = false := by decide +kernel

/-- the same with the seconds: the field `T12:30` with the value `45` -/
example :
    let t : Tree := .field "T12:30".toList (wd "45") {}
    noLayout t = true ∧ expressible t = true ∧ safeAdj t = false ∧ roundTrips t = false := by
  decide +kernel

/-- ... and with a nested field: `T12:30:x` -/
example :
    let t : Tree := .field "T12".toList (.field "30".toList (wd "x") {}) {}
    noLayout t = true ∧ expressible t = true ∧ safeAdj t = false ∧ roundTrips t = false := by
  decide +kernel

/-- **KF9**: `To(Word('=b'), include=False)`, built without layout and expressible, violates
`safeAdj`; it is printed `<=b`, which is read as `To(Word('b'), include=True)`: the round trip
fails -/
example :
    let t : Tree := .orange .to (wd "=b") false {}
    noLayout t = true ∧ expressible t = true ∧ safeAdj t = false ∧
    (aht t).map Tree.str = some "<=b".toList ∧
    (match parse "<=b".toList with
     | .ok r => r.eqv (.orange .to (wd "b") true {})
     | .error _ => false) = true ∧
    roundTrips t = false := by decide +kernel

/-- the same for `From` -/
example :
    let t : Tree := .orange .from (wd "=b") false {}
    noLayout t = true ∧ expressible t = true ∧ safeAdj t = false ∧ roundTrips t = false := by
  decide +kernel

/-- with a blank where the bad adjacency is, `safeAdj` holds and the round trip succeeds -/
example :
    let t8 : Tree := .field "T12".toList (.term .word "30".toList { head := " ".toList }) {}
    let t9 : Tree := .orange .to (.term .word "=b".toList { head := " ".toList }) false {}
    safeAdj t8 = true ∧ roundTrips t8 = true ∧ safeAdj t9 = true ∧ roundTrips t9 = true := by
  decide +kernel

/-- the other hypotheses are needed too: a tree that is not canonical (`a AND (b OR c)` without the
group) comes back as another tree; a head that is not blank is not a separator -/
example :
    let u : Tree := .op .and [wd "a", .op .or [wd "b", wd "c"] {}] {}
    let v : Tree := .op .unk [wd "a", .term .word "b".toList { head := "x".toList }] {}
    noLayout u = true ∧ expressible u = false ∧ safeAdj u = true ∧ roundTrips u = false ∧
    v.blankLayout = false ∧ expressible v = true ∧ safeAdj v = true ∧ roundTrips v = false := by
  decide +kernel

end RoundTrip

end Luqum.Props.C13
