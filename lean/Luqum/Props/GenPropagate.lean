/-
  Translator obligations (G19): `MatchingPropagator._propagate` and `_status_from_parent` (luqum/naming.py), the
  mechanism C16 is anchored in.

  `Luqum/Generated/Propagate.lean` is produced on every run by symbolic execution (tools/pysym.py) of
  * `_status_from_parent(path, matching, other)` (its recursive call is the parameter `sfp`);
  * `_propagate(node, matching, other, path)` on a symbolic instance of each of the 20 classes, for a propagator built
    by `MatchingPropagator(OrOperation)` and one built by `MatchingPropagator(AndOperation)` -- so the class tests
    `isinstance(node, self.OR_NODES / NEGATION_NODES / NO_CHILDREN_PROPAGATE)` are decided by the translator from the
    class tuples the constructor really leaves on the object. The recursive calls are the parameter `rec`; the two sets
    the method builds are read as lists in insertion order;
  * for the operations, whose operands are a list of unknown length, the loop `for i, child in enumerate(...)` is a fold:
    the method takes the effect of the whole loop on `(paths_ok, paths_ko, children_status)` as the parameter `for0`,
    and ONE iteration from an arbitrary state is `propagate_<D>_for0`.
  The theorems: the model's `statusFromParent` is the fixed point of the translated `_status_from_parent`
  (`sfp_is_generated`); folding the translated iteration over the operands gives the model's `propagateList`
  (`forFold_is_propagateList`); with these, the translated `_propagate` returns, without raising, the model's
  `propagate (propCfg d)` on every node, for both default operations, every pair of sets and every path
  (`propagate_is_generated`).
-/
import Luqum.Generated.Propagate
import Luqum.Props.C16

namespace Luqum.Props.GenPropagate
open Luqum Generated Luqum.Props.C16

abbrev Res := Bool × List (List Nat) × List (List Nat)
abbrev St := List (List Nat) × List (List Nat) × List Bool

/-- the translated iteration folded over the operands, from index `i` -/
def forFold (d : Bool) (rec : List Nat → Tree → Res) (m o : List (List Nat)) (path : List Nat) :
    Nat → St → List Tree → St
  | _, s, [] => s
  | i, s, x :: r =>
    match (if d then Propagate.propagate_or_for0 rec m o path s.1 s.2.1 s.2.2 i x
      else Propagate.propagate_and_for0 rec m o path s.1 s.2.1 s.2.2 i x) with
    | .ok s' => forFold d rec m o path (i + 1) s' r
    | .error _ => s

/-- `_propagate`, assembled by class from the generated functions -/
def genProp (d : Bool) (rec : List Nat → Tree → Res) (sfp : List Nat → Bool) (m o : List (List Nat))
    (path : List Nat) : Tree → Except PyErr Res
  | .term .word v l =>
    if d then Propagate.propagate_or_Word rec sfp m o path v l
    else Propagate.propagate_and_Word rec sfp m o path v l
  | .term .phrase v l =>
    if d then Propagate.propagate_or_Phrase rec sfp m o path v l
    else Propagate.propagate_and_Phrase rec sfp m o path v l
  | .term .regex v l =>
    if d then Propagate.propagate_or_Regex rec sfp m o path v l
    else Propagate.propagate_and_Regex rec sfp m o path v l
  | .field n e l =>
    if d then Propagate.propagate_or_SearchField rec sfp m o path n e l
    else Propagate.propagate_and_SearchField rec sfp m o path n e l
  | .group .group e l =>
    if d then Propagate.propagate_or_Group rec sfp m o path e l
    else Propagate.propagate_and_Group rec sfp m o path e l
  | .group .fieldGroup e l =>
    if d then Propagate.propagate_or_FieldGroup rec sfp m o path e l
    else Propagate.propagate_and_FieldGroup rec sfp m o path e l
  | .range a b il ih l =>
    if d then Propagate.propagate_or_Range rec sfp m o path a b il ih l
    else Propagate.propagate_and_Range rec sfp m o path a b il ih l
  | .approx .fuzzy x n l =>
    if d then Propagate.propagate_or_Fuzzy rec sfp m o path x n l
    else Propagate.propagate_and_Fuzzy rec sfp m o path x n l
  | .approx .proximity x n l =>
    if d then Propagate.propagate_or_Proximity rec sfp m o path x n l
    else Propagate.propagate_and_Proximity rec sfp m o path x n l
  | .boost e n l =>
    if d then Propagate.propagate_or_Boost rec sfp m o path e n l
    else Propagate.propagate_and_Boost rec sfp m o path e n l
  | .op .and xs l =>
    if d then Propagate.propagate_or_AndOperation (forFold d rec m o path 0) rec sfp m o path xs l
    else Propagate.propagate_and_AndOperation (forFold d rec m o path 0) rec sfp m o path xs l
  | .op .or xs l =>
    if d then Propagate.propagate_or_OrOperation (forFold d rec m o path 0) rec sfp m o path xs l
    else Propagate.propagate_and_OrOperation (forFold d rec m o path 0) rec sfp m o path xs l
  | .op .unk xs l =>
    if d then Propagate.propagate_or_UnknownOperation (forFold d rec m o path 0) rec sfp m o path xs l
    else Propagate.propagate_and_UnknownOperation (forFold d rec m o path 0) rec sfp m o path xs l
  | .op .bool xs l =>
    if d then Propagate.propagate_or_BoolOperation (forFold d rec m o path 0) rec sfp m o path xs l
    else Propagate.propagate_and_BoolOperation (forFold d rec m o path 0) rec sfp m o path xs l
  | .unary .plus a l =>
    if d then Propagate.propagate_or_Plus rec sfp m o path a l
    else Propagate.propagate_and_Plus rec sfp m o path a l
  | .unary .not a l =>
    if d then Propagate.propagate_or_Not rec sfp m o path a l
    else Propagate.propagate_and_Not rec sfp m o path a l
  | .unary .prohibit a l =>
    if d then Propagate.propagate_or_Prohibit rec sfp m o path a l
    else Propagate.propagate_and_Prohibit rec sfp m o path a l
  | .orange .from a i l =>
    if d then Propagate.propagate_or_From rec sfp m o path a i l
    else Propagate.propagate_and_From rec sfp m o path a i l
  | .orange .to a i l =>
    if d then Propagate.propagate_or_To rec sfp m o path a i l
    else Propagate.propagate_and_To rec sfp m o path a i l
  | .none l =>
    if d then Propagate.propagate_or_NoneItem rec sfp m o path l
    else Propagate.propagate_and_NoneItem rec sfp m o path l

/-- the model's `_status_from_parent` at its own fuel -/
def sfpOf (m o : List (List Nat)) (p : List Nat) : Bool := statusFromParent m o (p.length + 1) p

/-- **`_status_from_parent` is the translated code**: the model's function is the fixed point of the translated one
(which never raises) -/
theorem sfp_is_generated (m o : List (List Nat)) (p : List Nat) :
    Propagate.sfp (sfpOf m o) m o p = .ok (sfpOf m o p) := by
  unfold Propagate.sfp sfpOf
  rw [Lemmas.Propagate.sfp_succ m o p.length p]
  by_cases h1 : p ∈ m
  · simp [h1]
  · by_cases h2 : p ∈ o
    · simp [h1, h2]
    · by_cases h3 : p = []
      · subst h3; simp [h1, h2]
      · have hl : p.dropLast.length + 1 = p.length := by
          have := List.length_pos_iff.2 h3
          simp; omega
        simp only [h1, h2, h3, List.contains_iff_mem, if_false, hl]

/-- **the loop over the operands is the model's `propagateList`** -/
theorem forFold_is_propagateList (d : Bool) (m o : List (List Nat)) (path : List Nat) :
    ∀ (xs : List Tree) (i : Nat) (s : St),
      forFold d (propagate (propCfg d) m o) m o path i s xs =
        (s.1 ++ (propagateList (propCfg d) m o path i xs).2.1,
         s.2.1 ++ (propagateList (propCfg d) m o path i xs).2.2,
         s.2.2 ++ (propagateList (propCfg d) m o path i xs).1)
  | [], i, s => by simp [forFold, propagateList]
  | x :: r, i, s => by
    rw [forFold]
    cases d
    · simp only [Bool.false_eq_true, if_false, Propagate.propagate_and_for0]
      rw [forFold_is_propagateList false m o path r (i + 1)]
      simp [propagateList, List.append_assoc]
    · simp only [if_true, Propagate.propagate_or_for0]
      rw [forFold_is_propagateList true m o path r (i + 1)]
      simp [propagateList, List.append_assoc]

/-- the class tests of the model, on the generated class tuples, are the pattern matchings of Props/C16 -/
theorem cfg_facts (d : Bool) (t : Tree) :
    isInstanceOf (propCfg d).orNodes t = isOrNode d t ∧ isInstanceOf (propCfg d).negNodes t = isNeg t ∧
    isInstanceOf (propCfg d).noDescend t = isAtomic t :=
  ⟨isInstanceOf_orNodes d t, isInstanceOf_negNodes d t, isInstanceOf_noDescend d t⟩

theorem ok_ite {α : Type} (c : Prop) [Decidable c] (a b : α) :
    (if c then (Except.ok a : Except PyErr α) else .ok b) = .ok (if c then a else b) := by
  split <;> rfl

theorem gen_leaf (d : Bool) (m o : List (List Nat)) (path : List Nat) (k : TermK) (v : Str) (l : Lay) :
    genProp d (propagate (propCfg d) m o) (sfpOf m o) m o path (.term k v l) =
      .ok (propagate (propCfg d) m o path (.term k v l)) := by
  obtain ⟨h1, h2, h3⟩ := cfg_facts d (.term k v l)
  rw [Lemmas.Propagate.propagate_stop _ m o path _ (by simp [Tree.children])]
  simp only [Lemmas.Propagate.step, h1, h2, h3, isNeg, isAtomic, isOrNode, sfpOf]
  cases d <;> cases k <;>
    simp only [genProp, Propagate.propagate_or_Word, Propagate.propagate_and_Word, Propagate.propagate_or_Phrase,
      Propagate.propagate_and_Phrase, Propagate.propagate_or_Regex, Propagate.propagate_and_Regex, sfpOf] <;>
    by_cases hm : path ∈ m <;> simp [hm] <;> exact ok_ite _ _ _

theorem gen_none (d : Bool) (m o : List (List Nat)) (path : List Nat) (l : Lay) :
    genProp d (propagate (propCfg d) m o) (sfpOf m o) m o path (.none l) =
      .ok (propagate (propCfg d) m o path (.none l)) := by
  obtain ⟨h1, h2, h3⟩ := cfg_facts d (.none l)
  rw [Lemmas.Propagate.propagate_stop _ m o path _ (by simp [Tree.children])]
  simp only [Lemmas.Propagate.step, h1, h2, h3, isNeg, isOrNode, sfpOf]
  cases d <;>
    simp only [genProp, Propagate.propagate_or_NoneItem, Propagate.propagate_and_NoneItem, sfpOf] <;>
    by_cases hm : path ∈ m <;> simp [hm] <;> exact ok_ite _ _ _

theorem gen_range (d : Bool) (m o : List (List Nat)) (path : List Nat) (a b : Tree) (il ih : Bool) (l : Lay) :
    genProp d (propagate (propCfg d) m o) (sfpOf m o) m o path (.range a b il ih l) =
      .ok (propagate (propCfg d) m o path (.range a b il ih l)) := by
  obtain ⟨h1, h2, h3⟩ := cfg_facts d (.range a b il ih l)
  rw [Lemmas.Propagate.propagate_stop _ m o path _ (by simp [h3, isAtomic])]
  simp only [Lemmas.Propagate.step, h1, h2, h3, isNeg, isOrNode, sfpOf]
  cases d <;>
    simp only [genProp, Propagate.propagate_or_Range, Propagate.propagate_and_Range, sfpOf] <;>
    by_cases hm : path ∈ m <;> simp [hm] <;> exact ok_ite _ _ _

theorem gen_approx (d : Bool) (m o : List (List Nat)) (path : List Nat) (k : ApxK) (e : Tree) (n : Num) (l : Lay) :
    genProp d (propagate (propCfg d) m o) (sfpOf m o) m o path (.approx k e n l) =
      .ok (propagate (propCfg d) m o path (.approx k e n l)) := by
  obtain ⟨h1, h2, h3⟩ := cfg_facts d (.approx k e n l)
  rw [Lemmas.Propagate.propagate_stop _ m o path _ (by simp [h3, isAtomic])]
  simp only [Lemmas.Propagate.step, h1, h2, h3, isNeg, isOrNode, sfpOf]
  cases d <;> cases k <;>
    simp only [genProp, Propagate.propagate_or_Fuzzy, Propagate.propagate_and_Fuzzy, Propagate.propagate_or_Proximity,
      Propagate.propagate_and_Proximity, sfpOf] <;>
    by_cases hm : path ∈ m <;> simp [hm] <;> exact ok_ite _ _ _

theorem gen_field (d : Bool) (m o : List (List Nat)) (path : List Nat) (n : Str) (e : Tree) (l : Lay) :
    genProp d (propagate (propCfg d) m o) (sfpOf m o) m o path (.field n e l) =
      .ok (propagate (propCfg d) m o path (.field n e l)) := by
  obtain ⟨h1, h2, h3⟩ := cfg_facts d (.field n e l)
  rw [Lemmas.Propagate.propagate_single _ m o path _ e rfl rfl (by rw [h3]; rfl)]
  simp only [Lemmas.Propagate.step, h1, h2, h3]
  cases d <;>
    simp only [genProp, Propagate.propagate_or_SearchField, Propagate.propagate_and_SearchField, isNeg, isOrNode] <;>
    by_cases hm : path ∈ m <;> simp [hm] <;>
    cases (propagate (propCfg _) m o (path ++ [0]) e).1 <;> simp

theorem gen_group (d : Bool) (m o : List (List Nat)) (path : List Nat) (k : GrpK) (e : Tree) (l : Lay) :
    genProp d (propagate (propCfg d) m o) (sfpOf m o) m o path (.group k e l) =
      .ok (propagate (propCfg d) m o path (.group k e l)) := by
  obtain ⟨h1, h2, h3⟩ := cfg_facts d (.group k e l)
  rw [Lemmas.Propagate.propagate_single _ m o path _ e rfl rfl (by rw [h3]; rfl)]
  simp only [Lemmas.Propagate.step, h1, h2, h3]
  cases d <;> cases k <;>
    simp only [genProp, Propagate.propagate_or_Group, Propagate.propagate_and_Group, Propagate.propagate_or_FieldGroup, Propagate.propagate_and_FieldGroup, isNeg, isOrNode] <;>
    by_cases hm : path ∈ m <;> simp [hm] <;>
    cases (propagate (propCfg _) m o (path ++ [0]) e).1 <;> simp

theorem gen_boost (d : Bool) (m o : List (List Nat)) (path : List Nat) (e : Tree) (n : Num) (l : Lay) :
    genProp d (propagate (propCfg d) m o) (sfpOf m o) m o path (.boost e n l) =
      .ok (propagate (propCfg d) m o path (.boost e n l)) := by
  obtain ⟨h1, h2, h3⟩ := cfg_facts d (.boost e n l)
  rw [Lemmas.Propagate.propagate_single _ m o path _ e rfl rfl (by rw [h3]; rfl)]
  simp only [Lemmas.Propagate.step, h1, h2, h3]
  cases d <;>
    simp only [genProp, Propagate.propagate_or_Boost, Propagate.propagate_and_Boost, isNeg, isOrNode] <;>
    by_cases hm : path ∈ m <;> simp [hm] <;>
    cases (propagate (propCfg _) m o (path ++ [0]) e).1 <;> simp

theorem gen_unary (d : Bool) (m o : List (List Nat)) (path : List Nat) (k : UnK) (e : Tree) (l : Lay) :
    genProp d (propagate (propCfg d) m o) (sfpOf m o) m o path (.unary k e l) =
      .ok (propagate (propCfg d) m o path (.unary k e l)) := by
  obtain ⟨h1, h2, h3⟩ := cfg_facts d (.unary k e l)
  rw [Lemmas.Propagate.propagate_single _ m o path _ e rfl rfl (by rw [h3]; rfl)]
  simp only [Lemmas.Propagate.step, h1, h2, h3]
  cases d <;> cases k <;>
    simp only [genProp, Propagate.propagate_or_Plus, Propagate.propagate_and_Plus, Propagate.propagate_or_Not, Propagate.propagate_and_Not, Propagate.propagate_or_Prohibit, Propagate.propagate_and_Prohibit, isNeg, isOrNode] <;>
    by_cases hm : path ∈ m <;> simp [hm] <;>
    cases (propagate (propCfg _) m o (path ++ [0]) e).1 <;> simp

theorem gen_orange (d : Bool) (m o : List (List Nat)) (path : List Nat) (k : ORK) (e : Tree) (i : Bool) (l : Lay) :
    genProp d (propagate (propCfg d) m o) (sfpOf m o) m o path (.orange k e i l) =
      .ok (propagate (propCfg d) m o path (.orange k e i l)) := by
  obtain ⟨h1, h2, h3⟩ := cfg_facts d (.orange k e i l)
  rw [Lemmas.Propagate.propagate_single _ m o path _ e rfl rfl (by rw [h3]; rfl)]
  simp only [Lemmas.Propagate.step, h1, h2, h3]
  cases d <;> cases k <;>
    simp only [genProp, Propagate.propagate_or_From, Propagate.propagate_and_From, Propagate.propagate_or_To, Propagate.propagate_and_To, isNeg, isOrNode] <;>
    by_cases hm : path ∈ m <;> simp [hm] <;>
    cases (propagate (propCfg _) m o (path ++ [0]) e).1 <;> simp

theorem propagateList_ne (cfg : PropCfg) (m o : List (List Nat)) (path : List Nat) (i : Nat) (x : Tree)
    (r : List Tree) : (propagateList cfg m o path i (x :: r)).1 ≠ [] := by
  simp [propagateList]

theorem gen_op (d : Bool) (m o : List (List Nat)) (path : List Nat) (k : OpK) (xs : List Tree) (l : Lay) :
    genProp d (propagate (propCfg d) m o) (sfpOf m o) m o path (.op k xs l) =
      .ok (propagate (propCfg d) m o path (.op k xs l)) := by
  obtain ⟨h1, h2, h3⟩ := cfg_facts d (.op k xs l)
  cases xs with
  | nil =>
    rw [Lemmas.Propagate.propagate_stop _ m o path _ (by simp [Tree.children])]
    simp only [Lemmas.Propagate.step, h1, h2, h3, isNeg, isOrNode, sfpOf]
    cases d <;> cases k <;>
      simp only [genProp, Propagate.propagate_or_AndOperation, Propagate.propagate_and_AndOperation, Propagate.propagate_or_OrOperation, Propagate.propagate_and_OrOperation, Propagate.propagate_or_UnknownOperation, Propagate.propagate_and_UnknownOperation, Propagate.propagate_or_BoolOperation, Propagate.propagate_and_BoolOperation, sfpOf] <;>
      by_cases hm : path ∈ m <;> simp [hm] <;> exact ok_ite _ _ _
  | cons x r =>
    rw [Lemmas.Propagate.propagate_op _ m o path k x r l (by rw [h3]; rfl)]
    have hF := forFold_is_propagateList d m o path (x :: r) 0 ([], [], [])
    have hne := propagateList_ne (propCfg d) m o path 0 x r
    simp only [Lemmas.Propagate.step, h1, h2, h3]
    cases d <;> cases k <;>
      simp only [genProp, Propagate.propagate_or_AndOperation, Propagate.propagate_and_AndOperation, Propagate.propagate_or_OrOperation, Propagate.propagate_and_OrOperation, Propagate.propagate_or_UnknownOperation, Propagate.propagate_and_UnknownOperation, Propagate.propagate_or_BoolOperation, Propagate.propagate_and_BoolOperation, hF, isNeg, isOrNode] <;>
      by_cases hm : path ∈ m <;> simp [hm, hne] <;> exact ok_ite _ _ _

/-- **`_propagate` is the translated code**: for both default operations, every pair of path sets, every path and every
node, the translated method -- given the model's `propagate` for the recursive calls, the model's `statusFromParent`
for `_status_from_parent`, and the translated iteration folded over the operands for the loop -- returns, without
raising, the model's result: the same status, the same matching paths and the same other paths in the same order -/
theorem propagate_is_generated (d : Bool) (m o : List (List Nat)) (path : List Nat) (t : Tree) :
    genProp d (propagate (propCfg d) m o) (sfpOf m o) m o path t = .ok (propagate (propCfg d) m o path t) := by
  cases t with
  | term k v l => exact gen_leaf d m o path k v l
  | field n e l => exact gen_field d m o path n e l
  | group k e l => exact gen_group d m o path k e l
  | range a b il ih l => exact gen_range d m o path a b il ih l
  | approx k e n l => exact gen_approx d m o path k e n l
  | boost e n l => exact gen_boost d m o path e n l
  | op k xs l => exact gen_op d m o path k xs l
  | unary k e l => exact gen_unary d m o path k e l
  | orange k e i l => exact gen_orange d m o path k e i l
  | none l => exact gen_none d m o path l

/-- **C16 for the translated code**: under the hypotheses of `propagate_correct`, the translated `_propagate` applied to
the root (the model's `propagate` standing for its recursive calls, as justified by `propagate_is_generated` at every
node below) returns, without raising, the boolean value of the query and classifies every visible sub-expression as
matching exactly when it evaluates to true, as not matching exactly when it evaluates to false -/
theorem translated_propagate_correct (defaultOr : Bool) (τ : List Nat → Bool) (t : Tree)
    (hg : good false t = true) (matching other : List (List Nat))
    (hm : ∀ p, p ∈ matching ↔ p ∈ Lemmas.NamedPaths.named t ∧ coverVal τ t p = true)
    (ho : ∀ p, p ∈ other ↔ p ∈ Lemmas.NamedPaths.named t ∧ coverVal τ t p = false) :
    ∃ r, genProp defaultOr (propagate (propCfg defaultOr) matching other) (sfpOf matching other) matching other [] t
        = .ok r ∧
      r.1 = evalT defaultOr τ [] t ∧
      ∀ p n, t.at? p = some n → visible t p = true →
        (p ∈ r.2.1 ↔ evalT defaultOr τ p n = true) ∧ (p ∈ r.2.2 ↔ evalT defaultOr τ p n = false) := by
  have h := propagate_correct defaultOr τ t hg matching other hm ho
  exact ⟨_, propagate_is_generated defaultOr matching other [] t, h.1, h.2.1⟩

/-- every function the translator was asked for was translated: `_status_from_parent`, and for each default
operation the 20 classes and the iteration of the loop -/
theorem propagate_names_complete : Propagate.propagateNames.length = 1 + 2 * (20 + 1) := by decide

end Luqum.Props.GenPropagate
