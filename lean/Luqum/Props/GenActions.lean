/-
  Translator obligations (G9): the semantic actions. For every production listed in
  `Generated.Act.actionNames` the hand-written model `Luqum.act` (Model/Parser.lean) equals the function that
  `tools/translate.py` produces by symbolic execution of the Python source (Luqum/Generated/Actions.lean).

  `liftAct` is the dictionary between what the generated code may return (`Except PyErr Tree`) and what the model
  returns (`Except ParseErr Val`): a tree is an item on the parse stack, the `ParseSyntaxError` "invalid number"
  raised with a text and a position is `badNumber`, and any other python exception has no counterpart.

  * productions that cannot fail: `act name args = liftAct (Act.name args)` for all arguments;
  * `p_fuzzy`, `p_boosting`, `p_proximity`: the same equation when the APPROX / BOOST token has a position (python
    formats it with `%d`; the model's `numError` uses `getD 0`), and unconditionally on the success path;
  * the binary operations: the generated function raises `IndexError` exactly when the right operand is an
    operation of the same class without operands (the model totalises that case); wherever it returns, the model
    returns the same tree.
-/
import Luqum.Generated.Actions

namespace Luqum.Props.GenActions
open Luqum Luqum.Generated

/-- model-side reading of the result of a generated action -/
def liftAct : Except PyErr Tree → Except ParseErr Val
  | .ok t => .ok (.item t)
  | .error (.fmt "ParseSyntaxError" "Syntax error in input : invalid number '%s' at position %d!"
      [.ostr (some v), .oint (some p)]) => .error (.badNumber v p)
  | .error _ => .error (.internal "python exception")

@[simp] theorem liftAct_ok (t : Tree) : liftAct (.ok t) = .ok (.item t) := rfl

theorem liftAct_ite (c : Prop) [Decidable c] (a b : Except PyErr Tree) :
    liftAct (if c then a else b) = if c then liftAct a else liftAct b := by split <;> rfl

@[simp] theorem lay_setLay (t : Tree) (l : Lay) : (t.setLay l).lay = l := by cases t <;> rfl

@[simp] theorem setLay_setLay (t : Tree) (l l2 : Lay) : (t.setLay l).setLay l2 = t.setLay l2 := by
  cases t <;> rfl

/-- closes the goals left after unfolding a generated action and the model's helpers. (The model's `act` is
unfolded by computation, `conv => lhs; whnf` or an equation proved by `rfl`: the equation lemmas `simp only [act]`
would need take a long time to generate for a `match` with that many overlapping alternatives.) -/
macro "gen_tac" : tactic => `(tactic| (
  simp only [liftAct_ite, liftAct_ok]
  repeat' split
  all_goals (try simp_all [layLen, Tree.head, Tree.tail, Tree.setHead, Tree.setTail])
  all_goals (try omega)))

/-- the same where the trees whose layout is read or written are constructor applications -/
macro "gen_tac_ctor" : tactic => `(tactic| (
  simp only [liftAct_ite, liftAct_ok]
  repeat' split
  all_goals (try simp_all [layLen, Tree.head, Tree.tail, Tree.setHead, Tree.setTail, Tree.setLay, Tree.lay])
  all_goals (try omega)))

/-! ### pass-through productions -/

theorem gen_p_expression_unary (p1 : Tree) :
    act "p_expression_unary" [.item p1] = liftAct (Act.p_expression_unary p1) := rfl

theorem gen_p_possibly_negative_term_2 (p1 : Tree) :
    act "p_possibly_negative_term" [.item p1] = liftAct (Act.p_possibly_negative_term_2 p1) := rfl

theorem gen_p_phrase_or_possibly_negative_term (p1 : Tree) :
    act "p_phrase_or_possibly_negative_term" [.item p1]
      = liftAct (Act.p_phrase_or_possibly_negative_term p1) := rfl

theorem gen_p_phrase_or_possibly_negative_term_2 (p1v : Str) (p1l : Lay) :
    act "p_phrase_or_possibly_negative_term" [.item (.term .phrase p1v p1l)]
      = liftAct (Act.p_phrase_or_possibly_negative_term_2 p1v p1l) := rfl

theorem gen_p_quoting (p1v : Str) (p1l : Lay) :
    act "p_quoting" [.item (.term .phrase p1v p1l)] = liftAct (Act.p_quoting p1v p1l) := rfl

theorem gen_p_terms (p1v : Str) (p1l : Lay) :
    act "p_terms" [.item (.term .word p1v p1l)] = liftAct (Act.p_terms p1v p1l) := rfl

theorem gen_p_regex (p1v : Str) (p1l : Lay) :
    act "p_regex" [.item (.term .regex p1v p1l)] = liftAct (Act.p_regex p1v p1l) := rfl

theorem gen_p_phrase_or_term (p1v : Str) (p1l : Lay) :
    act "p_phrase_or_term" [.item (.term .word p1v p1l)] = liftAct (Act.p_phrase_or_term p1v p1l) := rfl

theorem gen_p_phrase_or_term_2 (p1v : Str) (p1l : Lay) :
    act "p_phrase_or_term" [.item (.term .phrase p1v p1l)] = liftAct (Act.p_phrase_or_term_2 p1v p1l) := rfl

/-! ### prefix operators -/

theorem gen_p_expression_plus (p1v : Str) (p1l : Lay) (p2 : Tree) :
    act "p_expression_plus" [.tok .plus ⟨some p1v, p1l⟩, .item p2]
      = liftAct (Act.p_expression_plus p1v p1l p2) := by
  unfold Act.p_expression_plus
  conv => lhs; whnf
  simp only [mgrUnary, mgrPos]
  cases h : p1l.pos <;> gen_tac

theorem gen_p_expression_minus (p1v : Str) (p1l : Lay) (p2 : Tree) :
    act "p_expression_minus" [.tok .minus ⟨some p1v, p1l⟩, .item p2]
      = liftAct (Act.p_expression_minus p1v p1l p2) := by
  unfold Act.p_expression_minus
  conv => lhs; whnf
  simp only [mgrUnary, mgrPos]
  cases h : p1l.pos <;> gen_tac

theorem gen_p_expression_not (p1v : Str) (p1l : Lay) (p2 : Tree) :
    act "p_expression_not" [.tok .not ⟨some p1v, p1l⟩, .item p2]
      = liftAct (Act.p_expression_not p1v p1l p2) := by
  unfold Act.p_expression_not
  conv => lhs; whnf
  simp only [mgrUnary, mgrPos]
  cases h : p1l.pos <;> gen_tac

theorem gen_p_possibly_negative_term (p1v : Str) (p1l : Lay) (p2 : Tree) :
    act "p_possibly_negative_term" [.tok .minus ⟨some p1v, p1l⟩, .item p2]
      = liftAct (Act.p_possibly_negative_term p1v p1l p2) := by
  unfold Act.p_possibly_negative_term
  conv => lhs; whnf
  simp only [mgrUnary, mgrPos]
  cases h : p1l.pos <;> gen_tac

theorem gen_p_lessthan (p1v : Str) (p1l : Lay) (p2 : Tree) :
    act "p_lessthan" [.tok .lessthan ⟨some p1v, p1l⟩, .item p2]
      = liftAct (Act.p_lessthan p1v p1l p2) := by
  unfold Act.p_lessthan
  conv => lhs; whnf
  simp only [mgrUnary, mgrPos]
  cases h : p1l.pos <;> gen_tac

theorem gen_p_greaterthan (p1v : Str) (p1l : Lay) (p2 : Tree) :
    act "p_greaterthan" [.tok .greaterthan ⟨some p1v, p1l⟩, .item p2]
      = liftAct (Act.p_greaterthan p1v p1l p2) := by
  unfold Act.p_greaterthan
  conv => lhs; whnf
  simp only [mgrUnary, mgrPos]
  cases h : p1l.pos <;> gen_tac

/-! ### brackets -/

theorem gen_p_grouping (p1v : Str) (p1l : Lay) (p2 : Tree) (p3v : Str) (p3l : Lay) :
    act "p_grouping" [.tok .lparen ⟨some p1v, p1l⟩, .item p2, .tok .rparen ⟨some p3v, p3l⟩]
      = liftAct (Act.p_grouping p1v p1l p2 p3v p3l) := by
  unfold Act.p_grouping
  conv => lhs; whnf
  cases h : p1l.pos <;> gen_tac

theorem gen_p_range (p1v : Str) (p1l : Lay) (p2 : Tree) (p3v : Str) (p3l : Lay) (p4 : Tree)
    (p5v : Str) (p5l : Lay) :
    act "p_range" [.tok .lbracket ⟨some p1v, p1l⟩, .item p2, .tok .to ⟨some p3v, p3l⟩, .item p4,
        .tok .rbracket ⟨some p5v, p5l⟩]
      = liftAct (Act.p_range p1v p1l p2 p3v p3l p4 p5v p5l) := by
  unfold Act.p_range
  conv => lhs; whnf
  cases h : p1l.pos <;> gen_tac

theorem gen_p_to_as_term (p1v : Str) (p1l : Lay) :
    act "p_to_as_term" [.tok .to ⟨some p1v, p1l⟩] = liftAct (Act.p_to_as_term p1v p1l) := by
  unfold Act.p_to_as_term
  conv => lhs; whnf
  cases h : p1l.pos <;> gen_tac

/-! ### field search -/

/-- the model's `p_field_search` as an equation (by computation) -/
theorem act_field_search (name : Str) (nl : Lay) (c : TokV) (e : Tree) :
    act "p_field_search" [.item (.term .word name nl), .tok .column c, .item e] =
      (let e' := match e with
        | .group .group x l => Tree.group .fieldGroup x { l with name := none }
        | t => t
      .ok (.item (.field name (e'.setHead (c.lay.tail ++ e'.head))
        { head := nl.head, tail := [], pos := (mgrPos [nl, c.lay, e'.lay] true false).1,
          size := (mgrPos [nl, c.lay, e'.lay] true false).2 }))) := rfl

theorem gen_p_field_search (p1v : Str) (p1l : Lay) (p2v : Str) (p2l : Lay) (p3 : Tree) :
    act "p_field_search" [.item (.term .word p1v p1l), .tok .column ⟨some p2v, p2l⟩, .item p3]
      = liftAct (Act.p_field_search p1v p1l p2v p2l p3) := by
  rw [act_field_search]
  unfold Act.p_field_search
  simp only [mgrPos]
  cases p3 with
  | group k e l => cases k <;> simp only [] <;> cases h : p1l.pos <;> gen_tac_ctor
  | _ => simp only [] <;> cases h : p1l.pos <;> gen_tac_ctor

/-! ### numbers after `~` and `^` -/

theorem liftAct_numError (v : Str) (p : Int) :
    liftAct (.error (.fmt "ParseSyntaxError" "Syntax error in input : invalid number '%s' at position %d!"
      [.ostr (some v), .oint (some p)])) = .error (.badNumber v p) := rfl

theorem decNum_fuzzy (a : TokV) : decNum a { coeff := 5, exp := -1 } =
    match PyPrim.fuzzyNum a.value with | some n => .ok n | none => .error (numError a) :=
  decNum_eq_prim a _

theorem decNum_boost (a : TokV) : decNum a { coeff := 1 } =
    match PyPrim.boostNum a.value with | some n => .ok n | none => .error (numError a) :=
  decNum_eq_prim a _

/-- the model's `p_fuzzy`, `p_boosting`, `p_proximity` as equations (by computation) -/
theorem act_fuzzy (e : Tree) (a : TokV) :
    act "p_fuzzy" [.item e, .tok .approx a] =
      match decNum a { coeff := 5, exp := -1 } with
      | .ok n => .ok (.item (mgrPostUnary e a.lay (fun x l => .approx .fuzzy x n l)))
      | .error err => .error err := rfl

theorem act_boosting (e : Tree) (a : TokV) :
    act "p_boosting" [.item e, .tok .boost a] =
      match decNum a { coeff := 1 } with
      | .ok n => .ok (.item (mgrPostUnary e a.lay (fun x l => .boost x n l)))
      | .error err => .error err := rfl

theorem act_proximity (e : Tree) (a : TokV) :
    act "p_proximity" [.item e, .tok .approx a] =
      match intNum a with
      | .ok n => .ok (.item (mgrPostUnary e a.lay (fun x l => .approx .proximity x n l)))
      | .error err => .error err := rfl

/-- `p_fuzzy`, success path: no hypothesis on the position of the APPROX token -/
theorem gen_p_fuzzy_ok (p1v : Str) (p1l : Lay) (p2v : Option Str) (p2l : Lay) (n : Num)
    (hn : PyPrim.fuzzyNum p2v = some n) :
    act "p_fuzzy" [.item (.term .word p1v p1l), .tok .approx ⟨p2v, p2l⟩]
      = liftAct (Act.p_fuzzy p1v p1l p2v p2l) := by
  unfold Act.p_fuzzy
  simp only [act_fuzzy, decNum_fuzzy, hn, mgrPostUnary, mgrPos]
  cases h : p1l.pos <;> gen_tac_ctor

theorem gen_p_fuzzy (p1v : Str) (p1l : Lay) (p2v : Option Str) (p2l : Lay) (q : Int)
    (hq : p2l.pos = some q) :
    act "p_fuzzy" [.item (.term .word p1v p1l), .tok .approx ⟨p2v, p2l⟩]
      = liftAct (Act.p_fuzzy p1v p1l p2v p2l) := by
  cases hn : PyPrim.fuzzyNum p2v with
  | some n => exact gen_p_fuzzy_ok p1v p1l p2v p2l n hn
  | none =>
    unfold Act.p_fuzzy
    cases p2v with
    | none => simp [PyPrim.fuzzyNum, PyPrim.decOf] at hn
    | some s => simp only [act_fuzzy, decNum_fuzzy, hn, hq, liftAct_numError, numError, Option.getD]

/-- `p_boosting`, success path: no hypothesis on the position of the BOOST token -/
theorem gen_p_boosting_ok (p1 : Tree) (p2v : Option Str) (p2l : Lay) (n : Num)
    (hn : PyPrim.boostNum p2v = some n) :
    act "p_boosting" [.item p1, .tok .boost ⟨p2v, p2l⟩] = liftAct (Act.p_boosting p1 p2v p2l) := by
  unfold Act.p_boosting
  simp only [act_boosting, decNum_boost, hn, mgrPostUnary, mgrPos]
  cases h : p1.lay.pos <;> gen_tac

theorem gen_p_boosting (p1 : Tree) (p2v : Option Str) (p2l : Lay) (q : Int)
    (hq : p2l.pos = some q) :
    act "p_boosting" [.item p1, .tok .boost ⟨p2v, p2l⟩] = liftAct (Act.p_boosting p1 p2v p2l) := by
  cases hn : PyPrim.boostNum p2v with
  | some n => exact gen_p_boosting_ok p1 p2v p2l n hn
  | none =>
    unfold Act.p_boosting
    cases p2v with
    | none => simp [PyPrim.boostNum, PyPrim.decOf] at hn
    | some s => simp only [act_boosting, decNum_boost, hn, hq, liftAct_numError, numError, Option.getD]

/-- `p_proximity`, success path: no hypothesis on the position of the APPROX token -/
theorem gen_p_proximity_ok (p1v : Str) (p1l : Lay) (p2v : Option Str) (p2l : Lay) (n : Num)
    (hn : PyPrim.proximityNum p2v = some n) :
    act "p_proximity" [.item (.term .phrase p1v p1l), .tok .approx ⟨p2v, p2l⟩]
      = liftAct (Act.p_proximity p1v p1l p2v p2l) := by
  unfold Act.p_proximity
  simp only [act_proximity, intNum_eq_prim, hn, mgrPostUnary, mgrPos]
  cases h : p1l.pos <;> gen_tac_ctor

theorem gen_p_proximity (p1v : Str) (p1l : Lay) (p2v : Option Str) (p2l : Lay) (q : Int)
    (hq : p2l.pos = some q) :
    act "p_proximity" [.item (.term .phrase p1v p1l), .tok .approx ⟨p2v, p2l⟩]
      = liftAct (Act.p_proximity p1v p1l p2v p2l) := by
  cases hn : PyPrim.proximityNum p2v with
  | some n => exact gen_p_proximity_ok p1v p1l p2v p2l n hn
  | none =>
    unfold Act.p_proximity
    cases p2v with
    | none => simp [PyPrim.proximityNum] at hn
    | some s => simp only [act_proximity, intNum_eq_prim, hn, hq, liftAct_numError, numError, Option.getD]

/-! ### binary operations

The generated functions raise `IndexError` when the right operand is an operation of the same class without
operands (`create_operation` reads `operands[0]` of what it flattens); the model totalises that case. Everywhere
else they return what `binaryOp` returns. -/

/-- unfolds one generated binary action next to `binaryOp` and closes the cases -/
macro "bin_tac" f:ident : tactic => `(tactic| (
  simp only [$f:ident, binaryOp, createOp, afterCreate, mgrPos, reduceCtorEq, ↓reduceIte]
  repeat' split
  all_goals (try simp_all [layLen, Tree.head, Tree.tail, Tree.setHead, Tree.setTail, Tree.setLay, Tree.lay])
  all_goals (try omega)))

/-- `bin_tac` for every shape of the left operand -/
macro "bin_left" p1:ident f:ident : tactic => `(tactic| (
  cases $p1:ident with
  | op k xs l1 => cases k <;> bin_tac $f
  | _ => bin_tac $f))

/-- a tree is an operation of class `k` or it is not -/
theorem op_or_not (k : OpK) (t : Tree) :
    (∃ xs l, t = .op k xs l) ∨ ∀ xs l, t ≠ .op k xs l := by
  cases t with
  | op k' xs l =>
    by_cases hk : k' = k
    · subst hk; exact .inl ⟨xs, l, rfl⟩
    · refine .inr ?_; intro xs' l' h; cases h; exact hk rfl
  | _ => refine .inr ?_; intro xs' l' h; cases h

/-- a tree is an operation of class `k` without operands or it is not -/
theorem empty_op_or_not (k : OpK) (t : Tree) :
    (∃ l, t = .op k [] l) ∨ ∀ l, t ≠ .op k [] l := by
  rcases op_or_not k t with ⟨xs, l, rfl⟩ | h
  · cases xs with
    | nil => exact .inl ⟨l, rfl⟩
    | cons x r => refine .inr ?_; intro l' h; cases h
  · exact .inr fun l => h [] l

/-! #### `OR` -/

theorem p_expression_or_nil (p1 : Tree) (p2v : Str) (p2l : Lay) (l : Lay) :
    Act.p_expression_or p1 p2v p2l (.op .or [] l) = .error (.exc "IndexError") := by
  unfold Act.p_expression_or; split <;> rfl

theorem p_expression_or_cons (p1 : Tree) (p2v : Str) (p2l : Lay) (x : Tree) (r : List Tree) (l : Lay) :
    Act.p_expression_or p1 p2v p2l (.op .or (x :: r) l)
      = .ok (binaryOp .or p1 (some p2l) (.op .or (x :: r) l)) := by
  bin_left p1 Act.p_expression_or

theorem p_expression_or_other (p1 : Tree) (p2v : Str) (p2l : Lay) (p3 : Tree)
    (h : ∀ xs l, p3 ≠ .op .or xs l) :
    Act.p_expression_or p1 p2v p2l p3 = .ok (binaryOp .or p1 (some p2l) p3) := by
  cases p3 with
  | op k3 xs3 l3 =>
    cases k3 with
    | or => exact absurd rfl (h xs3 l3)
    | _ => bin_left p1 Act.p_expression_or
  | _ => bin_left p1 Act.p_expression_or

/-- the generated `p_expression_or` is `binaryOp` wherever the right operand is not an empty `OR` -/
theorem p_expression_or_eq (p1 : Tree) (p2v : Str) (p2l : Lay) (p3 : Tree)
    (h : ∀ l, p3 ≠ .op .or [] l) :
    Act.p_expression_or p1 p2v p2l p3 = .ok (binaryOp .or p1 (some p2l) p3) := by
  rcases op_or_not .or p3 with ⟨xs, l, rfl⟩ | h'
  rotate_left
  · exact p_expression_or_other p1 p2v p2l p3 h'
  · cases xs with
    | nil => exact absurd rfl (h l)
    | cons x r => exact p_expression_or_cons p1 p2v p2l x r l

/-- (a) whatever the generated function returns, the model returns -/
theorem gen_p_expression_or (p1 : Tree) (p2v : Str) (p2l : Lay) (p3 r : Tree)
    (hr : Act.p_expression_or p1 p2v p2l p3 = .ok r) :
    act "p_expression_or" [.item p1, .tok .orOp ⟨some p2v, p2l⟩, .item p3] = .ok (.item r) := by
  have h : ∀ l, p3 ≠ .op .or [] l := by
    intro l hl; subst hl; rw [p_expression_or_nil] at hr; cases hr
  rw [p_expression_or_eq p1 p2v p2l p3 h] at hr
  cases hr; rfl

/-- (b) the only exception is the `IndexError` on an empty `OR` at the right -/
theorem gen_p_expression_or_error (p1 : Tree) (p2v : Str) (p2l : Lay) (p3 : Tree) (e : PyErr)
    (he : Act.p_expression_or p1 p2v p2l p3 = .error e) :
    e = .exc "IndexError" ∧ ∃ l, p3 = .op .or [] l := by
  rcases empty_op_or_not .or p3 with ⟨l, rfl⟩ | h
  rotate_left
  · rw [p_expression_or_eq p1 p2v p2l p3 h] at he; cases he
  · rw [p_expression_or_nil] at he; cases he
    exact ⟨rfl, l, rfl⟩

/-- (c) and it is the model's value that is returned whenever the right operand is not an empty `OR` -/
theorem gen_p_expression_or_defined (p1 : Tree) (p2v : Str) (p2l : Lay) (p3 : Tree)
    (h : ∀ l, p3 ≠ .op .or [] l) :
    ∃ r, Act.p_expression_or p1 p2v p2l p3 = .ok r ∧
      act "p_expression_or" [.item p1, .tok .orOp ⟨some p2v, p2l⟩, .item p3] = .ok (.item r) :=
  ⟨_, p_expression_or_eq p1 p2v p2l p3 h, rfl⟩

/-! #### `AND` -/

theorem p_expression_and_nil (p1 : Tree) (p2v : Str) (p2l : Lay) (l : Lay) :
    Act.p_expression_and p1 p2v p2l (.op .and [] l) = .error (.exc "IndexError") := by
  unfold Act.p_expression_and; split <;> rfl

theorem p_expression_and_cons (p1 : Tree) (p2v : Str) (p2l : Lay) (x : Tree) (r : List Tree) (l : Lay) :
    Act.p_expression_and p1 p2v p2l (.op .and (x :: r) l)
      = .ok (binaryOp .and p1 (some p2l) (.op .and (x :: r) l)) := by
  bin_left p1 Act.p_expression_and

theorem p_expression_and_other (p1 : Tree) (p2v : Str) (p2l : Lay) (p3 : Tree)
    (h : ∀ xs l, p3 ≠ .op .and xs l) :
    Act.p_expression_and p1 p2v p2l p3 = .ok (binaryOp .and p1 (some p2l) p3) := by
  cases p3 with
  | op k3 xs3 l3 =>
    cases k3 with
    | and => exact absurd rfl (h xs3 l3)
    | _ => bin_left p1 Act.p_expression_and
  | _ => bin_left p1 Act.p_expression_and

/-- the generated `p_expression_and` is `binaryOp` wherever the right operand is not an empty `AND` -/
theorem p_expression_and_eq (p1 : Tree) (p2v : Str) (p2l : Lay) (p3 : Tree)
    (h : ∀ l, p3 ≠ .op .and [] l) :
    Act.p_expression_and p1 p2v p2l p3 = .ok (binaryOp .and p1 (some p2l) p3) := by
  rcases op_or_not .and p3 with ⟨xs, l, rfl⟩ | h'
  rotate_left
  · exact p_expression_and_other p1 p2v p2l p3 h'
  · cases xs with
    | nil => exact absurd rfl (h l)
    | cons x r => exact p_expression_and_cons p1 p2v p2l x r l

/-- (a) whatever the generated function returns, the model returns -/
theorem gen_p_expression_and (p1 : Tree) (p2v : Str) (p2l : Lay) (p3 r : Tree)
    (hr : Act.p_expression_and p1 p2v p2l p3 = .ok r) :
    act "p_expression_and" [.item p1, .tok .andOp ⟨some p2v, p2l⟩, .item p3] = .ok (.item r) := by
  have h : ∀ l, p3 ≠ .op .and [] l := by
    intro l hl; subst hl; rw [p_expression_and_nil] at hr; cases hr
  rw [p_expression_and_eq p1 p2v p2l p3 h] at hr
  cases hr; rfl

/-- (b) the only exception is the `IndexError` on an empty `AND` at the right -/
theorem gen_p_expression_and_error (p1 : Tree) (p2v : Str) (p2l : Lay) (p3 : Tree) (e : PyErr)
    (he : Act.p_expression_and p1 p2v p2l p3 = .error e) :
    e = .exc "IndexError" ∧ ∃ l, p3 = .op .and [] l := by
  rcases empty_op_or_not .and p3 with ⟨l, rfl⟩ | h
  rotate_left
  · rw [p_expression_and_eq p1 p2v p2l p3 h] at he; cases he
  · rw [p_expression_and_nil] at he; cases he
    exact ⟨rfl, l, rfl⟩

/-- (c) and it is the model's value that is returned whenever the right operand is not an empty `AND` -/
theorem gen_p_expression_and_defined (p1 : Tree) (p2v : Str) (p2l : Lay) (p3 : Tree)
    (h : ∀ l, p3 ≠ .op .and [] l) :
    ∃ r, Act.p_expression_and p1 p2v p2l p3 = .ok r ∧
      act "p_expression_and" [.item p1, .tok .andOp ⟨some p2v, p2l⟩, .item p3] = .ok (.item r) :=
  ⟨_, p_expression_and_eq p1 p2v p2l p3 h, rfl⟩

/-! #### implicit operation (no operator token) -/

theorem p_expression_implicit_nil (p1 : Tree) (l : Lay) :
    Act.p_expression_implicit p1 (.op .unk [] l) = .error (.exc "IndexError") := by
  unfold Act.p_expression_implicit; split <;> rfl

theorem p_expression_implicit_cons (p1 : Tree) (x : Tree) (r : List Tree) (l : Lay) :
    Act.p_expression_implicit p1 (.op .unk (x :: r) l)
      = .ok (binaryOp .unk p1 none (.op .unk (x :: r) l)) := by
  bin_left p1 Act.p_expression_implicit

theorem p_expression_implicit_other (p1 p2 : Tree) (h : ∀ xs l, p2 ≠ .op .unk xs l) :
    Act.p_expression_implicit p1 p2 = .ok (binaryOp .unk p1 none p2) := by
  cases p2 with
  | op k3 xs3 l3 =>
    cases k3 with
    | unk => exact absurd rfl (h xs3 l3)
    | _ => bin_left p1 Act.p_expression_implicit
  | _ => bin_left p1 Act.p_expression_implicit

/-- the generated `p_expression_implicit` is `binaryOp` wherever the right operand is not an empty
`UnknownOperation` -/
theorem p_expression_implicit_eq (p1 p2 : Tree) (h : ∀ l, p2 ≠ .op .unk [] l) :
    Act.p_expression_implicit p1 p2 = .ok (binaryOp .unk p1 none p2) := by
  rcases op_or_not .unk p2 with ⟨xs, l, rfl⟩ | h'
  rotate_left
  · exact p_expression_implicit_other p1 p2 h'
  · cases xs with
    | nil => exact absurd rfl (h l)
    | cons x r => exact p_expression_implicit_cons p1 x r l

/-- (a) whatever the generated function returns, the model returns -/
theorem gen_p_expression_implicit (p1 p2 r : Tree)
    (hr : Act.p_expression_implicit p1 p2 = .ok r) :
    act "p_expression_implicit" [.item p1, .item p2] = .ok (.item r) := by
  have h : ∀ l, p2 ≠ .op .unk [] l := by
    intro l hl; subst hl; rw [p_expression_implicit_nil] at hr; cases hr
  rw [p_expression_implicit_eq p1 p2 h] at hr
  cases hr; rfl

/-- (b) the only exception is the `IndexError` on an empty `UnknownOperation` at the right -/
theorem gen_p_expression_implicit_error (p1 p2 : Tree) (e : PyErr)
    (he : Act.p_expression_implicit p1 p2 = .error e) :
    e = .exc "IndexError" ∧ ∃ l, p2 = .op .unk [] l := by
  rcases empty_op_or_not .unk p2 with ⟨l, rfl⟩ | h
  rotate_left
  · rw [p_expression_implicit_eq p1 p2 h] at he; cases he
  · rw [p_expression_implicit_nil] at he; cases he
    exact ⟨rfl, l, rfl⟩

/-- (c) and it is the model's value that is returned whenever the right operand is not an empty
`UnknownOperation` -/
theorem gen_p_expression_implicit_defined (p1 p2 : Tree) (h : ∀ l, p2 ≠ .op .unk [] l) :
    ∃ r, Act.p_expression_implicit p1 p2 = .ok r ∧
      act "p_expression_implicit" [.item p1, .item p2] = .ok (.item r) :=
  ⟨_, p_expression_implicit_eq p1 p2 h, rfl⟩

/-! ### summary -/

/-- the productions this file covers are the productions of the generated file, in its order -/
theorem actionNames_covered :
    Act.actionNames.map (·.1) =
      ["p_expression_or", "p_expression_and", "p_expression_implicit", "p_expression_plus",
       "p_expression_minus", "p_expression_not", "p_expression_unary", "p_grouping", "p_range",
       "p_possibly_negative_term", "p_possibly_negative_term_2", "p_phrase_or_possibly_negative_term",
       "p_phrase_or_possibly_negative_term_2", "p_lessthan", "p_greaterthan", "p_field_search", "p_quoting",
       "p_proximity", "p_boosting", "p_terms", "p_fuzzy", "p_regex", "p_to_as_term", "p_phrase_or_term",
       "p_phrase_or_term_2"] := by decide

/-- every semantic action of the model is the generated one: equal through `liftAct` for the 22 productions that
do not build an operation (the three with a number: whenever the number is valid or the token has a position), and
for the three binary ones equal wherever the generated function returns, which is everywhere but on an empty
operation of the same class at the right, where it raises `IndexError` -/
theorem act_eq_generated :
    -- pass-through
    (∀ p1, act "p_expression_unary" [.item p1] = liftAct (Act.p_expression_unary p1)) ∧
    (∀ p1, act "p_possibly_negative_term" [.item p1] = liftAct (Act.p_possibly_negative_term_2 p1)) ∧
    (∀ p1, act "p_phrase_or_possibly_negative_term" [.item p1]
      = liftAct (Act.p_phrase_or_possibly_negative_term p1)) ∧
    (∀ v l, act "p_phrase_or_possibly_negative_term" [.item (.term .phrase v l)]
      = liftAct (Act.p_phrase_or_possibly_negative_term_2 v l)) ∧
    (∀ v l, act "p_quoting" [.item (.term .phrase v l)] = liftAct (Act.p_quoting v l)) ∧
    (∀ v l, act "p_terms" [.item (.term .word v l)] = liftAct (Act.p_terms v l)) ∧
    (∀ v l, act "p_regex" [.item (.term .regex v l)] = liftAct (Act.p_regex v l)) ∧
    (∀ v l, act "p_phrase_or_term" [.item (.term .word v l)] = liftAct (Act.p_phrase_or_term v l)) ∧
    (∀ v l, act "p_phrase_or_term" [.item (.term .phrase v l)] = liftAct (Act.p_phrase_or_term_2 v l)) ∧
    -- prefix operators
    (∀ v l p2, act "p_expression_plus" [.tok .plus ⟨some v, l⟩, .item p2]
      = liftAct (Act.p_expression_plus v l p2)) ∧
    (∀ v l p2, act "p_expression_minus" [.tok .minus ⟨some v, l⟩, .item p2]
      = liftAct (Act.p_expression_minus v l p2)) ∧
    (∀ v l p2, act "p_expression_not" [.tok .not ⟨some v, l⟩, .item p2]
      = liftAct (Act.p_expression_not v l p2)) ∧
    (∀ v l p2, act "p_possibly_negative_term" [.tok .minus ⟨some v, l⟩, .item p2]
      = liftAct (Act.p_possibly_negative_term v l p2)) ∧
    (∀ v l p2, act "p_lessthan" [.tok .lessthan ⟨some v, l⟩, .item p2] = liftAct (Act.p_lessthan v l p2)) ∧
    (∀ v l p2, act "p_greaterthan" [.tok .greaterthan ⟨some v, l⟩, .item p2]
      = liftAct (Act.p_greaterthan v l p2)) ∧
    -- brackets, field search
    (∀ v1 l1 p2 v3 l3, act "p_grouping" [.tok .lparen ⟨some v1, l1⟩, .item p2, .tok .rparen ⟨some v3, l3⟩]
      = liftAct (Act.p_grouping v1 l1 p2 v3 l3)) ∧
    (∀ v1 l1 p2 v3 l3 p4 v5 l5,
      act "p_range" [.tok .lbracket ⟨some v1, l1⟩, .item p2, .tok .to ⟨some v3, l3⟩, .item p4,
          .tok .rbracket ⟨some v5, l5⟩]
        = liftAct (Act.p_range v1 l1 p2 v3 l3 p4 v5 l5)) ∧
    (∀ v l, act "p_to_as_term" [.tok .to ⟨some v, l⟩] = liftAct (Act.p_to_as_term v l)) ∧
    (∀ v1 l1 v2 l2 p3, act "p_field_search" [.item (.term .word v1 l1), .tok .column ⟨some v2, l2⟩, .item p3]
      = liftAct (Act.p_field_search v1 l1 v2 l2 p3)) ∧
    -- numbers
    (∀ v1 l1 v2 l2, (PyPrim.fuzzyNum v2).isSome ∨ l2.pos.isSome →
      act "p_fuzzy" [.item (.term .word v1 l1), .tok .approx ⟨v2, l2⟩] = liftAct (Act.p_fuzzy v1 l1 v2 l2)) ∧
    (∀ p1 v2 l2, (PyPrim.boostNum v2).isSome ∨ l2.pos.isSome →
      act "p_boosting" [.item p1, .tok .boost ⟨v2, l2⟩] = liftAct (Act.p_boosting p1 v2 l2)) ∧
    (∀ v1 l1 v2 l2, (PyPrim.proximityNum v2).isSome ∨ l2.pos.isSome →
      act "p_proximity" [.item (.term .phrase v1 l1), .tok .approx ⟨v2, l2⟩]
        = liftAct (Act.p_proximity v1 l1 v2 l2)) ∧
    -- binary operations
    (∀ p1 v2 l2 p3,
      (∀ r, Act.p_expression_or p1 v2 l2 p3 = .ok r →
        act "p_expression_or" [.item p1, .tok .orOp ⟨some v2, l2⟩, .item p3] = .ok (.item r)) ∧
      (∀ e, Act.p_expression_or p1 v2 l2 p3 = .error e → e = .exc "IndexError" ∧ ∃ l, p3 = .op .or [] l) ∧
      ((∀ l, p3 ≠ .op .or [] l) → ∃ r, Act.p_expression_or p1 v2 l2 p3 = .ok r)) ∧
    (∀ p1 v2 l2 p3,
      (∀ r, Act.p_expression_and p1 v2 l2 p3 = .ok r →
        act "p_expression_and" [.item p1, .tok .andOp ⟨some v2, l2⟩, .item p3] = .ok (.item r)) ∧
      (∀ e, Act.p_expression_and p1 v2 l2 p3 = .error e → e = .exc "IndexError" ∧ ∃ l, p3 = .op .and [] l) ∧
      ((∀ l, p3 ≠ .op .and [] l) → ∃ r, Act.p_expression_and p1 v2 l2 p3 = .ok r)) ∧
    (∀ p1 p2,
      (∀ r, Act.p_expression_implicit p1 p2 = .ok r →
        act "p_expression_implicit" [.item p1, .item p2] = .ok (.item r)) ∧
      (∀ e, Act.p_expression_implicit p1 p2 = .error e → e = .exc "IndexError" ∧ ∃ l, p2 = .op .unk [] l) ∧
      ((∀ l, p2 ≠ .op .unk [] l) → ∃ r, Act.p_expression_implicit p1 p2 = .ok r)) := by
  refine ⟨gen_p_expression_unary, gen_p_possibly_negative_term_2, gen_p_phrase_or_possibly_negative_term,
    gen_p_phrase_or_possibly_negative_term_2, gen_p_quoting, gen_p_terms, gen_p_regex, gen_p_phrase_or_term,
    gen_p_phrase_or_term_2, gen_p_expression_plus, gen_p_expression_minus, gen_p_expression_not,
    gen_p_possibly_negative_term, gen_p_lessthan, gen_p_greaterthan, gen_p_grouping, gen_p_range,
    gen_p_to_as_term, gen_p_field_search, ?_, ?_, ?_, ?_, ?_, ?_⟩
  · intro v1 l1 v2 l2 h
    rcases h with h | h
    · obtain ⟨n, hn⟩ := Option.isSome_iff_exists.mp h
      exact gen_p_fuzzy_ok v1 l1 v2 l2 n hn
    · obtain ⟨q, hq⟩ := Option.isSome_iff_exists.mp h
      exact gen_p_fuzzy v1 l1 v2 l2 q hq
  · intro p1 v2 l2 h
    rcases h with h | h
    · obtain ⟨n, hn⟩ := Option.isSome_iff_exists.mp h
      exact gen_p_boosting_ok p1 v2 l2 n hn
    · obtain ⟨q, hq⟩ := Option.isSome_iff_exists.mp h
      exact gen_p_boosting p1 v2 l2 q hq
  · intro v1 l1 v2 l2 h
    rcases h with h | h
    · obtain ⟨n, hn⟩ := Option.isSome_iff_exists.mp h
      exact gen_p_proximity_ok v1 l1 v2 l2 n hn
    · obtain ⟨q, hq⟩ := Option.isSome_iff_exists.mp h
      exact gen_p_proximity v1 l1 v2 l2 q hq
  · intro p1 v2 l2 p3
    exact ⟨gen_p_expression_or p1 v2 l2 p3, gen_p_expression_or_error p1 v2 l2 p3,
      fun h => ⟨_, p_expression_or_eq p1 v2 l2 p3 h⟩⟩
  · intro p1 v2 l2 p3
    exact ⟨gen_p_expression_and p1 v2 l2 p3, gen_p_expression_and_error p1 v2 l2 p3,
      fun h => ⟨_, p_expression_and_eq p1 v2 l2 p3 h⟩⟩
  · intro p1 p2
    exact ⟨gen_p_expression_implicit p1 p2, gen_p_expression_implicit_error p1 p2,
      fun h => ⟨_, p_expression_implicit_eq p1 p2 h⟩⟩

end Luqum.Props.GenActions
