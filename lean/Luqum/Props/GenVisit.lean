/-
  Translator obligations (G15): visitor methods, one step per class.

  `Luqum/Generated/Visits.lean` is produced on every run by symbolic execution (tools/pysym.py) of
  * `TreeTransformer.generic_visit(node, context)` -- `_clone_item`, the generator `clone_children` (a loop over
    `node.children`, an unknown number of operands for the operations), `child_context`, the `children` setter -- on
    a symbolic instance of every concrete class: the default copy;
  * `UnknownOperationResolver(resolve_to=K, add_head=h)`: `visit_unknown_operation` (new node of class K, children
    from `clone_children`, the loop `for child in new_node.children[1:]: child.head = add_head + child.head`),
    `visit_and_operation`, `visit_or_operation`, for K = AND, OR and the boolean operation.
  The visit of a child (`self.visit_iter(child, ...)`) is the parameter `rec`: by induction it yields exactly one item.

  The theorems say that the model's `Tree.copy` (C08) and the specification `relabel` of C10 are exactly the fixed
  points of these translated steps: each satisfies, for every node, "visiting the node yields the one item the step
  computes from the visits of its children".
-/
import Luqum.Generated.Visits
import Luqum.Props.C10

namespace Luqum.Props.GenVisit
open Luqum Generated

theorem mkNum_eq (n : Num) (b : Bool) (h : n.implicit = b) : PyPrim.mkNum n b = n := by
  cases n; simp_all [PyPrim.mkNum]
theorem renorm_of_normal (n : Num) (h : n.val.normalize = n.val) : PyPrim.renorm n = n := by
  cases n; simp_all [PyPrim.renorm]
theorem copies_eq_map : ∀ xs : List Tree, Tree.copies xs = xs.map Tree.copy
  | [] => rfl
  | x :: r => by simp [Tree.copies, copies_eq_map r]

/-- the default transformer's step, assembled by class from the generated functions -/
def genCopy (rec : Tree → Tree) : Tree → Except PyErr (List Tree)
  | .term .word v l => Visits.copy_Word rec v l
  | .term .phrase v l => Visits.copy_Phrase rec v l
  | .term .regex v l => Visits.copy_Regex rec v l
  | .field n e l => Visits.copy_SearchField rec n e l
  | .group .group e l => Visits.copy_Group rec e l
  | .group .fieldGroup e l => Visits.copy_FieldGroup rec e l
  | .range a b il ih l => Visits.copy_Range rec a b il ih l
  | .approx .fuzzy x n l => Visits.copy_Fuzzy rec x n l
  | .approx .proximity x n l => Visits.copy_Proximity rec x n l
  | .boost e n l => Visits.copy_Boost rec e n l
  | .op .and xs l => Visits.copy_AndOperation rec xs l
  | .op .or xs l => Visits.copy_OrOperation rec xs l
  | .op .unk xs l => Visits.copy_UnknownOperation rec xs l
  | .op .bool xs l => Visits.copy_BoolOperation rec xs l
  | .unary .plus a l => Visits.copy_Plus rec a l
  | .unary .not a l => Visits.copy_Not rec a l
  | .unary .prohibit a l => Visits.copy_Prohibit rec a l
  | .orange .from a i l => Visits.copy_From rec a i l
  | .orange .to a i l => Visits.copy_To rec a i l
  | .none l => Visits.copy_NoneItem rec l

/-- what the constructors demand of the node itself (see Props/GenClone) -/
def cloneable : Tree → Prop
  | .term .phrase v _ => PyPrim.startsWith v ['"'] = true ∧ PyPrim.endsWith v ['"'] = true
  | .term .regex v _ => PyPrim.startsWith v ['/'] = true ∧ PyPrim.endsWith v ['/'] = true
  | .boost _ n _ => n.val.normalize = n.val
  | _ => True

/-- **the default transformer is the translated code**: for every node whose own content the constructors accept,
the translated `generic_visit`, given `Tree.copy` for the visits of the children, yields exactly `[node.copy]` -/
theorem copy_is_generated (t : Tree) (h : cloneable t) : genCopy Tree.copy t = .ok [t.copy] := by
  cases t with
  | term k v l =>
    cases k
    · simp [genCopy, Visits.copy_Word, Tree.copy, Lay.noName]
    · simp [genCopy, Visits.copy_Phrase, Tree.copy, Lay.noName, h.1, h.2]
    · simp [genCopy, Visits.copy_Regex, Tree.copy, Lay.noName, h.1, h.2]
  | field n e l => simp [genCopy, Visits.copy_SearchField, Tree.copy, Lay.noName]
  | group k e l => cases k <;> simp [genCopy, Visits.copy_Group, Visits.copy_FieldGroup, Tree.copy, Lay.noName]
  | range a b il ih l => simp [genCopy, Visits.copy_Range, Tree.copy, Lay.noName]
  | approx k x n l =>
    cases k <;> cases hn : n.implicit <;>
      simp [genCopy, Visits.copy_Fuzzy, Visits.copy_Proximity, Tree.copy, Lay.noName, hn, mkNum_eq n _ hn]
  | boost e n l =>
    have h' : n.val.normalize = n.val := h
    cases hn : n.implicit <;>
      simp [genCopy, Visits.copy_Boost, Tree.copy, Lay.noName, hn, renorm_of_normal n h', mkNum_eq n _ hn]
  | op k xs l =>
    cases k <;>
      simp [genCopy, Visits.copy_AndOperation, Visits.copy_OrOperation, Visits.copy_UnknownOperation,
        Visits.copy_BoolOperation, Tree.copy, Lay.noName, copies_eq_map]
  | unary k a l =>
    cases k <;> simp [genCopy, Visits.copy_Plus, Visits.copy_Not, Visits.copy_Prohibit, Tree.copy, Lay.noName]
  | orange k a i l => cases k <;> simp [genCopy, Visits.copy_From, Visits.copy_To, Tree.copy, Lay.noName]
  | none l => simp [genCopy, Visits.copy_NoneItem, Tree.copy, Lay.noName]

/-! ### the resolver of implicit operations, explicit targets -/

open Luqum.Props.C10 in
/-- the resolver's step for target `k` (what `_get_method` dispatches to: the three overridden methods for the
operations, `generic_visit` for everything else -- the boolean operation included) -/
def genResolve (k : OpK) (h : Str) (rec : Tree → Tree) : Tree → Except PyErr (List Tree)
  | .op .unk xs l =>
    match k with
    | .and => Visits.resolve_and_UnknownOperation rec xs l h
    | .or => Visits.resolve_or_UnknownOperation rec xs l h
    | _ => Visits.resolve_bool_UnknownOperation rec xs l h
  | .op .and xs l =>
    match k with
    | .and => Visits.resolve_and_AndOperation rec xs l h
    | .or => Visits.resolve_or_AndOperation rec xs l h
    | _ => Visits.resolve_bool_AndOperation rec xs l h
  | .op .or xs l =>
    match k with
    | .and => Visits.resolve_and_OrOperation rec xs l h
    | .or => Visits.resolve_or_OrOperation rec xs l h
    | _ => Visits.resolve_bool_OrOperation rec xs l h
  | t => genCopy rec t

open Luqum.Props.C10 in
/-- **the resolver is the translated code** (explicit targets AND, OR, boolean operation): the specification
`relabel k h` of C10 -- which `resolve_explicit` proves equal to the model's resolver -- is the fixed point of the
translated visit methods: every implicit operation becomes a `k` operation whose second and later operands get
`h` in front of their head, everything else is copied -/
theorem resolve_is_generated (k : OpK) (hk : k = .and ∨ k = .or ∨ k = .bool) (h : Str) (t : Tree) (hc : cloneable t) :
    genResolve k h (relabel k h) t = .ok [relabel k h t] := by
  cases t with
  | op k' xs l =>
    cases k' <;> rcases hk with rfl | rfl | rfl <;> cases xs <;>
      simp [genResolve, genCopy, Visits.resolve_and_UnknownOperation, Visits.resolve_or_UnknownOperation,
        Visits.resolve_bool_UnknownOperation, Visits.resolve_and_AndOperation, Visits.resolve_or_AndOperation,
        Visits.resolve_bool_AndOperation, Visits.resolve_and_OrOperation, Visits.resolve_or_OrOperation,
        Visits.resolve_bool_OrOperation, Visits.copy_BoolOperation, relabel, relabelList_eq_map, addHeads,
        Lay.noName, Tree.head]
  | term k' v l =>
    cases k'
    · simp [genResolve, genCopy, Visits.copy_Word, relabel, Lay.noName]
    · simp [genResolve, genCopy, Visits.copy_Phrase, relabel, Lay.noName, hc.1, hc.2]
    · simp [genResolve, genCopy, Visits.copy_Regex, relabel, Lay.noName, hc.1, hc.2]
  | field n e l => simp [genResolve, genCopy, Visits.copy_SearchField, relabel, Lay.noName]
  | group k' e l => cases k' <;> simp [genResolve, genCopy, Visits.copy_Group, Visits.copy_FieldGroup, relabel, Lay.noName]
  | range a b il ih l => simp [genResolve, genCopy, Visits.copy_Range, relabel, Lay.noName]
  | approx k' x n l =>
    cases k' <;> cases hn : n.implicit <;>
      simp [genResolve, genCopy, Visits.copy_Fuzzy, Visits.copy_Proximity, relabel, Lay.noName, hn, mkNum_eq n _ hn]
  | boost e n l =>
    have h' : n.val.normalize = n.val := hc
    cases hn : n.implicit <;>
      simp [genResolve, genCopy, Visits.copy_Boost, relabel, Lay.noName, hn, renorm_of_normal n h', mkNum_eq n _ hn]
  | unary k' a l =>
    cases k' <;> simp [genResolve, genCopy, Visits.copy_Plus, Visits.copy_Not, Visits.copy_Prohibit, relabel, Lay.noName]
  | orange k' a i l => cases k' <;> simp [genResolve, genCopy, Visits.copy_From, Visits.copy_To, relabel, Lay.noName]
  | none l => simp [genResolve, genCopy, Visits.copy_NoneItem, relabel, Lay.noName]

theorem visit_names_complete : Visits.visitNames.length = 20 + 9 + 6 + 3 := by decide

end Luqum.Props.GenVisit
