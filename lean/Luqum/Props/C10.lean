/-
  C10 — UnknownOperationResolver: every implicit operation becomes an explicit one (the chosen
  kind, or in lucene mode AND / OR), nothing else changes but the `add_head` in front of the second
  and later operands of the resolved operations; the meaning under "implicit = chosen kind" is kept.
-/
import Luqum.Model.Transform
import Luqum.Props.C08

namespace Luqum.Props.C10
open Luqum

/-! ### specification -/

mutual
/-- **Specification of resolving to a fixed kind `k`**: every `UnknownOperation` becomes a
`k`-operation whose second and later operands get `h` in front of their head; every other node is
cloned (everything kept but the attached name). -/
def relabel (k : OpK) (h : Str) : Tree → Tree
  | .term k' v l => .term k' v l.noName
  | .none l => .none l.noName
  | .field n e l => .field n (relabel k h e) l.noName
  | .group k' e l => .group k' (relabel k h e) l.noName
  | .approx k' e n l => .approx k' (relabel k h e) n l.noName
  | .boost e n l => .boost (relabel k h e) n l.noName
  | .unary k' e l => .unary k' (relabel k h e) l.noName
  | .orange k' e i l => .orange k' (relabel k h e) i l.noName
  | .range a b il ih l => .range (relabel k h a) (relabel k h b) il ih l.noName
  | .op .unk xs l => .op k (addHeads h (relabelList k h xs)) l.noName
  | .op .and xs l => .op .and (relabelList k h xs) l.noName
  | .op .or xs l => .op .or (relabelList k h xs) l.noName
  | .op .bool xs l => .op .bool (relabelList k h xs) l.noName
def relabelList (k : OpK) (h : Str) : List Tree → List Tree
  | [] => []
  | x :: r => relabel k h x :: relabelList k h r
end

theorem relabelList_eq_map (k : OpK) (h : Str) : ∀ xs, relabelList k h xs = xs.map (relabel k h)
  | [] => rfl
  | x :: r => by simp [relabelList, relabelList_eq_map k h r]

mutual
/-- the tree contains an `UnknownOperation` -/
def hasUnk : Tree → Bool
  | .term .. => false
  | .none _ => false
  | .field _ e _ => hasUnk e
  | .group _ e _ => hasUnk e
  | .approx _ e _ _ => hasUnk e
  | .boost e _ _ => hasUnk e
  | .unary _ e _ => hasUnk e
  | .orange _ e _ _ => hasUnk e
  | .range a b _ _ _ => hasUnk a || hasUnk b
  | .op k xs _ => k == .unk || hasUnkList xs
def hasUnkList : List Tree → Bool
  | [] => false
  | x :: r => hasUnk x || hasUnkList r
end

mutual
/-- the tree contains an explicit `AndOperation` / `OrOperation` -/
def hasAndOr : Tree → Bool
  | .term .. => false
  | .none _ => false
  | .field _ e _ => hasAndOr e
  | .group _ e _ => hasAndOr e
  | .approx _ e _ _ => hasAndOr e
  | .boost e _ _ => hasAndOr e
  | .unary _ e _ => hasAndOr e
  | .orange _ e _ _ => hasAndOr e
  | .range a b _ _ _ => hasAndOr a || hasAndOr b
  | .op k xs _ => k == .and || k == .or || hasAndOrList xs
def hasAndOrList : List Tree → Bool
  | [] => false
  | x :: r => hasAndOr x || hasAndOrList r
end

/-- AND, OR and implicit operations are identified (BoolOperation is kept apart) -/
def eraseK : OpK → OpK
  | .bool => .bool
  | _ => .and

mutual
/-- the tree with the kinds AND / OR / implicit of its operations identified; everything else,
layout included, is kept -/
def eraseOpKind : Tree → Tree
  | .term k v l => .term k v l
  | .none l => .none l
  | .field n e l => .field n (eraseOpKind e) l
  | .group k e l => .group k (eraseOpKind e) l
  | .approx k e n l => .approx k (eraseOpKind e) n l
  | .boost e n l => .boost (eraseOpKind e) n l
  | .unary k e l => .unary k (eraseOpKind e) l
  | .orange k e i l => .orange k (eraseOpKind e) i l
  | .range a b il ih l => .range (eraseOpKind a) (eraseOpKind b) il ih l
  | .op k xs l => .op (eraseK k) (eraseOpKinds xs) l
def eraseOpKinds : List Tree → List Tree
  | [] => []
  | x :: r => eraseOpKind x :: eraseOpKinds r
end

/-- the fixed kind an explicit target stands for -/
def opKOf : ResolveTo → OpK
  | .and => .and
  | .or => .or
  | _ => .bool

/-! ### helper lemmas: the head of a node is irrelevant to all the predicates above -/

theorem hasUnk_setLay (t : Tree) (l : Lay) : hasUnk (t.setLay l) = hasUnk t := by
  cases t <;> simp [Tree.setLay, hasUnk]

theorem hasUnk_setHead (t : Tree) (x : Str) : hasUnk (t.setHead x) = hasUnk t := hasUnk_setLay _ _

theorem hasUnkList_addHeads (h : Str) : ∀ xs, hasUnkList (addHeads h xs) = hasUnkList xs
  | [] => rfl
  | x :: r => by
    simp only [addHeads, hasUnkList]
    congr 1
    induction r with
    | nil => rfl
    | cons y s ih => simp [hasUnkList, hasUnk_setHead, ih]

theorem noNames_setLay (t : Tree) (l : Lay) (hl : l.name = none) (ht : C08.noNames t = true) :
    C08.noNames (t.setLay l) = true := by
  cases t <;> simp_all [Tree.setLay, C08.noNames]

theorem noNames_lay {t : Tree} (ht : C08.noNames t = true) : t.lay.name = none := by
  cases t <;> simp_all [Tree.lay, C08.noNames]

theorem noNames_setHead (t : Tree) (x : Str) (ht : C08.noNames t = true) :
    C08.noNames (t.setHead x) = true :=
  noNames_setLay t _ (noNames_lay ht) ht

theorem noNamesList_addHeads (h : Str) : ∀ xs, C08.noNamesList xs = true →
    C08.noNamesList (addHeads h xs) = true
  | [], _ => rfl
  | x :: r, hx => by
    simp only [addHeads, C08.noNamesList, Bool.and_eq_true] at hx ⊢
    refine ⟨hx.1, ?_⟩
    have := hx.2
    clear hx
    induction r with
    | nil => rfl
    | cons y s ih =>
      simp only [C08.noNamesList, Bool.and_eq_true, List.map_cons] at this ⊢
      exact ⟨noNames_setHead _ _ this.1, ih this.2⟩

theorem eraseOpKind_setLay (t : Tree) (l : Lay) : eraseOpKind (t.setLay l) = (eraseOpKind t).setLay l := by
  cases t <;> simp [Tree.setLay, eraseOpKind]

theorem eraseOpKind_lay (t : Tree) : (eraseOpKind t).lay = t.lay := by
  cases t <;> simp [Tree.lay, eraseOpKind]

theorem eraseOpKind_setHead (t : Tree) (h : Str) :
    eraseOpKind (t.setHead (h ++ t.head)) = (eraseOpKind t).setHead (h ++ (eraseOpKind t).head) := by
  simp [Tree.setHead, Tree.head, eraseOpKind_setLay, eraseOpKind_lay]

theorem eraseOpKinds_eq_map : ∀ xs, eraseOpKinds xs = xs.map eraseOpKind
  | [] => rfl
  | x :: r => by simp [eraseOpKinds, eraseOpKinds_eq_map r]

theorem eraseOpKinds_addHeads (h : Str) : ∀ xs,
    eraseOpKinds (addHeads h xs) = addHeads h (eraseOpKinds xs)
  | [] => rfl
  | x :: r => by
    simp only [addHeads, eraseOpKinds, eraseOpKinds_eq_map, List.map_cons, List.map_map]
    congr 1
    apply List.map_congr_left
    intro c _
    exact eraseOpKind_setHead c h

/-! ### 1. explicit targets: the transformer is `relabel` -/

mutual
theorem resolveNode_explicit (to : ResolveTo) (hto : to ≠ .lucene) (h : Str) :
    ∀ (t : Tree) (d : Option RStore) (top : RKey) (path : List Nat),
      resolveNode to h d top path t = (relabel (opKOf to) h t, d)
  | .term .., d, top, path => rfl
  | .none _, d, top, path => rfl
  | .field n e l, d, top, path => by simp [resolveNode, relabel, resolveNode_explicit to hto h e]
  | .group k e l, d, top, path => by simp [resolveNode, relabel, resolveNode_explicit to hto h e]
  | .approx k e n l, d, top, path => by simp [resolveNode, relabel, resolveNode_explicit to hto h e]
  | .boost e n l, d, top, path => by simp [resolveNode, relabel, resolveNode_explicit to hto h e]
  | .unary k e l, d, top, path => by simp [resolveNode, relabel, resolveNode_explicit to hto h e]
  | .orange k e i l, d, top, path => by simp [resolveNode, relabel, resolveNode_explicit to hto h e]
  | .range a b il ih l, d, top, path => by
    simp [resolveNode, relabel, resolveNode_explicit to hto h a, resolveNode_explicit to hto h b]
  | .op k xs l, d, top, path => by
    cases to <;> cases k <;>
      simp_all [resolveNode, relabel, resolveList_explicit _ _ h xs, opKOf]
theorem resolveList_explicit (to : ResolveTo) (hto : to ≠ .lucene) (h : Str) :
    ∀ (xs : List Tree) (d : Option RStore) (top : RKey) (path : List Nat) (i : Nat),
      resolveList to h d top path i xs = (relabelList (opKOf to) h xs, d)
  | [], d, top, path, i => rfl
  | x :: r, d, top, path, i => by
    simp [resolveList, relabelList, resolveNode_explicit to hto h x, resolveList_explicit to hto h r]
end

/-- **For an explicit target the transformer is exactly `relabel`** (the `last_operation` store is
neither read nor written). -/
theorem resolve_explicit (to : ResolveTo) (hto : to ≠ .lucene) (h : Str) (t : Tree) :
    resolve to h t = relabel (opKOf to) h t := by
  simp [resolve, resolveNode_explicit to hto h t]

example : resolve .or [' '] (.op .unk [.term .word ['a'] { tail := [' '] }, .term .word ['b'] {}] {})
    = .op .or [.term .word ['a'] { tail := [' '] }, .term .word ['b'] { head := [' '] }] {} := rfl

/-! ### 2. no implicit operation is left -/

mutual
theorem hasUnk_relabel (k : OpK) (hk : k ≠ .unk) (h : Str) : ∀ t : Tree, hasUnk (relabel k h t) = false
  | .term .. => rfl
  | .none _ => rfl
  | .field n e l => by simp [relabel, hasUnk, hasUnk_relabel k hk h e]
  | .group _ e l => by simp [relabel, hasUnk, hasUnk_relabel k hk h e]
  | .approx _ e n l => by simp [relabel, hasUnk, hasUnk_relabel k hk h e]
  | .boost e n l => by simp [relabel, hasUnk, hasUnk_relabel k hk h e]
  | .unary _ e l => by simp [relabel, hasUnk, hasUnk_relabel k hk h e]
  | .orange _ e i l => by simp [relabel, hasUnk, hasUnk_relabel k hk h e]
  | .range a b il ih l => by simp [relabel, hasUnk, hasUnk_relabel k hk h a, hasUnk_relabel k hk h b]
  | .op .unk xs l => by
    simp [relabel, hasUnk, hasUnkList_addHeads, hasUnkList_relabel k hk h xs, hk]
  | .op .and xs l => by simp [relabel, hasUnk, hasUnkList_relabel k hk h xs]
  | .op .or xs l => by simp [relabel, hasUnk, hasUnkList_relabel k hk h xs]
  | .op .bool xs l => by simp [relabel, hasUnk, hasUnkList_relabel k hk h xs]
theorem hasUnkList_relabel (k : OpK) (hk : k ≠ .unk) (h : Str) :
    ∀ xs : List Tree, hasUnkList (relabelList k h xs) = false
  | [] => rfl
  | x :: r => by simp [relabelList, hasUnkList, hasUnk_relabel k hk h x, hasUnkList_relabel k hk h r]
end

/-- the `last_operation` store only ever holds AND / OR -/
def StoreOK (d : Option RStore) : Prop := ∀ e ∈ d.getD [], e.2 = OpK.and ∨ e.2 = OpK.or

theorem storeOK_none : StoreOK none := by intro e he; simp at he

theorem StoreOK.get {d : Option RStore} (hd : StoreOK d) (top : RKey) :
    (d.getD []).get top = .and ∨ (d.getD []).get top = .or := by
  unfold RStore.get
  cases hf : (d.getD []).find? (fun e => e.1 == top) with
  | none => simp
  | some e => exact hd e (List.mem_of_find?_eq_some hf)

theorem StoreOK.set {d : Option RStore} (hd : StoreOK d) (top : RKey) (k : OpK)
    (hk : k = .and ∨ k = .or) : StoreOK (some ((d.getD []).set top k)) := by
  intro e he
  simp only [Option.getD_some, RStore.set, List.mem_cons, List.mem_filter] at he
  rcases he with rfl | he
  · exact hk
  · exact hd e he.1

theorem StoreOK.some_getD {d : Option RStore} (hd : StoreOK d) : StoreOK (some (d.getD [])) := by
  simpa [StoreOK] using hd

theorem StoreOK.ite {d s' : Option RStore} (hs : StoreOK s') :
    StoreOK (if d.isSome then s' else none) := by
  split
  · exact hs
  · exact storeOK_none

theorem eraseK_of_andOr {k : OpK} (hk : k = .and ∨ k = .or) : eraseK k = .and := by
  rcases hk with rfl | rfl <;> rfl

mutual
/-- lucene mode, all at once: no implicit operation is left, the result is `relabel` up to the
choice between AND and OR, and the store invariant is kept -/
theorem resolveNode_lucene (h : Str) :
    ∀ (t : Tree) (d : Option RStore) (top : RKey) (path : List Nat), StoreOK d →
      hasUnk (resolveNode .lucene h d top path t).1 = false
      ∧ eraseOpKind (resolveNode .lucene h d top path t).1 = eraseOpKind (relabel .and h t)
      ∧ StoreOK (resolveNode .lucene h d top path t).2
  | .term .., d, top, path, hd => ⟨rfl, rfl, hd⟩
  | .none _, d, top, path, hd => ⟨rfl, rfl, hd⟩
  | .field n e l, d, top, path, hd => by
    have ih := resolveNode_lucene h e d (childKey top path (.field n e l)) (path ++ [0]) hd
    simpa [resolveNode, relabel, hasUnk, eraseOpKind] using ih
  | .group k e l, d, top, path, hd => by
    have ih := resolveNode_lucene h e d (childKey top path (.group k e l)) (path ++ [0]) hd
    simpa [resolveNode, relabel, hasUnk, eraseOpKind] using ih
  | .approx k e n l, d, top, path, hd => by
    have ih := resolveNode_lucene h e d (childKey top path (.approx k e n l)) (path ++ [0]) hd
    simpa [resolveNode, relabel, hasUnk, eraseOpKind] using ih
  | .boost e n l, d, top, path, hd => by
    have ih := resolveNode_lucene h e d (childKey top path (.boost e n l)) (path ++ [0]) hd
    simpa [resolveNode, relabel, hasUnk, eraseOpKind] using ih
  | .unary k e l, d, top, path, hd => by
    have ih := resolveNode_lucene h e d (childKey top path (.unary k e l)) (path ++ [0]) hd
    simpa [resolveNode, relabel, hasUnk, eraseOpKind] using ih
  | .orange k e i l, d, top, path, hd => by
    have ih := resolveNode_lucene h e d (childKey top path (.orange k e i l)) (path ++ [0]) hd
    simpa [resolveNode, relabel, hasUnk, eraseOpKind] using ih
  | .range a b il ih l, d, top, path, hd => by
    have iha := resolveNode_lucene h a d (childKey top path (.range a b il ih l)) (path ++ [0]) hd
    have ihb := resolveNode_lucene h b _ (childKey top path (.range a b il ih l)) (path ++ [1]) iha.2.2
    simp only [resolveNode, relabel, hasUnk, eraseOpKind]
    exact ⟨by rw [iha.1, ihb.1]; rfl, by rw [iha.2.1, ihb.2.1], ihb.2.2⟩
  | .op .and xs l, d, top, path, hd => by
    have ih := resolveList_lucene h xs _ top path 0 (hd.set top .and (Or.inl rfl))
    simp only [resolveNode, relabel, hasUnk, eraseOpKind]
    exact ⟨by rw [ih.1]; rfl, by rw [ih.2.1], StoreOK.ite ih.2.2⟩
  | .op .or xs l, d, top, path, hd => by
    have ih := resolveList_lucene h xs _ top path 0 (hd.set top .or (Or.inr rfl))
    simp only [resolveNode, relabel, hasUnk, eraseOpKind]
    exact ⟨by rw [ih.1]; rfl, by rw [ih.2.1], StoreOK.ite ih.2.2⟩
  | .op .unk xs l, d, top, path, hd => by
    have ih := resolveList_lucene h xs _ top path 0 hd.some_getD
    have hk := hd.get top
    simp only [resolveNode, relabel, hasUnk, eraseOpKind, hasUnkList_addHeads, eraseOpKinds_addHeads]
    refine ⟨?_, by rw [ih.2.1, eraseK_of_andOr hk]; rfl, StoreOK.ite ih.2.2⟩
    rw [ih.1]; rcases hk with hk | hk <;> rw [hk] <;> rfl
  | .op .bool xs l, d, top, path, hd => by
    have ih := resolveList_lucene h xs d top path 0 hd
    simp only [resolveNode, relabel, hasUnk, eraseOpKind]
    exact ⟨by rw [ih.1]; rfl, by rw [ih.2.1], ih.2.2⟩
theorem resolveList_lucene (h : Str) :
    ∀ (xs : List Tree) (d : Option RStore) (top : RKey) (path : List Nat) (i : Nat), StoreOK d →
      hasUnkList (resolveList .lucene h d top path i xs).1 = false
      ∧ eraseOpKinds (resolveList .lucene h d top path i xs).1 = eraseOpKinds (relabelList .and h xs)
      ∧ StoreOK (resolveList .lucene h d top path i xs).2
  | [], d, top, path, i, hd => ⟨rfl, rfl, hd⟩
  | x :: r, d, top, path, i, hd => by
    have ih1 := resolveNode_lucene h x d top (path ++ [i]) hd
    have ih2 := resolveList_lucene h r _ top path (i + 1) ih1.2.2
    simp only [resolveList, relabelList, hasUnkList, eraseOpKinds]
    exact ⟨by rw [ih1.1, ih2.1]; rfl, by rw [ih1.2.1, ih2.2.1], ih2.2.2⟩
end

/-- **No `UnknownOperation` is left**, whatever the target. -/
theorem no_unknown_left (to : ResolveTo) (h : Str) (t : Tree) : hasUnk (resolve to h t) = false := by
  by_cases hto : to = .lucene
  · subst hto; exact (resolveNode_lucene h t none none [] storeOK_none).1
  · rw [resolve_explicit to hto]
    exact hasUnk_relabel _ (by cases to <;> simp_all [opKOf]) h t

/-! ### 3. lucene mode -/

/-- **lucene mode: the result is `relabel` up to the choice between AND and OR for each resolved
operation** — same nodes, same layout, same added heads; explicit operations keep their kind up to
the identification too (in fact exactly, see `resolve_lucene_noUnk`). -/
theorem resolve_lucene_skeleton (h : Str) (t : Tree) :
    eraseOpKind (resolve .lucene h t) = eraseOpKind (relabel .and h t) :=
  (resolveNode_lucene h t none none [] storeOK_none).2.1

mutual
/-- without explicit AND / OR the store stays empty and every implicit operation becomes the
default (AND) -/
theorem resolveNode_lucene_noAndOr (h : Str) :
    ∀ (t : Tree) (d : Option RStore) (top : RKey) (path : List Nat), d.getD [] = [] →
      hasAndOr t = false →
      (resolveNode .lucene h d top path t).1 = relabel .and h t
        ∧ (resolveNode .lucene h d top path t).2.getD [] = []
  | .term .., d, top, path, hd, _ => ⟨rfl, hd⟩
  | .none _, d, top, path, hd, _ => ⟨rfl, hd⟩
  | .field n e l, d, top, path, hd, ht => by
    have ih := resolveNode_lucene_noAndOr h e d (childKey top path (.field n e l)) (path ++ [0]) hd
      (by simpa [hasAndOr] using ht)
    simpa [resolveNode, relabel] using ih
  | .group k e l, d, top, path, hd, ht => by
    have ih := resolveNode_lucene_noAndOr h e d (childKey top path (.group k e l)) (path ++ [0]) hd
      (by simpa [hasAndOr] using ht)
    simpa [resolveNode, relabel] using ih
  | .approx k e n l, d, top, path, hd, ht => by
    have ih := resolveNode_lucene_noAndOr h e d (childKey top path (.approx k e n l)) (path ++ [0]) hd
      (by simpa [hasAndOr] using ht)
    simpa [resolveNode, relabel] using ih
  | .boost e n l, d, top, path, hd, ht => by
    have ih := resolveNode_lucene_noAndOr h e d (childKey top path (.boost e n l)) (path ++ [0]) hd
      (by simpa [hasAndOr] using ht)
    simpa [resolveNode, relabel] using ih
  | .unary k e l, d, top, path, hd, ht => by
    have ih := resolveNode_lucene_noAndOr h e d (childKey top path (.unary k e l)) (path ++ [0]) hd
      (by simpa [hasAndOr] using ht)
    simpa [resolveNode, relabel] using ih
  | .orange k e i l, d, top, path, hd, ht => by
    have ih := resolveNode_lucene_noAndOr h e d (childKey top path (.orange k e i l)) (path ++ [0]) hd
      (by simpa [hasAndOr] using ht)
    simpa [resolveNode, relabel] using ih
  | .range a b il ih l, d, top, path, hd, ht => by
    simp only [hasAndOr, Bool.or_eq_false_iff] at ht
    have iha := resolveNode_lucene_noAndOr h a d (childKey top path (.range a b il ih l)) (path ++ [0])
      hd ht.1
    have ihb := resolveNode_lucene_noAndOr h b _ (childKey top path (.range a b il ih l)) (path ++ [1])
      iha.2 ht.2
    simp only [resolveNode, relabel]
    exact ⟨by rw [iha.1, ihb.1], ihb.2⟩
  | .op .and xs l, d, top, path, hd, ht => by simp [hasAndOr] at ht
  | .op .or xs l, d, top, path, hd, ht => by simp [hasAndOr] at ht
  | .op .unk xs l, d, top, path, hd, ht => by
    have ih := resolveList_lucene_noAndOr h xs (some (d.getD [])) top path 0 (by simpa using hd)
      (by simpa [hasAndOr] using ht)
    simp only [resolveNode, relabel]
    refine ⟨by rw [ih.1, hd]; rfl, ?_⟩
    split
    · exact ih.2
    · rfl
  | .op .bool xs l, d, top, path, hd, ht => by
    have ih := resolveList_lucene_noAndOr h xs d top path 0 hd (by simpa [hasAndOr] using ht)
    simp only [resolveNode, relabel]
    exact ⟨by rw [ih.1], ih.2⟩
theorem resolveList_lucene_noAndOr (h : Str) :
    ∀ (xs : List Tree) (d : Option RStore) (top : RKey) (path : List Nat) (i : Nat),
      d.getD [] = [] → hasAndOrList xs = false →
      (resolveList .lucene h d top path i xs).1 = relabelList .and h xs
        ∧ (resolveList .lucene h d top path i xs).2.getD [] = []
  | [], d, top, path, i, hd, _ => ⟨rfl, hd⟩
  | x :: r, d, top, path, i, hd, ht => by
    simp only [hasAndOrList, Bool.or_eq_false_iff] at ht
    have ih1 := resolveNode_lucene_noAndOr h x d top (path ++ [i]) hd ht.1
    have ih2 := resolveList_lucene_noAndOr h r _ top path (i + 1) ih1.2 ht.2
    simp only [resolveList, relabelList]
    exact ⟨by rw [ih1.1, ih2.1], ih2.2⟩
end

/-- **lucene mode on a tree without explicit AND / OR is resolving everything to AND** -/
theorem resolve_lucene_noAndOr (h : Str) (t : Tree) (ht : hasAndOr t = false) :
    resolve .lucene h t = relabel .and h t :=
  (resolveNode_lucene_noAndOr h t none none [] rfl ht).1

/-- lucene mode proper: an implicit operation takes the kind of the last explicit operation seen
(in document order) under the same top-most non-operation ancestor -/
example : resolve .lucene []
      (.op .or [.term .word ['a'] {}, .op .unk [.term .word ['b'] {}, .term .word ['c'] {}] {}] {})
    = .op .or [.term .word ['a'] {}, .op .or [.term .word ['b'] {}, .term .word ['c'] {}] {}] {} := rfl

/-! ### 4. idempotence; the result carries no names -/

mutual
/-- **a tree without implicit operations is just cloned** (for every target kind and `add_head`) -/
theorem relabel_noUnk (k : OpK) (h : Str) : ∀ t : Tree, hasUnk t = false → relabel k h t = t.copy
  | .term .., _ => rfl
  | .none _, _ => rfl
  | .field n e l, ht => by simp [relabel, Tree.copy, relabel_noUnk k h e (by simpa [hasUnk] using ht)]
  | .group _ e l, ht => by simp [relabel, Tree.copy, relabel_noUnk k h e (by simpa [hasUnk] using ht)]
  | .approx _ e n l, ht => by simp [relabel, Tree.copy, relabel_noUnk k h e (by simpa [hasUnk] using ht)]
  | .boost e n l, ht => by simp [relabel, Tree.copy, relabel_noUnk k h e (by simpa [hasUnk] using ht)]
  | .unary _ e l, ht => by simp [relabel, Tree.copy, relabel_noUnk k h e (by simpa [hasUnk] using ht)]
  | .orange _ e i l, ht => by simp [relabel, Tree.copy, relabel_noUnk k h e (by simpa [hasUnk] using ht)]
  | .range a b il ih l, ht => by
    simp only [hasUnk, Bool.or_eq_false_iff] at ht
    simp [relabel, Tree.copy, relabel_noUnk k h a ht.1, relabel_noUnk k h b ht.2]
  | .op .unk xs l, ht => by simp [hasUnk] at ht
  | .op .and xs l, ht => by
    simp [relabel, Tree.copy, relabelList_noUnk k h xs (by simpa [hasUnk] using ht)]
  | .op .or xs l, ht => by
    simp [relabel, Tree.copy, relabelList_noUnk k h xs (by simpa [hasUnk] using ht)]
  | .op .bool xs l, ht => by
    simp [relabel, Tree.copy, relabelList_noUnk k h xs (by simpa [hasUnk] using ht)]
theorem relabelList_noUnk (k : OpK) (h : Str) :
    ∀ xs : List Tree, hasUnkList xs = false → relabelList k h xs = Tree.copies xs
  | [], _ => rfl
  | x :: r, ht => by
    simp only [hasUnkList, Bool.or_eq_false_iff] at ht
    simp [relabelList, Tree.copies, relabel_noUnk k h x ht.1, relabelList_noUnk k h r ht.2]
end

mutual
theorem resolveNode_lucene_noUnk (h : Str) :
    ∀ (t : Tree) (d : Option RStore) (top : RKey) (path : List Nat), hasUnk t = false →
      (resolveNode .lucene h d top path t).1 = t.copy
  | .term .., d, top, path, _ => rfl
  | .none _, d, top, path, _ => rfl
  | .field n e l, d, top, path, ht => by
    simp [resolveNode, Tree.copy, resolveNode_lucene_noUnk h e _ _ _ (by simpa [hasUnk] using ht)]
  | .group k e l, d, top, path, ht => by
    simp [resolveNode, Tree.copy, resolveNode_lucene_noUnk h e _ _ _ (by simpa [hasUnk] using ht)]
  | .approx k e n l, d, top, path, ht => by
    simp [resolveNode, Tree.copy, resolveNode_lucene_noUnk h e _ _ _ (by simpa [hasUnk] using ht)]
  | .boost e n l, d, top, path, ht => by
    simp [resolveNode, Tree.copy, resolveNode_lucene_noUnk h e _ _ _ (by simpa [hasUnk] using ht)]
  | .unary k e l, d, top, path, ht => by
    simp [resolveNode, Tree.copy, resolveNode_lucene_noUnk h e _ _ _ (by simpa [hasUnk] using ht)]
  | .orange k e i l, d, top, path, ht => by
    simp [resolveNode, Tree.copy, resolveNode_lucene_noUnk h e _ _ _ (by simpa [hasUnk] using ht)]
  | .range a b il ih l, d, top, path, ht => by
    simp only [hasUnk, Bool.or_eq_false_iff] at ht
    simp [resolveNode, Tree.copy, resolveNode_lucene_noUnk h a _ _ _ ht.1,
      resolveNode_lucene_noUnk h b _ _ _ ht.2]
  | .op .unk xs l, d, top, path, ht => by simp [hasUnk] at ht
  | .op .and xs l, d, top, path, ht => by
    simp [resolveNode, Tree.copy, resolveList_lucene_noUnk h xs _ _ _ _ (by simpa [hasUnk] using ht)]
  | .op .or xs l, d, top, path, ht => by
    simp [resolveNode, Tree.copy, resolveList_lucene_noUnk h xs _ _ _ _ (by simpa [hasUnk] using ht)]
  | .op .bool xs l, d, top, path, ht => by
    simp [resolveNode, Tree.copy, resolveList_lucene_noUnk h xs _ _ _ _ (by simpa [hasUnk] using ht)]
theorem resolveList_lucene_noUnk (h : Str) :
    ∀ (xs : List Tree) (d : Option RStore) (top : RKey) (path : List Nat) (i : Nat),
      hasUnkList xs = false → (resolveList .lucene h d top path i xs).1 = Tree.copies xs
  | [], d, top, path, i, _ => rfl
  | x :: r, d, top, path, i, ht => by
    simp only [hasUnkList, Bool.or_eq_false_iff] at ht
    simp [resolveList, Tree.copies, resolveNode_lucene_noUnk h x _ _ _ ht.1,
      resolveList_lucene_noUnk h r _ _ _ _ ht.2]
end

/-- **a tree without implicit operations is just cloned**, whatever the target -/
theorem resolve_noUnk (to : ResolveTo) (h : Str) (t : Tree) (ht : hasUnk t = false) :
    resolve to h t = t.copy := by
  by_cases hto : to = .lucene
  · subst hto; exact resolveNode_lucene_noUnk h t none none [] ht
  · rw [resolve_explicit to hto]; exact relabel_noUnk _ h t ht

mutual
theorem noNames_resolveNode (to : ResolveTo) (h : Str) :
    ∀ (t : Tree) (d : Option RStore) (top : RKey) (path : List Nat),
      C08.noNames (resolveNode to h d top path t).1 = true
  | .term .., d, top, path => rfl
  | .none _, d, top, path => rfl
  | .field n e l, d, top, path => by
    simp [resolveNode, C08.noNames, Lay.noName, noNames_resolveNode to h e]
  | .group k e l, d, top, path => by
    simp [resolveNode, C08.noNames, Lay.noName, noNames_resolveNode to h e]
  | .approx k e n l, d, top, path => by
    simp [resolveNode, C08.noNames, Lay.noName, noNames_resolveNode to h e]
  | .boost e n l, d, top, path => by
    simp [resolveNode, C08.noNames, Lay.noName, noNames_resolveNode to h e]
  | .unary k e l, d, top, path => by
    simp [resolveNode, C08.noNames, Lay.noName, noNames_resolveNode to h e]
  | .orange k e i l, d, top, path => by
    simp [resolveNode, C08.noNames, Lay.noName, noNames_resolveNode to h e]
  | .range a b il ih l, d, top, path => by
    simp [resolveNode, C08.noNames, Lay.noName, noNames_resolveNode to h a, noNames_resolveNode to h b]
  | .op k xs l, d, top, path => by
    cases to <;> cases k <;>
      simp [resolveNode, C08.noNames, Lay.noName, noNamesList_resolveList _ h xs,
        noNamesList_addHeads]
theorem noNamesList_resolveList (to : ResolveTo) (h : Str) :
    ∀ (xs : List Tree) (d : Option RStore) (top : RKey) (path : List Nat) (i : Nat),
      C08.noNamesList (resolveList to h d top path i xs).1 = true
  | [], d, top, path, i => rfl
  | x :: r, d, top, path, i => by
    simp [resolveList, C08.noNamesList, noNames_resolveNode to h x, noNamesList_resolveList to h r]
end

/-- the result carries no attached names, so **cloning it again gives the very same tree** -/
theorem resolve_copy (to : ResolveTo) (h : Str) (t : Tree) : (resolve to h t).copy = resolve to h t :=
  (C08.copy_eq_self_iff _).2 (noNames_resolveNode to h t none none [])

/-- **Idempotence** (all four targets): resolving a resolved tree changes nothing. -/
theorem resolve_idem (to : ResolveTo) (h : Str) (t : Tree) :
    resolve to h (resolve to h t) = resolve to h t := by
  rw [resolve_noUnk to h _ (no_unknown_left to h t), resolve_copy]

/-- … even with another target or another `add_head` -/
theorem resolve_resolve (to to' : ResolveTo) (h h' : Str) (t : Tree) :
    resolve to' h' (resolve to h t) = resolve to h t := by
  rw [resolve_noUnk to' h' _ (no_unknown_left to h t), resolve_copy]

/-! ### 5. meaning: resolving to `k` keeps the meaning under "implicit = `k`" -/

/-- how an operand of a `BoolOperation` occurs (Lucene: `+a` must, `-a` must not, else should) -/
inductive Occur | must | mustNot | should deriving DecidableEq, Repr

def occur : Tree → Occur
  | .unary .plus _ _ => .must
  | .unary .prohibit _ _ => .mustNot
  | _ => .should

/-- Lucene boolean query over the operands' occurrences and truth values (the value of `-a` is
already the negation of `a`): every must / must-not clause holds, and when there is no must
clause but there are should clauses, one of them holds -/
def boolSem (os : List Occur) (vs : List Bool) : Bool :=
  (os.zip vs).all (fun ov => ov.1 == .should || ov.2)
    && (os.any (· == .must) || !os.any (· == .should) || (os.zip vs).any (fun ov => ov.1 == .should && ov.2))

def combine : OpK → List Occur → List Bool → Bool
  | .and, _, vs => vs.all id
  | .or, _, vs => vs.any id
  | .bool, os, vs => boolSem os vs
  | .unk, _, _ => false

mutual
/-- Boolean meaning of a query on one document: `τ fld text` says whether the document matches the
leaf `text` in field `fld`; an implicit operation means `dflt`. Ranges, fuzzy / proximity terms and
open ranges are opaque leaves keyed by their printed form; groups, boosts and `+` are transparent;
`NOT` and `-` negate. Layout never matters (except inside the printed form of an opaque leaf). -/
def evalB (dflt : OpK) (τ : Option Str → Str → Bool) (fld : Option Str) : Tree → Bool
  | .term _ v _ => τ fld v
  | .none _ => τ fld []
  | .field n e _ => evalB dflt τ (some n) e
  | .group _ e _ => evalB dflt τ fld e
  | .boost e _ _ => evalB dflt τ fld e
  | .unary .plus e _ => evalB dflt τ fld e
  | .unary .not e _ => !evalB dflt τ fld e
  | .unary .prohibit e _ => !evalB dflt τ fld e
  | .range a b il ih l => τ fld (Tree.body .norm (.range a b il ih l))
  | .approx k e n l => τ fld (Tree.body .norm (.approx k e n l))
  | .orange k e i l => τ fld (Tree.body .norm (.orange k e i l))
  | .op k xs _ => combine (if k == .unk then dflt else k) (xs.map occur) (evalBs dflt τ fld xs)
def evalBs (dflt : OpK) (τ : Option Str → Str → Bool) (fld : Option Str) : List Tree → List Bool
  | [] => []
  | x :: r => evalB dflt τ fld x :: evalBs dflt τ fld r
end

mutual
/-- the opaque leaves (ranges, fuzzy / proximity, open ranges) contain no implicit operation —
always so for parsed trees, whose leaves contain no operation at all -/
def leavesResolved : Tree → Bool
  | .term .. => true
  | .none _ => true
  | .field _ e _ => leavesResolved e
  | .group _ e _ => leavesResolved e
  | .boost e _ _ => leavesResolved e
  | .unary _ e _ => leavesResolved e
  | .range a b _ _ _ => !hasUnk a && !hasUnk b
  | .approx _ e _ _ => !hasUnk e
  | .orange _ e _ _ => !hasUnk e
  | .op _ xs _ => leavesResolvedList xs
def leavesResolvedList : List Tree → Bool
  | [] => true
  | x :: r => leavesResolved x && leavesResolvedList r
end

theorem occur_setLay (t : Tree) (l : Lay) : occur (t.setLay l) = occur t := by
  cases t <;> try rfl
  rename_i k _ _; cases k <;> rfl

theorem occur_relabel (k : OpK) (h : Str) : ∀ t : Tree, occur (relabel k h t) = occur t
  | .term .. => rfl
  | .none _ => rfl
  | .field .. => by simp [relabel, occur]
  | .group .. => by simp [relabel, occur]
  | .approx .. => by simp [relabel, occur]
  | .boost .. => by simp [relabel, occur]
  | .unary k' .. => by cases k' <;> simp [relabel, occur]
  | .orange .. => by simp [relabel, occur]
  | .range .. => by simp [relabel, occur]
  | .op .unk .. => by simp [relabel, occur]
  | .op .and .. => by simp [relabel, occur]
  | .op .or .. => by simp [relabel, occur]
  | .op .bool .. => by simp [relabel, occur]

theorem evalB_setLay (dflt : OpK) (τ : Option Str → Str → Bool) (fld : Option Str) (t : Tree) (l : Lay) :
    evalB dflt τ fld (t.setLay l) = evalB dflt τ fld t := by
  cases t <;> simp [Tree.setLay, evalB, Tree.body]
  rename_i k _ _; cases k <;> simp [evalB]

theorem map_occur_addHeads (h : Str) : ∀ xs : List Tree, (addHeads h xs).map occur = xs.map occur
  | [] => rfl
  | x :: r => by simp [addHeads, Tree.setHead, occur_setLay, Function.comp_def]

theorem evalBs_eq_map (dflt : OpK) (τ : Option Str → Str → Bool) (fld : Option Str) :
    ∀ xs, evalBs dflt τ fld xs = xs.map (evalB dflt τ fld)
  | [] => rfl
  | x :: r => by simp [evalBs, evalBs_eq_map dflt τ fld r]

theorem evalBs_addHeads (dflt : OpK) (τ : Option Str → Str → Bool) (fld : Option Str) (h : Str) :
    ∀ xs : List Tree, evalBs dflt τ fld (addHeads h xs) = evalBs dflt τ fld xs
  | [] => rfl
  | x :: r => by
    simp [addHeads, evalBs_eq_map, Tree.setHead, evalB_setLay, Function.comp_def]

mutual
theorem evalB_relabel (k : OpK) (τ : Option Str → Str → Bool) (h : Str) :
    ∀ (t : Tree) (fld : Option Str), leavesResolved t = true →
      evalB k τ fld (relabel k h t) = evalB k τ fld t
  | .term .., fld, _ => rfl
  | .none _, fld, _ => rfl
  | .field n e l, fld, ht => by
    simp [relabel, evalB, evalB_relabel k τ h e _ (by simpa [leavesResolved] using ht)]
  | .group _ e l, fld, ht => by
    simp [relabel, evalB, evalB_relabel k τ h e _ (by simpa [leavesResolved] using ht)]
  | .boost e n l, fld, ht => by
    simp [relabel, evalB, evalB_relabel k τ h e _ (by simpa [leavesResolved] using ht)]
  | .unary .plus e l, fld, ht => by
    simp [relabel, evalB, evalB_relabel k τ h e _ (by simpa [leavesResolved] using ht)]
  | .unary .not e l, fld, ht => by
    simp [relabel, evalB, evalB_relabel k τ h e _ (by simpa [leavesResolved] using ht)]
  | .unary .prohibit e l, fld, ht => by
    simp [relabel, evalB, evalB_relabel k τ h e _ (by simpa [leavesResolved] using ht)]
  | .approx k' e n l, fld, ht => by
    simp only [leavesResolved, Bool.not_eq_true'] at ht
    simp [relabel, evalB, Tree.body, relabel_noUnk k h e ht, (C08.copy_full e .norm).1]
  | .orange k' e i l, fld, ht => by
    simp only [leavesResolved, Bool.not_eq_true'] at ht
    simp [relabel, evalB, Tree.body, relabel_noUnk k h e ht, (C08.copy_full e .norm).1]
  | .range a b il ih l, fld, ht => by
    simp only [leavesResolved, Bool.and_eq_true, Bool.not_eq_true'] at ht
    simp [relabel, evalB, Tree.body, relabel_noUnk k h a ht.1, relabel_noUnk k h b ht.2,
      (C08.copy_full a .norm).1, (C08.copy_full b .norm).1]
  | .op .unk xs l, fld, ht => by
    simp only [relabel, evalB, ite_self, map_occur_addHeads, evalBs_addHeads, beq_self_eq_true, if_true]
    rw [evalBs_relabelList k τ h xs fld (by simpa [leavesResolved] using ht), relabelList_eq_map,
      List.map_map]
    congr 1
    apply List.map_congr_left; intro c _; exact occur_relabel k h c
  | .op .and xs l, fld, ht => by
    simp only [relabel, evalB]
    rw [evalBs_relabelList k τ h xs fld (by simpa [leavesResolved] using ht), relabelList_eq_map,
      List.map_map]
    congr 1
    apply List.map_congr_left; intro c _; exact occur_relabel k h c
  | .op .or xs l, fld, ht => by
    simp only [relabel, evalB]
    rw [evalBs_relabelList k τ h xs fld (by simpa [leavesResolved] using ht), relabelList_eq_map,
      List.map_map]
    congr 1
    apply List.map_congr_left; intro c _; exact occur_relabel k h c
  | .op .bool xs l, fld, ht => by
    simp only [relabel, evalB]
    rw [evalBs_relabelList k τ h xs fld (by simpa [leavesResolved] using ht), relabelList_eq_map,
      List.map_map]
    congr 1
    apply List.map_congr_left; intro c _; exact occur_relabel k h c
theorem evalBs_relabelList (k : OpK) (τ : Option Str → Str → Bool) (h : Str) :
    ∀ (xs : List Tree) (fld : Option Str), leavesResolvedList xs = true →
      evalBs k τ fld (relabelList k h xs) = evalBs k τ fld xs
  | [], fld, _ => rfl
  | x :: r, fld, ht => by
    simp only [leavesResolvedList, Bool.and_eq_true] at ht
    simp [relabelList, evalBs, evalB_relabel k τ h x fld ht.1, evalBs_relabelList k τ h r fld ht.2]
end

/-- **Resolving to AND / OR / BoolOperation keeps the meaning of the query under the reading
"an implicit operation is a `k`-operation"**, for every document (`τ`), every field context and
every `add_head` (provided the opaque leaves contain no implicit operation). -/
theorem resolve_meaning (to : ResolveTo) (hto : to ≠ .lucene) (τ : Option Str → Str → Bool) (h : Str)
    (fld : Option Str) (t : Tree) (ht : leavesResolved t = true) :
    evalB (opKOf to) τ fld (resolve to h t) = evalB (opKOf to) τ fld t := by
  rw [resolve_explicit to hto]; exact evalB_relabel _ τ h t fld ht

mutual
/-- … and once resolved, the reading of implicit operations no longer matters -/
theorem evalB_noUnk_dflt (k k' : OpK) (τ : Option Str → Str → Bool) : ∀ (t : Tree) (fld : Option Str),
    hasUnk t = false → evalB k τ fld t = evalB k' τ fld t
  | .term .., fld, _ => rfl
  | .none _, fld, _ => rfl
  | .field n e l, fld, ht => by
    simp [evalB, evalB_noUnk_dflt k k' τ e _ (by simpa [hasUnk] using ht)]
  | .group _ e l, fld, ht => by
    simp [evalB, evalB_noUnk_dflt k k' τ e _ (by simpa [hasUnk] using ht)]
  | .boost e n l, fld, ht => by
    simp [evalB, evalB_noUnk_dflt k k' τ e _ (by simpa [hasUnk] using ht)]
  | .unary .plus e l, fld, ht => by
    simp [evalB, evalB_noUnk_dflt k k' τ e _ (by simpa [hasUnk] using ht)]
  | .unary .not e l, fld, ht => by
    simp [evalB, evalB_noUnk_dflt k k' τ e _ (by simpa [hasUnk] using ht)]
  | .unary .prohibit e l, fld, ht => by
    simp [evalB, evalB_noUnk_dflt k k' τ e _ (by simpa [hasUnk] using ht)]
  | .approx .., fld, _ => by simp [evalB]
  | .orange .., fld, _ => by simp [evalB]
  | .range .., fld, _ => by simp [evalB]
  | .op .unk xs l, fld, ht => by simp [hasUnk] at ht
  | .op .and xs l, fld, ht => by
    simp [evalB, evalBs_noUnk_dflt k k' τ xs fld (by simpa [hasUnk] using ht)]
  | .op .or xs l, fld, ht => by
    simp [evalB, evalBs_noUnk_dflt k k' τ xs fld (by simpa [hasUnk] using ht)]
  | .op .bool xs l, fld, ht => by
    simp [evalB, evalBs_noUnk_dflt k k' τ xs fld (by simpa [hasUnk] using ht)]
theorem evalBs_noUnk_dflt (k k' : OpK) (τ : Option Str → Str → Bool) :
    ∀ (xs : List Tree) (fld : Option Str), hasUnkList xs = false →
      evalBs k τ fld xs = evalBs k' τ fld xs
  | [], fld, _ => rfl
  | x :: r, fld, ht => by
    simp only [hasUnkList, Bool.or_eq_false_iff] at ht
    simp [evalBs, evalB_noUnk_dflt k k' τ x fld ht.1, evalBs_noUnk_dflt k k' τ r fld ht.2]
end

/-- `a b` resolved to OR means `a OR b`: true on a document matching only `b` -/
example :
    evalB .or (fun _ v => v == ['b']) none
      (resolve .or [] (.op .unk [.term .word ['a'] {}, .term .word ['b'] {}] {})) = true := by decide

/-! ### 6. layout: only the heads of the second and later operands of resolved operations change -/

def isUnkOp : Tree → Bool
  | .op .unk _ _ => true
  | _ => false

/-- the node at path `p` of `t` is a second or later operand of an `UnknownOperation` -/
def headAdded : Tree → List Nat → Bool
  | _, [] => false
  | t, [i] => isUnkOp t && decide (1 ≤ i)
  | t, i :: j :: r => match t.children[i]? with
    | some c => headAdded c (j :: r)
    | none => false

/-- put `h` in front of the head, or not -/
def adj (h : Str) (b : Bool) (x : Tree) : Tree := if b then x.setHead (h ++ x.head) else x

theorem children_setLay (t : Tree) (l : Lay) : (t.setLay l).children = t.children := by
  cases t <;> rfl

theorem adj_at_cons (h : Str) (b : Bool) (x : Tree) (i : Nat) (r : List Nat) :
    (adj h b x).at? (i :: r) = x.at? (i :: r) := by
  cases b <;> simp [adj, Tree.at?, Tree.setHead, children_setLay]

theorem addHeads_getElem? (h : Str) : ∀ (ys : List Tree) (i : Nat),
    (addHeads h ys)[i]? = (ys[i]?).map (adj h (decide (1 ≤ i)))
  | [], i => by simp [addHeads]
  | y :: r, 0 => by simp [addHeads, adj]
  | y :: r, i + 1 => by
    simp only [addHeads, List.getElem?_cons_succ, List.getElem?_map]
    cases r[i]? <;> simp [adj]

/-- the children of the result: the results for the children, with `h` in front of the second and
later ones when the node is an implicit operation -/
theorem relabel_children (k : OpK) (h : Str) (t : Tree) (i : Nat) :
    (relabel k h t).children[i]?
      = (t.children[i]?).map (fun c => adj h (isUnkOp t && decide (1 ≤ i)) (relabel k h c)) := by
  match t with
  | .term .. => simp [relabel, Tree.children]
  | .none _ => simp [relabel, Tree.children]
  | .field .. => cases i <;> simp [relabel, Tree.children, isUnkOp, adj]
  | .group .. => cases i <;> simp [relabel, Tree.children, isUnkOp, adj]
  | .approx .. => cases i <;> simp [relabel, Tree.children, isUnkOp, adj]
  | .boost .. => cases i <;> simp [relabel, Tree.children, isUnkOp, adj]
  | .unary .. => cases i <;> simp [relabel, Tree.children, isUnkOp, adj]
  | .orange .. => cases i <;> simp [relabel, Tree.children, isUnkOp, adj]
  | .range .. =>
    match i with
    | 0 => simp [relabel, Tree.children, isUnkOp, adj]
    | 1 => simp [relabel, Tree.children, isUnkOp, adj]
    | i + 2 => simp [relabel, Tree.children, isUnkOp, adj]
  | .op .unk xs l =>
    simp only [relabel, Tree.children, isUnkOp, addHeads_getElem?, relabelList_eq_map,
      List.getElem?_map, Bool.true_and, Option.map_map]
    rfl
  | .op .and xs l =>
    simp [relabel, Tree.children, isUnkOp, relabelList_eq_map, adj]
  | .op .or xs l =>
    simp [relabel, Tree.children, isUnkOp, relabelList_eq_map, adj]
  | .op .bool xs l =>
    simp [relabel, Tree.children, isUnkOp, relabelList_eq_map, adj]

/-- **Same shape, node by node**: the result has exactly the paths of the original, and the node
at a path is the result for the node there — with `h` in front of its head exactly when it is a
second or later operand of a resolved operation. -/
theorem relabel_at (k : OpK) (h : Str) : ∀ (p : List Nat) (t : Tree),
    (relabel k h t).at? p = (t.at? p).map (fun n => adj h (headAdded t p) (relabel k h n))
  | [], t => by simp [Tree.at?, headAdded, adj]
  | [i], t => by
    simp only [Tree.at?, relabel_children, headAdded]
    cases t.children[i]? <;> simp [Bool.and_comm]
  | i :: j :: r, t => by
    rw [Tree.at?, relabel_children]
    conv => rhs; rw [Tree.at?, headAdded]
    cases hc : t.children[i]? with
    | none => simp
    | some c =>
      simp only [Option.map_some, adj_at_cons]
      exact relabel_at k h (j :: r) c

theorem relabel_lay (k : OpK) (h : Str) (t : Tree) : (relabel k h t).lay = t.lay.noName := by
  match t with
  | .op .unk .. | .op .and .. | .op .or .. | .op .bool .. => simp [relabel, Tree.lay]
  | .term .. | .none _ | .field .. | .group .. | .approx .. | .boost .. | .unary .. | .orange ..
  | .range .. => simp [relabel, Tree.lay]

theorem lay_setLay (t : Tree) (l : Lay) : (t.setLay l).lay = l := by cases t <;> rfl

/-- **Layout**: at every path, tail, pos and size are those of the original node, the name is
dropped, and the head is the original one — with `add_head` in front exactly for the second and
later operands of resolved operations. -/
theorem relabel_layout (k : OpK) (h : Str) (t n : Tree) (p : List Nat) (hn : t.at? p = some n) :
    ∃ n', (relabel k h t).at? p = some n' ∧ n'.tail = n.tail ∧ n'.lay.pos = n.lay.pos
      ∧ n'.lay.size = n.lay.size ∧ n'.lay.name = none
      ∧ n'.head = (if headAdded t p then h ++ n.head else n.head) := by
  refine ⟨_, by rw [relabel_at, hn]; rfl, ?_⟩
  cases headAdded t p <;>
    simp [adj, Tree.setHead, Tree.head, Tree.tail, lay_setLay, relabel_lay, Lay.noName]

/-- the class of a node changes only for the resolved operations -/
theorem relabel_className (k : OpK) (h : Str) (t : Tree) (ht : isUnkOp t = false) :
    (relabel k h t).className = t.className := by
  match t with
  | .op .unk .. => simp [isUnkOp] at ht
  | .op .and .. | .op .or .. | .op .bool .. => simp [relabel, Tree.className]
  | .term k' .. | .group k' .. | .approx k' .. | .unary k' .. | .orange k' .. =>
    cases k' <;> simp [relabel, Tree.className]
  | .none _ | .field .. | .boost .. | .range .. => simp [relabel, Tree.className]

theorem setHead_head (t : Tree) : t.setHead ([] ++ t.head) = t := by cases t <;> rfl

theorem addHeads_nil : ∀ xs : List Tree, addHeads [] xs = xs
  | [] => rfl
  | x :: r => by
    simp only [addHeads, List.cons.injEq, true_and]
    conv => rhs; rw [← List.map_id r]
    apply List.map_congr_left; intro c _; exact setHead_head c

mutual
/-- **with an empty `add_head` the result is the clone of the original up to the kind of the
resolved operations**: no layout changes at all -/
theorem relabel_nil (k : OpK) (hk : k ≠ .bool) : ∀ t : Tree,
    eraseOpKind (relabel k [] t) = eraseOpKind t.copy
  | .term .. => rfl
  | .none _ => rfl
  | .field n e l => by simp [relabel, Tree.copy, eraseOpKind, relabel_nil k hk e]
  | .group _ e l => by simp [relabel, Tree.copy, eraseOpKind, relabel_nil k hk e]
  | .approx _ e n l => by simp [relabel, Tree.copy, eraseOpKind, relabel_nil k hk e]
  | .boost e n l => by simp [relabel, Tree.copy, eraseOpKind, relabel_nil k hk e]
  | .unary _ e l => by simp [relabel, Tree.copy, eraseOpKind, relabel_nil k hk e]
  | .orange _ e i l => by simp [relabel, Tree.copy, eraseOpKind, relabel_nil k hk e]
  | .range a b il ih l => by
    simp [relabel, Tree.copy, eraseOpKind, relabel_nil k hk a, relabel_nil k hk b]
  | .op .unk xs l => by
    simp only [relabel, Tree.copy, eraseOpKind, addHeads_nil, relabelList_nil k hk xs]
    cases k <;> simp_all [eraseK]
  | .op .and xs l => by simp [relabel, Tree.copy, eraseOpKind, relabelList_nil k hk xs]
  | .op .or xs l => by simp [relabel, Tree.copy, eraseOpKind, relabelList_nil k hk xs]
  | .op .bool xs l => by simp [relabel, Tree.copy, eraseOpKind, relabelList_nil k hk xs]
theorem relabelList_nil (k : OpK) (hk : k ≠ .bool) : ∀ xs : List Tree,
    eraseOpKinds (relabelList k [] xs) = eraseOpKinds (Tree.copies xs)
  | [] => rfl
  | x :: r => by
    simp [relabelList, Tree.copies, eraseOpKinds, relabel_nil k hk x, relabelList_nil k hk r]
end

/-- the resolved tree is equal to the original up to the kinds of operations (`eqv` after
identifying AND / OR / implicit) when no head is added — so it prints the same up to the operators -/
example : resolve .and [' '] (.op .unk [.term .word ['a'] {}, .term .word ['b'] {}, .term .word ['c'] { head := ['\t'] }] {})
    = .op .and [.term .word ['a'] {}, .term .word ['b'] { head := [' '] },
        .term .word ['c'] { head := [' ', '\t'] }] {} := rfl

/-! ### equality up to the kind of operations -/

theorem content_setLay (t : Tree) (l : Lay) : C09.content (t.setLay l) = C09.content t := by
  cases t <;> simp [Tree.setLay, C09.content]

theorem contents_eq_map : ∀ xs, C09.contents xs = xs.map C09.content
  | [] => rfl
  | x :: r => by simp [C09.contents, contents_eq_map r]

theorem contents_addHeads (h : Str) : ∀ xs, C09.contents (addHeads h xs) = C09.contents xs
  | [] => rfl
  | x :: r => by
    simp [addHeads, contents_eq_map, Tree.setHead, content_setLay, Function.comp_def]

mutual
theorem content_erase_relabel (k : OpK) (hk : k ≠ .bool) (h : Str) : ∀ t : Tree,
    C09.content (eraseOpKind (relabel k h t)) = C09.content (eraseOpKind t)
  | .term .. => rfl
  | .none _ => rfl
  | .field n e l => by simp [relabel, eraseOpKind, C09.content, content_erase_relabel k hk h e]
  | .group _ e l => by simp [relabel, eraseOpKind, C09.content, content_erase_relabel k hk h e]
  | .approx _ e n l => by simp [relabel, eraseOpKind, C09.content, content_erase_relabel k hk h e]
  | .boost e n l => by simp [relabel, eraseOpKind, C09.content, content_erase_relabel k hk h e]
  | .unary _ e l => by simp [relabel, eraseOpKind, C09.content, content_erase_relabel k hk h e]
  | .orange _ e i l => by simp [relabel, eraseOpKind, C09.content, content_erase_relabel k hk h e]
  | .range a b il ih l => by
    simp [relabel, eraseOpKind, C09.content, content_erase_relabel k hk h a,
      content_erase_relabel k hk h b]
  | .op .unk xs l => by
    simp only [relabel, eraseOpKind, C09.content, eraseOpKinds_addHeads, contents_addHeads,
      contents_erase_relabelList k hk h xs]
    cases k <;> simp_all [eraseK]
  | .op .and xs l => by simp [relabel, eraseOpKind, C09.content, contents_erase_relabelList k hk h xs]
  | .op .or xs l => by simp [relabel, eraseOpKind, C09.content, contents_erase_relabelList k hk h xs]
  | .op .bool xs l => by simp [relabel, eraseOpKind, C09.content, contents_erase_relabelList k hk h xs]
theorem contents_erase_relabelList (k : OpK) (hk : k ≠ .bool) (h : Str) : ∀ xs : List Tree,
    C09.contents (eraseOpKinds (relabelList k h xs)) = C09.contents (eraseOpKinds xs)
  | [] => rfl
  | x :: r => by
    simp [relabelList, eraseOpKinds, C09.contents, content_erase_relabel k hk h x,
      contents_erase_relabelList k hk h r]
end

/-- **Resolving to AND / OR / lucene gives a tree equal (`==`) to the original once AND, OR and
implicit operations are identified**: same node types, values, names, flags, numbers and children
in the same order everywhere; only kinds of (formerly implicit) operations and layout may differ. -/
theorem resolve_eqv_upto_kind (to : ResolveTo) (hto : to ≠ .bool) (h : Str) (t : Tree) :
    (eraseOpKind (resolve to h t)).eqv (eraseOpKind t) = true := by
  rw [C09.eqv_iff_content]
  by_cases hl : to = .lucene
  · subst hl
    rw [resolve_lucene_skeleton]; exact content_erase_relabel .and (by decide) h t
  · rw [resolve_explicit to hl]
    exact content_erase_relabel _ (by cases to <;> simp_all [opKOf]) h t

/-- (for `resolve_to=BoolOperation` the same holds with implicit identified with BoolOperation;
stated directly: the result is `relabel .bool`, see `resolve_explicit`) -/
example : (eraseOpKind (resolve .lucene [' '] (.op .unk [.term .word ['a'] {}, .term .word ['b'] {}] {}))).eqv
    (eraseOpKind (.op .unk [.term .word ['a'] {}, .term .word ['b'] {}] {})) = true := by decide

end Luqum.Props.C10
