import Luqum.Model.Transform
namespace Luqum.Props.C10
open Luqum
theorem resolve_term (to : ResolveTo) (h : Str) (k : TermK) (v : Str) (l : Lay) :
    resolve to h (.term k v l) = .term k v l.noName := rfl
end Luqum.Props.C10
