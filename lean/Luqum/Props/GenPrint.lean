/-
  Translator obligations (G10): printing and `Item.span`.

  `Luqum/Generated/Printing.lean` is produced on every run by symbolic execution (tools/pysym.py) of the `__str__`
  method of every concrete class of `luqum.tree` -- with `_head_tail`, the `op` / `LOW_CHAR` / `HIGH_CHAR` / `_char`
  class attributes and `_format_number` -- and of `Item.span`. The recursive call on a child is a parameter
  (`rec child head_tail`). The theorems below say that the hand-written model (`Tree.body`, `Tree.full`,
  `Tree.span`) is exactly that function, class by class: a change of the python source that alters what is printed
  changes the generated definition, and the corresponding theorem stops checking.

  Primitives the translator does not open (trusted base): `format(Decimal, "f")` and `str(int)` as `Dec.render`.
-/
import Luqum.Generated.Printing
import Luqum.Lemmas.LaidPath

namespace Luqum.Props.GenPrint
open Luqum Generated

/-- `item.__str__(head_tail=ht)` in the model -/
def recStr (t : Tree) (ht : Bool) : Str := if ht then t.full .norm else t.body .norm

theorem recStr_true (t : Tree) : recStr t true = t.strHT := rfl
theorem recStr_false (t : Tree) : recStr t false = t.str := rfl

theorem fulls_eq_map (s : NumStyle) (xs : List Tree) : Tree.fulls s xs = xs.map (Tree.full s) := by
  induction xs with
  | nil => rfl
  | cons x r ih => simp [Tree.fulls, ih]

macro "print_tac" : tactic => `(tactic| (
  intros
  rename_i ht
  cases ht <;> simp [recStr, Tree.full, Tree.body, Num.text, Num.shown, PyPrim.formatDecimalF, PyPrim.strInt,
    OpK.word, UnK.word, ORK.word, fulls_eq_map, List.append_assoc]))

theorem gen_str_Word : ∀ (v : Str) (l : Lay) (ht : Bool),
    Printing.str_Word recStr v l ht = .ok (recStr (.term .word v l) ht) := by
  unfold Printing.str_Word; print_tac
theorem gen_str_Phrase : ∀ (v : Str) (l : Lay) (ht : Bool),
    Printing.str_Phrase recStr v l ht = .ok (recStr (.term .phrase v l) ht) := by
  unfold Printing.str_Phrase; print_tac
theorem gen_str_Regex : ∀ (v : Str) (l : Lay) (ht : Bool),
    Printing.str_Regex recStr v l ht = .ok (recStr (.term .regex v l) ht) := by
  unfold Printing.str_Regex; print_tac
theorem gen_str_SearchField : ∀ (n : Str) (e : Tree) (l : Lay) (ht : Bool),
    Printing.str_SearchField recStr n e l ht = .ok (recStr (.field n e l) ht) := by
  unfold Printing.str_SearchField; print_tac
theorem gen_str_Group : ∀ (e : Tree) (l : Lay) (ht : Bool),
    Printing.str_Group recStr e l ht = .ok (recStr (.group .group e l) ht) := by
  unfold Printing.str_Group; print_tac
theorem gen_str_FieldGroup : ∀ (e : Tree) (l : Lay) (ht : Bool),
    Printing.str_FieldGroup recStr e l ht = .ok (recStr (.group .fieldGroup e l) ht) := by
  unfold Printing.str_FieldGroup; print_tac
theorem gen_str_Range : ∀ (a b : Tree) (il ih : Bool) (l : Lay) (ht : Bool),
    Printing.str_Range recStr a b il ih l ht = .ok (recStr (.range a b il ih l) ht) := by
  unfold Printing.str_Range; intro a b il ih l ht
  cases ht <;> cases il <;> cases ih <;> simp [recStr, Tree.full, Tree.body, List.append_assoc]
theorem gen_str_Fuzzy : ∀ (t : Tree) (n : Num) (l : Lay) (ht : Bool),
    Printing.str_Fuzzy recStr t n l ht = .ok (recStr (.approx .fuzzy t n l) ht) := by
  unfold Printing.str_Fuzzy; intro t n l ht
  cases ht <;> cases h : n.implicit <;>
    simp [recStr, Tree.full, Tree.body, Num.text, Num.shown, PyPrim.formatDecimalF, h, List.append_assoc]
theorem gen_str_Proximity : ∀ (t : Tree) (n : Num) (l : Lay) (ht : Bool),
    Printing.str_Proximity recStr t n l ht = .ok (recStr (.approx .proximity t n l) ht) := by
  unfold Printing.str_Proximity; intro t n l ht
  cases ht <;> cases h : n.implicit <;>
    simp [recStr, Tree.full, Tree.body, Num.text, Num.shown, PyPrim.strInt, h, List.append_assoc]
theorem gen_str_Boost : ∀ (e : Tree) (n : Num) (l : Lay) (ht : Bool),
    Printing.str_Boost recStr e n l ht = .ok (recStr (.boost e n l) ht) := by
  unfold Printing.str_Boost; intro e n l ht
  cases ht <;> cases h : n.implicit <;>
    simp [recStr, Tree.full, Tree.body, Num.text, Num.shown, PyPrim.formatDecimalF, h, List.append_assoc]
theorem gen_str_AndOperation : ∀ (xs : List Tree) (l : Lay) (ht : Bool),
    Printing.str_AndOperation recStr xs l ht = .ok (recStr (.op .and xs l) ht) := by
  unfold Printing.str_AndOperation; print_tac
theorem gen_str_OrOperation : ∀ (xs : List Tree) (l : Lay) (ht : Bool),
    Printing.str_OrOperation recStr xs l ht = .ok (recStr (.op .or xs l) ht) := by
  unfold Printing.str_OrOperation; print_tac
theorem gen_str_UnknownOperation : ∀ (xs : List Tree) (l : Lay) (ht : Bool),
    Printing.str_UnknownOperation recStr xs l ht = .ok (recStr (.op .unk xs l) ht) := by
  unfold Printing.str_UnknownOperation; print_tac
theorem gen_str_BoolOperation : ∀ (xs : List Tree) (l : Lay) (ht : Bool),
    Printing.str_BoolOperation recStr xs l ht = .ok (recStr (.op .bool xs l) ht) := by
  unfold Printing.str_BoolOperation; print_tac
theorem gen_str_Plus : ∀ (a : Tree) (l : Lay) (ht : Bool),
    Printing.str_Plus recStr a l ht = .ok (recStr (.unary .plus a l) ht) := by
  unfold Printing.str_Plus; print_tac
theorem gen_str_Not : ∀ (a : Tree) (l : Lay) (ht : Bool),
    Printing.str_Not recStr a l ht = .ok (recStr (.unary .not a l) ht) := by
  unfold Printing.str_Not; print_tac
theorem gen_str_Prohibit : ∀ (a : Tree) (l : Lay) (ht : Bool),
    Printing.str_Prohibit recStr a l ht = .ok (recStr (.unary .prohibit a l) ht) := by
  unfold Printing.str_Prohibit; print_tac
theorem gen_str_From : ∀ (a : Tree) (inc : Bool) (l : Lay) (ht : Bool),
    Printing.str_From recStr a inc l ht = .ok (recStr (.orange .from a inc l) ht) := by
  unfold Printing.str_From; intro a inc l ht
  cases ht <;> cases inc <;> simp [recStr, Tree.full, Tree.body, ORK.word, List.append_assoc]
theorem gen_str_To : ∀ (a : Tree) (inc : Bool) (l : Lay) (ht : Bool),
    Printing.str_To recStr a inc l ht = .ok (recStr (.orange .to a inc l) ht) := by
  unfold Printing.str_To; intro a inc l ht
  cases ht <;> cases inc <;> simp [recStr, Tree.full, Tree.body, ORK.word, List.append_assoc]
theorem gen_str_NoneItem : ∀ (l : Lay) (ht : Bool),
    Printing.str_NoneItem recStr l ht = .ok (recStr (.none l) ht) := by
  unfold Printing.str_NoneItem; print_tac

/-- the step function assembled from the generated per-class functions -/
def genStr (rec : Tree → Bool → Str) (t : Tree) (ht : Bool) : Except PyErr Str :=
  match t with
  | .term .word v l => Printing.str_Word rec v l ht
  | .term .phrase v l => Printing.str_Phrase rec v l ht
  | .term .regex v l => Printing.str_Regex rec v l ht
  | .field n e l => Printing.str_SearchField rec n e l ht
  | .group .group e l => Printing.str_Group rec e l ht
  | .group .fieldGroup e l => Printing.str_FieldGroup rec e l ht
  | .range a b il ih l => Printing.str_Range rec a b il ih l ht
  | .approx .fuzzy x n l => Printing.str_Fuzzy rec x n l ht
  | .approx .proximity x n l => Printing.str_Proximity rec x n l ht
  | .boost e n l => Printing.str_Boost rec e n l ht
  | .op .and xs l => Printing.str_AndOperation rec xs l ht
  | .op .or xs l => Printing.str_OrOperation rec xs l ht
  | .op .unk xs l => Printing.str_UnknownOperation rec xs l ht
  | .op .bool xs l => Printing.str_BoolOperation rec xs l ht
  | .unary .plus a l => Printing.str_Plus rec a l ht
  | .unary .not a l => Printing.str_Not rec a l ht
  | .unary .prohibit a l => Printing.str_Prohibit rec a l ht
  | .orange .from a i l => Printing.str_From rec a i l ht
  | .orange .to a i l => Printing.str_To rec a i l ht
  | .none l => Printing.str_NoneItem rec l ht

/-- **printing is the translated code**: the model's `__str__` is a fixed point of the step function generated
from the python source, for every tree and both values of `head_tail`; it never raises -/
theorem print_is_generated (t : Tree) (ht : Bool) : genStr recStr t ht = .ok (recStr t ht) := by
  cases t with
  | term k v l => cases k <;> simp only [genStr, gen_str_Word, gen_str_Phrase, gen_str_Regex]
  | field n e l => simp only [genStr, gen_str_SearchField]
  | group k e l => cases k <;> simp only [genStr, gen_str_Group, gen_str_FieldGroup]
  | range a b il ih l => simp only [genStr, gen_str_Range]
  | approx k x n l => cases k <;> simp only [genStr, gen_str_Fuzzy, gen_str_Proximity]
  | boost e n l => simp only [genStr, gen_str_Boost]
  | op k xs l =>
    cases k <;> simp only [genStr, gen_str_AndOperation, gen_str_OrOperation, gen_str_UnknownOperation,
      gen_str_BoolOperation]
  | unary k a l => cases k <;> simp only [genStr, gen_str_Plus, gen_str_Not, gen_str_Prohibit]
  | orange k a i l => cases k <;> simp only [genStr, gen_str_From, gen_str_To]
  | none l => simp only [genStr, gen_str_NoneItem]

/-- the class table of the translator names every printing function that was generated (nothing untranslated) -/
theorem print_names_complete :
    Printing.printNames.map (·.2) =
      ["Word", "Phrase", "Regex", "SearchField", "Group", "FieldGroup", "Range", "Fuzzy", "Proximity", "Boost",
       "AndOperation", "OrOperation", "UnknownOperation", "BoolOperation", "Plus", "Not", "Prohibit", "From",
       "To", "NoneItem", "Item"] := by decide

/-! ### `Item.span` -/

/-- without a position python answers `(None, None)`, the model `none` -/
theorem gen_span_none (t : Tree) (v : Str) (ht : Bool) (h : t.lay.pos = none) :
    Printing.span v t.lay ht = .ok (none, none) ∧ t.span ht = none := by
  unfold Printing.span Tree.span
  simp [h]

/-- with position and size the translated `span` and the model's agree -/
theorem gen_span_some (t : Tree) (v : Str) (ht : Bool) (p z : Int) (hp : t.lay.pos = some p)
    (hz : t.lay.size = some z) :
    ∃ a b, Printing.span v t.lay ht = .ok (some a, some b) ∧ t.span ht = some (a, b) := by
  unfold Printing.span Tree.span
  cases ht <;> simp [hp, hz, Tree.head, Tree.tail]

/-- a position without a size makes python raise `TypeError`; the model totalises this case to `none`
(it does not arise for parsed trees: `parse_laid_exact` gives every node both) -/
theorem gen_span_typeerror (t : Tree) (v : Str) (ht : Bool) (p : Int) (hp : t.lay.pos = some p)
    (hz : t.lay.size = none) :
    Printing.span v t.lay ht = .error (.exc "TypeError") ∧ t.span ht = none := by
  unfold Printing.span Tree.span
  cases ht <;> simp [hp, hz]

end Luqum.Props.GenPrint
