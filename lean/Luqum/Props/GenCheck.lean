/-
  Translator obligations: `LuceneCheck.check`, one step per class.

  `Luqum/Generated/Checks.lean` is produced on every run by symbolic execution (tools/pysym.py) of
  `LuceneCheck.check(item, parents)` -- the MRO dispatch to `check_<class>`, the wrapper `_check_children`, the
  `isinstance` tests, the three regular expressions, `parents[-1]` -- on a symbolic instance of every concrete class.
  The check of a child is the parameter `recCheck`, `str(x)` is `recStr`, `bool(zeal)` is `zealOn`.

  The theorems say that the model's `checkErrors` (Model/Check, C20) is exactly the fixed point of these translated
  steps: for every node, every list of ancestors and every `zeal`, the step computed from the model's own answers on
  the children returns (never raises) the model's answer on the node: same messages, same order.
-/
import Luqum.Generated.Checks
import Luqum.Props.C20

namespace Luqum.Props.GenCheck
open Luqum Generated

/-! ### 1. the method table (one obligation per concrete class) -/

theorem method_Word : checkMethodOf "Word" = some ("Word", false) := by decide
theorem method_Phrase : checkMethodOf "Phrase" = some ("Phrase", false) := by decide
theorem method_Regex : checkMethodOf "Regex" = none := by decide
theorem method_SearchField : checkMethodOf "SearchField" = some ("SearchField", true) := by decide
theorem method_Group : checkMethodOf "Group" = some ("Group", true) := by decide
theorem method_FieldGroup : checkMethodOf "FieldGroup" = some ("FieldGroup", true) := by decide
theorem method_Range : checkMethodOf "Range" = some ("Range", false) := by decide
theorem method_Fuzzy : checkMethodOf "Fuzzy" = some ("Fuzzy", false) := by decide
theorem method_Proximity : checkMethodOf "Proximity" = some ("Proximity", false) := by decide
theorem method_Boost : checkMethodOf "Boost" = some ("Boost", true) := by decide
theorem method_AndOperation : checkMethodOf "AndOperation" = some ("BaseOperation", true) := by decide
theorem method_OrOperation : checkMethodOf "OrOperation" = some ("BaseOperation", true) := by decide
theorem method_UnknownOperation : checkMethodOf "UnknownOperation" = some ("BaseOperation", true) := by decide
theorem method_BoolOperation : checkMethodOf "BoolOperation" = some ("BaseOperation", true) := by decide
theorem method_Plus : checkMethodOf "Plus" = some ("Plus", true) := by decide
theorem method_Not : checkMethodOf "Not" = some ("Not", true) := by decide
theorem method_Prohibit : checkMethodOf "Prohibit" = some ("Prohibit", true) := by decide
theorem method_From : checkMethodOf "From" = none := by decide
theorem method_To : checkMethodOf "To" = none := by decide
theorem method_NoneItem : checkMethodOf "NoneItem" = none := by decide

/-! ### 2. `isinstance` as a match on the constructor -/

theorem isInstance_SearchField (t : Tree) :
    isInstance ["SearchField"] t = (match t with | .field .. => true | _ => false) := by
  cases t with
  | term k => cases k <;> rfl
  | group k => cases k <;> rfl
  | approx k => cases k <;> rfl
  | op k => cases k <;> rfl
  | unary k => cases k <;> rfl
  | orange k => cases k <;> rfl
  | field => rfl
  | range => rfl
  | boost => rfl
  | none => rfl

theorem isInstance_OrOperation (t : Tree) :
    isInstance ["OrOperation"] t = (match t with | .op .or _ _ => true | _ => false) := by
  cases t with
  | term k => cases k <;> rfl
  | group k => cases k <;> rfl
  | approx k => cases k <;> rfl
  | op k => cases k <;> rfl
  | unary k => cases k <;> rfl
  | orange k => cases k <;> rfl
  | field => rfl
  | range => rfl
  | boost => rfl
  | none => rfl

theorem isInstance_Word (t : Tree) :
    isInstance ["Word"] t = (match t with | .term .word _ _ => true | _ => false) := by
  cases t with
  | term k => cases k <;> rfl
  | group k => cases k <;> rfl
  | approx k => cases k <;> rfl
  | op k => cases k <;> rfl
  | unary k => cases k <;> rfl
  | orange k => cases k <;> rfl
  | field => rfl
  | range => rfl
  | boost => rfl
  | none => rfl

theorem isInstance_Phrase (t : Tree) :
    isInstance ["Phrase"] t = (match t with | .term .phrase _ _ => true | _ => false) := by
  cases t with
  | term k => cases k <;> rfl
  | group k => cases k <;> rfl
  | approx k => cases k <;> rfl
  | op k => cases k <;> rfl
  | unary k => cases k <;> rfl
  | orange k => cases k <;> rfl
  | field => rfl
  | range => rfl
  | boost => rfl
  | none => rfl

/-- `isinstance(expr, FIELD_EXPR_FIELDS)` -/
theorem isInstance_fieldExpr (t : Tree) :
    isInstance Generated.fieldExprFields t =
      (match t with
       | .boost .. => true
       | .approx .. => true
       | .term .word _ _ => true
       | .term .phrase _ _ => true
       | .group .fieldGroup _ _ => true
       | _ => false) := by
  cases t with
  | term k => cases k <;> rfl
  | group k => cases k <;> rfl
  | approx k => cases k <;> rfl
  | op k => cases k <;> rfl
  | unary k => cases k <;> rfl
  | orange k => cases k <;> rfl
  | field => rfl
  | range => rfl
  | boost => rfl
  | none => rfl

/-! ### 3. lists: the children of an operation, the last ancestor -/

theorem checkErrorsList_eq_flatMap (zeal : Nat) (ps : List Tree) :
    ∀ xs : List Tree, checkErrorsList zeal ps xs = xs.flatMap (checkErrors zeal ps)
  | [] => by simp [checkErrorsList]
  | x :: r => by simp [checkErrorsList, checkErrorsList_eq_flatMap zeal ps r]

theorem eq_dropLast_append {α} (y : α) (r : List α) (h : r.getLast? = some y) : r = r.dropLast ++ [y] := by
  have hne : r ≠ [] := by rintro rfl; simp at h
  have : r.getLast hne = y := by
    rw [List.getLast?_eq_some_getLast hne] at h; exact Option.some.inj h
  rw [← this, List.dropLast_concat_getLast]

/-- `parents[:-1] + [parents[-1], item]` is `parents + [item]` -/
theorem dropLast_append_pair {α} (y x : α) (r : List α) (h : r.getLast? = some y) :
    r.dropLast ++ [y, x] = r ++ [x] := by
  conv => rhs; rw [eq_dropLast_append y r h]
  simp

theorem getLast?_none_iff {α} (r : List α) : r.getLast? = none ↔ r = [] := List.getLast?_eq_none_iff

/-! ### 4. primitives -/

theorem reSearch_space (v : Str) : PyPrim.reSearch "\\s" v = v.any isSpace := by simp [PyPrim.reSearch]
theorem reSearch_invalid (v : Str) :
    PyPrim.reSearch "[+/-]" v = v.any (fun c => c == '+' || c == '/' || c == '-') := by simp [PyPrim.reSearch]
theorem reMatch_fieldName (n : Str) : PyPrim.reFullmatch "^\\w+$" n = validFieldName n := by simp [PyPrim.reFullmatch]

/-! ### 5. one step per class -/

/-- the check of a child, in the argument order of the generated functions (child first, then its ancestors) -/
abbrev recOf (zeal : Nat) : Tree → List Tree → List Str := fun c ps => checkErrors zeal ps c

theorem gen_check_Word (zeal : Nat) (ps : List Tree) (value : Str) (l : Lay) :
    Checks.check_Word (recOf zeal) Tree.str (zeal != 0) ps value l
      = .ok (checkErrors zeal ps (Tree.term .word value l)) := by
  simp only [checkErrors, Tree.className, method_Word, ownErrors, Checks.check_Word, reSearch_space, reSearch_invalid]
  by_cases h1 : value.any isSpace = true <;> by_cases h2 : zeal = 0 <;>
    by_cases h3 : value.any (fun c => c == '+' || c == '/' || c == '-') = true <;>
    simp [h1, h2, h3, lit]

theorem gen_check_Phrase (zeal : Nat) (ps : List Tree) (value : Str) (l : Lay) :
    Checks.check_Phrase (recOf zeal) Tree.str (zeal != 0) ps value l
      = .ok (checkErrors zeal ps (Tree.term .phrase value l)) := by
  simp [checkErrors, Tree.className, method_Phrase, ownErrors, Checks.check_Phrase]

theorem gen_check_Regex (zeal : Nat) (ps : List Tree) (value : Str) (l : Lay) :
    Checks.check_Regex (recOf zeal) Tree.str (zeal != 0) ps value l
      = .ok (checkErrors zeal ps (Tree.term .regex value l)) := by
  simp [checkErrors, Tree.className, method_Regex, Checks.check_Regex, lit]

theorem gen_check_SearchField (zeal : Nat) (ps : List Tree) (name : Str) (expr : Tree) (l : Lay) :
    Checks.check_SearchField (recOf zeal) Tree.str (zeal != 0) ps name expr l
      = .ok (checkErrors zeal ps (Tree.field name expr l)) := by
  rw [checkErrors.eq_def]
  simp only [Tree.className, method_SearchField, ownErrors, Checks.check_SearchField, reMatch_fieldName,
    isInstance_fieldExpr]
  by_cases h1 : validFieldName name = true
  · cases expr with
    | term k => cases k <;> simp [h1, lit]
    | group k => cases k <;> simp [h1, lit]
    | approx k => cases k <;> simp [h1]
    | op k => simp [h1, lit]
    | unary k => simp [h1, lit]
    | orange k => simp [h1, lit]
    | field => simp [h1, lit]
    | range => simp [h1, lit]
    | boost => simp [h1]
    | none => simp [h1, lit]
  · cases expr with
    | term k => cases k <;> simp [h1, lit]
    | group k => cases k <;> simp [h1, lit]
    | approx k => cases k <;> simp [h1, lit]
    | op k => simp [h1, lit]
    | unary k => simp [h1, lit]
    | orange k => simp [h1, lit]
    | field => simp [h1, lit]
    | range => simp [h1, lit]
    | boost => simp [h1, lit]
    | none => simp [h1, lit]

theorem gen_check_Group (zeal : Nat) (ps : List Tree) (expr : Tree) (l : Lay) :
    Checks.check_Group (recOf zeal) Tree.str (zeal != 0) ps expr l
      = .ok (checkErrors zeal ps (Tree.group .group expr l)) := by
  rw [checkErrors.eq_def]
  simp only [Tree.className, method_Group, ownErrors, Checks.check_Group, isInstance_SearchField]
  cases hy : ps.getLast? with
  | none =>
    have hps : ps = [] := (getLast?_none_iff ps).mp hy
    simp [hps]
  | some y =>
    have hps := dropLast_append_pair y (Tree.group .group expr l) ps hy
    cases y <;> simp [hps, lit]

theorem gen_check_FieldGroup (zeal : Nat) (ps : List Tree) (expr : Tree) (l : Lay) :
    Checks.check_FieldGroup (recOf zeal) Tree.str (zeal != 0) ps expr l
      = .ok (checkErrors zeal ps (Tree.group .fieldGroup expr l)) := by
  rw [checkErrors.eq_def]
  simp only [Tree.className, method_FieldGroup, ownErrors, Checks.check_FieldGroup, isInstance_SearchField]
  cases hy : ps.getLast? with
  | none =>
    have hps : ps = [] := (getLast?_none_iff ps).mp hy
    simp [hps, lit]
  | some y =>
    have hps := dropLast_append_pair y (Tree.group .fieldGroup expr l) ps hy
    cases y <;> simp [hps, lit]

theorem gen_check_Range (zeal : Nat) (ps : List Tree) (low high : Tree) (il ih : Bool) (l : Lay) :
    Checks.check_Range (recOf zeal) Tree.str (zeal != 0) ps low high il ih l
      = .ok (checkErrors zeal ps (Tree.range low high il ih l)) := by
  rw [checkErrors.eq_def]
  simp [Tree.className, method_Range, ownErrors, Checks.check_Range]

theorem gen_check_Fuzzy (zeal : Nat) (ps : List Tree) (term : Tree) (n : Num) (l : Lay) :
    Checks.check_Fuzzy (recOf zeal) Tree.str (zeal != 0) ps term n l
      = .ok (checkErrors zeal ps (Tree.approx .fuzzy term n l)) := by
  rw [checkErrors.eq_def]
  simp only [Tree.className, method_Fuzzy, ownErrors, Checks.check_Fuzzy, isInstance_Word, PyPrim.signNegative,
    PyPrim.formatDecimalF]
  by_cases h1 : n.val.neg = true
  · cases term with
    | term k => cases k <;> simp [h1, lit]
    | _ => simp [h1, lit]
  · cases term with
    | term k => cases k <;> simp [h1, lit]
    | _ => simp [h1, lit]

theorem gen_check_Proximity (zeal : Nat) (ps : List Tree) (term : Tree) (n : Num) (l : Lay) :
    Checks.check_Proximity (recOf zeal) Tree.str (zeal != 0) ps term n l
      = .ok (checkErrors zeal ps (Tree.approx .proximity term n l)) := by
  rw [checkErrors.eq_def]
  simp only [Tree.className, method_Proximity, ownErrors, Checks.check_Proximity, isInstance_Phrase]
  cases term with
  | term k => cases k <;> simp [lit]
  | _ => simp [lit]

theorem gen_check_Boost (zeal : Nat) (ps : List Tree) (expr : Tree) (n : Num) (l : Lay) :
    Checks.check_Boost (recOf zeal) Tree.str (zeal != 0) ps expr n l
      = .ok (checkErrors zeal ps (Tree.boost expr n l)) := by
  rw [checkErrors.eq_def]
  simp [Tree.className, method_Boost, ownErrors, Checks.check_Boost]

theorem gen_check_AndOperation (zeal : Nat) (ps : List Tree) (operands : List Tree) (l : Lay) :
    Checks.check_AndOperation (recOf zeal) Tree.str (zeal != 0) ps operands l
      = .ok (checkErrors zeal ps (Tree.op .and operands l)) := by
  rw [checkErrors.eq_def]
  simp [Tree.className, method_AndOperation, ownErrors, Checks.check_AndOperation, checkErrorsList_eq_flatMap]

theorem gen_check_OrOperation (zeal : Nat) (ps : List Tree) (operands : List Tree) (l : Lay) :
    Checks.check_OrOperation (recOf zeal) Tree.str (zeal != 0) ps operands l
      = .ok (checkErrors zeal ps (Tree.op .or operands l)) := by
  rw [checkErrors.eq_def]
  simp [Tree.className, method_OrOperation, ownErrors, Checks.check_OrOperation, checkErrorsList_eq_flatMap]

theorem gen_check_UnknownOperation (zeal : Nat) (ps : List Tree) (operands : List Tree) (l : Lay) :
    Checks.check_UnknownOperation (recOf zeal) Tree.str (zeal != 0) ps operands l
      = .ok (checkErrors zeal ps (Tree.op .unk operands l)) := by
  rw [checkErrors.eq_def]
  simp [Tree.className, method_UnknownOperation, ownErrors, Checks.check_UnknownOperation,
    checkErrorsList_eq_flatMap]

theorem gen_check_BoolOperation (zeal : Nat) (ps : List Tree) (operands : List Tree) (l : Lay) :
    Checks.check_BoolOperation (recOf zeal) Tree.str (zeal != 0) ps operands l
      = .ok (checkErrors zeal ps (Tree.op .bool operands l)) := by
  rw [checkErrors.eq_def]
  simp [Tree.className, method_BoolOperation, ownErrors, Checks.check_BoolOperation, checkErrorsList_eq_flatMap]

theorem gen_check_Plus (zeal : Nat) (ps : List Tree) (a : Tree) (l : Lay) :
    Checks.check_Plus (recOf zeal) Tree.str (zeal != 0) ps a l
      = .ok (checkErrors zeal ps (Tree.unary .plus a l)) := by
  rw [checkErrors.eq_def]
  simp [Tree.className, method_Plus, ownErrors, Checks.check_Plus]

theorem gen_check_Not (zeal : Nat) (ps : List Tree) (a : Tree) (l : Lay) :
    Checks.check_Not (recOf zeal) Tree.str (zeal != 0) ps a l
      = .ok (checkErrors zeal ps (Tree.unary .not a l)) := by
  rw [checkErrors.eq_def]
  simp only [Tree.className, method_Not, ownErrors, Checks.check_Not, isInstance_OrOperation]
  by_cases hz : zeal = 0
  · cases hy : ps.getLast? <;> simp [hz]
  · cases hy : ps.getLast? with
    | none =>
      have hps : ps = [] := (getLast?_none_iff ps).mp hy
      simp [hps, hz]
    | some y =>
      have hps := dropLast_append_pair y (Tree.unary .not a l) ps hy
      cases y with
      | op k => cases k <;> simp [hps, hz, lit]
      | _ => simp [hps, hz]

theorem gen_check_Prohibit (zeal : Nat) (ps : List Tree) (a : Tree) (l : Lay) :
    Checks.check_Prohibit (recOf zeal) Tree.str (zeal != 0) ps a l
      = .ok (checkErrors zeal ps (Tree.unary .prohibit a l)) := by
  rw [checkErrors.eq_def]
  simp only [Tree.className, method_Prohibit, ownErrors, Checks.check_Prohibit, isInstance_OrOperation]
  by_cases hz : zeal = 0
  · cases hy : ps.getLast? <;> simp [hz]
  · cases hy : ps.getLast? with
    | none =>
      have hps : ps = [] := (getLast?_none_iff ps).mp hy
      simp [hps, hz]
    | some y =>
      have hps := dropLast_append_pair y (Tree.unary .prohibit a l) ps hy
      cases y with
      | op k => cases k <;> simp [hps, hz, lit]
      | _ => simp [hps, hz]

theorem gen_check_From (zeal : Nat) (ps : List Tree) (a : Tree) (incl : Bool) (l : Lay) :
    Checks.check_From (recOf zeal) Tree.str (zeal != 0) ps a incl l
      = .ok (checkErrors zeal ps (Tree.orange .from a incl l)) := by
  rw [checkErrors.eq_def]
  simp [Tree.className, method_From, Checks.check_From, lit]

theorem gen_check_To (zeal : Nat) (ps : List Tree) (a : Tree) (incl : Bool) (l : Lay) :
    Checks.check_To (recOf zeal) Tree.str (zeal != 0) ps a incl l
      = .ok (checkErrors zeal ps (Tree.orange .to a incl l)) := by
  rw [checkErrors.eq_def]
  simp [Tree.className, method_To, Checks.check_To, lit]

theorem gen_check_NoneItem (zeal : Nat) (ps : List Tree) (l : Lay) :
    Checks.check_NoneItem (recOf zeal) Tree.str (zeal != 0) ps l
      = .ok (checkErrors zeal ps (Tree.none l)) := by
  rw [checkErrors.eq_def]
  simp [Tree.className, method_NoneItem, Checks.check_NoneItem, lit]

/-! ### 6. the fixed point -/

/-- `LuceneCheck.check`'s step, assembled by class from the generated functions -/
def genCheck (recCheck : Tree → List Tree → List Str) (recStr : Tree → Str) (zealOn : Bool) (ps : List Tree) :
    Tree → Except PyErr (List Str)
  | .term .word v l => Checks.check_Word recCheck recStr zealOn ps v l
  | .term .phrase v l => Checks.check_Phrase recCheck recStr zealOn ps v l
  | .term .regex v l => Checks.check_Regex recCheck recStr zealOn ps v l
  | .field n e l => Checks.check_SearchField recCheck recStr zealOn ps n e l
  | .group .group e l => Checks.check_Group recCheck recStr zealOn ps e l
  | .group .fieldGroup e l => Checks.check_FieldGroup recCheck recStr zealOn ps e l
  | .range a b il ih l => Checks.check_Range recCheck recStr zealOn ps a b il ih l
  | .approx .fuzzy x n l => Checks.check_Fuzzy recCheck recStr zealOn ps x n l
  | .approx .proximity x n l => Checks.check_Proximity recCheck recStr zealOn ps x n l
  | .boost e n l => Checks.check_Boost recCheck recStr zealOn ps e n l
  | .op .and xs l => Checks.check_AndOperation recCheck recStr zealOn ps xs l
  | .op .or xs l => Checks.check_OrOperation recCheck recStr zealOn ps xs l
  | .op .unk xs l => Checks.check_UnknownOperation recCheck recStr zealOn ps xs l
  | .op .bool xs l => Checks.check_BoolOperation recCheck recStr zealOn ps xs l
  | .unary .plus a l => Checks.check_Plus recCheck recStr zealOn ps a l
  | .unary .not a l => Checks.check_Not recCheck recStr zealOn ps a l
  | .unary .prohibit a l => Checks.check_Prohibit recCheck recStr zealOn ps a l
  | .orange .from a i l => Checks.check_From recCheck recStr zealOn ps a i l
  | .orange .to a i l => Checks.check_To recCheck recStr zealOn ps a i l
  | .none l => Checks.check_NoneItem recCheck recStr zealOn ps l

/-- **the model of the checker is the translated code**: for every `zeal`, every list of ancestors and every node,
the translated `LuceneCheck.check`, given the model's `checkErrors` for the checks of the children and `Tree.str` for
`str`, returns -- without raising -- exactly the model's messages for the node, in the same order -/
theorem check_is_generated (zeal : Nat) (ps : List Tree) (t : Tree) :
    genCheck (recOf zeal) Tree.str (zeal != 0) ps t = .ok (checkErrors zeal ps t) := by
  cases t with
  | term k v l =>
    cases k
    · exact gen_check_Word zeal ps v l
    · exact gen_check_Phrase zeal ps v l
    · exact gen_check_Regex zeal ps v l
  | field n e l => exact gen_check_SearchField zeal ps n e l
  | group k e l =>
    cases k
    · exact gen_check_Group zeal ps e l
    · exact gen_check_FieldGroup zeal ps e l
  | range a b il ih l => exact gen_check_Range zeal ps a b il ih l
  | approx k x n l =>
    cases k
    · exact gen_check_Fuzzy zeal ps x n l
    · exact gen_check_Proximity zeal ps x n l
  | boost e n l => exact gen_check_Boost zeal ps e n l
  | op k xs l =>
    cases k
    · exact gen_check_AndOperation zeal ps xs l
    · exact gen_check_OrOperation zeal ps xs l
    · exact gen_check_UnknownOperation zeal ps xs l
    · exact gen_check_BoolOperation zeal ps xs l
  | unary k a l =>
    cases k
    · exact gen_check_Plus zeal ps a l
    · exact gen_check_Not zeal ps a l
    · exact gen_check_Prohibit zeal ps a l
  | orange k a i l =>
    cases k
    · exact gen_check_From zeal ps a i l
    · exact gen_check_To zeal ps a i l
  | none l => exact gen_check_NoneItem zeal ps l

/-! ### 7. the entry points -/

/-- `LuceneCheck(zeal).errors(tree)` starts the check without ancestors -/
theorem luceneErrors_eq (zeal : Nat) (t : Tree) : luceneErrors zeal t = checkErrors zeal [] t := rfl

/-- `errors(tree)` is what the translated code returns at the root -/
theorem errors_is_generated (zeal : Nat) (t : Tree) :
    genCheck (recOf zeal) Tree.str (zeal != 0) [] t = .ok (luceneErrors zeal t) :=
  check_is_generated zeal [] t

/-- `LuceneCheck(zeal)(tree)`: the tree is accepted iff the translated code returns no message -/
theorem luceneCheck_is_generated (zeal : Nat) (t : Tree) :
    luceneCheck zeal t = true ↔ genCheck (recOf zeal) Tree.str (zeal != 0) [] t = .ok [] := by
  rw [errors_is_generated]
  simp [luceneCheck]

/-- **the checker never raises** (on any item, under any ancestors, for any `zeal`) -/
theorem check_never_raises (zeal : Nat) (ps : List Tree) (t : Tree) :
    ∃ msgs, genCheck (recOf zeal) Tree.str (zeal != 0) ps t = .ok msgs :=
  ⟨_, check_is_generated zeal ps t⟩

/-- **C20 for the translated code**: the translated checker applied to the root (the model's checker standing for the
checks of the children, as justified by `check_is_generated` at every node below) returns no message exactly for the
trees of the class `WF` of Props/C20 -- those assembled only from well-formed constructs -/
theorem translated_check_accepts_iff_wf (zeal : Nat) (t : Tree) :
    genCheck (recOf zeal) Tree.str (zeal != 0) [] t = .ok [] ↔ Luqum.Props.C20.WF zeal false false t = true := by
  rw [check_is_generated]
  have h := Luqum.Props.C20.checkErrors_nil_iff zeal t []
  simp only [Lemmas.Check.afterField_nil, Lemmas.Check.underOr_nil] at h
  constructor
  · intro e
    exact h.1 (by injection e)
  · intro w
    rw [h.2 w]

theorem check_names_complete : Checks.checkNames.length = 20 := by decide

end Luqum.Props.GenCheck
