/-
  C05 — A query is either refused or translated into an equivalent Elasticsearch query, in boolean
  meaning and in nested meaning.

  SEMANTICS (definitions in `Luqum.Lemmas.EsSem`, re-exported here).
  * Documents (`Obj`): finite trees of nested objects, each labelled by the nested path it
    instantiates, as a list of names (the root: `[]`). `DocWF cfg doc`: the path of a child properly
    extends the path of its parent and no declared nested container (`cfg.nestedPrefixes`, split at
    the dots) lies strictly between the two — i.e. an object at `a.b` sits inside an object at `a`
    whenever `a` is a declared container. (Satisfiable: `doc0` below; a document without nested
    objects `.mk [] []` always is.)
  * `evalJ truth j o`: meaning of the JSON the builder returns, at the object `o`:
    `{"bool": {"must", "should", "must_not"}}`: all must, no must_not, and — when must is empty and
    should is not — some should; `{"nested": {"path": p, "query": q}}`: `q` at the nested path `p`
    (`atPath`: at `o` itself when it instantiates `p`, else at some descendant of `o` that does); any
    other clause is an atom whose truth is `truth o clause`.
  * `denote cfg atom an fp t o`: meaning of the luqum tree, by direct recursion: AND = all, OR = any,
    implicit operation = the configured default, `NOT` / `-` = complement, `+`, groups transparent,
    a field accumulates its name and, when `prefix ++ names[:k]` (longest first) is a declared nested
    container `p`, means "at the nested path `p`"; boost / fuzzy / proximity are transparent on
    compound operands and are part of the atom of a leaf-like operand (`leafItem`: the very `EItem`
    the builder creates, so that atoms coincide); a Lucene-boolean operation (`.op .bool`): `+x`
    required, `-x` / `NOT x` prohibited, the others optional but one of them required when nothing is
    required.
  * Atoms: `zero_terms_query` and `_name` do not take part in the meaning: an atom is a NORMALISED item
    (`norm`: both attributes erased), and `atom : Obj → EItem → Bool` is an ARBITRARY truth assignment
    of the normalised items (`build_meaning_E`). On the JSON side, `truth : Obj → JVal → Bool` has to
    be insensitive to the two attributes (`Insens cfg truth`), and `atom o i := truth o (i.json cfg)`
    (`build_meaning`).

  HYPOTHESES.
  * `SupportedSem cfg t` (decidable): the constructs of C07 (`Supported`), and every operand of a
    Lucene-boolean operation is `+x`, `-x`, `NOT x`, or an expression whose core (below groups,
    fields, boosts, fuzzy / proximity) is neither a conjunction (`AND`, must-like implicit
    operation) nor a unary operator, and is not directly a Lucene-boolean operation. This excludes the
    known findings KF3 (`EBoolOperation.json` merges a grouped `AND` / `+` / `-` / `NOT` operand into
    its own lists) and KF4 (`simplify_if_same` flattens a boolean operation inside a boolean
    operation): NEGATIVE witnesses at the end of the file.
  * `cfgPlain cfg`: no field option asks for a "match type" called `bool` or `nested` (otherwise a
    leaf clause could not be told from a compound clause on the JSON).
  * `DocWF cfg doc` — only needed for skip-nesting (`atPath_skip`), see `skip_needs_wf`.

  THEOREMS. `evalJ_json` (1): meaning of the JSON = meaning of the E-tree. `build_meaning_E`,
  `build_meaning` (2)+(3): main theorem; `build_meaning_flat`: its boolean part (documents without
  nested objects: no hypothesis on the document). Lemmas: `denote_flatten` (flattening same-kind
  operands preserves the meaning), `excludeNested_noop` (`_exclude_nested_children` finds nothing to
  exclude in the builder's own E-trees; in general it does NOT preserve the meaning, see
  `excludeNested_not_sound`), `atPath_skip` (skip-nesting), negation: `denote` of `NOT NOT a` is
  `denote a` by definition, and the main theorem covers it (`dneg` below).
-/
import Luqum.Lemmas.EsSemMain

namespace Luqum.Props.C05
open Luqum Luqum.Lemmas.Es

export Luqum.Lemmas.Es (Obj atPath properPrefix DocWF norm evalE evalAll evalAny evalJ Insens
  nestedCand leafItem denote denoteAll denoteAny reqAll prohAny optAny hasReq hasOpt core mergedCore
  boolOperandOK SupportedSem SupportedSemL cfgPlain)

/-! ### (1) the JSON means what the E-tree means -/

/-- meaning of `e.json cfg` = meaning of `e`, for E-trees whose items have one of the builder's
methods (all the builder's E-trees: `visitS_okItems`) -/
theorem evalJ_json (c : EsCfg) (truth : Obj → JVal → Bool) (hc : cfgPlain c = true) (hI : Insens c truth)
    (e : ETree) (o : Obj) (he : allItems okItem e = true) :
    evalJ truth (e.json c) o = evalE (fun o i => truth o (i.json c)) e o :=
  Lemmas.Es.evalJ_json c truth hc hI e o he

/-! ### (2), (3) the main theorem -/

/-- **C05 on the E-tree**: the E-tree of a supported query means the query, for EVERY truth
assignment `atom` of the normalised leaf clauses and every well-formed document -/
theorem build_meaning_E (c : EsCfg) (atom : Obj → EItem → Bool) (t : Tree) (e : ETree) (doc : Obj)
    (hs : SupportedSem c t = true) (h : esVisit c {} t = .ok [e]) (hd : DocWF c doc = true) :
    evalE atom e doc = denote c atom none none t doc :=
  sem_build c atom t e doc hs (by rw [← esVisit_eq]; exact h) hd

/-- **C05**: when the builder translates a supported query, the JSON it returns means the query: at
every well-formed document, for every truth assignment of the leaf clauses that does not look at
`_name` / `zero_terms_query` -/
theorem build_meaning (c : EsCfg) (t : Tree) (j : JVal) (hc : cfgPlain c = true)
    (hs : SupportedSem c t = true) (h : esBuild c t = .ok j)
    (truth : Obj → JVal → Bool) (hI : Insens c truth) (doc : Obj) (hd : DocWF c doc = true) :
    evalJ truth j doc = denote c (fun o i => truth o (i.json c)) none none t doc := by
  rw [esBuild_eq] at h
  unfold buildS at h
  split at h
  · cases h
  · split at h
    · cases h
    · cases h
    · rename_i e rest hv
      cases h
      obtain ⟨e', he'⟩ := visitS_single c t {} _ (supported_of_sem c t hs) hv
      cases he'
      have hok := visitS_okItems c t {} none _ hv
      simp only [allItemsL, Bool.and_true] at hok
      rw [Lemmas.Es.evalJ_json c truth hc hI e doc hok]
      exact sem_build c _ t e doc hs hv hd

/-- the boolean part: on a document without nested objects (no hypothesis on the document) -/
theorem build_meaning_flat (c : EsCfg) (t : Tree) (j : JVal) (hc : cfgPlain c = true)
    (hs : SupportedSem c t = true) (h : esBuild c t = .ok j)
    (truth : Obj → JVal → Bool) (hI : Insens c truth) :
    evalJ truth j (.mk [] []) = denote c (fun o i => truth o (i.json c)) none none t (.mk [] []) :=
  build_meaning c t j hc hs h truth hI (.mk [] []) rfl

/-- refused or equivalent: on supported queries (C07: refused exactly on misuse / mix) -/
theorem reject_or_equivalent (c : EsCfg) (t : Tree) (hc : cfgPlain c = true) (hs : SupportedSem c t = true) :
    (∃ e, esBuild c t = .error e) ∨
    (∃ j, esBuild c t = .ok j ∧ ∀ truth, Insens c truth → ∀ doc, DocWF c doc = true →
      evalJ truth j doc = denote c (fun o i => truth o (i.json c)) none none t doc) := by
  cases h : esBuild c t with
  | error e => exact .inl ⟨e, rfl⟩
  | ok j => exact .inr ⟨j, rfl, fun truth hI doc hd => build_meaning c t j hc hs h truth hI doc hd⟩

/-! ### the lemmas -/

/-- flattening of same-kind operands preserves the meaning -/
theorem denote_flatten (c : EsCfg) (atom : Obj → EItem → Bool) (an : Option Bool) (fp : Option (List Str))
    (k : OpK) (hk : k ≠ .bool) (xs ys zs : List Tree) (l l' : Lay) (o : Obj) :
    denote c atom an fp (.op k (xs ++ .op k ys l' :: zs) l) o =
    denote c atom an fp (.op k (xs ++ ys ++ zs) l) o :=
  Lemmas.Es.denote_flatten c atom an fp k hk xs ys zs l l' o

/-- `_exclude_nested_children` changes nothing in the E-trees the builder wraps -/
theorem excludeNested_noop (c : EsCfg) (x : EsCtx) (n : Str) (e : Tree) (l : Lay) (en : ETree) (p : Str)
    (hx : CtxOK x) (h : esVisit c (fieldCtx c x n e l) e = .ok [en])
    (hcand : nestedCand c x.fieldPrefix n = some p) : excludeNested p en = en :=
  Lemmas.Es.excludeNested_noop c x n e l en p hx (by rw [← esVisit_eq]; exact h) hcand

/-- inside the evaluation of `nested p`, a `nested p` is evaluated at the same object -/
theorem atPath_idem (p : Str) (o : Obj) (f : Obj → Bool) (h : o.path = splitOnChar '.' p) :
    atPath p o f = f o := atPath_self p o f h

/-- skip-nesting: from an object above the declared container `p`, "some object at `p` has below it
an object at the deeper path `p'` satisfying `g`" is "some object at `p'` satisfies `g`" -/
theorem atPath_skip {decl : List (List Str)} (o : Obj) (p p' : Str) (g : Obj → Bool)
    (hwf : o.wf decl = true)
    (h1 : properPrefix o.path (splitOnChar '.' p) = true)
    (h2 : properPrefix (splitOnChar '.' p) (splitOnChar '.' p') = true)
    (hd : splitOnChar '.' p ∈ decl) :
    atPath p o (fun o' => atPath p' o' g) = atPath p' o g :=
  Lemmas.Es.atPath_skip o p p' g hwf h1 h2 hd

/-! ### truth assignments that do not look at `_name` / `zero_terms_query` exist -/

theorem clauseKey_norm (c : EsCfg) (i : EItem) : clauseKey ((norm i).json c) = clauseKey (i.json c) := by
  have key : ∀ i : EItem, clauseKey (i.json c) =
      if (i.kind == .word && i.q == some ['*']) = true then "exists".toList else i.method c := by
    intro i
    unfold EItem.json
    extract_lets field nameKv
    split
    · rfl
    · split <;> rfl
  rw [key, key]; rfl

/-- any truth assignment that only looks at the kind of clause (its key) is insensitive -/
theorem insens_of_key (c : EsCfg) (f : Obj → Str → Bool) : Insens c (fun o j => f o (clauseKey j)) :=
  fun o i => by simp only [clauseKey_norm]

/-- (kept from the stub stage; referenced by earlier evidence files) -/
theorem normalizeObject_none : normalizeObject .none = none := rfl

/-! ### non-vacuity -/

section Examples

private def w (s : String) : Tree := .term .word s.toList {}

/-- nested `author` (with `name`) and, inside it, nested `author.book` (with `title`) -/
private def cfg : EsCfg :=
  { nested := .dict [("author".toList, .dict [("name".toList, .none),
                      ("book".toList, .list ["title".toList])])] }

example : cfg.nestedPrefixes = ["author".toList, "author.book".toList] := by decide
example : cfgPlain cfg = true := by decide

/-- a document with two authors, the first with two books, the second with none -/
private def doc0 : Obj :=
  .mk [] [.mk ["author".toList] [.mk ["author".toList, "book".toList] [],
                                 .mk ["author".toList, "book".toList] []],
          .mk ["author".toList] []]

example : DocWF cfg doc0 = true := by decide
/-- a book directly below the root is not well-formed: `author` is a declared container -/
example : DocWF cfg (.mk [] [.mk ["author".toList, "book".toList] []]) = false := by decide

/-- `author:(name:a AND book.title:"b c"~2) (x OR NOT NOT y)^2 -(z~1) author.book.title:t` with
the default operator OR, and a Lucene-boolean operation `+u v -f:w` in a group -/
private def q0 : Tree :=
  .op .unk [
    .field "author".toList (.group .fieldGroup (.op .and [
        .field "name".toList (w "a") {},
        .field "book.title".toList (.approx .proximity (.term .phrase "\"b c\"".toList {}) {} {}) {}] {}) {}) {},
    .boost (.group .group (.op .or [w "x", .unary .not (.unary .not (w "y") {}) {}] {}) {}) {} {},
    .unary .prohibit (.group .group (.approx .fuzzy (w "z") {} {}) {}) {},
    .field "author.book.title".toList (w "t") {},
    .group .group (.op .bool [.unary .plus (w "u") {}, w "v",
                              .unary .prohibit (.field "f".toList (w "w") {}) {}] {}) {}] {}

example : SupportedSem cfg q0 = true := by decide
example : (match esBuild cfg q0 with | .ok _ => true | _ => false) = true := by rw [esBuild_eq]; decide

/-- a truth assignment that looks at the words of the clause: the object `o` "contains" the words of
`ws o` -/
private def queryOf : JVal → Option Str
  | .obj [(_, .obj [(_, .obj kvs)])] =>
    (match jget kvs "query".toList with
     | some (.str q) => some q
     | _ => match jget kvs "value".toList with
       | some (.str q) => some q
       | _ => none)
  | _ => none
private def truthW (ws : Obj → List Str) : Obj → JVal → Bool :=
  fun o j => match queryOf j with | some q => (ws o).contains q | none => false

/-- the first author has name `a`; her second book has title `b c`; nothing else is true -/
private def ws0 : Obj → List Str := fun o =>
  if o.path == ["author".toList] && o.kids.length == 2 then ["a".toList]
  else if o.path == ["author".toList, "book".toList] then ["b c".toList]
  else []

/-- the two sides of the theorem, computed on this instance (here for a truth assignment that is
not covered by `insens_of_key`; the theorem itself is instantiated below) -/
example : (match buildS cfg q0 with | .ok j => some (evalJ (truthW ws0) j doc0) | _ => none) = some true := by
  decide
example : denote cfg (fun o i => truthW ws0 o (i.json cfg)) none none q0 doc0 = true := by decide

/-- the main theorem instantiated: all hypotheses hold for `cfg`, `q0`, `doc0` and a key-based truth -/
example (j : JVal) (h : esBuild cfg q0 = .ok j) (f : Obj → Str → Bool) :
    evalJ (fun o j => f o (clauseKey j)) j doc0 =
    denote cfg (fun o i => f o (clauseKey (i.json cfg))) none none q0 doc0 :=
  build_meaning cfg q0 j (by decide) (by decide) h _ (insens_of_key cfg f) doc0 (by decide)

/-- negation is never dropped: `NOT NOT a` means `a`, `NOT a` means its complement -/
private def dneg : Tree := .unary .not (.unary .not (w "a") {}) {}
example : (match buildS {} dneg with
    | .ok j => some (evalJ (truthW fun _ => ["a".toList]) j (.mk [] []), evalJ (truthW fun _ => []) j (.mk [] []))
    | _ => none) = some (true, false) := by decide
example (atom : Obj → EItem → Bool) (o : Obj) :
    denote {} atom none none dneg o = denote {} atom none none (w "a") o := by
  simp [dneg, denote]

/-! ### NEGATIVE witnesses: the excluded known findings -/

private def flat : Obj := .mk [] []
private def evalBuilt (c : EsCfg) (t : Tree) (ws : List Str) : Option Bool :=
  match buildS c t with
  | .ok j => some (evalJ (truthW fun _ => ws) j flat)
  | _ => none
private def evalTree (c : EsCfg) (t : Tree) (ws : List Str) : Bool :=
  denote c (fun o i => truthW (fun _ => ws) o (i.json c)) none none t flat

/-- KF3: `a (NOT b)` — the grouped negation is merged into `must_not` of the enclosing boolean
operation: with `a` and `b` false the query is true (`NOT b` holds), the JSON is false -/
private def kf3 : Tree := .op .bool [w "a", .group .group (.unary .not (w "b") {}) {}] {}
example : SupportedSem {} kf3 = false ∧ Supported kf3 = true := by decide
example : evalBuilt {} kf3 [] = some false ∧ evalTree {} kf3 [] = true := by decide

/-- KF3 with a grouped conjunction: `a (b AND c)` with only `a` true -/
private def kf3' : Tree := .op .bool [w "a", .group .group (.op .and [w "b", w "c"] {}) {}] {}
example : SupportedSem {} kf3' = false ∧
    evalBuilt {} kf3' ["a".toList] = some false ∧ evalTree {} kf3' ["a".toList] = true := by decide

/-- KF4: a boolean operation directly inside a boolean operation is flattened: `a [+b c]` with only
`a` true -/
private def kf4 : Tree := .op .bool [w "a", .op .bool [.unary .plus (w "b") {}, w "c"] {}] {}
example : SupportedSem {} kf4 = false ∧ Supported kf4 = true ∧
    evalBuilt {} kf4 ["a".toList] = some false ∧ evalTree {} kf4 ["a".toList] = true := by decide
/-- grouped, the inner boolean operation is kept: supported, and equivalent -/
private def kf4g : Tree := .op .bool [w "a", .group .group (.op .bool [.unary .plus (w "b") {}, w "c"] {}) {}] {}
example : SupportedSem {} kf4g = true ∧
    evalBuilt {} kf4g ["a".toList] = some true ∧ evalTree {} kf4g ["a".toList] = true := by decide

/-- `_exclude_nested_children` is NOT meaning-preserving on arbitrary E-trees: stripping a
`nested p` around an `EMust` inside an `EBoolOperation` moves its clauses to `must`. (It never
happens in the builder's own E-trees: `excludeNested_noop`.) -/
private def itemOf (s : String) : EItem := { kind := .word, q := some s.toList, method0 := "match".toList }
private def eBad : ETree :=
  .op .boolOp [.item (itemOf "a"), .nested "p".toList (.op .must [.item (itemOf "b")]) none]
private def atomW (ws : List Str) : Obj → EItem → Bool := fun _ i => ws.contains (i.q.getD [])
theorem excludeNested_not_sound :
    evalE (atomW ["a".toList]) eBad (.mk ["p".toList] []) = true ∧
    evalE (atomW ["a".toList]) (excludeNested "p".toList eBad) (.mk ["p".toList] []) = false := by decide

/-- skip-nesting needs well-formed documents: a book directly below the root is found by
`nested author.book` but not through `nested author` -/
theorem skip_needs_wf :
    let bad : Obj := .mk [] [.mk ["author".toList, "book".toList] []]
    atPath "author.book".toList bad (fun _ => true) = true ∧
    atPath "author".toList bad (fun o' => atPath "author.book".toList o' (fun _ => true)) = false := by
  decide

end Examples

end Luqum.Props.C05
