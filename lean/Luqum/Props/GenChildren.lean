/-
  Translator obligations (G14): the `children` property.

  `Luqum/Generated/Children.lean` is produced on every run by symbolic execution (tools/pysym.py) of the `children`
  getter and setter of every concrete class of `luqum.tree` (`Item.children` over `_children_attrs`, the override of
  `BaseOperation` over `operands`): which attributes are the children and in which order, and what assigning a list
  of 0, 1, 2 or 3 items (any list for the operations) does -- the node with the new children, or the `ValueError` of
  the generic setter. The theorems say that the model's `Tree.children` and `Tree.setChildren` (`none` = `ValueError`)
  are exactly these functions.
-/
import Luqum.Generated.Children

namespace Luqum.Props.GenChildren
open Luqum Generated

/-- the model's reading of the setter's outcome -/
def liftOpt : Except PyErr Tree → Option Tree
  | .ok t => some t
  | .error _ => none

theorem mkNum_self (n : Num) : PyPrim.mkNum n n.implicit = n := by cases n; rfl

theorem gen_children_Word (v : Str) (l : Lay) (v0 v1 v2 : Tree) :
    Children.children_Word v l = .ok (Tree.term .word v l).children ∧
    liftOpt (Children.set_children_Word_0 v l ) = (Tree.term .word v l).setChildren [] ∧
    liftOpt (Children.set_children_Word_1 v l v0) = (Tree.term .word v l).setChildren [v0] ∧
    liftOpt (Children.set_children_Word_2 v l v0 v1) = (Tree.term .word v l).setChildren [v0, v1] ∧
    liftOpt (Children.set_children_Word_3 v l v0 v1 v2) = (Tree.term .word v l).setChildren [v0, v1, v2] := by
  simp [Children.children_Word, Children.set_children_Word_0, Children.set_children_Word_1, Children.set_children_Word_2, Children.set_children_Word_3, liftOpt, Tree.children, Tree.setChildren]

theorem gen_children_Phrase (v : Str) (l : Lay) (v0 v1 v2 : Tree) :
    Children.children_Phrase v l = .ok (Tree.term .phrase v l).children ∧
    liftOpt (Children.set_children_Phrase_0 v l ) = (Tree.term .phrase v l).setChildren [] ∧
    liftOpt (Children.set_children_Phrase_1 v l v0) = (Tree.term .phrase v l).setChildren [v0] ∧
    liftOpt (Children.set_children_Phrase_2 v l v0 v1) = (Tree.term .phrase v l).setChildren [v0, v1] ∧
    liftOpt (Children.set_children_Phrase_3 v l v0 v1 v2) = (Tree.term .phrase v l).setChildren [v0, v1, v2] := by
  simp [Children.children_Phrase, Children.set_children_Phrase_0, Children.set_children_Phrase_1, Children.set_children_Phrase_2, Children.set_children_Phrase_3, liftOpt, Tree.children, Tree.setChildren]

theorem gen_children_Regex (v : Str) (l : Lay) (v0 v1 v2 : Tree) :
    Children.children_Regex v l = .ok (Tree.term .regex v l).children ∧
    liftOpt (Children.set_children_Regex_0 v l ) = (Tree.term .regex v l).setChildren [] ∧
    liftOpt (Children.set_children_Regex_1 v l v0) = (Tree.term .regex v l).setChildren [v0] ∧
    liftOpt (Children.set_children_Regex_2 v l v0 v1) = (Tree.term .regex v l).setChildren [v0, v1] ∧
    liftOpt (Children.set_children_Regex_3 v l v0 v1 v2) = (Tree.term .regex v l).setChildren [v0, v1, v2] := by
  simp [Children.children_Regex, Children.set_children_Regex_0, Children.set_children_Regex_1, Children.set_children_Regex_2, Children.set_children_Regex_3, liftOpt, Tree.children, Tree.setChildren]

theorem gen_children_NoneItem (l : Lay) (v0 v1 v2 : Tree) :
    Children.children_NoneItem l = .ok (Tree.none l).children ∧
    liftOpt (Children.set_children_NoneItem_0 l ) = (Tree.none l).setChildren [] ∧
    liftOpt (Children.set_children_NoneItem_1 l v0) = (Tree.none l).setChildren [v0] ∧
    liftOpt (Children.set_children_NoneItem_2 l v0 v1) = (Tree.none l).setChildren [v0, v1] ∧
    liftOpt (Children.set_children_NoneItem_3 l v0 v1 v2) = (Tree.none l).setChildren [v0, v1, v2] := by
  simp [Children.children_NoneItem, Children.set_children_NoneItem_0, Children.set_children_NoneItem_1, Children.set_children_NoneItem_2, Children.set_children_NoneItem_3, liftOpt, Tree.children, Tree.setChildren]

theorem gen_children_SearchField (n : Str) (e : Tree) (l : Lay) (v0 v1 v2 : Tree) :
    Children.children_SearchField n e l = .ok (Tree.field n e l).children ∧
    liftOpt (Children.set_children_SearchField_0 n e l ) = (Tree.field n e l).setChildren [] ∧
    liftOpt (Children.set_children_SearchField_1 n e l v0) = (Tree.field n e l).setChildren [v0] ∧
    liftOpt (Children.set_children_SearchField_2 n e l v0 v1) = (Tree.field n e l).setChildren [v0, v1] ∧
    liftOpt (Children.set_children_SearchField_3 n e l v0 v1 v2) = (Tree.field n e l).setChildren [v0, v1, v2] := by
  simp [Children.children_SearchField, Children.set_children_SearchField_0, Children.set_children_SearchField_1, Children.set_children_SearchField_2, Children.set_children_SearchField_3, liftOpt, Tree.children, Tree.setChildren]

theorem gen_children_Group (e : Tree) (l : Lay) (v0 v1 v2 : Tree) :
    Children.children_Group e l = .ok (Tree.group .group e l).children ∧
    liftOpt (Children.set_children_Group_0 e l ) = (Tree.group .group e l).setChildren [] ∧
    liftOpt (Children.set_children_Group_1 e l v0) = (Tree.group .group e l).setChildren [v0] ∧
    liftOpt (Children.set_children_Group_2 e l v0 v1) = (Tree.group .group e l).setChildren [v0, v1] ∧
    liftOpt (Children.set_children_Group_3 e l v0 v1 v2) = (Tree.group .group e l).setChildren [v0, v1, v2] := by
  simp [Children.children_Group, Children.set_children_Group_0, Children.set_children_Group_1, Children.set_children_Group_2, Children.set_children_Group_3, liftOpt, Tree.children, Tree.setChildren]

theorem gen_children_FieldGroup (e : Tree) (l : Lay) (v0 v1 v2 : Tree) :
    Children.children_FieldGroup e l = .ok (Tree.group .fieldGroup e l).children ∧
    liftOpt (Children.set_children_FieldGroup_0 e l ) = (Tree.group .fieldGroup e l).setChildren [] ∧
    liftOpt (Children.set_children_FieldGroup_1 e l v0) = (Tree.group .fieldGroup e l).setChildren [v0] ∧
    liftOpt (Children.set_children_FieldGroup_2 e l v0 v1) = (Tree.group .fieldGroup e l).setChildren [v0, v1] ∧
    liftOpt (Children.set_children_FieldGroup_3 e l v0 v1 v2) = (Tree.group .fieldGroup e l).setChildren [v0, v1, v2] := by
  simp [Children.children_FieldGroup, Children.set_children_FieldGroup_0, Children.set_children_FieldGroup_1, Children.set_children_FieldGroup_2, Children.set_children_FieldGroup_3, liftOpt, Tree.children, Tree.setChildren]

theorem gen_children_Fuzzy (e : Tree) (n : Num) (l : Lay) (v0 v1 v2 : Tree) :
    Children.children_Fuzzy e n l = .ok (Tree.approx .fuzzy e n l).children ∧
    liftOpt (Children.set_children_Fuzzy_0 e n l ) = (Tree.approx .fuzzy e n l).setChildren [] ∧
    liftOpt (Children.set_children_Fuzzy_1 e n l v0) = (Tree.approx .fuzzy e n l).setChildren [v0] ∧
    liftOpt (Children.set_children_Fuzzy_2 e n l v0 v1) = (Tree.approx .fuzzy e n l).setChildren [v0, v1] ∧
    liftOpt (Children.set_children_Fuzzy_3 e n l v0 v1 v2) = (Tree.approx .fuzzy e n l).setChildren [v0, v1, v2] := by
  simp [Children.children_Fuzzy, Children.set_children_Fuzzy_0, Children.set_children_Fuzzy_1, Children.set_children_Fuzzy_2, Children.set_children_Fuzzy_3, liftOpt, Tree.children, Tree.setChildren, mkNum_self]

theorem gen_children_Proximity (e : Tree) (n : Num) (l : Lay) (v0 v1 v2 : Tree) :
    Children.children_Proximity e n l = .ok (Tree.approx .proximity e n l).children ∧
    liftOpt (Children.set_children_Proximity_0 e n l ) = (Tree.approx .proximity e n l).setChildren [] ∧
    liftOpt (Children.set_children_Proximity_1 e n l v0) = (Tree.approx .proximity e n l).setChildren [v0] ∧
    liftOpt (Children.set_children_Proximity_2 e n l v0 v1) = (Tree.approx .proximity e n l).setChildren [v0, v1] ∧
    liftOpt (Children.set_children_Proximity_3 e n l v0 v1 v2) = (Tree.approx .proximity e n l).setChildren [v0, v1, v2] := by
  simp [Children.children_Proximity, Children.set_children_Proximity_0, Children.set_children_Proximity_1, Children.set_children_Proximity_2, Children.set_children_Proximity_3, liftOpt, Tree.children, Tree.setChildren, mkNum_self]

theorem gen_children_Boost (e : Tree) (n : Num) (l : Lay) (v0 v1 v2 : Tree) :
    Children.children_Boost e n l = .ok (Tree.boost e n l).children ∧
    liftOpt (Children.set_children_Boost_0 e n l ) = (Tree.boost e n l).setChildren [] ∧
    liftOpt (Children.set_children_Boost_1 e n l v0) = (Tree.boost e n l).setChildren [v0] ∧
    liftOpt (Children.set_children_Boost_2 e n l v0 v1) = (Tree.boost e n l).setChildren [v0, v1] ∧
    liftOpt (Children.set_children_Boost_3 e n l v0 v1 v2) = (Tree.boost e n l).setChildren [v0, v1, v2] := by
  simp [Children.children_Boost, Children.set_children_Boost_0, Children.set_children_Boost_1, Children.set_children_Boost_2, Children.set_children_Boost_3, liftOpt, Tree.children, Tree.setChildren, mkNum_self]

theorem gen_children_Plus (e : Tree) (l : Lay) (v0 v1 v2 : Tree) :
    Children.children_Plus e l = .ok (Tree.unary .plus e l).children ∧
    liftOpt (Children.set_children_Plus_0 e l ) = (Tree.unary .plus e l).setChildren [] ∧
    liftOpt (Children.set_children_Plus_1 e l v0) = (Tree.unary .plus e l).setChildren [v0] ∧
    liftOpt (Children.set_children_Plus_2 e l v0 v1) = (Tree.unary .plus e l).setChildren [v0, v1] ∧
    liftOpt (Children.set_children_Plus_3 e l v0 v1 v2) = (Tree.unary .plus e l).setChildren [v0, v1, v2] := by
  simp [Children.children_Plus, Children.set_children_Plus_0, Children.set_children_Plus_1, Children.set_children_Plus_2, Children.set_children_Plus_3, liftOpt, Tree.children, Tree.setChildren]

theorem gen_children_Not (e : Tree) (l : Lay) (v0 v1 v2 : Tree) :
    Children.children_Not e l = .ok (Tree.unary .not e l).children ∧
    liftOpt (Children.set_children_Not_0 e l ) = (Tree.unary .not e l).setChildren [] ∧
    liftOpt (Children.set_children_Not_1 e l v0) = (Tree.unary .not e l).setChildren [v0] ∧
    liftOpt (Children.set_children_Not_2 e l v0 v1) = (Tree.unary .not e l).setChildren [v0, v1] ∧
    liftOpt (Children.set_children_Not_3 e l v0 v1 v2) = (Tree.unary .not e l).setChildren [v0, v1, v2] := by
  simp [Children.children_Not, Children.set_children_Not_0, Children.set_children_Not_1, Children.set_children_Not_2, Children.set_children_Not_3, liftOpt, Tree.children, Tree.setChildren]

theorem gen_children_Prohibit (e : Tree) (l : Lay) (v0 v1 v2 : Tree) :
    Children.children_Prohibit e l = .ok (Tree.unary .prohibit e l).children ∧
    liftOpt (Children.set_children_Prohibit_0 e l ) = (Tree.unary .prohibit e l).setChildren [] ∧
    liftOpt (Children.set_children_Prohibit_1 e l v0) = (Tree.unary .prohibit e l).setChildren [v0] ∧
    liftOpt (Children.set_children_Prohibit_2 e l v0 v1) = (Tree.unary .prohibit e l).setChildren [v0, v1] ∧
    liftOpt (Children.set_children_Prohibit_3 e l v0 v1 v2) = (Tree.unary .prohibit e l).setChildren [v0, v1, v2] := by
  simp [Children.children_Prohibit, Children.set_children_Prohibit_0, Children.set_children_Prohibit_1, Children.set_children_Prohibit_2, Children.set_children_Prohibit_3, liftOpt, Tree.children, Tree.setChildren]

theorem gen_children_From (e : Tree) (i : Bool) (l : Lay) (v0 v1 v2 : Tree) :
    Children.children_From e i l = .ok (Tree.orange .from e i l).children ∧
    liftOpt (Children.set_children_From_0 e i l ) = (Tree.orange .from e i l).setChildren [] ∧
    liftOpt (Children.set_children_From_1 e i l v0) = (Tree.orange .from e i l).setChildren [v0] ∧
    liftOpt (Children.set_children_From_2 e i l v0 v1) = (Tree.orange .from e i l).setChildren [v0, v1] ∧
    liftOpt (Children.set_children_From_3 e i l v0 v1 v2) = (Tree.orange .from e i l).setChildren [v0, v1, v2] := by
  simp [Children.children_From, Children.set_children_From_0, Children.set_children_From_1, Children.set_children_From_2, Children.set_children_From_3, liftOpt, Tree.children, Tree.setChildren]

theorem gen_children_To (e : Tree) (i : Bool) (l : Lay) (v0 v1 v2 : Tree) :
    Children.children_To e i l = .ok (Tree.orange .to e i l).children ∧
    liftOpt (Children.set_children_To_0 e i l ) = (Tree.orange .to e i l).setChildren [] ∧
    liftOpt (Children.set_children_To_1 e i l v0) = (Tree.orange .to e i l).setChildren [v0] ∧
    liftOpt (Children.set_children_To_2 e i l v0 v1) = (Tree.orange .to e i l).setChildren [v0, v1] ∧
    liftOpt (Children.set_children_To_3 e i l v0 v1 v2) = (Tree.orange .to e i l).setChildren [v0, v1, v2] := by
  simp [Children.children_To, Children.set_children_To_0, Children.set_children_To_1, Children.set_children_To_2, Children.set_children_To_3, liftOpt, Tree.children, Tree.setChildren]

theorem gen_children_Range (a b : Tree) (il ih : Bool) (l : Lay) (v0 v1 v2 : Tree) :
    Children.children_Range a b il ih l = .ok (Tree.range a b il ih l).children ∧
    liftOpt (Children.set_children_Range_0 a b il ih l ) = (Tree.range a b il ih l).setChildren [] ∧
    liftOpt (Children.set_children_Range_1 a b il ih l v0) = (Tree.range a b il ih l).setChildren [v0] ∧
    liftOpt (Children.set_children_Range_2 a b il ih l v0 v1) = (Tree.range a b il ih l).setChildren [v0, v1] ∧
    liftOpt (Children.set_children_Range_3 a b il ih l v0 v1 v2) = (Tree.range a b il ih l).setChildren [v0, v1, v2] := by
  simp [Children.children_Range, Children.set_children_Range_0, Children.set_children_Range_1, Children.set_children_Range_2, Children.set_children_Range_3, liftOpt, Tree.children, Tree.setChildren]

theorem gen_children_AndOperation (xs : List Tree) (l : Lay) (v0 v1 v2 : Tree) (vs : List Tree) :
    Children.children_AndOperation xs l = .ok (Tree.op .and xs l).children ∧
    liftOpt (Children.set_children_AndOperation_0 xs l ) = (Tree.op .and xs l).setChildren [] ∧
    liftOpt (Children.set_children_AndOperation_1 xs l v0) = (Tree.op .and xs l).setChildren [v0] ∧
    liftOpt (Children.set_children_AndOperation_2 xs l v0 v1) = (Tree.op .and xs l).setChildren [v0, v1] ∧
    liftOpt (Children.set_children_AndOperation_3 xs l v0 v1 v2) = (Tree.op .and xs l).setChildren [v0, v1, v2] ∧
    liftOpt (Children.set_children_AndOperation_n xs l vs) = (Tree.op .and xs l).setChildren vs := by
  simp [Children.children_AndOperation, Children.set_children_AndOperation_0, Children.set_children_AndOperation_1, Children.set_children_AndOperation_2, Children.set_children_AndOperation_3, Children.set_children_AndOperation_n, liftOpt, Tree.children, Tree.setChildren]

theorem gen_children_OrOperation (xs : List Tree) (l : Lay) (v0 v1 v2 : Tree) (vs : List Tree) :
    Children.children_OrOperation xs l = .ok (Tree.op .or xs l).children ∧
    liftOpt (Children.set_children_OrOperation_0 xs l ) = (Tree.op .or xs l).setChildren [] ∧
    liftOpt (Children.set_children_OrOperation_1 xs l v0) = (Tree.op .or xs l).setChildren [v0] ∧
    liftOpt (Children.set_children_OrOperation_2 xs l v0 v1) = (Tree.op .or xs l).setChildren [v0, v1] ∧
    liftOpt (Children.set_children_OrOperation_3 xs l v0 v1 v2) = (Tree.op .or xs l).setChildren [v0, v1, v2] ∧
    liftOpt (Children.set_children_OrOperation_n xs l vs) = (Tree.op .or xs l).setChildren vs := by
  simp [Children.children_OrOperation, Children.set_children_OrOperation_0, Children.set_children_OrOperation_1, Children.set_children_OrOperation_2, Children.set_children_OrOperation_3, Children.set_children_OrOperation_n, liftOpt, Tree.children, Tree.setChildren]

theorem gen_children_UnknownOperation (xs : List Tree) (l : Lay) (v0 v1 v2 : Tree) (vs : List Tree) :
    Children.children_UnknownOperation xs l = .ok (Tree.op .unk xs l).children ∧
    liftOpt (Children.set_children_UnknownOperation_0 xs l ) = (Tree.op .unk xs l).setChildren [] ∧
    liftOpt (Children.set_children_UnknownOperation_1 xs l v0) = (Tree.op .unk xs l).setChildren [v0] ∧
    liftOpt (Children.set_children_UnknownOperation_2 xs l v0 v1) = (Tree.op .unk xs l).setChildren [v0, v1] ∧
    liftOpt (Children.set_children_UnknownOperation_3 xs l v0 v1 v2) = (Tree.op .unk xs l).setChildren [v0, v1, v2] ∧
    liftOpt (Children.set_children_UnknownOperation_n xs l vs) = (Tree.op .unk xs l).setChildren vs := by
  simp [Children.children_UnknownOperation, Children.set_children_UnknownOperation_0, Children.set_children_UnknownOperation_1, Children.set_children_UnknownOperation_2, Children.set_children_UnknownOperation_3, Children.set_children_UnknownOperation_n, liftOpt, Tree.children, Tree.setChildren]

theorem gen_children_BoolOperation (xs : List Tree) (l : Lay) (v0 v1 v2 : Tree) (vs : List Tree) :
    Children.children_BoolOperation xs l = .ok (Tree.op .bool xs l).children ∧
    liftOpt (Children.set_children_BoolOperation_0 xs l ) = (Tree.op .bool xs l).setChildren [] ∧
    liftOpt (Children.set_children_BoolOperation_1 xs l v0) = (Tree.op .bool xs l).setChildren [v0] ∧
    liftOpt (Children.set_children_BoolOperation_2 xs l v0 v1) = (Tree.op .bool xs l).setChildren [v0, v1] ∧
    liftOpt (Children.set_children_BoolOperation_3 xs l v0 v1 v2) = (Tree.op .bool xs l).setChildren [v0, v1, v2] ∧
    liftOpt (Children.set_children_BoolOperation_n xs l vs) = (Tree.op .bool xs l).setChildren vs := by
  simp [Children.children_BoolOperation, Children.set_children_BoolOperation_0, Children.set_children_BoolOperation_1, Children.set_children_BoolOperation_2, Children.set_children_BoolOperation_3, Children.set_children_BoolOperation_n, liftOpt, Tree.children, Tree.setChildren]

/-- every getter and setter situation was translated -/
theorem children_names_complete : Children.childrenNames.length = 20 * 5 + 4 := by decide

end Luqum.Props.GenChildren
