/-
  Translator obligations (G8): the two wrapper functions through which users reach the LR driver are what the model
  assumes them to be. The model's `parse` (Model/ParserInst.lean) is the driver on the lexed input and
  `Model/Stateful.lean` / `Model/Threads.lean` give each thread its own lexer state (a clone made on first use);
  neither has any other behaviour of its own. `tools/translate.py` reads the bodies of `luqum.parser.parse` and
  `luqum.thread.parse` from /repo's working tree on every run (Luqum/Generated/Glue.lean).
  A wrapper that starts to do something (memoise, normalise the input, reset the shared parser after an error …)
  no longer matches: the obligation breaks and the check searches for a failing input.
-/
import Luqum.Generated.Glue

namespace Luqum.Props.GenGlue
open Luqum

/-- `luqum.parser.parse` hands its arguments to PLY's `LRParser.parse` unchanged, with the module lexer as default -/
theorem parser_parse_is_pass_through :
    Generated.parseWrapperArgs = "input=None, lexer=lexer, debug=False, tracking=False, tokenfunc=None" ∧
    Generated.parseWrapperBody =
      ["return _orig_parse(input=input, lexer=lexer, debug=debug, tracking=tracking, tokenfunc=tokenfunc)"] ∧
    Generated.parseWrapperInstalled = true := by decide

/-- `luqum.thread.parse` clones the module lexer once per thread and parses with that clone, nothing else -/
theorem thread_parse_is_clone_per_thread :
    Generated.threadParseArgs = "input=None, lexer=None, debug=False, tracking=False" ∧
    Generated.threadParseBody =
      ["if not hasattr(thread_local, 'lexer'):\n    thread_local.lexer = parser.lexer.clone()",
       "return parser.parser.parse(input, lexer=thread_local.lexer)"] := by decide

end Luqum.Props.GenGlue
