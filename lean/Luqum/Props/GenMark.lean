/-
  Translator obligations (G18): `HTMLMarker.mark_node` (luqum/naming.py), the decision C17's "class of the innermost
  marked sub-expression" and "parsimonious mode" clauses rest on.

  `Luqum/Generated/Marker.lean` is produced on every run by symbolic execution (tools/pysym.py) of
  `HTMLMarker.mark_node(node, path, paths_ok, paths_ko, parcimonious)` with the marker's three strings, the two path
  sets, the path, the mode and the layout of the node as variables. The method contains a `while` loop (the search for
  the nearest ancestor that has a class); a loop over values of unknown size is not unrolled:
  * `mark_node` takes the effect of the loop on the two variables it assigns as a parameter `loop0`;
  * `mark_node_loop0` is the translation of ONE iteration from an arbitrary state: `none` when the test
    `parent_class is None and parent_path` fails, `some state'` after the body.
  The theorems: iterating the translated iteration `path.length + 1` times from the entry state reaches a state where
  the test fails (`loop_terminates`: the python loop terminates, and this is the state it ends in); the class found
  is the model's `parentClass` (`loop_is_parentClass`); with that loop, the translated method is the model's `markLay`
  (`markLay_is_generated`).
-/
import Luqum.Generated.Marker
import Luqum.Model.Naming

namespace Luqum.Props.GenMark
open Luqum Generated

/-- the translated iteration, repeated at most `fuel` times, stopping when the test of the loop fails -/
def iterLoop (okc koc el : Str) (ok ko : List (List Nat)) : Nat → Option Str × List Nat → Option Str × List Nat
  | 0, s => s
  | fuel + 1, s =>
    match Marker.mark_node_loop0 okc koc el ok ko s.1 s.2 with
    | .ok (some s') => iterLoop okc koc el ok ko fuel s'
    | _ => s

/-- the translated iteration never raises -/
theorem loop0_ok (okc koc el : Str) (ok ko : List (List Nat)) (pc : Option Str) (pp : List Nat) :
    ∃ r, Marker.mark_node_loop0 okc koc el ok ko pc pp = .ok r := by
  unfold Marker.mark_node_loop0
  cases pc with
  | some x => exact ⟨_, rfl⟩
  | none =>
    by_cases h : pp = []
    · simp [h]
    · by_cases h1 : pp.dropLast ∈ ok
      · simp [h, h1]
      · by_cases h2 : pp.dropLast ∈ ko
        · simp [h, h1, h2]
        · simp [h, h1, h2]

/-- one iteration shortens the path by one -/
theorem loop0_shorter (okc koc el : Str) (ok ko : List (List Nat)) (pc : Option Str) (pp : List Nat)
    (s' : Option Str × List Nat) (h : Marker.mark_node_loop0 okc koc el ok ko pc pp = .ok (some s')) :
    s'.2.length + 1 = pp.length := by
  unfold Marker.mark_node_loop0 at h
  cases pc with
  | some x => simp at h
  | none =>
    by_cases hp : pp = []
    · simp [hp] at h
    · have hl : pp.dropLast.length + 1 = pp.length := by
        have := List.length_pos_iff.2 hp
        simp; omega
      by_cases h1 : pp.dropLast ∈ ok
      · simp [hp, h1] at h; subst h; simpa using hl
      · by_cases h2 : pp.dropLast ∈ ko
        · simp [hp, h1, h2] at h; subst h; simpa using hl
        · simp [hp, h1, h2] at h; subst h; simpa using hl

/-- **the loop terminates**: after `parent_path.length + 1` iterations at most the test of the loop fails -/
theorem loop_terminates (okc koc el : Str) (ok ko : List (List Nat)) :
    ∀ (fuel : Nat) (s : Option Str × List Nat), s.2.length < fuel →
      Marker.mark_node_loop0 okc koc el ok ko (iterLoop okc koc el ok ko fuel s).1
        (iterLoop okc koc el ok ko fuel s).2 = .ok none
  | 0, s, h => by omega
  | fuel + 1, s, h => by
    rw [iterLoop]
    obtain ⟨r, hr⟩ := loop0_ok okc koc el ok ko s.1 s.2
    cases r with
    | none => simp only [hr]
    | some s' =>
      simp only [hr]
      have := loop0_shorter okc koc el ok ko s.1 s.2 s' hr
      exact loop_terminates okc koc el ok ko fuel s' (by omega)

/-- more fuel than needed changes nothing: the state in which the loop ends is well defined -/
theorem iterLoop_stable (okc koc el : Str) (ok ko : List (List Nat)) :
    ∀ (fuel extra : Nat) (s : Option Str × List Nat), s.2.length < fuel →
      iterLoop okc koc el ok ko (fuel + extra) s = iterLoop okc koc el ok ko fuel s
  | 0, _, s, h => by omega
  | fuel + 1, extra, s, h => by
    rw [show fuel + 1 + extra = (fuel + extra) + 1 by omega, iterLoop, iterLoop]
    obtain ⟨r, hr⟩ := loop0_ok okc koc el ok ko s.1 s.2
    cases r with
    | none => simp only [hr]
    | some s' =>
      simp only [hr]
      have := loop0_shorter okc koc el ok ko s.1 s.2 s' hr
      exact iterLoop_stable okc koc el ok ko fuel extra s' (by omega)

/-- **the class the loop finds is the model's `parentClass`** -/
theorem loop_is_parentClass (m : MarkCfg) (ok ko : List (List Nat)) :
    ∀ (fuel : Nat) (path : List Nat),
      (iterLoop m.okClass m.koClass m.element ok ko fuel (none, path)).1 = parentClass m ok ko fuel path
  | 0, path => by simp [iterLoop, parentClass]
  | fuel + 1, path => by
    rw [iterLoop, parentClass]
    by_cases hp : path = []
    · simp [hp, Marker.mark_node_loop0]
    · have hne : path.isEmpty = false := by simpa using hp
      by_cases h1 : path.dropLast ∈ ok
      · simp only [Marker.mark_node_loop0, hp, hne, h1, cssClass, List.contains_iff_mem, if_true, if_false,
          Bool.false_eq_true]
        cases fuel <;> simp [iterLoop, Marker.mark_node_loop0]
      · by_cases h2 : path.dropLast ∈ ko
        · simp only [Marker.mark_node_loop0, hp, hne, h1, h2, cssClass, List.contains_iff_mem, if_true, if_false,
            Bool.false_eq_true]
          cases fuel <;> simp [iterLoop, Marker.mark_node_loop0]
        · simp only [Marker.mark_node_loop0, hp, hne, h1, h2, cssClass, List.contains_iff_mem, if_false,
            Bool.false_eq_true]
          exact loop_is_parentClass m ok ko fuel path.dropLast

/-- **`mark_node` is the translated code**: with the loop iterated until its test fails, the translated method gives
the node the layout `markLay` of the model, for every marker, path sets, path, mode and layout -/
theorem markLay_is_generated (m : MarkCfg) (ok ko : List (List Nat)) (path : List Nat) (l : Lay) :
    Marker.mark_node (iterLoop m.okClass m.koClass m.element ok ko (path.length + 1)) m.okClass m.koClass m.element
      ok ko path m.parcimonious l = .ok (markLay m ok ko path l) := by
  unfold Marker.mark_node markLay cssClass
  rw [loop_is_parentClass]
  by_cases h1 : path ∈ ok
  · by_cases hp : m.parcimonious = true
    · by_cases hc : parentClass m ok ko (path.length + 1) path = some m.okClass
      · simp [h1, hp, hc]
      · simp [h1, hp, hc, bne, List.append_assoc]
    · simp [h1, hp, List.append_assoc]
  · by_cases h2 : path ∈ ko
    · by_cases hp : m.parcimonious = true
      · by_cases hc : parentClass m ok ko (path.length + 1) path = some m.koClass
        · simp [h1, h2, hp, hc]
        · simp [h1, h2, hp, hc, bne, List.append_assoc]
      · simp [h1, h2, hp, List.append_assoc]
    · simp [h1, h2]

/-- the translated method never raises -/
theorem mark_node_never_raises (loop0 : Option Str × List Nat → Option Str × List Nat) (okc koc el : Str)
    (ok ko : List (List Nat)) (path : List Nat) (parci : Bool) (l : Lay) :
    ∃ r, Marker.mark_node loop0 okc koc el ok ko path parci l = .ok r := by
  unfold Marker.mark_node
  repeat' split
  all_goals exact ⟨_, rfl⟩

/-- every method the translator was asked for was translated -/
theorem marker_names_complete : Marker.markerNames = ["mark_node", "mark_node_loop0"] := by decide

end Luqum.Props.GenMark
