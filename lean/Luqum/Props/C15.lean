/-
  C15 — `auto_name` gives distinct names to the operands of operations, mapped to their paths.

  For a tree `t` none of whose elements carries a name, `auto_name` never fails; afterwards the
  elements that carry a name are exactly the direct operands of the operations of the tree (or the
  root alone when no operation has an operand), the tree is otherwise unchanged, the returned mapping
  is exactly `name ↦ path` for those elements (and `element_from_path` retrieves them), and all names
  are distinct whatever the number of operands (also beyond the 50 one-letter names).

  Property theorems only; the inductions are in `Luqum/Lemmas/AutoName.lean`, the path vocabulary
  (`isOperand`, `named`) in `Luqum/Lemmas/NamedPaths.lean`.
-/
import Luqum.Lemmas.AutoName

namespace Luqum.Props.C15
open Luqum Luqum.Lemmas.NamedPaths Luqum.Lemmas.AutoName

/-! ### tie to the source: the generated alphabet -/

/-- **Translator obligation** on the generated `LETTERS` / `_pos_letter`: the first letter has a
recorded position; every recorded position `p` is smaller than the number of letters and the letter
following position `p`, if any, is recorded at a position `> p`. This is what makes `next_name`
total on the names it produces and strictly increasing for the rank
`(length - 1) * |LETTERS| + position of the last letter`
(the alphabet has `l` twice and no `j`: `_pos_letter['l']` is the later index 11, so after `i` (8)
comes `l`, then `m` (12): `k` and one `l` are skipped, which is harmless). -/
theorem alphabet_ok : alphaOk = true := by decide

/-- the first names, and the roll-over to two letters after the last letter -/
example : nextName none = some ['a'] := by decide
example : nextName (some ['i']) = some ['l'] := by decide
example : nextName (some ['l']) = some ['m'] := by decide
example : nextName (some ['Z']) = some ['Z', 'a'] := by decide
example : nextName (some ['a', 'Z']) = some ['a', 'Z', 'a'] := by decide
/-- a letter outside the alphabet would raise (`KeyError`): never reached, see `next_name_total` -/
example : nextName (some ['j']) = none := by decide

/-- the successor on names never fails on a name it produced, and strictly increases the rank -/
theorem next_name_total (o : Option Str) (ho : ∀ l, o = some l → nameOk l) :
    ∃ nm, nextName o = some nm ∧ nameOk nm ∧ lastRank o ≤ rank nm :=
  nextName_spec alphabet_ok o ho

/-! ### vocabulary -/

/-- the hypothesis "no element of `t` carries a name", in terms of `element_from_path` -/
theorem noNames_iff (t : Tree) :
    noNames t = true ↔ ∀ p n, t.at? p = some n → n.lay.name = none := noNames_iff_at t

/-- "`p` leads to a direct operand of an operation", in terms of `element_from_path` -/
theorem isOperand_meaning (t : Tree) (p : List Nat) :
    isOperand t p = true ↔
      ∃ q i k xs l, p = q ++ [i] ∧ t.at? q = some (.op k xs l) ∧ i < xs.length := isOperand_iff t p

/-- "some operation of `t` has an operand", in terms of `element_from_path` -/
theorem hasOperand_meaning (t : Tree) :
    hasOperand t = true ↔ ∃ q k x xs l, t.at? q = some (.op k (x :: xs) l) := by
  rw [hasOperand_iff]
  constructor
  · rintro ⟨p, hp⟩
    obtain ⟨q, i, k, xs, l, -, hq, hi⟩ := (isOperand_iff t p).1 hp
    cases xs with
    | nil => simp at hi
    | cons x xs => exact ⟨q, k, x, xs, l, hq⟩
  · rintro ⟨q, k, x, xs, l, hq⟩
    exact ⟨q ++ [0], (isOperand_iff t _).2 ⟨q, 0, k, x :: xs, l, rfl, hq, by simp⟩⟩

/-- the named elements: `p ∈ named t` iff `p` is an operand of an operation, or the root when no
operation has an operand -/
theorem named_meaning (t : Tree) (p : List Nat) :
    p ∈ named t ↔ isOperand t p = true ∨ (p = [] ∧ hasOperand t = false) := mem_named t p

/-! ### the property -/

/-- **`auto_name` never fails** on a tree without names (whatever the number of operands). -/
theorem autoName_total (t : Tree) (hn : noNames t = true) : autoName t ≠ none := by
  obtain ⟨t', m, h, -⟩ := autoName_core alphabet_ok t hn
  simp [h]

/-- **1a. Naming changes nothing but names**: erasing all names of the result (`Tree.copy`, the deep
copy that drops names) gives back `t`. -/
theorem only_names_change (t t' : Tree) (m : List (Str × List Nat)) (hn : noNames t = true)
    (h : autoName t = some (t', m)) : t'.copy = t := by
  obtain ⟨t'', m', h', hc, -⟩ := autoName_core alphabet_ok t hn
  rw [h] at h'; cases h'; exact hc

/-- **1b. The elements that carry a name are exactly the direct operands of operations**, or the
root alone when no operation has an operand. -/
theorem named_exactly_operands (t t' : Tree) (m : List (Str × List Nat)) (hn : noNames t = true)
    (h : autoName t = some (t', m)) (p : List Nat) :
    (∃ n nm, t'.at? p = some n ∧ n.lay.name = some nm) ↔
      (∃ q i k xs l, p = q ++ [i] ∧ t.at? q = some (.op k xs l) ∧ i < xs.length) ∨
      (p = [] ∧ ¬ ∃ q k x xs l, t.at? q = some (.op k (x :: xs) l)) := by
  obtain ⟨t'', m', h', -, hnm, -⟩ := autoName_core alphabet_ok t hn
  rw [h] at h'; cases h'
  rw [← isOperand_iff, ← hasOperand_meaning, Bool.not_eq_true, ← mem_named, ← hnm p,
    Option.isSome_iff_exists]
  constructor
  · rintro ⟨n, nm, h1, h2⟩; exact ⟨nm, (nameAt_eq_some _ _ _).2 ⟨n, h1, h2⟩⟩
  · rintro ⟨nm, h1⟩; obtain ⟨n, h2, h3⟩ := (nameAt_eq_some _ _ _).1 h1; exact ⟨n, nm, h2, h3⟩

/-- the same with the list `named t` (the vocabulary of C16) -/
theorem named_exactly_named (t t' : Tree) (m : List (Str × List Nat)) (hn : noNames t = true)
    (h : autoName t = some (t', m)) (p : List Nat) :
    (∃ n nm, t'.at? p = some n ∧ n.lay.name = some nm) ↔ p ∈ named t := by
  rw [named_exactly_operands t t' m hn h p, ← isOperand_iff, ← hasOperand_meaning,
    Bool.not_eq_true, mem_named]

/-- **2. The mapping is exactly `name ↦ path` of the named elements** (`element_from_path` on the
recorded path retrieves the element that carries the name), and contains nothing else. -/
theorem mapping_exact (t t' : Tree) (m : List (Str × List Nat)) (hn : noNames t = true)
    (h : autoName t = some (t', m)) (nm : Str) (p : List Nat) :
    (nm, p) ∈ m ↔ ∃ n, t'.at? p = some n ∧ n.lay.name = some nm := by
  obtain ⟨t'', m', h', -, -, hm, -⟩ := autoName_core alphabet_ok t hn
  rw [h] at h'; cases h'
  rw [hm, nameAt_eq_some]

/-- the paths recorded in the mapping are exactly the named elements `named t` -/
theorem mapping_paths (t t' : Tree) (m : List (Str × List Nat)) (hn : noNames t = true)
    (h : autoName t = some (t', m)) (p : List Nat) :
    p ∈ m.map (·.2) ↔ p ∈ named t := by
  rw [← named_exactly_named t t' m hn h p]
  simp only [List.mem_map, Prod.exists, exists_eq_right]
  constructor
  · rintro ⟨nm, hm⟩
    obtain ⟨n, h1, h2⟩ := (mapping_exact t t' m hn h nm p).1 hm; exact ⟨n, nm, h1, h2⟩
  · rintro ⟨n, nm, h1, h2⟩; exact ⟨nm, (mapping_exact t t' m hn h nm p).2 ⟨n, h1, h2⟩⟩

/-- **3. All names are distinct**, whatever the number of operands. -/
theorem names_distinct (t t' : Tree) (m : List (Str × List Nat)) (hn : noNames t = true)
    (h : autoName t = some (t', m)) : (m.map (·.1)).Pairwise (· ≠ ·) := by
  obtain ⟨t'', m', h', -, -, -, hd⟩ := autoName_core alphabet_ok t hn
  rw [h] at h'; cases h'
  rw [List.pairwise_map]; exact hd

/-- … and so are the recorded paths: the mapping is a bijection names ↔ named elements -/
theorem paths_distinct (t t' : Tree) (m : List (Str × List Nat)) (hn : noNames t = true)
    (h : autoName t = some (t', m)) : (m.map (·.2)).Pairwise (· ≠ ·) := by
  obtain ⟨t'', m', h', -, -, hm, hd⟩ := autoName_core alphabet_ok t hn
  rw [h] at h'; cases h'
  rw [List.pairwise_map]
  refine List.Pairwise.imp_of_mem ?_ hd
  intro a b ha hb hab heq
  have h1 := (hm a.1 a.2).1 ha
  have h2 := (hm b.1 b.2).1 hb
  rw [heq, h2] at h1
  exact hab (Option.some.inj h1).symm

/-- **4. When some operation has an operand, the root is not named.** -/
theorem root_not_named (t t' : Tree) (m : List (Str × List Nat)) (hn : noNames t = true)
    (h : autoName t = some (t', m)) (hop : ∃ q k x xs l, t.at? q = some (.op k (x :: xs) l)) :
    t'.lay.name = none := by
  cases hnm : t'.lay.name with
  | none => rfl
  | some nm =>
    have := (named_exactly_operands t t' m hn h []).1 ⟨t', nm, at?_nil t', hnm⟩
    rcases this with ⟨q, i, k, xs, l, hp, -⟩ | ⟨-, hno⟩
    · simp at hp
    · exact absurd hop hno

/-- … and when no operation has an operand, the root alone is named (with the first name) -/
theorem root_alone (t t' : Tree) (m : List (Str × List Nat)) (hn : noNames t = true)
    (h : autoName t = some (t', m)) (hop : ¬ ∃ q k x xs l, t.at? q = some (.op k (x :: xs) l)) :
    ∃ nm, m = [(nm, [])] ∧ t'.lay.name = some nm := by
  obtain ⟨n, nm, h1, h2⟩ := (named_exactly_operands t t' m hn h []).2 (Or.inr ⟨rfl, hop⟩)
  simp [at?_nil] at h1; subst h1
  refine ⟨nm, ?_, h2⟩
  have hmem : ∀ e, e ∈ m ↔ e = (nm, []) := by
    rintro ⟨nm', p⟩
    rw [mapping_exact t t' m hn h]
    constructor
    · rintro ⟨n', h3, h4⟩
      rcases (named_exactly_operands t t' m hn h p).1 ⟨n', nm', h3, h4⟩ with
        ⟨q, i, k, xs, l, -, hq, hi⟩ | ⟨rfl, -⟩
      · cases xs with
        | nil => simp at hi
        | cons x xs => exact absurd ⟨q, k, x, xs, l, hq⟩ hop
      · simp [at?_nil] at h3; subst h3; rw [h2] at h4; cases h4; rfl
    · rintro ⟨rfl, rfl⟩; exact ⟨t', at?_nil t', h2⟩
  have hd := names_distinct t t' m hn h
  match m, hmem, hd with
  | [], hmem, _ => exact absurd ((hmem (nm, [])).2 rfl) (by simp)
  | [e], hmem, _ => rw [(hmem e).1 (by simp)]
  | e1 :: e2 :: r, hmem, hd =>
    have h1 := (hmem e1).1 (by simp)
    have h2 := (hmem e2).1 (by simp)
    subst h1 h2
    simp at hd

/-! ### non-vacuity -/

private def w (c : Char) : Tree := .term .word [c] {}
/-- `(x AND y) OR z` -/
private def sample : Tree := .op .or [.group .group (.op .and [w 'x', w 'y'] {}) {}, w 'z'] {}

example : noNames sample = true := by decide
example : (autoName sample).map (·.2) =
    some [(['a'], [0]), (['b'], [1]), (['c'], [0, 0, 0]), (['d'], [0, 0, 1])] := by decide
example : named sample = [[0], [1], [0, 0, 0], [0, 0, 1]] := by decide
/-- a tree without operation: the root is named -/
example : (autoName (w 'x')).map (·.2) = some [(['a'], [])] := by decide
example : named (w 'x') = [[]] := by decide
/-- an operation without operand: the root is named too -/
example : (autoName (.op .and [] {})).map (·.2) = some [(['a'], [])] := by decide
/-- 60 operands: more than the 50 one-letter names (the alphabet has 52 letters, `k` and one `l` are
skipped); the 51st name is `Za` -/
private def big : Tree := .op .or (List.replicate 60 (w 'x')) {}
example : (autoName big).map (fun r => (r.2.drop 48).take 4) =
    some [(['Y'], [48]), (['Z'], [49]), (['Z', 'a'], [50]), (['Z', 'b'], [51])] := by decide +kernel

end Luqum.Props.C15
