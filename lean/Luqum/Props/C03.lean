/-
  C03 — the parsed structure follows the grammar and the precedence rules.

  (a) precedence shape: every tree returned by `parse` is in the canonical form `Canon` below (an AND
      never has an un-parenthesised OR / implicit operation as operand, an OR never an implicit one,
      chains are flattened, `^` never applies to a prefix operator or a field, `~` only to a word or a
      phrase, prefix operators and fields never apply to an un-parenthesised operation, a parenthesis
      is a `FieldGroup` exactly when it directly follows `field:`, range bounds are words, phrases
      or `-word` / `-phrase`).
      The shape depends on how PLY resolved the conflicts of the grammar with the precedence
      table, i.e. on the generated LALR tables. It is established by an abstract interpretation of
      the tables: `tools_absint.py` computes a certificate (Luqum/Generated/Cert.lean), the checker
      `certOK` re-checks it in the kernel (`cert_ok`), and the checker is proved sound for arbitrary
      tables and certificates (`Luqum.runLoop_canon`, Luqum/Lemmas/CertRun.lean).
  (b) translator obligations pinning what the hand-written lexer / parser models were written
      against (regex structure, reserved words, freshness of the tables).
  (c) a lexeme of the TERM rule is an operator token exactly when it is a reserved word.

  Property theorems only; the lemmas are in Luqum/Lemmas/CertDefs, CertAct, CertRun.
-/
import Luqum.Model.ParserInst
import Luqum.Generated.Cert
import Luqum.Lemmas.CertRun

namespace Luqum.Props.C03
open Luqum

/-! ### (a) the canonical form -/

def isOperation : Tree → Bool
  | .op .. => true
  | _ => false

def isOperationOf (k : OpK) : Tree → Bool
  | .op k' _ _ => k' == k
  | _ => false

def isPrefix : Tree → Bool
  | .unary .. => true
  | _ => false

def isSearchField : Tree → Bool
  | .field .. => true
  | _ => false

def isWord : Tree → Bool
  | .term .word _ _ => true
  | _ => false

def isPhrase : Tree → Bool
  | .term .phrase _ _ => true
  | _ => false

def isWordOrPhrase (t : Tree) : Bool := isWord t || isPhrase t

/-- a range bound: a word, a phrase, or the prohibition (`-`) of one -/
def isRangeBound : Tree → Bool
  | .unary .prohibit e _ => isWordOrPhrase e
  | t => isWordOrPhrase t

/-- what an operation accepts as a direct operand: an implicit (unknown) operation no implicit one
(it would have been flattened), an OR neither an implicit operation nor an OR, an AND no operation
at all; `BoolOperation` is never built by the parser -/
def operandAllowed : OpK → Tree → Bool
  | .unk, x => !isOperationOf .unk x
  | .or, x => !isOperationOf .unk x && !isOperationOf .or x
  | .and, x => !isOperation x
  | .bool, _ => false

mutual
/-- canonical form of a parse tree. The flag tells whether the node is the direct child of a
`SearchField`: there, and only there, a parenthesis is a `FieldGroup`. -/
def CanonAt : Bool → Tree → Bool
  | _, .term .. => true
  | _, .none _ => false
  | _, .op k xs _ => decide (2 ≤ xs.length) && CanonsAt xs && xs.all (operandAllowed k)
  | _, .unary _ e _ => CanonAt false e && !isOperation e
  | _, .field _ e _ => CanonAt true e && !isOperation e
  | underField, .group k e _ => ((k == .fieldGroup) == underField) && CanonAt false e
  | _, .boost e _ _ => CanonAt false e && !isOperation e && !isPrefix e && !isSearchField e
  | _, .approx .fuzzy e _ _ => isWord e
  | _, .approx .proximity e _ _ => isPhrase e
  | _, .range lo hi _ _ _ => isRangeBound lo && isRangeBound hi
  | _, .orange _ e _ _ => isWordOrPhrase e
def CanonsAt : List Tree → Bool
  | [] => true
  | x :: r => CanonAt false x && CanonsAt r
end

/-- canonical form of a whole parse tree -/
def Canon (t : Tree) : Bool := CanonAt false t

/-! #### `Canon` is the predicate of the lemma files -/

private theorem isOperation_eq (t : Tree) : isOperation t = isOp' t := by cases t <;> rfl
private theorem isOperationOf_eq (k : OpK) (t : Tree) : isOperationOf k t = isOpK k t := by cases t <;> rfl
private theorem isPrefix_eq (t : Tree) : isPrefix t = isUnary t := by cases t <;> rfl
private theorem isSearchField_eq (t : Tree) : isSearchField t = isField t := by cases t <;> rfl
private theorem isWord_eq' (t : Tree) : isWord t = Luqum.isWord t := by
  cases t with
  | term k _ _ => cases k <;> rfl
  | _ => rfl
private theorem isPhrase_eq' (t : Tree) : isPhrase t = Luqum.isPhrase t := by
  cases t with
  | term k _ _ => cases k <;> rfl
  | _ => rfl
private theorem isWordOrPhrase_eq (t : Tree) : isWordOrPhrase t = isWP t := by
  cases t with
  | term k _ _ => cases k <;> rfl
  | _ => rfl
private theorem isRangeBound_eq (t : Tree) : isRangeBound t = isBound t := by
  cases t with
  | term k _ _ => cases k <;> rfl
  | unary k e _ => cases k <;> simp [isRangeBound, isBound, isWordOrPhrase_eq] <;> rfl
  | _ => rfl
private theorem operandAllowed_eq (k : OpK) : operandAllowed k = operandOK k := by
  funext x
  cases k <;> simp [operandAllowed, operandOK, isOperation_eq, isOperationOf_eq]

mutual
private theorem canonAt_eq : ∀ (uf : Bool) (t : Tree), CanonAt uf t = Luqum.CanonAt uf t
  | _, .term .. => by simp [CanonAt, Luqum.CanonAt]
  | _, .none _ => by simp [CanonAt, Luqum.CanonAt]
  | _, .op k xs _ => by
      cases k
      · simp [CanonAt, Luqum.CanonAt, canonsAt_eq xs, operandAllowed_eq,
          show (OpK.and != OpK.bool) = true from by decide]
      · simp [CanonAt, Luqum.CanonAt, canonsAt_eq xs, operandAllowed_eq,
          show (OpK.or != OpK.bool) = true from by decide]
      · simp [CanonAt, Luqum.CanonAt, canonsAt_eq xs, operandAllowed_eq,
          show (OpK.unk != OpK.bool) = true from by decide]
      · simp only [CanonAt, Luqum.CanonAt, show (OpK.bool != OpK.bool) = false from by decide,
          Bool.false_and]
        cases xs with
        | nil => simp
        | cons x r => simp [operandAllowed]
  | _, .unary _ e _ => by simp [CanonAt, Luqum.CanonAt, canonAt_eq false e, isOperation_eq]
  | _, .field _ e _ => by simp [CanonAt, Luqum.CanonAt, canonAt_eq true e, isOperation_eq]
  | _, .group k e _ => by simp [CanonAt, Luqum.CanonAt, canonAt_eq false e]
  | _, .boost e _ _ => by
      simp [CanonAt, Luqum.CanonAt, canonAt_eq false e, isOperation_eq, isPrefix_eq, isSearchField_eq]
  | _, .approx .fuzzy e _ _ => by simp [CanonAt, Luqum.CanonAt, isWord_eq']
  | _, .approx .proximity e _ _ => by simp [CanonAt, Luqum.CanonAt, isPhrase_eq']
  | _, .range lo hi _ _ _ => by simp [CanonAt, Luqum.CanonAt, isRangeBound_eq]
  | _, .orange _ e _ _ => by simp [CanonAt, Luqum.CanonAt, isWordOrPhrase_eq]
private theorem canonsAt_eq : ∀ xs : List Tree, CanonsAt xs = Luqum.CanonsAt xs
  | [] => by simp [CanonsAt, Luqum.CanonsAt]
  | x :: r => by simp [CanonsAt, Luqum.CanonsAt, canonAt_eq false x, canonsAt_eq r]
end

theorem canon_eq (t : Tree) : Canon t = Luqum.CanonAt false t := canonAt_eq false t

/-! ### (a) the certificate for the generated tables -/

/-- the certificate computed by `tools_absint.py` for the current tables -/
def cert : Cert := { S := Generated.certS, E := Generated.certE }

/-- the bit positions used by `tools_absint.py` are those of the Lean side (documentation of the
certificate only: the soundness of the checker does not depend on it) -/
theorem cert_shapes : Generated.certShapeNames = shapeNames := by decide

/-- **kernel-checked**: the certificate is inductive for the generated LALR tables -/
theorem cert_ok : certOK tables cert = true := by decide +kernel

/-! ### (a) precedence shape -/

/-- **generic soundness of the checker** (restated from `Luqum.runLoop_canon`): for ARBITRARY
tables `T` and certificate `C` accepted by the checker, a successful run of the LALR driver from the
initial configuration returns an item in canonical form -/
theorem run_canon (T : Tables) (C : Cert) (hC : certOK T C = true) (fuel : Nat) (toks : List Tok)
    (lerr : Option LexErr) (v : Val)
    (h : runLoop T fuel { states := [0], vals := [] } toks lerr = .ok v) :
    ∃ t, v = .item t ∧ Canon t = true := by
  obtain ⟨t, hv, hc⟩ := runLoop_canon hC fuel toks lerr v h
  exact ⟨t, hv, by rw [canon_eq]; exact hc⟩

/-- **C03(a)**: every tree returned by the parser is in canonical form -/
theorem parse_canon (s : Str) (t : Tree) (h : parse s = .ok t) : Canon t = true := by
  rw [canon_eq]
  exact parseWith_canon cert_ok s t h

/-! ### (b) translator obligations -/

/-- the live tables are the ones PLY generates from the grammar now in `luqum/parser.py` -/
theorem tables_fresh : Generated.tablesFresh = true := by decide

/-- PLY reduces in no state without reading the look-ahead (the model always reads it) -/
theorem no_defaulted_states : Generated.defaultedStates = [] := by decide

/-- the parsed form of PLY's master regex the lexer model was written against -/
def expectedLexMasterTree : String := "[(BRANCH, (None, [[(SUBPATTERN, (1, 0, 0, [(MAX_REPEAT, (1, MAXREPEAT, [(IN, [(CATEGORY, CATEGORY_SPACE)])]))]))], [(SUBPATTERN, (2, 0, 0, [(SUBPATTERN, (3, 0, 0, [(BRANCH, (None, [[(IN, [(NEGATE, None), (CATEGORY, CATEGORY_SPACE), (LITERAL, 58), (LITERAL, 94), (LITERAL, 126), (LITERAL, 40), (LITERAL, 41), (LITERAL, 123), (LITERAL, 125), (LITERAL, 91), (LITERAL, 93), (LITERAL, 47), (LITERAL, 34), (LITERAL, 39), (LITERAL, 43), (LITERAL, 45), (LITERAL, 92), (LITERAL, 60), (LITERAL, 62)])], [(LITERAL, 92), (ANY, None)]])), (MAX_REPEAT, (0, MAXREPEAT, [(SUBPATTERN, (4, 0, 0, [(BRANCH, (None, [[(IN, [(NEGATE, None), (CATEGORY, CATEGORY_SPACE), (LITERAL, 58), (LITERAL, 94), (LITERAL, 92), (LITERAL, 126), (LITERAL, 40), (LITERAL, 41), (LITERAL, 123), (LITERAL, 125), (LITERAL, 91), (LITERAL, 93)])], [(LITERAL, 92), (ANY, None)], [(ASSERT, (-1, [(LITERAL, 84), (MAX_REPEAT, (2, 2, [(IN, [(CATEGORY, CATEGORY_DIGIT)])]))])), (LITERAL, 58), (MAX_REPEAT, (2, 2, [(IN, [(CATEGORY, CATEGORY_DIGIT)])])), (MAX_REPEAT, (0, 1, [(SUBPATTERN, (5, 0, 0, [(LITERAL, 58), (MAX_REPEAT, (2, 2, [(IN, [(CATEGORY, CATEGORY_DIGIT)])]))]))]))]]))]))]))]))]))], [(SUBPATTERN, (6, 0, 0, [(LITERAL, 43)]))], [(SUBPATTERN, (7, 0, 0, [(LITERAL, 45)]))], [(SUBPATTERN, (8, 0, 0, [(LITERAL, 58)]))], [(SUBPATTERN, (9, 0, 0, [(LITERAL, 40)]))], [(SUBPATTERN, (10, 0, 0, [(LITERAL, 41)]))], [(SUBPATTERN, (11, 0, 0, [(SUBPATTERN, (12, 0, 0, [(IN, [(LITERAL, 91), (LITERAL, 123)])]))]))], [(SUBPATTERN, (13, 0, 0, [(SUBPATTERN, (14, 0, 0, [(IN, [(LITERAL, 93), (LITERAL, 125)])]))]))], [(SUBPATTERN, (15, 0, 0, [(LITERAL, 62), (MAX_REPEAT, (0, 1, [(LITERAL, 61)]))]))], [(SUBPATTERN, (16, 0, 0, [(LITERAL, 60), (MAX_REPEAT, (0, 1, [(LITERAL, 61)]))]))], [(SUBPATTERN, (17, 0, 0, [(SUBPATTERN, (18, 0, 0, [(LITERAL, 34), (MAX_REPEAT, (0, MAXREPEAT, [(BRANCH, (None, [[(IN, [(NEGATE, None), (LITERAL, 92), (LITERAL, 34)])], [(LITERAL, 92), (ANY, None)]]))])), (LITERAL, 34)]))]))], [(SUBPATTERN, (19, 0, 0, [(SUBPATTERN, (20, 0, 0, [(LITERAL, 47), (MAX_REPEAT, (0, MAXREPEAT, [(BRANCH, (None, [[(IN, [(NEGATE, None), (LITERAL, 92), (LITERAL, 47)])], [(LITERAL, 92), (ANY, None)]]))])), (LITERAL, 47)]))]))], [(SUBPATTERN, (21, 0, 0, [(LITERAL, 126), (MAX_REPEAT, (0, 1, [(SUBPATTERN, (22, 0, 0, [(MAX_REPEAT, (1, MAXREPEAT, [(IN, [(RANGE, (48, 57)), (LITERAL, 46)])]))]))]))]))], [(SUBPATTERN, (23, 0, 0, [(LITERAL, 94), (MAX_REPEAT, (0, 1, [(SUBPATTERN, (24, 0, 0, [(MAX_REPEAT, (1, MAXREPEAT, [(IN, [(RANGE, (48, 57)), (LITERAL, 46)])]))]))]))]))]]))]"

def expectedLexFlags : Nat := 64

def expectedLexRuleOrder : List String := ["SEPARATOR", "TERM", "PLUS", "MINUS", "COLUMN", "LPAREN", "RPAREN", "LBRACKET", "RBRACKET", "GREATERTHAN", "LESSTHAN", "PHRASE", "REGEX", "APPROX", "BOOST"]

def expectedLexInnerTrees : List (String × String) := [("TERM_RE", "[(SUBPATTERN, (1, 0, 0, [(BRANCH, (None, [[(IN, [(NEGATE, None), (CATEGORY, CATEGORY_SPACE), (LITERAL, 58), (LITERAL, 94), (LITERAL, 126), (LITERAL, 40), (LITERAL, 41), (LITERAL, 123), (LITERAL, 125), (LITERAL, 91), (LITERAL, 93), (LITERAL, 47), (LITERAL, 34), (LITERAL, 39), (LITERAL, 43), (LITERAL, 45), (LITERAL, 92), (LITERAL, 60), (LITERAL, 62)])], [(LITERAL, 92), (ANY, None)]])), (MAX_REPEAT, (0, MAXREPEAT, [(SUBPATTERN, (2, 0, 0, [(BRANCH, (None, [[(IN, [(NEGATE, None), (CATEGORY, CATEGORY_SPACE), (LITERAL, 58), (LITERAL, 94), (LITERAL, 92), (LITERAL, 126), (LITERAL, 40), (LITERAL, 41), (LITERAL, 123), (LITERAL, 125), (LITERAL, 91), (LITERAL, 93)])], [(LITERAL, 92), (ANY, None)], [(ASSERT, (-1, [(LITERAL, 84), (MAX_REPEAT, (2, 2, [(IN, [(CATEGORY, CATEGORY_DIGIT)])]))])), (LITERAL, 58), (MAX_REPEAT, (2, 2, [(IN, [(CATEGORY, CATEGORY_DIGIT)])])), (MAX_REPEAT, (0, 1, [(SUBPATTERN, (3, 0, 0, [(LITERAL, 58), (MAX_REPEAT, (2, 2, [(IN, [(CATEGORY, CATEGORY_DIGIT)])]))]))]))]]))]))]))]))]"), ("PHRASE_RE", "[(SUBPATTERN, (1, 0, 0, [(LITERAL, 34), (MAX_REPEAT, (0, MAXREPEAT, [(BRANCH, (None, [[(IN, [(NEGATE, None), (LITERAL, 92), (LITERAL, 34)])], [(LITERAL, 92), (ANY, None)]]))])), (LITERAL, 34)]))]"), ("REGEX_RE", "[(SUBPATTERN, (1, 0, 0, [(LITERAL, 47), (MAX_REPEAT, (0, MAXREPEAT, [(BRANCH, (None, [[(IN, [(NEGATE, None), (LITERAL, 92), (LITERAL, 47)])], [(LITERAL, 92), (ANY, None)]]))])), (LITERAL, 47)]))]"), ("APPROX_RE", "[(LITERAL, 126), (MAX_REPEAT, (0, 1, [(SUBPATTERN, (1, 0, 0, [(MAX_REPEAT, (1, MAXREPEAT, [(IN, [(RANGE, (48, 57)), (LITERAL, 46)])]))]))]))]"), ("BOOST_RE", "[(LITERAL, 94), (MAX_REPEAT, (0, 1, [(SUBPATTERN, (1, 0, 0, [(MAX_REPEAT, (1, MAXREPEAT, [(IN, [(RANGE, (48, 57)), (LITERAL, 46)])]))]))]))]")]

def expectedReserved : List (String × String) := [("AND", "AND_OP"), ("NOT", "NOT"), ("OR", "OR_OP"), ("TO", "TO")]

/-- the master regex of the running lexer has the structure the lexer model was written against -/
theorem lexer_regex_ok : Generated.lexMasterTree = expectedLexMasterTree := by rfl
theorem lexer_flags_ok : Generated.lexFlags = expectedLexFlags := by rfl
theorem lexer_rule_order_ok : Generated.lexRuleOrder = expectedLexRuleOrder := by rfl
theorem lexer_inner_regex_ok : Generated.lexInnerTrees = expectedLexInnerTrees := by rfl
theorem reserved_ok : Generated.reserved = expectedReserved := by rfl

/-! ### (c) reserved words -/

/-- the kinds a lexeme of the TERM rule can get -/
def isWordKind : TokK → Bool
  | .term | .andOp | .orOp | .not | .to => true
  | _ => false

/-- a token of kind TERM / AND_OP / OR_OP / NOT / TO is a match of the TERM rule, and its kind is
the one `reserved` gives to the lexeme -/
theorem lexOne_word_kind {prev rest : Str} {k : TokK} {n : Nat}
    (h : lexOne prev rest = some (.tok k n)) (hk : isWordKind k = true) :
    termLen prev rest = some n ∧ k = reservedKind (rest.take n) := by
  unfold lexOne at h
  split at h
  · cases h
  ·
    rename_i c r
    by_cases h0 : isSpace c = true
    · rw [if_pos h0] at h; cases h; try (simp [isWordKind] at hk)
    rw [if_neg h0] at h
    by_cases h1 : c = '+'
    · rw [if_pos h1] at h; cases h; try (simp [isWordKind] at hk)
    rw [if_neg h1] at h
    by_cases h2 : c = '-'
    · rw [if_pos h2] at h; cases h; try (simp [isWordKind] at hk)
    rw [if_neg h2] at h
    by_cases h3 : c = ':'
    · rw [if_pos h3] at h; cases h; try (simp [isWordKind] at hk)
    rw [if_neg h3] at h
    by_cases h4 : c = '('
    · rw [if_pos h4] at h; cases h; try (simp [isWordKind] at hk)
    rw [if_neg h4] at h
    by_cases h5 : c = ')'
    · rw [if_pos h5] at h; cases h; try (simp [isWordKind] at hk)
    rw [if_neg h5] at h
    by_cases h6 : (decide (c = '[') || decide (c = '{')) = true
    · rw [if_pos h6] at h; cases h; try (simp [isWordKind] at hk)
    rw [if_neg h6] at h
    by_cases h7 : (decide (c = ']') || decide (c = '}')) = true
    · rw [if_pos h7] at h; cases h; try (simp [isWordKind] at hk)
    rw [if_neg h7] at h
    by_cases h8 : c = '>'
    · rw [if_pos h8] at h; cases h; try (simp [isWordKind] at hk)
    rw [if_neg h8] at h
    by_cases h9 : c = '<'
    · rw [if_pos h9] at h; cases h; try (simp [isWordKind] at hk)
    rw [if_neg h9] at h
    by_cases g0 : c = '"'
    · rw [if_pos g0] at h
      simp only [Option.map_eq_some_iff] at h
      obtain ⟨m, _, he⟩ := h
      cases he; simp [isWordKind] at hk
    rw [if_neg g0] at h
    by_cases g1 : c = '/'
    · rw [if_pos g1] at h
      simp only [Option.map_eq_some_iff] at h
      obtain ⟨m, _, he⟩ := h
      cases he; simp [isWordKind] at hk
    rw [if_neg g1] at h
    by_cases g2 : c = '~'
    · rw [if_pos g2] at h
      simp only [Option.map_eq_some_iff] at h
      obtain ⟨m, _, he⟩ := h
      cases he; simp [isWordKind] at hk
    rw [if_neg g2] at h
    by_cases g3 : c = '^'
    · rw [if_pos g3] at h
      simp only [Option.map_eq_some_iff] at h
      obtain ⟨m, _, he⟩ := h
      cases he; simp [isWordKind] at hk
    rw [if_neg g3] at h
    simp only [Option.map_eq_some_iff] at h
    obtain ⟨m, hm, he⟩ := h
    cases he
    exact ⟨hm, rfl⟩

/-- every other rule gives a token of another kind, so: a token comes from the TERM rule iff its
kind is one of the five -/
theorem reservedKind_isWordKind (w : Str) : isWordKind (reservedKind w) = true := by
  unfold reservedKind
  repeat' split
  all_goals rfl

theorem reservedKind_and (w : Str) : reservedKind w = .andOp ↔ w = "AND".toList := by
  unfold reservedKind
  repeat' split
  all_goals simp_all
theorem reservedKind_or (w : Str) : reservedKind w = .orOp ↔ w = "OR".toList := by
  unfold reservedKind
  repeat' split
  all_goals simp_all
theorem reservedKind_not (w : Str) : reservedKind w = .not ↔ w = "NOT".toList := by
  unfold reservedKind
  repeat' split
  all_goals simp_all
theorem reservedKind_to (w : Str) : reservedKind w = .to ↔ w = "TO".toList := by
  unfold reservedKind
  repeat' split
  all_goals simp_all
/-- a TERM-rule lexeme stays a plain term exactly when it is none of the four reserved words -/
theorem reservedKind_term (w : Str) : reservedKind w = .term ↔
    w ≠ "AND".toList ∧ w ≠ "OR".toList ∧ w ≠ "NOT".toList ∧ w ≠ "TO".toList := by
  unfold reservedKind
  repeat' split
  all_goals simp_all

/-- the reserved words of the model are those of `luqum.parser.reserved` -/
theorem reserved_words :
    Generated.reserved.map (fun p => (reservedKind p.1.toList).name == p.2) = [true, true, true, true] := by
  decide

/-! ### witnesses -/

private def w (s : String) : Tree := .term .word s.toList {}
private def parsesTo (s : String) (t : Tree) : Bool :=
  match parse s.toList with
  | .ok t' => t'.eqv t && Canon t'
  | .error _ => false

/-- `a AND b -c` is `(a AND b) -c` (before fix F4 of the precedence table it was `a AND (b -c)`) -/
example : parsesTo "a AND b -c"
    (.op .unk [.op .and [w "a", w "b"] {}, .unary .prohibit (w "c") {}] {}) = true := by decide +kernel
/-- the tree the old tables gave is not canonical -/
example : Canon (.op .and [w "a", .op .unk [w "b", .unary .prohibit (w "c") {}] {}] {}) = false := by
  decide +kernel
/-- AND binds tighter than OR, OR tighter than the implicit operation; chains are flattened -/
example : parsesTo "a OR b AND c" (.op .or [w "a", .op .and [w "b", w "c"] {}] {}) = true := by
  decide +kernel
example : parsesTo "a OR b OR c d AND e AND f"
    (.op .unk [.op .or [w "a", w "b", w "c"] {}, .op .and [w "d", w "e", w "f"] {}] {}) = true := by
  decide +kernel
/-- `^` applies to the value, not to the field; and to the operand of a prefix, not to the prefix -/
example : parsesTo "a:b^2" (.field "a".toList (.boost (w "b") { val := { coeff := 2 } } {}) {}) = true := by
  decide +kernel
example : parsesTo "-a^2" (.unary .prohibit (.boost (w "a") { val := { coeff := 2 } } {}) {}) = true := by
  decide +kernel
/-- a parenthesis directly after `field:` is a `FieldGroup`, elsewhere a `Group` -/
example : parsesTo "f:(a b) (c)"
    (.op .unk [.field "f".toList (.group .fieldGroup (.op .unk [w "a", w "b"] {}) {}) {},
               .group .group (w "c") {}] {}) = true := by decide +kernel
/-- range bounds -/
example : parsesTo "[-a TO \"b c\"}"
    (.range (.unary .prohibit (w "a") {}) (.term .phrase "\"b c\"".toList {}) true false {}) = true := by
  decide +kernel

end Luqum.Props.C03
