/-
  C03d — the parser computes the DOCUMENTED grammar.

  C03 (`parse_canon`), C03b (`parse_yield`, layout independence) and C03c (`parse_complete`) pin the
  parser down exactly, but in terms of a Bool-valued canonical-form predicate (`Parseable`) and a
  printing function (`yield`).  Here the same characterisation is given as a declarative grammar that
  can be read against the prose of the property:

    "juxtaposition (implicit operation) binds loosest, then OR, then AND, then the prefixes +, - and
     NOT, then field:, with the suffixes ^ and ~ binding tightest; chains of one operator flatten
     into a single n-ary node, parentheses give a group (a field group when they directly follow
     field:), and bracket/brace kind and <, <=, >, >= set range inclusiveness.  Reserved words are
     operators only as whole unescaped tokens, and two queries that differ only in the whitespace
     between tokens give equal trees."

  `Denotes lv toks t` (Luqum/Lemmas/DenotesDefs.lean; one rule per clause of the prose / production of
  `luqum/parser.py`): the token sequence `toks` (kinds and texts), read as a phrase of precedence level
  `lv`, denotes the tree `t`.  Whitespace does not occur in it at all: the relation is on token keys.

  1. `denotes_iff`: `Denotes .implicit toks t ↔ Parseable t ∧ yield t = toks`.
  2. `parse_denotes` (soundness of the parser w.r.t. the grammar), `denotes_parse` (completeness),
     `parse_accepts_iff`, `denotes_unique` (the grammar with its levels is unambiguous up to `==`).
  3. the precedence examples of the documentation: by evaluation of the parser AND as derivations.
  4. non-vacuity: an explicit derivation for the sample tree of C03c; negative witnesses.
  The lemmas are in Luqum/Lemmas/Denotes*.lean.
-/
import Luqum.Lemmas.DenotesCompl
import Luqum.Props.C03c

namespace Luqum.Props.C03d
open Luqum Luqum.Compl Luqum.Grammar

/- the grammar (Luqum.Lemmas.DenotesDefs) -/
export Luqum.Grammar (Token Level Denotes DenotesQuery DecNumeral IntNumeral WordOrPhrase Bound isParen)

/-! ### (1) the grammar is the characterisation of C03 / C03b / C03c -/

/-- **the readable grammar is the decidable characterisation**: the tokens `toks` denote the tree `t`
iff `t` is `Parseable` (canonical form of C03 + texts and numerals as the lexer and the actions
produce them) and `toks` is its yield -/
theorem denotes_iff (toks : List Token) (t : Tree) :
    Denotes .implicit toks t ↔ (Parseable t = true ∧ yield t = toks) :=
  Luqum.Grammar.denotes_iff toks t

/-- the same at the other levels (`fits`: a phrase of a level is not a bare operation of a looser
one); the level `atom` only documents what `^` and the prefixes can apply to, no rule asks for it -/
theorem denotes_iff_level (lv : Level) (hlv : Level.suffix ≤ lv) (toks : List Token) (t : Tree) :
    Denotes lv toks t ↔ (Parseable t = true ∧ fits lv t = true ∧ yield t = toks) :=
  Luqum.Grammar.denotes_iff_level lv hlv toks t

example (t : Tree) :
    fits .implicit t = true ∧
    fits .or t = !isOpK .unk t ∧
    fits .and t = (!isOpK .unk t && !isOpK .or t) ∧
    fits .prefix t = !isOp' t ∧
    fits .suffix t = (!isOp' t && !isUnary t && !isField t) := ⟨rfl, rfl, rfl, rfl, rfl⟩

/-! ### (2) the parser and the grammar -/

/-- **soundness of the parser w.r.t. the documented grammar**: the tree returned for a query is
denoted by the token sequence of the query -/
theorem parse_denotes (s : Str) (t : Tree) (h : parse s = .ok t) :
    Denotes .implicit ((lex s).1.map tokKey) t :=
  (denotes_iff _ _).2 ⟨C03c.parse_parseable s t h, (Luqum.parse_yield s t h).symm⟩

/-- **completeness**: if the tokens of a string (without illegal character) denote a tree, the
string parses, into a tree equal (`==`) to it -/
theorem denotes_parse (s : Str) (toks : List Token) (t : Tree) (h : Denotes .implicit toks t)
    (hl : (lex s).2 = none) (hk : (lex s).1.map tokKey = toks) :
    ∃ t', parse s = .ok t' ∧ t'.eqv t = true := by
  obtain ⟨hp, hy⟩ := (denotes_iff _ _).1 h
  exact C03c.parse_complete_str s t hp hl (hk.trans hy.symm)

/-- **the parser accepts exactly the queries of the grammar**: a string without illegal character
parses iff its token sequence denotes some tree -/
theorem parse_accepts_iff (s : Str) (hl : (lex s).2 = none) :
    (∃ t, parse s = .ok t) ↔ (∃ t, Denotes .implicit ((lex s).1.map tokKey) t) := by
  constructor
  · rintro ⟨t, h⟩
    exact ⟨t, parse_denotes s t h⟩
  · rintro ⟨t, h⟩
    obtain ⟨t', h', _⟩ := denotes_parse s _ t h hl rfl
    exact ⟨t', h'⟩

/-- a token with the given key (no head, no tail, position 0) -/
def tokOfKey (k : Token) : Tok := { kind := k.1, text := k.2, pos := 0 }

theorem tokOfKey_keys (ks : List Token) : (ks.map tokOfKey).map tokKey = ks := by
  induction ks with
  | nil => rfl
  | cons k r ih => simpa [tokOfKey, tokKey] using ih

/-- two `Parseable` trees with the same yield are equal (`==`): the LALR driver is a function of the
token keys (no string is needed: `C03c.parse_complete` is about token sequences) -/
theorem parseable_unique (t₁ t₂ : Tree) (h₁ : Parseable t₁ = true) (h₂ : Parseable t₂ = true)
    (hy : yield t₁ = yield t₂) : t₁.eqv t₂ = true := by
  have hk := tokOfKey_keys (yield t₁)
  obtain ⟨a, ha, hea⟩ := C03c.parse_complete t₁ _ h₁ hk
  obtain ⟨b, hb, heb⟩ := C03c.parse_complete t₂ _ h₂ (hk.trans hy)
  rw [ha] at hb
  cases hb
  exact C09.eqv_trans _ _ _ (by rw [C09.eqv_symm]; exact hea) heb

/-- **the grammar with its precedence levels is unambiguous** (up to `==`, which ignores layout and
the spelling of numerals): a token sequence denotes at most one tree.  No hypothesis on the texts of
the tokens is needed. -/
theorem denotes_unique (toks : List Token) (t₁ t₂ : Tree)
    (h₁ : Denotes .implicit toks t₁) (h₂ : Denotes .implicit toks t₂) : t₁.eqv t₂ = true := by
  obtain ⟨p₁, y₁⟩ := (denotes_iff _ _).1 h₁
  obtain ⟨p₂, y₂⟩ := (denotes_iff _ _).1 h₂
  exact parseable_unique t₁ t₂ p₁ p₂ (y₁.trans y₂.symm)

/-- with `parse_denotes`: whatever tree the grammar gives to the tokens of a query is the tree the
parser returns -/
theorem denotes_eq_parse (s : Str) (t t' : Tree) (h : parse s = .ok t)
    (h' : Denotes .implicit ((lex s).1.map tokKey) t') : t.eqv t' = true :=
  denotes_unique _ t t' (parse_denotes s t h) h'

/-- "two queries that differ only in the whitespace between tokens give equal trees" is built into
the grammar (it is a relation on token keys); with `parse_denotes` / `denotes_parse` this gives
C03b's layout independence again -/
theorem layout_independent_via_grammar (s₁ s₂ : Str) (t₁ : Tree)
    (hk : (lex s₁).1.map tokKey = (lex s₂).1.map tokKey) (h₂ : (lex s₂).2 = none)
    (h₁ : parse s₁ = .ok t₁) : ∃ t₂, parse s₂ = .ok t₂ ∧ t₂.eqv t₁ = true :=
  denotes_parse s₂ _ t₁ (parse_denotes s₁ t₁ h₁) h₂ hk.symm

/-! ### (3) the precedence examples -/

/-- building the premise of an n-ary rule, operand by operand -/
theorem ops_nil {lv : Level} : ∀ p ∈ ([] : List (List Token × Tree)), Denotes lv p.1 p.2 := by
  intro p hp; cases hp

theorem ops_cons {lv : Level} {toks : List Token} {x : Tree} {r : List (List Token × Tree)}
    (h : Denotes lv toks x) (hr : ∀ p ∈ r, Denotes lv p.1 p.2) :
    ∀ p ∈ (toks, x) :: r, Denotes lv p.1 p.2 := by
  intro p hp
  rcases List.mem_cons.1 hp with rfl | hp
  · exact h
  · exact hr p hp

/-- the token keys of a string -/
def keysOf (s : String) : List Token := (lex s.toList).1.map tokKey

/-- `parse` succeeds on `s` with a tree equal (`==`) to `t` -/
def parsesTo (s : String) (t : Tree) : Bool :=
  match parse s.toList with
  | .ok t' => t'.eqv t
  | .error _ => false

theorem parsesTo_iff (s : String) (t : Tree) :
    parsesTo s t = true ↔ ∃ t', parse s.toList = .ok t' ∧ t'.eqv t = true := by
  unfold parsesTo
  split
  · rename_i t' h; simp [h]
  · rename_i e h; simp [h]

@[reducible] def w (s : String) : Tree := .term .word s.toList {}
@[reducible] def ph (s : String) : Tree := .term .phrase s.toList {}
@[reducible] def T (s : String) : Token := (.term, s.toList)
@[reducible] def tAND : Token := (.andOp, "AND".toList)
@[reducible] def tOR : Token := (.orOp, "OR".toList)
@[reducible] def tNOT : Token := (.not, "NOT".toList)
/-- the number 2 spelled `2` -/
@[reducible] def two : Num := { val := { coeff := 2 }, raw := ['2'] }

/-- a word, at any level -/
theorem dWord {lv : Level} (s : String) (h : reservedKind s.toList = .term := by decide) :
    Denotes lv [T s] (w s) :=
  .looser (by cases lv <;> decide) (.word h)

/-- **`a b OR c AND d`** ↦ `Unknown(a, Or(b, And(c, d)))`: AND binds tighter than OR, OR tighter than
juxtaposition -/
def ex1 : Tree := .op .unk [w "a", .op .or [w "b", .op .and [w "c", w "d"] {}] {}] {}

theorem ex1_parse : parsesTo "a b OR c AND d" ex1 = true := by decide +kernel

theorem ex1_keys : keysOf "a b OR c AND d" = [T "a", T "b", tOR, T "c", tAND, T "d"] := by
  decide +kernel

theorem ex1_denotes : Denotes .implicit [T "a", T "b", tOR, T "c", tAND, T "d"] ex1 :=
  .implicit _ {} (by decide) <|
    ops_cons (dWord "a") <|
    ops_cons
      (.or _ {} (by decide) <|
        ops_cons (dWord "b") <|
        ops_cons
          (.and _ {} (by decide) <| ops_cons (dWord "c") <| ops_cons (dWord "d") ops_nil)
        ops_nil)
    ops_nil

/-- the other bracketings of the same tokens are not denoted -/
theorem ex1_others :
    ¬ Denotes .implicit [T "a", T "b", tOR, T "c", tAND, T "d"]
        (.op .and [.op .unk [w "a", .op .or [w "b", w "c"] {}] {}, w "d"] {}) ∧
    ¬ Denotes .implicit [T "a", T "b", tOR, T "c", tAND, T "d"]
        (.op .or [.op .unk [w "a", w "b"] {}, .op .and [w "c", w "d"] {}] {}) ∧
    ¬ Denotes .implicit [T "a", T "b", tOR, T "c", tAND, T "d"]
        (.op .unk [w "a", .op .and [.op .or [w "b", w "c"] {}, w "d"] {}] {}) := by
  refine ⟨?_, ?_, ?_⟩ <;>
  · intro h
    have := ((denotes_iff _ _).1 h).1
    revert this
    decide +kernel

/-- **`-a^2`** ↦ `Prohibit(Boost(a, 2))`: the suffix `^` binds tighter than the prefixes -/
def ex2 : Tree := .unary .prohibit (.boost (w "a") two {}) {}

theorem ex2_parse : parsesTo "-a^2" ex2 = true := by decide +kernel

theorem ex2_keys : keysOf "-a^2" = [(.minus, ['-']), T "a", (.boost, ['^', '2'])] := by decide +kernel

theorem two_boost : DecNumeral boostDflt ['2'] two :=
  .given (d := { coeff := 2 }) (by decide) rfl (by decide) (by decide)

theorem ex2_denotes : Denotes .implicit [(.minus, ['-']), T "a", (.boost, ['^', '2'])] ex2 :=
  .looser (a := .prefix) (by decide) <| .minus <| .looser (a := .suffix) (by decide) <|
    .boost (dWord "a") two_boost

/-- `Boost(Prohibit(a), 2)` is not denoted by these tokens (it is written `(-a)^2`) -/
theorem ex2_other :
    ¬ Denotes .implicit [(.minus, ['-']), T "a", (.boost, ['^', '2'])]
        (.boost (.unary .prohibit (w "a") {}) two {}) := by
  intro h
  have := ((denotes_iff _ _).1 h).1
  revert this
  decide +kernel

/-- **`NOT a AND b`** ↦ `And(Not(a), b)`: the prefixes bind tighter than AND -/
def ex3 : Tree := .op .and [.unary .not (w "a") {}, w "b"] {}

theorem ex3_parse : parsesTo "NOT a AND b" ex3 = true := by decide +kernel

theorem ex3_keys : keysOf "NOT a AND b" = [tNOT, T "a", tAND, T "b"] := by decide +kernel

theorem ex3_denotes : Denotes .implicit [tNOT, T "a", tAND, T "b"] ex3 :=
  .looser (a := .and) (by decide) <|
    .and _ {} (by decide) <| ops_cons (.not (dWord "a")) <| ops_cons (dWord "b") ops_nil

theorem ex3_other :
    ¬ Denotes .implicit [tNOT, T "a", tAND, T "b"] (.unary .not (.op .and [w "a", w "b"] {}) {}) := by
  intro h
  have := ((denotes_iff _ _).1 h).1
  revert this
  decide +kernel

/-- **`f:a b`** ↦ `Unknown(SearchField(f, a), b)`: `field:` binds tighter than juxtaposition -/
def ex4 : Tree := .op .unk [.field ['f'] (w "a") {}, w "b"] {}

theorem ex4_parse : parsesTo "f:a b" ex4 = true := by decide +kernel

theorem ex4_keys : keysOf "f:a b" = [T "f", (.column, [':']), T "a", T "b"] := by decide +kernel

theorem ex4_denotes : Denotes .implicit [T "f", (.column, [':']), T "a", T "b"] ex4 :=
  .implicit _ {} (by decide) <|
    ops_cons (.looser (a := .prefix) (by decide) (.field (by decide) (dWord "a") rfl)) <|
    ops_cons (dWord "b") ops_nil

/-- **`f:(a b)`** ↦ `SearchField(f, FieldGroup(Unknown(a, b)))`: a parenthesis directly after `field:`
is a field group -/
def ex5 : Tree := .field ['f'] (.group .fieldGroup (.op .unk [w "a", w "b"] {}) {}) {}

theorem ex5_parse : parsesTo "f:(a b)" ex5 = true := by decide +kernel

theorem ex5_keys : keysOf "f:(a b)" =
    [T "f", (.column, [':']), (.lparen, ['(']), T "a", T "b", (.rparen, [')'])] := by decide +kernel

theorem ex5_denotes :
    Denotes .implicit [T "f", (.column, [':']), (.lparen, ['(']), T "a", T "b", (.rparen, [')'])] ex5 :=
  .looser (a := .prefix) (by decide) <|
    .fieldGroup (toks := [T "a", T "b"]) (by decide) <|
      .implicit _ {} (by decide) <| ops_cons (dWord "a") <| ops_cons (dWord "b") ops_nil

/-- … it is not a `Group` there, and elsewhere a parenthesis is not a `FieldGroup` -/
theorem ex5_others :
    ¬ Denotes .implicit [T "f", (.column, [':']), (.lparen, ['(']), T "a", T "b", (.rparen, [')'])]
        (.field ['f'] (.group .group (.op .unk [w "a", w "b"] {}) {}) {}) ∧
    ¬ Denotes .implicit [(.lparen, ['(']), T "a", T "b", (.rparen, [')'])]
        (.group .fieldGroup (.op .unk [w "a", w "b"] {}) {}) ∧
    Denotes .implicit [(.lparen, ['(']), T "a", T "b", (.rparen, [')'])]
        (.group .group (.op .unk [w "a", w "b"] {}) {}) := by
  refine ⟨?_, ?_, ?_⟩
  · intro h
    have := ((denotes_iff _ _).1 h).1
    revert this
    decide +kernel
  · intro h
    have := ((denotes_iff _ _).1 h).1
    revert this
    decide +kernel
  · exact .looser (a := .atom) (by decide) <| .group (toks := [T "a", T "b"]) <|
      .implicit _ {} (by decide) <| ops_cons (dWord "a") <| ops_cons (dWord "b") ops_nil

/-- **`a AND b -c`** ↦ `Unknown(And(a, b), Prohibit(c))`: `-` starts a new operand of the
juxtaposition, it does not continue the AND chain -/
def ex6 : Tree := .op .unk [.op .and [w "a", w "b"] {}, .unary .prohibit (w "c") {}] {}

theorem ex6_parse : parsesTo "a AND b -c" ex6 = true := by decide +kernel

theorem ex6_keys : keysOf "a AND b -c" = [T "a", tAND, T "b", (.minus, ['-']), T "c"] := by
  decide +kernel

theorem ex6_denotes : Denotes .implicit [T "a", tAND, T "b", (.minus, ['-']), T "c"] ex6 :=
  .implicit _ {} (by decide) <|
    ops_cons
      (.looser (a := .and) (by decide) <|
        .and _ {} (by decide) <| ops_cons (dWord "a") <| ops_cons (dWord "b") ops_nil) <|
    ops_cons (.looser (a := .prefix) (by decide) (.minus (dWord "c"))) ops_nil

theorem ex6_other :
    ¬ Denotes .implicit [T "a", tAND, T "b", (.minus, ['-']), T "c"]
        (.op .and [w "a", .op .unk [w "b", .unary .prohibit (w "c") {}] {}] {}) := by
  intro h
  have := ((denotes_iff _ _).1 h).1
  revert this
  decide +kernel

/-- **"reserved words are operators only as whole unescaped tokens"**: `ANDx`, `\AND`, `and` (and
`xAND`, `NOTE`, `TOx`) are words -/
theorem ex7_keys :
    keysOf "ANDx" = [T "ANDx"] ∧ keysOf "\\AND" = [T "\\AND"] ∧ keysOf "and" = [T "and"] ∧
    keysOf "xAND" = [T "xAND"] ∧ keysOf "NOTE" = [T "NOTE"] ∧ keysOf "TOx" = [T "TOx"] := by
  decide +kernel

theorem ex7_parse :
    parsesTo "ANDx" (w "ANDx") = true ∧ parsesTo "\\AND" (w "\\AND") = true ∧
    parsesTo "and" (w "and") = true ∧ parsesTo "a and b" (.op .unk [w "a", w "and", w "b"] {}) = true ∧
    parsesTo "a \\AND b" (.op .unk [w "a", w "\\AND", w "b"] {}) = true ∧
    parsesTo "a ANDx b" (.op .unk [w "a", w "ANDx", w "b"] {}) = true := by decide +kernel

theorem ex7_denotes :
    Denotes .implicit [T "ANDx"] (w "ANDx") ∧ Denotes .implicit [T "\\AND"] (w "\\AND") ∧
    Denotes .implicit [T "and"] (w "and") ∧
    Denotes .implicit [T "a", T "and", T "b"] (.op .unk [w "a", w "and", w "b"] {}) :=
  ⟨dWord "ANDx", dWord "\\AND", dWord "and",
   .implicit _ {} (by decide) <| ops_cons (dWord "a") <| ops_cons (dWord "and") <|
     ops_cons (dWord "b") ops_nil⟩

/-- … whereas the word `AND` is not denoted by anything: the token `AND` is of kind `AND_OP`, and no
rule makes a word of it -/
theorem ex7_reserved (toks : List Token) (l : Lay) :
    ¬ Denotes .implicit toks (.term .word "AND".toList l) := by
  intro h
  have := ((denotes_iff _ _).1 h).1
  revert this
  simp [Parseable, TextOK, show reservedKind ['A', 'N', 'D'] = .andOp by decide]

/-- **`TO` alone is a word** (`p_to_as_term`); inside brackets it separates the bounds -/
theorem ex8_parse :
    parsesTo "TO" (w "TO") = true ∧
    parsesTo "a TO b" (.op .unk [w "a", w "TO", w "b"] {}) = true ∧
    parsesTo "[a TO b}" (.range (w "a") (w "b") true false {}) = true := by decide +kernel

theorem ex8_keys :
    keysOf "TO" = [(.to, "TO".toList)] ∧
    keysOf "[a TO b}" = [(.lbracket, ['[']), T "a", (.to, "TO".toList), T "b", (.rbracket, ['}'])] := by
  decide +kernel

theorem ex8_denotes :
    Denotes .implicit [(.to, "TO".toList)] (w "TO") ∧
    Denotes .implicit [(.lbracket, ['[']), T "a", (.to, "TO".toList), T "b", (.rbracket, ['}'])]
      (.range (w "a") (w "b") true false {}) :=
  ⟨.looser (a := .atom) (by decide) .toWord,
   .looser (a := .atom) (by decide) <|
     .range (includeLow := true) (includeHigh := false)
       (.plain (.word (by decide))) (.plain (.word (by decide)))⟩

/-- `TO` is not a range bound, nor fuzzy, nor a field name -/
theorem ex8_others :
    (∀ toks, ¬ Denotes .implicit toks (.range (w "TO") (w "b") true true {})) ∧
    (∀ toks n, ¬ Denotes .implicit toks (.approx .fuzzy (w "TO") n {})) ∧
    (∀ toks, ¬ Denotes .implicit toks (.field "TO".toList (w "a") {})) := by
  have hr : reservedKind ['T', 'O'] = .to := by decide
  refine ⟨?_, ?_, ?_⟩ <;>
  · intros
    intro h
    have := ((denotes_iff _ _).1 h).1
    revert this
    simp [Parseable, TextOK, boundText, wordTerm, hr]

/-- **`<`, `<=`, `>`, `>=`** -/
theorem ex9_parse :
    parsesTo "<5" (.orange .to (w "5") false {}) = true ∧
    parsesTo "<=5" (.orange .to (w "5") true {}) = true ∧
    parsesTo ">5" (.orange .from (w "5") false {}) = true ∧
    parsesTo ">=\"x\"" (.orange .from (ph "\"x\"") true {}) = true := by decide +kernel

theorem ex9_denotes :
    Denotes .implicit [(.lessthan, ['<']), T "5"] (.orange .to (w "5") false {}) ∧
    Denotes .implicit [(.lessthan, ['<', '=']), T "5"] (.orange .to (w "5") true {}) ∧
    Denotes .implicit [(.greaterthan, ['>']), T "5"] (.orange .from (w "5") false {}) ∧
    Denotes .implicit [(.greaterthan, ['>', '=']), (.phrase, "\"x\"".toList)]
      (.orange .from (ph "\"x\"") true {}) :=
  ⟨.looser (a := .atom) (by decide) (.lessThan (inclusive := false) (.word (by decide))),
   .looser (a := .atom) (by decide) (.lessThan (inclusive := true) (.word (by decide))),
   .looser (a := .atom) (by decide) (.greaterThan (inclusive := false) (.word (by decide))),
   .looser (a := .atom) (by decide) (.greaterThan (inclusive := true) .phrase)⟩

/-- the examples, through the theorems: the parser returns a tree equal to the one derived -/
example : ∃ t', parse "a b OR c AND d".toList = .ok t' ∧ t'.eqv ex1 = true :=
  denotes_parse _ _ ex1 ex1_denotes (by decide +kernel) ex1_keys

example (t : Tree) (h : parse "a AND b -c".toList = .ok t) : t.eqv ex6 = true :=
  denotes_eq_parse _ t ex6 h (by rw [show (lex "a AND b -c".toList).1.map tokKey = _ from ex6_keys]
                                 exact ex6_denotes)

/-! ### (4) non-vacuity: the sample tree of C03c -/

theorem decNumeral_of_ok {dflt : Dec} {n : Num} (h : numOK (decNum · dflt) n = true) :
    DecNumeral dflt n.source n := (decNumeral_iff dflt _ n).2 ⟨rfl, h⟩

theorem intNumeral_of_ok {n : Num} (h : numOK intNum n = true) : IntNumeral n.source n :=
  (intNumeral_iff _ n).2 ⟨rfl, h⟩

/-- the token keys of `C03c.sampleText` -/
def sampleKeys : List Token :=
  [T "a", tAND, tNOT, T "b", tOR, (.plus, ['+']), T "c", (.approx, ['~']), (.boost, ['^', '2']),
   (.minus, ['-']), T "f", (.column, [':']), (.lparen, ['(']), T "x", (.phrase, "\"y z\"".toList),
   (.rparen, [')']),
   (.lparen, ['(']), (.lbracket, ['[']), (.minus, ['-']), T "1", (.to, "TO".toList),
   (.phrase, "\"9\"".toList), (.rbracket, ['}']), (.rparen, [')']),
   (.phrase, "\"p q\"".toList), (.approx, ['~', '3']),
   (.greaterthan, ['>', '=']), T "5", (.boost, "^2.50".toList),
   (.lessthan, ['<']), T "6",
   (.regex, "/re/".toList),
   (.to, "TO".toList)]

theorem sample_keys : keysOf C03c.sampleText = sampleKeys := by decide +kernel

/-- **non-vacuity**: the sample tree of C03c (AND, OR, juxtaposition, `+`, `-`, NOT, a field with a
field group, a group, a range with a negative bound, a fuzzy with implicit degree, a proximity,
boosts, `>=`, `<`, a regex, `TO` as a word) is denoted by the tokens of the sample text — an explicit
derivation; every rule of the grammar except `field` is used (for that one: `ex4_denotes`,
`nested_prefixes`) -/
theorem sample_denotes : Denotes .implicit sampleKeys C03c.sample :=
  .implicit _ {} (by decide) <|
    -- a AND NOT b OR +c~^2
    ops_cons
      (.or _ {} (by decide) <|
        ops_cons
          (.and _ {} (by decide) <| ops_cons (dWord "a") <| ops_cons (.not (dWord "b")) ops_nil) <|
        ops_cons
          (.looser (a := .prefix) (by decide) <| .plus <| .looser (a := .suffix) (by decide) <|
            .boost (src := ['2'])
              (.fuzzy (w := ['c']) (src := []) (by decide) (.absent rfl (by decide)))
              (.given (d := { coeff := 2 }) (by decide) rfl (by decide) (by decide)))
        ops_nil) <|
    -- -f:(x "y z")
    ops_cons
      (.looser (a := .prefix) (by decide) <| .minus <|
        .fieldGroup (toks := [T "x", (.phrase, "\"y z\"".toList)]) (by decide) <|
          .implicit _ {} (by decide) <| ops_cons (dWord "x") <|
            ops_cons (.looser (a := .atom) (by decide) .phrase) ops_nil) <|
    -- ([-1 TO "9"})
    ops_cons
      (.looser (a := .atom) (by decide) <|
        .group (toks := [(.lbracket, ['[']), (.minus, ['-']), T "1", (.to, "TO".toList),
            (.phrase, "\"9\"".toList), (.rbracket, ['}'])]) <|
          .looser (a := .atom) (by decide) <|
            .range (includeLow := true) (includeHigh := false)
              (.negative (.word (by decide))) (.plain .phrase)) <|
    -- "p q"~3
    ops_cons
      (.looser (a := .suffix) (by decide) <|
        .proximity (src := ['3']) (.given (k := 3) (by decide) rfl (by decide) (by decide))) <|
    -- >=5^2.50
    ops_cons
      (.looser (a := .suffix) (by decide) <|
        .boost (src := "2.50".toList)
          (.looser (a := .atom) (by decide) (.greaterThan (inclusive := true) (.word (by decide))))
          (.given (d := { coeff := 250, exp := -2 }) (by decide) rfl (by decide) (by decide))) <|
    -- <6
    ops_cons (.looser (a := .atom) (by decide) (.lessThan (inclusive := false) (.word (by decide)))) <|
    -- /re/
    ops_cons (.looser (a := .atom) (by decide) .regex) <|
    -- TO
    ops_cons (.looser (a := .atom) (by decide) .toWord)
    ops_nil

/-- … so, by `denotes_parse`, the sample text parses into a tree equal to the sample -/
example : ∃ t', parse C03c.sampleText.toList = .ok t' ∧ t'.eqv C03c.sample = true :=
  denotes_parse _ _ _ sample_denotes (by decide +kernel) sample_keys

/-- … and by `parse_denotes` the parse tree of the sample text is denoted too -/
example (t : Tree) (h : parse C03c.sampleText.toList = .ok t) : Denotes .implicit sampleKeys t := by
  have := parse_denotes _ t h
  rwa [show (lex C03c.sampleText.toList).1.map tokKey = sampleKeys from sample_keys] at this

/-- the same through `denotes_iff` (no derivation written by hand) -/
example : Denotes .implicit (yield C03c.sample) C03c.sample :=
  (denotes_iff _ _).2 ⟨by decide +kernel, rfl⟩

/-- the remaining rule: a field whose value is not a parenthesis, with nested prefixes on both sides
(`-f:+a^2` ↦ `Prohibit(SearchField(f, Plus(Boost(a, 2))))`) -/
theorem nested_prefixes :
    parsesTo "-f:+a^2" (.unary .prohibit (.field ['f'] (.unary .plus (.boost (w "a") two {}) {}) {}) {})
      = true ∧
    Denotes .implicit [(.minus, ['-']), T "f", (.column, [':']), (.plus, ['+']), T "a", (.boost, ['^', '2'])]
      (.unary .prohibit (.field ['f'] (.unary .plus (.boost (w "a") two {}) {}) {}) {}) :=
  ⟨by decide +kernel,
   .looser (a := .prefix) (by decide) <| .minus <| .field (by decide)
     (.plus <| .looser (a := .suffix) (by decide) <| .boost (dWord "a") two_boost) rfl⟩

/-- syntax errors are exactly the token sequences without a derivation: `a AND` has none -/
example : ¬ ∃ t, Denotes .implicit (keysOf "a AND") t := by
  rintro ⟨t, h⟩
  obtain ⟨t', h', _⟩ := denotes_parse "a AND".toList _ t h (by decide +kernel) rfl
  have : (match parse "a AND".toList with | .ok _ => true | .error _ => false) = false := by
    decide +kernel
  rw [h'] at this
  cases this

/-- numerals: `a^1.2.3` has no derivation (`Decimal('1.2.3')` fails), and `a^2` does not denote a
boost by 3 -/
example :
    (∀ n l, ¬ Denotes .implicit [T "a", (.boost, "^1.2.3".toList)] (.boost (w "a") n l)) ∧
    ¬ Denotes .implicit [T "a", (.boost, ['^', '2'])]
        (.boost (w "a") { val := { coeff := 3 }, raw := ['2'] } {}) := by
  constructor
  · intro n l h
    obtain ⟨hp, hy⟩ := (denotes_iff _ _).1 h
    simp only [yield, List.cons_append, List.nil_append, List.cons.injEq, Prod.mk.injEq, true_and,
      and_true] at hy
    have hs : n.source = ['1', '.', '2', '.', '3'] := by simpa using hy.2
    have hd : Dec.ofLiteral ['1', '.', '2', '.', '3'] = none := by decide +kernel
    simp [Parseable, TextOK, numOK, srcValue, hs, decNum, hd] at hp
  · intro h
    have := ((denotes_iff _ _).1 h).1
    revert this
    decide +kernel

end Luqum.Props.C03d
