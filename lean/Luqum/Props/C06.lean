/-
  C06 — Each query term becomes exactly one Elasticsearch clause, on the right field, with the right
  name and modifiers, in document order.

  `ElasticsearchQueryBuilder(**cfg)(tree)` is `esBuild cfg tree` (`Luqum.Model.Es`): a function of the
  configuration and the tree — the builder keeps no state between calls, so determinism (same
  configuration, same tree, same JSON) is definitional; there is nothing to prove beyond that.

  Definitions (`Luqum.Lemmas.EsLeaves`, `EsLeavesSpec`, `EsLeavesChar`):
  * `leaves j`: the leaf clauses of the JSON query `j` in document order: a clause whose first key is
    `bool` stands for the clauses in the lists of its value (`must`, `should`, `must_not`: in the order
    of the keys), a clause whose first key is `nested` for the clauses of its `query`, any other
    clause (`isLeafClause`) is a leaf.
  * `expectedItems cfg t` (`expItems cfg {} .top [] t`): one item per word / phrase / range of `t` (range
    bounds are no terms of their own, a regex yields nothing), in document order, by direct top-down
    recursion on the query, independent of the visitor. Each term gets
      - the field path, analysed marker and nearest name of the context `x : EsCtx` accumulated from
        the enclosing nodes (`fieldCtxL`, `pushName`; the term's own name wins: `ownName`);
      - the pending modifiers `ms : List Mod` (innermost first): boost / fuzziness / slop of the
        enclosing `^` / `~` (a proximity on a non-analysed field acts as fuzziness; slop is only set on
        phrases), and `zero_terms_query` = "all" / "none" when the term is a DIRECT operand of a
        conjunction (`AND`, `+`, implicit operation with default MUST) / a negation (`NOT`, `-`).
        An operation, a unary operator, and a field that gets a `nested` wrapper (`reachesNested`) reset
        the pending modifiers: `(a b)^2` boosts nothing; groups and plain fields let them through.
      - `u : Up` records of which operation the node is a direct operand: an operand of exactly the
        same class is flattened into it (`simplify_if_same`; also `++a`) and its own name is NOT
        propagated (the visitor enters the operands with the context of the parent).
    `expectedLeaves cfg t` is their JSON.
  * read off the query alone: `countTerms t` (number of words and phrases outside ranges + number of
    ranges), `expFields cfg none t` (field path of each term: the '.'-separated components of the names
    of the enclosing `SearchField`s, or `[default_field]`), `expNames none .top t` (the `_name` of each
    term: its own name, even an empty one; else the non-empty name of the nearest enclosing node that
    is not flattened away).

  Theorems (NO `Supported` hypothesis is needed: whenever the builder returns a JSON, it is right):
  * `leaves_eq_expected`   : `cfgPlain cfg`, `noBool t`, `esBuild cfg t = .ok j` ⊢ `leaves j = expectedLeaves cfg t`
                             (as lists, in document order);
  * `leaves_perm_expected` : the same without `noBool t`, as multisets (`List.Perm`): an
                             `EBoolOperation` regroups its operands into must / should / must_not;
  * `leaves_length`        : (1) `(leaves j).length = countTerms t`;
  * `build_ok`, `eLeaves_perm_expected`, `eLeaves_eq_expected`: the same on the items of the E-tree
                             the visitor returns (no hypothesis on the configuration);
  * `expected_fields`      : (2) `(expectedItems cfg t).map (·.fields) = expFields cfg none t`, and
                             `json_field`: where `joinDot i.fields` appears in the clause of an item;
  * `expected_names`       : (3) `(expectedItems cfg t).map (·.name) = expNames none .top t`;
  * `leaf_is_expected`     : every leaf clause is the JSON of an expected item;
  * `json_default_field`   : in a `query_string` clause the field name is the `default_field`;
  * `every_term_one_clause`: with C07 (`translated`): a supported query without container-field misuse
                             and without AND/OR mix IS translated, and the above holds of its JSON.

  Hypotheses: `cfgPlain cfg` — no field option asks for the match type `bool` / `nested` (else the
  clause of a term would itself read as a compound clause; negative witness below); `noBool t` for the
  order (negative witness below). The proofs are on `visitS` (`Luqum.Lemmas.EsStruct`).
-/
import Luqum.Lemmas.EsLeavesChar
import Luqum.Props.C07

namespace Luqum.Props.C06
open Luqum Luqum.Lemmas.Es

export Luqum.Lemmas.Es (leaves leavesBool leavesParts leavesPart leavesList leavesNested leavesQuery
  eLeaves eLeavesL eBoolPart eItems eItemsL Mod actAll Up flatOp flatUn unUp zeroMods pushName ownName
  fieldCtxL reachesNested wordItem phraseItem rangeItem expItems expItemsL countTerms countTermsL
  expFields expFieldsL pathOr pushNm ownNm expNames expNamesL noBool noBoolL cfgPlain isLeafClause)

/-- the items expected for the terms of the query, in document order -/
def expectedItems (c : EsCfg) (t : Tree) : List EItem := expItems c {} .top [] t

/-- the clauses expected for the terms of the query, in document order -/
def expectedLeaves (c : EsCfg) (t : Tree) : List JVal := (expectedItems c t).map (EItem.json c)

/-! ### the E-tree returned by the visitor -/

/-- a successful build is the JSON of the single E-node the visitor returns -/
theorem build_ok (c : EsCfg) (t : Tree) (j : JVal) (h : esBuild c t = .ok j) :
    ∃ e, esVisit c {} t = .ok [e] ∧ j = e.json c := by
  unfold esBuild at h
  split at h
  · cases h
  · split at h
    · cases h
    · cases h
    · rename_i e rest hv
      cases h
      have hl := visitS_none_length c t {} _ (by rw [← esVisit_eq]; exact hv)
      cases rest with
      | nil => exact ⟨e, hv, rfl⟩
      | cons a r => simp at hl

/-- the items of the returned E-node, in the order of the E-tree, are the expected ones; all of them
have one of the builder's methods -/
theorem visit_items (c : EsCfg) (t : Tree) (e : ETree) (h : esVisit c {} t = .ok [e]) :
    eItems e = expectedItems c t ∧ allItems okItem e = true := by
  rw [esVisit_eq] at h
  constructor
  · have := visitS_items c t {} none [] [e] .none h
    simp only [actL_nil, eItemsL, List.append_nil] at this
    exact this
  · have := visitS_okItems c t {} none [e] h
    simpa only [allItemsL, Bool.and_true] using this

/-- up to the regrouping of Lucene-boolean operations, the clauses of the E-tree are the expected items -/
theorem eLeaves_perm_expected (c : EsCfg) (t : Tree) (e : ETree) (h : esVisit c {} t = .ok [e]) :
    (eLeaves e).Perm (expectedItems c t) :=
  (visit_items c t e h).1 ▸ eLeaves_perm e

/-- without Lucene-boolean operation: in document order -/
theorem eLeaves_eq_expected (c : EsCfg) (t : Tree) (e : ETree) (hb : noBool t = true)
    (h : esVisit c {} t = .ok [e]) : eLeaves e = expectedItems c t := by
  have hn : noBoolOp e = true := by
    have := visitS_noBoolOp c t {} none [e] hb (by rw [← esVisit_eq]; exact h)
    simpa only [noBoolOpL, Bool.and_true] using this
  rw [eLeaves_eq e hn, (visit_items c t e h).1]

/-! ### the leaf clauses of the JSON -/

/-- the leaf clauses of a built query are the JSON of the items of the E-tree -/
theorem leaves_build (c : EsCfg) (t : Tree) (j : JVal) (hc : cfgPlain c = true) (h : esBuild c t = .ok j) :
    ∃ e, esVisit c {} t = .ok [e] ∧ leaves j = (eLeaves e).map (EItem.json c) := by
  obtain ⟨e, he, rfl⟩ := build_ok c t j h
  exact ⟨e, he, leaves_json c hc e (visit_items c t e he).2⟩

/-- **C06.** For a query without Lucene-boolean operation, the leaf clauses of the built JSON are, in
document order, exactly the clauses expected for its terms: one per word / phrase / range. -/
theorem leaves_eq_expected (c : EsCfg) (t : Tree) (j : JVal) (hc : cfgPlain c = true)
    (hb : noBool t = true) (h : esBuild c t = .ok j) : leaves j = expectedLeaves c t := by
  obtain ⟨e, he, hl⟩ := leaves_build c t j hc h
  rw [hl, eLeaves_eq_expected c t e hb he]; rfl

/-- **C06** with Lucene-boolean operations: the same as multisets — a `bool` clause built for `a +b -c`
lists its `must` operands first, then the `should` ones, then the `must_not` ones. -/
theorem leaves_perm_expected (c : EsCfg) (t : Tree) (j : JVal) (hc : cfgPlain c = true)
    (h : esBuild c t = .ok j) : (leaves j).Perm (expectedLeaves c t) := by
  obtain ⟨e, he, hl⟩ := leaves_build c t j hc h
  rw [hl]; exact (eLeaves_perm_expected c t e he).map _

/-- **(1)** as many leaf clauses as the query has words, phrases (outside ranges) and ranges -/
theorem leaves_length (c : EsCfg) (t : Tree) (j : JVal) (hc : cfgPlain c = true)
    (h : esBuild c t = .ok j) : (leaves j).length = countTerms t := by
  rw [(leaves_perm_expected c t j hc h).length_eq, expectedLeaves, List.length_map, expectedItems,
    expItems_length]

/-- every leaf clause is the clause of an expected item -/
theorem leaf_is_expected (c : EsCfg) (t : Tree) (j : JVal) (hc : cfgPlain c = true)
    (h : esBuild c t = .ok j) (lf : JVal) (hl : lf ∈ leaves j) :
    ∃ i ∈ expectedItems c t, lf = i.json c := by
  have := (leaves_perm_expected c t j hc h).mem_iff.1 hl
  obtain ⟨i, hi, rfl⟩ := List.mem_map.1 this
  exact ⟨i, hi, rfl⟩

/-- with C07: a supported query without container-field misuse and without AND/OR mix is translated,
with exactly one leaf clause per term: the expected ones, in document order when there is no
Lucene-boolean operation -/
theorem every_term_one_clause (c : EsCfg) (t : Tree) (hc : cfgPlain c = true) (hs : Supported t = true)
    (hm : misuse c t = none) (hx : Mix c t = false) :
    ∃ j, esBuild c t = .ok j ∧ (leaves j).Perm (expectedLeaves c t) ∧ (leaves j).length = countTerms t ∧
      (noBool t = true → leaves j = expectedLeaves c t) := by
  obtain ⟨j, hj⟩ := Luqum.Props.C07.translated c t hs hm hx
  exact ⟨j, hj, leaves_perm_expected c t j hc hj, leaves_length c t j hc hj,
    fun hb => leaves_eq_expected c t j hc hb hj⟩

/-- the same number of items in the E-tree, whatever the configuration -/
theorem eLeaves_length (c : EsCfg) (t : Tree) (e : ETree) (h : esVisit c {} t = .ok [e]) :
    (eLeaves e).length = countTerms t := by
  rw [(eLeaves_perm_expected c t e h).length_eq, expectedItems, expItems_length]

/-! ### (2) the field of each clause -/

/-- **(2)** the k-th expected item is on the field path of the k-th term: the '.'-separated components
of the names of the enclosing `SearchField`s, or the default field when there is none -/
theorem expected_fields (c : EsCfg) (t : Tree) :
    (expectedItems c t).map (·.fields) = expFields c none t :=
  expItems_fields c t {} .top []

/-- every item of the returned E-tree is on the field path of one of the terms -/
theorem item_fields (c : EsCfg) (t : Tree) (e : ETree) (h : esVisit c {} t = .ok [e]) :
    ((eLeaves e).map (·.fields)).Perm (expFields c none t) :=
  expected_fields c t ▸ (eLeaves_perm_expected c t e h).map _

theorem item_fields_eq (c : EsCfg) (t : Tree) (e : ETree) (hb : noBool t = true)
    (h : esVisit c {} t = .ok [e]) : (eLeaves e).map (·.fields) = expFields c none t := by
  rw [eLeaves_eq_expected c t e hb h, expected_fields]

/-- where the field name `joinDot i.fields` of an item appears in its clause: as the `field` of an
`exists` clause, nowhere visible in a `query_string` (there it is the `default_field`, see
`json_default_field`) / `multi_match` clause, else as the single inner key `{method: {field: {…}}}` -/
theorem json_field (c : EsCfg) (i : EItem) :
    (∃ r, i.json c = .obj [("exists".toList, .obj (("field".toList, .str (joinDot i.fields)) :: r))]) ∨
    ((i.method c = "query_string".toList ∨ i.method c = "multi_match".toList) ∧
      ∃ inner, i.json c = .obj [(i.method c, .obj inner)]) ∨
    (∃ inner, i.json c = .obj [(i.method c, .obj [(joinDot i.fields, .obj inner)])]) := by
  unfold EItem.json
  extract_lets field nameKv
  split
  · exact .inl ⟨_, rfl⟩
  · split
    · rename_i hm
      refine .inr (.inl ⟨?_, _, rfl⟩)
      simpa only [Bool.or_eq_true, beq_iff_eq] using hm
    · exact .inr (.inr ⟨_, rfl⟩)

/-- in a `query_string` clause (a word with a wildcard on an analysed field) the field name is the
`default_field` -/
theorem json_default_field (c : EsCfg) (i : EItem) (q : Str)
    (hm : i.method c = "query_string".toList) (hk : i.kind ≠ .range) (hq : i.q = some q)
    (hne : ¬ (i.kind == .word && i.q == some ['*']) = true) :
    ∃ inner, i.json c = .obj [("query_string".toList, .obj inner)] ∧
      jget inner "default_field".toList = some (.str (joinDot i.fields)) :=
  Lemmas.Es.json_default_field c i q hm hk hq hne

/-! ### (3) the name of each clause -/

/-- **(3)** the k-th expected item carries the name of the k-th term: its own name (even an empty
one), else the non-empty name of the nearest enclosing node — an operation flattened into the
operation of the same kind it is an operand of (and a `+` directly below a `+`) does not count -/
theorem expected_names (c : EsCfg) (t : Tree) :
    (expectedItems c t).map (·.name) = expNames none .top t :=
  expItems_names c t {} .top []

theorem item_names (c : EsCfg) (t : Tree) (e : ETree) (h : esVisit c {} t = .ok [e]) :
    ((eLeaves e).map (·.name)).Perm (expNames none .top t) :=
  expected_names c t ▸ (eLeaves_perm_expected c t e h).map _

theorem item_names_eq (c : EsCfg) (t : Tree) (e : ETree) (hb : noBool t = true)
    (h : esVisit c {} t = .ok [e]) : (eLeaves e).map (·.name) = expNames none .top t := by
  rw [eLeaves_eq_expected c t e hb h, expected_names]

/-! ### non-vacuity, and necessity of the hypotheses -/

section Examples

attribute [local instance] jvalDecEq

private def w (s : String) : Tree := .term .word s.toList {}
private def named (s : String) : Lay := { name := some s.toList }
private def num (n : Nat) : Num := { val := { coeff := n } }
private def leavesOf : Except EsErr JVal → Option (List JVal)
  | .ok j => some (leaves j)
  | .error _ => none

/-- `tag` is not analysed, `author.name` is a nested field, `title` is matched as a phrase -/
private def cfg : EsCfg :=
  { notAnalyzed := ["tag".toList],
    nested := .dict [("author".toList, .list ["name".toList])],
    fieldOptions := [("title".toList, [("match_type".toList, .str "match_phrase".toList)])] }

/-- `a AND b AND (title:c~2)^3 AND (author.name:"x  y"~1 OR (d e)^4) AND NOT tag:[1 TO 5} AND ++tag:"p q"~1`
where `a` is named na, the inner `b AND …` (flattened into the outer AND) is named inner, the boost bst,
the OR or, the field `author.name` fld, the NOT neg, and the inner `+` (flattened) pp -/
private def good : Tree :=
  .op .and [
    .term .word "a".toList (named "na"),
    .op .and [w "b",
      .boost (.group .group (.field "title".toList (.approx .fuzzy (w "c") (num 2) {}) {}) {}) (num 3) (named "bst")]
      (named "inner"),
    .group .group (.op .or [
      .field "author.name".toList (.approx .proximity (.term .phrase "\"x  y\"".toList {}) (num 1) {}) (named "fld"),
      .boost (.group .group (.op .unk [w "d", w "e"] {}) {}) (num 4) {}] (named "or")) {},
    .unary .not (.field "tag".toList (.range (w "1") (w "5") true false {}) {}) (named "neg"),
    .unary .plus (.unary .plus
      (.field "tag".toList (.approx .proximity (.term .phrase "\"p q\"".toList {}) (num 1) {}) {}) (named "pp")) {}] {}

example : cfgPlain cfg = true := by decide
example : noBool good = true := by decide
/-- the hypotheses of `leaves_eq_expected` hold, and so does its conclusion -/
example : leavesOf (esBuild cfg good) = some (expectedLeaves cfg good) := by rw [esBuild_eq]; decide +kernel
example : countTerms good = 8 := by decide
/-- and the hypotheses of `every_term_one_clause` -/
example : Supported good = true ∧ misuse cfg good = none ∧ Mix cfg good = false := by decide
/-- (field path, name, boost, fuzziness, slop, zero_terms_query, method) of the expected items:
`inner` and `pp` are lost (flattened), `(d e)^4` boosts nothing, the boost and the name of `(title:c~2)^3`
reach `c` through the group and the field, the proximity is a slop on the analysed `author.name` and a
fuzziness on the non-analysed `tag`, direct operands of AND and `+` get "all" -/
example : (expectedItems cfg good).map (fun i => (i.fields.map String.ofList, i.name.map String.ofList,
      String.ofList i.zeroTerms, String.ofList i.method0)) =
    [(["text"], some "na", "all", "match"),
     (["text"], none, "all", "match"),
     (["title"], some "bst", "all", "fuzzy"),
     (["author", "name"], some "fld", "none", "match_phrase"),
     (["text"], some "or", "none", "match"),
     (["text"], some "or", "none", "match"),
     (["tag"], some "neg", "none", "range"),
     (["tag"], none, "all", "fuzzy")] := by decide
example : (expectedItems cfg good).map (fun i => (i.boost.map (·.coeff), i.fuzzy.map (·.coeff),
      i.slop.map (·.coeff))) =
    [(none, none, none), (none, none, none), (some 3, some 2, none), (none, none, some 1),
     (none, none, none), (none, none, none), (none, none, none), (none, some 1, none)] := by decide
example : (expFields cfg none good).map (·.map String.ofList) =
    [["text"], ["text"], ["title"], ["author", "name"], ["text"], ["text"], ["tag"], ["tag"]] := by decide
example : (expNames none .top good).map (·.map String.ofList) =
    [some "na", none, some "bst", some "fld", some "or", some "or", some "neg", none] := by decide
/-- the clause of the first and of the fourth term -/
example : (leavesOf (esBuild cfg good)).map (·.take 1) = some [
    .obj [("match".toList, .obj [("text".toList, .obj [("_name".toList, .str "na".toList),
      ("query".toList, .str "a".toList), ("zero_terms_query".toList, .str "all".toList)])])]] := by
  rw [esBuild_eq]; decide
example : (leavesOf (esBuild cfg good)).map (fun ls => (ls.drop 3).take 1) = some [
    .obj [("match_phrase".toList, .obj [("author.name".toList, .obj [("_name".toList, .str "fld".toList),
      ("query".toList, .str "x y".toList), ("slop".toList, .num { coeff := 1 })])])]] := by
  rw [esBuild_eq]; decide

/-- NEGATIVE witness for `noBool`: `a +b -c` as a Lucene-boolean operation. The `bool` clause lists
must (b), should (a), must_not (c): not the document order — only a permutation of it. -/
private def lucene : Tree := .op .bool [w "a", .unary .plus (w "b") {}, .unary .prohibit (w "c") {}] {}
example : noBool lucene = false := by decide
example : leavesOf (esBuild cfg lucene) ≠ some (expectedLeaves cfg lucene) := by rw [esBuild_eq]; decide
example : leavesOf (esBuild cfg lucene) =
    some [(expectedLeaves cfg lucene)[1]!, (expectedLeaves cfg lucene)[0]!, (expectedLeaves cfg lucene)[2]!] := by
  rw [esBuild_eq]; decide
example : (leavesOf (esBuild cfg lucene)).map List.length = some (countTerms lucene) := by
  rw [esBuild_eq]; decide

/-- NEGATIVE witness for `cfgPlain`: a field option asking for the match type `bool` makes the clause of
the term `{"bool": {"text": {…}}}`, which reads as a compound clause without any leaf -/
private def cfgBool : EsCfg :=
  { fieldOptions := [("text".toList, [("match_type".toList, .str "bool".toList)])] }
example : cfgPlain cfgBool = false := by decide
example : leavesOf (esBuild cfgBool (w "a")) = some [] ∧ countTerms (w "a") = 1 ∧
    expectedLeaves cfgBool (w "a") ≠ [] := by
  refine ⟨?_, by decide, by decide⟩; rw [esBuild_eq]; decide

/-- a word with a wildcard on an analysed field: the hypotheses of `json_default_field` are satisfiable -/
example : (expectedItems cfg (w "a*")).map (fun i => (String.ofList (i.method cfg), i.kind, i.q.map String.ofList)) =
    [("query_string", .word, some "a*")] := by decide

/-- no `Supported` hypothesis: a regex yields no clause (here below a NOT, which builds an empty `must_not`) -/
example : leavesOf (esBuild cfg (.unary .not (.term .regex "/a/".toList {}) {})) = some [] ∧
    countTerms (.unary .not (.term .regex "/a/".toList {}) {}) = 0 := by
  refine ⟨?_, by decide⟩; rw [esBuild_eq]; decide

end Examples

/-- (kept from the stub stage; referenced by earlier evidence files) -/
theorem normalizeObject_none : normalizeObject .none = none := rfl

end Luqum.Props.C06
