import Luqum.Model.Es
namespace Luqum.Props.C19
open Luqum
theorem normalizeObject_none : normalizeObject .none = none := rfl
end Luqum.Props.C19
